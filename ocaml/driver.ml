(* Driver for the extracted model: parses the same case file as the Rust harness and prints
   one answer line per command in the same format.  Parsing / printing only. *)
open Model

(* ---- numbers ---- *)
let rec pos_of_int (i : int) : positive =
  if i = 1 then XH else if i land 1 = 0 then XO (pos_of_int (i lsr 1)) else XI (pos_of_int (i lsr 1))
let n_of_int (i : int) : n = if i = 0 then N0 else Npos (pos_of_int i)
let ten = n_of_int 10
let n_of_string (s : string) : n =
  if String.length s <= 18 then n_of_int (int_of_string s)
  else begin
    let acc = ref N0 in
    String.iter (fun c -> acc := N.add (N.mul !acc ten) (n_of_int (Char.code c - 48))) s;
    !acc
  end
let rec int_of_pos (p : positive) : int =
  match p with XH -> 1 | XO q -> 2 * int_of_pos q | XI q -> 2 * int_of_pos q + 1
let rec pos_bits (p : positive) : int = match p with XH -> 1 | XO q | XI q -> 1 + pos_bits q
let string_of_n (x : n) : string =
  match x with
  | N0 -> "0"
  | Npos p when pos_bits p <= 61 -> string_of_int (int_of_pos p)
  | _ ->
    let b = Buffer.create 40 in
    let rec go x acc =
      match x with
      | N0 -> acc
      | _ -> let (q, r) = N.div_eucl x ten in
             go q ((match r with N0 -> "0" | Npos p -> string_of_int (int_of_pos p)) :: acc) in
    List.iter (Buffer.add_string b) (go x []); Buffer.contents b
let z_of_string (s : string) : z =
  if String.length s > 0 && s.[0] = '-' then
    (match n_of_string (String.sub s 1 (String.length s - 1)) with N0 -> Z0 | Npos p -> Zneg p)
  else (match n_of_string s with N0 -> Z0 | Npos p -> Zpos p)

(* ---- answers ---- *)
let fault_s = function
  | Panic -> "F:Panic" | Overflow -> "F:Overflow" | UB -> "F:UB" | DebugAssert -> "F:DebugAssert"
  | OutOfFuel -> "F:OutOfFuel"
let so (f : 'a -> string) (o : 'a option outcome) : string =
  match o with Val (Some v) -> "S" ^ f v | Val None -> "N" | Fault e -> fault_s e
let sv (f : 'a -> string) (o : 'a outcome) : string =
  match o with Val v -> "V" ^ f v | Fault e -> fault_s e
let tf b = if b then "T" else "F"
let sn = string_of_n
let sb01 b = if b then "1" else "0"

(* ---- objects ---- *)
type obj =
  | Nothing
  | Faulted of fault
  | Qv of qvec
  | Rsq of n * rsq
  | Qwt of n * n * qwt            (* width, block size, tree *)
  | Bv of bool * bitvec           (* true = BitVectorMut *)
  | Rsn of rsnarrow
  | Rsw of rswide
  | Da of bool * darray
  | Hq of n * n * hqwt            (* width, block size *)
  | Wt of n * bool * bwt          (* width, compressed *)
  | Pending of string * string * n list   (* Huffman tree waiting for its code table: kind, elem, data *)

let width_of = function
  | "u8" | "i8" -> 8 | "u16" | "i16" -> 16 | "u32" | "i32" -> 32
  | "u64" | "i64" | "usize" | "isize" -> 64 | _ -> 128

let cur = ref Nothing
let cur_pfs : pfsupport list option ref = ref None
let cur_data : n list ref = ref []
let n_of_len (l : 'a list) = n_of_int (List.length l)

let range a b = let rec go i acc = if i < a then acc else go (i - 1) (i :: acc) in go b []

let nlen_int (x : n) : int = match x with N0 -> 0 | Npos p -> int_of_pos p

let rec nat_of_int i = if i <= 0 then O else S (nat_of_int (i - 1))

let build kind elem path (rest : string list) : obj =
  cur_pfs := None;
  let vals () = match rest with _ :: vs -> vs | [] -> [] in
  let of_outcome f o = match o with Val v -> f v | Fault e -> Faulted e in
  match kind with
  | "qv" ->
    (match path with
     | "default" -> Qv qvb_new
     | h when String.length h > 5 && String.sub h 0 5 = "hist:" ->
       (* a push / extend history on the builder: p<k> = k pushes, e<k> = one extend of k values *)
       let toks = List.filter (fun t -> t <> "") (String.split_on_char ',' (String.sub h 5 (String.length h - 5))) in
       let rec take k l = if k = 0 then ([], l) else (match l with [] -> ([], []) | x :: r -> let (a, b) = take (k - 1) r in (x :: a, b)) in
       let rec go b toks vs = match toks with
         | [] -> Val b
         | t :: rest ->
           let k = int_of_string (String.sub t 1 (String.length t - 1)) in
           let (now, later) = take k vs in
           if t.[0] = 'p' then
             (let rec pushes b l = match l with [] -> Val b | x :: r -> (match qvb_push b (as_u8 x) with Val b' -> pushes b' r | Fault e -> Fault e) in
              match pushes b now with Val b' -> go b' rest later | Fault e -> Fault e)
           else (match qvb_extend b now with Val b' -> go b' rest later | Fault e -> Fault e) in
       of_outcome (fun q -> Qv q) (go qvb_new toks (List.map z_of_string (vals ())))
     | _ -> of_outcome (fun q -> Qv q) (qv_from_iter (List.map z_of_string (vals ()))))
  | "rsq256" | "rsq512" ->
    let b = n_of_int (if kind = "rsq256" then 256 else 512) in
    (match path with
     | "default" -> of_outcome (fun r -> Rsq (b, r)) (rsq_default b)
     | _ -> of_outcome (fun r -> Rsq (b, r)) (rsq_new b (List.map n_of_string (vals ()))))
  | "qwt256" | "qwt512" | "qwt256pfs" | "qwt512pfs" ->
    let b = n_of_int (if kind = "qwt256" || kind = "qwt256pfs" then 256 else 512) in
    let w = n_of_int (width_of elem) in
    (match path with
     | "default" -> Qwt (w, b, qwt_default)
     | _ ->
       let data = List.map n_of_string (vals ()) in
       (if kind = "qwt256pfs" || kind = "qwt512pfs" then
          (* the constructor returns prefetch_support: None for the empty sequence *)
          (match qwt_pfs_new w data with Val p -> cur_pfs := (if data = [] then None else Some p) | Fault _ -> cur_pfs := None));
       of_outcome (fun t -> Qwt (w, b, t)) (qwt_new w b data))
  | "hqwt256" | "hqwt512" | "hqwt256pfs" | "hqwt512pfs" | "hwt" ->
    (match path with
     | "default" ->
       if kind = "hwt" then of_outcome (fun t -> Wt (n_of_int (width_of elem), true, t)) (wt_build (n_of_int (width_of elem)) true [] [])
       else Hq (n_of_int (width_of elem), n_of_int (if kind = "hqwt256" || kind = "hqwt256pfs" then 256 else 512), hq_default)
     | _ -> Pending (kind, elem, List.map n_of_string (vals ())))
  | "wt" ->
    let w = n_of_int (width_of elem) in
    (match path with
     | "default" -> of_outcome (fun t -> Wt (w, false, t)) (wt_build w false [] [])
     | _ -> of_outcome (fun t -> Wt (w, false, t)) (wt_build w false (List.map n_of_string (vals ())) []))
  | "bv" | "bvm" | "rsn" | "rsw" | "darray0" | "darray1" ->
    let bits_of_string str = if str = "-" then [] else List.init (String.length str) (fun i -> str.[i] = '1') in
    let is_pos = String.length path >= 3 && String.sub path 0 3 = "pos" in
    let bvo : bitvec outcome =
      if path = "default" || (kind = "bvm" && (path = "new" || path = "withcap")) then Val bv_empty
      else if path = "withzeros" then bvm_with_zeros (n_of_string (List.hd rest))
      else if is_pos then bv_from_positions (List.map n_of_string (vals ()))
      else bv_from_bools (match rest with _ :: b :: _ -> bits_of_string b | _ -> []) in
    (match kind with
     | "bv" -> of_outcome (fun b -> Bv (false, b)) bvo
     | "bvm" -> of_outcome (fun b -> Bv (true, b)) bvo
     | "rsn" -> if path = "default" then Rsn rsn_default else of_outcome (fun b -> of_outcome (fun r -> Rsn r) (rsn_new b)) bvo
     | "rsw" -> if path = "default" then Rsw rsw_default else of_outcome (fun b -> of_outcome (fun r -> Rsw r) (rsw_new b)) bvo
     | _ ->
       let s0 = (kind = "darray1") in
       if is_pos then of_outcome (fun d -> Da (s0, d)) (da_from_positions s0 (List.map n_of_string (vals ())))
       else of_outcome (fun b -> of_outcome (fun d -> Da (s0, d)) (da_new s0 b)) bvo)
  | _ -> Nothing

let join = String.concat ","

(* "V<n>;sym:content:len,..." *)
let parse_codes (spec : string) : (int * (int * n * n) list) option =
  if String.length spec < 2 || spec.[0] <> 'V' then None
  else
    match String.index_opt spec ';' with
    | None -> None
    | Some k ->
      let n = int_of_string (String.sub spec 1 (k - 1)) in
      let rest = String.sub spec (k + 1) (String.length spec - k - 1) in
      let ents = if rest = "" then [] else
          List.map (fun e -> match String.split_on_char ':' e with
              | [a; b; c] -> (int_of_string a, n_of_string b, n_of_string c)
              | _ -> failwith "codes") (String.split_on_char ',' rest) in
      Some (n, ents)
let codes_string (tab : pcode list) : string =
  let ents = List.filter (fun (_, c) -> c.pc_len <> N0) (List.mapi (fun i c -> (i, c)) tab) in
  "V" ^ string_of_int (List.length tab) ^ ";" ^
  String.concat "," (List.map (fun (i, c) -> string_of_int i ^ ":" ^ sn c.pc_content ^ ":" ^ sn c.pc_len) ents)
let n_cmp (a : n) (b : n) : int = if N.ltb a b then -1 else if N.eqb a b then 0 else 1

let resolve_pending (spec : string) : string =
  match !cur with
  | Pending (kind, elem, data) ->
    (match parse_codes spec with
     | None -> cur := Nothing; "-"
     | Some (n, ents) ->
       let frag = if kind = "hwt" then n_of_int 1 else n_of_int 2 in
       let table = List.init n (fun i ->
           match List.find_opt (fun (s, _, _) -> s = i) ents with
           | Some (_, c, l) -> { pc_content = c; pc_len = l } | None -> { pc_content = N0; pc_len = N0 }) in
       (* the order in which the builder assigned the codes: by length, then by decreasing
          scratch value c[j] (= the code with its fragments reversed) *)
       let revd = List.map (fun (s, c, l) -> (s, l, rev_frags frag c l N0 (nat_of_int 40))) ents in
       let sorted = List.stable_sort (fun (_, l1, r1) (_, l2, r2) ->
           let c = n_cmp l1 l2 in if c <> 0 then c else n_cmp r2 r1) revd in
       let f = List.map (fun (s, l, _) -> (n_of_int s, l)) sorted in
       let crafted = if n = 0 then Val [] else (if kind = "hwt" then craft2 else craft4) f (n_of_int (n - 1)) in
       let w = n_of_int (width_of elem) in
       (match crafted with
        | Fault e -> cur := Faulted e; fault_s e
        | Val ctab ->
          let b = n_of_int (if kind = "hqwt256" || kind = "hqwt256pfs" then 256 else 512) in
          (if kind = "hwt" then
             (match wt_build w true data table with Val t -> cur := Wt (w, true, t) | Fault e -> cur := Faulted e)
           else
             ((if kind = "hqwt256pfs" || kind = "hqwt512pfs" then
                 (match hq_pfs_new data table with Val p -> cur_pfs := (if data = [] then None else Some p) | Fault _ -> cur_pfs := None));
              match hq_build b data table with Val t -> cur := Hq (w, b, t) | Fault e -> cur := Faulted e));
          codes_string ctab))
  | _ -> "-"

let query (op : string) (a : n list) : string =
  let a0 () = List.nth a 0 and a1 () = List.nth a 1 in
  match !cur with
  | Nothing -> "-"
  | Faulted e -> "X"
  | Qv q ->
    (match op with
     | "len" -> "V" ^ sn (qv_len q)
     | "isempty" -> tf (qv_is_empty q)
     | "get" -> so sn (qv_get q (a0 ()))
     | "uget" -> sv sn (qv_get_unchecked q (a0 ()))
     | "getall" -> join (List.map (fun i -> so sn (qv_get q (n_of_int i))) (range 0 (nlen_int (qv_len q) + 1)))
     | _ -> "-")
  | Rsq (b, r) ->
    (match op with
     | "len" -> "V" ^ sn (rsq_len r)
     | "isempty" -> tf (rsq_is_empty r)
     | "get" -> so sn (rsq_get r (a0 ()))
     | "uget" -> sv sn (rsq_get_unchecked r (a0 ()))
     | "rank" -> so sn (rsq_rank b r (a0 ()) (a1 ()))
     | "urank" -> sv sn (rsq_rank_unchecked b r (a0 ()) (a1 ()))
     | "select" -> so sn (rsq_select b r (a0 ()) (a1 ()))
     | "uselect" -> sv sn (rsq_select_unchecked b r (a0 ()) (a1 ()))
     | "occs" -> so sn (rsq_occs r (a0 ()))
     | "uoccs" -> sv sn (rsq_occs_unchecked r (a0 ()))
     | "occssmaller" -> so sn (rsq_occs_smaller_q r (a0 ()))
     | "uoccssmaller" -> sv sn (rsq_occs_smaller_unchecked r (a0 ()))
     | "getall" -> join (List.map (fun i -> so sn (rsq_get r (n_of_int i))) (range 0 (nlen_int (rsq_len r) + 1)))
     | "rankall" -> join (List.map (fun i -> so sn (rsq_rank b r (a0 ()) (n_of_int i))) (range 0 (nlen_int (rsq_len r) + 1)))
     | "selectall" -> join (List.map (fun k -> so sn (rsq_select b r (a0 ()) (n_of_int k))) (range 0 (nlen_int (a1 ()))))
     | _ -> "-")
  | Bv (m, b) ->
    let sbo o = match o with Val (Some v) -> "S" ^ sb01 v | Val None -> "N" | Fault e -> fault_s e in
    let n = nlen_int (bv_len b) in
    let collect bit st = join (List.map sn (pi_collect bit b st (nat_of_int (n + 2)))) in
    (match op with
     | "len" -> "V" ^ sn (bv_len b)
     | "isempty" -> tf (bv_is_empty b)
     | "countones" -> "V" ^ sn (bv_count_ones b)
     | "countzeros" -> sv sn (bv_count_zeros b)
     | "get" -> sbo (bv_get b (a0 ()))
     | "uget" -> sv sb01 (bv_get_unchecked b (a0 ()))
     | "getbits" -> so sn (bv_get_bits m b (a0 ()) (a1 ()))
     | "ugetbits" -> sv sn (bv_get_bits_unchecked b (a0 ()) (a1 ()))
     | "getword" -> sv sn (bv_get_word b (a0 ()))
     | "getall" -> join (List.map (fun i -> sbo (bv_get b (n_of_int i))) (range 0 (n + 1)))
     | "ones" -> collect true pi_new
     | "zeros" -> collect false pi_new
     | "oneswp" -> collect true (pi_with_pos true b (a0 ()))
     | "zeroswp" -> collect false (pi_with_pos false b (a0 ()))
     | "bits" -> String.concat "" (List.map sb01 (bv_abs b))
     | "getbitsall" -> join (List.map (fun i -> so sn (bv_get_bits m b (n_of_int i) (a0 ()))) (range 0 (n + 1)))
     | "getwordall" -> join (List.map (fun i -> sv sn (bv_get_word b (n_of_int i))) (range 0 ((n + 63) / 64)))
     | _ -> "-")
  | Rsn r ->
    let sbo o = match o with Val (Some v) -> "S" ^ sb01 v | Val None -> "N" | Fault e -> fault_s e in
    let n = nlen_int (bv_len r.rsn_bv) in
    (match op with
     | "get" -> sbo (rsn_get r (a0 ()))
     | "rank1" -> so sn (rsn_rank1 r (a0 ()))
     | "rank0" -> so sn (rsn_rank0 r (a0 ()))
     | "select1" -> so sn (rsn_select1 r (a0 ()))
     | "select0" -> so sn (rsn_select0 r (a0 ()))
     | "nones" -> sv sn (rsn_n_ones r)
     | "nzeros" | "tnzeros" -> sv sn (rsn_n_zeros r)
     | "urank1" -> sv sn (rsn_rank1_unchecked r (a0 ()))
     | "uselect1" -> sv sn (rsn_select_unchecked true r (a0 ()))
     | "uselect0" -> sv sn (rsn_select_unchecked false r (a0 ()))
     | "getall" -> join (List.map (fun i -> sbo (rsn_get r (n_of_int i))) (range 0 (n + 1)))
     | "rank1all" -> join (List.map (fun i -> so sn (rsn_rank1 r (n_of_int i))) (range 0 (n + 1)))
     | "rank0all" -> join (List.map (fun i -> so sn (rsn_rank0 r (n_of_int i))) (range 0 (n + 1)))
     | "select1all" -> join (List.map (fun k -> so sn (rsn_select1 r (n_of_int k))) (range 0 (nlen_int (a0 ()))))
     | "select0all" -> join (List.map (fun k -> so sn (rsn_select0 r (n_of_int k))) (range 0 (nlen_int (a0 ()))))
     | _ -> "-")
  | Rsw r ->
    let sbo o = match o with Val (Some v) -> "S" ^ sb01 v | Val None -> "N" | Fault e -> fault_s e in
    let n = nlen_int (bv_len r.rsw_bv) in
    (match op with
     | "len" -> "V" ^ sn (bv_len r.rsw_bv)
     | "get" -> sbo (rsw_get r (a0 ()))
     | "rank1" -> so sn (rsw_rank1 r (a0 ()))
     | "rank0" -> so sn (rsw_rank0 r (a0 ()))
     | "select1" -> so sn (rsw_select1 r (a0 ()))
     | "select0" -> so sn (rsw_select0 r (a0 ()))
     | "nones" -> sv sn (rsw_n_ones r)
     | "nzeros" | "tnzeros" -> "V" ^ sn (rsw_n_zeros_q r)
     | "urank1" -> sv sn (rsw_rank1_unchecked r (a0 ()))
     | "urank0" -> sv sn (rsw_rank0_unchecked r (a0 ()))
     | "uselect1" -> sv sn (rsw_select_unchecked true r (a0 ()))
     | "uselect0" -> sv sn (rsw_select_unchecked false r (a0 ()))
     | "getall" -> join (List.map (fun i -> sbo (rsw_get r (n_of_int i))) (range 0 (n + 1)))
     | "rank1all" -> join (List.map (fun i -> so sn (rsw_rank1 r (n_of_int i))) (range 0 (n + 1)))
     | "rank0all" -> join (List.map (fun i -> so sn (rsw_rank0 r (n_of_int i))) (range 0 (n + 1)))
     | "select1all" -> join (List.map (fun k -> so sn (rsw_select1 r (n_of_int k))) (range 0 (nlen_int (a0 ()))))
     | "select0all" -> join (List.map (fun k -> so sn (rsw_select0 r (n_of_int k))) (range 0 (nlen_int (a0 ()))))
     | _ -> "-")
  | Da (s0, d) ->
    let sbo o = match o with Val (Some v) -> "S" ^ sb01 v | Val None -> "N" | Fault e -> fault_s e in
    let b = d.da_bv in
    let n = nlen_int (da_len d) in
    let collect bit st = join (List.map sn (pi_collect bit b st (nat_of_int (n + 2)))) in
    (match op with
     | "len" -> "V" ^ sn (da_len d)
     | "isempty" -> tf (bv_is_empty b)
     | "countones" -> "V" ^ sn (da_count_ones d)
     | "countzeros" -> sv sn (da_count_zeros d)
     | "get" -> sbo (da_get d (a0 ()))
     | "select1" -> so sn (da_select1 d (a0 ()))
     | "select0" -> so sn (da_select0 s0 d (a0 ()))
     | "uselect1" -> sv sn (match da_select1 d (a0 ()) with Val (Some v) -> Val v | Val None -> Fault Panic | Fault e -> Fault e)
     | "uselect0" -> sv sn (match da_select0 s0 d (a0 ()) with Val (Some v) -> Val v | Val None -> Fault Panic | Fault e -> Fault e)
     | "getall" -> join (List.map (fun i -> sbo (da_get d (n_of_int i))) (range 0 (n + 1)))
     | "select1all" -> join (List.map (fun k -> so sn (da_select1 d (n_of_int k))) (range 0 (nlen_int (a0 ()))))
     | "select0all" -> join (List.map (fun k -> so sn (da_select0 s0 d (n_of_int k))) (range 0 (nlen_int (a0 ()))))
     | "ones" -> collect true pi_new
     | "zeros" -> collect false pi_new
     | "oneswp" -> collect true (pi_with_pos true b (a0 ()))
     | "zeroswp" -> collect false (pi_with_pos false b (a0 ()))
     | "bits" -> String.concat "" (List.map sb01 (bv_abs b))
     | _ -> "-")
  | Pending _ -> "-"
  | Hq (w, b, t) ->
    (match op with
     | "len" -> "V" ^ sn (hq_len t)
     | "isempty" -> tf (hq_len t = N0)
     | "nlevels" -> "V" ^ sn t.h_n_levels
     | "get" -> so sn (hq_get w b t (a0 ()))
     | "uget" -> sv sn (hq_get_unchecked w b t (a0 ()))
     | "rank" -> so sn (hq_rank b t (a0 ()) (a1 ()))
     | "urank" -> sv sn (hq_rank_unchecked b t (a0 ()) (a1 ()))
     | "rankp" -> (match !cur_pfs with
         | Some p -> so sn (hq_rank_prefetch_pfs b t p (a0 ()) (a1 ()))
         | None -> so sn (hq_rank_prefetch b t (a0 ()) (a1 ())))
     | "urankp" -> sv sn (hq_rank_prefetch_unchecked b t (a0 ()) (a1 ()))
     | "select" -> so sn (hq_select b t (a0 ()) (a1 ()))
     | "uselect" -> sv sn (hq_select_unchecked b t (a0 ()) (a1 ()))
     | "getall" -> join (List.map (fun i -> so sn (hq_get w b t (n_of_int i))) (range 0 (nlen_int (hq_len t) + 1)))
     | "rankall" -> join (List.map (fun i -> so sn (hq_rank b t (a0 ()) (n_of_int i))) (range 0 (nlen_int (hq_len t) + 1)))
     | "rankpall" -> join (List.map (fun i -> match !cur_pfs with
         | Some p -> so sn (hq_rank_prefetch_pfs b t p (a0 ()) (n_of_int i))
         | None -> so sn (hq_rank_prefetch b t (a0 ()) (n_of_int i))) (range 0 (nlen_int (hq_len t) + 1)))
     | "selectall" -> join (List.map (fun k -> so sn (hq_select b t (a0 ()) (n_of_int k))) (range 0 (nlen_int (a1 ()))))
     | _ -> "-")
  | Wt (w, c, t) ->
    (match op with
     | "len" -> "V" ^ sn t.w_n
     | "isempty" -> tf (t.w_n = N0)
     | "nlevels" -> "V" ^ sn t.w_n_levels
     | "get" -> so sn (wt_get w c t (a0 ()))
     | "uget" -> sv sn (wt_get_unchecked w c t (a0 ()))
     | "rank" -> so sn (wt_rank w c t (a0 ()) (a1 ()))
     | "urank" -> sv sn (wt_rank_unchecked w c t (a0 ()) (a1 ()))
     | "select" -> so sn (wt_select w c t (a0 ()) (a1 ()))
     | "uselect" -> sv sn (wt_select_unchecked w c t (a0 ()) (a1 ()))
     | "getall" -> join (List.map (fun i -> so sn (wt_get w c t (n_of_int i))) (range 0 (nlen_int t.w_n + 1)))
     | "rankall" -> join (List.map (fun i -> so sn (wt_rank w c t (a0 ()) (n_of_int i))) (range 0 (nlen_int t.w_n + 1)))
     | "selectall" -> join (List.map (fun k -> so sn (wt_select w c t (a0 ()) (n_of_int k))) (range 0 (nlen_int (a1 ()))))
     | _ -> "-")
  | Qwt (w, b, t) ->
    (match op with
     | "len" -> "V" ^ sn (qwt_len t)
     | "isempty" -> tf (qwt_is_empty t)
     | "nlevels" -> "V" ^ sn t.q_n_levels
     | "sigma" -> (match qwt_sigma t with Some s -> "S" ^ sn s | None -> "N")
     | "get" -> so sn (qwt_get w b t (a0 ()))
     | "uget" -> sv sn (qwt_get_unchecked w b t (a0 ()))
     | "rank" -> so sn (qwt_rank w b t (a0 ()) (a1 ()))
     | "urank" -> sv sn (qwt_rank_unchecked w b t (a0 ()) (a1 ()))
     | "rankp" -> (match !cur_pfs with
         | Some p -> so sn (qwt_rank_prefetch_pfs w b t p (a0 ()) (a1 ()))
         | None -> so sn (qwt_rank_prefetch w b t (a0 ()) (a1 ())))
     | "urankp" -> sv sn (qwt_rank_prefetch_unchecked w b t (a0 ()) (a1 ()))
     | "select" -> so sn (qwt_select w b t (a0 ()) (a1 ()))
     | "uselect" -> sv sn (qwt_select_unchecked w b t (a0 ()) (a1 ()))
     | "getall" -> join (List.map (fun i -> so sn (qwt_get w b t (n_of_int i))) (range 0 (nlen_int (qwt_len t) + 1)))
     | "rankall" -> join (List.map (fun i -> so sn (qwt_rank w b t (a0 ()) (n_of_int i))) (range 0 (nlen_int (qwt_len t) + 1)))
     | "rankpall" -> join (List.map (fun i -> match !cur_pfs with
         | Some p -> so sn (qwt_rank_prefetch_pfs w b t p (a0 ()) (n_of_int i))
         | None -> so sn (qwt_rank_prefetch w b t (a0 ()) (n_of_int i))) (range 0 (nlen_int (qwt_len t) + 1)))
     | "selectall" -> join (List.map (fun k -> so sn (qwt_select w b t (a0 ()) (n_of_int k))) (range 0 (nlen_int (a1 ()))))
     | _ -> "-")

let iter_run (src : string) (ops : string) (a : n list) : string =
  let out = ref [] in
  let emit x = out := x :: !out in
  (* nth(k) / nth_back(k): k+1 steps, the answer of the last one (None as soon as one step returns None);
     k = 1 (k, r), 7 (j, q), usize::MAX (K, R) *)
  let nth_count ch = match ch with 'k' | 'r' -> 1 | 'j' | 'q' -> 7 | _ -> max_int in
  let nth_steps (step : unit -> string option) (cnt : int) : unit =
    (* step () = Some "S.." (a value), Some "N", or Some fault string; returns when done *)
    let rec go c = match step () with
      | Some a when String.length a > 0 && a.[0] = 'S' -> if c = 0 then emit a else go (c - 1)
      | Some a -> emit a
      | None -> emit "X" in
    go cnt in
  let tree_iter (get_u : n -> n outcome) (len : n) =
    let st = ref (wtit_new len) in
    String.iter (fun ch -> match ch with
      | 'k' | 'j' | 'K' -> nth_steps (fun () -> match wtit_next get_u !st with
            | Val (v, st') -> st := st'; Some (match v with Some x -> "S" ^ sn x | None -> "N") | Fault e -> Some (fault_s e)) (nth_count ch)
      | 'r' | 'q' | 'R' -> nth_steps (fun () -> match wtit_next_back get_u !st with
            | Val (v, st') -> st := st'; Some (match v with Some x -> "S" ^ sn x | None -> "N") | Fault e -> Some (fault_s e)) (nth_count ch)
      | 'n' -> (match wtit_next get_u !st with Val (v, st') -> st := st'; emit (match v with Some x -> "S" ^ sn x | None -> "N") | Fault e -> emit (fault_s e))
      | 'b' -> (match wtit_next_back get_u !st with Val (v, st') -> st := st'; emit (match v with Some x -> "S" ^ sn x | None -> "N") | Fault e -> emit (fault_s e))
      | 'l' -> emit (sv sn (wtit_len !st))
      | _ -> emit "X") ops in
  (match !cur with
   | Qwt (w, b, t) -> tree_iter (qwt_get_unchecked w b t) (qwt_len t)
   | Hq (w, b, t) -> tree_iter (hq_get_unchecked w b t) (hq_len t)
   | Wt (w, c, t) -> tree_iter (wt_get_unchecked w c t) t.w_n
   | Qv q ->
     let i = ref N0 in
     String.iter (fun ch -> match ch with
       | 'k' | 'j' | 'K' -> nth_steps (fun () -> match qvit_next q !i with
             | Val (v, i') -> i := i'; Some (match v with Some x -> "S" ^ sn x | None -> "N") | Fault e -> Some (fault_s e)) (nth_count ch)
       | 'n' -> (match qvit_next q !i with Val (v, i') -> i := i'; emit (match v with Some x -> "S" ^ sn x | None -> "N") | Fault e -> emit (fault_s e))
       | _ -> emit "X") ops
   | Rsq (_, r) ->
     let q = r.rsq_qv in
     let i = ref N0 in
     String.iter (fun ch -> match ch with
       | 'k' | 'j' | 'K' -> nth_steps (fun () -> match qvit_next q !i with
             | Val (v, i') -> i := i'; Some (match v with Some x -> "S" ^ sn x | None -> "N") | Fault e -> Some (fault_s e)) (nth_count ch)
       | 'n' -> (match qvit_next q !i with Val (v, i') -> i := i'; emit (match v with Some x -> "S" ^ sn x | None -> "N") | Fault e -> emit (fault_s e))
       | _ -> emit "X") ops
   | Bv (_, b) | Da (_, { da_bv = b; _ }) ->
     (match src with
      | "iter" | "bits" | "into" ->
        let i = ref N0 in
        String.iter (fun ch -> match ch with
          | 'k' | 'j' | 'K' -> nth_steps (fun () -> match (if src = "into" then bvinto_next b !i else bvit_next b !i) with
              | Val (v, i') -> i := i'; Some (match v with Some x -> "S" ^ sb01 x | None -> "N") | Fault e -> Some (fault_s e)) (nth_count ch)
          | 'n' -> (match (if src = "into" then bvinto_next b !i else bvit_next b !i) with
              | Val (v, i') -> i := i'; emit (match v with Some x -> "S" ^ sb01 x | None -> "N") | Fault e -> emit (fault_s e))
          | 'l' -> emit (sv sn (bvit_len b !i))
          | _ -> emit "X") ops
      | "ones" | "zeros" | "oneswp" | "zeroswp" ->
        let bit = (src = "ones" || src = "oneswp") in
        let st = ref (if src = "ones" || src = "zeros" then pi_new else pi_with_pos bit b (List.hd a)) in
        String.iter (fun ch -> match ch with
          | 'k' | 'j' | 'K' -> nth_steps (fun () -> let (v, st') = pi_next bit b !st in st := st';
              Some (match v with Some x -> "S" ^ sn x | None -> "N")) (nth_count ch)
          | 'n' -> let (v, st') = pi_next bit b !st in st := st'; emit (match v with Some x -> "S" ^ sn x | None -> "N")
          | _ -> emit "X") ops
      | _ -> emit "-")
   | _ -> emit "-");
  match !out with ["-"] -> "-" | l -> String.concat "," (List.rev l)

let exec (toks : string list) : string =
  match toks with
  | "NEW" :: kind :: elem :: path :: rest ->
    cur := build kind elem path rest;
    (match !cur with Nothing -> "-" | Faulted e -> fault_s e | _ -> "OK")
  | "Q" :: "codes" :: spec :: _ -> resolve_pending spec
  | "Q" :: "codes" :: [] -> (match !cur with Pending _ -> cur := Nothing; "-" | _ -> "-")
  | "Q" :: op :: args -> query op (List.map n_of_string args)
  | "OP" :: op :: args ->
    (match !cur with
     | Bv (m, b) ->
       let num i = n_of_string (List.nth args i) in
       if op = "tomut" then (cur := Bv (true, b); "OK")
       else if op = "toimm" then (cur := Bv (false, b); "OK")
       else if not m then "X"
       else begin
         let r = match op with
           | "push" -> bvm_push b (num 0 <> N0)
           | "append" -> bvm_append_bits b (num 0) (num 1)
           | "zeros" -> bvm_extend_with_zeros b (num 0)
           | "set" -> bvm_set b (num 0) (num 1 <> N0)
           | "setbits" -> bvm_set_bits b (num 0) (num 1) (num 2)
           | "extbits" -> let str = List.hd args in
             bvm_extend_bools b (if str = "-" then [] else List.init (String.length str) (fun i -> str.[i] = '1'))
           | "extpos" -> bvm_extend_positions b (List.map n_of_string args)
           | _ -> Val b in
         match r with Val b' -> cur := Bv (m, b'); "OK" | Fault e -> fault_s e
       end
     | _ -> "-")
  | "ITER" :: src :: ops :: args -> iter_run src ops (List.map n_of_string args)
  | "SPACE" :: _ ->
    (* reported space_usage_byte and retained heap bytes ("?" where the model does not predict it) *)
    (match !cur with
     | Qv q -> "V" ^ sn (qv_space q) ^ " " ^ sn (qv_heap q)
     | Rsq (_, r) -> "V" ^ sn (rsq_space r) ^ " " ^ sn (rsq_heap r)
     | Bv (false, b) -> "V" ^ sn (bv_space b) ^ " " ^ sn (bv_heap b)
     | Bv (true, b) -> "V? ?"
     | Rsn r -> "V" ^ sn (rsn_space r) ^ " " ^ sn (rsn_heap r)
     | Rsw r -> "V" ^ sn (rsw_space r) ^ " " ^ sn (rsw_heap r)
     | Da (_, d) -> "V" ^ sn (da_space d) ^ " " ^ sn (da_heap d)
     | Qwt (_, _, t) -> "V" ^ sn (qwt_space t !cur_pfs) ^ " " ^ (if t.q_n = N0 then "?" else sn (qwt_heap abi64 t !cur_pfs))
     | Hq (_, _, t) -> "V" ^ sn (hq_space t !cur_pfs) ^ " ?"
     | Wt (_, c, t) -> "V" ^ sn (wt_space c t) ^ " " ^ (if c || t.w_n = N0 then "?" else sn (wt_heap_plain abi64 t))
     | _ -> "-")
  | "SER" :: id :: hex :: _ ->
    (* decode the implementation's bytes with the schema generated from the Rust struct
       definitions, re-encode, and print the result in the implementation's format *)
    let nb = String.length hex / 2 in
    let bytes = List.init nb (fun i -> n_of_int (int_of_string ("0x" ^ String.sub hex (2 * i) 2))) in
    (match List.assoc_opt (n_of_int (int_of_string id)) (List.map (fun (a, b) -> (a, b)) all_schemas) with
     | None -> "-"
     | Some t ->
       let hex_of out =
         let b = Buffer.create (2 * nb) in
         List.iter (fun x -> Buffer.add_string b (Printf.sprintf "%02x" (nlen_int x))) out;
         "V" ^ string_of_int (List.length out) ^ ":" ^ Buffer.contents b in
       (match decode t bytes with
        | Some (v, []) ->
          let out = encode t v in
          if not (wt t v) then "Vschema-illtyped"
          else if hex_of out <> "V" ^ string_of_int nb ^ ":" ^ hex then "Vschema-reencode-differs"
          else begin
            (* the model's own internal state, encoded with the same schema *)
            let st : value option = match !cur with
              | Qv q -> Some (qv_value q)
              | Rsq (_, r) -> Some (rsq_value r)
              | Bv (_, b) -> Some (bv_value b)
              | Rsn r -> Some (rsn_value r)
              | Rsw r -> Some (rsw_value r)
              | Da (_, d) -> Some (da_value d)
              | Qwt (_, _, t) -> Some (qwt_value t !cur_pfs)
              | Hq (_, _, t) -> Some (hq_value t !cur_pfs)
              | Wt (_, _, t) -> Some (wt_value t)
              | _ -> None in
            match st with
            | None -> hex_of out
            | Some sv ->
              let mine = encode t sv in
              let rec diff i a b = match a, b with
                | [], [] -> None
                | x :: a', y :: b' -> if N.eqb x y then diff (i + 1) a' b' else Some (i, nlen_int x, nlen_int y)
                | x :: _, [] -> Some (i, nlen_int x, -1)
                | [], y :: _ -> Some (i, -1, nlen_int y) in
              (match diff 0 mine bytes with
               | None -> hex_of mine
               | Some (i, m, r) -> Printf.sprintf "Vstate-differs-at-byte-%d(model=%d,impl=%d,model-len=%d,impl-len=%d)" i m r (List.length mine) nb)
          end
        | Some (_, _ :: _) -> "Vschema-trailing-bytes"
        | None -> "Vschema-decode-failed"))
  | "FN" :: "selword" :: w :: k :: _ -> sv sn (select_in_word (n_of_string w) (n_of_string k))
  | "FN" :: "selword128" :: w :: k :: _ -> sv sn (select_in_word_u128 (n_of_string w) (n_of_string k))
  | "FN" :: "popcnt" :: n :: ws ->
    let n = int_of_string n in
    let n = if n = 1 || n = 2 || n = 3 || n = 4 || n = 8 then n else 16 in
    let rec nat_of_int i = if i = 0 then O else S (nat_of_int (i - 1)) in
    "V" ^ sn (popcnt_wide (nat_of_int n) (List.map n_of_string ws))
  | "FN" :: "msb" :: w :: v :: _ -> sv sn (msb_w (n_of_int (min 128 (if w = "65" then 64 else int_of_string w))) (n_of_string v))
  | "FN" :: "part4" :: w :: shift :: vs ->
    let w = int_of_string w in
    let w = if w = 65 then 64 else if w > 128 then 128 else w in
    (match stable_partition_of_4 (n_of_int w) (List.map n_of_string vs) (n_of_string shift) with
     | Val l -> join (List.map sn l) | Fault e -> fault_s e)
  | "FN" :: "part2" :: w :: shift :: vs ->
    let w = int_of_string w in
    let w = if w = 65 then 64 else if w > 128 then 128 else w in
    (match stable_partition_of_2 (n_of_int w) (List.map n_of_string vs) (n_of_string shift) with
     | Val l -> join (List.map sn l) | Fault e -> fault_s e)
  | "FN" :: "remap" :: vs ->
    let input = List.map n_of_string vs in
    (* the hash set's iteration order is unknown: use the reverse order of first occurrence *)
    let uniq = List.fold_left (fun acc x -> if List.exists (fun y -> N.eqb x y) acc then acc else x :: acc) [] input in
    (match text_remap uniq input with
     | Val (out, d) -> "V" ^ sn d ^ ";" ^ join (List.map sn out)
     | Fault e -> fault_s e)
  | _ -> "-"

let () =
  let ic = if Array.length Sys.argv > 1 then open_in Sys.argv.(1) else stdin in
  (try
     while true do
       let line = String.trim (input_line ic) in
       if line <> "" && line.[0] <> '#' then begin
         let toks = List.filter (fun s -> s <> "") (String.split_on_char ' ' line) in
         (match toks with
          | "CASE" :: id :: _ -> print_endline ("CASE " ^ id)
          | "SKIP" :: _ -> print_endline "A"
          | _ -> print_endline (try exec toks with Stack_overflow -> "-SO" | Not_found -> "-NF" | Failure m -> "-ERR:" ^ m))
       end
     done
   with End_of_file -> ());
  flush stdout
