#!/bin/bash
# build the extracted model + driver (ocamlfind ocamlopt)
set -e
cd "$(dirname "$0")"
mkdir -p _build
cp ../coq/model.ml ../coq/model.mli driver.ml _build/
cd _build
ocamlfind ocamlopt -O3 -unboxed-types 2>/dev/null || true
ocamlfind ocamlopt -w -a -o model_driver model.mli model.ml driver.ml
