// Counting allocator: live requested bytes (deterministic; no allocator rounding).
use std::alloc::{GlobalAlloc, Layout, System};
use std::sync::atomic::{AtomicIsize, Ordering};

pub struct Counting;
static LIVE: AtomicIsize = AtomicIsize::new(0);

unsafe impl GlobalAlloc for Counting {
    unsafe fn alloc(&self, l: Layout) -> *mut u8 {
        LIVE.fetch_add(l.size() as isize, Ordering::Relaxed);
        System.alloc(l)
    }
    unsafe fn dealloc(&self, p: *mut u8, l: Layout) {
        LIVE.fetch_sub(l.size() as isize, Ordering::Relaxed);
        System.dealloc(p, l)
    }
    unsafe fn realloc(&self, p: *mut u8, l: Layout, new_size: usize) -> *mut u8 {
        LIVE.fetch_add(new_size as isize - l.size() as isize, Ordering::Relaxed);
        System.realloc(p, l, new_size)
    }
    unsafe fn alloc_zeroed(&self, l: Layout) -> *mut u8 {
        LIVE.fetch_add(l.size() as isize, Ordering::Relaxed);
        System.alloc_zeroed(l)
    }
}

pub fn live() -> isize {
    LIVE.load(Ordering::Relaxed)
}
