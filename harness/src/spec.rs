// Native specification oracle: answers computed by naive scans over the plain input, following
// the text of the properties.  No qwt structure is built here (only the free functions of
// qwt::utils are called, in `exec_fn(true, ..)`, for C17).
use crate::objs::{so, tf, guard};

fn sb(o: Option<bool>) -> String {
    match o {
        Some(v) => format!("S{}", v as u8),
        None => "N".into(),
    }
}

#[derive(Default)]
pub struct State {
    kind: String,
    elem: String,
    path: String,
    data: Vec<u128>,  // symbols, or bits as 0/1
    built: bool,
    slots: std::collections::HashMap<String, (String, Vec<u128>)>,
}

fn bitlen(x: u128) -> u32 {
    128 - x.leading_zeros()
}

fn parse_nums(t: &[&str]) -> Vec<u128> {
    // a token is a number, or `v*c` (v repeated c times), or `a..b*c` (each of a, a+1, .., b-1 repeated c times): long
    // inputs with many distinct symbols stay short on the command line
    let one = |x: &str| -> u128 {
        if x.starts_with('-') {
            x.parse::<i128>().unwrap() as u128
        } else {
            x.parse::<u128>().unwrap()
        }
    };
    let mut out = Vec::new();
    for x in t {
        if let Some((v, c)) = x.split_once('*') {
            let c: usize = c.parse().unwrap();
            if let Some((a, b)) = v.split_once("..") {
                for s in one(a)..one(b) {
                    out.extend(std::iter::repeat(s).take(c));
                }
            } else {
                out.extend(std::iter::repeat(one(v)).take(c));
            }
        } else {
            out.push(one(x));
        }
    }
    out
}

fn rank(d: &[u128], c: u128, i: usize) -> usize {
    d[..i.min(d.len())].iter().filter(|&&x| x == c).count()
}
fn select(d: &[u128], c: u128, k: usize) -> Option<usize> {
    let mut seen = 0usize;
    for (p, &x) in d.iter().enumerate() {
        if x == c {
            if seen == k {
                return Some(p);
            }
            seen += 1;
        }
    }
    None
}

impl State {
    fn family(&self) -> &'static str {
        match self.kind.as_str() {
            k if k.starts_with("qwt") => "q",
            k if k.starts_with("hqwt") => "hq",
            "wt" => "w",
            "hwt" => "hw",
            "rsq256" | "rsq512" => "rsq",
            "rsn" => "rsn",
            "rsw" => "rsw",
            "darray0" => "da0",
            "darray1" => "da1",
            "bv" => "bv",
            "bvm" => "bvm",
            "qv" => "qv",
            _ => "?",
        }
    }

    pub fn exec(&mut self, t: &[&str]) -> String {
        match t[0] {
            "NEW" => {
                self.kind = t[1].into();
                self.elem = t[2].into();
                self.path = t[3].into();
                self.built = true;
                let rest = &t[4..];
                let fam = self.family();
                self.data = match fam {
                    "rsn" | "rsw" | "da0" | "da1" | "bv" | "bvm" => {
                        if self.path == "default" || self.path == "new" && fam == "bvm" || self.path == "withcap" {
                            vec![]
                        } else if self.path == "withzeros" {
                            vec![0; rest[0].parse().unwrap()]
                        } else if self.path.starts_with("pos") {
                            let pos = parse_nums(&rest[1..]);
                            // documented panic: not strictly increasing (DArray), not convertible
                            if fam.starts_with("da") {
                                let signed: Vec<i128> = pos.iter().map(|&x| x as i128).collect();
                                if signed.windows(2).any(|w| w[0] >= w[1]) || signed.iter().any(|&x| x < 0) {
                                    self.built = false;
                                    return "P".into();
                                }
                            }
                            let mut bits = vec![];
                            for &p in &pos {
                                let p = p as usize;
                                if p >= bits.len() {
                                    bits.resize(p + 1, 0);
                                }
                                bits[p] = 1;
                            }
                            bits
                        } else if rest.len() >= 2 && rest[1] != "-" {
                            rest[1].bytes().map(|c| (c == b'1') as u128).collect()
                        } else {
                            vec![]
                        }
                    }
                    "qv" | "rsq" => {
                        if self.path == "default" { vec![] } else { parse_nums(&rest[1..]).iter().map(|&x| x & 3).collect() }
                    }
                    _ => {
                        if self.path == "default" { vec![] } else { parse_nums(&rest[1..]) }
                    }
                };
                "OK".into()
            }
            "Q" => {
                if !self.built {
                    return "X".into();
                }
                self.q(t[1], &parse_nums(&t[2..]))
            }
            "OP" => self.op(t[1], &t[2..]),
            "ITER" => self.iter(t[1], t[2], &parse_nums(&t[3..])),
            "SER" => "-".into(),
            "RT" => "TT".into(),
            "CLONE" => "T".into(),
            "STORE" => {
                self.slots.insert(t[1].into(), (self.kind.clone() + ":" + &self.elem, self.data.clone()));
                "OK".into()
            }
            "SWAP" => {
                let key = self.kind.clone() + ":" + &self.elem;
                let tree = matches!(self.family(), "q" | "hq" | "w" | "hw");
                match self.slots.get_mut(t[1]) {
                    Some((k, d)) if *k == key && tree => {
                        std::mem::swap(d, &mut self.data);
                        "T".into()
                    }
                    Some(_) => "F".into(),
                    None => "X".into(),
                }
            }
            "CLONEFROM" => {
                let key = self.kind.clone() + ":" + &self.elem;
                match self.slots.get(t[1]) {
                    Some((k, d)) if *k == key => {
                        self.data = d.clone();
                        "T".into()
                    }
                    Some(_) => "F".into(),
                    None => "X".into(),
                }
            }
            "DROP" => "OK".into(),
            "EQ" => match self.slots.get(t[1]) {
                Some((k, d)) => {
                    if *k != self.kind.clone() + ":" + &self.elem {
                        "X".into()
                    } else if matches!(self.family(), "hq" | "hw") {
                        // Huffman trees: equal answers are required, `==` only when the sequences
                        // differ (then it must be false)
                        if *d == self.data { "T/F".into() } else { "F".into() }
                    } else {
                        tf(*d == self.data)
                    }
                }
                None => "X".into(),
            },
            "SPACE" => "-".into(),
            "THREADS" => {
                let a = self.q(t[2], &parse_nums(&t[3..]));
                a.split('/').map(|x| format!("{}|T|T", x)).collect::<Vec<_>>().join("/")
            }
            "TMIX" => "T|T".into(),
            "FN" => exec_fn(false, &t[1..]),
            _ => "X".into(),
        }
    }

    fn q(&self, op: &str, a: &[u128]) -> String {
        let d = &self.data;
        let n = d.len();
        let us = |x: u128| x as usize;
        let fam = self.family();
        match fam {
            "q" | "hq" | "w" | "hw" => {
                let max = d.iter().copied().max();
                let occurs = |c: u128| d.iter().any(|&x| x == c);
                let rank_ans = |c: u128, i: usize| -> String {
                    if n == 0 {
                        return "N/S0".into();
                    }
                    let valid_sym = match fam {
                        "q" | "w" => c <= max.unwrap(),
                        _ => occurs(c),
                    };
                    if i <= n && valid_sym { format!("S{}", rank(d, c, i)) } else { "N".into() }
                };
                match op {
                    "len" => format!("V{}", n),
                    "isempty" => tf(n == 0),
                    "nlevels" => match fam {
                        "q" => match max { Some(m) => format!("V{}", (bitlen(m).max(1) + 1) / 2), None => "V0".into() },
                        "w" => match max { Some(m) => format!("V{}", bitlen(m).max(1)), None => "V0".into() },
                        _ => "-".into(),
                    },
                    "sigma" => if fam == "q" { so(max) } else { "X".into() },
                    "get" | "uget" => {
                        let r = d.get(us(a[0])).copied();
                        if op == "get" { so(r) } else { format!("V{}", r.unwrap()) }
                    }
                    "rank" | "rankp" => {
                        if op == "rankp" && !(fam == "q" || fam == "hq") { return "X".into(); }
                        rank_ans(a[0], us(a[1]))
                    }
                    "urank" | "urankp" => {
                        if op == "urankp" && !(fam == "q" || fam == "hq") { return "X".into(); }
                        format!("V{}", rank(d, a[0], us(a[1])))
                    }
                    "select" => so(select(d, a[0], us(a[1]))),
                    "uselect" => format!("V{}", select(d, a[0], us(a[1])).unwrap()),
                    "getall" => (0..=n + 1).map(|i| so(d.get(i).copied())).collect::<Vec<_>>().join(","),
                    "rankall" | "rankpall" => {
                        if op == "rankpall" && !(fam == "q" || fam == "hq") { return "X".into(); }
                        // incremental count
                        let c = a[0];
                        let valid_sym = match fam { "q" | "w" => max.map_or(false, |m| c <= m), _ => occurs(c) };
                        let mut out = Vec::with_capacity(n + 2);
                        let mut cnt = 0usize;
                        for i in 0..=n + 1 {
                            if n == 0 { out.push("N/S0".to_string()); continue; }
                            if i <= n && valid_sym { out.push(format!("S{}", cnt)); } else { out.push("N".into()); }
                            if i < n && d[i] == c { cnt += 1; }
                        }
                        out.join(",")
                    }
                    "selectall" => {
                        let c = a[0];
                        let pos: Vec<usize> = d.iter().enumerate().filter(|(_, &x)| x == c).map(|(p, _)| p).collect();
                        (0..=us(a[1])).map(|k| so(pos.get(k).copied())).collect::<Vec<_>>().join(",")
                    }
                    "codes" | "lens" => "-".into(),
                    _ => "X".into(),
                }
            }
            "qv" => match op {
                "len" => format!("V{}", n),
                "isempty" => tf(n == 0),
                "get" => so(d.get(us(a[0])).copied()),
                "uget" => format!("V{}", d[us(a[0])]),
                "getall" => (0..=n + 1).map(|i| so(d.get(i).copied())).collect::<Vec<_>>().join(","),
                _ => "X".into(),
            },
            "rsq" => {
                let sym_ok = |s: u128| s <= 3;
                match op {
                    "len" => format!("V{}", n),
                    "isempty" => tf(n == 0),
                    "get" => so(d.get(us(a[0])).copied()),
                    "uget" => format!("V{}", d[us(a[0])]),
                    "rank" => if sym_ok(a[0]) && us(a[1]) <= n { format!("S{}", rank(d, a[0], us(a[1]))) } else { "N".into() },
                    "urank" => format!("V{}", rank(d, a[0], us(a[1]))),
                    "select" => if sym_ok(a[0]) { so(select(d, a[0], us(a[1]))) } else { "N".into() },
                    "uselect" => format!("V{}", select(d, a[0], us(a[1])).unwrap()),
                    "prefetch" => "OK".into(),
                    "occs" => if sym_ok(a[0]) { format!("S{}", rank(d, a[0], n)) } else { "N".into() },
                    "uoccs" => format!("V{}", rank(d, a[0], n)),
                    "occssmaller" => if sym_ok(a[0]) { format!("S{}", d.iter().filter(|&&x| x < a[0]).count()) } else { "N".into() },
                    "uoccssmaller" => format!("V{}", d.iter().filter(|&&x| x < a[0]).count()),
                    "getall" => (0..=n + 1).map(|i| so(d.get(i).copied())).collect::<Vec<_>>().join(","),
                    "rankall" => {
                        let c = a[0];
                        let mut out = Vec::with_capacity(n + 2);
                        let mut cnt = 0usize;
                        for i in 0..=n + 1 {
                            if i <= n && sym_ok(c) { out.push(format!("S{}", cnt)); } else { out.push("N".into()); }
                            if i < n && d[i] == c { cnt += 1; }
                        }
                        out.join(",")
                    }
                    "selectall" => {
                        let c = a[0];
                        let pos: Vec<usize> = d.iter().enumerate().filter(|(_, &x)| x == c && sym_ok(c)).map(|(p, _)| p).collect();
                        (0..=us(a[1])).map(|k| so(pos.get(k).copied())).collect::<Vec<_>>().join(",")
                    }
                    _ => "X".into(),
                }
            }
            "rsn" | "rsw" | "da0" | "da1" | "bv" | "bvm" => self.qbits(op, a),
            _ => "X".into(),
        }
    }

    fn qbits(&self, op: &str, a: &[u128]) -> String {
        let d = &self.data;
        let n = d.len();
        let us = |x: u128| x as usize;
        let fam = self.family();
        let ones: usize = d.iter().filter(|&&x| x == 1).count();
        let getb = |i: usize| d.get(i).map(|&x| x == 1);
        // empty rank structures: "no position, no non-zero count"
        let rk = |c: u128, i: usize| -> String {
            if n == 0 && (fam == "rsn" || fam == "rsw") { return "N/S0".into(); }
            if i <= n { format!("S{}", rank(d, c, i)) } else { "N".into() }
        };
        let word = |w: usize| -> Option<u64> {
            // word w exists iff it lies inside an allocated 512-bit line
            let lines = (n + 511) / 512;
            if w >= lines * 8 { return None; }
            let mut v = 0u64;
            for b in 0..64 { if let Some(&x) = d.get(w * 64 + b) { if x == 1 { v |= 1 << b; } } }
            Some(v)
        };
        let gbits = |i: usize, len: usize| -> Option<u64> {
            if len == 0 || len > 64 || i.checked_add(len).map_or(true, |e| e > n) { return None; }
            let mut v = 0u64;
            for b in 0..len { if d[i + b] == 1 { v |= 1 << b; } }
            Some(v)
        };
        match op {
            "len" => if fam == "rsn" { "X".into() } else { format!("V{}", n) },
            "isempty" => tf(n == 0),
            "countones" | "nones" => format!("V{}", ones),
            "countzeros" | "nzeros" | "tnzeros" => format!("V{}", n - ones),
            "get" => sb(getb(us(a[0]))),
            "uget" => format!("V{}", d[us(a[0])]),
            "rank1" => rk(1, us(a[0])),
            "rank0" => rk(0, us(a[0])),
            "urank1" => format!("V{}", rank(d, 1, us(a[0]))),
            "urank0" => format!("V{}", rank(d, 0, us(a[0]))),
            "select1" => so(select(d, 1, us(a[0]))),
            "select0" => if fam == "da0" { "P".into() } else { so(select(d, 0, us(a[0]))) },
            "uselect1" => format!("V{}", select(d, 1, us(a[0])).unwrap()),
            "uselect0" => format!("V{}", select(d, 0, us(a[0])).unwrap()),
            "getbits" => so(gbits(us(a[0]), us(a[1]))),
            "ugetbits" => format!("V{}", gbits(us(a[0]), us(a[1])).unwrap()),
            "nlines" => if self.kind == "bv" { format!("V{}", (n + 511) / 512) } else { "X".into() },
            "prefetch" => if self.kind == "bv" { "OK".into() } else { "X".into() },
            "getword" => match word(us(a[0])) { Some(v) => format!("V{}", v), None => "P".into() },
            "getall" => (0..=n + 1).map(|i| sb(getb(i))).collect::<Vec<_>>().join(","),
            "rank1all" | "rank0all" => {
                let c = if op == "rank1all" { 1 } else { 0 };
                let mut out = Vec::with_capacity(n + 2);
                let mut cnt = 0usize;
                for i in 0..=n + 1 {
                    if n == 0 { out.push("N/S0".to_string()); continue; }
                    if i <= n { out.push(format!("S{}", cnt)); } else { out.push("N".into()); }
                    if i < n && d[i] == c { cnt += 1; }
                }
                out.join(",")
            }
            "select1all" | "select0all" => {
                if op == "select0all" && fam == "da0" {
                    return (0..=us(a[0])).map(|_| "P".to_string()).collect::<Vec<_>>().join(",");
                }
                let c = if op == "select1all" { 1 } else { 0 };
                let pos: Vec<usize> = d.iter().enumerate().filter(|(_, &x)| x == c).map(|(p, _)| p).collect();
                (0..=us(a[0])).map(|k| so(pos.get(k).copied())).collect::<Vec<_>>().join(",")
            }
            "ones" | "zeros" | "oneswp" | "zeroswp" => {
                let c = if op.starts_with("ones") { 1 } else { 0 };
                let from = if op.ends_with("wp") { us(a[0]) } else { 0 };
                d.iter().enumerate().filter(|(p, &x)| x == c && *p >= from).map(|(p, _)| p.to_string()).collect::<Vec<_>>().join(",")
            }
            "bits" => d.iter().map(|&x| if x == 1 { "1" } else { "0" }).collect::<Vec<_>>().join(""),
            "getbitsall" => (0..=n + 1).map(|i| so(gbits(i, us(a[0])))).collect::<Vec<_>>().join(","),
            "getwordall" => (0..=(n + 63) / 64).map(|i| match word(i) { Some(v) => format!("V{}", v), None => "P".into() }).collect::<Vec<_>>().join(","),
            _ => "X".into(),
        }
    }

    fn op(&mut self, op: &str, a: &[&str]) -> String {
        let fam = self.family();
        if op == "tomut" {
            if fam == "bv" { self.kind = "bvm".into(); }
            return "OK".into();
        }
        if op == "toimm" {
            if fam == "bvm" { self.kind = "bv".into(); }
            return "OK".into();
        }
        if fam != "bvm" {
            return "X".into();
        }
        let n = |i: usize| -> u128 { a[i].parse::<u128>().unwrap() };
        let d = &mut self.data;
        match op {
            "push" => { d.push((n(0) != 0) as u128); "OK".into() }
            "append" => {
                let (bits, len) = (n(0) as u64, n(1) as usize);
                if len > 64 || (len < 64 && (bits >> len) != 0) { return "P".into(); }
                for i in 0..len { d.push(((bits >> i) & 1) as u128); }
                "OK".into()
            }
            "zeros" => { let k = n(0) as usize; d.resize(d.len() + k, 0); "OK".into() }
            "set" => {
                let i = n(0) as usize;
                if i >= d.len() { return "P".into(); }
                d[i] = (n(1) != 0) as u128;
                "OK".into()
            }
            "setbits" => {
                let (i, len, bits) = (n(0) as usize, n(1) as usize, n(2) as u64);
                if len > 64 || i.checked_add(len).map_or(true, |e| e > d.len()) || (len < 64 && (bits >> len) != 0) { return "P".into(); }
                for b in 0..len { d[i + b] = ((bits >> b) & 1) as u128; }
                "OK".into()
            }
            "extbits" => { if a[0] != "-" { for c in a[0].bytes() { d.push((c == b'1') as u128); } } "OK".into() }
            "extpos" => {
                for x in a { let p: usize = x.parse().unwrap(); if p >= d.len() { d.resize(p + 1, 0); } d[p] = 1; }
                "OK".into()
            }
            "shrink" => "OK".into(),
            _ => "X".into(),
        }
    }

    fn iter(&self, src: &str, ops: &str, a: &[u128]) -> String {
        let fam = self.family();
        let d = &self.data;
        // the sequence the iterator must yield
        let (seq, de, ex): (Vec<u128>, bool, bool) = match fam {
            "q" | "hq" | "w" | "hw" => (d.clone(), true, true),
            "qv" | "rsq" => (d.clone(), false, false),
            "bv" | "bvm" | "da0" | "da1" => match src {
                "iter" | "into" | "bits" => (d.clone(), false, true),
                "ones" | "zeros" | "oneswp" | "zeroswp" => {
                    let c = if src.starts_with("ones") { 1 } else { 0 };
                    let from = if src.ends_with("wp") { a[0] as usize } else { 0 };
                    (d.iter().enumerate().filter(|(p, &x)| x == c && *p >= from).map(|(p, _)| p as u128).collect(), false, false)
                }
                _ => return "X".into(),
            },
            _ => return "X".into(),
        };
        let (mut i, mut e) = (0usize, seq.len());
        let mut out = Vec::new();
        for ch in ops.chars() {
            out.push(match ch {
                'n' => if i < e { i += 1; format!("S{}", seq[i - 1]) } else { "N".into() },
                'b' if de => if i < e { e -= 1; format!("S{}", seq[e]) } else { "N".into() },
                'l' if ex => format!("V{}", e - i),
                // size_hint: the remaining count must lie within the reported bounds (the std contract of a correct
                // hint; the default (0, None) always is)
                'h' => format!("H{}", e - i),
                'k' | 'j' | 'K' => {
                    let k = match ch { 'k' => 1usize, 'j' => 7, _ => usize::MAX };
                    if k < e - i { i += k + 1; format!("S{}", seq[i - 1]) } else { i = e; "N".into() }
                }
                'r' | 'q' | 'R' if de => {
                    let k = match ch { 'r' => 1usize, 'q' => 7, _ => usize::MAX };
                    if k < e - i { e -= k + 1; format!("S{}", seq[e]) } else { e = i; "N".into() }
                }
                _ => "X".into(),
            });
        }
        out.join(",")
    }
}

// ------------------------------------------------------------------ C17: free functions
pub fn exec_fn(is_impl: bool, t: &[&str]) -> String {
    use qwt::utils::*;
    let nums = |s: &[&str]| -> Vec<u128> { s.iter().map(|x| x.parse::<u128>().unwrap()).collect() };
    match t[0] {
        "selword" => {
            let a = nums(&t[1..]);
            let (w, k) = (a[0] as u64, a[1] as u64);
            if is_impl {
                guard(|| format!("V{}", select_in_word(w, k)))
            } else {
                let mut seen = 0;
                for b in 0..64 { if (w >> b) & 1 == 1 { if seen == k { return format!("V{}", b); } seen += 1; } }
                "V64".into()
            }
        }
        "selword128" => {
            let a = nums(&t[1..]);
            let (w, k) = (a[0], a[1] as u64);
            if is_impl {
                guard(|| format!("V{}", select_in_word_u128(w, k)))
            } else {
                let mut seen = 0;
                for b in 0..128 { if (w >> b) & 1 == 1 { if seen == k { return format!("V{}", b); } seen += 1; } }
                "V128".into()
            }
        }
        "popcnt" => {
            // popcnt N w0 w1 ...   N in {1,2,4,8}
            let a = nums(&t[1..]);
            let n = a[0] as usize;
            let ws: Vec<u64> = a[1..].iter().map(|&x| x as u64).collect();
            if is_impl {
                guard(|| format!("V{}", match n { 1 => popcnt_wide::<1>(&ws), 2 => popcnt_wide::<2>(&ws), 3 => popcnt_wide::<3>(&ws), 4 => popcnt_wide::<4>(&ws), 8 => popcnt_wide::<8>(&ws), _ => popcnt_wide::<16>(&ws) }))
            } else {
                let n = if matches!(n, 1 | 2 | 3 | 4 | 8) { n } else { 16 };
                format!("V{}", ws.iter().take(n).map(|w| w.count_ones() as usize).sum::<usize>())
            }
        }
        "msb" => {
            // msb <width> v
            let a = nums(&t[1..]);
            let (w, v) = (a[0], a[1]);
            if is_impl {
                guard(|| format!("V{}", match w { 8 => msb(v as u8), 16 => msb(v as u16), 32 => msb(v as u32), 64 => msb(v as u64), _ => msb(v) }))
            } else {
                format!("V{}", if v == 0 { 0 } else { 127 - v.leading_zeros() })
            }
        }
        "part4" | "part2" => {
            // part4 <width> <shift> v...
            let a = nums(&t[1..]);
            let (w, shift) = (a[0], a[1] as usize);
            let vals = &a[2..];
            if is_impl {
                macro_rules! run { ($ty:ty) => {{
                    let mut v: Vec<$ty> = vals.iter().map(|&x| x as $ty).collect();
                    if t[0] == "part4" { stable_partition_of_4(&mut v, shift) } else { stable_partition_of_2(&mut v, shift) }
                    v.iter().map(|x| x.to_string()).collect::<Vec<_>>().join(",")
                }}; }
                guard(|| match w { 8 => run!(u8), 16 => run!(u16), 32 => run!(u32), 64 => run!(u64), 65 => run!(usize), _ => run!(u128) })
            } else {
                let mask = if t[0] == "part4" { 3 } else { 1 };
                let mut out = vec![];
                for g in 0..=mask { for &x in vals { if (x >> shift) & mask == g { out.push(x.to_string()); } } }
                out.join(",")
            }
        }
        "part4c" | "part2c" => {
            // part4c <width> <shift> <ncodes> c0 l0 c1 l1 .. v...   (codes indexed by symbol value)
            let a = nums(&t[1..]);
            let (w, shift, nc) = (a[0], a[1] as usize, a[2] as usize);
            let codes: Vec<(u32, u32)> = (0..nc).map(|i| (a[3 + 2 * i] as u32, a[4 + 2 * i] as u32)).collect();
            let vals = &a[3 + 2 * nc..];
            if is_impl {
                use qwt::quadwt::huffqwt::PrefixCode;
                let pcs: Vec<PrefixCode> = codes.iter().map(|&(c, l)| PrefixCode { content: c, len: l }).collect();
                macro_rules! run { ($ty:ty) => {{
                    let mut v: Vec<$ty> = vals.iter().map(|&x| x as $ty).collect();
                    if t[0] == "part4c" { stable_partition_of_4_with_codes(&mut v, shift, &pcs) } else { stable_partition_of_2_with_codes(&mut v, shift, &pcs) }
                    v.iter().map(|x| x.to_string()).collect::<Vec<_>>().join(",")
                }}; }
                guard(|| match w { 8 => run!(u8), 16 => run!(u16), 32 => run!(u32), 64 => run!(u64), 65 => run!(usize), _ => run!(u128) })
            } else {
                // symbols whose code ends above this level keep their relative order AFTER the groups of the others
                let mask: u32 = if t[0] == "part4c" { 3 } else { 1 };
                if vals.iter().any(|&x| (x as usize) >= nc) { return "P".into(); }
                let mut out = vec![];
                for g in 0..=mask {
                    for &x in vals {
                        let (c, l) = codes[x as usize];
                        if l > shift as u32 && (c >> (l - shift as u32)) & mask == g { out.push(x.to_string()); }
                    }
                }
                for &x in vals { if codes[x as usize].1 <= shift as u32 { out.push(x.to_string()); } }
                out.join(",")
            }
        }
        "dabig" => {
            // dabig <s0> p1 p2 ...: a DArray over strictly increasing positions that may lie beyond 2^32 (the vector
            // is never expanded bit by bit on the oracle side: the position list is the oracle)
            let a = nums(&t[1..]);
            let pos: Vec<usize> = a[1..].iter().map(|&x| x as usize).collect();
            let n1 = pos.len();
            let len = pos.last().map_or(0, |&l| l + 1);
            if is_impl {
                use qwt::{AccessBin, DArray, SelectBin};
                macro_rules! run { ($s0:literal) => {{
                    let da: DArray<$s0> = pos.iter().copied().collect();
                    let mut out = vec![format!("V{}", da.len()), format!("V{}", da.count_ones()), format!("V{}", da.count_zeros())];
                    out.push((0..=n1 + 1).map(|k| so(da.select1(k))).collect::<Vec<_>>().join(","));
                    out.push((0..n1).map(|k| format!("V{}", unsafe { da.select1_unchecked(k) })).collect::<Vec<_>>().join(","));
                    out.push(pos.iter().map(|&p| sb(da.get(p))).collect::<Vec<_>>().join(","));
                    out.push(sb(da.get(len)));
                    out.push(da.ones().take(n1 + 1).map(|x| x.to_string()).collect::<Vec<_>>().join(","));
                    out.join(";")
                }}; }
                guard(|| if a[0] == 1 { run!(true) } else { run!(false) })
            } else {
                let mut out = vec![format!("V{}", len), format!("V{}", n1), format!("V{}", len - n1)];
                out.push((0..=n1 + 1).map(|k| if k < n1 { format!("S{}", pos[k]) } else { "N".into() }).collect::<Vec<_>>().join(","));
                out.push(pos.iter().map(|p| format!("V{}", p)).collect::<Vec<_>>().join(","));
                out.push(pos.iter().map(|_| "S1".to_string()).collect::<Vec<_>>().join(","));
                out.push("N".into());
                out.push(pos.iter().map(|x| x.to_string()).collect::<Vec<_>>().join(","));
                out.join(";")
            }
        }
        "remap" => {
            let a = nums(&t[1..]);
            let mut v: Vec<u8> = a.iter().map(|&x| x as u8).collect();
            if is_impl {
                guard(|| { let d = text_remap(&mut v); format!("V{};{}", d, v.iter().map(|x| x.to_string()).collect::<Vec<_>>().join(",")) })
            } else {
                let mut u: Vec<u8> = v.clone(); u.sort(); u.dedup();
                let m: Vec<String> = v.iter().map(|x| u.binary_search(x).unwrap().to_string()).collect();
                format!("V{};{}", u.len(), m.join(","))
            }
        }
        _ => "X".into(),
    }
}
