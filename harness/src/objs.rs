// Implementation side: the real qwt structures behind a small dynamic interface.
use crate::alloc_count::live;
use num_traits::AsPrimitive;
use qwt::binwt::BinRSforWT;
use qwt::quadwt::RSforWT;
use qwt::*;
use serde::de::DeserializeOwned;
use serde::Serialize;
use std::any::Any;
use std::collections::HashMap;
use std::fmt::{Debug, Display};
use std::panic::{catch_unwind, AssertUnwindSafe};

pub fn so<T: Display>(o: Option<T>) -> String {
    match o {
        Some(v) => format!("S{}", v),
        None => "N".into(),
    }
}
pub fn sb(o: Option<bool>) -> String {
    match o {
        Some(v) => format!("S{}", v as u8),
        None => "N".into(),
    }
}
pub fn tf(b: bool) -> String {
    if b { "T".into() } else { "F".into() }
}
pub fn guard<F: FnOnce() -> String>(f: F) -> String {
    match catch_unwind(AssertUnwindSafe(f)) {
        Ok(s) => s,
        Err(_) => "P".into(),
    }
}
pub fn us(x: u128) -> usize {
    x as usize
}
pub fn hex(b: &[u8]) -> String {
    let mut s = String::with_capacity(b.len() * 2);
    for x in b {
        s.push_str(&format!("{:02x}", x));
    }
    s
}

pub trait Elem:
    Copy + Debug + Default + Display + PartialEq + Serialize + DeserializeOwned + WTIndexable + 'static
{
    fn from_u128(x: u128) -> Option<Self>;
    fn to_u128(self) -> u128;
}
macro_rules! impl_elem {
    ($($t:ty),*) => {$(
        impl Elem for $t {
            fn from_u128(x: u128) -> Option<Self> { if x <= <$t>::MAX as u128 { Some(x as $t) } else { None } }
            fn to_u128(self) -> u128 { self as u128 }
        }
    )*};
}
impl_elem![u8, u16, u32, u64, usize, u128];

/// The multi-threaded runs share `&self` across threads. Whether the library's types really are
/// `Send + Sync` is a compile-time obligation of its own (src/bin/sendsync.rs, built by the C18
/// check only), so that a type losing an auto trait is reported by C18 and does not stop the
/// harness from building for the other properties.
pub struct ForceSync<'a, T: ?Sized>(pub &'a T);
impl<'a, T: ?Sized> Clone for ForceSync<'a, T> { fn clone(&self) -> Self { ForceSync(self.0) } }
impl<'a, T: ?Sized> Copy for ForceSync<'a, T> {}
impl<'a, T: ?Sized> ForceSync<'a, T> { pub fn get(self) -> &'a T { self.0 } }
unsafe impl<'a, T: ?Sized> Sync for ForceSync<'a, T> {}
unsafe impl<'a, T: ?Sized> Send for ForceSync<'a, T> {}

pub trait Obj: Any {
    fn q(&self, op: &str, a: &[u128]) -> String;
    fn m(&mut self, _op: &str, _a: &[&str]) -> String {
        "X".into()
    }
    fn ser(&self) -> Vec<u8>;
    fn roundtrip(&self) -> Option<Box<dyn Obj>>;
    fn clone_obj(&self) -> Box<dyn Obj>;
    fn eq_obj(&self, o: &dyn Obj) -> Option<bool>;
    fn space(&self) -> (usize, f64, f64, f64);
    fn inline_size(&self) -> usize;
    fn iter(&self, _src: &str, _ops: &str, _a: &[u128]) -> String {
        "X".into()
    }
    fn as_any(&self) -> &dyn Any;
    /// std::mem::swap of the structure held here with the one held by `o` (same concrete type): both objects stay
    /// where they are in memory, their contents change places
    fn swap_obj(&mut self, _o: &mut dyn Obj) -> bool {
        false
    }
    fn as_any_mut(&mut self) -> Option<&mut dyn Any> {
        None
    }
    /// `Clone::clone_from`: the structure held here is overwritten with a copy of the one held by `o`
    fn clone_from_obj(&mut self, _o: &dyn Obj) -> bool {
        false
    }
    fn threads(&self, _k: usize, _op: &str, _a: &[u128]) -> String {
        "X".into()
    }
    /// `k` threads share `&self`; each runs the whole batch of DIFFERENT queries (`a` cut into groups of
    /// `arity` arguments) `reps` times, each thread starting at another place of the batch, and every
    /// answer must equal the one computed sequentially beforehand; the serialized form must not change.
    fn tmix(&self, k: usize, reps: usize, op: &str, arity: usize, a: &[u128]) -> String {
        let qs: Vec<&[u128]> = a.chunks(arity.max(1)).collect();
        if qs.is_empty() {
            return "X".into();
        }
        let base: Vec<String> = qs.iter().map(|q| self.q(op, q)).collect();
        let before = self.ser();
        let me = ForceSync(self);
        let bad = std::thread::scope(|s| {
            let hs: Vec<_> = (0..k)
                .map(|t| {
                    let qs = &qs;
                    let base = &base;
                    s.spawn(move || {
                        let m = qs.len();
                        let mut bad: Option<(usize, String)> = None;
                        for r in 0..reps {
                            for j in 0..m {
                                let idx = (j + t * 7 + r) % m;
                                let x = me.get().q(op, qs[idx]);
                                if x != base[idx] && bad.is_none() {
                                    bad = Some((idx, x));
                                }
                            }
                        }
                        bad
                    })
                })
                .collect();
            hs.into_iter().filter_map(|h| h.join().ok().flatten()).next()
        });
        let after = self.ser();
        match bad {
            None => format!("T|{}", tf(before == after)),
            Some((i, x)) => format!(
                "F:{}({})={}:sequential={}|{}",
                op,
                qs[i].iter().map(|v| v.to_string()).collect::<Vec<_>>().join(";"),
                x,
                base[i],
                tf(before == after)
            ),
        }
    }
}

// --------------------------------------------------------------------------- iterators
/// size_hint as "H<lo>;<hi>" ("inf" for no upper bound): compared with the number of remaining elements
fn hint(h: (usize, Option<usize>)) -> String {
    format!("H{};{}", h.0, h.1.map(|x| x.to_string()).unwrap_or_else(|| "inf".into()))
}
pub fn run_iter_de<I>(mut it: I, ops: &str) -> String
where
    I: DoubleEndedIterator + ExactSizeIterator,
    I::Item: Display,
{
    let mut out = Vec::new();
    for ch in ops.chars() {
        out.push(guard(|| match ch {
            'n' => so(it.next()),
            'b' => so(it.next_back()),
            'l' => format!("V{}", it.len()),
            'h' => hint(it.size_hint()),
            'k' => so(it.nth(1)),
            'j' => so(it.nth(7)),
            'K' => so(it.nth(usize::MAX)),
            'r' => so(it.nth_back(1)),
            'q' => so(it.nth_back(7)),
            'R' => so(it.nth_back(usize::MAX)),
            _ => "X".into(),
        }));
    }
    out.join(",")
}
pub fn run_iter_ex<I, D: Display>(mut it: I, ops: &str, f: fn(I::Item) -> D) -> String
where
    I: ExactSizeIterator,
{
    let mut out = Vec::new();
    for ch in ops.chars() {
        out.push(guard(|| match ch {
            'n' => so(it.next().map(f)),
            'l' => format!("V{}", it.len()),
            'h' => hint(it.size_hint()),
            'k' => so(it.nth(1).map(f)),
            'j' => so(it.nth(7).map(f)),
            'K' => so(it.nth(usize::MAX).map(f)),
            _ => "X".into(),
        }));
    }
    out.join(",")
}
pub fn run_iter_fw<I, D: Display>(mut it: I, ops: &str, f: fn(I::Item) -> D) -> String
where
    I: Iterator,
{
    let mut out = Vec::new();
    for ch in ops.chars() {
        out.push(guard(|| match ch {
            'n' => so(it.next().map(f)),
            'h' => hint(it.size_hint()),
            'k' => so(it.nth(1).map(f)),
            'j' => so(it.nth(7).map(f)),
            'K' => so(it.nth(usize::MAX).map(f)),
            _ => "X".into(),
        }));
    }
    out.join(",")
}

// ------------------------------------------------------------------------------- trees
pub trait TreeApi: Sized + Clone + PartialEq + Serialize + DeserializeOwned + SpaceUsage + 'static {
    type E: Elem;
    const FAMILY: &'static str;
    fn t_new(v: &mut [Self::E]) -> Self;
    fn t_from(v: Vec<Self::E>) -> Self;
    fn t_collect(v: Vec<Self::E>) -> Self;
    fn t_default() -> Self;
    fn t_len(&self) -> usize;
    fn t_is_empty(&self) -> bool;
    fn t_n_levels(&self) -> usize;
    fn t_sigma(&self) -> Option<Option<Self::E>> {
        None
    }
    fn t_get(&self, i: usize) -> Option<Self::E>;
    fn t_rank(&self, c: Self::E, i: usize) -> Option<usize>;
    fn t_select(&self, c: Self::E, k: usize) -> Option<usize>;
    unsafe fn t_get_u(&self, i: usize) -> Self::E;
    unsafe fn t_rank_u(&self, c: Self::E, i: usize) -> usize;
    unsafe fn t_select_u(&self, c: Self::E, k: usize) -> usize;
    fn t_rankp(&self, _c: Self::E, _i: usize) -> Option<Option<usize>> {
        None
    }
    unsafe fn t_rankp_u(&self, _c: Self::E, _i: usize) -> Option<usize> {
        None
    }
    fn t_iter(&self, owned: bool, ops: &str) -> String;
}

impl<T, RS, const P: bool> TreeApi for QWaveletTree<T, RS, P>
where
    T: Elem,
    usize: AsPrimitive<T>,
    RS: RSforWT + Clone + PartialEq + Serialize + DeserializeOwned + 'static,
{
    type E = T;
    const FAMILY: &'static str = "q";
    fn t_new(v: &mut [T]) -> Self { Self::new(v) }
    fn t_from(v: Vec<T>) -> Self { Self::from(v) }
    fn t_collect(v: Vec<T>) -> Self { v.into_iter().collect() }
    fn t_default() -> Self { Self::default() }
    fn t_len(&self) -> usize { self.len() }
    fn t_is_empty(&self) -> bool { self.is_empty() }
    fn t_n_levels(&self) -> usize { self.n_levels() }
    fn t_sigma(&self) -> Option<Option<T>> { Some(self.sigma()) }
    fn t_get(&self, i: usize) -> Option<T> { self.get(i) }
    fn t_rank(&self, c: T, i: usize) -> Option<usize> { self.rank(c, i) }
    fn t_select(&self, c: T, k: usize) -> Option<usize> { self.select(c, k) }
    unsafe fn t_get_u(&self, i: usize) -> T { self.get_unchecked(i) }
    unsafe fn t_rank_u(&self, c: T, i: usize) -> usize { self.rank_unchecked(c, i) }
    unsafe fn t_select_u(&self, c: T, k: usize) -> usize { self.select_unchecked(c, k) }
    fn t_rankp(&self, c: T, i: usize) -> Option<Option<usize>> { Some(self.rank_prefetch(c, i)) }
    unsafe fn t_rankp_u(&self, c: T, i: usize) -> Option<usize> { Some(self.rank_prefetch_unchecked(c, i)) }
    fn t_iter(&self, owned: bool, ops: &str) -> String {
        if owned { run_iter_de(self.clone().into_iter(), ops) } else { run_iter_de(self.iter(), ops) }
    }
}

impl<T, RS, const P: bool> TreeApi for HuffQWaveletTree<T, RS, P>
where
    T: Elem,
    usize: AsPrimitive<T>,
    RS: RSforWT + Clone + PartialEq + Serialize + DeserializeOwned + 'static,
{
    type E = T;
    const FAMILY: &'static str = "hq";
    fn t_new(v: &mut [T]) -> Self { Self::new(v) }
    fn t_from(v: Vec<T>) -> Self { Self::from(v) }
    fn t_collect(v: Vec<T>) -> Self { v.into_iter().collect() }
    fn t_default() -> Self { Self::default() }
    fn t_len(&self) -> usize { self.len() }
    fn t_is_empty(&self) -> bool { self.is_empty() }
    fn t_n_levels(&self) -> usize { self.n_levels() }
    fn t_get(&self, i: usize) -> Option<T> { self.get(i) }
    fn t_rank(&self, c: T, i: usize) -> Option<usize> { self.rank(c, i) }
    fn t_select(&self, c: T, k: usize) -> Option<usize> { self.select(c, k) }
    unsafe fn t_get_u(&self, i: usize) -> T { self.get_unchecked(i) }
    unsafe fn t_rank_u(&self, c: T, i: usize) -> usize { self.rank_unchecked(c, i) }
    unsafe fn t_select_u(&self, c: T, k: usize) -> usize { self.select_unchecked(c, k) }
    fn t_rankp(&self, c: T, i: usize) -> Option<Option<usize>> { Some(self.rank_prefetch(c, i)) }
    unsafe fn t_rankp_u(&self, c: T, i: usize) -> Option<usize> { Some(self.rank_prefetch_unchecked(c, i)) }
    fn t_iter(&self, owned: bool, ops: &str) -> String {
        if owned { run_iter_de(self.clone().into_iter(), ops) } else { run_iter_de(self.iter(), ops) }
    }
}

impl<T, BRS, const C: bool> TreeApi for WaveletTree<T, BRS, C>
where
    T: Elem,
    usize: AsPrimitive<T>,
    BRS: BinRSforWT + Clone + PartialEq + Serialize + DeserializeOwned + 'static,
{
    type E = T;
    const FAMILY: &'static str = if C { "hw" } else { "w" };
    fn t_new(v: &mut [T]) -> Self { Self::new(v) }
    fn t_from(v: Vec<T>) -> Self { Self::from(v) }
    fn t_collect(v: Vec<T>) -> Self { v.into_iter().collect() }
    fn t_default() -> Self { Self::default() }
    fn t_len(&self) -> usize { self.len() }
    fn t_is_empty(&self) -> bool { self.is_empty() }
    fn t_n_levels(&self) -> usize { self.n_levels() }
    fn t_get(&self, i: usize) -> Option<T> { self.get(i) }
    fn t_rank(&self, c: T, i: usize) -> Option<usize> { self.rank(c, i) }
    fn t_select(&self, c: T, k: usize) -> Option<usize> { self.select(c, k) }
    unsafe fn t_get_u(&self, i: usize) -> T { self.get_unchecked(i) }
    unsafe fn t_rank_u(&self, c: T, i: usize) -> usize { self.rank_unchecked(c, i) }
    unsafe fn t_select_u(&self, c: T, k: usize) -> usize { self.select_unchecked(c, k) }
    fn t_iter(&self, owned: bool, ops: &str) -> String {
        if owned { run_iter_de(self.clone().into_iter(), ops) } else { run_iter_de(self.iter(), ops) }
    }
}

pub struct TreeObj<X: TreeApi> {
    pub t: X,
}

fn sym<E: Elem>(x: u128) -> Option<E> {
    E::from_u128(x)
}

impl<X: TreeApi> TreeObj<X> {
    fn q1(&self, op: &str, a: &[u128]) -> String {
        let t = &self.t;
        match op {
            "len" => format!("V{}", t.t_len()),
            "isempty" => tf(t.t_is_empty()),
            "nlevels" => format!("V{}", t.t_n_levels()),
            "sigma" => match t.t_sigma() {
                Some(s) => so(s.map(|x| x.to_u128())),
                None => "X".into(),
            },
            "get" => so(t.t_get(us(a[0])).map(|x| x.to_u128())),
            "rank" => match sym::<X::E>(a[0]) {
                Some(c) => so(t.t_rank(c, us(a[1]))),
                None => "X".into(),
            },
            "select" => match sym::<X::E>(a[0]) {
                Some(c) => so(t.t_select(c, us(a[1]))),
                None => "X".into(),
            },
            "rankp" => match sym::<X::E>(a[0]) {
                Some(c) => match t.t_rankp(c, us(a[1])) {
                    Some(r) => so(r),
                    None => "X".into(),
                },
                None => "X".into(),
            },
            "uget" => format!("V{}", unsafe { t.t_get_u(us(a[0])) }.to_u128()),
            "urank" => format!("V{}", unsafe { t.t_rank_u(sym::<X::E>(a[0]).unwrap(), us(a[1])) }),
            "uselect" => format!("V{}", unsafe { t.t_select_u(sym::<X::E>(a[0]).unwrap(), us(a[1])) }),
            "urankp" => match unsafe { t.t_rankp_u(sym::<X::E>(a[0]).unwrap(), us(a[1])) } {
                Some(r) => format!("V{}", r),
                None => "X".into(),
            },
            // sweeps: one line, comma separated
            "getall" => (0..=t.t_len() + 1).map(|i| guard(|| so(t.t_get(i).map(|x| x.to_u128())))).collect::<Vec<_>>().join(","),
            "rankall" => match sym::<X::E>(a[0]) {
                Some(c) => (0..=t.t_len() + 1).map(|i| guard(|| so(t.t_rank(c, i)))).collect::<Vec<_>>().join(","),
                None => "X".into(),
            },
            "rankpall" => match sym::<X::E>(a[0]) {
                Some(c) => (0..=t.t_len() + 1)
                    .map(|i| guard(|| match t.t_rankp(c, i) { Some(r) => so(r), None => "X".into() }))
                    .collect::<Vec<_>>()
                    .join(","),
                None => "X".into(),
            },
            "selectall" => match sym::<X::E>(a[0]) {
                // k = 0 .. a[1] (the caller passes occurrences + 1)
                Some(c) => (0..=us(a[1])).map(|k| guard(|| so(t.t_select(c, k)))).collect::<Vec<_>>().join(","),
                None => "X".into(),
            },
            "codes" => codes_of(X::FAMILY, &bincode::serialize(t).unwrap(), std::mem::size_of::<X::E>()),
            "lens" => lens_of(X::FAMILY, &bincode::serialize(t).unwrap(), std::mem::size_of::<X::E>()),
            _ => "X".into(),
        }
    }
}

fn rd_u64(b: &[u8], p: &mut usize) -> u64 {
    let v = u64::from_le_bytes(b[*p..*p + 8].try_into().unwrap());
    *p += 8;
    v
}
fn rd_u32(b: &[u8], p: &mut usize) -> u32 {
    let v = u32::from_le_bytes(b[*p..*p + 4].try_into().unwrap());
    *p += 4;
    v
}

/// code table of a Huffman-shaped tree, read from its serialization: "sym:content:len,..."
pub fn codes_of(family: &str, b: &[u8], _esz: usize) -> String {
    let mut p = 16; // n, n_levels
    match family {
        "hq" => {}
        "hw" => {
            // sigma: Option<T> = None (tag 0) for compressed; codes_encode: Option<Vec<..>>
            let tag = b[p];
            p += 1;
            if tag != 0 {
                return "X".into();
            }
            let tag2 = b[p];
            p += 1;
            if tag2 == 0 {
                return "V".into();
            }
        }
        _ => return "X".into(),
    }
    let n = rd_u64(b, &mut p) as usize;
    let mut out = Vec::new();
    for s in 0..n {
        let c = rd_u32(b, &mut p);
        let l = rd_u32(b, &mut p);
        if l != 0 {
            out.push(format!("{}:{}:{}", s, c, l));
        }
    }
    format!("V{};{}", n, out.join(","))
}

/// per-level lengths of a Huffman-shaped quad tree: skip codes_encode, codes_decode, qvs is too
/// deep to skip generically, so lens are reported through space/levels instead (unused for now)
pub fn lens_of(_family: &str, _b: &[u8], _esz: usize) -> String {
    "X".into()
}

impl<X: TreeApi> Obj for TreeObj<X> {
    fn q(&self, op: &str, a: &[u128]) -> String {
        guard(|| self.q1(op, a))
    }
    fn ser(&self) -> Vec<u8> {
        bincode::serialize(&self.t).unwrap()
    }
    fn roundtrip(&self) -> Option<Box<dyn Obj>> {
        let b = bincode::serialize(&self.t).ok()?;
        let t: X = bincode::deserialize(&b).ok()?;
        Some(Box::new(TreeObj { t }))
    }
    fn clone_obj(&self) -> Box<dyn Obj> {
        Box::new(TreeObj { t: self.t.clone() })
    }
    fn eq_obj(&self, o: &dyn Obj) -> Option<bool> {
        o.as_any().downcast_ref::<TreeObj<X>>().map(|x| x.t == self.t)
    }
    fn space(&self) -> (usize, f64, f64, f64) {
        (self.t.space_usage_byte(), self.t.space_usage_KiB(), self.t.space_usage_MiB(), self.t.space_usage_GiB())
    }
    fn inline_size(&self) -> usize {
        std::mem::size_of::<X>()
    }
    fn iter(&self, src: &str, ops: &str, _a: &[u128]) -> String {
        self.t.t_iter(src == "into", ops)
    }
    fn clone_from_obj(&mut self, o: &dyn Obj) -> bool {
        match o.as_any().downcast_ref::<TreeObj<X>>() {
            Some(x) => {
                self.t.clone_from(&x.t);
                true
            }
            None => false,
        }
    }
    fn as_any(&self) -> &dyn Any {
        self
    }
    fn as_any_mut(&mut self) -> Option<&mut dyn Any> {
        Some(self)
    }
    fn swap_obj(&mut self, o: &mut dyn Obj) -> bool {
        match o.as_any_mut().and_then(|a| a.downcast_mut::<TreeObj<X>>()) {
            Some(x) => {
                std::mem::swap(&mut self.t, &mut x.t);
                true
            }
            None => false,
        }
    }
    fn threads(&self, k: usize, op: &str, a: &[u128]) -> String {
        let base = self.q(op, a);
        let before = self.ser();
        let ok = std::thread::scope(|s| {
            let me = ForceSync(self);
            let hs: Vec<_> = (0..k).map(|_| s.spawn(move || guard(|| me.get().q1(op, a)))).collect();
            hs.into_iter().all(|h| h.join().map(|r| r == base).unwrap_or(false))
        });
        let after = self.ser();
        format!("{}|{}|{}", base, tf(ok), tf(before == after))
    }
}

fn build_tree<X: TreeApi>(path: &str, vals: &[u128]) -> Result<(Box<dyn Obj>, isize), String> {
    let mut v: Vec<X::E> = Vec::with_capacity(vals.len());
    for &x in vals {
        match X::E::from_u128(x) {
            Some(e) => v.push(e),
            None => return Err("X".into()),
        }
    }
    v.shrink_to_fit();
    let input_bytes = (v.capacity() * std::mem::size_of::<X::E>()) as isize;
    let before = live();
    let (t, adj) = match path {
        "new" => (X::t_new(&mut v[..]), 0),
        "from" => (X::t_from(v), input_bytes),
        "collect" => (X::t_collect(v), input_bytes),
        "default" => (X::t_default(), 0),
        _ => return Err("X".into()),
    };
    let after = live();
    Ok((Box::new(TreeObj { t }), after - before + adj))
}

macro_rules! tree_factory {
    ($kind:expr, $elem:expr, $path:expr, $vals:expr; $( $k:literal => $ty:ident ),* ) => {
        match ($kind, $elem) {
            $(
                ($k, "u8") => Some(build_tree::<$ty<u8>>($path, $vals)),
                ($k, "u16") => Some(build_tree::<$ty<u16>>($path, $vals)),
                ($k, "u32") => Some(build_tree::<$ty<u32>>($path, $vals)),
                ($k, "u64") => Some(build_tree::<$ty<u64>>($path, $vals)),
                ($k, "usize") => Some(build_tree::<$ty<usize>>($path, $vals)),
                ($k, "u128") => Some(build_tree::<$ty<u128>>($path, $vals)),
            )*
            _ => None,
        }
    };
}

// ------------------------------------------------------------------- quad vectors
pub struct QvObj {
    q: QVector,
}
impl Obj for QvObj {
    fn q(&self, op: &str, a: &[u128]) -> String {
        guard(|| match op {
            "len" => format!("V{}", self.q.len()),
            "isempty" => tf(self.q.is_empty()),
            "get" => so(self.q.get(us(a[0]))),
            "uget" => format!("V{}", unsafe { self.q.get_unchecked(us(a[0])) }),
            "getall" => (0..=self.q.len() + 1).map(|i| so(self.q.get(i))).collect::<Vec<_>>().join(","),
            _ => "X".into(),
        })
    }
    fn ser(&self) -> Vec<u8> {
        bincode::serialize(&self.q).unwrap()
    }
    fn roundtrip(&self) -> Option<Box<dyn Obj>> {
        let q: QVector = bincode::deserialize(&self.ser()).ok()?;
        Some(Box::new(QvObj { q }))
    }
    fn clone_obj(&self) -> Box<dyn Obj> {
        Box::new(QvObj { q: self.q.clone() })
    }
    fn eq_obj(&self, o: &dyn Obj) -> Option<bool> {
        o.as_any().downcast_ref::<QvObj>().map(|x| x.q == self.q)
    }
    fn space(&self) -> (usize, f64, f64, f64) {
        (self.q.space_usage_byte(), self.q.space_usage_KiB(), self.q.space_usage_MiB(), self.q.space_usage_GiB())
    }
    fn inline_size(&self) -> usize {
        std::mem::size_of::<QVector>()
    }
    fn iter(&self, src: &str, ops: &str, _a: &[u128]) -> String {
        if src == "into" {
            run_iter_fw(self.q.clone().into_iter(), ops, |x| x)
        } else {
            run_iter_fw(self.q.iter(), ops, |x| x)
        }
    }
    fn clone_from_obj(&mut self, o: &dyn Obj) -> bool {
        match o.as_any().downcast_ref::<QvObj>() {
            Some(x) => {
                self.q.clone_from(&x.q);
                true
            }
            None => false,
        }
    }
    fn as_any(&self) -> &dyn Any {
        self
    }
}

macro_rules! qv_build {
    ($elem:expr, $path:expr, $vals:expr; $($n:literal => $t:ty),*) => {
        match $elem {
            $( $n => {
                let v: Vec<$t> = $vals.iter().map(|&x| x as $t).collect();
                let before = live();
                let q: QVector = match $path {
                    "collect" => v.iter().copied().collect(),
                    "builder" => { let mut b = QVectorBuilder::new(); for &x in v.iter() { let s: u8 = num_traits::AsPrimitive::<u8>::as_(x); b.push(s); } b.build() },
                    "extend" => { let mut b = QVectorBuilder::with_capacity(v.len()); b.extend(v.iter().copied()); b.build() },
                    "default" => QVector::default(),
                    h if h.starts_with("hist:") => {
                        // a push / extend history: tokens p<k> (k pushes) and e<k> (one extend of k values)
                        let mut b = QVectorBuilder::new();
                        let mut pos = 0usize;
                        for tok in h[5..].split(',') {
                            if tok.is_empty() { continue; }
                            let k: usize = match tok[1..].parse() { Ok(k) => k, Err(_) => return None };
                            let end = (pos + k).min(v.len());
                            if tok.starts_with('p') {
                                for &x in v[pos..end].iter() { let s: u8 = num_traits::AsPrimitive::<u8>::as_(x); b.push(s); }
                            } else if tok.starts_with('e') {
                                b.extend(v[pos..end].iter().copied());
                            } else if tok.starts_with('c') && pos == 0 {
                                // the builder itself collected from an iterator (FromIterator for QVectorBuilder)
                                b = v[pos..end].iter().copied().collect::<QVectorBuilder>();
                            } else { return None; }
                            pos = end;
                        }
                        b.build()
                    }
                    _ => return None,
                };
                let after = live();
                Some((q, after - before))
            } )*
            _ => None,
        }
    };
}

// ------------------------------------------------------------------- user-side containers of structures
pub enum AggObj<T> {
    B(Box<[T]>),
    V(Vec<T>),
}
impl<T: SpaceUsage + Clone + 'static> Obj for AggObj<T> {
    fn q(&self, _op: &str, _a: &[u128]) -> String {
        "X".into()
    }
    fn ser(&self) -> Vec<u8> {
        Vec::new()
    }
    fn roundtrip(&self) -> Option<Box<dyn Obj>> {
        None
    }
    fn clone_obj(&self) -> Box<dyn Obj> {
        match self {
            AggObj::B(b) => Box::new(AggObj::B(b.clone())),
            AggObj::V(v) => Box::new(AggObj::V(v.clone())),
        }
    }
    fn eq_obj(&self, _o: &dyn Obj) -> Option<bool> {
        None
    }
    fn space(&self) -> (usize, f64, f64, f64) {
        match self {
            AggObj::B(b) => (b.space_usage_byte(), b.space_usage_KiB(), b.space_usage_MiB(), b.space_usage_GiB()),
            AggObj::V(_) => (0, 0.0, 0.0, 0.0),   // Vec<T>: SpaceUsage only for T: Copy in the crate
        }
    }
    fn inline_size(&self) -> usize {
        match self {
            AggObj::B(_) => std::mem::size_of::<Box<[T]>>(),
            AggObj::V(_) => std::mem::size_of::<Vec<T>>(),
        }
    }
    fn as_any(&self) -> &dyn Any {
        self
    }
}

// ------------------------------------------------------------------- RSQVector
pub struct RsqObj<R> {
    r: R,
}
pub trait RsqApi: Sized + Clone + PartialEq + Serialize + DeserializeOwned + SpaceUsage + 'static
    + AccessQuad + RankQuad + SelectQuad + WTSupport + From<QVector> + Default + FromIterator<u64>
{
    fn r_len(&self) -> usize;
    fn r_is_empty(&self) -> bool;
    fn r_new(v: &[u64]) -> Self;
    fn r_iter(&self, owned: bool, ops: &str) -> String;
}
impl RsqApi for RSQVector256 {
    fn r_len(&self) -> usize { self.len() }
    fn r_is_empty(&self) -> bool { self.is_empty() }
    fn r_new(v: &[u64]) -> Self { Self::new(v) }
    fn r_iter(&self, owned: bool, ops: &str) -> String {
        if owned { run_iter_fw(self.clone().into_iter(), ops, |x| x) } else { run_iter_fw(self.iter(), ops, |x| x) }
    }
}
impl RsqApi for RSQVector512 {
    fn r_len(&self) -> usize { self.len() }
    fn r_is_empty(&self) -> bool { self.is_empty() }
    fn r_new(v: &[u64]) -> Self { Self::new(v) }
    fn r_iter(&self, owned: bool, ops: &str) -> String {
        if owned { run_iter_fw(self.clone().into_iter(), ops, |x| x) } else { run_iter_fw(self.iter(), ops, |x| x) }
    }
}
impl<R: RsqApi> RsqObj<R> {
    fn q1(&self, op: &str, a: &[u128]) -> String {
        let r = &self.r;
        match op {
            "len" => format!("V{}", r.r_len()),
            "isempty" => tf(r.r_is_empty()),
            "get" => so(r.get(us(a[0]))),
            "rank" => so(r.rank(a[0] as u8, us(a[1]))),
            "select" => so(r.select(a[0] as u8, us(a[1]))),
            "prefetch" => {
                r.prefetch_info(us(a[0]));
                r.prefetch_data(us(a[0]));
                "OK".into()
            }
            "occs" => so(r.occs(a[0] as u8)),
            "occssmaller" => so(r.occs_smaller(a[0] as u8)),
            "uget" => format!("V{}", unsafe { r.get_unchecked(us(a[0])) }),
            "urank" => format!("V{}", unsafe { r.rank_unchecked(a[0] as u8, us(a[1])) }),
            "uselect" => format!("V{}", unsafe { r.select_unchecked(a[0] as u8, us(a[1])) }),
            "uoccs" => format!("V{}", unsafe { r.occs_unchecked(a[0] as u8) }),
            "uoccssmaller" => format!("V{}", unsafe { r.occs_smaller_unchecked(a[0] as u8) }),
            "getall" => (0..=r.r_len() + 1).map(|i| guard(|| so(r.get(i)))).collect::<Vec<_>>().join(","),
            "rankall" => (0..=r.r_len() + 1).map(|i| guard(|| so(r.rank(a[0] as u8, i)))).collect::<Vec<_>>().join(","),
            "selectall" => (0..=us(a[1])).map(|k| guard(|| so(r.select(a[0] as u8, k)))).collect::<Vec<_>>().join(","),
            _ => "X".into(),
        }
    }
}
impl<R: RsqApi> Obj for RsqObj<R> {
    fn q(&self, op: &str, a: &[u128]) -> String {
        guard(|| self.q1(op, a))
    }
    fn ser(&self) -> Vec<u8> {
        bincode::serialize(&self.r).unwrap()
    }
    fn roundtrip(&self) -> Option<Box<dyn Obj>> {
        let r: R = bincode::deserialize(&self.ser()).ok()?;
        Some(Box::new(RsqObj { r }))
    }
    fn clone_obj(&self) -> Box<dyn Obj> {
        Box::new(RsqObj { r: self.r.clone() })
    }
    fn eq_obj(&self, o: &dyn Obj) -> Option<bool> {
        o.as_any().downcast_ref::<RsqObj<R>>().map(|x| x.r == self.r)
    }
    fn space(&self) -> (usize, f64, f64, f64) {
        (self.r.space_usage_byte(), self.r.space_usage_KiB(), self.r.space_usage_MiB(), self.r.space_usage_GiB())
    }
    fn inline_size(&self) -> usize {
        std::mem::size_of::<R>()
    }
    fn iter(&self, src: &str, ops: &str, _a: &[u128]) -> String {
        self.r.r_iter(src == "into", ops)
    }
    fn clone_from_obj(&mut self, o: &dyn Obj) -> bool {
        match o.as_any().downcast_ref::<RsqObj<R>>() {
            Some(x) => {
                self.r.clone_from(&x.r);
                true
            }
            None => false,
        }
    }
    fn as_any(&self) -> &dyn Any {
        self
    }
    fn threads(&self, k: usize, op: &str, a: &[u128]) -> String {
        let base = self.q(op, a);
        let before = self.ser();
        let ok = std::thread::scope(|s| {
            let me = ForceSync(self);
            let hs: Vec<_> = (0..k).map(|_| s.spawn(move || guard(|| me.get().q1(op, a)))).collect();
            hs.into_iter().all(|h| h.join().map(|r| r == base).unwrap_or(false))
        });
        format!("{}|{}|{}", base, tf(ok), tf(before == self.ser()))
    }
}
fn build_rsq<R: RsqApi>(path: &str, vals: &[u128]) -> Result<(Box<dyn Obj>, isize), String> {
    let v: Vec<u64> = vals.iter().map(|&x| x as u64).collect();
    let before = live();
    let r = match path {
        "new" => R::r_new(&v),
        "from" => R::from(v.iter().copied().collect::<QVector>()),
        "collect" => v.iter().copied().collect::<R>(),
        "default" => R::default(),
        _ => return Err("X".into()),
    };
    let after = live();
    Ok((Box::new(RsqObj { r }), after - before))
}

// ------------------------------------------------------------------- bit structures
fn bits_of(s: &str) -> Vec<bool> {
    if s == "-" { return vec![]; }
    s.bytes().map(|c| c == b'1').collect()
}

pub trait BinApi: Sized + Clone + PartialEq + Serialize + DeserializeOwned + SpaceUsage + 'static
    + AccessBin + RankBin + SelectBin + From<BitVector> + Default
{
    const NAME: &'static str;
    fn b_new(bv: BitVector) -> Self;
    fn b_n_ones(&self) -> usize;
    fn b_n_zeros(&self) -> usize;
    fn b_len(&self) -> Option<usize>;
}
impl BinApi for RSNarrow {
    const NAME: &'static str = "rsn";
    fn b_new(bv: BitVector) -> Self { RSNarrow::new(bv) }
    fn b_n_ones(&self) -> usize { self.n_ones() }
    fn b_n_zeros(&self) -> usize { RSNarrow::n_zeros(self) }
    fn b_len(&self) -> Option<usize> { None }
}
impl BinApi for RSWide {
    const NAME: &'static str = "rsw";
    fn b_new(bv: BitVector) -> Self { RSWide::new(bv) }
    fn b_n_ones(&self) -> usize { self.n_ones() }
    fn b_n_zeros(&self) -> usize { RSWide::n_zeros(self) }
    fn b_len(&self) -> Option<usize> { Some(self.bv_len()) }
}
pub struct BinObj<B> {
    b: B,
    n: usize,
}
impl<B: BinApi> BinObj<B> {
    fn q1(&self, op: &str, a: &[u128]) -> String {
        let b = &self.b;
        match op {
            "len" => match b.b_len() { Some(l) => format!("V{}", l), None => "X".into() },
            "get" => sb(b.get(us(a[0]))),
            "rank1" => so(b.rank1(us(a[0]))),
            "rank0" => so(b.rank0(us(a[0]))),
            "select1" => so(b.select1(us(a[0]))),
            "select0" => so(b.select0(us(a[0]))),
            "nones" => format!("V{}", b.b_n_ones()),
            "nzeros" => format!("V{}", b.b_n_zeros()),
            "tnzeros" => format!("V{}", RankBin::n_zeros(b)),
            "uget" => format!("V{}", unsafe { b.get_unchecked(us(a[0])) } as u8),
            "urank1" => format!("V{}", unsafe { b.rank1_unchecked(us(a[0])) }),
            "urank0" => format!("V{}", unsafe { b.rank0_unchecked(us(a[0])) }),
            "uselect1" => format!("V{}", unsafe { b.select1_unchecked(us(a[0])) }),
            "uselect0" => format!("V{}", unsafe { b.select0_unchecked(us(a[0])) }),
            "getall" => (0..=self.n + 1).map(|i| guard(|| sb(b.get(i)))).collect::<Vec<_>>().join(","),
            "rank1all" => (0..=self.n + 1).map(|i| guard(|| so(b.rank1(i)))).collect::<Vec<_>>().join(","),
            "rank0all" => (0..=self.n + 1).map(|i| guard(|| so(b.rank0(i)))).collect::<Vec<_>>().join(","),
            "select1all" => (0..=us(a[0])).map(|k| guard(|| so(b.select1(k)))).collect::<Vec<_>>().join(","),
            "select0all" => (0..=us(a[0])).map(|k| guard(|| so(b.select0(k)))).collect::<Vec<_>>().join(","),
            _ => "X".into(),
        }
    }
}
impl<B: BinApi> Obj for BinObj<B> {
    fn q(&self, op: &str, a: &[u128]) -> String {
        guard(|| self.q1(op, a))
    }
    fn ser(&self) -> Vec<u8> {
        bincode::serialize(&self.b).unwrap()
    }
    fn roundtrip(&self) -> Option<Box<dyn Obj>> {
        let b: B = bincode::deserialize(&self.ser()).ok()?;
        Some(Box::new(BinObj { b, n: self.n }))
    }
    fn clone_obj(&self) -> Box<dyn Obj> {
        Box::new(BinObj { b: self.b.clone(), n: self.n })
    }
    fn eq_obj(&self, o: &dyn Obj) -> Option<bool> {
        o.as_any().downcast_ref::<BinObj<B>>().map(|x| x.b == self.b)
    }
    fn space(&self) -> (usize, f64, f64, f64) {
        (self.b.space_usage_byte(), self.b.space_usage_KiB(), self.b.space_usage_MiB(), self.b.space_usage_GiB())
    }
    fn inline_size(&self) -> usize {
        std::mem::size_of::<B>()
    }
    fn clone_from_obj(&mut self, o: &dyn Obj) -> bool {
        match o.as_any().downcast_ref::<BinObj<B>>() {
            Some(x) => {
                self.b.clone_from(&x.b);
                self.n = x.n;
                true
            }
            None => false,
        }
    }
    fn as_any(&self) -> &dyn Any {
        self
    }
    fn threads(&self, k: usize, op: &str, a: &[u128]) -> String {
        let base = self.q(op, a);
        let before = self.ser();
        let ok = std::thread::scope(|s| {
            let me = ForceSync(self);
            let hs: Vec<_> = (0..k).map(|_| s.spawn(move || guard(|| me.get().q1(op, a)))).collect();
            hs.into_iter().all(|h| h.join().map(|r| r == base).unwrap_or(false))
        });
        format!("{}|{}|{}", base, tf(ok), tf(before == self.ser()))
    }
}
fn build_bin<B: BinApi>(path: &str, bits: &[bool]) -> Result<(Box<dyn Obj>, isize), String> {
    let before0 = live();
    let bv: BitVector = bits.iter().copied().collect();
    let b = match path {
        "new" => B::b_new(bv),
        "from" => B::from(bv),
        "default" => B::default(),
        _ => return Err("X".into()),
    };
    let after = live();
    let n = if path == "default" { 0 } else { bits.len() };
    Ok((Box::new(BinObj { b, n }), after - before0))
}

// DArray
pub struct DaObj<const S0: bool> {
    d: DArray<S0>,
}
impl<const S0: bool> DaObj<S0> {
    fn q1(&self, op: &str, a: &[u128]) -> String {
        let d = &self.d;
        match op {
            "len" => format!("V{}", d.len()),
            "isempty" => tf(d.is_empty()),
            "countones" => format!("V{}", d.count_ones()),
            "countzeros" => format!("V{}", d.count_zeros()),
            "get" => sb(d.get(us(a[0]))),
            "select1" => so(d.select1(us(a[0]))),
            "select0" => so(d.select0(us(a[0]))),
            "uget" => format!("V{}", unsafe { d.get_unchecked(us(a[0])) } as u8),
            "uselect1" => format!("V{}", unsafe { d.select1_unchecked(us(a[0])) }),
            "uselect0" => format!("V{}", unsafe { d.select0_unchecked(us(a[0])) }),
            "getall" => (0..=d.len() + 1).map(|i| guard(|| sb(d.get(i)))).collect::<Vec<_>>().join(","),
            "select1all" => (0..=us(a[0])).map(|k| guard(|| so(d.select1(k)))).collect::<Vec<_>>().join(","),
            "select0all" => (0..=us(a[0])).map(|k| guard(|| so(d.select0(k)))).collect::<Vec<_>>().join(","),
            "ones" => d.ones().map(|x| x.to_string()).collect::<Vec<_>>().join(","),
            "zeros" => d.zeros().map(|x| x.to_string()).collect::<Vec<_>>().join(","),
            "oneswp" => d.ones_with_pos(us(a[0])).map(|x| x.to_string()).collect::<Vec<_>>().join(","),
            "zeroswp" => d.zeros_with_pos(us(a[0])).map(|x| x.to_string()).collect::<Vec<_>>().join(","),
            "bits" => d.iter().map(|x| if x { "1" } else { "0" }).collect::<Vec<_>>().join(""),
            _ => "X".into(),
        }
    }
}
impl<const S0: bool> Obj for DaObj<S0> {
    fn q(&self, op: &str, a: &[u128]) -> String {
        guard(|| self.q1(op, a))
    }
    fn ser(&self) -> Vec<u8> {
        bincode::serialize(&self.d).unwrap()
    }
    fn roundtrip(&self) -> Option<Box<dyn Obj>> {
        let d: DArray<S0> = bincode::deserialize(&self.ser()).ok()?;
        Some(Box::new(DaObj { d }))
    }
    fn clone_obj(&self) -> Box<dyn Obj> {
        Box::new(DaObj { d: self.d.clone() })
    }
    fn eq_obj(&self, o: &dyn Obj) -> Option<bool> {
        o.as_any().downcast_ref::<DaObj<S0>>().map(|x| x.d == self.d)
    }
    fn space(&self) -> (usize, f64, f64, f64) {
        (self.d.space_usage_byte(), self.d.space_usage_KiB(), self.d.space_usage_MiB(), self.d.space_usage_GiB())
    }
    fn inline_size(&self) -> usize {
        std::mem::size_of::<DArray<S0>>()
    }
    fn iter(&self, src: &str, ops: &str, a: &[u128]) -> String {
        match src {
            "bits" => run_iter_ex(self.d.iter(), ops, |x| x as u8),
            "ones" => run_iter_fw(self.d.ones(), ops, |x| x),
            "zeros" => run_iter_fw(self.d.zeros(), ops, |x| x),
            "oneswp" => run_iter_fw(self.d.ones_with_pos(us(a[0])), ops, |x| x),
            "zeroswp" => run_iter_fw(self.d.zeros_with_pos(us(a[0])), ops, |x| x),
            _ => "X".into(),
        }
    }
    fn clone_from_obj(&mut self, o: &dyn Obj) -> bool {
        match o.as_any().downcast_ref::<DaObj<S0>>() {
            Some(x) => {
                self.d.clone_from(&x.d);
                true
            }
            None => false,
        }
    }
    fn as_any(&self) -> &dyn Any {
        self
    }
    fn threads(&self, k: usize, op: &str, a: &[u128]) -> String {
        let base = self.q(op, a);
        let before = self.ser();
        let ok = std::thread::scope(|s| {
            let me = ForceSync(self);
            let hs: Vec<_> = (0..k).map(|_| s.spawn(move || guard(|| me.get().q1(op, a)))).collect();
            hs.into_iter().all(|h| h.join().map(|r| r == base).unwrap_or(false))
        });
        format!("{}|{}|{}", base, tf(ok), tf(before == self.ser()))
    }
}
fn build_da<const S0: bool>(path: &str, bits: &[bool], pos: &[u128]) -> Result<(Box<dyn Obj>, isize), String> {
    let before = live();
    let d: DArray<S0> = match path {
        "bits" => bits.iter().copied().collect(),
        "new" => DArray::<S0>::new(bits.iter().copied().collect::<BitVector>()),
        "pos" => pos.iter().map(|&x| x as usize).collect(),
        "pos64" => pos.iter().map(|&x| x as u64).collect(),
        "posi64" => pos.iter().map(|&x| x as i128 as i64).collect(),
        "default" => DArray::<S0>::default(),
        _ => return Err("X".into()),
    };
    let after = live();
    Ok((Box::new(DaObj { d }), after - before))
}

// BitVector / BitVectorMut
pub enum Bv {
    I(BitVector),
    M(BitVectorMut),
}
pub struct BvObj {
    b: Bv,
}
macro_rules! bv_q {
    ($b:expr, $op:expr, $a:expr) => {{
        let b = $b;
        let a = $a;
        match $op {
            "len" => format!("V{}", b.len()),
            "isempty" => tf(b.is_empty()),
            "countones" => format!("V{}", b.count_ones()),
            "countzeros" => format!("V{}", b.count_zeros()),
            "get" => sb(b.get(us(a[0]))),
            "uget" => format!("V{}", unsafe { b.get_unchecked(us(a[0])) } as u8),
            "getbits" => so(b.get_bits(us(a[0]), us(a[1]))),
            "ugetbits" => format!("V{}", unsafe { b.get_bits_unchecked(us(a[0]), us(a[1])) }),
            "getword" => format!("V{}", b.get_word(us(a[0]))),
            "getall" => (0..=b.len() + 1).map(|i| sb(b.get(i))).collect::<Vec<_>>().join(","),
            "ones" => b.ones().map(|x| x.to_string()).collect::<Vec<_>>().join(","),
            "zeros" => b.zeros().map(|x| x.to_string()).collect::<Vec<_>>().join(","),
            "oneswp" => b.ones_with_pos(us(a[0])).map(|x| x.to_string()).collect::<Vec<_>>().join(","),
            "zeroswp" => b.zeros_with_pos(us(a[0])).map(|x| x.to_string()).collect::<Vec<_>>().join(","),
            "bits" => b.iter().map(|x| if x { "1" } else { "0" }).collect::<Vec<_>>().join(""),
            // get_bits for every start with a fixed len
            "getbitsall" => (0..=b.len() + 1).map(|i| guard(|| so(b.get_bits(i, us(a[0]))))).collect::<Vec<_>>().join(","),
            "getwordall" => (0..=(b.len() + 63) / 64).map(|i| guard(|| format!("V{}", b.get_word(i)))).collect::<Vec<_>>().join(","),
            _ => "X".into(),
        }
    }};
}
macro_rules! bv_iter {
    ($b:expr, $src:expr, $ops:expr, $a:expr) => {{
        let b = $b;
        match $src {
            "iter" => run_iter_ex(b.iter(), $ops, |x| x as u8),
            "into" => run_iter_ex(b.clone().into_iter(), $ops, |x| x as u8),
            "ones" => run_iter_fw(b.ones(), $ops, |x| x),
            "zeros" => run_iter_fw(b.zeros(), $ops, |x| x),
            "oneswp" => run_iter_fw(b.ones_with_pos(us($a[0])), $ops, |x| x),
            "zeroswp" => run_iter_fw(b.zeros_with_pos(us($a[0])), $ops, |x| x),
            _ => "X".into(),
        }
    }};
}
impl Obj for BvObj {
    fn q(&self, op: &str, a: &[u128]) -> String {
        guard(|| match &self.b {
            Bv::I(b) if op == "nlines" => format!("V{}", b.n_lines()),
            Bv::I(b) if op == "prefetch" => {
                b.prefetch_line(us(a[0]));
                "OK".into()
            }
            Bv::I(b) => bv_q!(b, op, a),
            Bv::M(b) => bv_q!(b, op, a),
        })
    }
    fn m(&mut self, op: &str, a: &[&str]) -> String {
        // conversions work on both kinds
        match op {
            "tomut" => {
                let old = std::mem::replace(&mut self.b, Bv::I(BitVector::default()));
                self.b = match old {
                    Bv::I(b) => Bv::M(BitVectorMut::from(b)),
                    m => m,
                };
                return "OK".into();
            }
            "toimm" => {
                let old = std::mem::replace(&mut self.b, Bv::I(BitVector::default()));
                self.b = match old {
                    Bv::M(b) => Bv::I(BitVector::from(b)),
                    i => i,
                };
                return "OK".into();
            }
            _ => {}
        }
        let b = match &mut self.b {
            Bv::M(b) => b,
            _ => return "X".into(),
        };
        let n = |i: usize| -> u128 { a[i].parse::<u128>().unwrap() };
        // a panicking mutator must leave the value usable: run it on a clone, commit on success
        let mut w = b.clone();
        let r = catch_unwind(AssertUnwindSafe(|| {
            match op {
                "push" => w.push(n(0) != 0),
                "append" => w.append_bits(n(0) as u64, us(n(1))),
                "zeros" => w.extend_with_zeros(us(n(0))),
                "set" => w.set(us(n(0)), n(1) != 0),
                "setbits" => w.set_bits(us(n(0)), us(n(1)), n(2) as u64),
                "extbits" => w.extend(bits_of(a[0]).into_iter()),
                "extpos" => w.extend(a.iter().map(|x| x.parse::<usize>().unwrap())),
                "shrink" => w.shrink_to_fit(),
                _ => {}
            }
            w
        }));
        match r {
            Ok(w) => {
                *b = w;
                "OK".into()
            }
            Err(_) => "P".into(),
        }
    }
    fn ser(&self) -> Vec<u8> {
        match &self.b {
            Bv::I(b) => bincode::serialize(b).unwrap(),
            Bv::M(b) => bincode::serialize(b).unwrap(),
        }
    }
    fn roundtrip(&self) -> Option<Box<dyn Obj>> {
        Some(Box::new(BvObj {
            b: match &self.b {
                Bv::I(_) => Bv::I(bincode::deserialize(&self.ser()).ok()?),
                Bv::M(_) => Bv::M(bincode::deserialize(&self.ser()).ok()?),
            },
        }))
    }
    fn clone_obj(&self) -> Box<dyn Obj> {
        Box::new(BvObj {
            b: match &self.b {
                Bv::I(b) => Bv::I(b.clone()),
                Bv::M(b) => Bv::M(b.clone()),
            },
        })
    }
    fn eq_obj(&self, o: &dyn Obj) -> Option<bool> {
        let o = o.as_any().downcast_ref::<BvObj>()?;
        match (&self.b, &o.b) {
            (Bv::I(x), Bv::I(y)) => Some(x == y),
            (Bv::M(x), Bv::M(y)) => Some(x == y),
            _ => None,
        }
    }
    fn space(&self) -> (usize, f64, f64, f64) {
        match &self.b {
            Bv::I(b) => (b.space_usage_byte(), b.space_usage_KiB(), b.space_usage_MiB(), b.space_usage_GiB()),
            Bv::M(b) => (b.space_usage_byte(), b.space_usage_KiB(), b.space_usage_MiB(), b.space_usage_GiB()),
        }
    }
    fn inline_size(&self) -> usize {
        std::mem::size_of::<BitVector>()
    }
    fn iter(&self, src: &str, ops: &str, a: &[u128]) -> String {
        match &self.b {
            Bv::I(b) => bv_iter!(b, src, ops, a),
            Bv::M(b) => bv_iter!(b, src, ops, a),
        }
    }
    fn clone_from_obj(&mut self, o: &dyn Obj) -> bool {
        match o.as_any().downcast_ref::<BvObj>() {
            Some(x) => match (&mut self.b, &x.b) {
                (Bv::I(a), Bv::I(b)) => {
                    a.clone_from(b);
                    true
                }
                (Bv::M(a), Bv::M(b)) => {
                    a.clone_from(b);
                    true
                }
                _ => false,
            },
            None => false,
        }
    }
    fn as_any(&self) -> &dyn Any {
        self
    }
    fn threads(&self, k: usize, op: &str, a: &[u128]) -> String {
        let base = self.q(op, a);
        let before = self.ser();
        let ok = match &self.b {
            Bv::I(b) => std::thread::scope(|s| {
                let me = ForceSync(b);
                let hs: Vec<_> = (0..k).map(|_| s.spawn(move || guard(|| bv_q!(me.get(), op, a)))).collect();
                hs.into_iter().all(|h| h.join().map(|r| r == base).unwrap_or(false))
            }),
            Bv::M(_) => true,
        };
        format!("{}|{}|{}", base, tf(ok), tf(before == self.ser()))
    }
}

// ------------------------------------------------------------------------------ state
#[derive(Default)]
pub struct State {
    cur: Option<Box<dyn Obj>>,
    heap: isize,
    slots: HashMap<String, Box<dyn Obj>>,
}

fn parse_nums(t: &[&str]) -> Vec<u128> {
    // a token is a number, or `v*c` (v repeated c times), or `a..b*c` (each of a, a+1, .., b-1 repeated c times): long
    // inputs with many distinct symbols stay short on the command line
    let one = |x: &str| -> u128 {
        if x.starts_with('-') {
            x.parse::<i128>().unwrap() as u128
        } else {
            x.parse::<u128>().unwrap()
        }
    };
    let mut out = Vec::new();
    for x in t {
        if let Some((v, c)) = x.split_once('*') {
            let c: usize = c.parse().unwrap();
            if let Some((a, b)) = v.split_once("..") {
                for s in one(a)..one(b) {
                    out.extend(std::iter::repeat(s).take(c));
                }
            } else {
                out.extend(std::iter::repeat(one(v)).take(c));
            }
        } else {
            out.push(one(x));
        }
    }
    out
}

impl State {
    pub fn exec(&mut self, t: &[&str]) -> String {
        match t[0] {
            "NEW" => {
                self.cur = None;
                let (kind, elem, path) = (t[1], t[2], t[3]);
                let r = catch_unwind(AssertUnwindSafe(|| self.build(kind, elem, path, &t[4..])));
                match r {
                    Ok(Ok((o, heap))) => {
                        self.cur = Some(o);
                        self.heap = heap;
                        "OK".into()
                    }
                    Ok(Err(e)) => e,
                    Err(_) => "P".into(),
                }
            }
            "Q" => match &self.cur {
                Some(o) => o.q(t[1], &parse_nums(&t[2..])),
                None => "X".into(),
            },
            "OP" => match &mut self.cur {
                Some(o) => {
                    // keep the retained-heap figure current: a mutation may grow or shrink the value
                    let before = live();
                    let r = o.m(t[1], &t[2..]);
                    let after = live();
                    self.heap += after - before - r.capacity() as isize;
                    r
                }
                None => "X".into(),
            },
            "ITER" => match &self.cur {
                Some(o) => guard(|| o.iter(t[1], t[2], &parse_nums(&t[3..]))),
                None => "X".into(),
            },
            "SER" => match &self.cur {
                Some(o) => {
                    let b = o.ser();
                    format!("V{}:{}", b.len(), hex(&b))
                }
                None => "X".into(),
            },
            "RT" => match &self.cur {
                Some(o) => match guard(|| match o.roundtrip() { Some(_) => "ok".into(), None => "E".into() }).as_str() {
                    "ok" => {
                        let n = o.roundtrip().unwrap();
                        let eq = o.eq_obj(&*n).unwrap_or(false);
                        let same = o.ser() == n.ser();
                        self.cur = Some(n);
                        format!("{}{}", tf(eq), tf(same))
                    }
                    other => other.to_string(),
                },
                None => "X".into(),
            },
            "CLONE" => match &self.cur {
                Some(o) => {
                    let n = o.clone_obj();
                    let eq = o.eq_obj(&*n).unwrap_or(false);
                    self.cur = Some(n);
                    tf(eq)
                }
                None => "X".into(),
            },
            "STORE" => match self.cur.take() {
                Some(o) => {
                    self.cur = Some(o.clone_obj());
                    self.slots.insert(t[1].to_string(), o);
                    "OK".into()
                }
                None => "X".into(),
            },
            "SWAP" => match (self.cur.as_mut(), self.slots.get_mut(t[1])) {
                (Some(o), Some(sl)) => tf(o.swap_obj(&mut **sl)),
                _ => "X".into(),
            },
            "CLONEFROM" => match (self.cur.as_mut(), self.slots.get(t[1])) {
                (Some(o), Some(sl)) => tf(o.clone_from_obj(&**sl)),
                _ => "X".into(),
            },
            "DROP" => {
                self.cur = None;
                "OK".into()
            }
            "EQ" => match (&self.cur, self.slots.get(t[1])) {
                (Some(o), Some(s)) => match guard(|| match o.eq_obj(&**s) { Some(b) => tf(b), None => "X".into() }).as_str() {
                    x => x.to_string(),
                },
                _ => "X".into(),
            },
            "SPACE" => match &self.cur {
                Some(o) => {
                    let (b, k, m, g) = o.space();
                    let kib_ok = (k - (b as f64) / 1024.0).abs() <= 1e-9 * (1.0 + k.abs());
                    let mib_ok = (m - (b as f64) / 1048576.0).abs() <= 1e-9 * (1.0 + m.abs());
                    let gib_ok = (g - (b as f64) / 1073741824.0).abs() <= 1e-9 * (1.0 + g.abs());
                    format!("V{} {} {} {}", b, self.heap, o.inline_size(), tf(kib_ok && mib_ok && gib_ok))
                }
                None => "X".into(),
            },
            "THREADS" => match &self.cur {
                Some(o) => o.threads(t[1].parse().unwrap(), t[2], &parse_nums(&t[3..])),
                None => "X".into(),
            },
            "TMIX" => match &self.cur {
                Some(o) => o.tmix(t[1].parse().unwrap(), t[2].parse().unwrap(), t[3], t[4].parse().unwrap(), &parse_nums(&t[5..])),
                None => "X".into(),
            },
            "FN" => crate::spec::exec_fn(true, &t[1..]),
            _ => "X".into(),
        }
    }

    fn build(&self, kind: &str, elem: &str, path: &str, rest: &[&str]) -> Result<(Box<dyn Obj>, isize), String> {
        match kind {
            // NEW aggbox|aggvec <bv|rsw|rsn|rsq256|qv> new <k> n1 .. nk : a user-side Box<[T]> / Vec<T> of k structures of
            // different sizes (the generic SpaceUsage impls of the crate report on it)
            "aggbox" => {
                let sizes: Vec<usize> = rest[1..].iter().filter_map(|x| x.parse().ok()).collect();
                let boxed = kind == "aggbox";
                let mut seed = 0x9E3779B97F4A7C15u64 ^ (sizes.len() as u64);
                let mut bit = move || { seed ^= seed << 13; seed ^= seed >> 7; seed ^= seed << 17; seed & 1 == 1 };
                macro_rules! agg {
                    ($t:ty, $mk:expr) => {{
                        let before = live();
                        let mut v: Vec<$t> = Vec::new();
                        for &n in sizes.iter() { v.push($mk(n)); }
                        let a = if boxed { AggObj::B(v.into_boxed_slice()) } else { AggObj::V(v) };
                        let h = live() - before;
                        Ok((Box::new(a) as Box<dyn Obj>, h))
                    }};
                }
                match elem {
                    "bv" => agg!(BitVector, |n: usize| (0..n).map(|_| bit()).collect::<BitVector>()),
                    "rsw" => agg!(RSWide, |n: usize| RSWide::new((0..n).map(|_| bit()).collect::<BitVector>())),
                    "rsn" => agg!(RSNarrow, |n: usize| RSNarrow::new((0..n).map(|_| bit()).collect::<BitVector>())),
                    "qv" => agg!(QVector, |n: usize| (0..n).map(|_| (bit() as u8) * 2 + bit() as u8).collect::<QVector>()),
                    "rsq256" => agg!(RSQVector256, |n: usize| (0..n).map(|_| (bit() as u8) * 2 + bit() as u8).collect::<RSQVector256>()),
                    _ => Err("X".into()),
                }
            }
            "rsn" | "rsw" | "darray0" | "darray1" | "bv" | "bvm" => {
                // rest: <nbits> <bitstring|->   or for pos paths: <n> p1 .. pn
                if path.starts_with("pos") {
                    let pos = parse_nums(&rest[1..]);
                    match kind {
                        "darray0" => build_da::<false>(path, &[], &pos),
                        "darray1" => build_da::<true>(path, &[], &pos),
                        "bv" => {
                            let before = live();
                            let b: BitVector = pos.iter().map(|&x| x as usize).collect();
                            let h = live() - before;
                            Ok((Box::new(BvObj { b: Bv::I(b) }), h))
                        }
                        "bvm" => {
                            let before = live();
                            let b: BitVectorMut = pos.iter().map(|&x| x as usize).collect();
                            let h = live() - before;
                            Ok((Box::new(BvObj { b: Bv::M(b) }), h))
                        }
                        _ => Err("X".into()),
                    }
                } else {
                    let bits = if rest.len() >= 2 { bits_of(rest[1]) } else { vec![] };
                    match kind {
                        "rsn" => build_bin::<RSNarrow>(path, &bits),
                        "rsw" => build_bin::<RSWide>(path, &bits),
                        "darray0" => build_da::<false>(path, &bits, &[]),
                        "darray1" => build_da::<true>(path, &bits, &[]),
                        "bv" => {
                            let before = live();
                            let b: BitVector = match path {
                                "default" => BitVector::default(),
                                _ => bits.iter().copied().collect(),
                            };
                            let h = live() - before;
                            Ok((Box::new(BvObj { b: Bv::I(b) }), h))
                        }
                        "bvm" => {
                            let before = live();
                            let b: BitVectorMut = match path {
                                "default" => BitVectorMut::default(),
                                "new" => BitVectorMut::new(),
                                "withcap" => BitVectorMut::with_capacity(bits.len()),
                                "withzeros" => BitVectorMut::with_zeros(rest[0].parse().unwrap()),
                                _ => bits.iter().copied().collect(),
                            };
                            let h = live() - before;
                            Ok((Box::new(BvObj { b: Bv::M(b) }), h))
                        }
                        _ => Err("X".into()),
                    }
                }
            }
            "qv" => {
                let vals = parse_nums(&rest[1..]);
                let r: Option<(QVector, isize)> = (|| -> Option<(QVector, isize)> {
                    let x: Option<(QVector, isize)> = qv_build!(elem, path, &vals;
                        "u8" => u8, "u16" => u16, "u32" => u32, "u64" => u64, "usize" => usize, "u128" => u128,
                        "i8" => i8, "i16" => i16, "i32" => i32, "i64" => i64, "isize" => isize, "i128" => i128);
                    x
                })();
                match r {
                    Some((q, h)) => Ok((Box::new(QvObj { q }), h)),
                    None => Err("X".into()),
                }
            }
            "rsq256" => build_rsq::<RSQVector256>(path, &parse_nums(&rest[1..])),
            "rsq512" => build_rsq::<RSQVector512>(path, &parse_nums(&rest[1..])),
            _ => {
                let vals = parse_nums(&rest[1..]);
                let r = tree_factory!(kind, elem, path, &vals;
                    "qwt256" => QWT256, "qwt512" => QWT512, "qwt256pfs" => QWT256Pfs, "qwt512pfs" => QWT512Pfs,
                    "hqwt256" => HQWT256, "hqwt512" => HQWT512, "hqwt256pfs" => HQWT256Pfs, "hqwt512pfs" => HQWT512Pfs,
                    "wt" => WT, "hwt" => HWT);
                match r {
                    Some(x) => x,
                    None => Err("X".into()),
                }
            }
        }
    }
}
