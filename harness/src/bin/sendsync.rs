// C18: compile-time obligation "every query structure is Send + Sync".
// Built only by the C18 check (cargo build --features sendsync_check --bin sendsync).
// A Cell / Rc / raw pointer field in any of the types below makes this file fail to compile;
// the compiler error names the type.
use qwt::*;

fn assert_send_sync<T: Send + Sync>() {}

macro_rules! trees {
    ($($t:ident),*) => {$(
        assert_send_sync::<$t<u8>>(); assert_send_sync::<$t<u16>>(); assert_send_sync::<$t<u32>>();
        assert_send_sync::<$t<u64>>(); assert_send_sync::<$t<usize>>(); assert_send_sync::<$t<u128>>();
    )*};
}

fn main() {
    trees!(QWT256, QWT512, QWT256Pfs, QWT512Pfs, HQWT256, HQWT512, HQWT256Pfs, HQWT512Pfs, WT, HWT);
    assert_send_sync::<RSQVector256>();
    assert_send_sync::<RSQVector512>();
    assert_send_sync::<QVector>();
    assert_send_sync::<BitVector>();
    assert_send_sync::<BitVectorMut>();
    assert_send_sync::<RSNarrow>();
    assert_send_sync::<RSWide>();
    assert_send_sync::<DArray<false>>();
    assert_send_sync::<DArray<true>>();
    println!("send-sync-ok");
}
