// Correspondence harness for rossanoventurini/qwt.
// Reads a line-oriented case file (see tools/cases.py), prints one answer line per command.
//   --mode impl : run the real library (built from /repo's working tree)
//   --mode spec : run the native specification oracle (naive scans; builds no qwt structure)
// Answers: S<v> = Some(v), N = None, V<v> = plain value, T/F = bool, P = panic (caught),
//          X = command not applicable, OK = done.  Several acceptable answers: a/b.
#![allow(clippy::all)]
#![allow(dead_code)]
#![allow(unused_variables)]

mod alloc_count;
mod spec;
mod objs;

use std::io::{BufRead, Write};

#[global_allocator]
static GLOBAL: alloc_count::Counting = alloc_count::Counting;

fn main() {
    let args: Vec<String> = std::env::args().collect();
    let mut mode = "impl".to_string();
    let mut file = None;
    let mut i = 1;
    while i < args.len() {
        match args[i].as_str() {
            "--mode" => {
                mode = args[i + 1].clone();
                i += 1;
            }
            f => file = Some(f.to_string()),
        }
        i += 1;
    }
    std::panic::set_hook(Box::new(|_| {}));
    let stdin = std::io::stdin();
    let reader: Box<dyn BufRead> = match file {
        Some(f) => Box::new(std::io::BufReader::with_capacity(1 << 20, std::fs::File::open(f).expect("open"))),
        None => Box::new(stdin.lock()),
    };
    let out = std::io::stdout();
    let mut out = std::io::BufWriter::new(out.lock());
    let mut st_impl = objs::State::default();
    let mut st_spec = spec::State::default();
    for line in reader.lines() {
        let line = line.unwrap();
        let l = line.trim();
        if l.is_empty() || l.starts_with('#') {
            continue;
        }
        let toks: Vec<&str> = l.split_ascii_whitespace().collect();
        if toks[0] == "CASE" {
            writeln!(out, "CASE {}", toks[1]).unwrap();
            out.flush().unwrap();
            continue;
        }
        if toks[0] == "SKIP" {
            // a command that aborted the process in an earlier run
            writeln!(out, "A").unwrap();
            out.flush().unwrap();
            continue;
        }
        let ans = if mode == "impl" { st_impl.exec(&toks) } else { st_spec.exec(&toks) };
        writeln!(out, "{}", ans).unwrap();
        // flush after every answer so that an abort loses nothing
        out.flush().unwrap();
    }
}
