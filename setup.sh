#!/bin/bash
# Build the whole framework offline from files on disk: regenerate Gen/*.v from /repo, full Coq
# build (.vo), extraction + OCaml driver, Rust harness in the profiles the checks use.
set -e
cd "$(dirname "$0")"
export CARGO_NET_OFFLINE=true RUSTFLAGS="--cfg qwt_verif"
python3 tools/gen_from_src.py
(cd coq && ./build.sh)
(cd ocaml && ./build.sh)
cp /repo/Cargo.lock harness/Cargo.lock
(cd harness && cargo build --offline --target-dir target && cargo build --offline --release --target-dir target \
   && cargo build --offline --release --no-default-features --target-dir target/nopf && cargo build --offline --features sendsync_check --bin sendsync --target-dir target)
echo setup-ok
