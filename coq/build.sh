#!/bin/bash
# full .vo build of the Coq development (never -vos); usage: build.sh [make targets...]
set -e
cd "$(dirname "$0")"
{ cat _CoqProject.in; find theories extraction -name '*.v' | LC_ALL=C sort; } > _CoqProject.new
if ! cmp -s _CoqProject.new _CoqProject; then mv _CoqProject.new _CoqProject; coq_makefile -f _CoqProject -o Makefile >/dev/null; else rm _CoqProject.new; fi
[ -f Makefile ] || coq_makefile -f _CoqProject -o Makefile >/dev/null
timeout ${COQ_TIMEOUT:-3000} make -j16 "$@"
