(* Huffman-shaped wavelet matrix: every symbol x has a code of [clen x] digits, level l stores
   only the symbols with clen x > l.  The walks are the generic ones of WaveletMatrix.v, run
   over the (unfiltered) stored digit lists. *)
From Coq Require Import ZArith Lia ZifyBool ZifyN ZifyNat.
From QwtModel Require Import ListX Seq ListXP WaveletMatrix.
Ltac Zify.zify_post_hook ::= Z.div_mod_to_equations.
Arguments N.add : simpl never.
Arguments N.sub : simpl never.
Arguments N.mul : simpl never.
Arguments N.eqb : simpl never.
Arguments N.ltb : simpl never.
Arguments N.leb : simpl never.
Arguments N.pred : simpl never.
Arguments N.of_nat : simpl never.
Arguments N.pow : simpl never.

(* ---------- generic facts ---------- *)

Lemma lex_lt P x1 d1 x2 d2 : x1 < P -> d1 < d2 -> x1 + d1 * P < x2 + d2 * P.
Proof.
  intros H1 H2. assert (H : (d1 + 1) * P <= d2 * P) by (apply N.mul_le_mono_r; lia). lia.
Qed.

Lemma lex_le P x1 d1 x2 d2 : x1 <= x2 -> d1 <= d2 -> x1 + d1 * P <= x2 + d2 * P.
Proof.
  intros H1 H2. assert (H : d1 * P <= d2 * P) by (apply N.mul_le_mono_r; lia). lia.
Qed.

Lemma count_lt_filter {A} (f : A -> N) (g : A -> bool) d U :
  (forall x, In x U -> f x < d -> g x = true) ->
  count_lt d (map f (filter g U)) = count_lt d (map f U).
Proof.
  induction U as [|x U IH]; intros H; cbn [filter map count_lt]; [reflexivity|].
  assert (IH' := IH (fun y Hy => H y (or_intror Hy))).
  destruct (g x) eqn:Eg; cbn [map count_lt]; rewrite IH'; [reflexivity|].
  destruct (N.ltb_spec (f x) d) as [Hlt|Hge]; cbv iota; [|lia].
  rewrite (H x (or_introl eq_refl) Hlt) in Eg. discriminate.
Qed.

Lemma len_filter_le_lt {A} (f : A -> N) (p : A -> bool) d U :
  (forall x, In x U -> p x = true -> f x < d) -> len (filter p U) <= count_lt d (map f U).
Proof.
  induction U as [|x U IH]; intros H; cbn [filter map count_lt]; [unfold len; cbn [length]; lia|].
  assert (IH' := IH (fun y Hy => H y (or_intror Hy))).
  destruct (p x) eqn:Ep; [|lia]. rewrite len_cons.
  pose proof (H x (or_introl eq_refl) Ep) as Hlt.
  destruct (N.ltb_spec (f x) d); cbv iota; lia.
Qed.

Lemma len_filter_le_le {A} (f : A -> N) (p : A -> bool) d U :
  (forall x, In x U -> p x = true -> f x <= d) ->
  len (filter p U) <= count_lt d (map f U) + countN d (map f U).
Proof.
  induction U as [|x U IH]; intros H; cbn [filter map count_lt countN]; [unfold len; cbn [length]; lia|].
  assert (IH' := IH (fun y Hy => H y (or_intror Hy))).
  destruct (p x) eqn:Ep; [|lia]. rewrite len_cons.
  pose proof (H x (or_introl eq_refl) Ep) as Hle.
  destruct (N.ltb_spec (f x) d), (N.eqb_spec (f x) d); cbv iota; lia.
Qed.

Lemma count_lt_eq_le_len d D : count_lt d D + countN d D <= len D.
Proof.
  induction D as [|x D IH]; cbn [count_lt countN]; [unfold len; cbn [length]; lia|].
  rewrite len_cons. destruct (N.ltb_spec x d), (N.eqb_spec x d); cbv iota; lia.
Qed.

Lemma occs_rank_le_len D d j : loccs_smaller D d + lrank D d j <= len D.
Proof.
  unfold loccs_smaller, lrank. pose proof (count_lt_eq_le_len d D) as H.
  rewrite <- (firstnN_skipnN D j) in H at 2. rewrite countN_app in H. lia.
Qed.

Lemma rank_walk_snoc Ls : forall ds D d p i, length Ls = length ds ->
  rank_walk (Ls ++ [D]) (ds ++ [d]) p i =
  (loccs_smaller D d + lrank D d (fst (rank_walk Ls ds p i)),
   loccs_smaller D d + lrank D d (snd (rank_walk Ls ds p i))).
Proof.
  induction Ls as [|D0 Ls IH]; intros [|d0 ds] D d p i HL; try discriminate HL.
  - reflexivity.
  - cbn [app rank_walk]. apply IH. now injection HL.
Qed.

Lemma get_walk_stop levels j :
  match levels with [] => True | D :: _ => len D <= j end ->
  get_walk levels j = [] /\ get_walk_pos levels j = [].
Proof.
  destruct levels as [|D levels]; [split; reflexivity|]. intros H.
  cbn [get_walk get_walk_pos]. rewrite (nthN_none D j H). split; reflexivity.
Qed.

Lemma select_pred_ext_in {A} (f g : A -> bool) s : (forall x, In x s -> f x = g x) ->
  forall k pos, select_pred A f s k pos = select_pred A g s k pos.
Proof.
  induction s as [|x s IH]; intros H k pos; cbn [select_pred]; [reflexivity|].
  rewrite (H x (or_introl eq_refl)), !(IH (fun y Hy => H y (or_intror Hy))). reflexivity.
Qed.

From Coq Require Import Sorted.

Lemma SS_app {B} (R : B -> B -> Prop) l1 l2 : StronglySorted R l1 -> StronglySorted R l2 ->
  (forall x y, In x l1 -> In y l2 -> R x y) -> StronglySorted R (l1 ++ l2).
Proof.
  induction l1 as [|z l1 IH]; intros H1 H2 H; cbn [app]; [exact H2|].
  inversion H1 as [|? ? H3 H4]; subst. constructor.
  - apply IH; [exact H3|exact H2|]. intros x y Hx Hy. apply H; [now right|exact Hy].
  - apply Forall_app. split; [exact H4|]. apply Forall_forall. intros y Hy. apply H; [now left|exact Hy].
Qed.
Lemma SS_filter {B} (R : B -> B -> Prop) f l : StronglySorted R l -> StronglySorted R (filter f l).
Proof.
  induction 1 as [|z l H1 IH H2]; cbn [filter]; [constructor|].
  destruct (f z); [|exact IH]. constructor; [exact IH|].
  rewrite Forall_forall in *. intros y Hy. apply filter_In in Hy as [Hy _]. exact (H2 y Hy).
Qed.
Lemma SS_impl_in {B} (R R' : B -> B -> Prop) l :
  (forall x y, In x l -> In y l -> R x y -> R' x y) -> StronglySorted R l -> StronglySorted R' l.
Proof.
  induction l as [|z l IH]; intros H HS; [constructor|].
  inversion HS as [|? ? H1 H2]; subst. constructor.
  - apply IH; [|exact H1]. intros x y Hx Hy. apply H; now right.
  - rewrite Forall_forall in *. intros y Hy. apply H; [now left|now right|exact (H2 y Hy)].
Qed.
Lemma SS_total {B} (R : B -> B -> Prop) l : (forall x y, R x y) -> StronglySorted R l.
Proof.
  intros H. induction l as [|z l IH]; constructor; [exact IH|]. apply Forall_forall. intros y _. apply H.
Qed.

Section HWM.
Variable A : Type.
Variable a : nat.                       (* arity *)
Variable dig : nat -> A -> N.           (* digit l of the code of x (junk for l >= clen x) *)
Hypothesis dig_lt : forall l x, dig l x < N.of_nat a.
Variable clen : A -> nat.               (* code length *)

Local Notation parts := (WaveletMatrix.parts A dig).
Local Notation pre := (WaveletMatrix.pre A dig).
Local Notation prer := (WaveletMatrix.prer A dig).
Local Notation digits_of := (WaveletMatrix.digits_of A dig).
Local Notation select_pred := (WaveletMatrix.select_pred A).

(* level l holds the symbols with clen > l, partitioned by digits 0..l-1 *)
Fixpoint Q (l : nat) (s : list A) : list A :=
  match l with
  | O => s
  | S l' => parts l' a (filter (fun x => (S l' <? clen x)%nat) (Q l' s))
  end.
Fixpoint hwm_levels (l0 n : nat) (s : list A) : list (list N) :=
  match n with O => [] | S n' => map (dig l0) (Q l0 s) :: hwm_levels (S l0) n' s end.

(* first digit least significant *)
Fixpoint rev_val (n : nat) (x : A) : N :=
  match n with O => 0 | S n' => rev_val n' x + dig n' x * N.of_nat a ^ N.of_nat n' end.

(* (ii) for the pair f (finishing at level clen f - 1) / g (continuing there) *)
Definition ok_pair (f g : A) : bool :=
  implb (clen f <? clen g)%nat (rev_val (clen f) g <? rev_val (clen f) f).
Definition ok_cont (s : list A) (c : A) : bool := forallb (fun f => ok_pair f c) s.
Definition ok_fin (s : list A) (x : A) : bool := forallb (fun g => ok_pair x g) s.
Definition wm_ok (s : list A) : bool := forallb (fun f => forallb (fun g => ok_pair f g) s) s.
(* (i) *)
Definition prefix_free (s : list A) : bool :=
  forallb (fun x => forallb (fun y => implb (pre (clen x) x y) (clen y =? clen x)%nat) s) s.
Definition same_code (c x : A) : bool := pre (clen c) c x && (clen x =? clen c)%nat.

(* ---------- arithmetic of rev_val ---------- *)

Definition Pw (l : nat) : N := N.of_nat a ^ N.of_nat l.
Lemma rev_val_S n x : rev_val (S n) x = rev_val n x + dig n x * Pw n.
Proof. reflexivity. Qed.
Lemma Pw_S n : Pw (S n) = N.of_nat a * Pw n.
Proof. unfold Pw. rewrite Nnat.Nat2N.inj_succ, N.pow_succ_r'. reflexivity. Qed.
Lemma rev_val_lt n x : rev_val n x < Pw n.
Proof.
  induction n as [|n IH].
  - unfold Pw. change (N.of_nat 0) with 0. rewrite N.pow_0_r. cbn [rev_val]. lia.
  - rewrite rev_val_S, Pw_S. pose proof (dig_lt n x) as Hd.
    assert (H : (dig n x + 1) * Pw n <= N.of_nat a * Pw n) by (apply N.mul_le_mono_r; lia). lia.
Qed.

Lemma pre_rev_val l c x : pre l c x = true -> rev_val l x = rev_val l c.
Proof.
  induction l as [|l IH]; cbn [WaveletMatrix.pre]; intros H; [reflexivity|].
  apply andb_prop in H as [H1 H2]. rewrite !rev_val_S, (IH H1).
  apply N.eqb_eq in H2. now rewrite H2.
Qed.

Lemma pre_le l : forall m c x, (m <= l)%nat -> pre l c x = true -> pre m c x = true.
Proof.
  induction l as [|l IH]; intros m c x Hm H.
  - replace m with 0%nat by lia. reflexivity.
  - destruct (Nat.eq_dec m (S l)) as [->|Hne]; [exact H|].
    cbn [WaveletMatrix.pre] in H. apply andb_prop in H as [H1 _]. apply IH; [lia|exact H1].
Qed.

Lemma ok_pair_spec f g : ok_pair f g = true -> (clen f < clen g)%nat ->
  rev_val (clen f) g < rev_val (clen f) f.
Proof.
  unfold ok_pair. intros H Hlt. destruct (Nat.ltb_spec (clen f) (clen g)) as [_|Hge]; [|lia].
  cbn [implb] in H. lia.
Qed.

Lemma wm_ok_spec s f g : wm_ok s = true -> In f s -> In g s -> ok_pair f g = true.
Proof.
  unfold wm_ok. intros H Hf Hg. rewrite forallb_forall in H. specialize (H f Hf).
  rewrite forallb_forall in H. exact (H g Hg).
Qed.
Lemma wm_ok_cont s c : wm_ok s = true -> In c s -> ok_cont s c = true.
Proof. intros H Hc. apply forallb_forall. intros f Hf. exact (wm_ok_spec s f c H Hf Hc). Qed.
Lemma wm_ok_fin s x : wm_ok s = true -> In x s -> ok_fin s x = true.
Proof. intros H Hx. apply forallb_forall. intros g Hg. exact (wm_ok_spec s x g H Hx Hg). Qed.

(* (ii) implies (i) *)
Lemma pre_same_len s c x : ok_cont s c = true -> ok_fin s c = true -> In x s ->
  pre (clen c) c x = true -> clen x = clen c.
Proof.
  intros Hc Hf Hx Hp. unfold ok_cont in Hc. unfold ok_fin in Hf. rewrite forallb_forall in Hc, Hf.
  destruct (lt_eq_lt_dec (clen x) (clen c)) as [[Hlt|Heq]|Hgt]; [exfalso|exact Heq|exfalso].
  - pose proof (ok_pair_spec x c (Hc x Hx) Hlt) as H.
    rewrite (pre_rev_val (clen x) c x) in H; [lia|]. apply (pre_le (clen c)); [lia|exact Hp].
  - pose proof (ok_pair_spec c x (Hf x Hx) Hgt) as H.
    rewrite (pre_rev_val (clen c) c x Hp) in H. lia.
Qed.

Theorem wm_ok_prefix_free s : wm_ok s = true -> prefix_free s = true.
Proof.
  intros H. unfold prefix_free. apply forallb_forall. intros x Hx. apply forallb_forall. intros y Hy.
  destruct (pre (clen x) x y) eqn:Ep; [|reflexivity]. cbn [implb].
  apply Nat.eqb_eq. exact (pre_same_len s x y (wm_ok_cont s x H Hx) (wm_ok_fin s x H Hx) Hy Ep).
Qed.

Lemma same_code_pre s c x : ok_cont s c = true -> ok_fin s c = true -> In x s ->
  same_code c x = pre (clen c) c x.
Proof.
  intros Hc Hf Hx. unfold same_code. destruct (pre (clen c) c x) eqn:Ep; [|reflexivity].
  rewrite (pre_same_len s c x Hc Hf Hx Ep), Nat.eqb_refl. reflexivity.
Qed.

(* ---------- structure of the levels ---------- *)

Lemma In_parts l k W x : In x (parts l k W) -> In x W /\ dig l x < N.of_nat k.
Proof.
  induction k as [|k IH]; cbn [WaveletMatrix.parts]; [contradiction|]. intros H.
  apply in_app_or in H as [H|H].
  - apply IH in H. split; [tauto|lia].
  - apply filter_In in H as [H1 H2]. split; [exact H1|lia].
Qed.

Lemma parts_split' l d k W : (d < k)%nat ->
  exists post, parts l k W = parts l d W ++ filter (fun x => dig l x =? N.of_nat d) W ++ post /\
               forall x, In x post -> In x W /\ N.of_nat d < dig l x.
Proof.
  intros H. induction k as [|k IH]; [lia|]. destruct (Nat.eq_dec d k) as [->|Hne].
  - exists []. cbn [WaveletMatrix.parts]. split; [now rewrite app_nil_r|contradiction].
  - destruct IH as (post & E & HP); [lia|].
    exists (post ++ filter (fun x => dig l x =? N.of_nat k) W). split.
    + cbn [WaveletMatrix.parts]. rewrite E. now rewrite <- !app_assoc.
    + intros x Hx. apply in_app_or in Hx as [Hx|Hx]; [exact (HP x Hx)|].
      apply filter_In in Hx as [H1 H2]. split; [exact H1|lia].
Qed.

Lemma Q_In l : forall s x, In x (Q l s) -> In x s /\ (l = 0 \/ l < clen x)%nat.
Proof.
  induction l as [|l IH]; intros s x H; cbn [Q] in H; [split; [exact H|now left]|].
  apply In_parts in H as [H _]. apply filter_In in H as [H1 H2].
  split; [exact (proj1 (IH s x H1))|right; lia].
Qed.

Lemma Q_S_len l s : len (Q (S l) s) = len (filter (fun x => (S l <? clen x)%nat) (Q l s)).
Proof. cbn [Q]. rewrite parts_len. apply (count_lt_arity A a dig dig_lt). Qed.

Lemma Q_len_le l : forall s, len (Q l s) <= len s.
Proof.
  induction l as [|l IH]; intros s; [cbn [Q]; lia|].
  rewrite Q_S_len. pose proof (len_filter_le (fun x => (S l <? clen x)%nat) (Q l s)) as H.
  specialize (IH s). lia.
Qed.

Lemma hwm_levels_length n : forall l0 s, length (hwm_levels l0 n s) = n.
Proof. induction n as [|n IH]; intros l0 s; cbn [hwm_levels length]; [reflexivity|]. now rewrite IH. Qed.
Lemma digits_of_length l0 n c : length (digits_of l0 n c) = n.
Proof. unfold WaveletMatrix.digits_of. now rewrite map_length, seq_length. Qed.
Lemma hwm_levels_snoc n : forall l0 s,
  hwm_levels l0 (S n) s = hwm_levels l0 n s ++ [map (dig (l0 + n)) (Q (l0 + n) s)].
Proof.
  induction n as [|n IH]; intros l0 s.
  - cbn [hwm_levels app]. now rewrite Nat.add_0_r.
  - change (hwm_levels l0 (S (S n)) s) with (map (dig l0) (Q l0 s) :: hwm_levels (S l0) (S n) s).
    rewrite IH. cbn [hwm_levels app]. now rewrite Nat.add_succ_r.
Qed.
Lemma digits_of_snoc l0 n c : digits_of l0 (S n) c = digits_of l0 n c ++ [dig (l0 + n) c].
Proof. unfold WaveletMatrix.digits_of. now rewrite seq_S, map_app. Qed.

(* ---------- the step for a symbol c that continues ---------- *)
Section Cont.
Variable s : list A.
Variable c : A.
Hypothesis Hok : ok_cont s c = true.
Hypothesis Hpos : (0 < clen c)%nat.

Lemma ok_cont_spec f : In f s -> (clen f < clen c)%nat -> rev_val (clen f) c < rev_val (clen f) f.
Proof.
  intros Hf Hlt. apply ok_pair_spec; [|exact Hlt].
  unfold ok_cont in Hok. rewrite forallb_forall in Hok. exact (Hok f Hf).
Qed.

Lemma clen_pos x : In x s -> (0 < clen x)%nat.
Proof.
  intros Hx. destruct (clen x) as [|m] eqn:E; [exfalso|lia].
  assert (Hlt : (clen x < clen c)%nat) by lia.
  pose proof (ok_cont_spec x Hx Hlt) as H. rewrite E in H. cbn [rev_val] in H. lia.
Qed.

Lemma Q_clen l x : In x (Q l s) -> In x s /\ (l < clen x)%nat.
Proof.
  intros H. apply Q_In in H as [H1 H2]. split; [exact H1|].
  pose proof (clen_pos x H1). lia.
Qed.

(* an element of level l that finishes there is above c in the (digit l, rev_val l) order *)
Lemma fin_above l x : In x (Q l s) -> (S l < clen c)%nat -> (S l <? clen x)%nat = false ->
  rev_val l c + dig l c * Pw l < rev_val l x + dig l x * Pw l.
Proof.
  intros Hx Hc Hf. apply Q_clen in Hx as [Hx Hl].
  assert (E : clen x = S l) by lia.
  assert (Hlt : (clen x < clen c)%nat) by lia.
  pose proof (ok_cont_spec x Hx Hlt) as H. rewrite E, !rev_val_S in H. exact H.
Qed.

Lemma hblock_step l X Y Z : Q l s = X ++ Y ++ Z -> (S l < clen c)%nat ->
  Forall (fun x => rev_val l x <= rev_val l c) (X ++ Y) ->
  exists X' Z', Q (S l) s = X' ++ filter (fun x => dig l x =? dig l c) Y ++ Z' /\
    len X' = loccs_smaller (map (dig l) (Q l s)) (dig l c) +
             lrank (map (dig l) (Q l s)) (dig l c) (len X) /\
    Forall (fun x => rev_val (S l) x <= rev_val (S l) c)
           (X' ++ filter (fun x => dig l x =? dig l c) Y) /\
    (Forall (fun z => rev_val l c <= rev_val l z) Z ->
     Forall (fun z => rev_val (S l) c <= rev_val (S l) z) Z').
Proof.
  intros E Hc HXY. rewrite Forall_forall in HXY.
  set (d := dig l c). set (cf := fun x : A => (S l <? clen x)%nat).
  set (eqd := fun x : A => dig l x =? d).
  set (W := filter cf (Q l s)).
  assert (EW : W = filter cf X ++ filter cf Y ++ filter cf Z).
  { unfold W. rewrite E. now rewrite !filter_app. }
  assert (Hd : d < N.of_nat a) by apply dig_lt.
  destruct (parts_split' l (N.to_nat d) a W) as (post & EP & HP); [lia|].
  rewrite Nnat.N2Nat.id in EP, HP.
  assert (InQ : forall x, In x (X ++ Y) -> In x (Q l s)).
  { intros x Hx. rewrite E, app_assoc. apply in_or_app. now left. }
  assert (K : forall x, In x (X ++ Y) -> eqd x = true -> cf x = true).
  { intros x Hx He. destruct (cf x) eqn:Ec; [reflexivity|exfalso].
    pose proof (fin_above l x (InQ x Hx) Hc Ec) as H. pose proof (HXY x Hx) as H'.
    unfold eqd in He. apply N.eqb_eq in He. rewrite He in H. fold d in H. lia. }
  assert (FK : forall U, (forall x, In x U -> In x (X ++ Y)) -> filter eqd (filter cf U) = filter eqd U).
  { intros U HU. rewrite filter_filter. apply filter_ext_in. intros x Hx.
    destruct (eqd x) eqn:He; [|apply andb_false_r]. now rewrite (K x (HU x Hx) He). }
  assert (EF : filter eqd W = filter eqd X ++ filter eqd Y ++ filter eqd (filter cf Z)).
  { rewrite EW, !filter_app, (FK X), (FK Y); [reflexivity| |];
      intros x Hx; apply in_or_app; [now right|now left]. }
  exists (parts l (N.to_nat d) W ++ filter eqd X), (filter eqd (filter cf Z) ++ post).
  split; [|split; [|split]].
  - change (Q (S l) s) with (parts l a W). rewrite EP. fold eqd. rewrite EF.
    now rewrite <- !app_assoc.
  - rewrite len_app, parts_len, Nnat.N2Nat.id. unfold loccs_smaller. f_equal.
    + unfold W. apply count_lt_filter. intros x Hx Hlt.
      destruct (cf x) eqn:Ec; [reflexivity|exfalso].
      pose proof (fin_above l x Hx Hc Ec) as H. fold d in H.
      pose proof (lex_lt (Pw l) (rev_val l x) (dig l x) (rev_val l c) d (rev_val_lt l x) Hlt). lia.
    + rewrite E, lrank_exact. reflexivity.
  - apply Forall_forall. intros x Hx. rewrite !rev_val_S. fold d.
    apply in_app_or in Hx as [Hx|Hx]; [apply in_app_or in Hx as [Hx|Hx]|].
    + apply In_parts in Hx as [_ Hx]. rewrite Nnat.N2Nat.id in Hx.
      pose proof (lex_lt (Pw l) (rev_val l x) (dig l x) (rev_val l c) d (rev_val_lt l x) Hx). lia.
    + apply filter_In in Hx as [Hx He]. unfold eqd in He. apply N.eqb_eq in He. rewrite He.
      assert (H : rev_val l x <= rev_val l c) by (apply HXY, in_or_app; now left). lia.
    + apply filter_In in Hx as [Hx He]. unfold eqd in He. apply N.eqb_eq in He. rewrite He.
      assert (H : rev_val l x <= rev_val l c) by (apply HXY, in_or_app; now right). lia.
  - intros HZ. rewrite Forall_forall in HZ. apply Forall_forall. intros x Hx.
    rewrite !rev_val_S. fold d. apply in_app_or in Hx as [Hx|Hx].
    + apply filter_In in Hx as [Hx He]. unfold eqd in He. apply N.eqb_eq in He. rewrite He.
      apply filter_In in Hx as [Hx _]. pose proof (HZ x Hx). lia.
    + apply HP in Hx as [_ Hx].
      pose proof (lex_lt (Pw l) (rev_val l c) d (rev_val l x) (dig l x) (rev_val_lt l c) Hx). lia.
Qed.

(* n continuing levels in a row *)
Lemma hrank_inv n : forall l0 X Y Z, (l0 + n < clen c)%nat -> Q l0 s = X ++ Y ++ Z ->
  Forall (fun x => rev_val l0 x <= rev_val l0 c) (X ++ Y) ->
  exists X' Z', Q (l0 + n) s = X' ++ filter (prer l0 n c) Y ++ Z' /\
    Forall (fun x => rev_val (l0 + n) x <= rev_val (l0 + n) c) (X' ++ filter (prer l0 n c) Y) /\
    rank_walk (hwm_levels l0 n s) (digits_of l0 n c) (len X) (len X + len Y) =
    (len X', len X' + len (filter (prer l0 n c) Y)).
Proof.
  induction n as [|n IH]; intros l0 X Y Z Hn E HF.
  - exists X, Z. rewrite Nat.add_0_r. cbn [WaveletMatrix.prer hwm_levels rank_walk].
    rewrite filter_true_id. repeat split; assumption.
  - destruct (hblock_step l0 X Y Z E ltac:(lia) HF) as (X1 & Z1 & E1 & HX1 & HF1 & _).
    destruct (IH (S l0) X1 _ Z1 ltac:(lia) E1 HF1) as (X' & Z' & E' & HF' & HR).
    exists X', Z'.
    assert (EY : filter (prer (S l0) n c) (filter (fun x => dig l0 x =? dig l0 c) Y) =
                 filter (prer l0 (S n) c) Y).
    { rewrite filter_filter. apply filter_ext. intros x. reflexivity. }
    rewrite EY in E', HF', HR. rewrite Nat.add_succ_r. split; [exact E'|split; [exact HF'|]].
    rewrite digits_of_S. cbn [hwm_levels rank_walk].
    assert (HI : loccs_smaller (map (dig l0) (Q l0 s)) (dig l0 c) +
                 lrank (map (dig l0) (Q l0 s)) (dig l0 c) (len X + len Y) =
                 len X1 + len (filter (fun x => dig l0 x =? dig l0 c) Y)).
    { rewrite HX1, E, lrank_block. lia. }
    rewrite HI, <- HX1. exact HR.
Qed.

Lemma Forall_rev_val_0 (W : list A) : Forall (fun x => rev_val 0 x <= rev_val 0 c) W.
Proof. apply Forall_forall. intros x _. cbn [rev_val]. lia. Qed.

(* rank: clen c levels; the last one is the level at which c finishes *)
Theorem hwm_rank_pre : forall i, i <= len s ->
  let r := rank_walk (hwm_levels 0 (clen c) s) (digits_of 0 (clen c) c) 0 i in
  fst r <= snd r /\ snd r <= len s /\
  snd r - fst r = len (filter (pre (clen c) c) (firstnN i s)).
Proof.
  intros i Hi. cbv zeta.
  assert (Em : exists m, clen c = S m) by (exists (pred (clen c)); lia).
  destruct Em as [m Em]. rewrite Em.
  assert (E : Q 0 s = [] ++ firstnN i s ++ skipnN i s).
  { cbn [Q app]. now rewrite firstnN_skipnN. }
  destruct (hrank_inv m 0%nat _ _ _ ltac:(lia) E (Forall_rev_val_0 _)) as (X' & Z' & E' & _ & HR).
  assert (Hl : len (firstnN i s) = i) by (rewrite firstnN_len; lia).
  rewrite len_nil, Hl, N.add_0_l in HR. cbn [Nat.add] in E'.
  rewrite hwm_levels_snoc, digits_of_snoc, rank_walk_snoc
    by now rewrite hwm_levels_length, digits_of_length.
  rewrite HR. cbn [fst snd Nat.add].
  pose proof (occs_rank_le_len (map (dig m) (Q m s)) (dig m c)
               (len X' + len (filter (prer 0 m c) (firstnN i s)))) as HB.
  rewrite len_map in HB. pose proof (Q_len_le m s) as HQ.
  assert (HD : lrank (map (dig m) (Q m s)) (dig m c) (len X' + len (filter (prer 0 m c) (firstnN i s))) =
               lrank (map (dig m) (Q m s)) (dig m c) (len X') +
               len (filter (pre (S m) c) (firstnN i s))).
  { rewrite E', lrank_block. f_equal. rewrite filter_filter. f_equal. apply filter_ext.
    intros x. cbn [WaveletMatrix.pre]. now rewrite (pre_prer0 A dig m c x). }
  rewrite HD in *. repeat split; lia.
Qed.

(* intermediate positions: after n < clen c levels both ends are inside level n *)
Theorem hwm_rank_prefix : forall n i, (n < clen c)%nat -> i <= len s ->
  let r := rank_walk (hwm_levels 0 n s) (digits_of 0 n c) 0 i in
  fst r <= snd r /\ snd r <= len (Q n s) /\
  snd r - fst r = len (filter (pre n c) (firstnN i s)).
Proof.
  intros n i Hn Hi.
  assert (E : Q 0 s = [] ++ firstnN i s ++ skipnN i s).
  { cbn [Q app]. now rewrite firstnN_skipnN. }
  destruct (hrank_inv n 0%nat _ _ _ ltac:(lia) E (Forall_rev_val_0 _)) as (X' & Z' & E' & _ & HR).
  assert (Hl : len (firstnN i s) = i) by (rewrite firstnN_len; lia).
  rewrite len_nil, Hl, N.add_0_l in HR. cbn [Nat.add] in E'. cbv zeta. rewrite HR. cbn [fst snd].
  rewrite E'. lens.
  rewrite (filter_ext (pre n c) (prer 0 n c) (pre_prer0 A dig n c)).
  repeat split; lia.
Qed.

(* ---------- select ---------- *)

Definition hpath (l0 n : nat) (b : N) : list (list N * N * (N * N)) :=
  combine (combine (hwm_levels l0 n s) (digits_of l0 n c))
          (select_down (hwm_levels l0 n s) (digits_of l0 n c) b).

Lemma select_up_rev_hpath_S l0 n b k :
  select_up (rev (hpath l0 (S n) b)) k =
  match select_up (rev (hpath (S l0) n (lrank (map (dig l0) (Q l0 s)) (dig l0 c) b +
                     loccs_smaller (map (dig l0) (Q l0 s)) (dig l0 c)))) k with
  | Some j => up_step (map (dig l0) (Q l0 s)) (dig l0 c) b
                      (lrank (map (dig l0) (Q l0 s)) (dig l0 c) b) j
  | None => None
  end.
Proof.
  change (hpath l0 (S n) b) with
    ((map (dig l0) (Q l0 s), dig l0 c, (b, lrank (map (dig l0) (Q l0 s)) (dig l0 c) b)) ::
     hpath (S l0) n (lrank (map (dig l0) (Q l0 s)) (dig l0 c) b +
                     loccs_smaller (map (dig l0) (Q l0 s)) (dig l0 c))).
  cbn [rev]. rewrite select_up_app.
  destruct (select_up _ k) as [j|]; [|reflexivity].
  cbn [select_up]. unfold up_step.
  destruct (select_spec _ _ _) as [p|]; [|reflexivity].
  destruct (p <? b); reflexivity.
Qed.

Lemma hselect_walk n : forall l0 X Y Z k, (l0 + n <= clen c)%nat -> Q l0 s = X ++ Y ++ Z ->
  Forall (fun x => rev_val l0 x <= rev_val l0 c) (X ++ Y) ->
  match select_pred (prer l0 n c) Y k 0 with
  | Some j => select_up (rev (hpath l0 n (len X))) k = Some j
  | None => select_up (rev (hpath l0 n (len X))) k = None \/
            exists j, select_up (rev (hpath l0 n (len X))) k = Some j /\ len Y <= j
  end.
Proof.
  induction n as [|n IH]; intros l0 X Y Z k Hn E HF.
  - cbn [WaveletMatrix.prer]. rewrite select_pred_true.
    change (hpath l0 0 (len X)) with (@nil (list N * N * (N * N))). cbn [rev select_up].
    destruct (N.ltb_spec k (len Y)); [f_equal; lia|]. right. exists k. split; [reflexivity|assumption].
  - rewrite select_up_rev_hpath_S.
    set (b' := lrank (map (dig l0) (Q l0 s)) (dig l0 c) (len X) +
               loccs_smaller (map (dig l0) (Q l0 s)) (dig l0 c)).
    assert (HIH : match select_pred (prer (S l0) n c) (filter (fun x => dig l0 x =? dig l0 c) Y) k 0 with
                  | Some j => select_up (rev (hpath (S l0) n b')) k = Some j
                  | None => select_up (rev (hpath (S l0) n b')) k = None \/
                            exists j, select_up (rev (hpath (S l0) n b')) k = Some j /\
                                      len (filter (fun x => dig l0 x =? dig l0 c) Y) <= j
                  end).
    { destruct n as [|n].
      - cbn [WaveletMatrix.prer]. rewrite select_pred_true.
        change (hpath (S l0) 0 b') with (@nil (list N * N * (N * N))). cbn [rev select_up].
        destruct (N.ltb_spec k (len (filter (fun x => dig l0 x =? dig l0 c) Y))); [f_equal; lia|].
        right. exists k. split; [reflexivity|assumption].
      - destruct (hblock_step l0 X Y Z E ltac:(lia) HF) as (X1 & Z1 & E1 & HX1 & HF1 & _).
        unfold b'. rewrite (N.add_comm (lrank _ _ _)), <- HX1.
        exact (IH (S l0) X1 _ Z1 k ltac:(lia) E1 HF1). }
    assert (EP : select_pred (prer l0 (S n) c) Y k 0 =
                 select_pred (fun x => (dig l0 x =? dig l0 c) && prer (S l0) n c x) Y k 0).
    { apply select_pred_ext. intros x. reflexivity. }
    rewrite EP, select_pred_compose. clear EP.
    rewrite E.
    destruct (select_pred (prer (S l0) n c) (filter (fun x => dig l0 x =? dig l0 c) Y) k 0)
      as [j'|] eqn:Ej'.
    + rewrite HIH. apply select_pred_bound in Ej'.
      rewrite up_step_in by lia.
      destruct (select_pred (fun x => dig l0 x =? dig l0 c) Y j' 0); [reflexivity|now left].
    + destruct HIH as [HIH|(j' & HIH & Hj')]; rewrite HIH; [now left|].
      apply up_step_out. exact Hj'.
Qed.

Theorem hwm_select_pre : forall k,
  wm_select (hwm_levels 0 (clen c) s) (digits_of 0 (clen c) c) k =
  select_pred (pre (clen c) c) s k 0.
Proof.
  intros k.
  assert (E : Q 0 s = [] ++ s ++ []) by (cbn [Q app]; now rewrite app_nil_r).
  pose proof (hselect_walk (clen c) 0%nat [] s [] k ltac:(lia) E (Forall_rev_val_0 _)) as H.
  rewrite (select_pred_ext A (pre (clen c) c) (prer 0 (clen c) c) s (pre_prer0 A dig (clen c) c)).
  change (wm_select (hwm_levels 0 (clen c) s) (digits_of 0 (clen c) c) k)
    with (select_up (rev (hpath 0 (clen c) (len (@nil A)))) k).
  destruct (select_pred (prer 0 (clen c) c) s k 0) as [j|]; [exact H|].
  destruct H as [H|(j & H & Hj)]; [exact H|]. exfalso.
  assert (Em : exists m, clen c = S m) by (exists (pred (clen c)); lia).
  destruct Em as [n Em]. rewrite Em in H.
  rewrite select_up_rev_hpath_S in H.
  destruct (select_up _ k) as [j'|]; [|discriminate].
  apply up_step_lt in H. rewrite len_map in H. cbn [Q] in H. rewrite len_nil in H. lia.
Qed.

Lemma hselect_down_inv n : forall l0 X Y Z, (l0 + n <= clen c)%nat -> Q l0 s = X ++ Y ++ Z ->
  Forall (fun x => rev_val l0 x <= rev_val l0 c) (X ++ Y) ->
  Forall2 (fun '(b, rb) l => b <= len (Q l s) /\ rb <= b)
    (select_down (hwm_levels l0 n s) (digits_of l0 n c) (len X)) (seq l0 n).
Proof.
  induction n as [|n IH]; intros l0 X Y Z Hn E HF; [constructor|].
  rewrite digits_of_S. cbn [hwm_levels select_down seq].
  constructor.
  - split; [|apply lrank_le]. rewrite E. lens. lia.
  - destruct n as [|n]; [constructor|].
    destruct (hblock_step l0 X Y Z E ltac:(lia) HF) as (X1 & Z1 & E1 & HX1 & HF1 & _).
    rewrite (N.add_comm (lrank _ _ _)), <- HX1. exact (IH (S l0) X1 _ Z1 ltac:(lia) E1 HF1).
Qed.

(* the l-th recorded pair (b, rb): b is a position of level l (possibly its end), rb <= b *)
Theorem hselect_down_bounds :
  Forall2 (fun '(b, rb) l => b <= len (Q l s) /\ rb <= b)
    (select_down (hwm_levels 0 (clen c) s) (digits_of 0 (clen c) c) 0) (seq 0 (clen c)).
Proof.
  assert (E : Q 0 s = [] ++ s ++ []) by (cbn [Q app]; now rewrite app_nil_r).
  exact (hselect_down_inv (clen c) 0%nat [] s [] ltac:(lia) E (Forall_rev_val_0 _)).
Qed.

End Cont.

(* ---------- get ---------- *)
Section Get.
Variable s : list A.
Variable x : A.
Hypothesis Hokc : ok_cont s x = true.
Hypothesis Hokf : ok_fin s x = true.
Hypothesis Hpos : (0 < clen x)%nat.

Lemma hget_nth l X Z : Q l s = X ++ x :: Z ->
  nthN (map (dig l) (Q l s)) (len X) = Some (dig l x) /\ len X < len (Q l s).
Proof.
  intros E. rewrite E. split.
  - rewrite nthN_map, nthN_app2, N.sub_diag by lia. reflexivity.
  - lens. lia.
Qed.

Lemma hget_step_cont l X Z : Q l s = X ++ x :: Z -> (S l < clen x)%nat ->
  Forall (fun y => rev_val l y <= rev_val l x) X ->
  Forall (fun z => rev_val l x <= rev_val l z) Z ->
  exists X' Z', Q (S l) s = X' ++ x :: Z' /\
    len X' = loccs_smaller (map (dig l) (Q l s)) (dig l x) +
             lrank (map (dig l) (Q l s)) (dig l x) (len X) /\
    Forall (fun y => rev_val (S l) y <= rev_val (S l) x) X' /\
    Forall (fun z => rev_val (S l) x <= rev_val (S l) z) Z'.
Proof.
  intros E Hc HX HZ.
  assert (HXY : Forall (fun y => rev_val l y <= rev_val l x) (X ++ [x])).
  { apply Forall_app. split; [exact HX|]. constructor; [lia|constructor]. }
  destruct (hblock_step s x Hokc Hpos l X [x] Z E Hc HXY) as (X' & Z' & E' & HL & HF & HZ').
  cbn [filter] in E', HF. rewrite N.eqb_refl in E', HF.
  exists X', Z'. split; [exact E'|split; [exact HL|split]].
  - apply Forall_app in HF. exact (proj1 HF).
  - exact (HZ' HZ).
Qed.

Lemma hget_step_fin l X Z : Q l s = X ++ x :: Z -> clen x = S l ->
  Forall (fun z => rev_val l x <= rev_val l z) Z ->
  len (Q (S l) s) <= loccs_smaller (map (dig l) (Q l s)) (dig l x) +
                     lrank (map (dig l) (Q l s)) (dig l x) (len X).
Proof.
  intros E Hc HZ. rewrite Forall_forall in HZ.
  set (d := dig l x). set (cf := fun y : A => (S l <? clen y)%nat).
  rewrite Q_S_len. fold cf.
  assert (Hg : forall g, In g (Q l s) -> cf g = true ->
               rev_val l g + dig l g * Pw l < rev_val l x + d * Pw l).
  { intros g Hg Hcf. apply Q_In in Hg as [Hg _]. unfold cf in Hcf.
    unfold ok_fin in Hokf. rewrite forallb_forall in Hokf.
    pose proof (ok_pair_spec x g (Hokf g Hg) ltac:(lia)) as H. rewrite Hc, !rev_val_S in H. exact H. }
  assert (HcX : len (filter cf X) <= count_lt d (map (dig l) X) + countN d (map (dig l) X)).
  { apply len_filter_le_le. intros g HgX Hcf.
    assert (HgQ : In g (Q l s)) by (rewrite E; apply in_or_app; now left).
    pose proof (Hg g HgQ Hcf) as H.
    destruct (N.leb_spec (dig l g) d) as [Hle|Hgt]; [exact Hle|exfalso].
    pose proof (lex_lt (Pw l) (rev_val l x) d (rev_val l g) (dig l g) (rev_val_lt l x) Hgt). lia. }
  assert (HcZ : len (filter cf Z) <= count_lt d (map (dig l) Z)).
  { apply len_filter_le_lt. intros g HgZ Hcf.
    assert (HgQ : In g (Q l s)) by (rewrite E; apply in_or_app; right; now right).
    pose proof (Hg g HgQ Hcf) as H.
    destruct (N.ltb_spec (dig l g) d) as [Hlt|Hge]; [exact Hlt|exfalso].
    pose proof (lex_le (Pw l) (rev_val l x) d (rev_val l g) (dig l g) (HZ g HgZ) Hge). lia. }
  assert (Hcx : cf x = false) by (unfold cf; apply Nat.ltb_ge; lia).
  unfold loccs_smaller, lrank. rewrite E.
  rewrite map_app, <- (len_map (dig l) X), firstnN_app_exact, count_lt_app.
  rewrite filter_app, len_app. cbn [filter map count_lt]. rewrite Hcx.
  fold d. lia.
Qed.

(* [k+1] levels remain for x; M levels are stored from l0 on *)
Lemma hget_inv k : forall l0 M X Z, (l0 + S k = clen x)%nat -> (S k <= M)%nat ->
  Q l0 s = X ++ x :: Z ->
  Forall (fun y => rev_val l0 y <= rev_val l0 x) X ->
  Forall (fun z => rev_val l0 x <= rev_val l0 z) Z ->
  get_walk (hwm_levels l0 M s) (len X) = digits_of l0 (S k) x /\
  Forall2 (fun j l => j < len (Q l s)) (get_walk_pos (hwm_levels l0 M s) (len X)) (seq l0 (S k)).
Proof.
  induction k as [|k IH]; intros l0 M X Z Hk HM E HX HZ;
    (destruct M as [|M]; [lia|]);
    destruct (hget_nth l0 X Z E) as (Hn & Hlt);
    rewrite digits_of_S; cbn [hwm_levels get_walk get_walk_pos seq]; rewrite Hn.
  - pose proof (hget_step_fin l0 X Z E ltac:(lia) HZ) as HL.
    destruct (get_walk_stop (hwm_levels (S l0) M s)
               (loccs_smaller (map (dig l0) (Q l0 s)) (dig l0 x) +
                lrank (map (dig l0) (Q l0 s)) (dig l0 x) (len X))) as (G1 & G2).
    { destruct M as [|M]; cbn [hwm_levels]; [exact I|]. rewrite len_map. exact HL. }
    rewrite G1, G2. split; [reflexivity|]. constructor; [exact Hlt|constructor].
  - destruct (hget_step_cont l0 X Z E ltac:(lia) HX HZ) as (X' & Z' & E' & HL & HX' & HZ').
    rewrite <- HL.
    destruct (IH (S l0) M X' Z' ltac:(lia) ltac:(lia) E' HX' HZ') as (G1 & G2).
    rewrite G1. split; [reflexivity|]. constructor; [exact Hlt|exact G2].
Qed.

Theorem hwm_get_at : forall M i, (clen x <= M)%nat -> nthN s i = Some x ->
  get_walk (hwm_levels 0 M s) i = digits_of 0 (clen x) x /\
  Forall2 (fun j l => j < len (Q l s)) (get_walk_pos (hwm_levels 0 M s) i) (seq 0 (clen x)).
Proof.
  intros M i HM H. destruct (nthN_split s i x H) as (X & Z & E & HX). rewrite <- HX.
  assert (Ek : exists k, clen x = S k) by (exists (pred (clen x)); lia).
  destruct Ek as [k Ek]. rewrite Ek.
  assert (F0 : forall W : list A, Forall (fun y => rev_val 0 y <= rev_val 0 x) W).
  { intros W. apply Forall_forall. intros y _. cbn [rev_val]. lia. }
  assert (F0' : forall W : list A, Forall (fun z => rev_val 0 x <= rev_val 0 z) W).
  { intros W. apply Forall_forall. intros y _. cbn [rev_val]. lia. }
  apply (hget_inv k 0%nat M X Z); [lia|lia|exact E|apply F0|apply F0'].
Qed.

End Get.

(* ---------- sortedness: level l is sorted by rev_val l (no hypothesis on the code) ---------- *)

Lemma parts_sorted l k W :
  StronglySorted (fun x y => rev_val l x <= rev_val l y) W ->
  StronglySorted (fun x y => rev_val (S l) x <= rev_val (S l) y) (parts l k W).
Proof.
  intros HW. induction k as [|k IH]; cbn [WaveletMatrix.parts]; [constructor|].
  apply SS_app; [exact IH| |].
  - apply (SS_impl_in (fun x y => rev_val l x <= rev_val l y)); [|apply SS_filter; exact HW].
    intros x y Hx Hy Hxy. apply filter_In in Hx as [_ Hx]. apply filter_In in Hy as [_ Hy].
    apply N.eqb_eq in Hx, Hy. rewrite !rev_val_S, Hx, Hy. lia.
  - intros x y Hx Hy. apply In_parts in Hx as [_ Hx]. apply filter_In in Hy as [_ Hy].
    apply N.eqb_eq in Hy. rewrite !rev_val_S.
    assert (Hlt : dig l x < dig l y) by lia.
    pose proof (lex_lt (Pw l) (rev_val l x) (dig l x) (rev_val l y) (dig l y) (rev_val_lt l x) Hlt). lia.
Qed.

Theorem Q_sorted : forall l s, StronglySorted (fun x y => rev_val l x <= rev_val l y) (Q l s).
Proof.
  induction l as [|l IH]; intros s; cbn [Q].
  - apply SS_total. intros x y. cbn [rev_val]. lia.
  - apply parts_sorted, SS_filter, IH.
Qed.

(* ---------- the theorems, for a sequence satisfying (ii) and a symbol occurring in it ---------- *)

Theorem hwm_rank_correct : forall s c i, wm_ok s = true -> In c s -> (0 < clen c)%nat ->
  i <= len s ->
  let r := rank_walk (hwm_levels 0 (clen c) s) (digits_of 0 (clen c) c) 0 i in
  fst r <= snd r /\ snd r <= len s /\
  snd r - fst r = len (filter (same_code c) (firstnN i s)).
Proof.
  intros s c i Hok Hc Hpos Hi.
  assert (EF : filter (same_code c) (firstnN i s) = filter (pre (clen c) c) (firstnN i s)).
  { apply filter_ext_in. intros x Hx.
    apply (same_code_pre s c x (wm_ok_cont s c Hok Hc) (wm_ok_fin s c Hok Hc)).
    rewrite <- (firstnN_skipnN s i). apply in_or_app. now left. }
  rewrite EF. exact (hwm_rank_pre s c (wm_ok_cont s c Hok Hc) Hpos i Hi).
Qed.

Theorem hwm_get_correct : forall M s i x, wm_ok s = true -> nthN s i = Some x ->
  (0 < clen x)%nat -> (clen x <= M)%nat ->
  get_walk (hwm_levels 0 M s) i = digits_of 0 (clen x) x /\
  Forall2 (fun j l => j < len (Q l s)) (get_walk_pos (hwm_levels 0 M s) i) (seq 0 (clen x)).
Proof.
  intros M s i x Hok H Hpos HM.
  assert (Hx : In x s).
  { rewrite nthN_nth_error in H. exact (nth_error_In _ _ H). }
  exact (hwm_get_at s x (wm_ok_cont s x Hok Hx) (wm_ok_fin s x Hok Hx) Hpos M i HM H).
Qed.

Theorem hwm_select_correct : forall s c k, wm_ok s = true -> In c s -> (0 < clen c)%nat ->
  wm_select (hwm_levels 0 (clen c) s) (digits_of 0 (clen c) c) k =
  select_pred (same_code c) s k 0.
Proof.
  intros s c k Hok Hc Hpos.
  rewrite (select_pred_ext_in (same_code c) (pre (clen c) c) s
             (fun x Hx => same_code_pre s c x (wm_ok_cont s c Hok Hc) (wm_ok_fin s c Hok Hc) Hx)).
  exact (hwm_select_pre s c (wm_ok_cont s c Hok Hc) Hpos k).
Qed.

End HWM.

(* ---------- a concrete instance ---------- *)
Definition hex_code (x : N) : list N :=
  nth (N.to_nat x) [[3]; [2]; [1; 3]; [0; 3]; [1; 2; 0]; [1; 2; 1]; [0; 2; 3]] [].
Definition hex_dig (l : nat) (x : N) : N := nth l (hex_code x) 0.
Definition hex_clen (x : N) : nat := length (hex_code x).
Lemma nth_Forall {B} (P : B -> Prop) l d n : Forall P l -> P d -> P (nth n l d).
Proof. intros H Hd. revert n. induction H; intros [|n]; cbn [nth]; auto. Qed.
Lemma hex_dig_lt : forall l x, hex_dig l x < N.of_nat 4.
Proof.
  intros l x. unfold hex_dig, hex_code. change (N.of_nat 4) with 4.
  apply nth_Forall; [|lia].
  apply (nth_Forall (fun code => Forall (fun d => d < 4) code)); [|constructor].
  repeat (constructor; try lia).
Qed.
Definition hex_s : list N := [2; 0; 4; 1; 0; 6; 5; 3; 0; 4; 2; 1].
Definition hex_levels := hwm_levels N 4 hex_dig hex_clen 0 3 hex_s.
Example hex_levels_val :
  hex_levels = [[1; 3; 1; 2; 3; 0; 1; 0; 3; 1; 1; 2]; [2; 3; 3; 2; 2; 2; 3]; [3; 0; 1; 0]].
Proof. vm_compute. reflexivity. Qed.
Example hex_ok : wm_ok N 4 hex_dig hex_clen hex_s = true /\ prefix_free N hex_dig hex_clen hex_s = true /\
  forallb (fun x => (0 <? hex_clen x)%nat) hex_s = true.
Proof. vm_compute. repeat split; reflexivity. Qed.
(* rank over hex_s[0..10) of the symbols 0 (1 digit), 2 (2 digits), 4 and 6 (3 digits) *)
Example hex_rank :
  map (fun c => rank_walk (hwm_levels N 4 hex_dig hex_clen 0 (hex_clen c) hex_s)
                          (digits_of N hex_dig 0 (hex_clen c) c) 0 10) [0; 2; 4; 6] =
    [(9, 12); (5, 6); (0, 2); (3, 4)] /\
  map (fun c => len (filter (same_code N hex_dig hex_clen c) (firstnN 10 hex_s))) [0; 2; 4; 6] = [3; 1; 2; 1].
Proof. vm_compute. split; reflexivity. Qed.
(* get at positions 0, 1, 2, 5 (symbols 2, 0, 4, 6) with the positions read in the levels *)
Example hex_get :
  map (fun i => (get_walk hex_levels i, get_walk_pos hex_levels i)) [0; 1; 2; 5] =
    [([1; 3], [0; 2]); ([3], [1]); ([1; 2; 0], [2; 3; 1]); ([0; 2; 3], [5; 0; 0])].
Proof. vm_compute. reflexivity. Qed.
Example hex_select :
  map (fun c => map (wm_select (hwm_levels N 4 hex_dig hex_clen 0 (hex_clen c) hex_s)
                               (digits_of N hex_dig 0 (hex_clen c) c)) [0; 1; 2; 3]) [0; 2; 4; 6] =
    [[Some 1; Some 4; Some 8; None]; [Some 0; Some 10; None; None];
     [Some 2; Some 9; None; None]; [Some 5; None; None; None]] /\
  map (fun c => map (fun k => select_pred N (same_code N hex_dig hex_clen c) hex_s k 0) [0; 1; 2; 3])
      [0; 2; 4; 6] =
    [[Some 1; Some 4; Some 8; None]; [Some 0; Some 10; None; None];
     [Some 2; Some 9; None; None]; [Some 5; None; None; None]].
Proof. vm_compute. split; reflexivity. Qed.
(* the general theorems instantiated on hex_s *)
Example hex_select_thm : forall c k, In c hex_s ->
  wm_select (hwm_levels N 4 hex_dig hex_clen 0 (hex_clen c) hex_s) (digits_of N hex_dig 0 (hex_clen c) c) k =
  select_pred N (same_code N hex_dig hex_clen c) hex_s k 0.
Proof.
  intros c k Hc. apply (hwm_select_correct N 4 hex_dig hex_dig_lt hex_clen hex_s c k); [apply hex_ok|exact Hc|].
  destruct hex_ok as (_ & _ & H). rewrite forallb_forall in H. specialize (H c Hc). lia.
Qed.
Example hex_get_thm : forall i x, nthN hex_s i = Some x ->
  get_walk hex_levels i = digits_of N hex_dig 0 (hex_clen x) x.
Proof.
  intros i x H.
  assert (Hx : In x hex_s) by (rewrite nthN_nth_error in H; exact (nth_error_In _ _ H)).
  destruct hex_ok as (Hok & _ & Hp). rewrite forallb_forall in Hp. specialize (Hp x Hx).
  apply (hwm_get_correct N 4 hex_dig hex_dig_lt hex_clen 3 hex_s i x Hok H); [lia|].
  assert (H3 : forallb (fun y => (hex_clen y <=? 3)%nat) hex_s = true) by (vm_compute; reflexivity).
  rewrite forallb_forall in H3. specialize (H3 x Hx). lia.
Qed.

Print Assumptions hblock_step.
Print Assumptions hwm_rank_pre.
Print Assumptions hwm_rank_prefix.
Print Assumptions hwm_select_pre.
Print Assumptions hselect_down_bounds.
Print Assumptions hwm_get_at.
Print Assumptions hwm_rank_correct.
Print Assumptions hwm_get_correct.
Print Assumptions hwm_select_correct.
Print Assumptions wm_ok_prefix_free.
Print Assumptions Q_sorted.
Print Assumptions hex_levels_val.
Print Assumptions hex_ok.
Print Assumptions hex_rank.
Print Assumptions hex_get.
Print Assumptions hex_select.
Print Assumptions hex_select_thm.
Print Assumptions hex_get_thm.
