(* The digit function and code length that a code table (Vec<PrefixCode>) induces on symbols,
   in the form the Huffman-shaped wavelet matrix theory (Theory/HuffWM.v) expects, and the
   property `craft_wm_codes` exists to establish.  Definitions only. *)
From QwtModel Require Export Huff.
From QwtModel Require Import WaveletMatrix HuffWM.

(* fragment [l] (0 = first / most significant) of the code of symbol x; frag = 2 (quad) or 1 (binary) *)
Definition code_dig (frag : N) (tab : list pcode) (l : nat) (x : N) : N :=
  match nthN tab (sym_index x) with
  | Some c => N.land (N.shiftr (pc_content c) (pc_len c - frag * (N.of_nat l + 1))) (2 ^ frag - 1)
  | None => 0
  end.
(* number of fragments of the code of x (0 = no code) *)
Definition code_clen (frag : N) (tab : list pcode) (x : N) : nat :=
  match nthN tab (sym_index x) with
  | Some c => N.to_nat (pc_len c / frag)
  | None => O
  end.
Definition arity_of (frag : N) : nat := N.to_nat (2 ^ frag).

(* the wavelet-matrix compatibility of a code table on a list of symbols *)
Definition code_wm_ok (frag : N) (tab : list pcode) (syms : list N) : bool :=
  HuffWM.wm_ok N (arity_of frag) (code_dig frag tab) (code_clen frag tab) syms.

(* well-formed table entry for a symbol that has a code *)
Definition code_wf (frag : N) (c : pcode) : bool :=
  (0 <? pc_len c) && (pc_len c <=? 32) && (pc_len c mod frag =? 0) && (pc_content c <? 2 ^ pc_len c).
