(* Generic theory of wavelet-matrix walks (rank / get / select) over the stored digit
   lists only, in the vocabulary of Base/ListX.v and Spec/Seq.v. *)
From Coq Require Import ZArith Lia ZifyBool ZifyN ZifyNat.
From QwtModel Require Import ListX Seq ListXP.
Ltac Zify.zify_post_hook ::= Z.div_mod_to_equations.
Arguments N.add : simpl never.
Arguments N.sub : simpl never.
Arguments N.mul : simpl never.
Arguments N.eqb : simpl never.
Arguments N.ltb : simpl never.
Arguments N.leb : simpl never.
Arguments N.pred : simpl never.
Arguments N.of_nat : simpl never.

(* ---------- generic list facts ---------- *)

Lemma len_map {A B} (f : A -> B) X : len (map f X) = len X.
Proof. unfold len. now rewrite map_length. Qed.

Lemma firstnN_map {A B} (f : A -> B) (X : list A) :
  forall i, firstnN i (map f X) = map f (firstnN i X).
Proof.
  induction X as [|x X IH]; intros i; cbn [map firstnN]; [reflexivity|].
  destruct (i =? 0); [reflexivity|]. cbn [map]. now rewrite IH.
Qed.

Lemma firstnN_skipnN {A} (l : list A) i : firstnN i l ++ skipnN i l = l.
Proof. rewrite firstnN_firstn, skipnN_skipn. apply firstn_skipn. Qed.

Lemma countN_map_filter {A} (f : A -> N) d X :
  countN d (map f X) = len (filter (fun x => f x =? d) X).
Proof.
  induction X as [|x X IH]; cbn [map countN filter]; [reflexivity|].
  destruct (f x =? d); cbv iota; rewrite ?len_cons, IH; lia.
Qed.

Lemma count_lt_0 D : count_lt 0 D = 0.
Proof.
  induction D as [|x D IH]; cbn [count_lt]; [reflexivity|].
  rewrite IH. destruct (N.ltb_spec x 0); cbv iota; lia.
Qed.

Lemma count_lt_succ k D :
  count_lt (N.of_nat (S k)) D = count_lt (N.of_nat k) D + countN (N.of_nat k) D.
Proof.
  induction D as [|x D IH]; cbn [count_lt countN]; [reflexivity|]. rewrite IH.
  destruct (N.ltb_spec x (N.of_nat (S k))), (N.ltb_spec x (N.of_nat k)), (N.eqb_spec x (N.of_nat k));
    cbv iota; lia.
Qed.

Lemma count_lt_le_len c D : count_lt c D <= len D.
Proof.
  induction D as [|x D IH]; cbn [count_lt]; [unfold len; cbn [length]; lia|].
  rewrite len_cons. destruct (x <? c); cbv iota; lia.
Qed.

Lemma filter_filter {A} (f g : A -> bool) l :
  filter g (filter f l) = filter (fun x => f x && g x) l.
Proof.
  induction l as [|x l IH]; cbn [filter]; [reflexivity|].
  destruct (f x) eqn:Ef; cbn [filter andb]; [destruct (g x)|]; now rewrite IH.
Qed.

Lemma len_filter_le {A} (f : A -> bool) l : len (filter f l) <= len l.
Proof.
  induction l as [|x l IH]; cbn [filter]; [lia|].
  destruct (f x); rewrite ?len_cons; lia.
Qed.

Section WM.
Set Default Proof Using "Type".
Variable A : Type.
Variable a : nat.                       (* arity: 2 or 4 *)
Variable dig : nat -> A -> N.           (* digit of a symbol at a level, as N *)
Hypothesis dig_lt : forall l x, dig l x < N.of_nat a.

(* stable a-way partition by the level-l digit *)
Fixpoint parts (l : nat) (k : nat) (s : list A) : list A :=
  match k with O => [] | S k' => parts l k' s ++ filter (fun x => dig l x =? N.of_nat k') s end.
Fixpoint lev (l : nat) (s : list A) : list A :=
  match l with O => s | S l' => parts l' a (lev l' s) end.
(* the digit lists the structure stores: levels l0, l0+1, ..., l0+n-1 *)
Fixpoint wm_levels (l0 n : nat) (s : list A) : list (list N) :=
  match n with O => [] | S n' => map (dig l0) (lev l0 s) :: wm_levels (S l0) n' s end.
Definition digits_of (l0 n : nat) (c : A) : list N := map (fun l => dig l c) (seq l0 n).
Fixpoint pre (l : nat) (c x : A) : bool :=      (* x agrees with c on digits 0..l-1 *)
  match l with O => true | S l' => pre l' c x && (dig l' x =? dig l' c) end.

(* level operations on a digit list D, in the vocabulary of ListX / Seq *)
Definition lrank (D : list N) (d i : N) : N := countN d (firstnN i D).
Definition loccs_smaller (D : list N) (d : N) : N := count_lt d D.

(* the three walks, over the stored digit lists only *)
Fixpoint rank_walk (levels : list (list N)) (digs : list N) (p i : N) : N * N :=
  match levels, digs with
  | D :: levels', d :: digs' =>
      rank_walk levels' digs' (loccs_smaller D d + lrank D d p) (loccs_smaller D d + lrank D d i)
  | _, _ => (p, i)
  end.
Fixpoint get_walk (levels : list (list N)) (i : N) : list N :=
  match levels with
  | D :: levels' => match nthN D i with
                    | Some d => d :: get_walk levels' (loccs_smaller D d + lrank D d i)
                    | None => []
                    end
  | [] => []
  end.
(* the positions at which get_walk reads the successive levels *)
Fixpoint get_walk_pos (levels : list (list N)) (i : N) : list N :=
  match levels with
  | D :: levels' => match nthN D i with
                    | Some d => i :: get_walk_pos levels' (loccs_smaller D d + lrank D d i)
                    | None => []
                    end
  | [] => []
  end.
(* select: downward pass records (b_l, rank_b_l); upward pass applies per-level select *)
Fixpoint select_down (levels : list (list N)) (digs : list N) (b : N) : list (N * N) :=
  match levels, digs with
  | D :: levels', d :: digs' =>
      let rb := lrank D d b in (b, rb) :: select_down levels' digs' (rb + loccs_smaller D d)
  | _, _ => []
  end.
(* [path] = zip of levels, digits and the recorded pairs, DEEPEST level first *)
Fixpoint select_up (path : list (list N * N * (N * N))) (result : N) : option N :=
  match path with
  | [] => Some result
  | (D, d, (b, rb)) :: rest =>
      match select_spec D d (rb + result) with
      | None => None
      | Some p => if p <? b then None else select_up rest (p - b)
      end
  end.
Definition wm_select (levels : list (list N)) (digs : list N) (k : N) : option N :=
  select_up (rev (combine (combine levels digs) (select_down levels digs 0))) k.
(* position in s of the (k+1)-th element satisfying f *)
Fixpoint select_pred (f : A -> bool) (s : list A) (k pos : N) : option N :=
  match s with
  | [] => None
  | x :: s' => if f x then (if k =? 0 then Some pos else select_pred f s' (N.pred k) (pos + 1))
               else select_pred f s' k (pos + 1)
  end.

(* x agrees with c on digits l0 .. l0+n-1 (proof device) *)
Fixpoint prer (l0 n : nat) (c x : A) : bool :=
  match n with O => true | S n' => (dig l0 x =? dig l0 c) && prer (S l0) n' c x end.

(* ---------- structure of the levels ---------- *)

Lemma digits_of_S l0 n c : digits_of l0 (S n) c = dig l0 c :: digits_of (S l0) n c.
Proof. reflexivity. Qed.

Lemma pre_prer n : forall l0 c x, pre (l0 + n) c x = pre l0 c x && prer l0 n c x.
Proof.
  induction n as [|n IH]; intros l0 c x.
  - rewrite Nat.add_0_r. cbn [prer]. now rewrite andb_true_r.
  - rewrite Nat.add_succ_r. change (S (l0 + n))%nat with (S l0 + n)%nat.
    rewrite IH. cbn [pre prer]. now rewrite andb_assoc.
Qed.

Lemma pre_prer0 L c x : pre L c x = prer 0 L c x.
Proof. exact (pre_prer L 0%nat c x). Qed.

Lemma pre_refl l x : pre l x x = true.
Proof. induction l as [|l IH]; cbn [pre]; [reflexivity|]. rewrite IH, N.eqb_refl. reflexivity. Qed.

Lemma parts_len l k s : len (parts l k s) = count_lt (N.of_nat k) (map (dig l) s).
Proof.
  induction k as [|k IH]; cbn [parts].
  - change (N.of_nat 0) with 0. now rewrite count_lt_0.
  - rewrite len_app, IH, count_lt_succ, countN_map_filter. reflexivity.
Qed.

Lemma count_lt_arity l s : count_lt (N.of_nat a) (map (dig l) s) = len s.
Proof using dig_lt.
  induction s as [|x s IH]; cbn [map count_lt]; [reflexivity|].
  rewrite IH, len_cons. pose proof (dig_lt l x) as H.
  destruct (N.ltb_spec (dig l x) (N.of_nat a)); cbv iota; lia.
Qed.

Theorem lev_length : forall l s, len (lev l s) = len s.
Proof using dig_lt.
  induction l as [|l IH]; intros s; cbn [lev]; [reflexivity|].
  now rewrite parts_len, count_lt_arity, IH.
Qed.

Lemma parts_split l d k s : (d < k)%nat ->
  exists post, parts l k s = parts l d s ++ filter (fun x => dig l x =? N.of_nat d) s ++ post.
Proof. clear dig_lt a.
  intros H. induction k as [|k IH]; [lia|]. destruct (Nat.eq_dec d k) as [->|Hne].
  - exists []. cbn [parts]. now rewrite app_nil_r.
  - destruct IH as (post & E); [lia|].
    exists (post ++ filter (fun x => dig l x =? N.of_nat k) s).
    cbn [parts]. rewrite E. now rewrite <- !app_assoc.
Qed.

Lemma lrank_exact l X W d :
  lrank (map (dig l) (X ++ W)) d (len X) = len (filter (fun x => dig l x =? d) X).
Proof.
  unfold lrank. rewrite map_app, <- (len_map (dig l) X), firstnN_app_exact.
  apply countN_map_filter.
Qed.

Lemma lrank_block l X Y W d :
  lrank (map (dig l) (X ++ Y ++ W)) d (len X + len Y) =
  lrank (map (dig l) (X ++ Y ++ W)) d (len X) + len (filter (fun x => dig l x =? d) Y).
Proof.
  rewrite lrank_exact. rewrite app_assoc, <- len_app, lrank_exact, filter_app, len_app. reflexivity.
Qed.

Lemma lrank_le D d i : lrank D d i <= i.
Proof. clear dig_lt dig a A.
  unfold lrank. pose proof (countN_le_len d (firstnN i D)) as H.
  rewrite firstnN_len in H. lia.
Qed.

(* the key step: a block Y of level l (at offset |X|) becomes, restricted to the elements of
   digit d, a block of level l+1 at offset occs_smaller + rank d |X| *)
Lemma block_step l s X Y Z d : lev l s = X ++ Y ++ Z -> d < N.of_nat a ->
  exists X' Z', lev (S l) s = X' ++ filter (fun x => dig l x =? d) Y ++ Z' /\
    len X' = loccs_smaller (map (dig l) (lev l s)) d + lrank (map (dig l) (lev l s)) d (len X).
Proof using dig_lt.
  intros E Hd.
  destruct (parts_split l (N.to_nat d) a (lev l s)) as (post & EP); [lia|].
  rewrite Nnat.N2Nat.id in EP.
  assert (EF : filter (fun x => dig l x =? d) (lev l s) =
               filter (fun x => dig l x =? d) X ++ filter (fun x => dig l x =? d) Y ++
               filter (fun x => dig l x =? d) Z).
  { rewrite E. now rewrite !filter_app. }
  exists (parts l (N.to_nat d) (lev l s) ++ filter (fun x => dig l x =? d) X),
         (filter (fun x => dig l x =? d) Z ++ post).
  split.
  - cbn [lev]. rewrite EP, EF. now rewrite <- !app_assoc.
  - rewrite len_app, parts_len, Nnat.N2Nat.id. unfold loccs_smaller. f_equal.
    rewrite E, lrank_exact. reflexivity.
Qed.

(* ---------- rank ---------- *)

Lemma rank_walk_inv n : forall l0 s c X Y Z, lev l0 s = X ++ Y ++ Z ->
  exists X' Z', lev (l0 + n) s = X' ++ filter (prer l0 n c) Y ++ Z' /\
    rank_walk (wm_levels l0 n s) (digits_of l0 n c) (len X) (len X + len Y) =
    (len X', len X' + len (filter (prer l0 n c) Y)).
Proof using dig_lt.
  induction n as [|n IH]; intros l0 s c X Y Z E.
  - exists X, Z. rewrite Nat.add_0_r. cbn [prer wm_levels rank_walk].
    assert (EY : filter (fun _ : A => true) Y = Y).
    { clear. induction Y as [|y Y IH]; cbn [filter]; [reflexivity|]. now rewrite IH. }
    rewrite EY. split; [exact E|reflexivity].
  - destruct (block_step l0 s X Y Z (dig l0 c) E (dig_lt l0 c)) as (X1 & Z1 & E1 & HX1).
    destruct (IH (S l0) s c X1 _ Z1 E1) as (X' & Z' & E' & HR).
    exists X', Z'.
    assert (EY : filter (prer (S l0) n c) (filter (fun x => dig l0 x =? dig l0 c) Y) =
                 filter (prer l0 (S n) c) Y).
    { rewrite filter_filter. apply filter_ext. intros x. reflexivity. }
    rewrite EY in E', HR. split.
    + rewrite Nat.add_succ_r. exact E'.
    + rewrite digits_of_S. cbn [wm_levels rank_walk].
      assert (HI : loccs_smaller (map (dig l0) (lev l0 s)) (dig l0 c) +
                   lrank (map (dig l0) (lev l0 s)) (dig l0 c) (len X + len Y) =
                   len X1 + len (filter (fun x => dig l0 x =? dig l0 c) Y)).
      { rewrite HX1, E, lrank_block. lia. }
      rewrite HI, <- HX1. exact HR.
Qed.

Lemma filter_true_id {B} (l : list B) : filter (fun _ => true) l = l.
Proof. induction l as [|y l IH]; cbn [filter]; [reflexivity|]. now rewrite IH. Qed.

Theorem wm_rank_correct : forall L s c i, i <= len s ->
  let r := rank_walk (wm_levels 0 L s) (digits_of 0 L c) 0 i in
  fst r <= snd r /\ snd r <= len s /\ snd r - fst r = len (filter (pre L c) (firstnN i s)).
Proof using dig_lt.
  intros L s c i Hi r.
  assert (E : lev 0 s = [] ++ firstnN i s ++ skipnN i s).
  { cbn [lev app]. now rewrite firstnN_skipnN. }
  destruct (rank_walk_inv L 0%nat s c _ _ _ E) as (X' & Z' & E' & HR).
  assert (Hl : len (firstnN i s) = i) by (rewrite firstnN_len; lia).
  rewrite len_nil, Hl, N.add_0_l in HR. fold r in HR.
  assert (EF : filter (pre L c) (firstnN i s) = filter (prer 0 L c) (firstnN i s)).
  { apply filter_ext. intros x. apply pre_prer0. }
  rewrite EF. rewrite HR. cbn [fst snd].
  pose proof (lev_length (0 + L) s) as HL. rewrite E' in HL. lens in HL.
  repeat split; lia.
Qed.

Theorem wm_rank_prefix : forall L n s c i, (n <= L)%nat -> i <= len s ->
  let r := rank_walk (wm_levels 0 n s) (digits_of 0 n c) 0 i in
  fst r <= snd r /\ snd r <= len s /\ snd r - fst r = len (filter (pre n c) (firstnN i s)).
Proof using dig_lt. intros L n s c i _ Hi. exact (wm_rank_correct n s c i Hi). Qed.

(* ---------- get ---------- *)

Lemma get_step l0 s x X Z : lev l0 s = X ++ x :: Z ->
  nthN (map (dig l0) (lev l0 s)) (len X) = Some (dig l0 x) /\
  exists X' Z', lev (S l0) s = X' ++ x :: Z' /\
    len X' = loccs_smaller (map (dig l0) (lev l0 s)) (dig l0 x) +
             lrank (map (dig l0) (lev l0 s)) (dig l0 x) (len X).
Proof using dig_lt.
  intros E. split.
  - rewrite E, nthN_map, nthN_app2, N.sub_diag by lia. reflexivity.
  - destruct (block_step l0 s X [x] Z (dig l0 x) E (dig_lt l0 x)) as (X' & Z' & E' & HX').
    cbn [filter] in E'. rewrite N.eqb_refl in E'. exists X', Z'. split; assumption.
Qed.

Lemma get_walk_inv n : forall l0 s x X Z, lev l0 s = X ++ x :: Z ->
  get_walk (wm_levels l0 n s) (len X) = digits_of l0 n x.
Proof using dig_lt.
  induction n as [|n IH]; intros l0 s x X Z E; [reflexivity|].
  destruct (get_step l0 s x X Z E) as (Hn & X' & Z' & E' & HX').
  rewrite digits_of_S. cbn [wm_levels get_walk]. rewrite Hn. f_equal.
  rewrite <- HX'. exact (IH (S l0) s x X' Z' E').
Qed.

Lemma nthN_split {B} (l : list B) : forall i x, nthN l i = Some x ->
  exists X Z, l = X ++ x :: Z /\ len X = i.
Proof. clear dig_lt dig a A.
  intros i x H. rewrite nthN_nth_error in H. apply nth_error_split in H.
  destruct H as (X & Z & E & HL). exists X, Z. split; [exact E|]. unfold len. lia.
Qed.

Theorem wm_get_correct : forall L s i x, nthN s i = Some x ->
  get_walk (wm_levels 0 L s) i = digits_of 0 L x.
Proof using dig_lt.
  intros L s i x H. destruct (nthN_split s i x H) as (X & Z & E & HX).
  rewrite <- HX. exact (get_walk_inv L 0%nat s x X Z E).
Qed.

Lemma get_walk_pos_inv n : forall l0 s x X Z, lev l0 s = X ++ x :: Z ->
  length (get_walk_pos (wm_levels l0 n s) (len X)) = n /\
  Forall (fun j => j < len s) (get_walk_pos (wm_levels l0 n s) (len X)).
Proof using dig_lt.
  induction n as [|n IH]; intros l0 s x X Z E; [split; [reflexivity|constructor]|].
  destruct (get_step l0 s x X Z E) as (Hn & X' & Z' & E' & HX').
  cbn [wm_levels get_walk_pos]. rewrite Hn, <- HX'.
  destruct (IH (S l0) s x X' Z' E') as (H1 & H2). split.
  - cbn [length]. now rewrite H1.
  - constructor; [|exact H2].
    pose proof (lev_length l0 s) as HL. rewrite E in HL. lens in HL. lia.
Qed.

(* every position at which get_walk reads a level is inside the level (all levels have
   length len s), and the walk reads all L levels *)
Theorem get_walk_positions : forall L s i, i < len s ->
  length (get_walk_pos (wm_levels 0 L s) i) = L /\
  Forall (fun j => j < len s) (get_walk_pos (wm_levels 0 L s) i).
Proof using dig_lt.
  intros L s i Hi. destruct (nthN_lt_some s i Hi) as (x & H).
  destruct (nthN_split s i x H) as (X & Z & E & HX).
  rewrite <- HX. exact (get_walk_pos_inv L 0%nat s x X Z E).
Qed.

(* get_walk and get_walk_pos read the same levels *)
Lemma get_walk_pos_length levels : forall i,
  length (get_walk_pos levels i) = length (get_walk levels i).
Proof.
  induction levels as [|D levels IH]; intros i; cbn [get_walk get_walk_pos]; [reflexivity|].
  destruct (nthN D i); cbn [length]; [now rewrite IH|reflexivity].
Qed.

(* ---------- select ---------- *)

Lemma select_pred_ext f g s : (forall x, f x = g x) ->
  forall k pos, select_pred f s k pos = select_pred g s k pos.
Proof.
  intros H. induction s as [|x s IH]; intros k pos; cbn [select_pred]; [reflexivity|].
  rewrite H, !IH. reflexivity.
Qed.

Lemma select_pred_shift f s : forall k pos,
  select_pred f s k pos = option_map (fun j => pos + j) (select_pred f s k 0).
Proof. clear dig_lt dig a.
  induction s as [|x s IH]; intros k pos; cbn [select_pred]; [reflexivity|].
  rewrite (IH k (pos + 1)), (IH k (0 + 1)), (IH (N.pred k) (pos + 1)), (IH (N.pred k) (0 + 1)).
  destruct (f x); [destruct (k =? 0)|].
  - cbn [option_map]. f_equal. lia.
  - destruct (select_pred f s (N.pred k) 0); cbn [option_map]; [f_equal; lia|reflexivity].
  - destruct (select_pred f s k 0); cbn [option_map]; [f_equal; lia|reflexivity].
Qed.

Lemma select_pred_bound f s : forall k pos p,
  select_pred f s k pos = Some p -> pos <= p /\ p < pos + len s.
Proof. clear dig_lt dig a.
  induction s as [|x s IH]; intros k pos p; cbn [select_pred]; [discriminate|].
  rewrite len_cons. destruct (f x); [destruct (k =? 0)|]; intros H.
  - injection H as <-. lia.
  - apply IH in H. lia.
  - apply IH in H. lia.
Qed.

Lemma select_pred_app f s1 : forall s2 k pos,
  select_pred f (s1 ++ s2) k pos =
  if k <? len (filter f s1) then select_pred f s1 k pos
  else select_pred f s2 (k - len (filter f s1)) (pos + len s1).
Proof. clear dig_lt dig a.
  induction s1 as [|x s1 IH]; intros s2 k pos.
  - cbn [app filter]. rewrite len_nil, N.sub_0_r, N.add_0_r.
    destruct (N.ltb_spec k 0); [lia|reflexivity].
  - cbn [app filter select_pred]. rewrite len_cons. destruct (f x).
    + rewrite len_cons. destruct (N.eqb_spec k 0) as [->|Hk].
      * destruct (N.ltb_spec 0 (len (filter f s1) + 1)); [reflexivity|lia].
      * rewrite IH.
        destruct (N.ltb_spec (N.pred k) (len (filter f s1))), (N.ltb_spec k (len (filter f s1) + 1));
          try lia; [reflexivity|]. f_equal; lia.
    + rewrite IH. destruct (k <? len (filter f s1)); [reflexivity|]. f_equal; lia.
Qed.

Lemma select_pred_true s : forall k pos,
  select_pred (fun _ => true) s k pos = if k <? len s then Some (pos + k) else None.
Proof. clear dig_lt dig a.
  induction s as [|x s IH]; intros k pos; cbn [select_pred].
  - rewrite len_nil. destruct (N.ltb_spec k 0); [lia|reflexivity].
  - rewrite len_cons. destruct (N.eqb_spec k 0) as [->|Hk].
    + destruct (N.ltb_spec 0 (len s + 1)); [f_equal; lia|lia].
    + rewrite IH. destruct (N.ltb_spec (N.pred k) (len s)), (N.ltb_spec k (len s + 1)); try lia;
        [f_equal; lia|reflexivity].
Qed.

(* selecting through a refinement: the k-th element of Y satisfying f && g is the j'-th element
   satisfying f, where j' is the index of the k-th g-element inside filter f Y *)
Lemma select_pred_compose f g Y : forall k pos,
  select_pred (fun x => f x && g x) Y k pos =
  match select_pred g (filter f Y) k 0 with
  | Some j' => select_pred f Y j' pos
  | None => None
  end.
Proof. clear dig_lt dig a.
  induction Y as [|x Y IH]; intros k pos; cbn [filter select_pred]; [reflexivity|].
  destruct (f x) eqn:Ef; cbn [andb].
  - cbn [select_pred]. destruct (g x) eqn:Eg.
    + destruct (N.eqb_spec k 0) as [->|Hk]; [reflexivity|].
      rewrite IH, (select_pred_shift g (filter f Y) (N.pred k) (0 + 1)).
      destruct (select_pred g (filter f Y) (N.pred k) 0) as [j|]; cbn [option_map]; [|reflexivity].
      destruct (N.eqb_spec (0 + 1 + j) 0); [lia|]. f_equal. lia.
    + rewrite IH, (select_pred_shift g (filter f Y) k (0 + 1)).
      destruct (select_pred g (filter f Y) k 0) as [j|]; cbn [option_map]; [|reflexivity].
      destruct (N.eqb_spec (0 + 1 + j) 0); [lia|]. f_equal. lia.
  - apply IH.
Qed.

Lemma select_from_pred l Y d : forall k pos,
  select_from (map (dig l) Y) d k pos = select_pred (fun x => dig l x =? d) Y k pos.
Proof.
  induction Y as [|x Y IH]; intros k pos; cbn [map select_from select_pred]; [reflexivity|].
  now rewrite !IH.
Qed.

(* one upward step at a level whose block is X ++ Y ++ Z *)
Definition up_step (D : list N) (d b rb j : N) : option N :=
  match select_spec D d (rb + j) with
  | None => None
  | Some p => if p <? b then None else Some (p - b)
  end.

Lemma up_step_in l X Y Z d j :
  j < len (filter (fun x => dig l x =? d) Y) ->
  up_step (map (dig l) (X ++ Y ++ Z)) d (len X) (lrank (map (dig l) (X ++ Y ++ Z)) d (len X)) j =
  select_pred (fun x => dig l x =? d) Y j 0.
Proof. clear dig_lt a.
  intros Hj. unfold up_step, select_spec. rewrite lrank_exact, select_from_pred.
  rewrite select_pred_app.
  destruct (N.ltb_spec (len (filter (fun x => dig l x =? d) X) + j) (len (filter (fun x => dig l x =? d) X)));
    [lia|].
  rewrite select_pred_app.
  replace (len (filter (fun x => dig l x =? d) X) + j - len (filter (fun x => dig l x =? d) X)) with j by lia.
  destruct (N.ltb_spec j (len (filter (fun x => dig l x =? d) Y))); [|lia].
  rewrite select_pred_shift.
  destruct (select_pred (fun x => dig l x =? d) Y j 0) as [q|]; cbn [option_map]; [|reflexivity].
  destruct (N.ltb_spec (0 + len X + q) (len X)); [lia|]. f_equal. lia.
Qed.

Lemma up_step_out l X Y Z d j :
  len (filter (fun x => dig l x =? d) Y) <= j ->
  up_step (map (dig l) (X ++ Y ++ Z)) d (len X) (lrank (map (dig l) (X ++ Y ++ Z)) d (len X)) j = None \/
  exists q, up_step (map (dig l) (X ++ Y ++ Z)) d (len X)
              (lrank (map (dig l) (X ++ Y ++ Z)) d (len X)) j = Some q /\ len Y <= q.
Proof. clear dig_lt a.
  intros Hj. unfold up_step, select_spec. rewrite lrank_exact, select_from_pred.
  rewrite select_pred_app.
  destruct (N.ltb_spec (len (filter (fun x => dig l x =? d) X) + j) (len (filter (fun x => dig l x =? d) X)));
    [lia|].
  rewrite select_pred_app.
  destruct (N.ltb_spec (len (filter (fun x => dig l x =? d) X) + j - len (filter (fun x => dig l x =? d) X))
                       (len (filter (fun x => dig l x =? d) Y))); [lia|].
  destruct (select_pred _ Z _ _) as [p|] eqn:Ep; [|now left].
  apply select_pred_bound in Ep.
  destruct (N.ltb_spec p (len X)); [lia|]. right. exists (p - len X). split; [reflexivity|lia].
Qed.

Lemma up_step_lt D d b rb j q : up_step D d b rb j = Some q -> q + b < len D.
Proof. clear dig_lt dig a A.
  unfold up_step, select_spec.
  assert (HB : forall s c k pos p, select_from s c k pos = Some p -> p < pos + len s).
  { clear. induction s as [|x s IH]; intros c k pos p; cbn [select_from]; [discriminate|].
    rewrite len_cons. destruct (x =? c); [destruct (k =? 0)|]; intros H.
    - injection H as <-. lia.
    - apply IH in H. lia.
    - apply IH in H. lia. }
  destruct (select_from D d (rb + j) 0) as [p|] eqn:Ep; [|discriminate].
  apply HB in Ep. destruct (N.ltb_spec p b) as [Hpb|Hpb]; [discriminate|]. intros Hq. injection Hq as <-. lia.
Qed.

Lemma select_up_app p1 : forall p2 k,
  select_up (p1 ++ p2) k = match select_up p1 k with Some r => select_up p2 r | None => None end.
Proof.
  induction p1 as [|[[D d] [b rb]] p1 IH]; intros p2 k; cbn [app select_up]; [reflexivity|].
  destruct (select_spec D d (rb + k)) as [p|]; [|reflexivity].
  destruct (p <? b); [reflexivity|]. apply IH.
Qed.

Definition path (l0 n : nat) (s : list A) (c : A) (b : N) : list (list N * N * (N * N)) :=
  combine (combine (wm_levels l0 n s) (digits_of l0 n c))
          (select_down (wm_levels l0 n s) (digits_of l0 n c) b).

Lemma path_S l0 n s c b :
  path l0 (S n) s c b =
  (map (dig l0) (lev l0 s), dig l0 c, (b, lrank (map (dig l0) (lev l0 s)) (dig l0 c) b)) ::
  path (S l0) n s c (lrank (map (dig l0) (lev l0 s)) (dig l0 c) b +
                     loccs_smaller (map (dig l0) (lev l0 s)) (dig l0 c)).
Proof. reflexivity. Qed.

Lemma select_up_rev_path_S l0 n s c b k :
  select_up (rev (path l0 (S n) s c b)) k =
  match select_up (rev (path (S l0) n s c (lrank (map (dig l0) (lev l0 s)) (dig l0 c) b +
                     loccs_smaller (map (dig l0) (lev l0 s)) (dig l0 c)))) k with
  | Some j => up_step (map (dig l0) (lev l0 s)) (dig l0 c) b
                      (lrank (map (dig l0) (lev l0 s)) (dig l0 c) b) j
  | None => None
  end.
Proof.
  rewrite path_S. cbn [rev]. rewrite select_up_app.
  destruct (select_up _ k) as [j|]; [|reflexivity].
  cbn [select_up]. unfold up_step.
  destruct (select_spec _ _ _) as [p|]; [|reflexivity].
  destruct (p <? b); reflexivity.
Qed.

Lemma select_walk n : forall l0 s c X Y Z k, lev l0 s = X ++ Y ++ Z ->
  match select_pred (prer l0 n c) Y k 0 with
  | Some j => select_up (rev (path l0 n s c (len X))) k = Some j
  | None => select_up (rev (path l0 n s c (len X))) k = None \/
            exists j, select_up (rev (path l0 n s c (len X))) k = Some j /\ len Y <= j
  end.
Proof using dig_lt.
  induction n as [|n IH]; intros l0 s c X Y Z k E.
  - cbn [prer]. rewrite select_pred_true. cbn [path wm_levels combine rev select_up].
    destruct (N.ltb_spec k (len Y)); [f_equal; lia|]. right. exists k. split; [reflexivity|assumption].
  - rewrite select_up_rev_path_S.
    destruct (block_step l0 s X Y Z (dig l0 c) E (dig_lt l0 c)) as (X1 & Z1 & E1 & HX1).
    rewrite (N.add_comm (lrank _ _ _)), <- HX1.
    specialize (IH (S l0) s c X1 _ Z1 k E1).
    assert (EP : select_pred (prer l0 (S n) c) Y k 0 =
                 select_pred (fun x => (dig l0 x =? dig l0 c) && prer (S l0) n c x) Y k 0).
    { apply select_pred_ext. intros x. reflexivity. }
    rewrite EP, select_pred_compose. clear EP.
    rewrite E.
    destruct (select_pred (prer (S l0) n c) (filter (fun x => dig l0 x =? dig l0 c) Y) k 0) as [j'|] eqn:Ej'.
    + rewrite IH. apply select_pred_bound in Ej'.
      rewrite up_step_in by lia.
      destruct (select_pred (fun x => dig l0 x =? dig l0 c) Y j' 0); [reflexivity|now left].
    + destruct IH as [IH|(j' & IH & Hj')]; rewrite IH; [now left|].
      apply up_step_out. exact Hj'.
Qed.

Theorem wm_select_correct : forall L s c k, (0 < L)%nat ->
  wm_select (wm_levels 0 L s) (digits_of 0 L c) k = select_pred (pre L c) s k 0.
Proof using dig_lt.
  intros L s c k HL.
  assert (E : lev 0 s = [] ++ s ++ []) by (cbn [lev app]; now rewrite app_nil_r).
  pose proof (select_walk L 0%nat s c [] s [] k E) as H.
  rewrite (select_pred_ext (pre L c) (prer 0 L c) s (pre_prer0 L c)).
  change (wm_select (wm_levels 0 L s) (digits_of 0 L c) k)
    with (select_up (rev (path 0 L s c (len (@nil A)))) k).
  destruct (select_pred (prer 0 L c) s k 0) as [j|]; [exact H|].
  destruct H as [H|(j & H & Hj)]; [exact H|]. exfalso.
  destruct L as [|n]; [lia|].
  rewrite select_up_rev_path_S in H.
  destruct (select_up _ k) as [j'|]; [|discriminate].
  apply up_step_lt in H. rewrite len_map, lev_length in H. rewrite len_nil in H. lia.
Qed.

(* with no level at all the walk is the identity, the specification is k < len s *)
Theorem wm_select_correct_0 : forall s c k, k < len s ->
  wm_select (wm_levels 0 0 s) (digits_of 0 0 c) k = select_pred (pre 0 c) s k 0.
Proof. clear dig_lt.
  intros s c k Hk. cbn [pre]. rewrite select_pred_true.
  destruct (N.ltb_spec k (len s)); [reflexivity|lia].
Qed.

Lemma select_down_inv n : forall l0 s c X Y Z, lev l0 s = X ++ Y ++ Z ->
  Forall (fun '(b, rb) => b <= len s /\ rb <= b)
    (select_down (wm_levels l0 n s) (digits_of l0 n c) (len X)).
Proof using dig_lt.
  induction n as [|n IH]; intros l0 s c X Y Z E; [constructor|].
  rewrite digits_of_S. cbn [wm_levels select_down].
  destruct (block_step l0 s X Y Z (dig l0 c) E (dig_lt l0 c)) as (X1 & Z1 & E1 & HX1).
  constructor.
  - split; [|apply lrank_le].
    pose proof (lev_length l0 s) as HL. rewrite E in HL. lens in HL. lia.
  - rewrite (N.add_comm (lrank _ _ _)), <- HX1. exact (IH (S l0) s c X1 _ Z1 E1).
Qed.

Theorem select_down_bounds : forall L s c, Forall (fun '(b, rb) => b <= len s /\ rb <= b)
  (select_down (wm_levels 0 L s) (digits_of 0 L c) 0).
Proof using dig_lt.
  intros L s c.
  assert (E : lev 0 s = [] ++ s ++ []) by (cbn [lev app]; now rewrite app_nil_r).
  exact (select_down_inv L 0%nat s c [] s [] E).
Qed.

End WM.

(* ---------- a concrete instance: the statements are not vacuous ---------- *)
Definition ex_dig (l : nat) (x : N) : N := (x / 4 ^ N.of_nat (1 - l)) mod 4.
Lemma ex_dig_lt : forall l x, ex_dig l x < N.of_nat 4.
Proof. intros l x. unfold ex_dig. change (N.of_nat 4) with 4. apply N.mod_lt. lia. Qed.
Definition ex_s : list N := [5; 3; 9; 0; 15; 5; 6; 12; 5; 10].
Definition ex_levels := wm_levels N 4 ex_dig 0 2 ex_s.
Example ex_levels_val :
  ex_levels = [[1; 0; 2; 0; 3; 1; 1; 3; 1; 2]; [3; 0; 1; 1; 2; 1; 1; 2; 3; 0]].
Proof. vm_compute. reflexivity. Qed.
(* rank of symbol 5 in ex_s[0..9): the walk ends on the interval [2,5) of the last level *)
Example ex_rank :
  rank_walk ex_levels (digits_of N ex_dig 0 2 5) 0 9 = (2, 5) /\
  len (filter (pre N ex_dig 2 5) (firstnN 9 ex_s)) = 3.
Proof. vm_compute. split; reflexivity. Qed.
(* get of position 4 (symbol 15 = digits 3,3), reading level 0 at 4 and level 1 at 8 *)
Example ex_get :
  get_walk ex_levels 4 = [3; 3] /\ get_walk_pos ex_levels 4 = [4; 8] /\
  digits_of N ex_dig 0 2 15 = [3; 3].
Proof. vm_compute. repeat split; reflexivity. Qed.
(* select of symbol 5: occurrences at 0, 5, 8, then None *)
Example ex_select :
  map (wm_select ex_levels (digits_of N ex_dig 0 2 5)) [0; 1; 2; 3; 4] =
    [Some 0; Some 5; Some 8; None; None] /\
  map (fun k => select_pred N (pre N ex_dig 2 5) ex_s k 0) [0; 1; 2; 3; 4] =
    [Some 0; Some 5; Some 8; None; None] /\
  select_down ex_levels (digits_of N ex_dig 0 2 5) 0 = [(0, 0); (2, 0)].
Proof. vm_compute. repeat split; reflexivity. Qed.
(* the general theorems instantiated *)
Example ex_rank_thm : forall c i, i <= len ex_s ->
  let r := rank_walk ex_levels (digits_of N ex_dig 0 2 c) 0 i in
  fst r <= snd r /\ snd r <= len ex_s /\
  snd r - fst r = len (filter (pre N ex_dig 2 c) (firstnN i ex_s)).
Proof. exact (wm_rank_correct N 4 ex_dig ex_dig_lt 2 ex_s). Qed.
Example ex_select_thm : forall c k,
  wm_select ex_levels (digits_of N ex_dig 0 2 c) k = select_pred N (pre N ex_dig 2 c) ex_s k 0.
Proof. intros c k. apply (wm_select_correct N 4 ex_dig ex_dig_lt 2 ex_s c k). lia. Qed.

Print Assumptions lev_length.
Print Assumptions wm_rank_correct.
Print Assumptions wm_rank_prefix.
Print Assumptions wm_get_correct.
Print Assumptions get_walk_positions.
Print Assumptions get_walk_pos_length.
Print Assumptions wm_select_correct.
Print Assumptions wm_select_correct_0.
Print Assumptions select_down_bounds.
Print Assumptions block_step.
Print Assumptions ex_levels_val.
Print Assumptions ex_rank.
Print Assumptions ex_get.
Print Assumptions ex_select.
Print Assumptions ex_rank_thm.
Print Assumptions ex_select_thm.
