(* List helpers indexed by N (never N.to_nat of a user-controlled number, so that the
   model stays executable for arguments such as usize::MAX). Definitions only. *)
From QwtModel Require Export Outcome.

Fixpoint nthN {A} (l : list A) (i : N) : option A :=
  match l with
  | [] => None
  | x :: l' => if i =? 0 then Some x else nthN l' (N.pred i)
  end.

Fixpoint firstnN {A} (i : N) (l : list A) : list A :=
  match l with
  | [] => []
  | x :: l' => if i =? 0 then [] else x :: firstnN (N.pred i) l'
  end.

Fixpoint skipnN {A} (i : N) (l : list A) : list A :=
  match l with
  | [] => []
  | x :: l' => if i =? 0 then l else skipnN (N.pred i) l'
  end.

Fixpoint setN {A} (l : list A) (i : N) (v : A) : list A :=
  match l with
  | [] => []
  | x :: l' => if i =? 0 then v :: l' else x :: setN l' (N.pred i) v
  end.

(* v[i], v.get_unchecked(i), v.get(i) *)
Definition idx {A} (l : list A) (i : N) : outcome A :=
  match nthN l i with Some a => Val a | None => Fault Panic end.
Definition uidx {A} (l : list A) (i : N) : outcome A :=
  match nthN l i with Some a => Val a | None => Fault UB end.

Fixpoint countN (c : N) (l : list N) : N :=
  match l with [] => 0 | x :: l' => (if x =? c then 1 else 0) + countN c l' end.

Fixpoint count_lt (c : N) (l : list N) : N :=
  match l with [] => 0 | x :: l' => (if x <? c then 1 else 0) + count_lt c l' end.

Fixpoint countb (l : list bool) : N :=
  match l with [] => 0 | x :: l' => (if x then 1 else 0) + countb l' end.

Fixpoint repeatN {A} (a : A) (fuel : nat) : list A :=
  match fuel with O => [] | S f => a :: repeatN a f end.

(* chunks of [k] elements; [k] is a small constant (256, 512, 8 ...) *)
Fixpoint chunks_aux {A} (k : nat) (l : list A) (fuel : nat) : list (list A) :=
  match fuel with
  | O => []
  | S f => match l with
           | [] => []
           | _ => firstn k l :: chunks_aux k (skipn k l) f
           end
  end.
Definition chunks {A} (k : nat) (l : list A) : list (list A) := chunks_aux k l (length l).

Definition pad_to {A} (k : nat) (d : A) (l : list A) : list A := l ++ repeat d (k - length l).

Fixpoint last_opt {A} (l : list A) : option A :=
  match l with [] => None | [x] => Some x | _ :: l' => last_opt l' end.

Fixpoint set_last {A} (l : list A) (v : A) : list A :=
  match l with [] => [] | [_] => [v] | x :: l' => x :: set_last l' v end.

Fixpoint maxN (l : list N) : N :=
  match l with [] => 0 | x :: l' => N.max x (maxN l') end.

Fixpoint sumN (l : list N) : N :=
  match l with [] => 0 | x :: l' => x + sumN l' end.

(* index sequence 0..n-1 as N, n small/structural *)
Fixpoint seqN (start : N) (n : nat) : list N :=
  match n with O => [] | S n' => start :: seqN (start + 1) n' end.
