(* Outcome monad: every panic site / unchecked access / overflowing operation of the
   Rust code is an explicit [Fault] in the model.  Definitions only (no proofs). *)
From Coq Require Export List NArith Bool.
Export ListNotations.
Open Scope N_scope.

(* why a computation did not return a value *)
Inductive fault : Type :=
| Panic      (* panic!/assert!/unwrap/expect/slice index out of range *)
| Overflow   (* + - * overflowing its machine width, shift >= width: panic in a build with
                overflow checks, silently wrapped / masked otherwise *)
| UB         (* get_unchecked (or pointer read) outside the allocation *)
| DebugAssert(* debug_assert! failing: panic only in a build with debug assertions *)
| OutOfFuel. (* model artefact: excluded by every theorem *)

Inductive outcome (A : Type) : Type :=
| Val (a : A)
| Fault (f : fault).
Arguments Val {A} a.
Arguments Fault {A} f.

Definition bind {A B} (x : outcome A) (f : A -> outcome B) : outcome B :=
  match x with Val a => f a | Fault e => Fault e end.
Definition ret {A} (a : A) : outcome A := Val a.

Notation "'let!' x ':=' e 'in' k" := (bind e (fun x => k))
  (at level 200, x pattern, e at level 100, k at level 200, right associativity).

(* a - b on unsigned *)
Definition osub (a b : N) : outcome N := if b <=? a then Val (a - b) else Fault Overflow.
(* a + b on a machine word of [w] bits *)
Definition oadd (w a b : N) : outcome N := if a + b <? 2 ^ w then Val (a + b) else Fault Overflow.
Definition omul (w a b : N) : outcome N := if a * b <? 2 ^ w then Val (a * b) else Fault Overflow.
(* x >> s and x << s on [w]-bit words *)
Definition oshr (w x s : N) : outcome N := if s <? w then Val (N.shiftr x s) else Fault Overflow.
Definition oshl (w x s : N) : outcome N :=
  if s <? w then Val (N.shiftl x s mod 2 ^ w) else Fault Overflow.
Definition oassert (b : bool) : outcome unit := if b then Val tt else Fault Panic.
Definition odebug_assert (b : bool) : outcome unit := if b then Val tt else Fault DebugAssert.
Definition ounwrap {A} (o : option A) : outcome A :=
  match o with Some a => Val a | None => Fault Panic end.

Definition len {A} (l : list A) : N := N.of_nat (length l).

(* is a value, used by statements *)
Definition is_val {A} (x : outcome A) : bool := match x with Val _ => true | _ => false end.
