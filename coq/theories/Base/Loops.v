(* Loop combinators targeted by the translator tools/gen_fns.py (T5).  Definitions only.

   A Rust loop whose body assigns the variables (v1, .., vk) declared outside it becomes a function
   from the tuple of their current values to the outcome of one iteration:
     Next s   the body ran to its end (or hit `continue`): go on with state s
     Brk s    `break` with state s
     Ret r    `return r` from the enclosing function
   and the loop itself yields  Done s  (left normally or by `break`)  or  Retd r  (returned). *)
From Coq Require Export ZArith.
From QwtModel Require Export ListX.

Inductive step (S R : Type) : Type :=
| Next (s : S)
| Brk (s : S)
| Ret (r : R).
Arguments Next {S R} s.
Arguments Brk {S R} s.
Arguments Ret {S R} r.

Inductive fin (S R : Type) : Type :=
| Done (s : S)
| Retd (r : R).
Arguments Done {S R} s.
Arguments Retd {S R} r.

(* while cond { body }: [fuel] bounds the number of iterations; running out of it is the model
   artefact Fault OutOfFuel, excluded by every theorem *)
Fixpoint while_loop {S R} (cond : S -> outcome bool) (body : S -> outcome (step S R))
         (fuel : nat) (s : S) : outcome (fin S R) :=
  match fuel with
  | O => Fault OutOfFuel
  | S f =>
      let! c := cond s in
      if c then
        let! r := body s in
        match r with
        | Next s' => while_loop cond body f s'
        | Brk s' => Val (Done s')
        | Ret v => Val (Retd v)
        end
      else Val (Done s)
  end.

(* for i in lo..hi { body }: [n] = N.to_nat (hi - lo) iterations (none when hi <= lo, as in Rust);
   the induction variable stays below hi, so incrementing it never leaves its type *)
Fixpoint for_loop {S R} (body : N -> S -> outcome (step S R)) (i : N) (n : nat) (s : S)
  : outcome (fin S R) :=
  match n with
  | O => Val (Done s)
  | S k =>
      let! r := body i s in
      match r with
      | Next s' => for_loop body (i + 1) k s'
      | Brk s' => Val (Done s')
      | Ret v => Val (Retd v)
      end
  end.

(* for x in slice.iter() { body } *)
Fixpoint iter_loop {A S R} (body : A -> S -> outcome (step S R)) (l : list A) (s : S)
  : outcome (fin S R) :=
  match l with
  | [] => Val (Done s)
  | x :: l' =>
      let! r := body x s in
      match r with
      | Next s' => iter_loop body l' s'
      | Brk s' => Val (Done s')
      | Ret v => Val (Retd v)
      end
  end.

(* x.wrapping_shl(n) / x.wrapping_shr(n) at width w: the amount is taken modulo w *)
Definition wshl (w x n : N) : N := N.shiftl x (n mod w) mod 2 ^ w.
Definition wshr (w x n : N) : N := N.shiftr x (n mod w).

(* f64::sqrt(x as f64) as usize, exact for x < 2^52 (every value a slice index difference takes) *)
Definition fsqrt (x : N) : N := N.sqrt x.

(* ---- signed integers (i32 ...): values are Z within the type's range *)
(* `x as iW`: two's complement wrap *)
Definition zwrap (w : N) (z : Z) : Z :=
  let m := Z.modulo z (2 ^ Z.of_N w) in
  if Z.ltb m (2 ^ (Z.of_N w - 1)) then m else (m - 2 ^ Z.of_N w)%Z.
Definition zin (w : N) (z : Z) : bool :=
  Z.leb (- 2 ^ (Z.of_N w - 1)) z && Z.ltb z (2 ^ (Z.of_N w - 1)).
Definition ziadd (w : N) (a b : Z) : outcome Z :=
  if zin w (a + b)%Z then Val (a + b)%Z else Fault Overflow.
Definition zisub (w : N) (a b : Z) : outcome Z :=
  if zin w (a - b)%Z then Val (a - b)%Z else Fault Overflow.
(* a signed shift amount: negative = overflow (panic with overflow checks) *)
Definition zshamt (z : Z) : outcome N := if Z.ltb z 0 then Fault Overflow else Val (Z.to_N z).

(* `a < b` on Option<uN> (derived PartialOrd: None is the least element) *)
Definition opt_ltb (a b : option N) : bool :=
  match a, b with
  | None, Some _ => true
  | Some x, Some y => N.ltb x y
  | _, None => false
  end.

(* for i in (lo..hi).rev() { body }: i = hi-1, hi-2, .., lo *)
Fixpoint for_loop_rev {S R} (body : N -> S -> outcome (step S R)) (hi : N) (n : nat) (s : S)
  : outcome (fin S R) :=
  match n with
  | O => Val (Done s)
  | S k =>
      let! r := body (hi - 1) s in
      match r with
      | Next s' => for_loop_rev body (hi - 1) k s'
      | Brk s' => Val (Done s')
      | Ret v => Val (Retd v)
      end
  end.

(* a.checked_add(b) at width w *)
Definition checked_add (w a b : N) : option N := if a + b <? 2 ^ w then Some (a + b) else None.
Definition zimul (w : N) (a b : Z) : outcome Z :=
  if zin w (a * b)%Z then Val (a * b)%Z else Fault Overflow.

(* l.binary_search_by_key(&k, |(x, _)| *x).expect(..): the index of an entry whose first component is k
   (the standard library returns the index of SOME matching entry of a slice sorted by the key; on tables whose
   keys are sorted and distinct, which is what every theorem assumes, it is this one), Fault Panic if none *)
Fixpoint find_fst {B} (l : list (N * B)) (k : N) (i : N) : option N :=
  match l with
  | [] => None
  | (x, _) :: l' => if x =? k then Some i else find_fst l' k (i + 1)
  end.
Definition obsearch_fst {B} (l : list (N * B)) (k : N) : outcome N := ounwrap (find_fst l k 0).
(* -a on iW *)
Definition zineg (w : N) (a : Z) : outcome Z := if zin w (- a)%Z then Val (- a)%Z else Fault Overflow.

(* for (i, x) in l.iter().enumerate() { body } *)
Fixpoint iteri_loop {A S R} (body : N -> A -> S -> outcome (step S R)) (i : N) (l : list A) (s : S)
  : outcome (fin S R) :=
  match l with
  | [] => Val (Done s)
  | x :: l' =>
      let! r := body i x s in
      match r with
      | Next s' => iteri_loop body (i + 1) l' s'
      | Brk s' => Val (Done s')
      | Ret v => Val (Retd v)
      end
  end.

(* l.iter().fold(a0, |a, x| f a x) *)
Fixpoint ofold {A B} (f : A -> B -> outcome A) (l : list B) (a : A) : outcome A :=
  match l with
  | [] => Val a
  | x :: l' => let! a' := f a x in ofold f l' a'
  end.

(* v[i].push(x) on a local array of vectors *)
Definition push_at {A} (l : list (list A)) (i : N) (x : A) : outcome (list (list A)) :=
  let! li := idx l i in Val (setN l i (li ++ [x])).

(* v.resize_with(n, Default::default): truncated or padded with the default element *)
Definition resize_with {A} (l : list A) (n : N) (d : A) : list A :=
  if n <=? len l then firstnN n l else l ++ repeat d (N.to_nat (n - len l)).

(* for x in &mut l { body }: every element replaced by its value after the body *)
Fixpoint omap {A} (f : A -> outcome A) (l : list A) : outcome (list A) :=
  match l with
  | [] => Val []
  | x :: l' => let! y := f x in let! r := omap f l' in Val (y :: r)
  end.

(* l.iter().max(): the largest element; None on an empty sequence *)
Definition max_opt (l : list N) : option N :=
  match l with
  | [] => None
  | x :: l' => Some (fold_left N.max l' x)
  end.

(* dst[a..b].copy_from_slice(src): panics unless a <= b <= dst.len() and src.len() = b - a *)
Definition copy_into {A} (dst : list A) (a b : N) (src : list A) : outcome (list A) :=
  if (a <=? b) && (b <=? len dst) && (len src =? b - a)
  then Val (firstnN a dst ++ src ++ skipnN b dst) else Fault Panic.

(* uN::trailing_zeros at width w *)
Fixpoint tz_pos (p : positive) : N := match p with xO q => N.succ (tz_pos q) | _ => 0 end.
Definition tzcnt (w x : N) : N := match x with N0 => w | Npos p => tz_pos p end.

(* L.iter().map(|x| body).collect::<Vec<_>>() with a body that may fault *)
Fixpoint omapf {A B} (f : A -> outcome B) (l : list A) : outcome (list B) :=
  match l with
  | [] => Val []
  | x :: l' => let! y := f x in let! r := omapf f l' in Val (y :: r)
  end.

(* v.sort_by_key(|x| x.k): the stable sort (elements with equal keys keep their order) *)
Fixpoint insert_by {A} (key : A -> N) (x : A) (l : list A) : list A :=
  match l with
  | [] => [x]
  | y :: l' => if key x <=? key y then x :: y :: l' else y :: insert_by key x l'
  end.
Definition sort_by_fst {B} (l : list (N * B)) : list (N * B) := fold_right (insert_by fst) [] l.
Definition sort_by_snd {A} (l : list (A * N)) : list (A * N) := fold_right (insert_by snd) [] l.
