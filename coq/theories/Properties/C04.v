(* C04 — The safe API is total and memory-safe for every argument and every state.
   By construction of the model every panic site (index, unwrap, assert), every unchecked access
   and every overflowing / underflowing machine operation of the code is a [Fault] of the
   outcome monad (Base/Outcome.v), and the functional theorems C01-C03, C05-C08, C12, C13 are
   all of the form "f st args = Val ..." for ALL argument values of the argument types and all
   states reachable through the safe API.  This file collects the totality corollaries, the
   Default / empty states, and the exact characterisation of the documented panics.
   What the model cannot exhibit: undefined behaviour of the compiled unsafe blocks that does
   not trap (the debug build of the harness turns an out-of-range get_unchecked into an abort;
   see DESIGN).  Statements only; short projections of the contracts. *)
From QwtModel Require Import ListX Seq Consts Words QVec RSQ QWT Huff BitVec RSBin DArrayM RSQBuild.
From QwtModel Require Import QVecP RSQP QWTP HQWTP BinWTP BitsLib BitVecP WordsP BinFinalP DArrayP.

(* ---- every checked query returns a value (never a Fault), whatever the arguments ---- *)
Theorem C04_rsq_total : forall bsize r s, rsq_spec bsize r s -> forall c i k, k < 2 ^ 64 ->
  (exists v, rsq_get r i = Val v) /\ (exists v, rsq_rank bsize r c i = Val v) /\ (exists v, rsq_select bsize r c k = Val v) /\
  (exists v, rsq_occs r c = Val v) /\ (exists v, rsq_occs_smaller_q r c = Val v).
Proof. intros bsize r s (_ & _ & G & R & S & O & OS & _) c i k Hk. repeat split; eexists; eauto. Qed.
Print Assumptions C04_rsq_total.

Theorem C04_qwt_total : forall w bsize t seq, qwt_spec w bsize t seq -> forall c i k, c < 2 ^ w -> k < 2 ^ 64 ->
  (exists v, qwt_get w bsize t i = Val v) /\ (exists v, qwt_rank w bsize t c i = Val v) /\
  (exists v, qwt_rank_prefetch w bsize t c i = Val v) /\ (exists v, qwt_select w bsize t c k = Val v).
Proof. intros w bsize t seq (_ & _ & _ & _ & G & R & P & S & _) c i k Hc Hk. repeat split; eexists; eauto.
  rewrite P by assumption. apply R; assumption. Qed.
Print Assumptions C04_qwt_total.

Theorem C04_hqwt_total : forall w bsize t seq, hq_spec w bsize t seq -> forall c i k, c < 2 ^ w -> k < 2 ^ 64 ->
  (exists v, hq_get w bsize t i = Val v) /\ (exists v, hq_rank bsize t c i = Val v) /\
  (exists v, hq_rank_prefetch bsize t c i = Val v) /\ (exists v, hq_select bsize t c k = Val v).
Proof. intros w bsize t seq (_ & G & R & P & S & _) c i k Hc Hk. repeat split; eexists; eauto.
  rewrite P by assumption. apply R; assumption. Qed.
Print Assumptions C04_hqwt_total.

Theorem C04_wt_total : forall w t seq, wt_spec w t seq -> forall c i k, c < 2 ^ w -> k < 2 ^ 64 ->
  (exists v, wt_get w false t i = Val v) /\ (exists v, wt_rank w false t c i = Val v) /\ (exists v, wt_select w false t c k = Val v).
Proof. intros w t seq (_ & _ & G & R & S & _) c i k Hc Hk. repeat split; eexists; eauto. Qed.
Print Assumptions C04_wt_total.
Theorem C04_hwt_total : forall w t seq, hwt_spec w t seq -> forall c i k, c < 2 ^ w -> k < 2 ^ 64 ->
  (exists v, wt_get w true t i = Val v) /\ (exists v, wt_rank w true t c i = Val v) /\ (exists v, wt_select w true t c k = Val v).
Proof. intros w t seq (_ & G & R & S & _) c i k Hc Hk. repeat split; eexists; eauto. Qed.
Print Assumptions C04_hwt_total.

(* bit vectors: every reader on every reachable state; get_word is the one documented panic *)
Theorem C04_bitvector_total : forall b, bv_inv b -> forall strict i n,
  (exists v, bv_get b i = Val v) /\ (exists v, bv_get_bits strict b i n = Val v) /\ (exists v, bv_count_zeros b = Val v).
Proof. intros b Hb strict i n. repeat split; eexists.
  - apply bv_get_correct; exact Hb. - apply bv_get_bits_correct; exact Hb. - apply (bv_count_correct b Hb). Qed.
Print Assumptions C04_bitvector_total.

(* ---- Default / empty states ---- *)
Theorem C04_default_rsq : forall bsize, (bsize = 256 \/ bsize = 512) -> exists r, rsq_default bsize = Val r /\ rsq_spec bsize r [].
Proof. exact rsq_default_correct. Qed.
Print Assumptions C04_default_rsq.
Theorem C04_default_qwt : forall w bsize, qwt_spec w bsize qwt_default [].
Proof. exact qwt_default_correct. Qed.
Print Assumptions C04_default_qwt.
Theorem C04_empty_qwt : forall w bsize, QWTP.width_ok w -> (bsize = 256 \/ bsize = 512) ->
  exists t, qwt_new w bsize [] = Val t /\ qwt_spec w bsize t [].
Proof. intros w bsize Hw Hb. apply qwt_new_correct; auto. reflexivity. Qed.
Print Assumptions C04_empty_qwt.
Theorem C04_empty_hqwt : forall w bsize, (bsize = 256 \/ bsize = 512) -> exists t, hq_build bsize [] [] = Val t /\ hq_spec w bsize t [].
Proof. exact hq_build_empty. Qed.
Print Assumptions C04_empty_hqwt.
Theorem C04_empty_wt : forall w compressed tab, exists t, wt_build w compressed [] tab = Val t /\
  (forall i, wt_get w compressed t i = Val None) /\ (forall c i, wt_rank w compressed t c i = Val None) /\
  (forall c k, wt_select w compressed t c k = Val None).
Proof. exact wt_build_empty. Qed.
Print Assumptions C04_empty_wt.
Theorem C04_empty_bitvector : bv_inv bv_empty /\ bv_abs bv_empty = [].
Proof. exact bv_inv_empty. Qed.
Print Assumptions C04_empty_bitvector.

(* ---- the documented panics, exactly ---- *)
(* mutating a bit vector out of bounds / with stray bits: a fault iff the precondition fails *)
Theorem C04_mutator_panics_iff : forall b o, bv_inv b -> op_typed o -> op_small (bv_abs b) o ->
  (op_pre (bv_abs b) o = true -> exists b', bvstep b o = Val b') /\
  (op_pre (bv_abs b) o = false -> exists f, bvstep b o = Fault f).
Proof. intros b o Hb Ht Hs. split; intros Hp.
  - destruct (bv_step_correct b o Hb Hp Hs) as (b' & E & _). eauto.
  - exact (bv_step_panics b o Hb Ht Hp). Qed.
Print Assumptions C04_mutator_panics_iff.
(* an out-of-range word index *)
Theorem C04_get_word_panics_iff : forall b w, bv_inv b ->
  bv_get_word b w = if w <? 8 * ((len (bv_abs b) + 511) / 512)
                    then Val (bits_value (firstnN 64 (skipnN (64 * w) (bv_abs b)))) else Fault Panic.
Proof. exact bv_get_word_correct. Qed.
Print Assumptions C04_get_word_panics_iff.
(* select0 on a DArray built without select0 support; a non-increasing position list *)
Theorem C04_darray_panics : forall s0 ps, Forall (fun p => p < 2 ^ 63 - 1) ps ->
  if strictly_increasing ps
  then exists d, da_from_positions s0 ps = Val d /\ da_spec s0 d (op_spec [] (OExtPos ps))
  else da_from_positions s0 ps = Fault Panic.
Proof. exact (da_of_positions_total select_in_word_correct popcount_correct). Qed.
Print Assumptions C04_darray_panics.
(* exceeding the length limit: the constructor's assert (model: rss_new) *)
Theorem C04_length_limit : forall bsize syms, MAX_LEN <= len syms -> rss_new bsize syms = Fault Panic.
Proof. intros bsize syms H. unfold rss_new. replace (len syms <? MAX_LEN) with false by (symmetry; apply N.ltb_ge; exact H). reflexivity. Qed.
Print Assumptions C04_length_limit.

(* ---- the derived Default values that are NOT produced by a constructor ---- *)
From QwtModel Require Import State.
(* RSNarrow::default() / RSWide::default(): every field empty; every query answers None / 0 *)
Theorem C04_default_rsnarrow : forall i,
  rsn_get rsn_default i = Val None /\ rsn_rank1 rsn_default i = Val None /\ rsn_rank0 rsn_default i = Val None /\
  rsn_select1 rsn_default i = Val None /\ rsn_select0 rsn_default i = Val None /\
  rsn_n_ones rsn_default = Val 0 /\ rsn_n_zeros rsn_default = Val 0.
Proof. intros i. repeat split; try reflexivity; destruct i; reflexivity. Qed.
Print Assumptions C04_default_rsnarrow.
Theorem C04_default_rswide : forall i,
  rsw_get rsw_default i = Val None /\ rsw_rank1 rsw_default i = Val None /\ rsw_rank0 rsw_default i = Val None /\
  rsw_select1 rsw_default i = Val None /\ rsw_select0 rsw_default i = Val None /\ rsw_n_ones rsw_default = Val 0.
Proof. intros i. repeat split; try reflexivity; destruct i; reflexivity. Qed.
Print Assumptions C04_default_rswide.
(* HuffQWaveletTree::default(): no code table, no level *)
Theorem C04_default_hqwt : forall w bsize c i,
  hq_get w bsize hq_default i = Val None /\ hq_rank bsize hq_default c i = Val None /\
  hq_rank_prefetch bsize hq_default c i = Val None /\ hq_select bsize hq_default c i = Val None.
Proof.
  intros w bsize c i.
  assert (Hc : hq_code_of hq_default c = None).
  { unfold hq_code_of, hq_default; cbn [h_codes]. change (len (@nil pcode)) with 0.
    replace (0 <=? sym_index c) with true by (symmetry; apply N.leb_le; apply N.le_0_l).
    rewrite Bool.orb_true_r. reflexivity. }
  unfold hq_get, hq_rank, hq_rank_prefetch, hq_select. rewrite Hc. cbn [h_n hq_default].
  replace (0 <=? i) with true by (symmetry; apply N.leb_le; apply N.le_0_l).
  repeat split; try reflexivity; destruct (0 <? i); reflexivity.
Qed.
Print Assumptions C04_default_hqwt.
