(* C06 — Rank/select bit vectors (RSNarrow, RSWide) agree with the plain bit vector.
   Statements only, closed by [exact]. *)
From QwtModel Require Import ListX Seq Consts Words BitVec RSBin WordsP RSBinP BinFinalP.

(* get / rank1 / rank0 / select1 / select0 / n_ones / n_zeros against the list of booleans;
   on an EMPTY vector every rank answers None (the code's behaviour; the property allows None) *)
Definition C06_contract (s : list bool) (get : N -> outcome (option bool))
    (rank1 rank0 select1 select0 : N -> outcome (option N)) (n_ones n_zeros : outcome N) : Prop :=
  (forall i, get i = Val (nthN s i)) /\
  (forall i, rank1 i = Val (if negb (len s =? 0) && (i <=? len s) then Some (rank1_spec s i) else None)) /\
  (forall i, rank0 i = Val (if negb (len s =? 0) && (i <=? len s) then Some (rank0_spec s i) else None)) /\
  (forall k, k < 2 ^ 64 -> select1 k = Val (select1_spec s k)) /\
  (forall k, k < 2 ^ 64 -> select0 k = Val (select0_spec s k)) /\
  n_ones = Val (countb s) /\ n_zeros = Val (len s - countb s).

Theorem C06_rsnarrow : forall bs, len bs < 2 ^ 43 ->
  exists bv r, bv_from_bools bs = Val bv /\ rsn_new bv = Val r /\
    C06_contract bs (rsn_get r) (rsn_rank1 r) (rsn_rank0 r) (rsn_select1 r) (rsn_select0 r) (rsn_n_ones r) (rsn_n_zeros r) /\
    (forall i, 0 < len bs -> i <= len bs -> rsn_rank1_unchecked r i = Val (rank1_spec bs i)) /\
    (forall k p, select1_spec bs k = Some p -> rsn_select_unchecked true r k = Val p) /\
    (forall k p, select0_spec bs k = Some p -> rsn_select_unchecked false r k = Val p).
Proof. exact (rsn_of_bools_correct select_in_word_correct popcount_correct). Qed.
Print Assumptions C06_rsnarrow.

Theorem C06_rswide : forall bs, len bs < 2 ^ 43 ->
  exists bv r, bv_from_bools bs = Val bv /\ rsw_new bv = Val r /\
    C06_contract bs (rsw_get r) (rsw_rank1 r) (rsw_rank0 r) (rsw_select1 r) (rsw_select0 r) (rsw_n_ones r) (Val (rsw_n_zeros_q r)) /\
    (forall i, 0 < len bs -> i <= len bs ->
        rsw_rank1_unchecked r i = Val (rank1_spec bs i) /\ rsw_rank0_unchecked r i = Val (rank0_spec bs i)) /\
    (forall k p, select1_spec bs k = Some p -> rsw_select_unchecked true r k = Val p) /\
    (forall k p, select0_spec bs k = Some p -> rsw_select_unchecked false r k = Val p).
Proof. exact (rsw_of_bools_correct select_in_word_correct popcount_correct). Qed.
Print Assumptions C06_rswide.

From QwtModel Require Import LeavesRSN LeavesRSNOk LeavesRSW LeavesRSWOk.

(* ---- T3: the directory readers of RSNarrow / RSWide REGENERATED from src/bitvector/rs_narrow.rs and
   src/bitvector/rs_wide.rs on every run (tools/gen_leaves.py -> Gen/LeavesRSN.v, Gen/LeavesRSW.v: typed,
   operation-by-operation translation of the Rust text, each used field of self a parameter) are equal to
   the hand model on every argument of the parameter type, for directories whose entries fit their
   element type (u64 / u128).  The hand model of the three RSNarrow readers was made to carry the usize
   overflow checks of the source for this (block * 2, block * 2 + 1, result += ..). *)
Theorem C06_source_rsn_block_rank : forall r block, block < 2 ^ 64 ->
  g_rsn_block_rank (rsn_pairs r) block = rsn_block_rank r block.
Proof. exact g_rsn_block_rank_ok. Qed.
Print Assumptions C06_source_rsn_block_rank.
Theorem C06_source_rsn_sub_block_ranks : forall r block, block < 2 ^ 64 ->
  g_rsn_sub_block_ranks (rsn_pairs r) block = rsn_sub_block_ranks r block.
Proof. exact g_rsn_sub_block_ranks_ok. Qed.
Print Assumptions C06_source_rsn_sub_block_ranks.
Theorem C06_source_rsn_sub_block_rank : forall r sub_block,
  Forall (fun w => w < 2 ^ 64) (rsn_pairs r) -> sub_block < 2 ^ 64 ->
  g_rsn_sub_block_rank (rsn_pairs r) sub_block = rsn_sub_block_rank r sub_block.
Proof. exact g_rsn_sub_block_rank_ok. Qed.
Print Assumptions C06_source_rsn_sub_block_rank.
Theorem C06_source_rsw_superblock_rank : forall r block,
  Forall (fun w => w < 2 ^ 128) (rsw_meta r) -> block < 2 ^ 64 ->
  g_rsw_superblock_rank (rsw_meta r) block = rsw_superblock_rank r block.
Proof. exact g_rsw_superblock_rank_ok. Qed.
Print Assumptions C06_source_rsw_superblock_rank.
Theorem C06_source_rsw_sub_block_rank : forall r sub_block,
  Forall (fun w => w < 2 ^ 128) (rsw_meta r) -> sub_block < 2 ^ 64 ->
  g_rsw_sub_block_rank (rsw_meta r) sub_block = rsw_sub_block_rank r sub_block.
Proof. exact g_rsw_sub_block_rank_ok. Qed.
Print Assumptions C06_source_rsw_sub_block_rank.

From QwtModel Require Import Loops FnsBv FnsRsn2 FnsBvOk FnsRsn2Ok.

(* ---- T5: the QUERY ALGORITHMS of RSNarrow REGENERATED from src/bitvector/rs_narrow.rs and
   src/bitvector/mod.rs on every run (tools/gen_fns.py -> Gen/FnsBv.v, Gen/FnsRsn2.v: statement-by-statement
   translation of the Rust text, loops through Base/Loops.v, every + - * << >> checked at its machine width,
   every used field of self a parameter; `Box<[DataLine]>` = the list of the lines = chunks 8 of the word slice).
   For every bit sequence, on the fields of the structure the (hand-modelled, byte-compared) constructor builds,
   the regenerated get / rank1 / rank1_unchecked / select1 / select0 / their unchecked variants / n_ones /
   n_zeros return exactly the list specification, for every fuel above the number of directory entries. *)
Theorem C06_source_rsnarrow_queries : forall bs, len bs < 2 ^ 43 ->
  exists bv r, bv_from_bools bs = Val bv /\ rsn_new bv = Val r /\
    (forall fuel k, (S (length (rsn_pairs r)) <= fuel)%nat -> k < 2 ^ 64 ->
       g_rsn_select1 fuel (chunks 8 (bv_words bv)) (bv_nbits bv) (rsn_pairs r) [rsn_samples0 r; rsn_samples1 r] k
       = Val (select1_spec bs k)) /\
    (forall fuel k, (S (length (rsn_pairs r)) <= fuel)%nat -> k < 2 ^ 64 ->
       g_rsn_select0 fuel (chunks 8 (bv_words bv)) (bv_nbits bv) (rsn_pairs r) [rsn_samples0 r; rsn_samples1 r] k
       = Val (select0_spec bs k)) /\
    (forall i, i < 2 ^ 64 ->
       g_rsn_rank1 (chunks 8 (bv_words bv)) (bv_nbits bv) (rsn_pairs r) i
       = Val (if negb (len bs =? 0) && (i <=? len bs) then Some (rank1_spec bs i) else None)) /\
    g_rsn_n_ones (chunks 8 (bv_words bv)) (bv_nbits bv) (rsn_pairs r) = Val (countb bs) /\
    g_rsn_n_zeros (chunks 8 (bv_words bv)) (bv_nbits bv) (rsn_pairs r) = Val (len bs - countb bs) /\
    (forall i, g_bv_get (chunks 8 (bv_words bv)) (bv_nbits bv) i = Val (nthN bs i)) /\
    (forall i, 0 < len bs -> i <= len bs ->
       g_rsn_rank1_unchecked (chunks 8 (bv_words bv)) (rsn_pairs r) i = Val (rank1_spec bs i)) /\
    (forall fuel k p, (S (length (rsn_pairs r)) <= fuel)%nat -> select1_spec bs k = Some p ->
       g_rsn_select1_unchecked fuel (chunks 8 (bv_words bv)) (rsn_pairs r) [rsn_samples0 r; rsn_samples1 r] k = Val p) /\
    (forall fuel k p, (S (length (rsn_pairs r)) <= fuel)%nat -> select0_spec bs k = Some p ->
       g_rsn_select0_unchecked fuel (chunks 8 (bv_words bv)) (rsn_pairs r) [rsn_samples0 r; rsn_samples1 r] k = Val p).
Proof. exact g_rsn_of_bools_correct. Qed.
Print Assumptions C06_source_rsnarrow_queries.

(* the bit accessors of BitVector regenerated from the source equal the hand model (no hypothesis) *)
Theorem C06_source_bv_get : forall b index,
  g_bv_get (chunks 8 (bv_words b)) (bv_nbits b) index = bv_get b index.
Proof. exact g_bv_get_chunks. Qed.
Print Assumptions C06_source_bv_get.
Theorem C06_source_get_bit_slice : forall ws index, g_get_bit_slice ws index = bv_get_bit_slice ws index.
Proof. exact g_get_bit_slice_ok. Qed.
Print Assumptions C06_source_get_bit_slice.

From QwtModel Require Import FnsRsw2 FnsRsw2Ok.

(* ---- T5: the same for RSWide (src/bitvector/rs_wide.rs -> Gen/FnsRsw2.v), including the in-line searches of
   the bit DataLine (select1/select0_unchecked: for loops over the eight words; rank1_unchecked: the `left: i32`
   countdown, signed arithmetic as Z in range) *)
Theorem C06_source_rswide_select : forall bs, len bs < 2 ^ 43 ->
  exists bv r, bv_from_bools bs = Val bv /\ rsw_new bv = Val r /\
    forall fuel, (S (length (rsw_meta r)) <= fuel)%nat ->
    (forall k, k < 2 ^ 64 ->
       g_rsw_select1 fuel (chunks 8 (bv_words bv)) (bv_nbits bv) (rsw_meta r) [rsw_samples0 r; rsw_samples1 r]
         (rsw_n_zeros r) k = Val (select1_spec bs k)) /\
    (forall k, k < 2 ^ 64 ->
       g_rsw_select0 fuel (chunks 8 (bv_words bv)) (rsw_meta r) [rsw_samples0 r; rsw_samples1 r]
         (rsw_n_zeros r) k = Val (select0_spec bs k)) /\
    g_rsw_n_ones (bv_nbits bv) (rsw_n_zeros r) = Val (countb bs) /\
    g_rsw_n_zeros (rsw_n_zeros r) = Val (len bs - countb bs) /\
    (forall k p, k < 2 ^ 64 -> select1_spec bs k = Some p ->
       g_rsw_select1_unchecked fuel (chunks 8 (bv_words bv)) (rsw_meta r) [rsw_samples0 r; rsw_samples1 r] k = Val p) /\
    (forall k p, k < 2 ^ 64 -> select0_spec bs k = Some p ->
       g_rsw_select0_unchecked fuel (chunks 8 (bv_words bv)) (rsw_meta r) [rsw_samples0 r; rsw_samples1 r] k = Val p).
Proof. exact rsw_gen_of_bools_correct. Qed.
Print Assumptions C06_source_rswide_select.

Theorem C06_source_rswide_rank : forall bs, len bs < 2 ^ 43 ->
  exists bv r, bv_from_bools bs = Val bv /\ rsw_new bv = Val r /\
    (forall i, i < 2 ^ 64 ->
       g_rsw_rank1 (chunks 8 (bv_words bv)) (bv_nbits bv) (rsw_meta r) i
       = Val (if negb (len bs =? 0) && (i <=? len bs) then Some (rank1_spec bs i) else None)) /\
    (forall i, 0 < len bs -> i <= len bs ->
       g_rsw_rank1_unchecked (chunks 8 (bv_words bv)) (rsw_meta r) i = Val (rank1_spec bs i)).
Proof. exact rsw_gen_of_bools_rank_correct. Qed.
Print Assumptions C06_source_rswide_rank.

(* the searches inside a 512-bit line, regenerated, equal the hand model on every line of eight u64 words *)
Theorem C06_source_bline_select1 : forall l i, length l = 8%nat -> Forall (fun w => w < 2 ^ 64) l ->
  g_bline_select1_unchecked l i = bline_select_loop false l i 0 0.
Proof. exact g_bline_select1_unchecked_ok. Qed.
Print Assumptions C06_source_bline_select1.
Theorem C06_source_bline_select0 : forall l i, length l = 8%nat -> Forall (fun w => w < 2 ^ 64) l ->
  g_bline_select0_unchecked l i = bline_select_loop true l i 0 0.
Proof. exact g_bline_select0_unchecked_ok. Qed.
Print Assumptions C06_source_bline_select0.
Theorem C06_source_bline_rank1 : forall l i, length l = 8%nat -> Forall (fun w => w < 2 ^ 64) l ->
  g_bline_rank1 l i = Val (bline_rank1 l i).
Proof. exact g_bline_rank1_ok. Qed.
Print Assumptions C06_source_bline_rank1.

From QwtModel Require Import FnsNewOk.

(* ---- T5: the CONSTRUCTORS RSNarrow::new and RSWide::new REGENERATED from the source too (Gen/FnsRsn2.v g_rsn_new,
   Gen/FnsRsw2.v g_rsw_new: the nested enumerate loops over lines and words, the packed counters, the hint samples in a
   local array of vectors, the returned struct as the tuple of its fields). With them the statement no longer mentions
   the hand-modelled constructor: for every bit sequence, the regenerated constructor applied to the bit vector followed
   by the regenerated queries returns the list specification. The only hand-modelled step left is bv_from_bools. *)
Theorem C06_source_rsnarrow_end_to_end : forall bs bv, len bs < 2 ^ 43 -> bv_from_bools bs = Val bv ->
  exists pairs samples,
    g_rsn_new (chunks 8 (bv_words bv)) (bv_nbits bv) (bv_nones bv)
      = Val (chunks 8 (bv_words bv), bv_nbits bv, bv_nones bv, pairs, samples) /\
    (forall fuel k, (S (length pairs) <= fuel)%nat -> k < 2 ^ 64 ->
       g_rsn_select1 fuel (chunks 8 (bv_words bv)) (bv_nbits bv) pairs samples k = Val (select1_spec bs k)) /\
    (forall fuel k, (S (length pairs) <= fuel)%nat -> k < 2 ^ 64 ->
       g_rsn_select0 fuel (chunks 8 (bv_words bv)) (bv_nbits bv) pairs samples k = Val (select0_spec bs k)) /\
    (forall i, i < 2 ^ 64 ->
       g_rsn_rank1 (chunks 8 (bv_words bv)) (bv_nbits bv) pairs i
       = Val (if negb (len bs =? 0) && (i <=? len bs) then Some (rank1_spec bs i) else None)) /\
    g_rsn_n_ones (chunks 8 (bv_words bv)) (bv_nbits bv) pairs = Val (countb bs) /\
    g_rsn_n_zeros (chunks 8 (bv_words bv)) (bv_nbits bv) pairs = Val (len bs - countb bs) /\
    (forall i, g_bv_get (chunks 8 (bv_words bv)) (bv_nbits bv) i = Val (nthN bs i)) /\
    (forall i, 0 < len bs -> i <= len bs ->
       g_rsn_rank1_unchecked (chunks 8 (bv_words bv)) pairs i = Val (rank1_spec bs i)) /\
    (forall fuel k p, (S (length pairs) <= fuel)%nat -> select1_spec bs k = Some p ->
       g_rsn_select1_unchecked fuel (chunks 8 (bv_words bv)) pairs samples k = Val p) /\
    (forall fuel k p, (S (length pairs) <= fuel)%nat -> select0_spec bs k = Some p ->
       g_rsn_select0_unchecked fuel (chunks 8 (bv_words bv)) pairs samples k = Val p).
Proof. exact g_rsn_new_of_bools_correct. Qed.
Print Assumptions C06_source_rsnarrow_end_to_end.

Theorem C06_source_rswide_end_to_end : forall bs bv, len bs < 2 ^ 43 -> bv_from_bools bs = Val bv ->
  exists meta samples n_zeros,
    g_rsw_new (chunks 8 (bv_words bv)) (bv_nbits bv) (bv_nones bv)
      = Val (chunks 8 (bv_words bv), bv_nbits bv, bv_nones bv, meta, samples, n_zeros) /\
    (forall fuel k, (S (length meta) <= fuel)%nat -> k < 2 ^ 64 ->
       g_rsw_select1 fuel (chunks 8 (bv_words bv)) (bv_nbits bv) meta samples n_zeros k = Val (select1_spec bs k)) /\
    (forall fuel k, (S (length meta) <= fuel)%nat -> k < 2 ^ 64 ->
       g_rsw_select0 fuel (chunks 8 (bv_words bv)) meta samples n_zeros k = Val (select0_spec bs k)) /\
    (forall i, i < 2 ^ 64 ->
       g_rsw_rank1 (chunks 8 (bv_words bv)) (bv_nbits bv) meta i
       = Val (if negb (len bs =? 0) && (i <=? len bs) then Some (rank1_spec bs i) else None)) /\
    g_rsw_n_ones (bv_nbits bv) n_zeros = Val (countb bs) /\
    g_rsw_n_zeros n_zeros = Val (len bs - countb bs) /\
    (forall i, g_rsw_get (chunks 8 (bv_words bv)) (bv_nbits bv) i = Val (nthN bs i)) /\
    (forall i, 0 < len bs -> i <= len bs ->
       g_rsw_rank1_unchecked (chunks 8 (bv_words bv)) meta i = Val (rank1_spec bs i)) /\
    (forall fuel k p, (S (length meta) <= fuel)%nat -> k < 2 ^ 64 -> select1_spec bs k = Some p ->
       g_rsw_select1_unchecked fuel (chunks 8 (bv_words bv)) meta samples k = Val p) /\
    (forall fuel k p, (S (length meta) <= fuel)%nat -> k < 2 ^ 64 -> select0_spec bs k = Some p ->
       g_rsw_select0_unchecked fuel (chunks 8 (bv_words bv)) meta samples k = Val p).
Proof. exact g_rsw_new_of_bools_correct. Qed.
Print Assumptions C06_source_rswide_end_to_end.
