(* C18 — Queries are pure and structures can be shared across threads.
   What a Gallina model can carry: every query of the model is a FUNCTION of the (immutable)
   state and its arguments and returns no new state.  Over an explicit interleaving semantics
   (any number of threads, any scheduler) this gives: the state is never changed, and every
   thread observes exactly the answers a single thread would.  The modelling claim itself —
   that the real query methods take &self and touch nothing else, and that the types are
   Send + Sync — is tied to the code by the harness (compile-time Send + Sync bounds, serialized
   bytes identical before/after, multi-threaded runs); data races of a hypothetical interior
   mutable cache cannot be exhibited by this model (partial; see DESIGN). *)
From Coq Require Import List.
Import ListNotations.

Section Frame.
Variables (state arg out : Type).
Variable query : state -> arg -> out.          (* any &self method *)

(* a schedule: which thread issues which query, in global order *)
Definition step (st : state) (e : nat * arg) : state * (nat * out) := (st, (fst e, query st (snd e))).
Fixpoint run (st : state) (sched : list (nat * arg)) : state * list (nat * out) :=
  match sched with
  | [] => (st, [])
  | e :: r => let '(st1, o) := step st e in let '(st2, os) := run st1 r in (st2, o :: os)
  end.
Definition of_thread {A} (i : nat) (l : list (nat * A)) : list A :=
  map snd (filter (fun e => Nat.eqb (fst e) i) l).

Theorem C18_frame : forall st sched, fst (run st sched) = st.
Proof. intros st sched. induction sched as [|e r IH]; cbn [run step]; [reflexivity|].
  destruct (run st r) as [st2 os] eqn:E. cbn [fst] in *. exact IH. Qed.

Theorem C18_schedule_independent : forall st sched i,
  of_thread i (snd (run st sched)) = map (query st) (of_thread i sched).
Proof. intros st sched i. induction sched as [|e r IH]; cbn [run step]; [reflexivity|].
  destruct (run st r) as [st2 os] eqn:E. cbn [snd fst] in *. unfold of_thread in *. cbn [filter fst snd].
  destruct (Nat.eqb (fst e) i); cbn [map snd]; rewrite IH; reflexivity. Qed.

(* repeating a query gives the same answer *)
Theorem C18_repeatable : forall st a sched, query (fst (run st sched)) a = query st a.
Proof. intros. now rewrite C18_frame. Qed.
End Frame.
Print Assumptions C18_frame.
Print Assumptions C18_schedule_independent.
Print Assumptions C18_repeatable.

(* instantiation: the query functions of the model have exactly this shape *)
From QwtModel Require Import ListX QWT Huff RSBin DArrayM.
Theorem C18_qwt_rank_shared : forall w bsize (t : qwt) (sched : list (nat * (N * N))) i,
  of_thread i (snd (run _ _ _ (fun t a => qwt_rank w bsize t (fst a) (snd a)) t sched))
  = map (fun a => qwt_rank w bsize t (fst a) (snd a)) (of_thread i sched).
Proof. intros. apply C18_schedule_independent. Qed.
Print Assumptions C18_qwt_rank_shared.
