(* C01 — Quad wavelet tree answers get/rank/select exactly for every sequence.
   Statements only, closed by [exact]; assumption audit below each. *)
From QwtModel Require Import ListX Seq Consts QVec RSQ QWT RSQBuild QWTP.

(* the contract, spelled out (identical to QWTP.qwt_spec; restated here so that it cannot be
   weakened unnoticed): len, is_empty, largest symbol, number of levels = ceil(bitlen(max)/2),
   get, rank (None for i > |S|, c > max, and on the empty sequence), rank_prefetch = rank,
   select (None for c > max / missing occurrence / empty), and the unchecked variants.
   Every right-hand side is [Val ...]: the model of the code never reaches a panic, an
   out-of-range unchecked access or an overflowing operation. *)
Definition C01_contract (w bsize : N) (t : qwt) (seq : list N) : Prop :=
  qwt_len t = len seq /\
  qwt_is_empty t = (len seq =? 0) /\
  qwt_sigma t = (if len seq =? 0 then None else Some (maxN seq)) /\
  q_n_levels t = (if len seq =? 0 then 0 else (msb (maxN seq) + 1 + 1) / 2) /\
  (forall i, qwt_get w bsize t i = Val (nthN seq i)) /\
  (forall c i, c < 2 ^ w -> qwt_rank w bsize t c i =
       Val (if negb (len seq =? 0) && (i <=? len seq) && (c <=? maxN seq) then Some (rank_spec seq c i) else None)) /\
  (forall c i, c < 2 ^ w -> qwt_rank_prefetch w bsize t c i = qwt_rank w bsize t c i) /\
  (forall c k, c < 2 ^ w -> k < 2 ^ 64 -> qwt_select w bsize t c k =
       Val (if negb (len seq =? 0) && (c <=? maxN seq) then select_spec seq c k else None)) /\
  (forall i x, nthN seq i = Some x -> qwt_get_unchecked w bsize t i = Val x) /\
  (forall c i, 0 < len seq -> c <= maxN seq -> i <= len seq ->
       qwt_rank_unchecked w bsize t c i = Val (rank_spec seq c i) /\
       qwt_rank_prefetch_unchecked w bsize t c i = Val (rank_spec seq c i)) /\
  (forall c k p, c < 2 ^ w -> select_spec seq c k = Some p -> qwt_select_unchecked w bsize t c k = Val p).

(* every sequence of every supported width, both block sizes (the Pfs aliases share this
   structure; their extra estimation phase is C09) *)
Theorem C01_qwt_correct : forall w bsize seq,
  (w = 8 \/ w = 16 \/ w = 32 \/ w = 64 \/ w = 128) -> (bsize = 256 \/ bsize = 512) ->
  Forall (fun x => x < 2 ^ w) seq -> len seq < RSQ_MAXN ->
  exists t, qwt_new w bsize seq = Val t /\ C01_contract w bsize t seq.
Proof. exact qwt_new_correct. Qed.
Print Assumptions C01_qwt_correct.

(* Default::default() *)
Theorem C01_default : forall w bsize, C01_contract w bsize qwt_default [].
Proof. exact qwt_default_correct. Qed.
Print Assumptions C01_default.

(* non-vacuity: concrete trees evaluated by vm_compute (40 symbols, w = 8, 22 queries per block
   size; and symbols above 2^64 with 64 levels) *)
Theorem C01_examples : qwt_example_checks 256 /\ qwt_example_checks 512.
Proof. exact (conj qwt_example_256 qwt_example_512). Qed.
Print Assumptions C01_examples.

From QwtModel Require Import Loops FnsQwt FnsQwtOk.

(* ---- T5: the WALKS of the quad wavelet tree REGENERATED from src/quadwt/mod.rs on every run
   (tools/gen_fns.py -> Gen/FnsQwt.v: get / rank / select with its downward and upward passes, the i64 `shift`,
   the `?` early returns and the local path vectors; element type symbolic of width w, RS = RSQVector<RSSupportPlain<B>>
   for B = 256 and 512, whose own API is regenerated too, Gen/FnsRsq.v), applied to the fields of the tree the
   hand-modelled constructor builds (`qvs` as one list per field of RSQVector: qwt_data / qwt_pos / qwt_sbs /
   qwt_samples / qwt_occs), return exactly the list specification for every sequence, symbol, position and
   occurrence index, for every fuel above the number of superblocks of a level. *)
Theorem C01_source_get_256 : forall w s t, width_ok w -> Forall (fun x => x < 2 ^ w) s -> len s < RSQ_MAXN ->
  qwt_new w 256 s = Val t -> forall i,
  g_qwt256_get w (q_n t) (q_n_levels t) (qwt_data t) (qwt_pos t) (qwt_sbs t) (qwt_occs t) i = Val (nthN s i).
Proof. exact g_qwt256_get_new. Qed.
Print Assumptions C01_source_get_256.
Theorem C01_source_get_512 : forall w s t, width_ok w -> Forall (fun x => x < 2 ^ w) s -> len s < RSQ_MAXN ->
  qwt_new w 512 s = Val t -> forall i,
  g_qwt512_get w (q_n t) (q_n_levels t) (qwt_data t) (qwt_pos t) (qwt_sbs t) (qwt_occs t) i = Val (nthN s i).
Proof. exact g_qwt512_get_new. Qed.
Print Assumptions C01_source_get_512.
Theorem C01_source_rank_256 : forall w s t, width_ok w -> Forall (fun x => x < 2 ^ w) s -> len s < RSQ_MAXN ->
  qwt_new w 256 s = Val t -> forall c i, c < 2 ^ w ->
  g_qwt256_rank w (q_n t) (q_n_levels t) (q_sigma t) (qwt_data t) (qwt_sbs t) (qwt_occs t) c i
  = Val (if negb (len s =? 0) && (i <=? len s) && (c <=? maxN s) then Some (rank_spec s c i) else None).
Proof. exact g_qwt256_rank_new. Qed.
Print Assumptions C01_source_rank_256.
Theorem C01_source_rank_512 : forall w s t, width_ok w -> Forall (fun x => x < 2 ^ w) s -> len s < RSQ_MAXN ->
  qwt_new w 512 s = Val t -> forall c i, c < 2 ^ w ->
  g_qwt512_rank w (q_n t) (q_n_levels t) (q_sigma t) (qwt_data t) (qwt_sbs t) (qwt_occs t) c i
  = Val (if negb (len s =? 0) && (i <=? len s) && (c <=? maxN s) then Some (rank_spec s c i) else None).
Proof. exact g_qwt512_rank_new. Qed.
Print Assumptions C01_source_rank_512.
Theorem C01_source_select_256 : forall w s t, width_ok w -> Forall (fun x => x < 2 ^ w) s -> len s < RSQ_MAXN ->
  qwt_new w 256 s = Val t -> forall c k fuel, c < 2 ^ w -> k < 2 ^ 64 ->
  (S (S (N.to_nat (len s / (8 * 256)))) <= fuel)%nat ->
  g_qwt256_select fuel w (q_n t) (q_n_levels t) (q_sigma t) (qwt_data t) (qwt_pos t) (qwt_sbs t) (qwt_samples t)
    (qwt_occs t) c k
  = Val (if negb (len s =? 0) && (c <=? maxN s) then select_spec s c k else None).
Proof. exact g_qwt256_select_new. Qed.
Print Assumptions C01_source_select_256.
Theorem C01_source_select_512 : forall w s t, width_ok w -> Forall (fun x => x < 2 ^ w) s -> len s < RSQ_MAXN ->
  qwt_new w 512 s = Val t -> forall c k fuel, c < 2 ^ w -> k < 2 ^ 64 ->
  (S (S (N.to_nat (len s / (8 * 512)))) <= fuel)%nat ->
  g_qwt512_select fuel w (q_n t) (q_n_levels t) (q_sigma t) (qwt_data t) (qwt_pos t) (qwt_sbs t) (qwt_samples t)
    (qwt_occs t) c k
  = Val (if negb (len s =? 0) && (c <=? maxN s) then select_spec s c k else None).
Proof. exact g_qwt512_select_new. Qed.
Print Assumptions C01_source_select_512.
Theorem C01_source_unchecked_256 : forall w s t, width_ok w -> Forall (fun x => x < 2 ^ w) s ->
  len s < RSQ_MAXN -> qwt_new w 256 s = Val t ->
  (forall c i, 0 < len s -> c <= maxN s -> i <= len s ->
     g_qwt256_rank_unchecked w (q_n_levels t) (qwt_data t) (qwt_sbs t) (qwt_occs t) c i = Val (rank_spec s c i)) /\
  (forall c k p fuel, c < 2 ^ w -> select_spec s c k = Some p -> (S (S (N.to_nat (len s / (8 * 256)))) <= fuel)%nat ->
     g_qwt256_select_unchecked fuel w (q_n t) (q_n_levels t) (q_sigma t) (qwt_data t) (qwt_pos t) (qwt_sbs t)
       (qwt_samples t) (qwt_occs t) c k = Val p).
Proof.
  intros w s t Hw HF Hn E.
  exact (conj (g_qwt256_rank_unchecked_new w s t Hw HF Hn E) (g_qwt256_select_unchecked_new w s t Hw HF Hn E)).
Qed.
Print Assumptions C01_source_unchecked_256.
Theorem C01_source_unchecked_512 : forall w s t, width_ok w -> Forall (fun x => x < 2 ^ w) s ->
  len s < RSQ_MAXN -> qwt_new w 512 s = Val t ->
  (forall c i, 0 < len s -> c <= maxN s -> i <= len s ->
     g_qwt512_rank_unchecked w (q_n_levels t) (qwt_data t) (qwt_sbs t) (qwt_occs t) c i = Val (rank_spec s c i)) /\
  (forall c k p fuel, c < 2 ^ w -> select_spec s c k = Some p -> (S (S (N.to_nat (len s / (8 * 512)))) <= fuel)%nat ->
     g_qwt512_select_unchecked fuel w (q_n t) (q_n_levels t) (q_sigma t) (qwt_data t) (qwt_pos t) (qwt_sbs t)
       (qwt_samples t) (qwt_occs t) c k = Val p).
Proof.
  intros w s t Hw HF Hn E.
  exact (conj (g_qwt512_rank_unchecked_new w s t Hw HF Hn E) (g_qwt512_select_unchecked_new w s t Hw HF Hn E)).
Qed.
Print Assumptions C01_source_unchecked_512.

(* ---- the CONSTRUCTORS regenerated from src/quadwt/mod.rs on every run (T5, Gen/FnsQwtnew.v: QWaveletTree::new as it is
   written — max, msb, per level a QVectorBuilder filled by push, RS::from, stable_partition_of_4, the shift update — and the
   thin From<Vec<T>> / FromIterator wrappers), with everything they call regenerated too (g_msb, g_stable_partition_of_4,
   g_qvb_*, g_rsqNNN_from with g_rssNNN_new below it): [qwtNNN_ctor k] is one of the three public construction paths.
   Every path, followed by the regenerated queries, is the list specification: no hand-model function occurs in the
   statements. *)
From QwtModel Require Import Loops FnsQwtnew FnsWrapQwtOk.
Theorem C01_source_constructors_256 : forall k w s, width_ok w -> Forall (fun x => x < 2 ^ w) s -> len s < RSQ_MAXN ->
  exists n nl sg d p sb sm oc,
    qwt256_ctor k w s = Val (n, nl, sg, d, p, sb, sm, oc) /\
    g_qwt256_len n = Val (len s) /\ g_qwt256_is_empty n = Val (len s =? 0) /\
    g_qwt256_n_levels nl = Val (if len s =? 0 then 0 else (msb (maxN s) + 1 + 1) / 2) /\
    (forall i, g_qwt256_get w n nl d p sb oc i = Val (nthN s i)) /\
    (forall c i, c < 2 ^ w ->
       g_qwt256_rank w n nl sg d sb oc c i
       = Val (if negb (len s =? 0) && (i <=? len s) && (c <=? maxN s) then Some (rank_spec s c i) else None)) /\
    (forall c k fuel, c < 2 ^ w -> k < 2 ^ 64 -> (S (S (N.to_nat (len s / (8 * 256)))) <= fuel)%nat ->
       g_qwt256_select fuel w n nl sg d p sb sm oc c k
       = Val (if negb (len s =? 0) && (c <=? maxN s) then select_spec s c k else None)) /\
    (forall i x, nthN s i = Some x -> g_qwt256_get_unchecked w nl d p sb oc i = Val x) /\
    (forall c i, 0 < len s -> c <= maxN s -> i <= len s ->
       g_qwt256_rank_unchecked w nl d sb oc c i = Val (rank_spec s c i)) /\
    (forall c k p' fuel, c < 2 ^ w -> select_spec s c k = Some p' ->
       (S (S (N.to_nat (len s / (8 * 256)))) <= fuel)%nat ->
       g_qwt256_select_unchecked fuel w n nl sg d p sb sm oc c k = Val p').
Proof. exact g_qwt256_ctors_correct. Qed.
Print Assumptions C01_source_constructors_256.
Theorem C01_source_constructors_512 : forall k w s, width_ok w -> Forall (fun x => x < 2 ^ w) s -> len s < RSQ_MAXN ->
  exists n nl sg d p sb sm oc,
    qwt512_ctor k w s = Val (n, nl, sg, d, p, sb, sm, oc) /\
    g_qwt512_len n = Val (len s) /\ g_qwt512_is_empty n = Val (len s =? 0) /\
    g_qwt512_n_levels nl = Val (if len s =? 0 then 0 else (msb (maxN s) + 1 + 1) / 2) /\
    (forall i, g_qwt512_get w n nl d p sb oc i = Val (nthN s i)) /\
    (forall c i, c < 2 ^ w ->
       g_qwt512_rank w n nl sg d sb oc c i
       = Val (if negb (len s =? 0) && (i <=? len s) && (c <=? maxN s) then Some (rank_spec s c i) else None)) /\
    (forall c k fuel, c < 2 ^ w -> k < 2 ^ 64 -> (S (S (N.to_nat (len s / (8 * 512)))) <= fuel)%nat ->
       g_qwt512_select fuel w n nl sg d p sb sm oc c k
       = Val (if negb (len s =? 0) && (c <=? maxN s) then select_spec s c k else None)) /\
    (forall i x, nthN s i = Some x -> g_qwt512_get_unchecked w nl d p sb oc i = Val x) /\
    (forall c i, 0 < len s -> c <= maxN s -> i <= len s ->
       g_qwt512_rank_unchecked w nl d sb oc c i = Val (rank_spec s c i)) /\
    (forall c k p' fuel, c < 2 ^ w -> select_spec s c k = Some p' ->
       (S (S (N.to_nat (len s / (8 * 512)))) <= fuel)%nat ->
       g_qwt512_select_unchecked fuel w n nl sg d p sb sm oc c k = Val p').
Proof. exact g_qwt512_ctors_correct. Qed.
Print Assumptions C01_source_constructors_512.
Theorem C01_source_new_fields_256 : forall wT seq t, width_ok wT -> Forall (fun x => x < 2 ^ wT) seq -> len seq < RSQ_MAXN ->
  qwt_new wT 256 seq = Val t ->
  exists seq', g_qwt256_new wT seq = Val (seq', (q_n t, q_n_levels t, q_sigma t, qwt_data t, qwt_pos t, qwt_sbs t, qwt_samples t, qwt_occs t))
    /\ Permutation.Permutation seq seq'.
Proof. exact g_qwt256_new_sim_closed. Qed.
Print Assumptions C01_source_new_fields_256.
Theorem C01_source_new_fields_512 : forall wT seq t, width_ok wT -> Forall (fun x => x < 2 ^ wT) seq -> len seq < RSQ_MAXN ->
  qwt_new wT 512 seq = Val t ->
  exists seq', g_qwt512_new wT seq = Val (seq', (q_n t, q_n_levels t, q_sigma t, qwt_data t, qwt_pos t, qwt_sbs t, qwt_samples t, qwt_occs t))
    /\ Permutation.Permutation seq seq'.
Proof. exact g_qwt512_new_sim_closed. Qed.
Print Assumptions C01_source_new_fields_512.
