(* C14 — Plain trees and rank/select vectors stay within their stated space overhead.
   Closed-form bounds on the heap bytes retained by the model state (Model/Space.v: sum over the
   boxed slices / vectors of element count x element size; inline struct sizes abi64 are
   measured by the harness), for every input.  The harness checks on every case that the bytes
   actually live after construction (counting allocator; every construction path) equal the
   model's value.  Allocator rounding is outside the model.  Statements only. *)
From QwtModel Require Import ListX Seq Consts QVec RSQ QWT BitVec RSBin Prefetch Space RSQBuild QWTP RSBinB SpaceP.
From QwtModel Require Import Words Huff.
From QwtModel Require WrapP BinWTP.

(* one level: n/4 bytes of symbols (2 bits each, 64-byte lines) + one 64-byte superblock record
   per 8 blocks (12.5% for block size 256, 6.25% for 512) + select samples (n/2048) + constant *)
Theorem C14_rsq : forall bsize vs r, (bsize = 256 \/ bsize = 512) -> len vs < RSQ_MAXN -> rsq_new bsize vs = Val r ->
  rsq_heap r <= len vs / 4 + 64 + (len vs / (8 * bsize) + 1) * 64 + (len vs / 2048 + 32).
Proof. exact rsq_heap_bound. Qed.
Print Assumptions C14_rsq.

(* the tree: L = ceil(bitlen(max)/2) levels; (1 + r) * n/4 bytes per level, r = 1/8 or 1/16 *)
Theorem C14_qwt : forall w bsize seq t, width_ok w -> (bsize = 256 \/ bsize = 512) ->
  Forall (fun x => x < 2 ^ w) seq -> len seq < RSQ_MAXN -> qwt_new w bsize seq = Val t ->
  qwt_heap abi64 t None <= levels_of seq * (len seq / 4 + len seq / (bsize / 8) + len seq / 2048 + 304).
Proof. exact qwt_heap_bound. Qed.
Print Assumptions C14_qwt.

(* prefetch support adds n/2048 + a constant per level: well under 1% of n/4 *)
Theorem C14_qwt_pfs : forall w bsize seq t ps, width_ok w -> (bsize = 256 \/ bsize = 512) ->
  Forall (fun x => x < 2 ^ w) seq -> len seq < RSQ_MAXN -> qwt_new w bsize seq = Val t -> qwt_pfs_new w seq = Val ps ->
  qwt_heap abi64 t (Some ps) <= levels_of seq * (len seq / 4 + len seq / (bsize / 8) + len seq / 2048 + 304 + (len seq / 2048 + 1056)).
Proof. exact qwt_pfs_heap_bound. Qed.
Print Assumptions C14_qwt_pfs.

(* RSWide (level of the binary tree): n/8 bytes of bits + one u128 per 4096 bits + hints: < 1.05 n/8 + c *)
Theorem C14_rswide : forall bv r, bv_wf bv -> rsw_new bv = Val r ->
  rsw_heap r <= bv_nbits bv / 8 + 64 + (bv_nbits bv / 4096 + 2) * 16 + (bv_nbits bv / 8192 + 5) * 8.
Proof. exact rsw_heap_bound. Qed.
Print Assumptions C14_rswide.
Theorem C14_rsnarrow : forall bv r, bv_wf bv -> rsn_new bv = Val r ->
  rsn_heap r <= bv_nbits bv / 8 + 64 + (bv_nbits bv / 512 + 3) * 16 + (bv_nbits bv / 1024 + 5) * 8.
Proof. exact rsn_heap_bound. Qed.
Print Assumptions C14_rsnarrow.
(* exact size of one level (no slack): what a retained Vec capacity or a doubled array would break *)
Theorem C14_rsq_exact : forall bsize vs r, (bsize = 256 \/ bsize = 512) -> len vs < RSQ_MAXN -> rsq_new bsize vs = Val r ->
  rsq_heap r = 64 * ((len vs + 255) / 256) + 64 * (len vs / (8 * bsize) + 1) + 4 * sample_entries (map QVecP.sym4 vs) /\
  len (rs_samples (rsq_rs r)) = 4.
Proof. exact rsq_heap_exact. Qed.
Print Assumptions C14_rsq_exact.

(* the binary wavelet tree: bitlen(max) levels, each n/8 bytes of bits + one u128 per 4096 bits
   + one hint per 8192 + constant: 1 + 16/512 + 8/1024 < 1.05 times n * bitlen(m) bits, plus a
   per-level term (the bound is attained: WrapP.wt_heap_bound_attained) *)
Theorem C14_wt : forall w seq t, BinWTP.width_ok w -> Forall (fun x => x < 2 ^ w) seq ->
  len seq < RSQ_MAXN -> seq <> [] -> wt_build w false seq [] = Val t ->
  wt_heap_plain abi64 t <=
  (msb (maxN seq) + 1) * (len seq / 8 + (len seq / 4096) * 16 + (len seq / 8192) * 8 + 232).
Proof. exact WrapP.wt_heap_bound. Qed.
Print Assumptions C14_wt.
Theorem C14_wt_empty : forall w compressed tab t, wt_build w compressed [] tab = Val t ->
  wt_heap_plain abi64 t = 0.
Proof. exact WrapP.wt_heap_empty. Qed.
Print Assumptions C14_wt_empty.
(* Huffman-shaped binary tree: level-wise, in terms of the level lengths (whose sum is
   sum_c f_c * len_c: C15) *)
Theorem C14_hwt_levelwise : forall w seq tab t, len seq < RSQ_MAXN -> seq <> [] ->
  wt_build w true seq tab = Val t ->
  len (w_lens t) = maxN (map pc_len tab) /\
  map (fun r => bv_len (rsw_bv r)) (w_bvs t) = w_lens t /\
  Forall (fun ln => ln <= len seq) (w_lens t) /\
  wt_heap_plain abi64 t <= sumN (map (fun n => n / 8 + (n / 4096) * 16 + (n / 8192) * 8 + 232) (w_lens t)).
Proof. exact WrapP.hwt_heap_bound. Qed.
Print Assumptions C14_hwt_levelwise.
