(* C03 (second file) — the WALKS of the binary wavelet trees REGENERATED from src/binwt/mod.rs on every run
   (tools/gen_fns.py -> Gen/FnsWt.v: WaveletTree<T, RSWide, COMPRESSED> monomorphised for COMPRESSED = false (functions g_wt_..)
   and true (functions g_hwt_..), the dead arm of every `if COMPRESSED` pruned; element type symbolic; the RSWide API below them
   regenerated too, Gen/FnsRsw2.v incl. the provided methods RankBin::rank0 / rank0_unchecked of src/lib.rs), applied to
   the fields of the tree the hand-modelled builder constructs (`bvs` as one list per field of RSWide: wt_data /
   wt_nbits / wt_meta / wt_samples / wt_nzeros): they return exactly what the C03 contracts state, for every sequence,
   every compatible code table, every symbol / position / occurrence index, and every fuel above the directory size.
   Statements only, closed by [exact]. *)
From QwtModel Require Import ListX Loops Seq Consts Words BitVec RSBin QWT Huff RSQBuild.
From QwtModel Require Import FnsBv FnsRsw2 FnsWt FnsWtOk C03.

Theorem C03_source_wt_get : forall w seq t,
  (w = 8 \/ w = 16 \/ w = 32 \/ w = 64 \/ w = 128) -> Forall (fun x => x < 2 ^ w) seq ->
  len seq < RSQ_MAXN -> wt_build w false seq [] = Val t -> forall i,
  g_wt_get w (w_n t) (w_n_levels t) (wt_data t) (wt_meta t) (wt_nzeros t) i = Val (nthN seq i).
Proof. exact g_wt_get_built. Qed.
Print Assumptions C03_source_wt_get.
Theorem C03_source_wt_rank : forall w seq t,
  (w = 8 \/ w = 16 \/ w = 32 \/ w = 64 \/ w = 128) -> Forall (fun x => x < 2 ^ w) seq ->
  len seq < RSQ_MAXN -> wt_build w false seq [] = Val t -> forall c i, c < 2 ^ w ->
  g_wt_rank w (w_n t) (w_n_levels t) (w_sigma t) (wt_data t) (wt_meta t) (wt_nzeros t) c i
  = Val (if negb (len seq =? 0) && (i <=? len seq) && (c <=? maxN seq) then Some (rank_spec seq c i) else None).
Proof. exact g_wt_rank_built. Qed.
Print Assumptions C03_source_wt_rank.
Theorem C03_source_wt_select : forall w seq t,
  (w = 8 \/ w = 16 \/ w = 32 \/ w = 64 \/ w = 128) -> Forall (fun x => x < 2 ^ w) seq ->
  len seq < RSQ_MAXN -> wt_build w false seq [] = Val t ->
  forall c k fuel, c < 2 ^ w -> k < 2 ^ 64 -> (N.to_nat (len seq / 4096) + 3 <= fuel)%nat ->
  g_wt_select fuel w (w_n t) (w_n_levels t) (w_sigma t) (wt_data t) (wt_nbits t) (wt_meta t) (wt_samples t)
    (wt_nzeros t) c k
  = Val (if negb (len seq =? 0) && (c <=? maxN seq) then select_spec seq c k else None).
Proof. exact g_wt_select_built. Qed.
Print Assumptions C03_source_wt_select.
Theorem C03_source_wt_unchecked : forall w seq t,
  (w = 8 \/ w = 16 \/ w = 32 \/ w = 64 \/ w = 128) -> Forall (fun x => x < 2 ^ w) seq ->
  len seq < RSQ_MAXN -> wt_build w false seq [] = Val t ->
  (forall c i, 0 < len seq -> c <= maxN seq -> i <= len seq ->
     g_wt_rank_unchecked w (w_n_levels t) (wt_data t) (wt_meta t) (wt_nzeros t) c i = Val (rank_spec seq c i)) /\
  (forall c k p fuel, c < 2 ^ w -> select_spec seq c k = Some p -> (N.to_nat (len seq / 4096) + 3 <= fuel)%nat ->
     g_wt_select_unchecked fuel w (w_n t) (w_n_levels t) (w_sigma t) (wt_data t) (wt_nbits t) (wt_meta t) (wt_samples t)
       (wt_nzeros t) c k = Val p).
Proof.
  intros w seq t Hw HF Hn E.
  exact (conj (g_wt_rank_unchecked_built w seq t Hw HF Hn E) (g_wt_select_unchecked_built w seq t Hw HF Hn E)).
Qed.
Print Assumptions C03_source_wt_unchecked.

Theorem C03_source_hwt_get : forall w seq tab t,
  (w = 8 \/ w = 16 \/ w = 32 \/ w = 64 \/ w = 128) -> Forall (fun x => x < 2 ^ w) seq ->
  len seq < RSQ_MAXN -> seq <> [] -> C03_table_ok seq tab -> wt_build w true seq tab = Val t ->
  forall i,
  g_hwt_get w (w_n t) (w_n_levels t) (w_decode t) (wt_data t) (wt_meta t) (wt_nzeros t) (w_lens t) i
  = Val (nthN seq i).
Proof. exact g_hwt_get_built. Qed.
Print Assumptions C03_source_hwt_get.
Theorem C03_source_hwt_rank : forall w seq tab t,
  (w = 8 \/ w = 16 \/ w = 32 \/ w = 64 \/ w = 128) -> Forall (fun x => x < 2 ^ w) seq ->
  len seq < RSQ_MAXN -> seq <> [] -> C03_table_ok seq tab -> wt_build w true seq tab = Val t ->
  forall c i, c < 2 ^ w ->
  g_hwt_rank w (w_n t) (wt_enc_content t) (wt_enc_len t) (wt_data t) (wt_meta t) (wt_nzeros t) c i
  = Val (if (i <=? len seq) && (0 <? countN c seq) then Some (rank_spec seq c i) else None).
Proof. exact g_hwt_rank_built. Qed.
Print Assumptions C03_source_hwt_rank.
Theorem C03_source_hwt_select : forall w seq tab t,
  (w = 8 \/ w = 16 \/ w = 32 \/ w = 64 \/ w = 128) -> Forall (fun x => x < 2 ^ w) seq ->
  len seq < RSQ_MAXN -> seq <> [] -> C03_table_ok seq tab -> wt_build w true seq tab = Val t ->
  forall c k fuel, c < 2 ^ w -> k < 2 ^ 64 -> (N.to_nat (len seq / 4096) + 3 <= fuel)%nat ->
  g_hwt_select fuel w (w_n t) (wt_enc_content t) (wt_enc_len t) (wt_data t) (wt_nbits t) (wt_meta t) (wt_samples t)
    (wt_nzeros t) c k
  = Val (select_spec seq c k).
Proof. exact g_hwt_select_built. Qed.
Print Assumptions C03_source_hwt_select.
Theorem C03_source_hwt_unchecked : forall w seq tab t,
  (w = 8 \/ w = 16 \/ w = 32 \/ w = 64 \/ w = 128) -> Forall (fun x => x < 2 ^ w) seq ->
  len seq < RSQ_MAXN -> seq <> [] -> C03_table_ok seq tab -> wt_build w true seq tab = Val t ->
  (forall c i, 0 < countN c seq -> i <= len seq ->
     g_hwt_rank_unchecked w (wt_enc_content t) (wt_enc_len t) (wt_data t) (wt_meta t) (wt_nzeros t) c i
     = Val (rank_spec seq c i)) /\
  (forall c k p fuel, c < 2 ^ w -> select_spec seq c k = Some p -> (N.to_nat (len seq / 4096) + 3 <= fuel)%nat ->
     g_hwt_select_unchecked fuel w (w_n t) (wt_enc_content t) (wt_enc_len t) (wt_data t) (wt_nbits t) (wt_meta t)
       (wt_samples t) (wt_nzeros t) c k = Val p) /\
  (forall c, c < 2 ^ w -> g_hwt_has_code w (wt_enc_content t) (wt_enc_len t) c = Val (0 <? countN c seq)).
Proof.
  intros w seq tab t Hw HF Hn Hne Ht E.
  exact (conj (g_hwt_rank_unchecked_built w seq tab t Hw HF Hn Hne Ht E)
          (conj (g_hwt_select_unchecked_built w seq tab t Hw HF Hn Hne Ht E)
                (g_hwt_has_code_built w seq tab t Hw HF Hn Hne Ht E))).
Qed.
Print Assumptions C03_source_hwt_unchecked.

(* ---- the CONSTRUCTOR of the plain binary tree REGENERATED from src/binwt/mod.rs on every run (T5, Gen/FnsWtnew.v:
   WaveletTree::<T, RSWide, false>::new as it is written: max, msb, one BitVectorMut per level filled by push, BitVector::from,
   RSWide::from, stable_partition_of_2, the levels kept as one list per field of RSWide), with everything it calls regenerated
   too (g_msb, g_stable_partition_of_2, g_bvm_push, g_rsw_new): it returns exactly the fields of the tree the hand-modelled
   builder constructs (and a permutation of the input slice), so the regenerated constructor followed by the regenerated
   queries is the list specification: no hand-model function in the conclusion of [C03_source_wt_new_correct]. *)
From QwtModel Require Import FnsUtils FnsBvm FnsWtnew FnsWtNewOk.
From Coq Require Import Permutation.
Theorem C03_source_wt_new : forall wT seq t,
  (wT = 8 \/ wT = 16 \/ wT = 32 \/ wT = 64 \/ wT = 128) -> Forall (fun x => x < 2 ^ wT) seq ->
  len seq < 2 ^ 43 -> wt_build wT false seq [] = Val t ->
  exists seq', Permutation seq seq' /\
    g_wt_new wT seq =
    Val (seq', (w_n t, w_n_levels t, w_sigma t, None, None, None,
                wt_data t, wt_nbits t, map (fun r => bv_nones (rsw_bv r)) (w_bvs t),
                wt_meta t, wt_samples t, wt_nzeros t, w_lens t)).
Proof. exact g_wt_new_sim_closed. Qed.
Print Assumptions C03_source_wt_new.
Theorem C03_source_wt_new_correct : forall w seq,
  (w = 8 \/ w = 16 \/ w = 32 \/ w = 64 \/ w = 128) -> Forall (fun x => x < 2 ^ w) seq ->
  len seq < RSQBuild.RSQ_MAXN ->
  exists seq' n nl sg data nbits nones meta samples nzeros lens,
    Permutation seq seq' /\
    g_wt_new w seq = Val (seq', (n, nl, sg, None, None, None, data, nbits, nones, meta, samples, nzeros, lens)) /\
    g_wt_len n = Val (len seq) /\ g_wt_is_empty n = Val (len seq =? 0) /\
    g_wt_n_levels nl = Val (if len seq =? 0 then 0 else msb (maxN seq) + 1) /\
    (forall i, g_wt_get w n nl data meta nzeros i = Val (nthN seq i)) /\
    (forall i x, nthN seq i = Some x -> g_wt_get_unchecked w nl data meta nzeros i = Val x) /\
    (forall c i, c < 2 ^ w ->
       g_wt_rank w n nl sg data meta nzeros c i
       = Val (if negb (len seq =? 0) && (i <=? len seq) && (c <=? maxN seq) then Some (rank_spec seq c i) else None)) /\
    (forall c i, 0 < len seq -> c <= maxN seq -> i <= len seq ->
       g_wt_rank_unchecked w nl data meta nzeros c i = Val (rank_spec seq c i)) /\
    (forall c k fuel, c < 2 ^ w -> k < 2 ^ 64 -> (N.to_nat (len seq / 4096) + 3 <= fuel)%nat ->
       g_wt_select fuel w n nl sg data nbits meta samples nzeros c k
       = Val (if negb (len seq =? 0) && (c <=? maxN seq) then select_spec seq c k else None)) /\
    (forall c k p fuel, c < 2 ^ w -> select_spec seq c k = Some p -> (N.to_nat (len seq / 4096) + 3 <= fuel)%nat ->
       g_wt_select_unchecked fuel w n nl sg data nbits meta samples nzeros c k = Val p).
Proof. exact g_wt_new_correct_closed. Qed.
Print Assumptions C03_source_wt_new_correct.

(* every public construction path of the plain binary tree (new / From<Vec<T>> / FromIterator, regenerated), followed by the
   regenerated queries *)
From QwtModel Require Import FnsWrapWtOk.
Theorem C03_source_wt_constructors : forall k w seq,
  (w = 8 \/ w = 16 \/ w = 32 \/ w = 64 \/ w = 128) -> Forall (fun x => x < 2 ^ w) seq ->
  len seq < RSQBuild.RSQ_MAXN ->
  exists n nl sg data nbits nones meta samples nzeros lens,
    wt_ctor k w seq = Val (n, nl, sg, None, None, None, data, nbits, nones, meta, samples, nzeros, lens) /\
    g_wt_len n = Val (len seq) /\ g_wt_is_empty n = Val (len seq =? 0) /\
    (forall i, g_wt_get w n nl data meta nzeros i = Val (nthN seq i)) /\
    (forall c i, c < 2 ^ w ->
       g_wt_rank w n nl sg data meta nzeros c i
       = Val (if negb (len seq =? 0) && (i <=? len seq) && (c <=? maxN seq) then Some (rank_spec seq c i) else None)) /\
    (forall c k fuel, c < 2 ^ w -> k < 2 ^ 64 -> (N.to_nat (len seq / 4096) + 3 <= fuel)%nat ->
       g_wt_select fuel w n nl sg data nbits meta samples nzeros c k
       = Val (if negb (len seq =? 0) && (c <=? maxN seq) then select_spec seq c k else None)).
Proof. exact g_wt_ctors_correct. Qed.
Print Assumptions C03_source_wt_constructors.

(* ---- the code assignment of the Huffman-shaped binary tree, craft_wm_codes of src/binwt/mod.rs, REGENERATED as written (T5,
   Gen/FnsCraft2.v: the hash map as the list of its pairs in ANY iteration order, the stable sort by length, the in-place
   expansion of the fixed-size scratch array, the bit reversal, the table as two lists): whenever the hand model (which takes
   the sorted list and keeps the live prefix of the scratch array as a growing list) returns a table, the regenerated function
   returns the same table; hence for every admissible request and every iteration order it returns a compatible table.
   The converse fails on infeasible length profiles (Kraft sum > 1), where the source reads untouched zeros of the scratch
   array and returns clashing codes while the hand model faults: Proofs/FnsCraft2Ok.v, g_craft2_infeasible_111. *)
From QwtModel Require Import Loops Codes CraftP FnsCraft2 FnsCraft2Ok.
Theorem C03_source_craft2_sim : forall fuel freq sigma tab,
  len freq < 2 ^ 63 -> sigma + 1 < 2 ^ 64 -> (40 <= fuel)%nat ->
  craft2 (sort_by_snd freq) sigma = Val tab ->
  g_craft_wm_codes2 fuel freq sigma = Val (map pc_content tab, map pc_len tab).
Proof. exact g_craft2_sim. Qed.
Print Assumptions C03_source_craft2_sim.
Theorem C03_source_craft2_end_to_end : forall fuel freq sigma,
  NoDup (map fst freq) -> Forall (fun p => fst p <= sigma /\ 0 < snd p /\ snd p <= 32) freq ->
  craft_fits 1 (sort_by_snd freq) (N.max (len freq) 2) = true ->
  len freq < 2 ^ 63 -> sigma + 1 < 2 ^ 64 -> (40 <= fuel)%nat ->
  exists tab, g_craft_wm_codes2 fuel freq sigma = Val (map pc_content tab, map pc_len tab) /\
    len tab = sigma + 1 /\
    (forall sym l, In (sym, l) freq -> exists c, nthN tab sym = Some c /\ pc_len c = l /\ code_wf 1 c = true) /\
    (forall sym, ~ In sym (map fst freq) -> sym <= sigma -> nthN tab sym = Some pc_zero) /\
    code_wm_ok 1 tab (map fst (sort_by_snd freq)) = true.
Proof. exact g_craft2_end_to_end_map. Qed.
Print Assumptions C03_source_craft2_end_to_end.
