(* C12 — Iterators yield exactly the indexed sequence, from both ends, with exact length.
   Statements only, closed by [exact].  deque_run (Model/Iter.v) is the specification: a deque
   over the not-yet-yielded elements; wtit_run runs the model of WTIterator over a call history. *)
From QwtModel Require Import ListX Seq Iter QVec QWT Huff BitVec QVecP QWTP HQWTP BitVecP IterP.
From QwtModel Require BinWTP WrapP RSQBuild.

(* every finite history of next / next_back / len, including calls after exhaustion *)
Theorem C12_tree_iterator_histories : forall (get_u : N -> outcome N) (s : list N),
  len s < 2 ^ 64 -> (forall i x, nthN s i = Some x -> get_u i = Val x) ->
  forall h, wtit_run get_u (wtit_new (len s)) h = Val (deque_run s h).
Proof. exact wtit_run_correct. Qed.
Print Assumptions C12_tree_iterator_histories.
Theorem C12_forward : forall (get_u : N -> outcome N) (s : list N),
  len s < 2 ^ 64 -> (forall i x, nthN s i = Some x -> get_u i = Val x) ->
  forall k, wtit_run get_u (wtit_new (len s)) (repeat INext (length s + k)) = Val (map OSome s ++ repeat ONone k).
Proof. exact wtit_forward. Qed.
Print Assumptions C12_forward.
Theorem C12_backward : forall (get_u : N -> outcome N) (s : list N),
  len s < 2 ^ 64 -> (forall i x, nthN s i = Some x -> get_u i = Val x) ->
  forall k, wtit_run get_u (wtit_new (len s)) (repeat IBack (length s + k)) = Val (map OSome (rev s) ++ repeat ONone k).
Proof. exact wtit_backward. Qed.
Print Assumptions C12_backward.
(* once None, always None, and the remaining length is 0 *)
Theorem C12_fused : forall (get_u : N -> outcome N) (s : list N),
  len s < 2 ^ 64 -> (forall i x, nthN s i = Some x -> get_u i = Val x) ->
  forall h1 op h2 out, wtit_run get_u (wtit_new (len s)) (h1 ++ op :: h2) = Val out ->
  nth_error out (length h1) = Some ONone -> skipn (S (length h1)) out = map exhausted_out h2.
Proof. exact wtit_fused. Qed.
Print Assumptions C12_fused.
(* len() = number of elements not yet yielded, at every step *)
Theorem C12_len_exact : forall (get_u : N -> outcome N) (s : list N),
  len s < 2 ^ 64 -> (forall i x, nthN s i = Some x -> get_u i = Val x) ->
  forall h out k n, wtit_run get_u (wtit_new (len s)) h = Val out ->
  nth_error out k = Some (OLen n) -> n = len s - count_some (firstn k out).
Proof. exact wtit_len_exact. Qed.
Print Assumptions C12_len_exact.
(* instantiated for the trees *)
Theorem C12_qwt : forall w bsize t seq, qwt_spec w bsize t seq -> len seq < 2 ^ 64 ->
  forall h, wtit_run (qwt_get_unchecked w bsize t) (wtit_new (qwt_len t)) h = Val (deque_run seq h).
Proof. exact qwt_iter_correct. Qed.
Print Assumptions C12_qwt.
Theorem C12_hqwt : forall w bsize t seq, hq_spec w bsize t seq -> len seq < 2 ^ 64 ->
  forall h, wtit_run (hq_get_unchecked w bsize t) (wtit_new (hq_len t)) h = Val (deque_run seq h).
Proof. exact hq_iter_correct. Qed.
Print Assumptions C12_hqwt.
(* quad vector iterator (borrowing and consuming share the code) *)
Theorem C12_qvector : forall vs, exists q, qv_from_iter vs = Val q /\
  forall i, i < 2 ^ 64 - 1 -> qvit_next q i = Val (nthN (stored vs) i, i + 1).
Proof. intros vs. destruct (qv_from_iter_correct vs) as (q & E & _ & _ & _ & H). exists q. split; [exact E|exact H]. Qed.
Print Assumptions C12_qvector.
(* bit vector iterators: borrowing (with exact len), consuming (fixed: len no longer underflows), positions *)
Theorem C12_bits : forall b i, bv_inv b ->
  bvit_next b i = Val (nthN (bv_abs b) i, if i <? len (bv_abs b) then i + 1 else i) /\
  (i <= len (bv_abs b) -> bvit_len b i = Val (len (bv_abs b) - i)).
Proof. exact bvit_correct. Qed.
Print Assumptions C12_bits.
Theorem C12_bits_into : forall b i, bv_inv b ->
  bvinto_next b i = Val (nthN (bv_abs b) i, if i <? len (bv_abs b) then i + 1 else i).
Proof. exact bvinto_correct. Qed.
Print Assumptions C12_bits_into.
Theorem C12_example : deque_run [10;20;30] [INext; ILen; IBack; IBack; ILen; INext; IBack; ILen]
  = [OSome 10; OLen 2; OSome 30; OSome 20; OLen 0; ONone; ONone; OLen 0].
Proof. exact deque_example. Qed.
Print Assumptions C12_example.

(* the binary trees WT / HWT: the same iterator state machine over their get_unchecked *)
Theorem C12_wt : forall w t seq, BinWTP.wt_spec w t seq -> len seq < 2 ^ 64 ->
  forall h, wtit_run (wt_get_unchecked w false t) (wtit_new (w_n t)) h = Val (deque_run seq h).
Proof. exact WrapP.wt_iter_correct. Qed.
Print Assumptions C12_wt.
Theorem C12_hwt : forall w t seq, BinWTP.hwt_spec w t seq -> len seq < 2 ^ 64 ->
  forall h, wtit_run (wt_get_unchecked w true t) (wtit_new (w_n t)) h = Val (deque_run seq h).
Proof. exact WrapP.hwt_iter_correct. Qed.
Print Assumptions C12_hwt.
(* from the constructor: iterating a freshly built plain binary tree *)
Theorem C12_wt_new : forall w seq, BinWTP.width_ok w -> Forall (fun x => x < 2 ^ w) seq -> len seq < RSQBuild.RSQ_MAXN ->
  exists t, wt_build w false seq [] = Val t /\
    forall h, wtit_run (wt_get_unchecked w false t) (wtit_new (w_n t)) h = Val (deque_run seq h).
Proof. exact WrapP.wt_new_iter. Qed.
Print Assumptions C12_wt_new.

(* ---- the borrowing bit iterator REGENERATED from src/bitvector/mod.rs (T5, Gen/FnsIters.v: BitVectorIter::next / len):
   the i-th call returns the i-th bit and then None for ever, len is exact *)
From QwtModel Require Import Loops BitVecW FnsIters FnsItersOk.
Theorem C12_source_bits : forall b i, bv_inv b ->
  g_bvit_next (bv_words b) (bv_nbits b) i =
    Val (bv_words b, bv_nbits b, (if i <? len (bv_abs b) then i + 1 else i), nthN (bv_abs b) i) /\
  (i <= len (bv_abs b) -> g_bvit_len (bv_nbits b) i = Val (len (bv_abs b) - i)).
Proof. exact g_bvit_correct. Qed.
Print Assumptions C12_source_bits.
Theorem C12_source_bits_next : forall b i, i < 2 ^ 64 - 1 ->
  g_bvit_next (bv_words b) (bv_nbits b) i =
  let! (v, i') := bvit_next b i in Val (bv_words b, bv_nbits b, i', v).
Proof. exact g_bvit_next_ok. Qed.
Print Assumptions C12_source_bits_next.
Theorem C12_source_positions_total : forall bit b st fuel, bv_inv b -> pi_reach b st ->
  (S (length (bv_words b)) <= fuel)%nat ->
  exists cp' cwp' cw',
  g_pi_next bit fuel (bv_words b) (bv_nbits b) (pi_cur_position st) (pi_cur_word_pos st) (pi_cur_word st) =
  Val (bv_words b, bv_nbits b, cp', cwp', cw', fst (pi_next bit b st)).
Proof. exact g_pi_next_total. Qed.
Print Assumptions C12_source_positions_total.

(* bv.iter() (regenerated) then next / len (regenerated) *)
From QwtModel Require Import FnsIterCtorsOk.
Theorem C12_source_bits_public : forall b, bv_inv b ->
  g_bv_iter (chunks 8 (bv_words b)) (bv_nbits b) = Val (bv_words b, bv_nbits b, 0) /\
  g_bvm_iter (chunks 8 (bv_words b)) (bv_nbits b) = Val (bv_words b, bv_nbits b, 0) /\
  forall i, g_bvit_next (bv_words b) (bv_nbits b) i
            = Val (bv_words b, bv_nbits b, (if i <? len (bv_abs b) then i + 1 else i), nthN (bv_abs b) i) /\
            (i <= len (bv_abs b) -> g_bvit_len (bv_nbits b) i = Val (len (bv_abs b) - i)).
Proof. exact g_bv_iter_public. Qed.
Print Assumptions C12_source_bits_public.

(* the owning bit iterator BitVectorIntoIter::next / len regenerated (KF-era fix included: len no longer underflows) *)
From QwtModel Require Import FnsBvIntoOk.
Theorem C12_source_bits_into : forall b i, bv_inv b ->
  g_bvinto_next (chunks 8 (bv_words b)) (bv_nbits b) (bv_nones b) i
  = Val (chunks 8 (bv_words b), bv_nbits b, bv_nones b, (if i <? len (bv_abs b) then i + 1 else i), nthN (bv_abs b) i) /\
  (i <= len (bv_abs b) -> g_bvinto_len (bv_nbits b) i = Val (len (bv_abs b) - i)).
Proof. exact g_bvinto_correct. Qed.
Print Assumptions C12_source_bits_into.
