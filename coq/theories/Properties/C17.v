(* C17 — Word-level primitives meet their contracts for all words.
   Statements only, closed by [exact].  The functions are the straight-line leaves of
   src/utils/mod.rs modelled in Model/Words.v with explicit wrap/overflow points; the 2048-entry
   table and every literal constant are regenerated from the Rust source on every run. *)
From QwtModel Require Import ListX Seq Consts SelTable Words QWT Huff WordsP QWTP BinWTP.

(* the in-byte table is the in-byte select, for all 256 x 8 entries (complete enumeration) *)
Theorem C17_table : forall b r, b < 256 -> r < 8 ->
  nthN sel_table (b + 256 * r) = Some (match select_spec (bits_of 8 b) 1 r with Some p => p | None => 8 end).
Proof. exact sel_table_ok. Qed.
Print Assumptions C17_table.

(* all 2^64 words, all k < 128 (the property asks k < 64): position of the (k+1)-th set bit,
   64 if there is none; never a fault (no overflow, no table index out of range) *)
Theorem C17_select_in_word : forall w k, w < 2 ^ 64 -> k < 128 ->
  select_in_word w k = Val (match select_spec (bits_of 64 w) 1 k with Some p => p | None => 64 end).
Proof. exact select_in_word_correct. Qed.
Print Assumptions C17_select_in_word.

Theorem C17_select_in_word_u128 : forall w k, w < 2 ^ 128 -> k < 128 ->
  select_in_word_u128 w k = Val (match select_spec (bits_of 128 w) 1 k with Some p => p | None => 128 end).
Proof. exact select_in_word_u128_correct. Qed.
Print Assumptions C17_select_in_word_u128.

Theorem C17_popcount : forall n x, x < 2 ^ N.of_nat n -> popcount x = countN 1 (bits_of n x).
Proof. exact popcount_correct. Qed.
Print Assumptions C17_popcount.
Theorem C17_popcnt_wide : forall n data, Forall (fun x => x < 2 ^ 64) data ->
  popcnt_wide n data = countN 1 (concat (map (bits_of 64) (firstn n data))).
Proof. exact popcnt_wide_bits. Qed.
Print Assumptions C17_popcnt_wide.

Theorem C17_msb : forall w v, 0 < w -> v < 2 ^ w ->
  msb_w w v = Val (if v =? 0 then 0 else N.log2 v) /\ (v <> 0 -> 2 ^ N.log2 v <= v < 2 ^ (N.log2 v + 1)).
Proof. exact msb_w_correct. Qed.
Print Assumptions C17_msb.

(* the partitions: the output is the concatenation of the groups in increasing order of the
   two bits (one bit) at the given shift, each group in input order *)
Theorem C17_partition4 : forall w seq shift, QWTP.width_ok w -> shift < w -> Forall (fun x => x < 2 ^ w) seq ->
  stable_partition_of_4 w seq shift =
  Val (concat (map (fun d => filter (fun x => (x / 2 ^ shift) mod 4 =? d) seq) [0;1;2;3])).
Proof. exact stable_partition_of_4_correct. Qed.
Print Assumptions C17_partition4.
Theorem C17_partition2 : forall w seq shift, BinWTP.width_ok w -> shift < w -> Forall (fun x => x < 2 ^ w) seq ->
  stable_partition_of_2 w seq shift =
  Val (filter (fun x => (x / 2 ^ shift) mod 2 =? 0) seq ++ filter (fun x => (x / 2 ^ shift) mod 2 =? 1) seq).
Proof. exact stable_partition_of_2_correct. Qed.
Print Assumptions C17_partition2.

(* ---- property-level consequences (Proofs/UtilsP.v) ---- *)
From Coq Require Import Permutation Sorted.
From QwtModel Require Import Remap UtilsP.
(* select_in_word in the property's own words: the bit is set and exactly k set bits lie below it *)
Theorem C17_select_in_word_meaning : forall w k, w < 2 ^ 64 -> k < 64 ->
  exists p, select_in_word w k = Val p /\
    (k < popcount w -> p < 64 /\ N.testbit w p = true /\ popcount (w mod 2 ^ p) = k) /\
    (popcount w <= k -> p = 64).
Proof. exact select_in_word_property. Qed.
Print Assumptions C17_select_in_word_meaning.
(* the partitions return a permutation, grouped in increasing key order, stable inside each group *)
Theorem C17_partition4_contract : forall w seq shift, QWTP.width_ok w -> shift < w -> Forall (fun x => x < 2 ^ w) seq ->
  exists out, stable_partition_of_4 w seq shift = Val out /\ Permutation seq out /\
    StronglySorted (fun x y => (x / 2 ^ shift) mod 4 <= (y / 2 ^ shift) mod 4) out /\
    forall d, filter (fun x => (x / 2 ^ shift) mod 4 =? d) out = filter (fun x => (x / 2 ^ shift) mod 4 =? d) seq.
Proof. exact partition4_contract. Qed.
Print Assumptions C17_partition4_contract.
Theorem C17_partition2_contract : forall w seq shift, BinWTP.width_ok w -> shift < w -> Forall (fun x => x < 2 ^ w) seq ->
  exists out, stable_partition_of_2 w seq shift = Val out /\ Permutation seq out /\
    StronglySorted (fun x y => (x / 2 ^ shift) mod 2 <= (y / 2 ^ shift) mod 2) out /\
    forall d, filter (fun x => (x / 2 ^ shift) mod 2 =? d) out = filter (fun x => (x / 2 ^ shift) mod 2 =? d) seq.
Proof. exact partition2_contract. Qed.
Print Assumptions C17_partition2_contract.
(* text_remap: for every iteration order of the hash set, the order-preserving dense remapping *)
Theorem C17_text_remap_order_irrelevant : forall u1 u2 input, NoDup u1 -> NoDup u2 ->
  (forall x, In x u1 <-> In x input) -> (forall x, In x u2 <-> In x input) -> text_remap u1 input = text_remap u2 input.
Proof. exact text_remap_order_irrelevant. Qed.
Print Assumptions C17_text_remap_order_irrelevant.
Theorem C17_text_remap : forall uniq input, NoDup uniq -> (forall x, In x uniq <-> In x input) -> Forall (fun x => x < 256) input ->
  exists out d, text_remap uniq input = Val (out, d) /\
    d = len (distinct_sorted input) /\ d <= 256 /\ len out = len input /\
    (forall i x, nthN input i = Some x -> nthN out i = Some (len (filter (fun y => y <? x) (distinct_sorted input)))) /\
    (forall i j x y a b, nthN input i = Some x -> nthN input j = Some y -> nthN out i = Some a -> nthN out j = Some b -> (x < y <-> a < b) /\ (x = y <-> a = b)) /\
    (forall a, a < d -> exists i, nthN out i = Some a).
Proof. exact text_remap_correct. Qed.
Print Assumptions C17_text_remap.

From QwtModel Require Import LeavesUtils LeavesUtilsOk.

(* ---- T3: the utils leaves REGENERATED from src/utils/mod.rs on every run (tools/gen_leaves.py ->
   Gen/LeavesUtils.v) equal the hand-written model the theorems above are about. *)
Theorem C17_source_select_in_word : forall word k, word < 2 ^ 64 -> k < 2 ^ 64 ->
  g_select_in_word word k = select_in_word word k.
Proof. exact g_select_in_word_ok. Qed.
Print Assumptions C17_source_select_in_word.
Theorem C17_source_select_in_word_u128 : forall word k, word < 2 ^ 128 -> k < 2 ^ 64 ->
  g_select_in_word_u128 word k = select_in_word_u128 word k.
Proof. exact g_select_in_word_u128_ok. Qed.
Print Assumptions C17_source_select_in_word_u128.
Theorem C17_source_msb :
  (forall v, v < 2 ^ 8 -> g_msb_u8 v = msb_w 8 v) /\ (forall v, v < 2 ^ 16 -> g_msb_u16 v = msb_w 16 v) /\
  (forall v, v < 2 ^ 32 -> g_msb_u32 v = msb_w 32 v) /\ (forall v, v < 2 ^ 64 -> g_msb_u64 v = msb_w 64 v) /\
  (forall v, v < 2 ^ 128 -> g_msb_u128 v = msb_w 128 v).
Proof. exact (conj g_msb_u8_ok (conj g_msb_u16_ok (conj g_msb_u32_ok (conj g_msb_u64_ok g_msb_u128_ok)))). Qed.
Print Assumptions C17_source_msb.

(* ---- msb at a symbolic element width and stable_partition_of_4 REGENERATED from src/utils/mod.rs on every run (T5,
   Gen/FnsUtils.v; the partition as it is written: four local vectors filled in one pass, then copied back over the slice):
   equal to the hand model, faults included, and hence the contracts above hold of the regenerated functions. *)
From QwtModel Require Import Loops FnsUtils FnsQvbOk.
Theorem C17_source_msb_generic : forall wT v, QWTP.width_ok wT -> v < 2 ^ wT -> g_msb wT v = Val (msb v).
Proof. exact g_msb_ok. Qed.
Print Assumptions C17_source_msb_generic.
Theorem C17_source_msb_contract : forall wT v, QWTP.width_ok wT -> v < 2 ^ wT ->
  g_msb wT v = Val (if v =? 0 then 0 else N.log2 v) /\ (v <> 0 -> 2 ^ N.log2 v <= v < 2 ^ (N.log2 v + 1)).
Proof. exact g_msb_spec. Qed.
Print Assumptions C17_source_msb_contract.
Theorem C17_source_partition4_eq : forall wT seq shift, len seq < 2 ^ 64 ->
  g_stable_partition_of_4 wT seq shift = stable_partition_of_4 wT seq shift.
Proof. exact g_stable_partition_of_4_ok. Qed.
Print Assumptions C17_source_partition4_eq.
Theorem C17_source_partition4 : forall wT seq shift, QWTP.width_ok wT -> shift < wT ->
  Forall (fun x => x < 2 ^ wT) seq -> len seq < 2 ^ 64 ->
  g_stable_partition_of_4 wT seq shift =
  Val (concat (map (fun d => filter (fun x => (x / 2 ^ shift) mod 4 =? d) seq) [0;1;2;3])).
Proof. exact g_stable_partition_of_4_spec. Qed.
Print Assumptions C17_source_partition4.
Theorem C17_source_partition4_contract : forall wT seq shift, QWTP.width_ok wT -> shift < wT ->
  Forall (fun x => x < 2 ^ wT) seq -> len seq < 2 ^ 64 ->
  exists out, g_stable_partition_of_4 wT seq shift = Val out /\ Permutation seq out /\
    StronglySorted (fun x y => (x / 2 ^ shift) mod 4 <= (y / 2 ^ shift) mod 4) out /\
    forall d, filter (fun x => (x / 2 ^ shift) mod 4 =? d) out = filter (fun x => (x / 2 ^ shift) mod 4 =? d) seq.
Proof. exact g_stable_partition_of_4_contract. Qed.
Print Assumptions C17_source_partition4_contract.

(* stable_partition_of_2 regenerated (two local vectors, copied back) *)
From QwtModel Require Import FnsWtNewOk.
From Coq Require Import Permutation Sorted.
Theorem C17_source_partition2_eq : forall wT seq shift, len seq < 2 ^ 64 ->
  g_stable_partition_of_2 wT seq shift = stable_partition_of_2 wT seq shift.
Proof. exact g_stable_partition_of_2_ok. Qed.
Print Assumptions C17_source_partition2_eq.
Theorem C17_source_partition2 : forall w seq shift,
  BinWTP.width_ok w -> shift < w -> Forall (fun x => x < 2 ^ w) seq -> len seq < 2 ^ 64 ->
  g_stable_partition_of_2 w seq shift =
  Val (filter (fun x => (x / 2 ^ shift) mod 2 =? 0) seq ++ filter (fun x => (x / 2 ^ shift) mod 2 =? 1) seq).
Proof. exact g_stable_partition_of_2_correct. Qed.
Print Assumptions C17_source_partition2.
Theorem C17_source_partition2_contract : forall w seq shift,
  BinWTP.width_ok w -> shift < w -> Forall (fun x => x < 2 ^ w) seq -> len seq < 2 ^ 64 ->
  exists out, g_stable_partition_of_2 w seq shift = Val out /\ Permutation seq out /\
    StronglySorted (fun x y => (x / 2 ^ shift) mod 2 <= (y / 2 ^ shift) mod 2) out /\
    forall d, filter (fun x => (x / 2 ^ shift) mod 2 =? d) out = filter (fun x => (x / 2 ^ shift) mod 2 =? d) seq.
Proof. exact g_stable_partition_of_2_contract. Qed.
Print Assumptions C17_source_partition2_contract.
