(* C17 — Word-level primitives meet their contracts for all words.
   Statements only, closed by [exact].  The functions are the straight-line leaves of
   src/utils/mod.rs modelled in Model/Words.v with explicit wrap/overflow points; the 2048-entry
   table and every literal constant are regenerated from the Rust source on every run. *)
From QwtModel Require Import ListX Seq Consts SelTable Words QWT Huff WordsP QWTP BinWTP.

(* the in-byte table is the in-byte select, for all 256 x 8 entries (complete enumeration) *)
Theorem C17_table : forall b r, b < 256 -> r < 8 ->
  nthN sel_table (b + 256 * r) = Some (match select_spec (bits_of 8 b) 1 r with Some p => p | None => 8 end).
Proof. exact sel_table_ok. Qed.
Print Assumptions C17_table.

(* all 2^64 words, all k < 128 (the property asks k < 64): position of the (k+1)-th set bit,
   64 if there is none; never a fault (no overflow, no table index out of range) *)
Theorem C17_select_in_word : forall w k, w < 2 ^ 64 -> k < 128 ->
  select_in_word w k = Val (match select_spec (bits_of 64 w) 1 k with Some p => p | None => 64 end).
Proof. exact select_in_word_correct. Qed.
Print Assumptions C17_select_in_word.

Theorem C17_select_in_word_u128 : forall w k, w < 2 ^ 128 -> k < 128 ->
  select_in_word_u128 w k = Val (match select_spec (bits_of 128 w) 1 k with Some p => p | None => 128 end).
Proof. exact select_in_word_u128_correct. Qed.
Print Assumptions C17_select_in_word_u128.

Theorem C17_popcount : forall n x, x < 2 ^ N.of_nat n -> popcount x = countN 1 (bits_of n x).
Proof. exact popcount_correct. Qed.
Print Assumptions C17_popcount.
Theorem C17_popcnt_wide : forall n data, Forall (fun x => x < 2 ^ 64) data ->
  popcnt_wide n data = countN 1 (concat (map (bits_of 64) (firstn n data))).
Proof. exact popcnt_wide_bits. Qed.
Print Assumptions C17_popcnt_wide.

Theorem C17_msb : forall w v, 0 < w -> v < 2 ^ w ->
  msb_w w v = Val (if v =? 0 then 0 else N.log2 v) /\ (v <> 0 -> 2 ^ N.log2 v <= v < 2 ^ (N.log2 v + 1)).
Proof. exact msb_w_correct. Qed.
Print Assumptions C17_msb.

(* the partitions: the output is the concatenation of the groups in increasing order of the
   two bits (one bit) at the given shift, each group in input order *)
Theorem C17_partition4 : forall w seq shift, QWTP.width_ok w -> shift < w -> Forall (fun x => x < 2 ^ w) seq ->
  stable_partition_of_4 w seq shift =
  Val (concat (map (fun d => filter (fun x => (x / 2 ^ shift) mod 4 =? d) seq) [0;1;2;3])).
Proof. exact stable_partition_of_4_correct. Qed.
Print Assumptions C17_partition4.
Theorem C17_partition2 : forall w seq shift, BinWTP.width_ok w -> shift < w -> Forall (fun x => x < 2 ^ w) seq ->
  stable_partition_of_2 w seq shift =
  Val (filter (fun x => (x / 2 ^ shift) mod 2 =? 0) seq ++ filter (fun x => (x / 2 ^ shift) mod 2 =? 1) seq).
Proof. exact stable_partition_of_2_correct. Qed.
Print Assumptions C17_partition2.
