(* C19 — All construction paths and copies build the same structure.
   In the code From<Vec<T>> and FromIterator delegate to new(&mut [T]) (the harness compares
   the three paths and Clone on the implementation: equal values, equal answers); in the model
   a constructor is a function of the sequence.  What needs proof: different sequences never
   build equal values, and the element width does not matter.  Statements only. *)
From QwtModel Require Import ListX Seq QVec RSQ QWT Huff RSQBuild QVecP QWTP HQWTP PathsP.

Theorem C19_width_independent : forall w1 w2 bsize seq t1 t2,
  QWTP.width_ok w1 -> QWTP.width_ok w2 -> (bsize = 256 \/ bsize = 512) ->
  Forall (fun x => x < 2 ^ w1) seq -> Forall (fun x => x < 2 ^ w2) seq -> len seq < RSQ_MAXN ->
  qwt_new w1 bsize seq = Val t1 -> qwt_new w2 bsize seq = Val t2 ->
  (forall i, qwt_get w1 bsize t1 i = qwt_get w2 bsize t2 i) /\
  (forall c i, c < 2 ^ w1 -> c < 2 ^ w2 -> qwt_rank w1 bsize t1 c i = qwt_rank w2 bsize t2 c i) /\
  (forall c k, c < 2 ^ w1 -> c < 2 ^ w2 -> k < 2 ^ 64 -> qwt_select w1 bsize t1 c k = qwt_select w2 bsize t2 c k).
Proof. exact qwt_width_independent. Qed.
Print Assumptions C19_width_independent.

(* values built from different sequences never compare equal *)
Theorem C19_qwt_injective : forall w bsize s1 s2 t, QWTP.width_ok w -> (bsize = 256 \/ bsize = 512) ->
  Forall (fun x => x < 2 ^ w) s1 -> Forall (fun x => x < 2 ^ w) s2 -> len s1 < RSQ_MAXN -> len s2 < RSQ_MAXN ->
  qwt_new w bsize s1 = Val t -> qwt_new w bsize s2 = Val t -> s1 = s2.
Proof. exact qwt_new_inj. Qed.
Print Assumptions C19_qwt_injective.
Theorem C19_rsq_injective : forall bsize v1 v2 r, (bsize = 256 \/ bsize = 512) ->
  len v1 < RSQ_MAXN -> len v2 < RSQ_MAXN -> rsq_new bsize v1 = Val r -> rsq_new bsize v2 = Val r ->
  map sym4 v1 = map sym4 v2.
Proof. exact rsq_new_inj. Qed.
Print Assumptions C19_rsq_injective.
Theorem C19_hqwt_injective : forall w bsize s1 s2 tab t, HQWTP.width_ok w -> (bsize = 256 \/ bsize = 512) ->
  Forall (fun x => x < 2 ^ w) s1 -> Forall (fun x => x < 2 ^ w) s2 -> len s1 < RSQ_MAXN -> len s2 < RSQ_MAXN ->
  table_ok s1 tab -> table_ok s2 tab -> hq_build bsize s1 tab = Val t -> hq_build bsize s2 tab = Val t -> s1 = s2.
Proof. exact hq_build_inj. Qed.
Print Assumptions C19_hqwt_injective.
(* Huffman-shaped trees built with different (equally good) code tables answer identically:
   both equal the specification (C02), for whichever table the builder picked *)
Theorem C19_hqwt_any_table : forall w bsize seq tab1 tab2 t1 t2, HQWTP.width_ok w -> (bsize = 256 \/ bsize = 512) ->
  Forall (fun x => x < 2 ^ w) seq -> len seq < RSQ_MAXN -> table_ok seq tab1 -> table_ok seq tab2 ->
  hq_build bsize seq tab1 = Val t1 -> hq_build bsize seq tab2 = Val t2 ->
  (forall i, hq_get w bsize t1 i = hq_get w bsize t2 i) /\
  (forall c i, c < 2 ^ w -> hq_rank bsize t1 c i = hq_rank bsize t2 c i) /\
  (forall c k, c < 2 ^ w -> k < 2 ^ 64 -> hq_select bsize t1 c k = hq_select bsize t2 c k).
Proof.
  intros w bsize seq tab1 tab2 t1 t2 Hw Hb Hs Hn H1 H2 E1 E2.
  destruct (hq_build_correct w bsize seq tab1 Hw Hb Hs Hn H1) as (u1 & F1 & S1).
  destruct (hq_build_correct w bsize seq tab2 Hw Hb Hs Hn H2) as (u2 & F2 & S2).
  rewrite E1 in F1. rewrite E2 in F2. injection F1 as <-. injection F2 as <-.
  destruct S1 as (_ & G1 & R1 & _ & L1 & _). destruct S2 as (_ & G2 & R2 & _ & L2 & _).
  repeat split; intros.
  - now rewrite G1, G2.
  - now rewrite R1, R2.
  - now rewrite L1, L2.
Qed.
Print Assumptions C19_hqwt_any_table.

(* ---- the remaining families (Proofs/GapsP.v): binary trees, rank/select bit vectors, DArray,
   quad vector: values built from different inputs are different values, element width and
   (for Huffman-shaped trees) the code table do not change any answer *)
From QwtModel Require Import Words BitVec RSBin DArrayM BinWTP GapsP.

Theorem C19_wt_injective : forall w s1 s2 t, BinWTP.width_ok w ->
  Forall (fun x => x < 2 ^ w) s1 -> Forall (fun x => x < 2 ^ w) s2 -> len s1 < RSQ_MAXN -> len s2 < RSQ_MAXN ->
  wt_build w false s1 [] = Val t -> wt_build w false s2 [] = Val t -> s1 = s2.
Proof. exact wt_new_inj. Qed.
Print Assumptions C19_wt_injective.
Theorem C19_hwt_injective : forall w s1 s2 tab t, BinWTP.width_ok w ->
  Forall (fun x => x < 2 ^ w) s1 -> Forall (fun x => x < 2 ^ w) s2 -> len s1 < RSQ_MAXN -> len s2 < RSQ_MAXN ->
  table_ok2 s1 tab -> table_ok2 s2 tab ->
  wt_build w true s1 tab = Val t -> wt_build w true s2 tab = Val t -> s1 = s2.
Proof. exact hwt_build_inj. Qed.
Print Assumptions C19_hwt_injective.
Theorem C19_wt_width_independent : forall w1 w2 seq t1 t2,
  BinWTP.width_ok w1 -> BinWTP.width_ok w2 ->
  Forall (fun x => x < 2 ^ w1) seq -> Forall (fun x => x < 2 ^ w2) seq -> len seq < RSQ_MAXN ->
  wt_build w1 false seq [] = Val t1 -> wt_build w2 false seq [] = Val t2 ->
  (forall i, wt_get w1 false t1 i = wt_get w2 false t2 i) /\
  (forall c i, c < 2 ^ w1 -> c < 2 ^ w2 -> wt_rank w1 false t1 c i = wt_rank w2 false t2 c i) /\
  (forall c k, c < 2 ^ w1 -> c < 2 ^ w2 -> k < 2 ^ 64 -> wt_select w1 false t1 c k = wt_select w2 false t2 c k).
Proof. exact wt_width_independent. Qed.
Print Assumptions C19_wt_width_independent.
Theorem C19_hwt_any_table : forall w seq tab1 tab2 t1 t2, BinWTP.width_ok w ->
  Forall (fun x => x < 2 ^ w) seq -> len seq < RSQ_MAXN -> table_ok2 seq tab1 -> table_ok2 seq tab2 ->
  wt_build w true seq tab1 = Val t1 -> wt_build w true seq tab2 = Val t2 ->
  (forall i, wt_get w true t1 i = wt_get w true t2 i) /\
  (forall c i, c < 2 ^ w -> wt_rank w true t1 c i = wt_rank w true t2 c i) /\
  (forall c k, c < 2 ^ w -> k < 2 ^ 64 -> wt_select w true t1 c k = wt_select w true t2 c k).
Proof. exact hwt_any_table. Qed.
Print Assumptions C19_hwt_any_table.
Theorem C19_rsnarrow_injective : forall b1 b2 bv1 bv2 r, len b1 < 2 ^ 43 -> len b2 < 2 ^ 43 ->
  bv_from_bools b1 = Val bv1 -> bv_from_bools b2 = Val bv2 ->
  rsn_new bv1 = Val r -> rsn_new bv2 = Val r -> b1 = b2.
Proof. exact rsn_inj. Qed.
Print Assumptions C19_rsnarrow_injective.
Theorem C19_rswide_injective : forall b1 b2 bv1 bv2 r, len b1 < 2 ^ 43 -> len b2 < 2 ^ 43 ->
  bv_from_bools b1 = Val bv1 -> bv_from_bools b2 = Val bv2 ->
  rsw_new bv1 = Val r -> rsw_new bv2 = Val r -> b1 = b2.
Proof. exact rsw_inj. Qed.
Print Assumptions C19_rswide_injective.
Theorem C19_darray_injective : forall s0 s0' b1 b2 d, len b1 < 2 ^ 63 -> len b2 < 2 ^ 63 ->
  da_from_bools s0 b1 = Val d -> da_from_bools s0' b2 = Val d -> b1 = b2.
Proof. exact da_from_bools_inj. Qed.
Print Assumptions C19_darray_injective.
Theorem C19_qvector_injective : forall v1 v2 q,
  qv_from_iter v1 = Val q -> qv_from_iter v2 = Val q -> stored v1 = stored v2.
Proof. exact qv_from_iter_inj. Qed.
Print Assumptions C19_qvector_injective.
(* non-vacuity: two concrete sequences build different trees *)
Theorem C19_example : gap_ex_plain_b = true.
Proof. exact wt_differ_ex. Qed.
Print Assumptions C19_example.
