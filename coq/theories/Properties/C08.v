(* C08 — Mutable/immutable bit vectors behave as a sequence of bits under any history.
   Statements only, closed by [exact].  The abstraction bv_abs : bitvec -> list bool and the
   operation specifications op_spec are in Model/BitVec.v and Proofs/BitVecP.v. *)
From QwtModel Require Import ListX Seq Loops Consts Words BitVec BitsLib BitVecP FnsBv FnsBvm FnsBvmOk.

(* every reachable state: any finite history of push / append_bits / extend_with_zeros / set /
   set_bits / extend(bools) / extend(positions) whose arguments satisfy the documented
   preconditions (hist_ok) runs without fault, keeps the invariant and yields exactly the
   list computed by the specification *)
Theorem C08_histories : forall h, hist_ok [] h ->
  exists b, bvrun bv_empty h = Val b /\ bv_inv b /\ bv_abs b = fold_left op_spec h [].
Proof. exact bv_history_correct. Qed.
Print Assumptions C08_histories.

Theorem C08_step : forall b o, bv_inv b -> op_pre (bv_abs b) o = true -> op_small (bv_abs b) o ->
  exists b', bvstep b o = Val b' /\ bv_inv b' /\ bv_abs b' = op_spec (bv_abs b) o.
Proof. exact bv_step_correct. Qed.
Print Assumptions C08_step.

(* the documented panics are exactly the violated preconditions *)
Theorem C08_step_panics : forall b o, bv_inv b -> op_typed o -> op_pre (bv_abs b) o = false ->
  exists f, bvstep b o = Fault f.
Proof. exact bv_step_panics. Qed.
Print Assumptions C08_step_panics.

(* every observer is a function of the abstract list, for all arguments *)
Theorem C08_len : forall b, bv_inv b -> bv_len b = len (bv_abs b).
Proof. exact bv_len_correct. Qed.
Print Assumptions C08_len.
Theorem C08_counts : forall b, bv_inv b ->
  bv_count_ones b = countb (bv_abs b) /\ bv_count_zeros b = Val (len (bv_abs b) - countb (bv_abs b)).
Proof. exact bv_count_correct. Qed.
Print Assumptions C08_counts.
Theorem C08_get : forall b i, bv_inv b -> bv_get b i = Val (nthN (bv_abs b) i).
Proof. exact bv_get_correct. Qed.
Print Assumptions C08_get.
(* multi-bit reads; strict = true is BitVectorMut as the code has it (i + n < len: known finding
   KF-13, the last bits cannot be read), strict = false is BitVector (i + n <= len) *)
Theorem C08_get_bits : forall strict b i n, bv_inv b ->
  bv_get_bits strict b i n =
  Val (if (1 <=? n) && (n <=? 64) && (if strict then i + n <? len (bv_abs b) else i + n <=? len (bv_abs b))
       then Some (bits_value (firstnN n (skipnN i (bv_abs b)))) else None).
Proof. exact bv_get_bits_correct. Qed.
Print Assumptions C08_get_bits.
(* KF-13 as a theorem: the mutable vector refuses a read that ends exactly at the end, the
   immutable one answers it *)
Theorem C08_get_bits_known_finding :
  match bv_from_bools [true; false; true; false; true; false; true] with
  | Val b => bv_get_bits true b 0 7 = Val None /\ bv_get_bits false b 0 7 = Val (Some 85)
  | Fault _ => False
  end.
Proof. vm_compute. split; reflexivity. Qed.
Print Assumptions C08_get_bits_known_finding.
(* whole-word reads with zero padding; panic exactly outside the allocated lines *)
Theorem C08_get_word : forall b w, bv_inv b ->
  bv_get_word b w = if w <? 8 * ((len (bv_abs b) + 511) / 512)
                    then Val (bits_value (firstnN 64 (skipnN (64 * w) (bv_abs b)))) else Fault Panic.
Proof. exact bv_get_word_correct. Qed.
Print Assumptions C08_get_word.
(* position iterators, from the start or from any position including past the end *)
Theorem C08_positions : forall bit b pos fuel, bv_inv b -> len (bv_abs b) < N.of_nat fuel ->
  pi_collect bit b (pi_with_pos bit b pos) fuel = positions_from bit (bv_abs b) pos /\
  pi_collect bit b pi_new fuel = positions_from bit (bv_abs b) 0.
Proof. exact pi_collect_correct. Qed.
Print Assumptions C08_positions.
Theorem C08_positions_meaning : forall bit l pos p,
  In p (positions_from bit l pos) <-> pos <= p /\ nthN l p = Some bit.
Proof. exact positions_from_In. Qed.
Print Assumptions C08_positions_meaning.
Theorem C08_positions_fused : forall bit b st st',
  pi_next bit b st = (None, st') -> pi_next bit b st' = (None, st').
Proof. exact pi_next_none_forever. Qed.
Print Assumptions C08_positions_fused.
(* two vectors holding the same bits are equal (derived PartialEq compares the fields) *)
Theorem C08_extensional : forall b1 b2, bv_inv b1 -> bv_inv b2 -> bv_abs b1 = bv_abs b2 -> b1 = b2.
Proof. exact bv_ext. Qed.
Print Assumptions C08_extensional.
(* constructors *)
Theorem C08_from_bools : forall bs, len bs < 2 ^ 63 ->
  exists b, bv_from_bools bs = Val b /\ bv_inv b /\ bv_abs b = bs.
Proof. exact bv_from_bools_correct. Qed.
Print Assumptions C08_from_bools.
Theorem C08_from_positions : forall ps, Forall (fun p => p < 2 ^ 63 - 1) ps ->
  exists b, bv_from_positions ps = Val b /\ bv_inv b /\ bv_abs b = op_spec [] (OExtPos ps).
Proof. exact bv_from_positions_correct. Qed.
Print Assumptions C08_from_positions.
(* non-vacuity: a history of eight operations crossing a word and a line boundary, evaluated *)
Theorem C08_example : hist_ok [] ex_hist.
Proof. exact ex_hist_ok. Qed.
Print Assumptions C08_example.

(* ---- the same statements about the functions REGENERATED from src/bitvector/mod.rs on every run (T5, Gen/FnsBvm.v,
   Gen/FnsBv.v): BitVectorMut::{push, append_bits, extend_with_zeros, set, set_bits} as state transformers of the three
   fields (data lines, n_bits, n_ones) and every observer.  [gstep]/[grun] dispatch a history to those generated
   functions ([Extend<bool>] / [Extend<usize>] are loops of generated push / extend_with_zeros / set calls). *)
Theorem C08_source_step : forall b o, bv_inv b -> op_pre (bv_abs b) o = true -> op_small (bv_abs b) o ->
  exists b', gstep (fields b) o = Val (fields b') /\ bv_inv b' /\ bv_abs b' = op_spec (bv_abs b) o.
Proof. exact g_step_correct. Qed.
Print Assumptions C08_source_step.
Theorem C08_source_step_panics : forall b o, bv_inv b -> op_typed o -> op_pre (bv_abs b) o = false ->
  exists f, gstep (fields b) o = Fault f.
Proof. exact g_step_panics. Qed.
Print Assumptions C08_source_step_panics.
Theorem C08_source_observers : forall b, bv_inv b -> gobs (fields b) (bv_abs b).
Proof. exact g_observers_correct. Qed.
Print Assumptions C08_source_observers.
Theorem C08_source_get_bits : forall b i n, bv_inv b ->
  g_bvm_get_bits (chunks 8 (bv_words b)) (bv_nbits b) i n =
  Val (if (1 <=? n) && (n <=? 64) && (i + n <? len (bv_abs b))
       then Some (bits_value (firstnN n (skipnN i (bv_abs b)))) else None).
Proof. exact g_get_bits_correct. Qed.
Print Assumptions C08_source_get_bits.
Theorem C08_source_history : forall h, hist_ok [] h ->
  exists s, grun gempty h = Val s /\ gobs s (fold_left op_spec h []).
Proof. exact g_history_observed. Qed.
Print Assumptions C08_source_history.
Theorem C08_source_history_generated_only : forall h, Forall op_gen h -> hist_ok [] h ->
  exists s, grun gempty h = Val s /\ gobs s (fold_left op_spec h []).
Proof. exact g_history_generated_only. Qed.
Print Assumptions C08_source_history_generated_only.

(* ---- the position iterators REGENERATED from src/bitvector/mod.rs on every run (T5, Gen/FnsIters.v:
   BitVectorBitPositionsIter::<BIT>::{new, with_pos, next} for both values of BIT, `next` with its refill `while`): the
   positions collected through the regenerated functions, from the start or from any position, are exactly the positions of
   the bit in the abstract bit list; after the first None every further call is None.  (The regenerated `next` leaves
   `cur_position` at the last word it loaded when the refill loop runs off the end, the hand model leaves it unchanged:
   [g_state_after] states the difference, which no sequence of calls can observe: [C08_source_positions_run].) *)
From QwtModel Require Import BitVecW FnsIters FnsItersOk.
Theorem C08_source_positions : forall bit b pos fuelw n,
  bv_inv b -> pos < 2 ^ 64 -> (S (length (bv_words b)) <= fuelw)%nat -> len (bv_abs b) < N.of_nat n ->
  (let! (d, nb, cp, cwp, cw) := g_pi_with_pos bit (bv_words b) (bv_nbits b) pos in
   g_pi_collect bit fuelw d nb cp cwp cw n) = Val (positions_from bit (bv_abs b) pos) /\
  (let! (d, nb, cp, cwp, cw) := g_pi_new bit (bv_words b) (bv_nbits b) in
   g_pi_collect bit fuelw d nb cp cwp cw n) = Val (positions_from bit (bv_abs b) 0).
Proof. exact g_positions_correct. Qed.
Print Assumptions C08_source_positions.
Theorem C08_source_positions_next : forall bit b st fuel,
  words_ok (bv_words b) -> len (bv_words b) < 2 ^ 58 -> pi_reach b st ->
  (S (length (bv_words b)) <= fuel)%nat ->
  g_pi_next bit fuel (bv_words b) (bv_nbits b) (pi_cur_position st) (pi_cur_word_pos st) (pi_cur_word st) =
  Val (bv_words b, bv_nbits b,
       pi_cur_position (g_state_after bit b st), pi_cur_word_pos (g_state_after bit b st),
       pi_cur_word (g_state_after bit b st), fst (pi_next bit b st)).
Proof. exact g_pi_next_ok. Qed.
Print Assumptions C08_source_positions_next.
Theorem C08_source_positions_run : forall bit b fuelw,
  words_ok (bv_words b) -> len (bv_words b) < 2 ^ 58 -> (S (length (bv_words b)) <= fuelw)%nat ->
  forall k st, pi_reach b st ->
  g_pi_run bit fuelw (bv_words b) (bv_nbits b) (pi_cur_position st) (pi_cur_word_pos st) (pi_cur_word st) k =
  Val (pi_run bit b st k).
Proof. exact g_pi_run_ok. Qed.
Print Assumptions C08_source_positions_run.
Theorem C08_source_positions_fused : forall bit fuel data nbits cp cwp cw d' n' cp' cwp' cw',
  g_pi_next bit fuel data nbits cp cwp cw = Val (d', n', cp', cwp', cw', None) ->
  forall fuel', (1 <= fuel')%nat ->
  g_pi_next bit fuel' d' n' cp' cwp' cw' = Val (d', n', cp', cwp', cw', None).
Proof. exact g_pi_next_fused. Qed.
Print Assumptions C08_source_positions_fused.

(* the PUBLIC constructors of the position iterators regenerated as well (BitVector / BitVectorMut ::ones, zeros, ones_with_pos,
   zeros_with_pos): the whole public path through regenerated functions only *)
From QwtModel Require Import FnsIterCtorsOk.
Theorem C08_source_positions_public : forall mutable bit b pos fuelw n,
  bv_inv b -> pos < 2 ^ 64 -> (S (length (bv_words b)) <= fuelw)%nat -> len (bv_abs b) < N.of_nat n ->
  (let! (d, nb, cp, cwp, cw) := g_bv_positions_from mutable bit (chunks 8 (bv_words b)) (bv_nbits b) pos in
   g_pi_collect bit fuelw d nb cp cwp cw n) = Val (positions_from bit (bv_abs b) pos) /\
  (let! (d, nb, cp, cwp, cw) := g_bv_positions mutable bit (chunks 8 (bv_words b)) (bv_nbits b) in
   g_pi_collect bit fuelw d nb cp cwp cw n) = Val (positions_from bit (bv_abs b) 0).
Proof. exact g_bv_positions_public. Qed.
Print Assumptions C08_source_positions_public.

(* ---- the collecting constructors regenerated (T5, Gen/FnsBvnew.v: Extend<bool> / Extend<usize> for BitVectorMut, FromIterator
   for BitVectorMut and BitVector): definitionally the loops the history theorems above run for the extend operations, so
   those theorems speak of regenerated code only; and end to end: the regenerated constructor from a bit list / a position list
   returns the fields of a vector whose abstraction is the input. *)
From QwtModel Require Import FnsBvnew FnsBvnewOk.
Theorem C08_source_extend_bools : forall bs d nb no,
  g_bvm_extend_bools d nb no bs = g_extend_bools d nb no bs.
Proof. exact g_bvm_extend_bools_ok. Qed.
Print Assumptions C08_source_extend_bools.
Theorem C08_source_extend_positions : forall ps d nb no,
  g_bvm_extend_positions d nb no ps = g_extend_positions d nb no ps.
Proof. exact g_bvm_extend_positions_ok. Qed.
Print Assumptions C08_source_extend_positions.
Theorem C08_source_from_bools : forall bs, len bs < 2 ^ 63 ->
  exists b, g_bv_from_bools bs = Val (chunks 8 (bv_words b), bv_nbits b, bv_nones b) /\ bv_inv b /\ bv_abs b = bs.
Proof. exact g_bv_from_bools_correct. Qed.
Print Assumptions C08_source_from_bools.
Theorem C08_source_mut_from_bools : forall bs, len bs < 2 ^ 63 ->
  exists b, g_bvm_from_bools bs = Val (chunks 8 (bv_words b), bv_nbits b, bv_nones b) /\ bv_inv b /\ bv_abs b = bs.
Proof. exact g_bvm_from_bools_correct. Qed.
Print Assumptions C08_source_mut_from_bools.
Theorem C08_source_from_positions : forall ps, Forall (fun p => p < 2 ^ 63 - 1) ps ->
  exists b, g_bvm_from_positions ps = Val (chunks 8 (bv_words b), bv_nbits b, bv_nones b) /\ bv_inv b /\
            bv_abs b = op_spec [] (OExtPos ps).
Proof. exact g_bvm_from_positions_correct. Qed.
Print Assumptions C08_source_from_positions.
Theorem C08_source_from_bools_observed : forall bs, len bs < 2 ^ 63 ->
  exists s, g_bv_from_bools bs = Val s /\ gobs s bs /\ gobs_bv s bs.
Proof. exact g_bv_from_bools_observed. Qed.
Print Assumptions C08_source_from_bools_observed.
