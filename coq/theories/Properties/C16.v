(* C16 — Reported space usage matches the memory actually retained.
   Exact identities between what the hand-written space_usage_byte() sums report (Model/Space.v:
   the _space functions) and the retained heap bytes (the _heap functions) for EVERY state: they differ by explicit
   constants per component only.  The harness checks on every case that the implementation's
   space_usage_byte() equals the model value, that the live bytes equal the model heap value (plain
   structures), and that KiB/MiB/GiB are the same number scaled.  Huffman code tables are kept
   in vectors with amortised growth: their retained size is compared with the slack the property
   allows (proportional to the largest symbol), not predicted.  Statements only. *)
From QwtModel Require Import ListX Seq Consts QVec RSQ QWT BitVec RSBin DArrayM Huff Prefetch Space QWTP SpaceP.
From QwtModel Require WrapP RSQBuild.

Theorem C16_rsq : forall r, len (rs_samples (rsq_rs r)) = 4 -> rsq_space r = rsq_heap r + 144.
Proof. exact rsq_space_heap. Qed.
Print Assumptions C16_rsq.
Theorem C16_rsnarrow : forall r, rsn_space r = rsn_heap r + 80.
Proof. exact rsn_space_heap. Qed.
Print Assumptions C16_rsnarrow.
Theorem C16_rswide : forall r, rsw_space r + 16 = rsw_heap r + 96.
Proof. exact rsw_space_heap. Qed.
Print Assumptions C16_rswide.
Theorem C16_darray : forall d, da_space d = da_heap d + 32 + 56 + (match da_zeros d with Some _ => 56 | None => 0 end).
Proof. exact da_space_heap. Qed.
Print Assumptions C16_darray.
Theorem C16_prefetch_support : forall p, pfs_space p = pfs_heap abi64 p.
Proof. exact pfs_space_heap. Qed.
Print Assumptions C16_prefetch_support.
Theorem C16_qwt : forall t pfs, Forall (fun r => len (rs_samples (rsq_rs r)) = 4) (q_qvs t) ->
  qwt_space t pfs + (match pfs with Some ps => 32 * len ps | None => 0 end) = qwt_heap abi64 t pfs + 16.
Proof. exact qwt_space_heap. Qed.
Print Assumptions C16_qwt.
Theorem C16_wt : forall t, wt_space false t + 8 * len (w_bvs t) = wt_heap_plain abi64 t + 16.
Proof. exact wt_space_heap. Qed.
Print Assumptions C16_wt.
(* the property-level statement for the tree: reported and retained (heap + the value itself,
   inline <= 128 bytes) differ by at most a constant plus 32 bytes per level *)
Theorem C16_qwt_close : forall t pfs inline,
  Forall (fun r => len (rs_samples (rsq_rs r)) = 4) (q_qvs t) -> inline <= 128 ->
  qwt_space t pfs <= qwt_heap abi64 t pfs + inline + 16 /\
  qwt_heap abi64 t pfs + inline <= qwt_space t pfs + (match pfs with Some ps => 32 * len ps | None => 0 end) + 128.
Proof. exact qwt_report_close. Qed.
Print Assumptions C16_qwt_close.
(* the side condition holds for every constructed tree *)
Theorem C16_qwt_built : forall w bsize seq t, width_ok w -> (bsize = 256 \/ bsize = 512) ->
  Forall (fun x => x < 2 ^ w) seq -> len seq < RSQBuild.RSQ_MAXN -> qwt_new w bsize seq = Val t ->
  forall pfs, qwt_space t pfs + (match pfs with Some ps => 32 * len ps | None => 0 end) = qwt_heap abi64 t pfs + 16.
Proof. intros w bsize seq t Hw Hb Hs Hn E pfs. exact (qwt_new_space_heap w bsize seq t pfs Hw Hb Hs Hn E). Qed.
Print Assumptions C16_qwt_built.

(* Huffman-shaped trees: reported bytes = level bytes + constants + the code tables
   (256 * 8 for codes_encode, 5 bytes per decode entry: the slack proportional to the alphabet the
   property allows) *)
Theorem C16_hq : forall t, Forall (fun r => len (rs_samples (rsq_rs r)) = 4) (h_qvs t) ->
  hq_space t None = WrapP.hq_heap_levels t + 16 + 256 * 8 + sumN (map (fun v => len v * 5) (h_decode t)).
Proof. exact WrapP.hq_space_heap. Qed.
Print Assumptions C16_hq.
Theorem C16_hq_built : forall bsize seq tab t, (bsize = 256 \/ bsize = 512) -> len seq < RSQBuild.RSQ_MAXN ->
  hq_build bsize seq tab = Val t ->
  hq_space t None = WrapP.hq_heap_levels t + 16 + 256 * 8 + sumN (map (fun v => len v * 5) (h_decode t)).
Proof. exact WrapP.hq_build_space_heap. Qed.
Print Assumptions C16_hq_built.
Theorem C16_wt_any : forall compressed t,
  wt_space compressed t + 8 * len (w_bvs t) =
  wt_heap_plain abi64 t + 16 +
  (if compressed then 256 * 8 + match w_decode t with Some d => len d * 5 | None => 0 end else 0).
Proof. exact WrapP.wt_space_heap_gen. Qed.
Print Assumptions C16_wt_any.
