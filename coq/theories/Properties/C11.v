(* C11 — Serialization round trip preserves every structure exactly.
   The bincode 1.3 default wire format is modelled by a schema-driven codec (Model/Serde.v);
   the schema of every serializable struct is regenerated from the Rust sources into
   Gen/Schema.v on every run (a #[serde(skip)] or a reordered field changes it).
   Statements only, closed by [exact]. *)
From QwtModel Require Import ListX Serde SerdeP Schema.

(* for EVERY schema and EVERY well-typed value: decoding the encoding gives the value back
   and consumes exactly the encoding *)
Theorem C11_roundtrip : forall t v rest, wt t v = true -> decode t (encode t v ++ rest) = Some (v, rest).
Proof. exact decode_encode. Qed.
Print Assumptions C11_roundtrip.
(* the format is canonical: whatever decodes re-encodes to exactly the consumed bytes, so the
   bytes determine the value and the value determines the bytes *)
Theorem C11_canonical : forall t bs v rest, decode t bs = Some (v, rest) -> wt t v = true /\ bs = encode t v ++ rest.
Proof. exact encode_decode. Qed.
Print Assumptions C11_canonical.
Theorem C11_injective : forall t v1 v2, wt t v1 = true -> wt t v2 = true -> encode t v1 = encode t v2 -> v1 = v2.
Proof. exact encode_inj. Qed.
Print Assumptions C11_injective.
(* every struct of the library: all declared fields are part of the derived serialization
   (no #[serde(skip)], no hand-written Serialize): the generator emits schema_complete = true
   only if that is what the sources say *)
Theorem C11_all_fields_serialized : schema_complete = true.
Proof. reflexivity. Qed.
Print Assumptions C11_all_fields_serialized.
(* instantiated for every serializable type of the library (schemas from Gen/Schema.v) *)
Theorem C11_roundtrip_all_types : forall name t v rest, In (name, t) all_schemas ->
  wt t v = true -> decode t (encode t v ++ rest) = Some (v, rest).
Proof. intros name t v rest _. apply decode_encode. Qed.
Print Assumptions C11_roundtrip_all_types.
