(* C05 — Rank/select quad vector agrees with the plain quaternary sequence.
   Statements only, closed by [exact]; assumption audit below each. *)
From QwtModel Require Import ListX Seq Consts QVec RSQ QVecP RSQBuild RSQP.

(* The full functional contract: for every block size, every quad vector q storing the
   symbols s (all < 4) and every argument, the model of the code returns a value (never a
   fault: no panic, no unchecked access out of range, no overflow) and that value is the list
   function.  rsq_spec (Proofs/RSQP.v) is the conjunction:
     len, is_empty, get i = s[i] / None, rank c i = Some(count) iff c <= 3 and i <= |s|,
     select c k = position of the (k+1)-th c or None (None for c > 3), occs, occs_smaller,
     the unchecked variants under their preconditions, and the block-directory lower bound. *)
Theorem C05_from_qvector : forall bsize q s,
  (bsize = 256 \/ bsize = 512) -> qvb_inv q s -> Forall (fun x => x < 4) s -> len s < RSQ_MAXN ->
  exists r, rsq_from_qv bsize q = Val r /\ rsq_spec bsize r s.
Proof. exact rsq_from_qv_correct. Qed.
Print Assumptions C05_from_qvector.

(* the constructors new / collect on arbitrary unsigned values (stored mod 4) *)
Theorem C05_new : forall bsize vs, (bsize = 256 \/ bsize = 512) -> len vs < RSQ_MAXN ->
  exists r, rsq_new bsize vs = Val r /\ rsq_spec bsize r (map sym4 vs).
Proof. exact rsq_new_correct. Qed.
Print Assumptions C05_new.

(* Default::default() is a valid empty vector *)
Theorem C05_default : forall bsize, (bsize = 256 \/ bsize = 512) ->
  exists r, rsq_default bsize = Val r /\ rsq_spec bsize r [].
Proof. exact rsq_default_correct. Qed.
Print Assumptions C05_default.

(* the contract spelled out (so that a weakening of rsq_spec cannot go unnoticed) *)
Theorem C05_contract : forall bsize r s, rsq_spec bsize r s ->
  rsq_len r = len s /\
  (forall i, rsq_get r i = Val (nthN s i)) /\
  (forall c i, rsq_rank bsize r c i = Val (if (c <=? 3) && (i <=? len s) then Some (rank_spec s c i) else None)) /\
  (forall c k, k < 2 ^ 64 -> rsq_select bsize r c k = Val (if c <=? 3 then select_spec s c k else None)) /\
  (forall c, rsq_occs r c = Val (if c <=? 3 then Some (countN c s) else None)) /\
  (forall c, rsq_occs_smaller_q r c = Val (if c <=? 3 then Some (count_lt c s) else None)).
Proof. intros bsize r s H. unfold rsq_spec in H. intuition. Qed.
Print Assumptions C05_contract.

(* non-vacuity: concrete 600-symbol inputs, both block sizes, evaluated by vm_compute
   (rsq_example_checks, Proofs/RSQP.v: 13 query values per block size) *)
Theorem C05_example : rsq_example_checks 256 /\ rsq_example_checks 512.
Proof. exact (conj rsq_example_256 rsq_example_512). Qed.
Print Assumptions C05_example.

From QwtModel Require Import Words LeavesSB LeavesSBOk LeavesLine LeavesLineOk.

(* ---- T3: the packed superblock counters REGENERATED from
   src/qvector/rs_qvector/rs_support_plain.rs (SuperblockPlain::get_rank / get_superblock_counter)
   equal the hand model for every argument of the parameter types (for block_id >= 12 the source shifts
   a u128 by >= 128 bits: both sides are Fault Overflow there; callers pass block & 7). *)
Theorem C05_source_sb_get_rank : forall ws symbol block_id,
  Forall (fun w => w < 2 ^ 128) ws -> symbol < 256 -> block_id < 2 ^ 64 ->
  g_sb_get_rank ws symbol block_id = sb_get_rank ws symbol block_id.
Proof. exact g_sb_get_rank_ok. Qed.
Print Assumptions C05_source_sb_get_rank.
Theorem C05_source_sb_get_superblock_counter : forall ws symbol,
  Forall (fun w => w < 2 ^ 128) ws -> symbol < 256 ->
  g_sb_get_superblock_counter ws symbol = sb_get_superblock_counter ws symbol.
Proof. exact g_sb_get_superblock_counter_ok. Qed.
Print Assumptions C05_source_sb_get_superblock_counter.

(* ---- T3: the word-level DataLine functions REGENERATED from src/qvector/mod.rs on every run
   (tools/gen_leaves.py -> Gen/LeavesLine.v: typed, operation-by-operation translation of the Rust
   text) are equal to the hand-written word view on all in-range arguments; together with
   C13_line_get / C13_line_rank / C13_line_set the theorems hold of what the source says now. *)
Theorem C05_source_line_get_unchecked : forall ws i, i < 2 ^ 64 ->
  g_qline_get_unchecked ws i = qline_get_unchecked ws i.
Proof. exact g_qline_get_unchecked_ok. Qed.
Print Assumptions C05_source_line_get_unchecked.
Theorem C05_source_line_rank_unchecked : forall ws symbol i, symbol < 256 -> i < 2 ^ 64 ->
  g_qline_rank_unchecked ws symbol i = qline_rank_unchecked ws symbol i.
Proof. exact g_qline_rank_unchecked_ok. Qed.
Print Assumptions C05_source_line_rank_unchecked.
