(* C05 — Rank/select quad vector agrees with the plain quaternary sequence.
   Statements only, closed by [exact]; assumption audit below each. *)
From QwtModel Require Import ListX Seq Consts QVec RSQ QVecP RSQBuild RSQP.

(* The full functional contract: for every block size, every quad vector q storing the
   symbols s (all < 4) and every argument, the model of the code returns a value (never a
   fault: no panic, no unchecked access out of range, no overflow) and that value is the list
   function.  rsq_spec (Proofs/RSQP.v) is the conjunction:
     len, is_empty, get i = s[i] / None, rank c i = Some(count) iff c <= 3 and i <= |s|,
     select c k = position of the (k+1)-th c or None (None for c > 3), occs, occs_smaller,
     the unchecked variants under their preconditions, and the block-directory lower bound. *)
Theorem C05_from_qvector : forall bsize q s,
  (bsize = 256 \/ bsize = 512) -> qvb_inv q s -> Forall (fun x => x < 4) s -> len s < RSQ_MAXN ->
  exists r, rsq_from_qv bsize q = Val r /\ rsq_spec bsize r s.
Proof. exact rsq_from_qv_correct. Qed.
Print Assumptions C05_from_qvector.

(* the constructors new / collect on arbitrary unsigned values (stored mod 4) *)
Theorem C05_new : forall bsize vs, (bsize = 256 \/ bsize = 512) -> len vs < RSQ_MAXN ->
  exists r, rsq_new bsize vs = Val r /\ rsq_spec bsize r (map sym4 vs).
Proof. exact rsq_new_correct. Qed.
Print Assumptions C05_new.

(* Default::default() is a valid empty vector *)
Theorem C05_default : forall bsize, (bsize = 256 \/ bsize = 512) ->
  exists r, rsq_default bsize = Val r /\ rsq_spec bsize r [].
Proof. exact rsq_default_correct. Qed.
Print Assumptions C05_default.

(* the contract spelled out (so that a weakening of rsq_spec cannot go unnoticed) *)
Theorem C05_contract : forall bsize r s, rsq_spec bsize r s ->
  rsq_len r = len s /\
  (forall i, rsq_get r i = Val (nthN s i)) /\
  (forall c i, rsq_rank bsize r c i = Val (if (c <=? 3) && (i <=? len s) then Some (rank_spec s c i) else None)) /\
  (forall c k, k < 2 ^ 64 -> rsq_select bsize r c k = Val (if c <=? 3 then select_spec s c k else None)) /\
  (forall c, rsq_occs r c = Val (if c <=? 3 then Some (countN c s) else None)) /\
  (forall c, rsq_occs_smaller_q r c = Val (if c <=? 3 then Some (count_lt c s) else None)).
Proof. intros bsize r s H. unfold rsq_spec in H. intuition. Qed.
Print Assumptions C05_contract.

(* non-vacuity: concrete 600-symbol inputs, both block sizes, evaluated by vm_compute
   (rsq_example_checks, Proofs/RSQP.v: 13 query values per block size) *)
Theorem C05_example : rsq_example_checks 256 /\ rsq_example_checks 512.
Proof. exact (conj rsq_example_256 rsq_example_512). Qed.
Print Assumptions C05_example.

From QwtModel Require Import Words LeavesSB LeavesSBOk LeavesLine LeavesLineOk.

(* ---- T3: the packed superblock counters REGENERATED from
   src/qvector/rs_qvector/rs_support_plain.rs (SuperblockPlain::get_rank / get_superblock_counter)
   equal the hand model for every argument of the parameter types (for block_id >= 12 the source shifts
   a u128 by >= 128 bits: both sides are Fault Overflow there; callers pass block & 7). *)
Theorem C05_source_sb_get_rank : forall ws symbol block_id,
  Forall (fun w => w < 2 ^ 128) ws -> symbol < 256 -> block_id < 2 ^ 64 ->
  g_sb_get_rank ws symbol block_id = sb_get_rank ws symbol block_id.
Proof. exact g_sb_get_rank_ok. Qed.
Print Assumptions C05_source_sb_get_rank.
Theorem C05_source_sb_get_superblock_counter : forall ws symbol,
  Forall (fun w => w < 2 ^ 128) ws -> symbol < 256 ->
  g_sb_get_superblock_counter ws symbol = sb_get_superblock_counter ws symbol.
Proof. exact g_sb_get_superblock_counter_ok. Qed.
Print Assumptions C05_source_sb_get_superblock_counter.

(* ---- T3: the word-level DataLine functions REGENERATED from src/qvector/mod.rs on every run
   (tools/gen_leaves.py -> Gen/LeavesLine.v: typed, operation-by-operation translation of the Rust
   text) are equal to the hand-written word view on all in-range arguments; together with
   C13_line_get / C13_line_rank / C13_line_set the theorems hold of what the source says now. *)
Theorem C05_source_line_get_unchecked : forall ws i, i < 2 ^ 64 ->
  g_qline_get_unchecked ws i = qline_get_unchecked ws i.
Proof. exact g_qline_get_unchecked_ok. Qed.
Print Assumptions C05_source_line_get_unchecked.
Theorem C05_source_line_rank_unchecked : forall ws symbol i, symbol < 256 -> i < 2 ^ 64 ->
  g_qline_rank_unchecked ws symbol i = qline_rank_unchecked ws symbol i.
Proof. exact g_qline_rank_unchecked_ok. Qed.
Print Assumptions C05_source_line_rank_unchecked.

From QwtModel Require Import Loops FnsRss FnsRssOk RSQBuild.

(* ---- T5: the SEARCHES of the rank/select support REGENERATED from
   src/qvector/rs_qvector/rs_support_plain.rs on every run (tools/gen_fns.py -> Gen/FnsRss.v; RSSupportPlain<B>
   monomorphised for B = 256 and B = 512): block_predecessor (the for loop over the seven 12-bit counters),
   rank_block, select_block (sample lookup, sqrt-step scan, linear scan, predecessor) are EQUAL to the hand model
   (value or fault) on every well-typed directory, for every fuel above the number of superblocks; and on the
   directory the constructor builds they return the block of the requested occurrence with its rank. *)
Theorem C05_source_block_predecessor : forall counters symbol target,
  g_sb_block_predecessor counters symbol target = sb_block_predecessor counters symbol target.
Proof. exact g_sb_block_predecessor_ok. Qed.
Print Assumptions C05_source_block_predecessor.
Theorem C05_source_rank_block_256 : forall r symbol i,
  g_rss256_rank_block (rs_superblocks r) symbol i = rss_rank_block 256 r symbol i.
Proof. exact g_rss256_rank_block_ok. Qed.
Print Assumptions C05_source_rank_block_256.
Theorem C05_source_rank_block_512 : forall r symbol i,
  g_rss512_rank_block (rs_superblocks r) symbol i = rss_rank_block 512 r symbol i.
Proof. exact g_rss512_rank_block_ok. Qed.
Print Assumptions C05_source_rank_block_512.
Theorem C05_source_select_block_256 : forall r symbol i fuel, i < 2 ^ 64 ->
  Forall (Forall (fun x => x < 2 ^ 32)) (rs_samples r) -> Forall (Forall (fun w => w < 2 ^ 128)) (rs_superblocks r) ->
  (S (length (rs_superblocks r)) <= fuel)%nat ->
  g_rss256_select_block fuel (rs_superblocks r) (rs_samples r) symbol i = rss_select_block 256 r symbol i.
Proof. exact g_rss256_select_block_ok. Qed.
Print Assumptions C05_source_select_block_256.
Theorem C05_source_select_block_512 : forall r symbol i fuel, i < 2 ^ 64 ->
  Forall (Forall (fun x => x < 2 ^ 32)) (rs_samples r) -> Forall (Forall (fun w => w < 2 ^ 128)) (rs_superblocks r) ->
  (S (length (rs_superblocks r)) <= fuel)%nat ->
  g_rss512_select_block fuel (rs_superblocks r) (rs_samples r) symbol i = rss_select_block 512 r symbol i.
Proof. exact g_rss512_select_block_ok. Qed.
Print Assumptions C05_source_select_block_512.
Theorem C05_source_directory_typed : forall bsize s rs, (bsize = 256 \/ bsize = 512) -> len s < RSQ_MAXN ->
  Forall (fun x => x < 4) s -> rss_new bsize s = Val rs ->
  Forall (Forall (fun x => x < 2 ^ 32)) (rs_samples rs) /\ Forall (Forall (fun w => w < 2 ^ 128)) (rs_superblocks rs) /\
  length (rs_superblocks rs) = S (N.to_nat (len s / (8 * bsize))).
Proof. exact rss_new_typed. Qed.
Print Assumptions C05_source_directory_typed.
Theorem C05_source_select_block_e2e_256 : forall s rs c k fuel,
  len s < RSQ_MAXN -> Forall (fun x => x < 4) s -> rss_new 256 s = Val rs -> c <= 3 -> k < countN c s ->
  (S (S (N.to_nat (len s / 2048))) <= fuel)%nat ->
  exists pos, g_rss256_select_block fuel (rs_superblocks rs) (rs_samples rs) c (k + 1)
              = Val (pos, rank_spec s c pos) /\
    pos mod 256 = 0 /\ rank_spec s c pos <= k /\ k < rank_spec s c (pos + 256).
Proof. exact g_rss256_select_block_e2e. Qed.
Print Assumptions C05_source_select_block_e2e_256.
Theorem C05_source_select_block_e2e_512 : forall s rs c k fuel,
  len s < RSQ_MAXN -> Forall (fun x => x < 4) s -> rss_new 512 s = Val rs -> c <= 3 -> k < countN c s ->
  (S (S (N.to_nat (len s / 4096))) <= fuel)%nat ->
  exists pos, g_rss512_select_block fuel (rs_superblocks rs) (rs_samples rs) c (k + 1)
              = Val (pos, rank_spec s c pos) /\
    pos mod 512 = 0 /\ rank_spec s c pos <= k /\ k < rank_spec s c (pos + 512).
Proof. exact g_rss512_select_block_e2e. Qed.
Print Assumptions C05_source_select_block_e2e_512.

From QwtModel Require Import QVecP FnsQv2 FnsRsq FnsQv2Ok FnsRsqOk.

(* ---- T5: the whole query API of RSQVector REGENERATED from src/qvector/rs_qvector.rs and src/qvector/mod.rs
   (tools/gen_fns.py -> Gen/FnsRsq.v, Gen/FnsQv2.v; RSQVector<RSSupportPlain<B>> monomorphised for B = 256, 512),
   working on the WORD view of the data lines (four u128 per line, `rsq_wdata r` = the packed list view) and on the
   fields of the structure the hand-modelled constructor builds: for every input sequence, get / rank / select /
   occs / occs_smaller and their unchecked variants return exactly the list specification of the stored symbols
   (map sym4 vs), for every fuel above the number of superblocks.  No premise about the regenerated code is left. *)
Theorem C05_source_rank_256 : forall vs r, len vs < RSQ_MAXN -> rsq_new 256 vs = Val r -> forall c i,
  g_rsq256_rank (rsq_wdata r) (rsq_pos r) (rs_superblocks (rsq_rs r)) c i
  = Val (if (c <=? 3) && (i <=? len vs) then Some (rank_spec (map sym4 vs) c i) else None).
Proof. exact g_rsq256_rank_new. Qed.
Print Assumptions C05_source_rank_256.
Theorem C05_source_rank_512 : forall vs r, len vs < RSQ_MAXN -> rsq_new 512 vs = Val r -> forall c i,
  g_rsq512_rank (rsq_wdata r) (rsq_pos r) (rs_superblocks (rsq_rs r)) c i
  = Val (if (c <=? 3) && (i <=? len vs) then Some (rank_spec (map sym4 vs) c i) else None).
Proof. exact g_rsq512_rank_new. Qed.
Print Assumptions C05_source_rank_512.
Theorem C05_source_select_256 : forall vs r, len vs < RSQ_MAXN -> rsq_new 256 vs = Val r ->
  forall c k fuel, k < 2 ^ 64 -> (S (S (N.to_nat (len vs / (8 * 256)))) <= fuel)%nat ->
  g_rsq256_select fuel (rsq_wdata r) (rs_superblocks (rsq_rs r)) (rs_samples (rsq_rs r))
    (rsq_occs_smaller r) c k
  = Val (if c <=? 3 then select_spec (map sym4 vs) c k else None).
Proof. exact g_rsq256_select_new. Qed.
Print Assumptions C05_source_select_256.
Theorem C05_source_select_512 : forall vs r, len vs < RSQ_MAXN -> rsq_new 512 vs = Val r ->
  forall c k fuel, k < 2 ^ 64 -> (S (S (N.to_nat (len vs / (8 * 512)))) <= fuel)%nat ->
  g_rsq512_select fuel (rsq_wdata r) (rs_superblocks (rsq_rs r)) (rs_samples (rsq_rs r))
    (rsq_occs_smaller r) c k
  = Val (if c <=? 3 then select_spec (map sym4 vs) c k else None).
Proof. exact g_rsq512_select_new. Qed.
Print Assumptions C05_source_select_512.
Theorem C05_source_select_unchecked_256 : forall vs r, len vs < RSQ_MAXN -> rsq_new 256 vs = Val r ->
  forall c k p fuel, c <= 3 -> select_spec (map sym4 vs) c k = Some p ->
  (S (S (N.to_nat (len vs / (8 * 256)))) <= fuel)%nat ->
  g_rsq256_select_unchecked fuel (rsq_wdata r) (rs_superblocks (rsq_rs r)) (rs_samples (rsq_rs r))
    (rsq_occs_smaller r) c k = Val p.
Proof. exact g_rsq256_select_unchecked_new. Qed.
Print Assumptions C05_source_select_unchecked_256.
Theorem C05_source_select_unchecked_512 : forall vs r, len vs < RSQ_MAXN -> rsq_new 512 vs = Val r ->
  forall c k p fuel, c <= 3 -> select_spec (map sym4 vs) c k = Some p ->
  (S (S (N.to_nat (len vs / (8 * 512)))) <= fuel)%nat ->
  g_rsq512_select_unchecked fuel (rsq_wdata r) (rs_superblocks (rsq_rs r)) (rs_samples (rsq_rs r))
    (rsq_occs_smaller r) c k = Val p.
Proof. exact g_rsq512_select_unchecked_new. Qed.
Print Assumptions C05_source_select_unchecked_512.
Theorem C05_source_get : forall bsize vs r, (bsize = 256 \/ bsize = 512) -> len vs < RSQ_MAXN ->
  rsq_new bsize vs = Val r -> forall i,
  g_rsq256_get (rsq_wdata r) (rsq_pos r) i = Val (nthN (map sym4 vs) i) /\
  g_rsq512_get (rsq_wdata r) (rsq_pos r) i = Val (nthN (map sym4 vs) i).
Proof. exact g_rsq_get_new. Qed.
Print Assumptions C05_source_get.
Theorem C05_source_occs : forall bsize vs r, (bsize = 256 \/ bsize = 512) -> len vs < RSQ_MAXN ->
  rsq_new bsize vs = Val r -> forall c,
  g_rsq256_occs (rsq_occs_smaller r) c = Val (if c <=? 3 then Some (countN c (map sym4 vs)) else None) /\
  g_rsq512_occs (rsq_occs_smaller r) c = Val (if c <=? 3 then Some (countN c (map sym4 vs)) else None).
Proof. exact g_rsq_occs_new. Qed.
Print Assumptions C05_source_occs.
Theorem C05_source_occs_smaller : forall bsize vs r, (bsize = 256 \/ bsize = 512) -> len vs < RSQ_MAXN ->
  rsq_new bsize vs = Val r -> forall c,
  g_rsq256_occs_smaller (rsq_occs_smaller r) c = Val (if c <=? 3 then Some (count_lt c (map sym4 vs)) else None) /\
  g_rsq512_occs_smaller (rsq_occs_smaller r) c = Val (if c <=? 3 then Some (count_lt c (map sym4 vs)) else None).
Proof. exact g_rsq_occs_smaller_new. Qed.
Print Assumptions C05_source_occs_smaller.
Theorem C05_source_len : forall bsize vs r, (bsize = 256 \/ bsize = 512) -> len vs < RSQ_MAXN ->
  rsq_new bsize vs = Val r ->
  g_rsq256_len (rsq_pos r) = Val (len vs) /\ g_rsq512_len (rsq_pos r) = Val (len vs).
Proof. exact g_rsq_len_new. Qed.
Print Assumptions C05_source_len.
(* non-vacuity: the regenerated functions evaluated on the word view of the 600-symbol example *)
Theorem C05_source_example : g_rsq_example_checks256 /\ g_rsq_example_checks512.
Proof. exact (conj g_rsq_example_256 g_rsq_example_512). Qed.
Print Assumptions C05_source_example.

(* ---- the directory CONSTRUCTOR regenerated from src/qvector/rs_qvector/rs_support_plain.rs on every run (T5:
   SuperblockPlain::new / set_block_counters, RSSupportPlain::<B>::new): run on the stored quad vector it returns exactly
   the superblocks and select samples of the hand model (value or fault alike), so the regenerated queries above, run on
   the directory the regenerated constructor built, answer by the list specification. *)
From QwtModel Require Import FnsRssNewOk.
Theorem C05_source_sb_new : forall sbc, len sbc = 4 -> g_sb_new sbc = Val (sb_new sbc).
Proof. exact g_sb_new_ok. Qed.
Print Assumptions C05_source_sb_new.
Theorem C05_source_sb_set_block_counters : forall s block_id counters, len s = 4 -> len counters = 4 ->
  g_sb_set_block_counters s block_id counters = sb_set_block_counters s block_id counters.
Proof. exact g_sb_set_block_counters_ok. Qed.
Print Assumptions C05_source_sb_set_block_counters.
Theorem C05_source_directory_new_256 : forall q syms, qv_lines_ok q -> qv_cap_ok q -> qv_symbols q = Val syms ->
  g_rss256_new (pack_qdata (qv_data q)) (qv_position q)
  = let! rs := rss_new 256 syms in Val (rs_superblocks rs, rs_samples rs).
Proof. exact g_rss256_new_ok. Qed.
Print Assumptions C05_source_directory_new_256.
Theorem C05_source_directory_new_512 : forall q syms, qv_lines_ok q -> qv_cap_ok q -> qv_symbols q = Val syms ->
  g_rss512_new (pack_qdata (qv_data q)) (qv_position q)
  = let! rs := rss_new 512 syms in Val (rs_superblocks rs, rs_samples rs).
Proof. exact g_rss512_new_ok. Qed.
Print Assumptions C05_source_directory_new_512.
Theorem C05_source_directory_e2e_256 : forall vs r, rsq_new 256 vs = Val r ->
  g_rss256_new (rsq_wdata r) (rsq_pos r) = Val (rs_superblocks (rsq_rs r), rs_samples (rsq_rs r)).
Proof. exact g_rss256_new_e2e. Qed.
Print Assumptions C05_source_directory_e2e_256.
Theorem C05_source_directory_e2e_512 : forall vs r, rsq_new 512 vs = Val r ->
  g_rss512_new (rsq_wdata r) (rsq_pos r) = Val (rs_superblocks (rsq_rs r), rs_samples (rsq_rs r)).
Proof. exact g_rss512_new_e2e. Qed.
Print Assumptions C05_source_directory_e2e_512.
Theorem C05_source_regenerated_dir_256 : forall vs r, len vs < RSQ_MAXN -> rsq_new 256 vs = Val r ->
  exists sbs samples, g_rss256_new (rsq_wdata r) (rsq_pos r) = Val (sbs, samples) /\
    (forall c i, g_rsq256_rank (rsq_wdata r) (rsq_pos r) sbs c i
       = Val (if (c <=? 3) && (i <=? len vs) then Some (rank_spec (map sym4 vs) c i) else None)) /\
    (forall c k fuel, k < 2 ^ 64 -> (S (S (N.to_nat (len vs / (8 * 256)))) <= fuel)%nat ->
       g_rsq256_select fuel (rsq_wdata r) sbs samples (rsq_occs_smaller r) c k
       = Val (if c <=? 3 then select_spec (map sym4 vs) c k else None)) /\
    (forall c i, c <= 3 -> i <= len vs ->
       g_rsq256_rank_unchecked (rsq_wdata r) sbs c i = Val (rank_spec (map sym4 vs) c i)) /\
    (forall c k p fuel, c <= 3 -> select_spec (map sym4 vs) c k = Some p ->
       (S (S (N.to_nat (len vs / (8 * 256)))) <= fuel)%nat ->
       g_rsq256_select_unchecked fuel (rsq_wdata r) sbs samples (rsq_occs_smaller r) c k = Val p) /\
    (forall c i, c <= 3 -> i <= len vs ->
       exists v, g_rsq256_rank_block_unchecked sbs c i = Val v /\ v <= rank_spec (map sym4 vs) c i).
Proof. exact g_rsq256_regenerated_dir. Qed.
Print Assumptions C05_source_regenerated_dir_256.
Theorem C05_source_regenerated_dir_512 : forall vs r, len vs < RSQ_MAXN -> rsq_new 512 vs = Val r ->
  exists sbs samples, g_rss512_new (rsq_wdata r) (rsq_pos r) = Val (sbs, samples) /\
    (forall c i, g_rsq512_rank (rsq_wdata r) (rsq_pos r) sbs c i
       = Val (if (c <=? 3) && (i <=? len vs) then Some (rank_spec (map sym4 vs) c i) else None)) /\
    (forall c k fuel, k < 2 ^ 64 -> (S (S (N.to_nat (len vs / (8 * 512)))) <= fuel)%nat ->
       g_rsq512_select fuel (rsq_wdata r) sbs samples (rsq_occs_smaller r) c k
       = Val (if c <=? 3 then select_spec (map sym4 vs) c k else None)) /\
    (forall c i, c <= 3 -> i <= len vs ->
       g_rsq512_rank_unchecked (rsq_wdata r) sbs c i = Val (rank_spec (map sym4 vs) c i)) /\
    (forall c k p fuel, c <= 3 -> select_spec (map sym4 vs) c k = Some p ->
       (S (S (N.to_nat (len vs / (8 * 512)))) <= fuel)%nat ->
       g_rsq512_select_unchecked fuel (rsq_wdata r) sbs samples (rsq_occs_smaller r) c k = Val p) /\
    (forall c i, c <= 3 -> i <= len vs ->
       exists v, g_rsq512_rank_block_unchecked sbs c i = Val v /\ v <= rank_spec (map sym4 vs) c i).
Proof. exact g_rsq512_regenerated_dir. Qed.
Print Assumptions C05_source_regenerated_dir_512.
Theorem C05_source_directory_total : forall vs, len vs < RSQ_MAXN ->
  exists r, rsq_new 256 vs = Val r /\
    g_rss256_new (rsq_wdata r) (rsq_pos r) = Val (rs_superblocks (rsq_rs r), rs_samples (rsq_rs r)).
Proof. exact g_rss_new_total. Qed.
Print Assumptions C05_source_directory_total.

(* ---- From<QVector> (the directory call, the symbol counts, the prefix sums), Default and the public constructor
   RSQVector::new (QVector::from_iter then From) REGENERATED (T5, end of Gen/FnsRsq.v): equal to the hand model, value or fault
   alike, on every well-formed quad vector; and the regenerated public constructor followed by the regenerated queries is
   the list specification on the stored symbols (v mod 4), with no hand-model function in the statement. *)
From QwtModel Require Import FnsQvb FnsRsqFromOk FnsWrapRsqOk.
Theorem C05_source_from_256 : forall q, qv_lines_ok q -> qv_cap_ok q ->
  g_rsq256_from (pack_qdata (qv_data q)) (qv_position q)
  = let! r := rsq_from_qv 256 q in
    Val (rsq_wdata r, rsq_pos r, rs_superblocks (rsq_rs r), rs_samples (rsq_rs r), rsq_occs_smaller r).
Proof. exact g_rsq256_from_ok. Qed.
Print Assumptions C05_source_from_256.
Theorem C05_source_from_512 : forall q, qv_lines_ok q -> qv_cap_ok q ->
  g_rsq512_from (pack_qdata (qv_data q)) (qv_position q)
  = let! r := rsq_from_qv 512 q in
    Val (rsq_wdata r, rsq_pos r, rs_superblocks (rsq_rs r), rs_samples (rsq_rs r), rsq_occs_smaller r).
Proof. exact g_rsq512_from_ok. Qed.
Print Assumptions C05_source_from_512.
Theorem C05_source_default_256 :
  g_rsq256_default
  = let! r := rsq_default 256 in
    Val (rsq_wdata r, rsq_pos r, rs_superblocks (rsq_rs r), rs_samples (rsq_rs r), rsq_occs_smaller r).
Proof. exact g_rsq256_default_ok. Qed.
Print Assumptions C05_source_default_256.
Theorem C05_source_default_512 :
  g_rsq512_default
  = let! r := rsq_default 512 in
    Val (rsq_wdata r, rsq_pos r, rs_superblocks (rsq_rs r), rs_samples (rsq_rs r), rsq_occs_smaller r).
Proof. exact g_rsq512_default_ok. Qed.
Print Assumptions C05_source_default_512.
Theorem C05_source_new_256 : forall wT vs, len vs < RSQ_MAXN ->
  exists d p sbs samples occs,
    g_rsq256_new wT vs = Val (d, p, sbs, samples, occs) /\
    g_rsq256_len p = Val (len vs) /\ g_rsq256_is_empty p = Val (len vs =? 0) /\
    (forall i, g_rsq256_get d p i = Val (nthN (map sym4 vs) i)) /\
    (forall i x, nthN (map sym4 vs) i = Some x -> g_rsq256_get_unchecked d p i = Val x) /\
    (forall c i, g_rsq256_rank d p sbs c i
       = Val (if (c <=? 3) && (i <=? len vs) then Some (rank_spec (map sym4 vs) c i) else None)) /\
    (forall c k fuel, k < 2 ^ 64 -> (S (S (N.to_nat (len vs / (8 * 256)))) <= fuel)%nat ->
       g_rsq256_select fuel d sbs samples occs c k
       = Val (if c <=? 3 then select_spec (map sym4 vs) c k else None)) /\
    (forall c i, c <= 3 -> i <= len vs ->
       g_rsq256_rank_unchecked d sbs c i = Val (rank_spec (map sym4 vs) c i)) /\
    (forall c k pos fuel, c <= 3 -> select_spec (map sym4 vs) c k = Some pos ->
       (S (S (N.to_nat (len vs / (8 * 256)))) <= fuel)%nat ->
       g_rsq256_select_unchecked fuel d sbs samples occs c k = Val pos) /\
    (forall c i, c <= 3 -> i <= len vs ->
       exists v, g_rsq256_rank_block_unchecked sbs c i = Val v /\ v <= rank_spec (map sym4 vs) c i) /\
    (forall c, g_rsq256_occs occs c = Val (if c <=? 3 then Some (countN c (map sym4 vs)) else None)) /\
    (forall c, g_rsq256_occs_smaller occs c = Val (if c <=? 3 then Some (count_lt c (map sym4 vs)) else None)) /\
    (forall c, c <= 3 -> g_rsq256_occs_unchecked occs c = Val (countN c (map sym4 vs))) /\
    (forall c, c <= 3 -> g_rsq256_occs_smaller_unchecked occs c = Val (count_lt c (map sym4 vs))).
Proof. exact g_rsq256_new_correct. Qed.
Print Assumptions C05_source_new_256.
Theorem C05_source_new_512 : forall wT vs, len vs < RSQ_MAXN ->
  exists d p sbs samples occs,
    g_rsq512_new wT vs = Val (d, p, sbs, samples, occs) /\
    g_rsq512_len p = Val (len vs) /\ g_rsq512_is_empty p = Val (len vs =? 0) /\
    (forall i, g_rsq512_get d p i = Val (nthN (map sym4 vs) i)) /\
    (forall i x, nthN (map sym4 vs) i = Some x -> g_rsq512_get_unchecked d p i = Val x) /\
    (forall c i, g_rsq512_rank d p sbs c i
       = Val (if (c <=? 3) && (i <=? len vs) then Some (rank_spec (map sym4 vs) c i) else None)) /\
    (forall c k fuel, k < 2 ^ 64 -> (S (S (N.to_nat (len vs / (8 * 512)))) <= fuel)%nat ->
       g_rsq512_select fuel d sbs samples occs c k
       = Val (if c <=? 3 then select_spec (map sym4 vs) c k else None)) /\
    (forall c i, c <= 3 -> i <= len vs ->
       g_rsq512_rank_unchecked d sbs c i = Val (rank_spec (map sym4 vs) c i)) /\
    (forall c k pos fuel, c <= 3 -> select_spec (map sym4 vs) c k = Some pos ->
       (S (S (N.to_nat (len vs / (8 * 512)))) <= fuel)%nat ->
       g_rsq512_select_unchecked fuel d sbs samples occs c k = Val pos) /\
    (forall c i, c <= 3 -> i <= len vs ->
       exists v, g_rsq512_rank_block_unchecked sbs c i = Val v /\ v <= rank_spec (map sym4 vs) c i) /\
    (forall c, g_rsq512_occs occs c = Val (if c <=? 3 then Some (countN c (map sym4 vs)) else None)) /\
    (forall c, g_rsq512_occs_smaller occs c = Val (if c <=? 3 then Some (count_lt c (map sym4 vs)) else None)) /\
    (forall c, c <= 3 -> g_rsq512_occs_unchecked occs c = Val (countN c (map sym4 vs))) /\
    (forall c, c <= 3 -> g_rsq512_occs_smaller_unchecked occs c = Val (count_lt c (map sym4 vs))).
Proof. exact g_rsq512_new_correct. Qed.
Print Assumptions C05_source_new_512.
