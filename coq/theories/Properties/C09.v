(* C09 — Prefetching never changes an answer or causes a fault.
   rank_prefetch = (validity checks; estimation phase; exact rank).  The estimation phase only
   computes prefetch addresses (prefetch_read_NTA has no architectural effect and is not
   modelled); what can go wrong is a panic or an out-of-range access INSIDE it: the sampled rank
   is `rank1(i >> 11 + 1).unwrap()` on a sampled bit vector, and the estimated positions are used
   as indices of counter arrays.  The theorems say: for every sequence, symbol and position the
   model of rank_prefetch (types with and without prefetch support, plain and Huffman-shaped)
   returns exactly what rank returns — in particular no Fault.  Feature on/off equality is
   checked by the harness (two builds must print identical lines).  Statements only. *)
From QwtModel Require Import ListX Seq Consts Words QVec RSQ QWT Huff Prefetch RSQBuild WordsP QWTP HQWTP PrefetchL PrefetchV PrefetchP.

(* types without prefetch support (QWT256/512, HQWT256/512): part of the tree contracts *)
Theorem C09_qwt_plain : forall w bsize seq t, QWTP.width_ok w -> (bsize = 256 \/ bsize = 512) ->
  Forall (fun x => x < 2 ^ w) seq -> len seq < RSQ_MAXN -> qwt_new w bsize seq = Val t ->
  forall c i, c < 2 ^ w -> qwt_rank_prefetch w bsize t c i = qwt_rank w bsize t c i.
Proof.
  intros w bsize seq t Hw Hb Hs Hn E. destruct (qwt_new_correct w bsize seq Hw Hb Hs Hn) as (t' & E' & S).
  rewrite E in E'. injection E' as <-. destruct S as (_ & _ & _ & _ & _ & _ & P & _). exact P.
Qed.
Print Assumptions C09_qwt_plain.

(* types WITH prefetch support (QWT256Pfs/512Pfs): the sampled estimation never faults *)
Theorem C09_qwt_pfs : forall w bsize seq t pfs, QWTP.width_ok w -> (bsize = 256 \/ bsize = 512) ->
  Forall (fun x => x < 2 ^ w) seq -> len seq < RSQ_MAXN ->
  qwt_new w bsize seq = Val t -> qwt_pfs_new w seq = Val pfs ->
  forall c i, c < 2 ^ w -> qwt_rank_prefetch_pfs w bsize t pfs c i = qwt_rank w bsize t c i.
Proof. exact (qwt_rank_prefetch_pfs_correct select_in_word_correct popcount_correct). Qed.
Print Assumptions C09_qwt_pfs.
Theorem C09_qwt_pfs_built : forall w seq, QWTP.width_ok w -> Forall (fun x => x < 2 ^ w) seq -> len seq < RSQ_MAXN ->
  exists pfs, qwt_pfs_new w seq = Val pfs.
Proof. exact (qwt_pfs_new_total select_in_word_correct popcount_correct). Qed.
Print Assumptions C09_qwt_pfs_built.

(* Huffman-shaped trees with prefetch support: levels shrink, the estimate may exceed the exact
   position by one per level (the proved invariant), still inside every sampled vector *)
Theorem C09_hqwt_pfs : forall w bsize seq tab t pfs, HQWTP.width_ok w -> (bsize = 256 \/ bsize = 512) ->
  Forall (fun x => x < 2 ^ w) seq -> len seq < RSQ_MAXN -> table_ok seq tab ->
  hq_build bsize seq tab = Val t -> hq_pfs_new seq tab = Val pfs ->
  forall c i, c < 2 ^ w -> hq_rank_prefetch_pfs bsize t pfs c i = hq_rank bsize t c i.
Proof. exact (hq_rank_prefetch_pfs_correct select_in_word_correct popcount_correct). Qed.
Print Assumptions C09_hqwt_pfs.

(* the estimates really are imprecise, in both directions: the sampled rank can exceed the exact
   rank (count reaching a multiple of 2048 exactly at a sampling index) *)
Theorem C09_estimate_can_exceed_exact : pfs_val above_D 0 2048 = 2048 /\ countN 0 (firstnN 2048 above_D) = 2047 /\ 2048 < pfs_bound above_D.
Proof. exact pfs_val_above_rank. Qed.
Print Assumptions C09_estimate_can_exceed_exact.

(* ---- rank_prefetch / rank_prefetch_unchecked of the types WITHOUT prefetch support (QWT256 / QWT512) REGENERATED from
   src/quadwt/mod.rs on every run (T5, Gen/FnsQwtnew.v: the estimation loop over the levels with its `Range`, the arguments of
   every prefetch call evaluated with their checked arithmetic and index checks, then rank_unchecked): the estimation phase
   never faults and has no effect, so on every tree — also one built by the regenerated constructors — rank_prefetch is rank,
   for every symbol and every position. *)
From QwtModel Require Import Loops FnsQwt FnsQwtnew FnsQwtOk FnsWrapQwtOk FnsQwtPrefetchOk.
Theorem C09_source_plain_256 : forall k w s, width_ok w -> Forall (fun x => x < 2 ^ w) s ->
  len s < RSQ_MAXN ->
  exists n nl sg d p sb sm oc,
    qwt256_ctor k w s = Val (n, nl, sg, d, p, sb, sm, oc) /\
    (forall c i, c < 2 ^ w ->
       g_qwt256_rank_prefetch w n nl sg d sb oc c i
       = Val (if negb (len s =? 0) && (i <=? len s) && (c <=? maxN s) then Some (rank_spec s c i) else None) /\
       g_qwt256_rank_prefetch w n nl sg d sb oc c i = g_qwt256_rank w n nl sg d sb oc c i) /\
    (forall c i, i <= len s ->
       g_qwt256_rank_prefetch_unchecked w nl d sb oc c i = g_qwt256_rank_unchecked w nl d sb oc c i) /\
    (forall c i, 0 < len s -> c <= maxN s -> i <= len s ->
       g_qwt256_rank_prefetch_unchecked w nl d sb oc c i = Val (rank_spec s c i)).
Proof. exact g_qwt256_ctors_rank_prefetch. Qed.
Print Assumptions C09_source_plain_256.
Theorem C09_source_plain_512 : forall k w s, width_ok w -> Forall (fun x => x < 2 ^ w) s ->
  len s < RSQ_MAXN ->
  exists n nl sg d p sb sm oc,
    qwt512_ctor k w s = Val (n, nl, sg, d, p, sb, sm, oc) /\
    (forall c i, c < 2 ^ w ->
       g_qwt512_rank_prefetch w n nl sg d sb oc c i
       = Val (if negb (len s =? 0) && (i <=? len s) && (c <=? maxN s) then Some (rank_spec s c i) else None) /\
       g_qwt512_rank_prefetch w n nl sg d sb oc c i = g_qwt512_rank w n nl sg d sb oc c i) /\
    (forall c i, i <= len s ->
       g_qwt512_rank_prefetch_unchecked w nl d sb oc c i = g_qwt512_rank_unchecked w nl d sb oc c i) /\
    (forall c i, 0 < len s -> c <= maxN s -> i <= len s ->
       g_qwt512_rank_prefetch_unchecked w nl d sb oc c i = Val (rank_spec s c i)).
Proof. exact g_qwt512_ctors_rank_prefetch. Qed.
Print Assumptions C09_source_plain_512.
Theorem C09_source_eq_rank_256 : forall w s t, width_ok w -> Forall (fun x => x < 2 ^ w) s ->
  len s < RSQ_MAXN -> qwt_new w 256 s = Val t -> forall c i,
  g_qwt256_rank_prefetch w (q_n t) (q_n_levels t) (q_sigma t) (qwt_data t) (qwt_sbs t) (qwt_occs t) c i
  = g_qwt256_rank w (q_n t) (q_n_levels t) (q_sigma t) (qwt_data t) (qwt_sbs t) (qwt_occs t) c i.
Proof. exact g_qwt256_rank_prefetch_eq_rank. Qed.
Print Assumptions C09_source_eq_rank_256.
Theorem C09_source_eq_rank_512 : forall w s t, width_ok w -> Forall (fun x => x < 2 ^ w) s ->
  len s < RSQ_MAXN -> qwt_new w 512 s = Val t -> forall c i,
  g_qwt512_rank_prefetch w (q_n t) (q_n_levels t) (q_sigma t) (qwt_data t) (qwt_sbs t) (qwt_occs t) c i
  = g_qwt512_rank w (q_n t) (q_n_levels t) (q_sigma t) (qwt_data t) (qwt_sbs t) (qwt_occs t) c i.
Proof. exact g_qwt512_rank_prefetch_eq_rank. Qed.
Print Assumptions C09_source_eq_rank_512.

(* ---- the same for the Huffman-shaped types without prefetch support (HQWT256 / HQWT512): rank_prefetch(_unchecked) of
   src/quadwt/huffqwt.rs REGENERATED (T5, Gen/FnsHqwt.v: the code lookup, the `while shift >= 2` estimation loop, the prefetch
   arguments, then rank_unchecked): on every built tree the estimation never faults and has no effect; rank_prefetch = rank for
   every symbol (with or without a code, inside or outside the table) and every position. *)
From QwtModel Require Import FnsHqwt FnsHqwtOk FnsHqwtPrefetchOk HQWTP.
Theorem C09_source_hqwt_eq_rank_256 : forall w seq tab t fuel, width_ok w ->
  Forall (fun x => x < 2 ^ w) seq -> len seq < RSQ_MAXN -> table_ok seq tab ->
  hq_build 256 seq tab = Val t -> (17 <= fuel)%nat ->
  forall c i,
  g_hqwt256_rank_prefetch fuel w (h_n t) (hq_enc_content t) (hq_enc_len t) (hq_data t) (hq_sbs t) (hq_occs t) c i
  = g_hqwt256_rank fuel w (h_n t) (hq_enc_content t) (hq_enc_len t) (hq_data t) (hq_sbs t) (hq_occs t) c i.
Proof. exact g_hqwt256_rank_prefetch_eq_rank. Qed.
Print Assumptions C09_source_hqwt_eq_rank_256.
Theorem C09_source_hqwt_eq_rank_512 : forall w seq tab t fuel, width_ok w ->
  Forall (fun x => x < 2 ^ w) seq -> len seq < RSQ_MAXN -> table_ok seq tab ->
  hq_build 512 seq tab = Val t -> (17 <= fuel)%nat ->
  forall c i,
  g_hqwt512_rank_prefetch fuel w (h_n t) (hq_enc_content t) (hq_enc_len t) (hq_data t) (hq_sbs t) (hq_occs t) c i
  = g_hqwt512_rank fuel w (h_n t) (hq_enc_content t) (hq_enc_len t) (hq_data t) (hq_sbs t) (hq_occs t) c i.
Proof. exact g_hqwt512_rank_prefetch_eq_rank. Qed.
Print Assumptions C09_source_hqwt_eq_rank_512.
Theorem C09_source_hqwt_built_256 : forall w seq tab t fuel, width_ok w ->
  Forall (fun x => x < 2 ^ w) seq -> len seq < RSQ_MAXN -> table_ok seq tab ->
  hq_build 256 seq tab = Val t ->
  (17 <= fuel)%nat -> (S (S (N.to_nat (len seq / (8 * 256)))) <= fuel)%nat ->
  forall c i, c < 2 ^ w -> i < 2 ^ 64 ->
  g_hqwt256_rank_prefetch fuel w (h_n t) (hq_enc_content t) (hq_enc_len t) (hq_data t) (hq_sbs t) (hq_occs t) c i
  = Val (if (i <=? len seq) && (0 <? countN c seq) then Some (rank_spec seq c i) else None).
Proof. exact g_hqwt256_rank_prefetch_built. Qed.
Print Assumptions C09_source_hqwt_built_256.
Theorem C09_source_hqwt_built_512 : forall w seq tab t fuel, width_ok w ->
  Forall (fun x => x < 2 ^ w) seq -> len seq < RSQ_MAXN -> table_ok seq tab ->
  hq_build 512 seq tab = Val t ->
  (17 <= fuel)%nat -> (S (S (N.to_nat (len seq / (8 * 512)))) <= fuel)%nat ->
  forall c i, c < 2 ^ w -> i < 2 ^ 64 ->
  g_hqwt512_rank_prefetch fuel w (h_n t) (hq_enc_content t) (hq_enc_len t) (hq_data t) (hq_sbs t) (hq_occs t) c i
  = Val (if (i <=? len seq) && (0 <? countN c seq) then Some (rank_spec seq c i) else None).
Proof. exact g_hqwt512_rank_prefetch_built. Qed.
Print Assumptions C09_source_hqwt_built_512.
