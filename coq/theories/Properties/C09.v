(* C09 — Prefetching never changes an answer or causes a fault.
   rank_prefetch = (validity checks; estimation phase; exact rank).  The estimation phase only
   computes prefetch addresses (prefetch_read_NTA has no architectural effect and is not
   modelled); what can go wrong is a panic or an out-of-range access INSIDE it: the sampled rank
   is `rank1(i >> 11 + 1).unwrap()` on a sampled bit vector, and the estimated positions are used
   as indices of counter arrays.  The theorems say: for every sequence, symbol and position the
   model of rank_prefetch (types with and without prefetch support, plain and Huffman-shaped)
   returns exactly what rank returns — in particular no Fault.  Feature on/off equality is
   checked by the harness (two builds must print identical lines).  Statements only. *)
From QwtModel Require Import ListX Seq Consts Words QVec RSQ QWT Huff Prefetch RSQBuild WordsP QWTP HQWTP PrefetchL PrefetchV PrefetchP.

(* types without prefetch support (QWT256/512, HQWT256/512): part of the tree contracts *)
Theorem C09_qwt_plain : forall w bsize seq t, QWTP.width_ok w -> (bsize = 256 \/ bsize = 512) ->
  Forall (fun x => x < 2 ^ w) seq -> len seq < RSQ_MAXN -> qwt_new w bsize seq = Val t ->
  forall c i, c < 2 ^ w -> qwt_rank_prefetch w bsize t c i = qwt_rank w bsize t c i.
Proof.
  intros w bsize seq t Hw Hb Hs Hn E. destruct (qwt_new_correct w bsize seq Hw Hb Hs Hn) as (t' & E' & S).
  rewrite E in E'. injection E' as <-. destruct S as (_ & _ & _ & _ & _ & _ & P & _). exact P.
Qed.
Print Assumptions C09_qwt_plain.

(* types WITH prefetch support (QWT256Pfs/512Pfs): the sampled estimation never faults *)
Theorem C09_qwt_pfs : forall w bsize seq t pfs, QWTP.width_ok w -> (bsize = 256 \/ bsize = 512) ->
  Forall (fun x => x < 2 ^ w) seq -> len seq < RSQ_MAXN ->
  qwt_new w bsize seq = Val t -> qwt_pfs_new w seq = Val pfs ->
  forall c i, c < 2 ^ w -> qwt_rank_prefetch_pfs w bsize t pfs c i = qwt_rank w bsize t c i.
Proof. exact (qwt_rank_prefetch_pfs_correct select_in_word_correct popcount_correct). Qed.
Print Assumptions C09_qwt_pfs.
Theorem C09_qwt_pfs_built : forall w seq, QWTP.width_ok w -> Forall (fun x => x < 2 ^ w) seq -> len seq < RSQ_MAXN ->
  exists pfs, qwt_pfs_new w seq = Val pfs.
Proof. exact (qwt_pfs_new_total select_in_word_correct popcount_correct). Qed.
Print Assumptions C09_qwt_pfs_built.

(* Huffman-shaped trees with prefetch support: levels shrink, the estimate may exceed the exact
   position by one per level (the proved invariant), still inside every sampled vector *)
Theorem C09_hqwt_pfs : forall w bsize seq tab t pfs, HQWTP.width_ok w -> (bsize = 256 \/ bsize = 512) ->
  Forall (fun x => x < 2 ^ w) seq -> len seq < RSQ_MAXN -> table_ok seq tab ->
  hq_build bsize seq tab = Val t -> hq_pfs_new seq tab = Val pfs ->
  forall c i, c < 2 ^ w -> hq_rank_prefetch_pfs bsize t pfs c i = hq_rank bsize t c i.
Proof. exact (hq_rank_prefetch_pfs_correct select_in_word_correct popcount_correct). Qed.
Print Assumptions C09_hqwt_pfs.

(* the estimates really are imprecise, in both directions: the sampled rank can exceed the exact
   rank (count reaching a multiple of 2048 exactly at a sampling index) *)
Theorem C09_estimate_can_exceed_exact : pfs_val above_D 0 2048 = 2048 /\ countN 0 (firstnN 2048 above_D) = 2047 /\ 2048 < pfs_bound above_D.
Proof. exact pfs_val_above_rank. Qed.
Print Assumptions C09_estimate_can_exceed_exact.
