(* C15 — Huffman-shaped trees are entropy-bounded and never larger than the plain tree.
   Pure mathematics over the reals (Spec/Entropy.v) for ALL frequency vectors, plus the link
   to the tree: the level data of the Huffman-shaped tree is exactly sum_c f_c * len_c bits
   (Proofs/LevelBitsP.v).  The optimality of the code LENGTHS is an assumption about the
   external crate minimum_redundancy (hypothesis [optimal]); it is validated per generated
   input by the correspondence run.  Statements only, closed by [exact].
   Axioms: only the standard library's Reals axioms (see Print Assumptions). *)
From Coq Require Import Reals List Arith.
From QwtModel Require Import Entropy.
Import ListNotations.

Theorem C15_quad_entropy_bound : forall fs ls,
  Forall (fun f => 0 < f)%nat fs -> fs <> [] -> optimal 4 fs ls ->
  (2 * INR (cost fs ls) <= INR (total fs) * (H0 fs + 2))%R.
Proof. exact optimal_entropy_quad. Qed.
Print Assumptions C15_quad_entropy_bound.

Theorem C15_binary_entropy_bound : forall fs ls,
  Forall (fun f => 0 < f)%nat fs -> fs <> [] -> optimal 2 fs ls ->
  (INR (cost fs ls) <= INR (total fs) * (H0 fs + 1))%R.
Proof. exact optimal_entropy_bin. Qed.
Print Assumptions C15_binary_entropy_bound.

(* never more level data than the plain tree: L levels of d-ary digits suffice for d^L symbols *)
Theorem C15_never_larger_than_plain : forall d L fs ls,
  (2 <= d)%nat -> (1 <= L)%nat -> (length fs <= d ^ L)%nat -> optimal d fs ls -> (cost fs ls <= total fs * L)%nat.
Proof. exact optimal_le_fixed. Qed.
Print Assumptions C15_never_larger_than_plain.

(* the Shannon lengths witness the bound and are a feasible code (used to validate the
   optimality assumption on every generated input) *)
Theorem C15_shannon_feasible : forall d fs, (2 <= d)%nat -> Forall (fun f => 0 < f)%nat fs -> fs <> [] ->
  (kraft d (map (shl d (total fs)) fs) <= 1)%R.
Proof. exact shannon_kraft. Qed.
Print Assumptions C15_shannon_feasible.
Theorem C15_shannon_cost_quad : forall fs, Forall (fun f => 0 < f)%nat fs -> fs <> [] ->
  (2 * INR (cost fs (map (shl 4 (total fs)) fs)) <= INR (total fs) * (H0 fs + 2))%R.
Proof. exact shannon_cost_quad. Qed.
Print Assumptions C15_shannon_cost_quad.
(* non-vacuity *)
Theorem C15_example : optimal 4 [5;2;1;1]%nat [1;1;1;1]%nat.
Proof. exact ex_optimal. Qed.
Print Assumptions C15_example.
