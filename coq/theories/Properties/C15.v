(* C15 — Huffman-shaped trees are entropy-bounded and never larger than the plain tree.
   Pure mathematics over the reals (Spec/Entropy.v) for ALL frequency vectors, plus the link
   to the tree: the level data of the Huffman-shaped tree is exactly sum_c f_c * len_c bits
   (Proofs/LevelBitsP.v).  The optimality of the code LENGTHS is an assumption about the
   external crate minimum_redundancy (hypothesis [optimal]); it is validated per generated
   input by the correspondence run.  Statements only, closed by [exact].
   Axioms: only the standard library's Reals axioms (see Print Assumptions). *)
From Coq Require Import Reals List Arith NArith.
From QwtModel Require Import ListX Consts QVec RSQ Huff Codes RSQBuild Entropy LevelBitsP.
From QwtModel Require HQWTP BinWTP.
Import ListNotations.

Theorem C15_quad_entropy_bound : forall fs ls,
  Forall (fun f => 0 < f)%nat fs -> fs <> [] -> optimal 4 fs ls ->
  (2 * INR (cost fs ls) <= INR (total fs) * (H0 fs + 2))%R.
Proof. exact optimal_entropy_quad. Qed.
Print Assumptions C15_quad_entropy_bound.

Theorem C15_binary_entropy_bound : forall fs ls,
  Forall (fun f => 0 < f)%nat fs -> fs <> [] -> optimal 2 fs ls ->
  (INR (cost fs ls) <= INR (total fs) * (H0 fs + 1))%R.
Proof. exact optimal_entropy_bin. Qed.
Print Assumptions C15_binary_entropy_bound.

(* never more level data than the plain tree: L levels of d-ary digits suffice for d^L symbols *)
Theorem C15_never_larger_than_plain : forall d L fs ls,
  (2 <= d)%nat -> (1 <= L)%nat -> (length fs <= d ^ L)%nat -> optimal d fs ls -> (cost fs ls <= total fs * L)%nat.
Proof. exact optimal_le_fixed. Qed.
Print Assumptions C15_never_larger_than_plain.

(* the Shannon lengths witness the bound and are a feasible code (used to validate the
   optimality assumption on every generated input) *)
Theorem C15_shannon_feasible : forall d fs, (2 <= d)%nat -> Forall (fun f => 0 < f)%nat fs -> fs <> [] ->
  (kraft d (map (shl d (total fs)) fs) <= 1)%R.
Proof. exact shannon_kraft. Qed.
Print Assumptions C15_shannon_feasible.
Theorem C15_shannon_cost_quad : forall fs, Forall (fun f => 0 < f)%nat fs -> fs <> [] ->
  (2 * INR (cost fs (map (shl 4 (total fs)) fs)) <= INR (total fs) * (H0 fs + 2))%R.
Proof. exact shannon_cost_quad. Qed.
Print Assumptions C15_shannon_cost_quad.
(* non-vacuity *)
Theorem C15_example : optimal 4 [5;2;1;1]%nat [1;1;1;1]%nat.
Proof. exact ex_optimal. Qed.
Print Assumptions C15_example.

(* ---- the link to the tree model (Proofs/LevelBitsP.v) ----
   The symbols the Huffman-shaped quad tree stores over all its levels (h_lens, each level an
   RSQVector of exactly that many 2-bit symbols) are exactly sum_c f_c * len_c with f_c the
   number of occurrences of c and len_c its code length in 2-bit fragments: no padding, no
   duplicated level, nothing stored for a finished code. *)
Theorem C15_hq_level_symbols : forall w bsize seq tab t, HQWTP.width_ok w -> (bsize = 256 \/ bsize = 512) ->
  Forall (fun x => x < 2 ^ w)%N seq -> (len seq < RSQ_MAXN)%N -> HQWTP.table_ok seq tab ->
  hq_build bsize seq tab = Val t ->
  let syms := nodup N.eq_dec seq in
  let fs := map (fun c => N.to_nat (countN c seq)) syms in
  let ls := map (code_clen 2 tab) syms in
  sumN (h_lens t) = N.of_nat (cost fs ls).
Proof. exact hq_level_symbols_cost. Qed.
Print Assumptions C15_hq_level_symbols.

Theorem C15_hq_level_lens : forall w bsize seq tab t, HQWTP.width_ok w -> (bsize = 256 \/ bsize = 512) ->
  Forall (fun x => x < 2 ^ w)%N seq -> (len seq < RSQ_MAXN)%N -> HQWTP.table_ok seq tab ->
  hq_build bsize seq tab = Val t -> Forall2 (fun r n => rsq_len r = n) (h_qvs t) (h_lens t).
Proof. exact hq_level_lens. Qed.
Print Assumptions C15_hq_level_lens.

(* binary Huffman tree: the bits stored over all levels *)
Theorem C15_hwt_level_bits : forall w seq tab t, BinWTP.width_ok w -> Forall (fun x => x < 2 ^ w)%N seq ->
  (len seq < RSQ_MAXN)%N -> BinWTP.table_ok2 seq tab -> wt_build w true seq tab = Val t ->
  let syms := nodup N.eq_dec seq in
  let fs := map (fun c => N.to_nat (countN c seq)) syms in
  let ls := map (code_clen 1 tab) syms in
  sumN (w_lens t) = N.of_nat (cost fs ls).
Proof. exact hwt_level_bits_cost. Qed.
Print Assumptions C15_hwt_level_bits.

(* hence, for the tree the model builds, with the lengths of an optimal code
   (the external coder's contract): level data <= n * (H0 + 2) bits (quad), n * (H0 + 1) (binary) *)
Theorem C15_hq_tree_entropy : forall w bsize seq tab t, HQWTP.width_ok w -> (bsize = 256 \/ bsize = 512) ->
  Forall (fun x => x < 2 ^ w)%N seq -> (len seq < RSQ_MAXN)%N -> HQWTP.table_ok seq tab ->
  hq_build bsize seq tab = Val t -> seq <> [] ->
  let syms := nodup N.eq_dec seq in
  let fs := map (fun c => N.to_nat (countN c seq)) syms in
  let ls := map (code_clen 2 tab) syms in
  optimal 4 fs ls ->
  (2 * INR (N.to_nat (sumN (h_lens t))) <= INR (N.to_nat (len seq)) * (H0 fs + 2))%R.
Proof. exact hq_level_bits_entropy. Qed.
Print Assumptions C15_hq_tree_entropy.

Theorem C15_hwt_tree_entropy : forall w seq tab t, BinWTP.width_ok w -> Forall (fun x => x < 2 ^ w)%N seq ->
  (len seq < RSQ_MAXN)%N -> BinWTP.table_ok2 seq tab -> wt_build w true seq tab = Val t -> seq <> [] ->
  let syms := nodup N.eq_dec seq in
  let fs := map (fun c => N.to_nat (countN c seq)) syms in
  let ls := map (code_clen 1 tab) syms in
  optimal 2 fs ls ->
  (INR (N.to_nat (sumN (w_lens t))) <= INR (N.to_nat (len seq)) * (H0 fs + 1))%R.
Proof. exact hwt_level_bits_entropy. Qed.
Print Assumptions C15_hwt_tree_entropy.

(* and never more level data than the plain tree with L levels (which stores n symbols per level:
   C15_plain_levels) *)
Theorem C15_hq_tree_never_more_than_plain : forall w bsize seq tab t L, HQWTP.width_ok w -> (bsize = 256 \/ bsize = 512) ->
  Forall (fun x => x < 2 ^ w)%N seq -> (len seq < RSQ_MAXN)%N -> HQWTP.table_ok seq tab ->
  hq_build bsize seq tab = Val t ->
  let syms := nodup N.eq_dec seq in
  let fs := map (fun c => N.to_nat (countN c seq)) syms in
  let ls := map (code_clen 2 tab) syms in
  (1 <= L)%nat -> (length syms <= 4 ^ L)%nat -> optimal 4 fs ls ->
  (sumN (h_lens t) <= len seq * N.of_nat L)%N.
Proof. exact hq_never_more_than_plain. Qed.
Print Assumptions C15_hq_tree_never_more_than_plain.

Theorem C15_plain_levels : forall w bsize seq t, QWTP.width_ok w -> (bsize = 256 \/ bsize = 512) ->
  Forall (fun x => x < 2 ^ w)%N seq -> (len seq < RSQ_MAXN)%N -> QWT.qwt_new w bsize seq = Val t ->
  Forall (fun r => rsq_len r = len seq) (QWT.q_qvs t) /\ (seq <> [] -> len (QWT.q_qvs t) = QWT.q_n_levels t) /\
  sumN (map rsq_len (QWT.q_qvs t)) = (len seq * QWT.q_n_levels t)%N.
Proof. exact qwt_plain_level_symbols. Qed.
Print Assumptions C15_plain_levels.

(* non-vacuity: a concrete crafted table, tree and optimal code meet all the hypotheses *)
Theorem C15_tree_example : lb_ex_check 256 = true /\ lb_ex_check 512 = true.
Proof. exact (conj lb_example_256 lb_example_512). Qed.
Print Assumptions C15_tree_example.
