(* C07 — DArray select agrees with the bit vector for every distribution of ones.
   Statements only, closed by [exact]. *)
From QwtModel Require Import ListX Seq Consts Words BitVec RSBin DArrayM WordsP BitVecP DArrayP BinFinalP.

Definition C07_contract (s0 : bool) (d : darray) (s : list bool) : Prop :=
  da_len d = len s /\ da_count_ones d = countb s /\ da_count_zeros d = Val (len s - countb s) /\
  (forall i, da_get d i = Val (nthN s i)) /\
  (forall k, da_select1 d k = Val (select1_spec s k)) /\
  (s0 = true -> forall k, da_select0 true d k = Val (select0_spec s k)) /\
  (* documented panic: select0 on a DArray built without select0 support *)
  (s0 = false -> forall k, da_select0 false d k = Fault Panic).

(* built from bits: every vector — any mix of dense and sparse groups, partial last group, empty *)
Theorem C07_from_bits : forall s0 bs, len bs < 2 ^ 63 ->
  exists d, da_from_bools s0 bs = Val d /\ C07_contract s0 d bs.
Proof. exact (da_of_bools_correct select_in_word_correct popcount_correct). Qed.
Print Assumptions C07_from_bits.

(* built from a list of positions: strictly increasing lists give the characteristic vector,
   anything else is the documented panic *)
Theorem C07_from_positions : forall s0 ps, Forall (fun p => p < 2 ^ 63 - 1) ps ->
  if strictly_increasing ps
  then exists d, da_from_positions s0 ps = Val d /\ C07_contract s0 d (op_spec [] (OExtPos ps))
  else da_from_positions s0 ps = Fault Panic.
Proof. exact (da_of_positions_total select_in_word_correct popcount_correct). Qed.
Print Assumptions C07_from_positions.
Theorem C07_positions_vector : forall ps, strictly_increasing ps = true ->
  forall i, nthN (op_spec [] (OExtPos ps)) i = (if i <? pos_len ps then Some (existsb (N.eqb i) ps) else None).
Proof. exact ext_pos_char. Qed.
Print Assumptions C07_positions_vector.

(* on top of any reachable bit vector state *)
Theorem C07_from_bitvector : forall s0 bv, bv_inv bv ->
  exists d, da_new s0 bv = Val d /\ da_bv d = bv /\ C07_contract s0 d (bv_abs bv).
Proof. exact (da_of_inv_correct select_in_word_correct popcount_correct). Qed.
Print Assumptions C07_from_bitvector.

From QwtModel Require Import Loops FnsBv FnsDa FnsBvOk FnsDaOk.

(* ---- T5: the queries of DArray REGENERATED from src/darray/mod.rs on every run (tools/gen_fns.py -> Gen/FnsDa.v:
   the private generic select<const BIT: bool> monomorphised for ones and zeros (sparse blocks through the signed
   block inventory, dense blocks through the sub-block offsets and the word scan `loop`), select1 / select0 and their
   unchecked variants, get, len, is_empty, count_ones, count_zeros; DArray<false> (functions g_da1_..) and
   DArray<true> (g_da0_..)), applied to the fields of the structure the hand-modelled constructor builds, return
   exactly the list specification for every bit sequence, for every fuel above the number of words; select0 without
   select0 support is the documented panic. *)
Definition C07_source_contract1 (d : darray) (s : list bool) : Prop :=
  forall fuel, (S (length (bv_words (da_bv d))) <= fuel)%nat ->
  let data := da_data d in let nbits := da_nbits d in
  let on := inv_n_sets (da_ones d) in let ob := inv_block (da_ones d) in
  let os := inv_sub (da_ones d) in let oo := inv_overflow (da_ones d) in
  g_da1_len nbits = Val (len s) /\ g_da1_is_empty nbits = Val (len s =? 0) /\
  g_da1_count_ones on = Val (countb s) /\ g_da1_count_zeros nbits on = Val (len s - countb s) /\
  (forall i, g_da1_get data nbits i = Val (nthN s i)) /\
  (forall i b, nthN s i = Some b -> g_da1_get_unchecked data i = Val b) /\
  (forall k, g_da1_select1 fuel data on ob os oo k = Val (select1_spec s k)) /\
  (forall k, g_da1_select1_unchecked fuel data on ob os oo k = ounwrap (select1_spec s k)) /\
  (* documented panic: select0 on a DArray without select0 support *)
  (forall k, g_da1_select0 fuel data (da_z_n_sets d) (da_z_block d) (da_z_sub d) (da_z_overflow d) k = Fault Panic) /\
  (forall k, g_da1_select0_unchecked fuel data (da_z_n_sets d) (da_z_block d) (da_z_sub d) (da_z_overflow d) k
             = Fault Panic).

Definition C07_source_contract0 (d : darray) (s : list bool) : Prop :=
  forall fuel, (S (length (bv_words (da_bv d))) <= fuel)%nat ->
  let data := da_data d in let nbits := da_nbits d in
  let on := inv_n_sets (da_ones d) in let ob := inv_block (da_ones d) in
  let os := inv_sub (da_ones d) in let oo := inv_overflow (da_ones d) in
  g_da0_len nbits = Val (len s) /\ g_da0_is_empty nbits = Val (len s =? 0) /\
  g_da0_count_ones on = Val (countb s) /\ g_da0_count_zeros nbits on = Val (len s - countb s) /\
  (forall i, g_da0_get data nbits i = Val (nthN s i)) /\
  (forall i b, nthN s i = Some b -> g_da0_get_unchecked data i = Val b) /\
  (forall k, g_da0_select1 fuel data on ob os oo k = Val (select1_spec s k)) /\
  (forall k, g_da0_select1_unchecked fuel data on ob os oo k = ounwrap (select1_spec s k)) /\
  (forall k, g_da0_select0 fuel data (da_z_n_sets d) (da_z_block d) (da_z_sub d) (da_z_overflow d) k
             = Val (select0_spec s k)) /\
  (forall k, g_da0_select0_unchecked fuel data (da_z_n_sets d) (da_z_block d) (da_z_sub d) (da_z_overflow d) k
             = ounwrap (select0_spec s k)).

Definition C07_source_contract (s0 : bool) (d : darray) (s : list bool) : Prop :=
  if s0 then C07_source_contract0 d s else C07_source_contract1 d s.

Theorem C07_source_from_bits : forall s0 bs, len bs < 2 ^ 63 ->
  exists d, da_from_bools s0 bs = Val d /\ da_types_ok d /\ C07_source_contract s0 d bs.
Proof. exact da_gen_of_bools. Qed.
Print Assumptions C07_source_from_bits.
Theorem C07_source_from_bitvector : forall s0 bv, BitVecP.bv_inv bv ->
  exists d, da_new s0 bv = Val d /\ da_bv d = bv /\ da_types_ok d /\ C07_source_contract s0 d (bv_abs bv).
Proof. exact da_gen_of_bitvector. Qed.
Print Assumptions C07_source_from_bitvector.
Theorem C07_source_get_word : forall b i, g_bv_get_word (chunks 8 (bv_words b)) i = bv_get_word b i.
Proof. exact g_bv_get_word_ok. Qed.
Print Assumptions C07_source_get_word.

(* ---- the CONSTRUCTION regenerated from src/darray/mod.rs on every run (T5, Gen/FnsDanew.v: Inventories::flush_block with its
   three `&mut Vec`, Inventories::<BIT>::new — `for pos in bv.ones()` / `bv.zeros()` as the iterator protocol over the
   regenerated position iterator, a flush every 1024 positions and a last one — DArray::<SELECT0_SUPPORT>::new and
   FromIterator<bool>): equal to / simulated by the hand model, and end to end: the regenerated constructor returns the fields
   of a structure on which the regenerated queries satisfy the contract [C07_gen] (= C07_source_contract), from a bit vector and
   from a bit sequence (through the regenerated BitVector::from_iter). *)
From QwtModel Require Import FnsBvnew FnsDanew FnsBvnewOk FnsDanewOk FnsDaFromOk.
Theorem C07_source_flush_block : forall curr blk sub ovf,
  ge_hd curr -> hd 0 curr < 2 ^ 63 -> len curr + 32 < 2 ^ 64 -> len ovf < 2 ^ 63 ->
  g_da_flush_block curr blk sub ovf =
  let! (b', s', o') := flush_block curr (rev blk, rev sub, rev ovf) in Val (rev b', rev s', rev o').
Proof. exact g_da_flush_block_ok. Qed.
Print Assumptions C07_source_flush_block.
Theorem C07_source_inventories_new : forall bit b fuel inv, bv_inv b ->
  (N.to_nat (bv_nbits b) + length (bv_words b) + 2 <= fuel)%nat ->
  inv_new bit b = Val inv ->
  gi_new bit fuel (chunks 8 (bv_words b)) (bv_nbits b) (bv_nones b) = Val (inv_fields inv).
Proof. exact gi_new_sim. Qed.
Print Assumptions C07_source_inventories_new.
Theorem C07_source_new : forall s0 b fuel, bv_inv b ->
  (N.to_nat (bv_nbits b) + length (bv_words b) + 2 <= fuel)%nat ->
  exists d,
    g_da_new s0 fuel (chunks 8 (bv_words b)) (bv_nbits b) (bv_nones b) = Val (da_fields d) /\
    da_new s0 b = Val d /\ da_bv d = b /\ da_types_ok d /\ C07_gen s0 d (bv_abs b).
Proof. exact g_da_new_of_bitvector. Qed.
Print Assumptions C07_source_new.
Theorem C07_source_from_bools : forall s0 bs fuel, len bs < 2 ^ 63 ->
  (N.to_nat (len bs) + N.to_nat (8 * ((len bs + 511) / 512)) + 2 <= fuel)%nat ->
  exists d, g_da_from_bools s0 fuel bs = Val (da_fields d) /\ da_types_ok d /\ C07_gen s0 d bs.
Proof. exact g_da_from_bools_correct. Qed.
Print Assumptions C07_source_from_bools.
