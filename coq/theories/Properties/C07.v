(* C07 — DArray select agrees with the bit vector for every distribution of ones.
   Statements only, closed by [exact]. *)
From QwtModel Require Import ListX Seq Consts Words BitVec RSBin DArrayM WordsP BitVecP DArrayP BinFinalP.

Definition C07_contract (s0 : bool) (d : darray) (s : list bool) : Prop :=
  da_len d = len s /\ da_count_ones d = countb s /\ da_count_zeros d = Val (len s - countb s) /\
  (forall i, da_get d i = Val (nthN s i)) /\
  (forall k, da_select1 d k = Val (select1_spec s k)) /\
  (s0 = true -> forall k, da_select0 true d k = Val (select0_spec s k)) /\
  (* documented panic: select0 on a DArray built without select0 support *)
  (s0 = false -> forall k, da_select0 false d k = Fault Panic).

(* built from bits: every vector — any mix of dense and sparse groups, partial last group, empty *)
Theorem C07_from_bits : forall s0 bs, len bs < 2 ^ 63 ->
  exists d, da_from_bools s0 bs = Val d /\ C07_contract s0 d bs.
Proof. exact (da_of_bools_correct select_in_word_correct popcount_correct). Qed.
Print Assumptions C07_from_bits.

(* built from a list of positions: strictly increasing lists give the characteristic vector,
   anything else is the documented panic *)
Theorem C07_from_positions : forall s0 ps, Forall (fun p => p < 2 ^ 63 - 1) ps ->
  if strictly_increasing ps
  then exists d, da_from_positions s0 ps = Val d /\ C07_contract s0 d (op_spec [] (OExtPos ps))
  else da_from_positions s0 ps = Fault Panic.
Proof. exact (da_of_positions_total select_in_word_correct popcount_correct). Qed.
Print Assumptions C07_from_positions.
Theorem C07_positions_vector : forall ps, strictly_increasing ps = true ->
  forall i, nthN (op_spec [] (OExtPos ps)) i = (if i <? pos_len ps then Some (existsb (N.eqb i) ps) else None).
Proof. exact ext_pos_char. Qed.
Print Assumptions C07_positions_vector.

(* on top of any reachable bit vector state *)
Theorem C07_from_bitvector : forall s0 bv, bv_inv bv ->
  exists d, da_new s0 bv = Val d /\ da_bv d = bv /\ C07_contract s0 d (bv_abs bv).
Proof. exact (da_of_inv_correct select_in_word_correct popcount_correct). Qed.
Print Assumptions C07_from_bitvector.
