(* C10 — Unchecked variants equal the checked ones on valid arguments in every build.
   The model carries every debug assertion (odebug_assert), every overflow point and every
   unchecked access as a possible Fault, so "= Val v" covers builds with and without debug
   assertions.  Each theorem: under the documented precondition the unchecked method returns
   v and the checked method returns Some v.  Derived from the contracts (short projections). *)
From QwtModel Require Import ListX Seq Consts Words QVec RSQ QWT Huff BitVec RSBin RSQBuild QVecP RSQP QWTP HQWTP BinWTP BitsLib BitVecP WordsP BinFinalP.

Theorem C10_rsq : forall bsize r s, rsq_spec bsize r s ->
  (forall i x, nthN s i = Some x -> rsq_get_unchecked r i = Val x /\ rsq_get r i = Val (Some x)) /\
  (forall c i, c <= 3 -> i <= len s -> rsq_rank_unchecked bsize r c i = Val (rank_spec s c i) /\ rsq_rank bsize r c i = Val (Some (rank_spec s c i))) /\
  (forall c k p, c <= 3 -> k < 2 ^ 64 -> select_spec s c k = Some p -> rsq_select_unchecked bsize r c k = Val p /\ rsq_select bsize r c k = Val (Some p)) /\
  (forall c, c <= 3 -> rsq_occs_unchecked r c = Val (countN c s) /\ rsq_occs r c = Val (Some (countN c s))) /\
  (forall c, c <= 3 -> rsq_occs_smaller_unchecked r c = Val (count_lt c s) /\ rsq_occs_smaller_q r c = Val (Some (count_lt c s))).
Proof.
  intros bsize r s (_ & _ & G & R & S & O & OS & RU & GU & SU & OU & OSU & _).
  repeat split; intros.
  - now apply GU. - rewrite G. now f_equal.
  - now apply RU. - rewrite R. replace (c <=? 3) with true by (symmetry; now apply N.leb_le). replace (i <=? len s) with true by (symmetry; now apply N.leb_le). reflexivity.
  - now apply SU with (k := k). - rewrite S by assumption. replace (c <=? 3) with true by (symmetry; now apply N.leb_le). now f_equal.
  - now apply OU. - rewrite O. replace (c <=? 3) with true by (symmetry; now apply N.leb_le). reflexivity.
  - now apply OSU. - rewrite OS. replace (c <=? 3) with true by (symmetry; now apply N.leb_le). reflexivity.
Qed.
Print Assumptions C10_rsq.

Theorem C10_qwt : forall w bsize t seq, qwt_spec w bsize t seq ->
  (forall i x, nthN seq i = Some x -> qwt_get_unchecked w bsize t i = Val x /\ qwt_get w bsize t i = Val (Some x)) /\
  (forall c i, 0 < len seq -> c <= maxN seq -> i <= len seq ->
      qwt_rank_unchecked w bsize t c i = Val (rank_spec seq c i) /\ qwt_rank_prefetch_unchecked w bsize t c i = Val (rank_spec seq c i)) /\
  (forall c k p, c < 2 ^ w -> select_spec seq c k = Some p -> qwt_select_unchecked w bsize t c k = Val p).
Proof.
  intros w bsize t seq (_ & _ & _ & _ & G & _ & _ & _ & GU & RU & SU).
  repeat split; intros.
  - now apply GU. - rewrite G. now f_equal. - now apply RU. - now apply RU. - now apply SU with (k := k).
Qed.
Print Assumptions C10_qwt.

Theorem C10_hqwt : forall w bsize t seq, hq_spec w bsize t seq ->
  (forall i x, nthN seq i = Some x -> hq_get_unchecked w bsize t i = Val x /\ hq_get w bsize t i = Val (Some x)) /\
  (forall c i, 0 < countN c seq -> i <= len seq ->
      hq_rank_unchecked bsize t c i = Val (rank_spec seq c i) /\ hq_rank_prefetch_unchecked bsize t c i = Val (rank_spec seq c i)) /\
  (forall c k p, c < 2 ^ w -> select_spec seq c k = Some p -> hq_select_unchecked bsize t c k = Val p).
Proof.
  intros w bsize t seq (_ & G & _ & _ & _ & GU & RU & SU).
  repeat split; intros.
  - now apply GU. - rewrite G. now f_equal. - now apply RU. - now apply RU. - now apply SU with (k := k).
Qed.
Print Assumptions C10_hqwt.

Theorem C10_wt : forall w t seq, wt_spec w t seq ->
  (forall i x, nthN seq i = Some x -> wt_get_unchecked w false t i = Val x /\ wt_get w false t i = Val (Some x)) /\
  (forall c i, 0 < len seq -> c <= maxN seq -> i <= len seq -> wt_rank_unchecked w false t c i = Val (rank_spec seq c i)) /\
  (forall c k p, c < 2 ^ w -> select_spec seq c k = Some p -> wt_select_unchecked w false t c k = Val p).
Proof.
  intros w t seq (_ & _ & G & _ & _ & GU & RU & SU).
  repeat split; intros.
  - now apply GU. - rewrite G. now f_equal. - now apply RU. - now apply SU with (k := k).
Qed.
Print Assumptions C10_wt.

(* bit vectors: get_unchecked / get_bits_unchecked inside their contract *)
Theorem C10_bitvector_get : forall b i, bv_inv b -> i < len (bv_abs b) -> bv_get_unchecked b i = Val (nthb (bv_abs b) i).
Proof. exact bv_get_unchecked_correct. Qed.
Print Assumptions C10_bitvector_get.
Theorem C10_bitvector_get_bits : forall b i n, bv_inv b -> 1 <= n -> n <= 64 -> i + n <= len (bv_abs b) ->
  bv_get_bits_unchecked b i n = Val (bits_value (firstnN n (skipnN i (bv_abs b)))).
Proof. exact bv_get_bits_unchecked_correct. Qed.
Print Assumptions C10_bitvector_get_bits.
(* RSNarrow / RSWide / DArray unchecked variants are part of C06_rsnarrow, C06_rswide (rank1/rank0/
   select1/select0 _unchecked) and of C07 (select*_unchecked = unwrap of the checked select). *)

(* the Huffman-shaped binary tree (Proofs/GapsP.v) *)
From QwtModel Require GapsP.
Theorem C10_hwt : forall w t seq, hwt_spec w t seq ->
  (forall i x, nthN seq i = Some x -> wt_get_unchecked w true t i = Val x /\ wt_get w true t i = Val (Some x)) /\
  (forall c i, 0 < countN c seq -> i <= len seq -> wt_rank_unchecked w true t c i = Val (rank_spec seq c i)) /\
  (forall c k p, c < 2 ^ w -> select_spec seq c k = Some p -> wt_select_unchecked w true t c k = Val p).
Proof. exact GapsP.hwt_unchecked. Qed.
Print Assumptions C10_hwt.
