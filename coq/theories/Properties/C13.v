(* C13 — Quad vector and its builder store exactly the pushed 2-bit symbols.
   This file contains only statements, closed by [exact], and their assumption audit. *)
From Coq Require Import ZArith.
From QwtModel Require Import ListX Consts Words QVec QVecP LeafP.

(* collecting any list of integers (any primitive integer type: the value enters as a
   mathematical integer and is cast with as_ to u8) gives a quad vector whose length is the
   number of values, whose i-th symbol is (v_i mod 4), None beyond the end, is_empty exactly
   for no values; the iterator yields the same symbols in order and then None *)
Theorem C13_collect : forall vs : list Z,
  exists q, qv_from_iter vs = Val q /\
    qv_len q = len vs /\
    qv_is_empty q = (len vs =? 0) /\
    (forall i, qv_get q i = Val (nthN (stored vs) i)) /\
    (forall i, i < 2 ^ 64 - 1 -> qvit_next q i = Val (nthN (stored vs) i, i + 1)).
Proof. exact qv_from_iter_correct. Qed.
Print Assumptions C13_collect.

(* every push / extend history of the builder, then build *)
Theorem C13_histories : forall h : list bop,
  exists q, brun qvb_new h = Val q /\
    let s := concat (map bop_spec h) in
    qv_len (qvb_build q) = len s /\
    qv_is_empty (qvb_build q) = (len s =? 0) /\
    forall i, qv_get (qvb_build q) i = Val (nthN s i).
Proof. exact qvb_history_correct. Qed.
Print Assumptions C13_histories.

(* the hypotheses are satisfiable / the statement is not vacuous: a concrete history *)
Theorem C13_example :
  match brun qvb_new [Push 7; Extend [(-1)%Z; 6%Z; 256%Z]; Push 2] with
  | Val q => qv_len q = 5 /\ qv_get q 1 = Val (Some 3) /\ qv_get q 3 = Val (Some 0) /\ qv_get q 5 = Val None
  | Fault _ => False
  end.
Proof. exact qvb_history_example. Qed.
Print Assumptions C13_example.

(* ---- the 512-bit data line: word view (four u128, two bit planes — the layout of
   DataLine { words: [u128; 4] } that the byte-exact state tie compares with the real value)
   versus the list view the theorems above are stated on.  For every well-formed line
   (256 symbols < 4) the word-level read, rank and write of Model/Words.v (transcribed from
   DataLine::get_unchecked / rank_unchecked / set_symbol: shifts, masks, REPEATEDSYMB
   normalisation, popcounts) compute exactly the list-level results. *)
Theorem C13_line_words : forall l, line_ok l ->
  len (pack_qline l) = 4 /\ Forall (fun w => w < 2 ^ 128) (pack_qline l).
Proof. exact pack_qline_words. Qed.
Print Assumptions C13_line_words.

Theorem C13_line_get : forall l i x, line_ok l -> nthN l i = Some x ->
  qline_get_unchecked (pack_qline l) i = Val x.
Proof. exact qline_get_correct. Qed.
Print Assumptions C13_line_get.

Theorem C13_line_rank : forall l c i, line_ok l -> c <= 3 -> i <= 256 ->
  qline_rank_unchecked (pack_qline l) c i = Val (countN c (firstnN i l)).
Proof. exact qline_rank_correct. Qed.
Print Assumptions C13_line_rank.

Theorem C13_line_set : forall l i s, line_ok l -> i < 256 ->
  qline_set_symbol (pack_qline l) s i = Val (pack_qline (line_set_symbol l s i)).
Proof. exact line_set_refined. Qed.
Print Assumptions C13_line_set.

From QwtModel Require Import LeavesLine LeavesLineOk.

(* ---- T3: the word-level DataLine functions REGENERATED from src/qvector/mod.rs on every run
   (tools/gen_leaves.py -> Gen/LeavesLine.v: typed, operation-by-operation translation of the Rust
   text) are equal to the hand-written word view on all in-range arguments; together with
   C13_line_get / C13_line_rank / C13_line_set the theorems hold of what the source says now. *)
Theorem C13_source_line_normalize : forall ws symbol, symbol < 256 ->
  g_qline_normalize ws symbol = qline_normalize ws symbol.
Proof. exact g_qline_normalize_ok. Qed.
Print Assumptions C13_source_line_normalize.
Theorem C13_source_line_set_symbol : forall ws symbol i, symbol < 256 -> i < 256 ->
  g_qline_set_symbol ws symbol i = qline_set_symbol ws symbol i.
Proof. exact g_qline_set_symbol_ok. Qed.
Print Assumptions C13_source_line_set_symbol.
Theorem C13_source_line_get_unchecked : forall ws i, i < 2 ^ 64 ->
  g_qline_get_unchecked ws i = qline_get_unchecked ws i.
Proof. exact g_qline_get_unchecked_ok. Qed.
Print Assumptions C13_source_line_get_unchecked.
Theorem C13_source_line_rank_unchecked : forall ws symbol i, symbol < 256 -> i < 2 ^ 64 ->
  g_qline_rank_unchecked ws symbol i = qline_rank_unchecked ws symbol i.
Proof. exact g_qline_rank_unchecked_ok. Qed.
Print Assumptions C13_source_line_rank_unchecked.

From QwtModel Require Import LeavesQV LeavesQVOk.

(* ---- T3: QVector::len / is_empty REGENERATED from src/qvector/mod.rs (Gen/LeavesQV.v; they read the
   scalar field `position` only) are the hand model's qv_len / qv_is_empty and cannot fault.
   (QVector::get_unchecked indexes a slice of DataLine structs: outside the translated subset.) *)
Theorem C13_source_qv_len : forall q, qv_position q < 2 ^ 64 -> g_qv_len (qv_position q) = Val (qv_len q).
Proof. exact g_qv_len_ok. Qed.
Print Assumptions C13_source_qv_len.
Theorem C13_source_qv_is_empty : forall q, qv_position q < 2 ^ 64 ->
  g_qv_is_empty (qv_position q) = Val (qv_is_empty q).
Proof. exact g_qv_is_empty_ok. Qed.
Print Assumptions C13_source_qv_is_empty.

(* ---- the BUILDER and the collecting constructor REGENERATED from src/qvector/mod.rs on every run (T5, Gen/FnsQvb.v:
   QVectorBuilder::{with_capacity, push, build}, Extend::extend, FromIterator for QVectorBuilder and for QVector) together
   with the regenerated accessors (Gen/FnsQv2.v: len, is_empty, get, get_unchecked): equal to the hand model (faults
   included) wherever the 64-bit position counter does not overflow, and END TO END: collecting any sequence of fewer than
   2^63 values of any width through the regenerated constructor and reading it back through the regenerated accessors is the
   list specification (v mod 4 at each position, None beyond the end). *)
From QwtModel Require Import Loops FnsQv2 FnsQvb FnsQv2Ok FnsQvbOk.
Theorem C13_source_with_capacity : forall n,
  g_qvb_with_capacity n = if 2 * n + 512 <? 2 ^ 64 then Val ([], 0) else Fault Overflow.
Proof. exact g_qvb_with_capacity_ok. Qed.
Print Assumptions C13_source_with_capacity.
Theorem C13_source_push : forall b sym, qv_lines_ok b -> sym < 256 -> qv_position b + 2 < 2 ^ 64 ->
  g_qvb_push (pack_qdata (qv_data b)) (qv_position b) sym =
  let! b' := qvb_push b sym in Val (pack_qdata (qv_data b'), qv_position b').
Proof. exact g_qvb_push_ok. Qed.
Print Assumptions C13_source_push.
Theorem C13_source_push_overflow : forall b sym b', qv_lines_ok b -> sym < 256 -> 2 ^ 64 <= qv_position b + 2 ->
  qvb_push b sym = Val b' ->
  g_qvb_push (pack_qdata (qv_data b)) (qv_position b) sym = Fault Overflow.
Proof. exact g_qvb_push_overflow. Qed.
Print Assumptions C13_source_push_overflow.
Theorem C13_source_extend : forall wT b vs, qv_lines_ok b -> qv_position b + 2 * len vs < 2 ^ 64 ->
  g_qvb_extend wT (pack_qdata (qv_data b)) (qv_position b) vs =
  let! q := qvb_push_all b (map (fun v => v mod 256) vs) in Val (pack_qdata (qv_data q), qv_position q).
Proof. exact g_qvb_extend_ok. Qed.
Print Assumptions C13_source_extend.
Theorem C13_source_builder_from_iter : forall wT vs, len vs < 2 ^ 63 ->
  g_qvb_from_iter wT vs =
  let! q := qvb_push_all qvb_new (map (fun v => v mod 256) vs) in Val (pack_qdata (qv_data q), qv_position q).
Proof. exact g_qvb_from_iter_ok. Qed.
Print Assumptions C13_source_builder_from_iter.
Theorem C13_source_from_iter : forall wT vs, len vs < 2 ^ 63 ->
  g_qv_from_iter wT vs =
  let! q := qv_from_iter (map Z.of_N vs) in Val (pack_qdata (qv_data (qvb_build q)), qv_position (qvb_build q)).
Proof. exact g_qv_from_iter_ok. Qed.
Print Assumptions C13_source_from_iter.
Theorem C13_source_collect : forall wT vs, len vs < 2 ^ 63 ->
  exists data pos, g_qv_from_iter wT vs = Val (data, pos) /\
    g_qv_len pos = Val (len vs) /\
    g_qv_is_empty pos = Val (len vs =? 0) /\
    (forall i, g_qv_get data pos i = Val (nthN (map (fun v => v mod 4) vs) i)) /\
    (forall i x, nthN vs i = Some x -> g_qv_get_unchecked data pos i = Val (x mod 4)).
Proof. exact g_qv_from_iter_e2e. Qed.
Print Assumptions C13_source_collect.
