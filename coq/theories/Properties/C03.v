(* C03 — Binary wavelet trees (plain and Huffman-shaped) answer get/rank/select exactly.
   Statements only, closed by [exact]. *)
From QwtModel Require Import ListX Seq Consts Words QWT Huff RSBin RSQBuild Codes WordsP BinWTP CraftP WrapP.

Definition C03_plain_contract (w : N) (t : bwt) (seq : list N) : Prop :=
  w_n t = len seq /\
  w_n_levels t = (if len seq =? 0 then 0 else msb (maxN seq) + 1) /\
  (forall i, wt_get w false t i = Val (nthN seq i)) /\
  (forall c i, c < 2 ^ w -> wt_rank w false t c i =
       Val (if negb (len seq =? 0) && (i <=? len seq) && (c <=? maxN seq) then Some (rank_spec seq c i) else None)) /\
  (forall c k, c < 2 ^ w -> k < 2 ^ 64 -> wt_select w false t c k =
       Val (if negb (len seq =? 0) && (c <=? maxN seq) then select_spec seq c k else None)) /\
  (forall i x, nthN seq i = Some x -> wt_get_unchecked w false t i = Val x) /\
  (forall c i, 0 < len seq -> c <= maxN seq -> i <= len seq -> wt_rank_unchecked w false t c i = Val (rank_spec seq c i)) /\
  (forall c k p, c < 2 ^ w -> select_spec seq c k = Some p -> wt_select_unchecked w false t c k = Val p).

Definition C03_huffman_contract (w : N) (t : bwt) (seq : list N) : Prop :=
  w_n t = len seq /\
  (forall i, wt_get w true t i = Val (nthN seq i)) /\
  (forall c i, c < 2 ^ w -> wt_rank w true t c i =
       Val (if (i <=? len seq) && (0 <? countN c seq) then Some (rank_spec seq c i) else None)) /\
  (forall c k, c < 2 ^ w -> k < 2 ^ 64 -> wt_select w true t c k = Val (select_spec seq c k)) /\
  (forall i x, nthN seq i = Some x -> wt_get_unchecked w true t i = Val x) /\
  (forall c i, 0 < countN c seq -> i <= len seq -> wt_rank_unchecked w true t c i = Val (rank_spec seq c i)) /\
  (forall c k p, c < 2 ^ w -> select_spec seq c k = Some p -> wt_select_unchecked w true t c k = Val p).

Definition C03_table_ok (seq : list N) (tab : list pcode) : Prop :=
  len tab < 2 ^ 64 /\
  (forall x, In x seq -> exists c, nthN tab x = Some c /\ code_wf 1 c = true) /\
  (forall x c, nthN tab x = Some c -> pc_len c <> 0 -> In x seq) /\
  (forall syms, (forall x, In x syms -> In x seq) -> code_wm_ok 1 tab syms = true) /\
  (forall x y c, In x seq -> In y seq -> nthN tab x = Some c -> nthN tab y = Some c -> x = y).

(* plain tree WT: every sequence of every width (symbols wider than 32 bits included) *)
Theorem C03_wt_correct : forall w seq,
  (w = 8 \/ w = 16 \/ w = 32 \/ w = 64 \/ w = 128) -> Forall (fun x => x < 2 ^ w) seq -> len seq < RSQ_MAXN ->
  exists t, wt_build w false seq [] = Val t /\ C03_plain_contract w t seq.
Proof. exact (wt_build_correct select_in_word_correct popcount_correct). Qed.
Print Assumptions C03_wt_correct.

(* Huffman-shaped tree HWT: every sequence and every compatible binary code table
   (the builder returns one: C02_craft_compatible with frag = 1) *)
Theorem C03_hwt_correct : forall w seq tab,
  (w = 8 \/ w = 16 \/ w = 32 \/ w = 64 \/ w = 128) -> Forall (fun x => x < 2 ^ w) seq -> len seq < RSQ_MAXN ->
  seq <> [] -> C03_table_ok seq tab ->
  exists t, wt_build w true seq tab = Val t /\ C03_huffman_contract w t seq.
Proof. exact (hwt_build_correct select_in_word_correct popcount_correct). Qed.
Print Assumptions C03_hwt_correct.

(* empty sequence, both flavours: every query is None *)
Theorem C03_empty : forall w compressed tab, exists t, wt_build w compressed [] tab = Val t /\
  (forall i, wt_get w compressed t i = Val None) /\ (forall c i, wt_rank w compressed t c i = Val None) /\
  (forall c k, wt_select w compressed t c k = Val None).
Proof. exact wt_build_empty. Qed.
Print Assumptions C03_empty.

(* the binary code builder (same theorem as for the quad tree, frag = 1) *)
Theorem C03_craft2_compatible : forall f sigma scratch tab,
  craft_input_ok 1 f sigma -> craft_wm_codes 1 f sigma scratch = Val tab ->
  len tab = sigma + 1 /\
  (forall sym l, In (sym, l) f -> exists c, nthN tab sym = Some c /\ pc_len c = l /\ code_wf 1 c = true) /\
  (forall sym, ~ In sym (map fst f) -> sym <= sigma -> nthN tab sym = Some pc_zero) /\
  code_wm_ok 1 tab (map fst f) = true.
Proof. exact (craft_table_ok 1). Qed.
Print Assumptions C03_craft2_compatible.

(* end to end: HWT::new = code builder (on the lengths f of the external coder, any tie order)
   followed by the tree builder; [lengths_for2 seq f]: f lists exactly the distinct symbols of
   seq with admissible lengths.  The second form replaces "the code builder returned" by the
   explicit sufficient condition (lengths <= 32 bits — KF-17 — and the scratch array fits). *)
Theorem C03_new_end_to_end : forall w seq f, width_ok w -> Forall (fun x => x < 2 ^ w) seq ->
  len seq < RSQ_MAXN -> seq <> [] -> maxN seq < 2 ^ 64 - 1 -> lengths_for2 seq f ->
  forall tab, craft2 f (sym_index (maxN seq)) = Val tab ->
  exists t, hwt_new w seq f = Val t /\ C03_huffman_contract w t seq.
Proof. exact hwt_new_correct. Qed.
Print Assumptions C03_new_end_to_end.

Theorem C03_new_total : forall w seq f, width_ok w -> Forall (fun x => x < 2 ^ w) seq ->
  len seq < RSQ_MAXN -> seq <> [] -> maxN seq < 2 ^ 64 - 1 ->
  lengths_for2 seq f -> Forall (fun p => snd p <= 32) f -> craft_fits 1 f (N.max (len f) 2) = true ->
  exists t, hwt_new w seq f = Val t /\ C03_huffman_contract w t seq.
Proof. exact hwt_new_total. Qed.
Print Assumptions C03_new_total.

Theorem C03_new_empty : forall w f, exists t, hwt_new w [] f = Val t /\ C03_huffman_contract w t [].
Proof. exact hwt_new_nil. Qed.
Print Assumptions C03_new_empty.
