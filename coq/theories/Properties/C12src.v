(* C12 (second file) — WTIterator (src/lib.rs: next / next_back / len) REGENERATED for every container (T5, Gen/FnsTiters.v:
   QWaveletTree and HuffQWaveletTree at both block sizes, the plain and the Huffman-shaped binary tree), QVectorIterator::next
   (Gen/FnsQvb.v) and the `iter()` constructors of the trees: each regenerated step equals the hand model's step on (i, end)
   with the container's fields carried along unchanged (value or fault alike), so every history run through the regenerated
   functions is the deque specification; for the plain trees the container itself comes from the regenerated constructors:
   constructor -> iter() -> any history of next / next_back / len, regenerated code only.  Statements only. *)
From Coq Require Import ZArith.
From QwtModel Require Import ListX Loops Iter ListXP BitVec RSBin QVec RSQ QWT Huff RSQBuild QWTP HQWTP HQWTNewP IterP.
From QwtModel Require Import FnsRsqOk FnsQwtOk FnsHqwtOk FnsWtOk FnsWtNewOk FnsQvbOk.
From QwtModel Require Import FnsQv2 FnsQvb FnsQwt FnsQwtnew FnsHqwt FnsWt FnsWtnew FnsTiters FnsWrapQwtOk FnsWrapWtOk FnsTitersOk FnsTiterCtorsOk.
From QwtModel Require C03 WrapP.
Open Scope N_scope.

Theorem C12_source_qwt_step_next : forall wT i e n nl sg d p sb sm oc,
  g_qwtit256_next wT i e n nl sg d p sb sm oc
  = let! (v, st') := wtit_next (g_qwt256_get_unchecked wT nl d p sb oc) (mk_wtit i e) in
    Val (it_i st', it_end st', n, nl, sg, d, p, sb, sm, oc, v).
Proof. exact g_qwtit256_next_ok. Qed.
Print Assumptions C12_source_qwt_step_next.
Theorem C12_source_qwt_step_next_back : forall wT i e n nl sg d p sb sm oc,
  g_qwtit256_next_back wT i e n nl sg d p sb sm oc
  = let! (v, st') := wtit_next_back (g_qwt256_get_unchecked wT nl d p sb oc) (mk_wtit i e) in
    Val (it_i st', it_end st', n, nl, sg, d, p, sb, sm, oc, v).
Proof. exact g_qwtit256_next_back_ok. Qed.
Print Assumptions C12_source_qwt_step_next_back.
Theorem C12_source_qwt_run_256 : forall wT f i e h,
  g_qwtit256_run wT f i e h = wtit_run (qwt256_get_u wT f) (mk_wtit i e) h.
Proof. exact g_qwtit256_run_ok. Qed.
Print Assumptions C12_source_qwt_run_256.
Theorem C12_source_qwt_run_512 : forall wT f i e h,
  g_qwtit512_run wT f i e h = wtit_run (qwt512_get_u wT f) (mk_wtit i e) h.
Proof. exact g_qwtit512_run_ok. Qed.
Print Assumptions C12_source_qwt_run_512.
Theorem C12_source_hqwt_run_256 : forall wT f i e h,
  g_hqwtit256_run wT f i e h = wtit_run (hqwt256_get_u wT f) (mk_wtit i e) h.
Proof. exact g_hqwtit256_run_ok. Qed.
Print Assumptions C12_source_hqwt_run_256.
Theorem C12_source_hqwt_run_512 : forall wT f i e h,
  g_hqwtit512_run wT f i e h = wtit_run (hqwt512_get_u wT f) (mk_wtit i e) h.
Proof. exact g_hqwtit512_run_ok. Qed.
Print Assumptions C12_source_hqwt_run_512.
Theorem C12_source_wt_run : forall wT f i e h,
  g_wtit_run wT f i e h = wtit_run (wt_get_u wT f) (mk_wtit i e) h.
Proof. exact g_wtit_run_ok. Qed.
Print Assumptions C12_source_wt_run.
Theorem C12_source_hwt_run : forall wT f i e h,
  g_hwtit_run wT f i e h = wtit_run (hwt_get_u wT f) (mk_wtit i e) h.
Proof. exact g_hwtit_run_ok. Qed.
Print Assumptions C12_source_hwt_run.
Theorem C12_source_hqwt_built_256 : forall w seq tab t, HQWTP.width_ok w ->
  Forall (fun x => x < 2 ^ w) seq -> len seq < RSQ_MAXN -> table_ok seq tab -> hq_build 256 seq tab = Val t ->
  g_hqwt256_len (h_n t) = Val (len seq) /\
  forall h, g_hqwtit256_run w (hq_fields t) 0 (len seq) h = Val (deque_run seq h).
Proof. exact g_hqwt256_iter_built. Qed.
Print Assumptions C12_source_hqwt_built_256.
Theorem C12_source_hqwt_built_512 : forall w seq tab t, HQWTP.width_ok w ->
  Forall (fun x => x < 2 ^ w) seq -> len seq < RSQ_MAXN -> table_ok seq tab -> hq_build 512 seq tab = Val t ->
  g_hqwt512_len (h_n t) = Val (len seq) /\
  forall h, g_hqwtit512_run w (hq_fields t) 0 (len seq) h = Val (deque_run seq h).
Proof. exact g_hqwt512_iter_built. Qed.
Print Assumptions C12_source_hqwt_built_512.
Theorem C12_source_hwt_built : forall w seq tab t,
  (w = 8 \/ w = 16 \/ w = 32 \/ w = 64 \/ w = 128) -> Forall (fun x => x < 2 ^ w) seq ->
  len seq < RSQ_MAXN -> seq <> [] -> C03.C03_table_ok seq tab -> wt_build w true seq tab = Val t ->
  g_hwt_len (w_n t) = Val (len seq) /\
  forall h, g_hwtit_run w (bwt_fields t) 0 (len seq) h = Val (deque_run seq h).
Proof. exact g_hwt_iter_built. Qed.
Print Assumptions C12_source_hwt_built.
Theorem C12_source_qvector_next : forall i d p,
  g_qvit_next i d p = let! i' := oadd 64 i 1 in let! v := g_qv_get d p i in Val (i', d, p, v).
Proof. exact g_qvit_next_ok. Qed.
Print Assumptions C12_source_qvector_next.
Theorem C12_source_qvector_overflow : forall d p, g_qvit_next (2 ^ 64 - 1) d p = Fault Overflow.
Proof. exact g_qvit_next_overflow. Qed.
Print Assumptions C12_source_qvector_overflow.
Theorem C12_source_qvector_public : forall wT vs, len vs < 2 ^ 63 ->
  exists data pos, g_qv_from_iter wT vs = Val (data, pos) /\
    (forall k, N.of_nat k < 2 ^ 64 ->
       g_qvit_run k 0 data pos = Val (map (nthN (map (fun v => v mod 4) vs)) (seqN 0 k))) /\
    (forall j, N.of_nat (length vs + j) < 2 ^ 64 ->
       g_qvit_run (length vs + j) 0 data pos = Val (map (fun v => Some (v mod 4)) vs ++ repeat None j)).
Proof. exact g_qv_iter_public. Qed.
Print Assumptions C12_source_qvector_public.
Theorem C12_source_qwt_public_256 : forall k w s, width_ok w -> Forall (fun x => x < 2 ^ w) s -> len s < RSQ_MAXN ->
  exists n nl sg d p sb sm oc,
    qwt256_ctor k w s = Val (n, nl, sg, d, p, sb, sm, oc) /\
    g_qwt256_iter w n nl sg d p sb sm oc = Val (0, len s, n, nl, sg, d, p, sb, sm, oc) /\
    forall h, g_qwtit256_run w (n, nl, sg, d, p, sb, sm, oc) 0 (len s) h = Val (deque_run s h).
Proof. exact g_qwt256_iter_path. Qed.
Print Assumptions C12_source_qwt_public_256.
Theorem C12_source_qwt_public_512 : forall k w s, width_ok w -> Forall (fun x => x < 2 ^ w) s -> len s < RSQ_MAXN ->
  exists n nl sg d p sb sm oc,
    qwt512_ctor k w s = Val (n, nl, sg, d, p, sb, sm, oc) /\
    g_qwt512_iter w n nl sg d p sb sm oc = Val (0, len s, n, nl, sg, d, p, sb, sm, oc) /\
    forall h, g_qwtit512_run w (n, nl, sg, d, p, sb, sm, oc) 0 (len s) h = Val (deque_run s h).
Proof. exact g_qwt512_iter_path. Qed.
Print Assumptions C12_source_qwt_public_512.
Theorem C12_source_wt_public : forall k w s, (w = 8 \/ w = 16 \/ w = 32 \/ w = 64 \/ w = 128) ->
  Forall (fun x => x < 2 ^ w) s -> len s < RSQ_MAXN ->
  exists n nl sg data nbits nones meta samples nzeros lens,
    wt_ctor k w s = Val (n, nl, sg, None, None, None, data, nbits, nones, meta, samples, nzeros, lens) /\
    g_wt_iter w n nl sg None None None data nbits nones meta samples nzeros lens
      = Val (0, len s, n, nl, sg, None, None, None, data, nbits, nones, meta, samples, nzeros, lens) /\
    forall h, g_wtit_run w (n, nl, sg, None, None, None, data, nbits, nones, meta, samples, nzeros, lens) 0 (len s) h
              = Val (deque_run s h).
Proof. exact g_wt_iter_path. Qed.
Print Assumptions C12_source_wt_public.
