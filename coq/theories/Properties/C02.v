(* C02 — Huffman-shaped quad wavelet tree answers get/rank/select exactly.
   Two theorems that compose: (a) for EVERY wavelet-matrix compatible code table the tree is
   correct; (b) the code builder returns such a table for EVERY admissible length assignment
   and EVERY order among symbols of equal length.  Statements only, closed by [exact]. *)
From QwtModel Require Import ListX Seq Consts QVec RSQ QWT Huff RSQBuild Codes HQWTP CraftP HQWTNewP.

Definition C02_contract (w bsize : N) (t : hqwt) (seq : list N) : Prop :=
  hq_len t = len seq /\
  (forall i, hq_get w bsize t i = Val (nthN seq i)) /\
  (forall c i, c < 2 ^ w -> hq_rank bsize t c i =
       Val (if (i <=? len seq) && (0 <? countN c seq) then Some (rank_spec seq c i) else None)) /\
  (forall c i, c < 2 ^ w -> hq_rank_prefetch bsize t c i = hq_rank bsize t c i) /\
  (forall c k, c < 2 ^ w -> k < 2 ^ 64 -> hq_select bsize t c k = Val (select_spec seq c k)) /\
  (forall i x, nthN seq i = Some x -> hq_get_unchecked w bsize t i = Val x) /\
  (forall c i, 0 < countN c seq -> i <= len seq ->
       hq_rank_unchecked bsize t c i = Val (rank_spec seq c i) /\
       hq_rank_prefetch_unchecked bsize t c i = Val (rank_spec seq c i)) /\
  (forall c k p, c < 2 ^ w -> select_spec seq c k = Some p -> hq_select_unchecked bsize t c k = Val p).

(* what the tree needs from the table: a well-formed code exactly for the symbols of seq,
   wavelet-matrix compatibility (Theory/HuffWM.v: a code that ends at a level is larger, in
   reversed-fragment order, than every code prefix that continues), distinct codes *)
Definition C02_table_ok (seq : list N) (tab : list pcode) : Prop :=
  len tab < 2 ^ 64 /\
  (forall x, In x seq -> exists c, nthN tab x = Some c /\ code_wf 2 c = true) /\
  (forall x c, nthN tab x = Some c -> pc_len c <> 0 -> In x seq) /\
  (forall syms, (forall x, In x syms -> In x seq) -> code_wm_ok 2 tab syms = true) /\
  (forall x y c, In x seq -> In y seq -> nthN tab x = Some c -> nthN tab y = Some c -> x = y).

(* (a) *)
Theorem C02_tree_correct_for_every_compatible_table : forall w bsize seq tab,
  (w = 8 \/ w = 16 \/ w = 32 \/ w = 64 \/ w = 128) -> (bsize = 256 \/ bsize = 512) ->
  Forall (fun x => x < 2 ^ w) seq -> len seq < RSQ_MAXN -> C02_table_ok seq tab ->
  exists t, hq_build bsize seq tab = Val t /\ C02_contract w bsize t seq.
Proof. exact hq_build_correct. Qed.
Print Assumptions C02_tree_correct_for_every_compatible_table.

Theorem C02_empty : forall w bsize, (bsize = 256 \/ bsize = 512) ->
  exists t, hq_build bsize [] [] = Val t /\ C02_contract w bsize t [].
Proof. exact hq_build_empty. Qed.
Print Assumptions C02_empty.

(* (b) the builder: f = (symbol, length in bits) in the order the sorted vector had; the order
   among equal lengths is arbitrary (it comes from a randomly seeded hash map) *)
Theorem C02_craft_compatible : forall frag f sigma scratch tab,
  craft_input_ok frag f sigma -> craft_wm_codes frag f sigma scratch = Val tab ->
  len tab = sigma + 1 /\
  (forall sym l, In (sym, l) f -> exists c, nthN tab sym = Some c /\ pc_len c = l /\ code_wf frag c = true) /\
  (forall sym, ~ In sym (map fst f) -> sym <= sigma -> nthN tab sym = Some pc_zero) /\
  code_wm_ok frag tab (map fst f) = true.
Proof. exact craft_table_ok. Qed.
Print Assumptions C02_craft_compatible.

(* the builder faults only for code lengths above 32 bits, an infeasible (Kraft) request, or a
   request that does not fit its scratch array: craft_fits is exact *)
Theorem C02_craft_total : forall frag f sigma scratch, craft_input_ok frag f sigma ->
  Forall (fun p => snd p <= 32) f -> craft_fits frag f scratch = true ->
  exists tab, craft_wm_codes frag f sigma scratch = Val tab.
Proof. exact craft_total. Qed.
Print Assumptions C02_craft_total.

(* the compatibility predicate is not trivially true: a canonical (lexicographic) code for the
   same lengths violates it; and a table with two identical entries breaks the tree *)
Theorem C02_canonical_code_is_not_compatible :
  let canon := [pc_zero; mk_pc 10 4; pc_zero; mk_pc 9 4; pc_zero; mk_pc 0 2; pc_zero; mk_pc 8 4; pc_zero; mk_pc 1 2] in
  code_wm_ok 2 canon [5; 9; 7; 3; 1] = false.
Proof. vm_compute. reflexivity. Qed.
Print Assumptions C02_canonical_code_is_not_compatible.

Theorem C02_example : hq_ex_checks 256 /\ hq_ex_checks 512.
Proof. exact (conj hq_example_256 hq_example_512). Qed.
Print Assumptions C02_example.

(* Known finding KF-17, as a theorem about the model: growing a code beyond 32 bits faults
   (`k << l` on u32 overflows; debug panic, wrong codes in optimized builds).  A degenerate
   frequency profile needs millions of symbols to get there (reproduced by the thorough tier). *)
Theorem C02_known_finding_code_longer_than_32_bits : forall frag c j l size, 32 <= l ->
  craft_expand frag c j l size = Fault Overflow.
Proof. intros frag c j l size H. unfold craft_expand. replace (32 <=? l) with true by (symmetry; apply N.leb_le; exact H). reflexivity. Qed.
Print Assumptions C02_known_finding_code_longer_than_32_bits.

(* end to end: HuffQWaveletTree::new = code builder on the external coder's lengths f (any tie
   order) followed by the tree builder.  [lengths_for seq f]: f lists exactly the distinct symbols
   of seq with admissible lengths.  The second form replaces "the code builder returned" by the
   explicit sufficient condition (lengths <= 32 bits — KF-17 — and the scratch array fits). *)
Theorem C02_new_end_to_end : forall w bsize seq f, width_ok w -> (bsize = 256 \/ bsize = 512) ->
  Forall (fun x => x < 2 ^ w) seq -> len seq < RSQ_MAXN -> seq <> [] -> maxN seq < 2 ^ 64 - 1 ->
  lengths_for seq f ->
  forall tab, craft4 f (sym_index (maxN seq)) = Val tab ->
  exists t, hq_new bsize seq f = Val t /\ C02_contract w bsize t seq.
Proof. exact hq_new_correct. Qed.
Print Assumptions C02_new_end_to_end.

Theorem C02_new_total : forall w bsize seq f, width_ok w -> (bsize = 256 \/ bsize = 512) ->
  Forall (fun x => x < 2 ^ w) seq -> len seq < RSQ_MAXN -> seq <> [] -> maxN seq < 2 ^ 64 - 1 ->
  lengths_for seq f -> Forall (fun p => snd p <= 32) f -> craft_fits 2 f (len f * 4) = true ->
  exists t, hq_new bsize seq f = Val t /\ C02_contract w bsize t seq.
Proof. exact hq_new_total. Qed.
Print Assumptions C02_new_total.

From QwtModel Require Import Loops FnsHqwt FnsRsqOk FnsHqwtOk.

(* ---- T5: the WALKS of the Huffman-shaped quad wavelet tree REGENERATED from src/quadwt/huffqwt.rs on every run
   (tools/gen_fns.py -> Gen/FnsHqwt.v: code_index, get with the decode-table search, rank with its `while shift >= 0`
   loop over the code fragments, select with its two passes; B = 256 and 512; the RSQVector API below them is
   regenerated too), applied to the fields of the tree the hand-modelled builder constructs. The contract is the one
   of C02 restated for the regenerated functions: for every sequence and every compatible code table (and for the
   table craft_wm_codes builds from any admissible lengths), they return exactly the list specification, for every
   fuel >= 17 and above the number of superblocks of a level. *)
Definition C02_source_contract (w : N) (t : hqwt) (seq : list N)
  (g_code_index : N -> list N -> list N -> N -> outcome (option N))
  (g_len : N -> outcome N)
  (g_get : N -> N -> N -> list (list (N * N)) -> list (list (list N)) -> list N -> list (list (list N)) -> list (list N) -> list N -> N -> outcome (option N))
  (g_get_unchecked : N -> N -> list (list (N * N)) -> list (list (list N)) -> list N -> list (list (list N)) -> list (list N) -> list N -> N -> outcome N)
  (g_rank : N -> N -> list N -> list N -> list (list (list N)) -> list (list (list N)) -> list (list N) -> N -> N -> outcome (option N))
  (g_rank_unchecked : N -> list N -> list N -> list (list (list N)) -> list (list (list N)) -> list (list N) -> N -> N -> outcome N)
  (g_select : N -> N -> list N -> list N -> list (list (list N)) -> list N -> list (list (list N)) -> list (list (list N)) -> list (list N) -> N -> N -> outcome (option N))
  (g_select_unchecked : N -> N -> list N -> list N -> list (list (list N)) -> list N -> list (list (list N)) -> list (list (list N)) -> list (list N) -> N -> N -> outcome N)
  : Prop :=
  let ec := hq_enc_content t in let el := hq_enc_len t in
  let d := hq_data t in let p := hq_pos t in let sb := hq_sbs t in let sm := hq_samples t in let oc := hq_occs t in
  g_len (h_n t) = Val (len seq) /\
  (forall c, c < 2 ^ w -> g_code_index w ec el c = Val (if 0 <? countN c seq then Some (sym_index c) else None)) /\
  (forall i, i < 2 ^ 64 -> g_get w (h_n t) (h_n_levels t) (h_decode t) d p sb oc (h_lens t) i = Val (nthN seq i)) /\
  (forall i x, nthN seq i = Some x -> g_get_unchecked w (h_n_levels t) (h_decode t) d p sb oc (h_lens t) i = Val x) /\
  (forall c i, c < 2 ^ w -> i < 2 ^ 64 -> g_rank w (h_n t) ec el d sb oc c i =
       Val (if (i <=? len seq) && (0 <? countN c seq) then Some (rank_spec seq c i) else None)) /\
  (forall c i, 0 < countN c seq -> i <= len seq -> g_rank_unchecked w ec el d sb oc c i = Val (rank_spec seq c i)) /\
  (forall c k, c < 2 ^ w -> k < 2 ^ 64 ->
       g_select w (h_n_levels t) ec el d p sb sm oc c k = Val (select_spec seq c k)) /\
  (forall c k q, c < 2 ^ w -> select_spec seq c k = Some q ->
       g_select_unchecked w (h_n_levels t) ec el d p sb sm oc c k = Val q).

Theorem C02_source_tree_256 : forall w seq tab t fuel, width_ok w ->
  Forall (fun x => x < 2 ^ w) seq -> len seq < RSQ_MAXN -> table_ok seq tab ->
  hq_build 256 seq tab = Val t ->
  (17 <= fuel)%nat -> (S (S (N.to_nat (len seq / (8 * 256)))) <= fuel)%nat ->
  C02_source_contract w t seq g_hqwt256_code_index g_hqwt256_len g_hqwt256_get g_hqwt256_get_unchecked
    (g_hqwt256_rank fuel) (g_hqwt256_rank_unchecked fuel) (g_hqwt256_select fuel) (g_hqwt256_select_unchecked fuel).
Proof. exact g_hqwt256_end_to_end. Qed.
Print Assumptions C02_source_tree_256.
Theorem C02_source_tree_512 : forall w seq tab t fuel, width_ok w ->
  Forall (fun x => x < 2 ^ w) seq -> len seq < RSQ_MAXN -> table_ok seq tab ->
  hq_build 512 seq tab = Val t ->
  (17 <= fuel)%nat -> (S (S (N.to_nat (len seq / (8 * 512)))) <= fuel)%nat ->
  C02_source_contract w t seq g_hqwt512_code_index g_hqwt512_len g_hqwt512_get g_hqwt512_get_unchecked
    (g_hqwt512_rank fuel) (g_hqwt512_rank_unchecked fuel) (g_hqwt512_select fuel) (g_hqwt512_select_unchecked fuel).
Proof. exact g_hqwt512_end_to_end. Qed.
Print Assumptions C02_source_tree_512.
Theorem C02_source_new_256 : forall w seq f tab t fuel, width_ok w ->
  Forall (fun x => x < 2 ^ w) seq -> len seq < RSQ_MAXN -> seq <> [] -> maxN seq < 2 ^ 64 - 1 ->
  lengths_for seq f -> craft4 f (sym_index (maxN seq)) = Val tab -> hq_new 256 seq f = Val t ->
  (17 <= fuel)%nat -> (S (S (N.to_nat (len seq / (8 * 256)))) <= fuel)%nat ->
  C02_source_contract w t seq g_hqwt256_code_index g_hqwt256_len g_hqwt256_get g_hqwt256_get_unchecked
    (g_hqwt256_rank fuel) (g_hqwt256_rank_unchecked fuel) (g_hqwt256_select fuel) (g_hqwt256_select_unchecked fuel).
Proof. exact g_hqwt256_new_end_to_end. Qed.
Print Assumptions C02_source_new_256.
Theorem C02_source_new_512 : forall w seq f tab t fuel, width_ok w ->
  Forall (fun x => x < 2 ^ w) seq -> len seq < RSQ_MAXN -> seq <> [] -> maxN seq < 2 ^ 64 - 1 ->
  lengths_for seq f -> craft4 f (sym_index (maxN seq)) = Val tab -> hq_new 512 seq f = Val t ->
  (17 <= fuel)%nat -> (S (S (N.to_nat (len seq / (8 * 512)))) <= fuel)%nat ->
  C02_source_contract w t seq g_hqwt512_code_index g_hqwt512_len g_hqwt512_get g_hqwt512_get_unchecked
    (g_hqwt512_rank fuel) (g_hqwt512_rank_unchecked fuel) (g_hqwt512_select fuel) (g_hqwt512_select_unchecked fuel).
Proof. exact g_hqwt512_new_end_to_end. Qed.
Print Assumptions C02_source_new_512.

(* ---- the code assignment craft_wm_codes of src/quadwt/huffqwt.rs REGENERATED as written (T5, Gen/FnsCraft.v: the hash map
   as the list of its pairs in ANY iteration order, lengths doubled to bits, the stable sort by length, the in-place expansion
   of the fixed-size scratch array with its four writes per entry, the reversal of the 2-bit fragments, the table as two
   lists): whenever the hand model returns a table the regenerated function returns the same table, hence for every
   admissible request and every iteration order of the hash map it returns a compatible table (the hypothesis of the tree
   theorems above).  The converse fails on infeasible length profiles (Kraft sum > 1): the source reads untouched zeros of
   the scratch array and returns clashing codes where the hand model faults (Proofs/FnsCraftOk.v,
   g_craft_infeasible_example); such profiles are never produced by the coder for a non-empty sequence. *)
From QwtModel Require Import Loops Codes CraftP FnsCraft FnsCraftOk.
Theorem C02_source_craft_sim : forall fuel freq sigma tab,
  let f := sort_by_snd (map dbl freq) in
  Forall (fun p => 2 * snd p < 2 ^ 32) freq -> 4 * len freq < 2 ^ 64 -> sigma + 1 < 2 ^ 64 ->
  (17 <= fuel)%nat ->
  craft4 f sigma = Val tab ->
  g_craft_wm_codes4 fuel freq sigma = Val (map pc_content tab, map pc_len tab).
Proof. exact g_craft_sim. Qed.
Print Assumptions C02_source_craft_sim.
Theorem C02_source_craft_end_to_end : forall fuel freq sigma,
  let f := sort_by_snd (map dbl freq) in
  craft_input_ok 2 f sigma -> Forall (fun p => snd p <= 32) f -> craft_fits 2 f (len f * 4) = true ->
  sigma + 1 < 2 ^ 64 -> (17 <= fuel)%nat ->
  exists tab, g_craft_wm_codes4 fuel freq sigma = Val (map pc_content tab, map pc_len tab) /\
    craft4 f sigma = Val tab /\
    len tab = sigma + 1 /\
    (forall sym l, In (sym, l) f -> exists c, nthN tab sym = Some c /\ pc_len c = l /\ code_wf 2 c = true) /\
    (forall sym v, In (sym, v) freq -> exists c, nthN tab sym = Some c /\ pc_len c = 2 * v /\ code_wf 2 c = true) /\
    (forall sym, ~ In sym (map fst f) -> sym <= sigma -> nthN tab sym = Some pc_zero) /\
    code_wm_ok 2 tab (map fst f) = true.
Proof. exact g_craft_end_to_end. Qed.
Print Assumptions C02_source_craft_end_to_end.
