(* Word-level lemmas on the packed superblock word of Model/RSQ.v:
   w = sbc * 2^84 + f1 + f2 * 2^12 + ... + f7 * 2^72 *)
From Coq Require Import ZArith Lia ZifyBool ZifyN ZifyNat.
From QwtModel Require Import ListX Consts QVec RSQ ListXP ConstsOk QVecP.
Ltac Zify.zify_post_hook ::= Z.div_mod_to_equations.
Arguments N.add : simpl never.
Arguments N.sub : simpl never.
Arguments N.mul : simpl never.
Arguments N.eqb : simpl never.
Arguments N.ltb : simpl never.
Arguments N.leb : simpl never.
Arguments N.pred : simpl never.
Arguments N.of_nat : simpl never.
Arguments N.land : simpl never.
Arguments N.lor : simpl never.
Arguments N.shiftr : simpl never.
Arguments N.shiftl : simpl never.
Arguments N.div : simpl never.
Arguments N.modulo : simpl never.
Arguments N.pow : simpl never.
Arguments N.sqrt : simpl never.

(* replace closed powers of two by numerals *)
Ltac norm_pow :=
  repeat match goal with
  | |- context [N.pow 2 ?k] =>
      let v := eval vm_compute in (N.pow 2 k) in
      lazymatch v with N.pos _ => change (N.pow 2 k) with v end
  end.
Tactic Notation "norm_pow" "in" hyp(H) :=
  repeat match type of H with
  | context [N.pow 2 ?k] =>
      let v := eval vm_compute in (N.pow 2 k) in
      lazymatch v with N.pos _ => change (N.pow 2 k) with v in H end
  end.

(* more constants (all closed by computation on the extracted values) *)
Lemma SB_SHIFT_val : SB_SHIFT = 84. Proof. reflexivity. Qed.
Lemma SB_SHIFT_GR_val : SB_SHIFT_GR = 84. Proof. reflexivity. Qed.
Lemma SB_SHIFT_GC_val : SB_SHIFT_GC = 84. Proof. reflexivity. Qed.
Lemma BLK_BITS_GR_val : BLK_BITS_GR = 12. Proof. reflexivity. Qed.
Lemma BLK_MASK_GR_val : BLK_MASK_GR = 4095. Proof. reflexivity. Qed.
Lemma BLK_LIMIT_val : BLK_LIMIT = 4096. Proof. reflexivity. Qed.
Lemma SET_BLOCK_ID_LIMIT_val : SET_BLOCK_ID_LIMIT = 8. Proof. reflexivity. Qed.
Lemma BLK_BITS_val : BLK_BITS = 12. Proof. reflexivity. Qed.
Lemma BLK_MASK_BP_val : BLK_MASK_BP = 4095. Proof. reflexivity. Qed.
Lemma BLK_BITS_BP_val : BLK_BITS_BP = 12. Proof. reflexivity. Qed.
Lemma BLOCKS_IN_SB_val : BLOCKS_IN_SB = 8. Proof. reflexivity. Qed.
Lemma RS_BLOCKS_IN_SB_val : RS_BLOCKS_IN_SB = 8. Proof. reflexivity. Qed.
Lemma SELECT_NUM_SAMPLES_val : SELECT_NUM_SAMPLES = 8192. Proof. reflexivity. Qed.
Lemma MAX_LEN_val : MAX_LEN = 8796093022208. Proof. reflexivity. Qed.
Lemma RANK_BLOCK_MASK_val : RANK_BLOCK_MASK = 7. Proof. reflexivity. Qed.

Lemma land4095 x : N.land x 4095 = x mod 4096.
Proof. change 4095 with (N.ones 12). rewrite N.land_ones. reflexivity. Qed.
Lemma land7 x : N.land x 7 = x mod 8.
Proof. change 7 with (N.ones 3). rewrite N.land_ones. reflexivity. Qed.
Lemma land511 x : N.land x 511 = x mod 512.
Proof. change 511 with (N.ones 9). rewrite N.land_ones. reflexivity. Qed.
Lemma shiftr9 x : N.shiftr x 9 = x / 512.
Proof. rewrite N.shiftr_div_pow2. reflexivity. Qed.

(* ------------------------------------------------------------------ packed word *)
Definition packw (sbc : N) (f : N -> N) : N :=
  sbc * 2 ^ 84 + f 1 + f 2 * 2 ^ 12 + f 3 * 2 ^ 24 + f 4 * 2 ^ 36 + f 5 * 2 ^ 48
  + f 6 * 2 ^ 60 + f 7 * 2 ^ 72.

Definition fbound (f : N -> N) : Prop := forall k, 1 <= k <= 7 -> f k < 4096.

Lemma packw_ext sbc f g : (forall k, 1 <= k <= 7 -> f k = g k) -> packw sbc f = packw sbc g.
Proof.
  intros H. unfold packw.
  rewrite (H 1), (H 2), (H 3), (H 4), (H 5), (H 6), (H 7) by lia. reflexivity.
Qed.

Lemma packw_zero sbc : packw sbc (fun _ => 0) = sbc * 2 ^ 84.
Proof. unfold packw. lia. Qed.

Ltac fb H :=
  pose proof (H 1 ltac:(lia)); pose proof (H 2 ltac:(lia)); pose proof (H 3 ltac:(lia));
  pose proof (H 4 ltac:(lia)); pose proof (H 5 ltac:(lia)); pose proof (H 6 ltac:(lia));
  pose proof (H 7 ltac:(lia)).

Lemma packw_sbc sbc f : fbound f -> N.shiftr (packw sbc f) 84 = sbc.
Proof.
  intros H. fb H. rewrite N.shiftr_div_pow2. unfold packw. norm_pow. lia.
Qed.

Lemma packw_shift sbc f k : fbound f -> 1 <= k <= 7 ->
  N.shiftr (packw sbc f) (12 * (k - 1)) mod 4096 = f k.
Proof.
  intros H Hk. fb H. rewrite N.shiftr_div_pow2. unfold packw.
  assert (C : k = 1 \/ k = 2 \/ k = 3 \/ k = 4 \/ k = 5 \/ k = 6 \/ k = 7) by lia.
  destruct C as [->|[->|[->|[->|[->|[->| ->]]]]]];
    match goal with |- context [12 * (?a - 1)] =>
      let v := eval vm_compute in (12 * (a - 1)) in change (12 * (a - 1)) with v end;
    norm_pow; lia.
Qed.

Lemma packw_lt sbc f : fbound f -> sbc < 2 ^ 44 -> packw sbc f < 2 ^ 128.
Proof. intros H Hs. fb H. unfold packw. norm_pow. norm_pow in Hs. lia. Qed.
