(* The bit vector (src/bitvector/mod.rs, model Model/BitVec.v) refines [list bool]:
   after any history of operations every reader is a function of the abstract list. *)
From Coq Require Import ZArith Lia ZifyBool ZifyN ZifyNat Sorted.
From QwtModel Require Import ListX Consts Words BitVec ListXP BitsLib BitVecW BitVecIter.
Ltac Zify.zify_post_hook ::= Z.div_mod_to_equations.
Arguments N.add : simpl never.
Arguments N.sub : simpl never.
Arguments N.mul : simpl never.
Arguments N.eqb : simpl never.
Arguments N.ltb : simpl never.
Arguments N.leb : simpl never.
Arguments N.pred : simpl never.
Arguments N.of_nat : simpl never.
Arguments N.land : simpl never.
Arguments N.lor : simpl never.
Arguments N.lxor : simpl never.
Arguments N.shiftr : simpl never.
Arguments N.shiftl : simpl never.
Arguments N.testbit : simpl never.
Arguments N.div : simpl never.
Arguments N.modulo : simpl never.
Arguments N.pow : simpl never.

(* ================================================================== invariant *)
Definition bv_inv (b : bitvec) : Prop :=
  len (bv_words b) = 8 * ((bv_nbits b + 511) / 512) /\
  Forall (fun w => w < 2 ^ 64) (bv_words b) /\
  (* padding bits are zero *)
  (forall j, bv_nbits b <= j -> j < 64 * len (bv_words b) ->
             nthN (concat (map (bits_of 64) (bv_words b))) j = Some 0) /\
  bv_nones b = countb (bv_abs b) /\
  bv_nbits b < 2 ^ 63.

(* element j of a list of booleans, false outside *)
Definition nthb (l : list bool) (j : N) : bool := match nthN l j with Some x => x | None => false end.

Lemma nthb_out l j : len l <= j -> nthb l j = false.
Proof. intros H. unfold nthb. now rewrite nthN_none. Qed.
Lemma nthN_nthb l j : j < len l -> nthN l j = Some (nthb l j).
Proof. intros H. unfold nthb. destruct (nthN_lt_some l j H) as (a & ->). reflexivity. Qed.
Lemma nthb_app_last l x j : nthb (l ++ [x]) j = if j =? len l then x else nthb l j.
Proof.
  unfold nthb. rewrite nthN_app. destruct (N.ltb_spec j (len l)) as [H|H].
  - destruct (N.eqb_spec j (len l)); [lia|reflexivity].
  - destruct (N.eqb_spec j (len l)) as [->|Hne].
    + now rewrite N.sub_diag.
    + rewrite nthN_cons_pos by lia. rewrite nthN_nil. now rewrite (nthN_none l).
Qed.
Lemma nthb_app_false l n j : nthb (l ++ repeat false n) j = nthb l j.
Proof.
  unfold nthb. rewrite nthN_app. destruct (N.ltb_spec j (len l)) as [H|H]; [reflexivity|].
  rewrite (nthN_none l) by assumption. rewrite nthN_repeat_gen. now destruct (_ <? _).
Qed.
Lemma nthb_setN l i v j : nthb (setN l i v) j = if (j =? i) && (i <? len l) then v else nthb l j.
Proof. unfold nthb. rewrite nthN_setN. now destruct ((j =? i) && (i <? len l)). Qed.
Lemma nthb_ext l1 l2 : len l1 = len l2 -> (forall j, nthb l1 j = nthb l2 j) -> l1 = l2.
Proof.
  intros Hl H. apply list_ext_nthN. intros j. destruct (N.ltb_spec j (len l1)) as [Hj|Hj].
  - rewrite !nthN_nthb by lia. now rewrite H.
  - rewrite !nthN_none by lia. reflexivity.
Qed.

(* what the invariant says, in working form *)
Lemma inv_words_len b : bv_inv b -> len (bv_words b) = 8 * ((bv_nbits b + 511) / 512).
Proof. now intros (H & _). Qed.
Lemma inv_words_ok b : bv_inv b -> words_ok (bv_words b).
Proof. now intros (_ & H & _). Qed.
Lemma inv_small b : bv_inv b -> bv_nbits b < 2 ^ 63.
Proof. now intros (_ & _ & _ & _ & H). Qed.
Lemma inv_nones b : bv_inv b -> bv_nones b = countb (bv_abs b).
Proof. now intros (_ & _ & _ & H & _). Qed.
Lemma inv_cap b : bv_inv b -> bv_nbits b <= 64 * len (bv_words b).
Proof. intros H. rewrite (inv_words_len b H). lia. Qed.
Lemma inv_len b : bv_inv b -> len (bv_abs b) = bv_nbits b.
Proof. intros H. rewrite bv_abs_absl. apply len_absl, inv_cap, H. Qed.
Lemma inv_wbit b : bv_inv b -> forall j, wbit (bv_words b) j = nthb (bv_abs b) j.
Proof.
  intros H j. pose proof (inv_cap b H) as Hc. unfold nthb. rewrite bv_abs_absl, nthN_absl by assumption.
  destruct (N.ltb_spec j (bv_nbits b)) as [Hj|Hj]; [reflexivity|].
  destruct (N.ltb_spec j (64 * len (bv_words b))) as [Hj2|Hj2]; [|now apply wbit_out].
  destruct H as (_ & _ & Hpad & _). specialize (Hpad j Hj Hj2). fold (flat (bv_words b)) in Hpad.
  rewrite nthN_flat in Hpad. destruct (_ <? _); [|discriminate].
  injection Hpad as Hpad. now destruct (wbit (bv_words b) j).
Qed.

(* building a state *)
Lemma build_state ws nbits nones l :
  len ws = 8 * ((nbits + 511) / 512) -> words_ok ws -> nbits < 2 ^ 63 -> len l = nbits ->
  (forall j, wbit ws j = nthb l j) -> nones = countb l ->
  bv_inv (mk_bv ws nbits nones) /\ bv_abs (mk_bv ws nbits nones) = l.
Proof.
  intros Hlen Hok Hsm Hl Hb Hn.
  assert (Hc : nbits <= 64 * len ws) by lia.
  assert (Habs : bv_abs (mk_bv ws nbits nones) = l).
  { rewrite bv_abs_absl. cbn [bv_words bv_nbits]. apply nthb_ext.
    - rewrite len_absl by assumption. lia.
    - intros j. unfold nthb at 1. rewrite nthN_absl by assumption.
      destruct (N.ltb_spec j nbits); [apply Hb|]. symmetry. apply nthb_out. lia. }
  split; [|exact Habs].
  unfold bv_inv. rewrite Habs. cbn [bv_words bv_nbits bv_nones].
  split; [exact Hlen|]. split; [exact Hok|]. split; [|split; assumption].
  intros j Hj Hj2. fold (flat ws). rewrite nthN_flat.
  destruct (N.ltb_spec j (64 * len ws)); [|lia]. rewrite Hb, nthb_out by lia. reflexivity.
Qed.

Theorem bv_inv_empty : bv_inv bv_empty /\ bv_abs bv_empty = [].
Proof.
  unfold bv_empty. apply build_state; try reflexivity. constructor.
Qed.

(* ================================================================== push *)
Lemma bvm_push_spec b bit : bv_inv b -> bv_nbits b + 1 < 2 ^ 63 ->
  exists b', bvm_push b bit = Val b' /\ bv_inv b' /\ bv_abs b' = bv_abs b ++ [bit].
Proof.
  intros Hinv Hsm.
  pose proof (inv_words_len b Hinv) as Hlen. pose proof (inv_words_ok b Hinv) as Hok.
  pose proof (inv_wbit b Hinv) as Hb. pose proof (inv_len b Hinv) as Hl.
  unfold bvm_push. rewrite BV_PUSH_MOD_val.
  set (nb := bv_nbits b) in *. set (ws := bv_words b) in *.
  assert (Hws1 : exists ws1, (if nb mod 512 =? 0 then ws ++ repeat 0 8 else ws) = ws1 /\
            len ws1 = 8 * (nb / 512 + 1) /\ words_ok ws1 /\ forall j, wbit ws1 j = wbit ws j).
  { destruct (N.eqb_spec (nb mod 512) 0) as [E|E]; eexists; (split; [reflexivity|]).
    - split; [rewrite len_app, len_repeat; lia|]. split.
      + apply Forall_app. split; [exact Hok|]. apply Forall_repeat, word_ok_0.
      + intros j. apply wbit_app_zeros.
    - split; [lia|]. split; [exact Hok|reflexivity]. }
  destruct Hws1 as (ws1 & -> & Hlen1 & Hok1 & Hb1).
  assert (Hws2 : exists ws2,
            (if bit then if len ws1 =? 0 then Val ws1 else bvl_set_symbol ws1 (len ws1 / 8 - 1) 1 (nb mod 512)
             else Val ws1) = Val ws2 /\ len ws2 = len ws1 /\ words_ok ws2 /\
            forall j, wbit ws2 j = if j =? nb then bit else wbit ws j).
  { destruct bit.
    - destruct (N.eqb_spec (len ws1) 0); [lia|].
      destruct (bvl_set_symbol_spec ws1 (len ws1 / 8 - 1) 1 (nb mod 512)) as (ws2 & E2 & Hl2 & Hok2 & Hb2);
        [assumption|lia|lia|].
      exists ws2. split; [exact E2|]. split; [exact Hl2|]. split; [exact Hok2|].
      intros j. rewrite Hb2, Hb1.
      destruct (N.eqb_spec j (512 * (len ws1 / 8 - 1) + nb mod 512)), (N.eqb_spec j nb); try reflexivity; lia.
    - exists ws1. split; [reflexivity|]. split; [reflexivity|]. split; [exact Hok1|].
      intros j. rewrite Hb1. destruct (N.eqb_spec j nb) as [->|]; [|reflexivity].
      rewrite Hb. apply nthb_out. lia. }
  destruct Hws2 as (ws2 & -> & Hlen2 & Hok2 & Hb2). cbn [bind].
  unfold oadd. destruct (N.ltb_spec (nb + 1) (2 ^ 64)); [|lia]. cbn [bind].
  eexists; split; [reflexivity|]. apply build_state.
  - lia.
  - assumption.
  - assumption.
  - rewrite len_app, len_cons, len_nil. lia.
  - intros j. rewrite Hb2, nthb_app_last, Hb, Hl. reflexivity.
  - rewrite countb_app, (inv_nones b Hinv). cbn [countb]. destruct bit; lia.
Qed.

(* ================================================================== extend_with_zeros *)
Lemma resize_words_ge ws n : len ws <= n -> resize_words ws n = ws ++ repeat 0 (N.to_nat (n - len ws)).
Proof.
  intros H. unfold resize_words. destruct (N.leb_spec n (len ws)) as [Hle|Hgt]; [|reflexivity].
  rewrite firstnN_all by assumption. replace (n - len ws) with 0 by lia. cbn [N.to_nat repeat].
  now rewrite app_nil_r.
Qed.

Lemma bvm_extend_with_zeros_spec b n : bv_inv b -> bv_nbits b + n < 2 ^ 63 ->
  exists b', bvm_extend_with_zeros b n = Val b' /\ bv_inv b' /\
             bv_abs b' = bv_abs b ++ repeat false (N.to_nat n).
Proof.
  intros Hinv Hsm.
  pose proof (inv_words_len b Hinv) as Hlen. pose proof (inv_words_ok b Hinv) as Hok.
  pose proof (inv_wbit b Hinv) as Hb. pose proof (inv_len b Hinv) as Hl.
  unfold bvm_extend_with_zeros. rewrite BV_EXT_ROUND_val, BV_EXT_DIV_val.
  unfold oadd. destruct (N.ltb_spec (bv_nbits b + n) (2 ^ 64)); [|lia]. cbn [bind].
  destruct (N.ltb_spec (bv_nbits b + n + 511) (2 ^ 64)); [|lia]. cbn [bind].
  rewrite resize_words_ge by lia.
  eexists; split; [reflexivity|]. apply build_state.
  - rewrite len_app, len_repeat. lia.
  - apply Forall_app. split; [exact Hok|]. apply Forall_repeat, word_ok_0.
  - assumption.
  - rewrite len_app, len_repeat. lia.
  - intros j. rewrite wbit_app_zeros, nthb_app_false. apply Hb.
  - rewrite countb_app, countb_repeat_false. rewrite (inv_nones b Hinv). lia.
Qed.

(* ================================================================== set *)
Lemma bvm_set_spec b i bit : bv_inv b -> i < bv_nbits b ->
  exists b', bvm_set b i bit = Val b' /\ bv_inv b' /\ bv_abs b' = setN (bv_abs b) i bit.
Proof.
  intros Hinv Hi.
  pose proof (inv_words_len b Hinv) as Hlen. pose proof (inv_words_ok b Hinv) as Hok.
  pose proof (inv_wbit b Hinv) as Hb. pose proof (inv_len b Hinv) as Hl.
  pose proof (inv_small b Hinv) as Hsm. pose proof (inv_nones b Hinv) as Hn.
  assert (Hcur : nthN (bv_abs b) i = Some (wbit (bv_words b) i)).
  { rewrite Hb. apply nthN_nthb. lia. }
  pose proof (countb_setN _ _ bit _ Hcur) as Hcnt.
  unfold bvm_set. destruct (N.ltb_spec i (bv_nbits b)); [|lia]. cbn [oassert bind].
  unfold bv_get_unchecked. rewrite bv_get_bit_slice_spec by lia. cbn [bind].
  rewrite BV_SET_SHIFT_val, BV_SET_MASK_val, shr9, land511.
  assert (Hones : exists ones,
     (if bit && negb (wbit (bv_words b) i) then Val (bv_nones b + 1)
      else if negb bit && wbit (bv_words b) i then osub (bv_nones b) 1 else Val (bv_nones b)) = Val ones /\
     ones = countb (setN (bv_abs b) i bit)).
  { destruct bit, (wbit (bv_words b) i) eqn:Ec; cbn [andb negb N.b2n] in *.
    - eexists; split; [reflexivity|]. lia.
    - eexists; split; [reflexivity|]. lia.
    - pose proof (countb_nth_pos _ _ Hcur). unfold osub.
      destruct (N.leb_spec 1 (bv_nones b)); [|lia]. eexists; split; [reflexivity|]. lia.
    - eexists; split; [reflexivity|]. lia. }
  destruct Hones as (ones & -> & Hones). cbn [bind].
  destruct (N.ltb_spec (i / 512 * 8) (len (bv_words b))); [|lia]. cbn [bind].
  destruct (bvl_set_symbol_spec (bv_words b) (i / 512) (if bit then 1 else 0) (i mod 512))
    as (ws2 & E2 & Hl2 & Hok2 & Hb2); [assumption|lia|lia|].
  rewrite E2. cbn [bind].
  eexists; split; [reflexivity|]. apply build_state.
  - lia.
  - assumption.
  - assumption.
  - rewrite setN_len. exact Hl.
  - intros j. rewrite Hb2, nthb_setN, Hb, Hl.
    assert (Et : N.testbit (if bit then 1 else 0) 0 = bit) by now destruct bit.
    rewrite Et.
    destruct (N.eqb_spec j (512 * (i / 512) + i mod 512)), (N.eqb_spec j i), (N.ltb_spec i (bv_nbits b));
      cbn [andb]; try reflexivity; lia.
  - exact Hones.
Qed.

(* ================================================================== extend (bools), append_bits *)
Lemma bvm_extend_bools_spec : forall bs b, bv_inv b -> bv_nbits b + len bs < 2 ^ 63 ->
  exists b', bvm_extend_bools b bs = Val b' /\ bv_inv b' /\ bv_abs b' = bv_abs b ++ bs.
Proof.
  induction bs as [|x bs IH]; intros b Hinv Hsm; cbn [bvm_extend_bools].
  - exists b. rewrite app_nil_r. auto.
  - rewrite len_cons in Hsm.
    destruct (bvm_push_spec b x Hinv) as (b1 & E1 & Hinv1 & Habs1); [lia|]. rewrite E1. cbn [bind].
    pose proof (inv_len b Hinv) as Hl. pose proof (inv_len b1 Hinv1) as Hl1.
    rewrite Habs1, len_app, len_cons, len_nil in Hl1.
    destruct (IH b1 Hinv1) as (b2 & E2 & Hinv2 & Habs2); [lia|].
    exists b2. split; [exact E2|]. split; [exact Hinv2|]. rewrite Habs2, Habs1, <- app_assoc. reflexivity.
Qed.

Lemma bvm_append_loop_spec bits : forall fuel b i, bv_inv b -> bv_nbits b + N.of_nat fuel < 2 ^ 63 ->
  exists b', bvm_append_loop b bits i fuel = Val b' /\ bv_inv b' /\
             bv_abs b' = bv_abs b ++ map (N.testbit bits) (seqN i fuel).
Proof.
  induction fuel as [|fuel IH]; intros b i Hinv Hsm; cbn [bvm_append_loop seqN map].
  - exists b. rewrite app_nil_r. auto.
  - rewrite land1_shiftr_testbit.
    destruct (bvm_push_spec b (N.testbit bits i) Hinv) as (b1 & E1 & Hinv1 & Habs1); [lia|].
    rewrite E1. cbn [bind].
    pose proof (inv_len b Hinv) as Hl. pose proof (inv_len b1 Hinv1) as Hl1.
    rewrite Habs1, len_app, len_cons, len_nil in Hl1.
    destruct (IH b1 (i + 1) Hinv1) as (b2 & E2 & Hinv2 & Habs2); [lia|].
    exists b2. split; [exact E2|]. split; [exact Hinv2|]. rewrite Habs2, Habs1, <- app_assoc. reflexivity.
Qed.

(* the assertion `len == 64 || bits >> len == 0` followed by `len <= 64` *)
Lemma bits_assert_ok n bits : n <= 64 -> bits < 2 ^ n ->
  (n =? 64) || ((if n <? 64 then N.shiftr bits n else 1) =? 0) = true.
Proof.
  intros Hn Hb. destruct (N.eqb_spec n 64); [reflexivity|]. cbn [orb].
  destruct (N.ltb_spec n 64); [|lia]. rewrite N.shiftr_div_pow2, N.div_small by assumption. reflexivity.
Qed.
Lemma bits_assert_fail n bits : bits < 2 ^ 64 -> (n <=? 64) && (bits <? 2 ^ n) = false ->
  (n =? 64) || ((if n <? 64 then N.shiftr bits n else 1) =? 0) = false.
Proof.
  intros Ht H. destruct (N.eqb_spec n 64) as [->|Hne].
  - destruct (N.ltb_spec bits (2 ^ 64)); [discriminate H|lia].
  - cbn [orb]. destruct (N.ltb_spec n 64) as [Hlt|Hge].
    + destruct (N.leb_spec n 64); [|lia]. cbn [andb] in H.
      destruct (N.ltb_spec bits (2 ^ n)) as [|Hge]; [discriminate H|].
      rewrite N.shiftr_div_pow2. pose proof (pow2_pos n).
      assert (1 <= bits / 2 ^ n). { apply N.div_le_lower_bound; lia. }
      destruct (N.eqb_spec (bits / 2 ^ n) 0); [lia|reflexivity].
    + reflexivity.
Qed.

Lemma bvm_append_bits_spec b bits n : bv_inv b -> n <= 64 -> bits < 2 ^ n -> bv_nbits b + n < 2 ^ 63 ->
  exists b', bvm_append_bits b bits n = Val b' /\ bv_inv b' /\ bv_abs b' = bv_abs b ++ bools_of n bits.
Proof.
  intros Hinv Hn Hb Hsm. unfold bvm_append_bits. rewrite bits_assert_ok by assumption.
  cbn [oassert bind]. destruct (N.leb_spec n 64); [|lia]. cbn [bind].
  destruct (N.eqb_spec n 0) as [->|Hn0].
  - exists b. unfold bools_of. cbn [N.to_nat seqN map]. rewrite app_nil_r. auto.
  - apply bvm_append_loop_spec; [assumption|lia].
Qed.

(* ================================================================== set_bits *)
Definition set_bits_list (l : list bool) (i n bits : N) : list bool :=
  firstnN i l ++ bools_of n bits ++ skipnN (i + n) l.

Lemma len_set_bits_list l i n bits : i + n <= len l -> len (set_bits_list l i n bits) = len l.
Proof.
  intros H. unfold set_bits_list. rewrite !len_app, firstnN_len, len_bools_of, len_skipnN. lia.
Qed.
Lemma nthb_set_bits_list l i n bits j : i + n <= len l ->
  nthb (set_bits_list l i n bits) j = if (i <=? j) && (j <? i + n) then N.testbit bits (j - i) else nthb l j.
Proof.
  intros H. unfold nthb, set_bits_list. rewrite !nthN_app, firstnN_len, len_bools_of.
  replace (N.min i (len l)) with i by lia.
  destruct (N.ltb_spec j i) as [Hji|Hji].
  - rewrite nthN_firstnN. destruct (N.ltb_spec j i); [|lia].
    destruct (N.leb_spec i j); [lia|reflexivity].
  - destruct (N.leb_spec i j); [|lia]. cbn [andb].
    destruct (N.ltb_spec (j - i) n), (N.ltb_spec j (i + n)); try lia.
    + rewrite nthN_bools_of. destruct (N.ltb_spec (j - i) n); [reflexivity|lia].
    + rewrite nthN_skipnN. replace (i + n + (j - i - n)) with j by lia. reflexivity.
Qed.

Lemma countb_split l i n : i + n <= len l ->
  countb l = countb (firstnN i l) + countb (firstnN n (skipnN i l)) + countb (skipnN (i + n) l).
Proof.
  intros H. rewrite <- (firstnN_skipnN l i) at 1. rewrite countb_app.
  rewrite <- (firstnN_skipnN (skipnN i l) n) at 1. rewrite countb_app, skipnN_skipnN. lia.
Qed.

(* get_bits_slice on a state satisfying the invariant *)
Lemma bv_get_bits_slice_abs b i n : bv_inv b -> 1 <= n -> n <= 64 -> i + n <= bv_nbits b ->
  bv_get_bits_slice (bv_words b) i n = Val (bits_value (firstnN n (skipnN i (bv_abs b)))).
Proof.
  intros Hinv H1 H64 Hr. pose proof (inv_cap b Hinv) as Hc. pose proof (inv_len b Hinv) as Hl.
  destruct (bv_get_bits_slice_spec (bv_words b) i n (inv_words_ok b Hinv) H1 H64) as (v & E & Hv & Hb); [lia|].
  rewrite E. f_equal. apply N.bits_inj. intros j.
  rewrite testbit_bits_value, nthN_firstnN, nthN_skipnN.
  destruct (N.ltb_spec j n) as [Hj|Hj].
  - rewrite Hb by assumption. rewrite (inv_wbit b Hinv). reflexivity.
  - now apply (lt_pow2_bits v n).
Qed.

Lemma bvm_set_bits_spec b i n bits : bv_inv b -> i + n <= bv_nbits b -> n <= 64 -> bits < 2 ^ n ->
  exists b', bvm_set_bits b i n bits = Val b' /\ bv_inv b' /\ bv_abs b' = set_bits_list (bv_abs b) i n bits.
Proof.
  intros Hinv Hr Hn Hbits.
  pose proof (inv_words_len b Hinv) as Hlen. pose proof (inv_words_ok b Hinv) as Hok.
  pose proof (inv_wbit b Hinv) as Hb. pose proof (inv_len b Hinv) as Hl.
  pose proof (inv_small b Hinv) as Hsm. pose proof (inv_nones b Hinv) as Hnn.
  unfold bvm_set_bits. unfold oadd. destruct (N.ltb_spec (i + n) (2 ^ 64)); [|lia]. cbn [bind].
  destruct (N.leb_spec (i + n) (bv_nbits b)); [|lia]. cbn [oassert bind].
  rewrite bits_assert_ok by assumption. cbn [oassert bind].
  destruct (N.leb_spec n 64); [|lia]. cbn [bind].
  destruct (N.eqb_spec n 0) as [->|Hn0].
  - exists b. split; [reflexivity|]. split; [assumption|].
    unfold set_bits_list, bools_of. cbn [N.to_nat seqN map app]. rewrite N.add_0_r.
    now rewrite firstnN_skipnN.
  - rewrite bv_get_bits_slice_abs by (try assumption; lia). cbn [bind].
    rewrite popcount_bits_value.
    assert (Hsplit := countb_split (bv_abs b) i n ltac:(lia)).
    unfold osub. destruct (N.leb_spec (countb (firstnN n (skipnN i (bv_abs b)))) (bv_nones b)); [|lia].
    cbn [bind].
    destruct (bvm_set_bits_loop_spec i bits (N.to_nat n) (bv_words b) 0)
      as (ws2 & E2 & Hl2 & Hok2 & Hb2); [assumption|lia|lia|].
    rewrite E2. cbn [bind]. eexists; split; [reflexivity|]. apply build_state.
    + lia.
    + assumption.
    + assumption.
    + rewrite len_set_bits_list by lia. exact Hl.
    + intros j. rewrite Hb2, nthb_set_bits_list by lia. rewrite Hb.
      rewrite N.add_0_r, Nnat.N2Nat.id. reflexivity.
    + unfold set_bits_list. rewrite !countb_app. rewrite (popcount_bools_of n bits) by assumption. lia.
Qed.

(* ================================================================== extend (positions) *)
Definition ext_pos_step (l : list bool) (p : N) : list bool :=
  setN (if len l <=? p then l ++ repeat false (N.to_nat (p + 1 - len l)) else l) p true.

Lemma bvm_extend_positions_spec : forall ps b, bv_inv b -> Forall (fun p => p < 2 ^ 63 - 1) ps ->
  exists b', bvm_extend_positions b ps = Val b' /\ bv_inv b' /\ bv_abs b' = fold_left ext_pos_step ps (bv_abs b).
Proof.
  induction ps as [|p ps IH]; intros b Hinv HF; cbn [bvm_extend_positions fold_left].
  - exists b. auto.
  - inversion HF as [|? ? Hp HF']; subst.
    pose proof (inv_len b Hinv) as Hl. pose proof (inv_small b Hinv) as Hsm.
    assert (H1 : exists b1,
      (if bv_nbits b <=? p
       then (let! p1 := oadd 64 p 1 in let! d := osub p1 (bv_nbits b) in bvm_extend_with_zeros b d)
       else Val b) = Val b1 /\ bv_inv b1 /\
      bv_abs b1 = (if len (bv_abs b) <=? p then bv_abs b ++ repeat false (N.to_nat (p + 1 - len (bv_abs b))) else bv_abs b)
      /\ p < bv_nbits b1).
    { rewrite Hl. destruct (N.leb_spec (bv_nbits b) p) as [Hle|Hgt].
      - unfold oadd. destruct (N.ltb_spec (p + 1) (2 ^ 64)); [|lia]. cbn [bind].
        unfold osub. destruct (N.leb_spec (bv_nbits b) (p + 1)); [|lia]. cbn [bind].
        destruct (bvm_extend_with_zeros_spec b (p + 1 - bv_nbits b) Hinv) as (b1 & E1 & Hinv1 & Habs1); [lia|].
        exists b1. split; [exact E1|]. split; [exact Hinv1|]. split; [exact Habs1|].
        rewrite <- (inv_len b1 Hinv1), Habs1, len_app, len_repeat. lia.
      - exists b. auto. }
    destruct H1 as (b1 & -> & Hinv1 & Habs1 & Hp1). cbn [bind].
    destruct (bvm_set_spec b1 p true Hinv1 Hp1) as (b2 & E2 & Hinv2 & Habs2). rewrite E2. cbn [bind].
    destruct (IH b2 Hinv2 HF') as (b3 & E3 & Hinv3 & Habs3).
    exists b3. split; [exact E3|]. split; [exact Hinv3|].
    rewrite Habs3, Habs2, Habs1. reflexivity.
Qed.

(* ================================================================== operations, histories *)
Inductive bvop :=
| OPush (bit : bool) | OAppend (bits len : N) | OZeros (n : N) | OSet (i : N) (bit : bool)
| OSetBits (i len bits : N) | OExtBools (bs : list bool) | OExtPos (ps : list N).

Definition bvstep (b : bitvec) (o : bvop) : outcome bitvec :=
  match o with
  | OPush bit => bvm_push b bit
  | OAppend bits n => bvm_append_bits b bits n
  | OZeros n => bvm_extend_with_zeros b n
  | OSet i bit => bvm_set b i bit
  | OSetBits i n bits => bvm_set_bits b i n bits
  | OExtBools bs => bvm_extend_bools b bs
  | OExtPos ps => bvm_extend_positions b ps
  end.

(* documented preconditions, on the abstract list *)
Definition op_pre (l : list bool) (o : bvop) : bool :=
  match o with
  | OPush _ | OExtBools _ => true
  | OAppend bits n => (n <=? 64) && (bits <? 2 ^ n)
  | OZeros _ => true
  | OSet i _ => i <? len l
  | OSetBits i n bits => (i + n <=? len l) && (n <=? 64) && (bits <? 2 ^ n)
  | OExtPos _ => true
  end.

(* the specification on lists *)
Definition op_spec (l : list bool) (o : bvop) : list bool :=
  match o with
  | OPush bit => l ++ [bit]
  | OAppend bits n => l ++ bools_of n bits              (* the n low bits, LSB first *)
  | OZeros n => l ++ repeat false (N.to_nat n)
  | OSet i bit => setN l i bit
  | OSetBits i n bits => set_bits_list l i n bits        (* firstnN i l ++ bools_of n bits ++ skipnN (i + n) l *)
  | OExtBools bs => l ++ bs
  | OExtPos ps => fold_left ext_pos_step ps l
  end.

(* size guard: nothing can overflow a usize when the vector stays below 2^63 bits *)
Definition op_small (l : list bool) (o : bvop) : Prop :=
  match o with
  | OExtPos ps => Forall (fun p => p < 2 ^ 63 - 1) ps
  | _ => len (op_spec l o) < 2 ^ 63
  end.

(* the integer arguments `bits` are u64 values *)
Definition op_typed (o : bvop) : Prop :=
  match o with
  | OAppend bits _ | OSetBits _ _ bits => bits < 2 ^ 64
  | _ => True
  end.

Theorem bv_step_correct : forall b o, bv_inv b -> op_pre (bv_abs b) o = true -> op_small (bv_abs b) o ->
  exists b', bvstep b o = Val b' /\ bv_inv b' /\ bv_abs b' = op_spec (bv_abs b) o.
Proof.
  intros b o Hinv Hpre Hsm. pose proof (inv_len b Hinv) as Hl.
  destruct o as [bit|bits n|n|i bit|i n bits|bs|ps]; cbn [bvstep op_spec op_pre op_small] in *.
  - rewrite len_app, len_cons, len_nil in Hsm. apply bvm_push_spec; [assumption|lia].
  - rewrite len_app, len_bools_of in Hsm.
    apply bvm_append_bits_spec; try assumption; lia.
  - rewrite len_app, len_repeat in Hsm. apply bvm_extend_with_zeros_spec; [assumption|lia].
  - apply bvm_set_spec; [assumption|lia].
  - apply bvm_set_bits_spec; try assumption; lia.
  - rewrite len_app in Hsm. apply bvm_extend_bools_spec; [assumption|lia].
  - apply bvm_extend_positions_spec; assumption.
Qed.

(* the documented panics are exactly the violated preconditions *)
Theorem bv_step_panics : forall b o, bv_inv b -> op_typed o -> op_pre (bv_abs b) o = false ->
  exists f, bvstep b o = Fault f.
Proof.
  intros b o Hinv Hty Hpre. pose proof (inv_len b Hinv) as Hl.
  destruct o as [bit|bits n|n|i bit|i n bits|bs|ps]; cbn [bvstep op_pre op_typed] in *; try discriminate Hpre.
  - unfold bvm_append_bits. rewrite bits_assert_fail by assumption. cbn [oassert bind]. eauto.
  - unfold bvm_set. rewrite Hl in Hpre. rewrite Hpre. cbn [oassert bind]. eauto.
  - unfold bvm_set_bits. unfold oadd. destruct (N.ltb_spec (i + n) (2 ^ 64)); cbn [bind]; [|eauto].
    rewrite Hl in Hpre. destruct (N.leb_spec (i + n) (bv_nbits b)); cbn [oassert bind]; [|eauto].
    cbn [andb] in Hpre. rewrite bits_assert_fail by assumption. cbn [oassert bind]. eauto.
Qed.

Fixpoint bvrun (b : bitvec) (h : list bvop) : outcome bitvec :=
  match h with [] => Val b | o :: r => let! b' := bvstep b o in bvrun b' r end.
(* every step satisfies its precondition and the size guard on the running abstract list *)
Fixpoint hist_ok (l : list bool) (h : list bvop) : Prop :=
  match h with [] => True | o :: r => op_pre l o = true /\ op_small l o /\ hist_ok (op_spec l o) r end.

Lemma bv_history_from : forall h b, bv_inv b -> hist_ok (bv_abs b) h ->
  exists b', bvrun b h = Val b' /\ bv_inv b' /\ bv_abs b' = fold_left op_spec h (bv_abs b).
Proof.
  induction h as [|o h IH]; intros b Hinv Hok; cbn [bvrun fold_left].
  - exists b. auto.
  - destruct Hok as (Hpre & Hsm & Hok).
    destruct (bv_step_correct b o Hinv Hpre Hsm) as (b1 & E1 & Hinv1 & Habs1). rewrite E1. cbn [bind].
    rewrite <- Habs1 in Hok |- *. now apply IH.
Qed.

(* every reachable state *)
Theorem bv_history_correct : forall h, hist_ok [] h ->
  exists b, bvrun bv_empty h = Val b /\ bv_inv b /\ bv_abs b = fold_left op_spec h [].
Proof.
  intros h Hok. destruct bv_inv_empty as [Hinv Habs]. rewrite <- Habs in Hok |- *.
  now apply bv_history_from.
Qed.

(* ================================================================== observers *)
Theorem bv_len_correct : forall b, bv_inv b -> bv_len b = len (bv_abs b).
Proof. intros b H. unfold bv_len. now rewrite inv_len. Qed.

Theorem bv_is_empty_correct : forall b, bv_inv b -> bv_is_empty b = (len (bv_abs b) =? 0).
Proof. intros b H. unfold bv_is_empty. now rewrite inv_len. Qed.

Theorem bv_count_correct : forall b, bv_inv b ->
  bv_count_ones b = countb (bv_abs b) /\ bv_count_zeros b = Val (len (bv_abs b) - countb (bv_abs b)).
Proof.
  intros b H. unfold bv_count_ones, bv_count_zeros. rewrite (inv_nones b H), <- (inv_len b H).
  split; [reflexivity|]. unfold osub. pose proof (countb_le_len (bv_abs b)).
  destruct (N.leb_spec (countb (bv_abs b)) (len (bv_abs b))); [reflexivity|lia].
Qed.

Theorem bv_get_correct : forall b i, bv_inv b -> bv_get b i = Val (nthN (bv_abs b) i).
Proof.
  intros b i H. pose proof (inv_len b H) as Hl. pose proof (inv_cap b H) as Hc.
  unfold bv_get, bv_get_unchecked. destruct (N.leb_spec (bv_nbits b) i) as [Hi|Hi].
  - now rewrite nthN_none by lia.
  - rewrite bv_get_bit_slice_spec by lia. cbn [bind]. rewrite nthN_nthb by lia.
    now rewrite (inv_wbit b H).
Qed.

(* multi-bit read: value = sum of bit_(i+j) * 2^j.  Immutable vector (strict = false): Some iff
   1 <= n <= 64 and i + n <= length; mutable vector (strict = true), as the code has it:
   Some iff 1 <= n <= 64 and i + n < length.  For all i, n (also those overflowing a usize). *)
Theorem bv_get_bits_correct : forall strict b i n, bv_inv b ->
  bv_get_bits strict b i n =
  Val (if (1 <=? n) && (n <=? 64) && (if strict then i + n <? len (bv_abs b) else i + n <=? len (bv_abs b))
       then Some (bits_value (firstnN n (skipnN i (bv_abs b)))) else None).
Proof.
  intros strict b i n H. pose proof (inv_len b H) as Hl. pose proof (inv_small b H) as Hsm.
  unfold bv_get_bits. rewrite Hl.
  destruct (N.eqb_spec n 0) as [->|Hn0]; cbn [orb].
  { destruct (N.leb_spec 1 0); [lia|reflexivity]. }
  destruct (N.leb_spec 1 n); [|lia]. cbn [andb].
  destruct (N.ltb_spec 64 n) as [H64|H64]; cbn [orb].
  { destruct (N.leb_spec n 64); [lia|reflexivity]. }
  destruct (N.leb_spec n 64); [|lia]. cbn [andb].
  destruct (N.ltb_spec (i + n) (2 ^ 64)) as [Hov|Hov].
  - destruct strict.
    + destruct (N.leb_spec (bv_nbits b) (i + n)), (N.ltb_spec (i + n) (bv_nbits b)); try lia; [reflexivity|].
      rewrite bv_get_bits_slice_abs by (try assumption; lia). reflexivity.
    + destruct (N.ltb_spec (bv_nbits b) (i + n)), (N.leb_spec (i + n) (bv_nbits b)); try lia; [reflexivity|].
      rewrite bv_get_bits_slice_abs by (try assumption; lia). reflexivity.
  - destruct strict.
    + destruct (N.ltb_spec (i + n) (bv_nbits b)); [lia|reflexivity].
    + destruct (N.leb_spec (i + n) (bv_nbits b)); [lia|reflexivity].
Qed.

(* whole-word read with zero padding after the last bit; panics exactly when the word index
   is outside the allocated lines *)
Theorem bv_get_word_correct : forall b w, bv_inv b ->
  bv_get_word b w = if w <? 8 * ((len (bv_abs b) + 511) / 512)
                    then Val (bits_value (firstnN 64 (skipnN (64 * w) (bv_abs b)))) else Fault Panic.
Proof.
  intros b w H. rewrite (inv_len b H), <- (inv_words_len b H). unfold bv_get_word, idx.
  destruct (N.ltb_spec w (len (bv_words b))) as [Hw|Hw].
  - destruct (nthN_lt_some _ _ Hw) as (x & Ex). rewrite Ex. f_equal.
    assert (Hx : word_ok x) by apply (Forall_nthN _ _ _ _ (inv_words_ok b H) Ex).
    apply N.bits_inj. intros j. rewrite testbit_bits_value, nthN_firstnN, nthN_skipnN.
    destruct (N.ltb_spec j 64) as [Hj|Hj].
    + fold (nthb (bv_abs b) (64 * w + j)). rewrite <- (inv_wbit b H).
      assert (Ed : (64 * w + j) / 64 = w) by lia. assert (Em : (64 * w + j) mod 64 = j) by lia.
      rewrite (wbit_nth _ _ x) by (rewrite Ed; exact Ex). now rewrite Em.
    + now apply (lt_pow2_bits x 64).
  - now rewrite nthN_none.
Qed.

(* bit iterators *)
Theorem bvit_correct : forall b i, bv_inv b ->
  bvit_next b i = Val (nthN (bv_abs b) i, if i <? len (bv_abs b) then i + 1 else i) /\
  (i <= len (bv_abs b) -> bvit_len b i = Val (len (bv_abs b) - i)).
Proof.
  intros b i H. pose proof (inv_len b H) as Hl. pose proof (inv_cap b H) as Hc. rewrite Hl. split.
  - unfold bvit_next. destruct (N.ltb_spec i (bv_nbits b)) as [Hi|Hi].
    + rewrite bv_get_bit_slice_spec by lia. cbn [bind]. rewrite nthN_nthb by lia.
      now rewrite (inv_wbit b H).
    + now rewrite nthN_none by lia.
  - intros Hi. unfold bvit_len, osub. destruct (N.leb_spec i (bv_nbits b)); [reflexivity|lia].
Qed.

Theorem bvinto_correct : forall b i, bv_inv b ->
  bvinto_next b i = Val (nthN (bv_abs b) i, if i <? len (bv_abs b) then i + 1 else i).
Proof.
  intros b i H. unfold bvinto_next. rewrite (bv_get_correct b i H). cbn [bind].
  destruct (N.ltb_spec i (len (bv_abs b))) as [Hi|Hi].
  - destruct (nthN_lt_some _ _ Hi) as (x & ->). reflexivity.
  - now rewrite nthN_none.
Qed.

(* extensionality: the derived PartialEq compares the record fields *)
Theorem bv_ext : forall b1 b2, bv_inv b1 -> bv_inv b2 -> bv_abs b1 = bv_abs b2 -> b1 = b2.
Proof.
  intros b1 b2 H1 H2 E.
  assert (En : bv_nbits b1 = bv_nbits b2) by (rewrite <- (inv_len b1 H1), <- (inv_len b2 H2); now rewrite E).
  assert (Ew : bv_words b1 = bv_words b2).
  { apply words_ext; try apply inv_words_ok; try assumption.
    - rewrite (inv_words_len b1 H1), (inv_words_len b2 H2), En. reflexivity.
    - intros j. rewrite (inv_wbit b1 H1), (inv_wbit b2 H2), E. reflexivity. }
  assert (Eo : bv_nones b1 = bv_nones b2) by (rewrite (inv_nones b1 H1), (inv_nones b2 H2); now rewrite E).
  destruct b1 as [w1 n1 o1], b2 as [w2 n2 o2]. cbn [bv_words bv_nbits bv_nones] in *. now subst.
Qed.

(* constructors *)
Theorem bv_from_bools_correct : forall bs, len bs < 2 ^ 63 ->
  exists b, bv_from_bools bs = Val b /\ bv_inv b /\ bv_abs b = bs.
Proof.
  intros bs H. destruct bv_inv_empty as [Hinv Habs]. unfold bv_from_bools.
  destruct (bvm_extend_bools_spec bs bv_empty Hinv) as (b & E & Hb & Ha).
  - cbn [bv_empty bv_nbits]. lia.
  - exists b. rewrite Habs in Ha. auto.
Qed.

Theorem bv_from_positions_correct : forall ps, Forall (fun p => p < 2 ^ 63 - 1) ps ->
  exists b, bv_from_positions ps = Val b /\ bv_inv b /\ bv_abs b = op_spec [] (OExtPos ps).
Proof.
  intros ps H. destruct bv_inv_empty as [Hinv Habs]. unfold bv_from_positions.
  destruct (bvm_extend_positions_spec ps bv_empty Hinv H) as (b & E & Hb & Ha).
  exists b. rewrite Habs in Ha. auto.
Qed.

Theorem bvm_with_zeros_correct : forall n, n < 2 ^ 63 ->
  exists b, bvm_with_zeros n = Val b /\ bv_inv b /\ bv_abs b = repeat false (N.to_nat n).
Proof.
  intros n H. destruct bv_inv_empty as [Hinv Habs]. unfold bvm_with_zeros.
  destruct (bvm_extend_with_zeros_spec bv_empty n Hinv) as (b & E & Hb & Ha).
  - cbn [bv_empty bv_nbits]. lia.
  - exists b. rewrite Habs in Ha. auto.
Qed.

(* ================================================================== position iterators *)
(* positions of the elements equal to [bit] at indices >= pos, increasing *)
Definition positions_from (bit : bool) (l : list bool) (pos : N) : list N :=
  filter (fun p => (pos <=? p) && Bool.eqb (nthb l p) bit) (seqN 0 (length l)).

Lemma ebit_abs bit b q : bv_inv b -> q < bv_nbits b ->
  ebit bit (bv_words b) q = Bool.eqb (nthb (bv_abs b) q) bit.
Proof.
  intros H Hq. pose proof (inv_cap b H). rewrite ebit_wbit by apply (inv_words_ok b H).
  destruct (N.ltb_spec q (64 * len (bv_words b))); [|lia]. cbn [andb]. now rewrite (inv_wbit b H).
Qed.

Lemma pi_collect_spec bit b : bv_inv b -> forall fuel st, pi_ok bit (bv_words b) st ->
  bv_nbits b - pi_cur_position st < N.of_nat fuel ->
  pi_collect bit b st fuel = positions_from bit (bv_abs b) (pi_cur_position st).
Proof.
  intros Hinv. pose proof (inv_len b Hinv) as Hl. pose proof (inv_words_ok b Hinv) as Hok.
  induction fuel as [|fuel IH]; intros st Hst Hfuel; [lia|].
  cbn [pi_collect]. pose proof (pi_next_spec bit b st Hok Hst) as Hn.
  destruct (pi_next bit b st) as [[p|] st'].
  - destruct Hn as (H1 & H2 & H3 & H4 & H5 & H6). rewrite IH by (try assumption; lia). rewrite H6.
    unfold positions_from. symmetry. apply filter_seqN_first.
    + lia.
    + fold (len (bv_abs b)). lia.
    + rewrite <- ebit_abs, H3 by assumption. destruct (N.leb_spec (pi_cur_position st) p); [reflexivity|lia].
    + intros q Hq1 Hq2. destruct (N.leb_spec (pi_cur_position st) q); [|reflexivity]. cbn [andb].
      rewrite <- ebit_abs by (try assumption; lia). apply H4; assumption.
    + intros q Hq. destruct (N.leb_spec (p + 1) q), (N.leb_spec (pi_cur_position st) q); try lia. reflexivity.
    + intros q Hq. destruct (N.leb_spec (p + 1) q); [lia|reflexivity].
  - unfold positions_from. symmetry. apply filter_seqN_none. intros q Hq1 Hq2.
    fold (len (bv_abs b)) in Hq2. destruct (N.leb_spec (pi_cur_position st) q); [|reflexivity]. cbn [andb].
    rewrite <- ebit_abs by (try assumption; lia). apply Hn; lia.
Qed.

(* iteration from any position (also past the end), and from the start *)
Theorem pi_collect_correct : forall bit b pos fuel, bv_inv b -> len (bv_abs b) < N.of_nat fuel ->
  pi_collect bit b (pi_with_pos bit b pos) fuel = positions_from bit (bv_abs b) pos /\
  pi_collect bit b pi_new fuel = positions_from bit (bv_abs b) 0.
Proof.
  intros bit b pos fuel H Hf. rewrite (inv_len b H) in Hf. split.
  - rewrite pi_collect_spec; [reflexivity|assumption|apply pi_ok_with_pos, (inv_words_ok b H)|].
    cbn [pi_with_pos pi_cur_position]. lia.
  - rewrite pi_collect_spec; [reflexivity|assumption|apply pi_ok_new|].
    cbn [pi_new pi_cur_position]. lia.
Qed.

(* once pi_next has returned None it returns None forever (from every iterator state) *)
Theorem pi_next_none_forever : forall bit b st st',
  pi_next bit b st = (None, st') -> pi_next bit b st' = (None, st').
Proof. exact pi_next_none_stable. Qed.

(* [positions_from] is what its name says: exactly the positions p >= pos holding [bit], in
   strictly increasing order *)
Lemma positions_from_In bit l pos p :
  In p (positions_from bit l pos) <-> pos <= p /\ nthN l p = Some bit.
Proof.
  unfold positions_from. rewrite filter_In. split.
  - intros (Hin & Hc). apply in_seqN in Hin. fold (len l) in Hin.
    apply andb_true_iff in Hc. destruct Hc as (Hc1 & Hc2). apply N.leb_le in Hc1. split; [assumption|].
    rewrite nthN_nthb by lia. f_equal. now apply Bool.eqb_prop.
  - intros (Hp & Hn). pose proof (nthN_some_lt _ _ _ Hn) as Hlt. split.
    + apply nth_error_In with (n := N.to_nat p). rewrite <- (Nnat.N2Nat.id p) at 2.
      rewrite <- nthN_nth_error, nthN_seqN. fold (len l). destruct (N.ltb_spec p (len l)); [|lia].
      f_equal. lia.
    + apply andb_true_iff. split; [now apply N.leb_le|]. unfold nthb. rewrite Hn. apply Bool.eqb_reflx.
Qed.

Lemma seqN_lb : forall n s a, In a (seqN s n) -> s <= a.
Proof. intros n s a H. now apply in_seqN in H. Qed.
Lemma filter_seqN_sorted (g : N -> bool) : forall n s, Sorted.StronglySorted N.lt (filter g (seqN s n)).
Proof.
  induction n as [|n IH]; intros s; cbn [seqN filter]; [constructor|].
  destruct (g s); [|apply IH]. constructor; [apply IH|].
  apply Forall_forall. intros a Ha. apply filter_In in Ha. destruct Ha as (Ha & _).
  apply seqN_lb in Ha. lia.
Qed.
Lemma positions_from_sorted bit l pos : Sorted.StronglySorted N.lt (positions_from bit l pos).
Proof. apply filter_seqN_sorted. Qed.

(* the unchecked readers, inside their contract *)
Theorem bv_get_unchecked_correct : forall b i, bv_inv b -> i < len (bv_abs b) ->
  bv_get_unchecked b i = Val (nthb (bv_abs b) i).
Proof.
  intros b i H Hi. rewrite (inv_len b H) in Hi. pose proof (inv_cap b H).
  unfold bv_get_unchecked. rewrite bv_get_bit_slice_spec by lia. now rewrite (inv_wbit b H).
Qed.
Theorem bv_get_bits_unchecked_correct : forall b i n, bv_inv b -> 1 <= n -> n <= 64 -> i + n <= len (bv_abs b) ->
  bv_get_bits_unchecked b i n = Val (bits_value (firstnN n (skipnN i (bv_abs b)))).
Proof.
  intros b i n H H1 H2 H3. rewrite (inv_len b H) in H3. now apply bv_get_bits_slice_abs.
Qed.

(* ================================================================== a concrete run (non-vacuity) *)
(* 8 operations; the appended byte crosses the word boundary at 64, the extension crosses the
   line boundary at 512, set_bits straddles words 0/1, the last operation allocates a new line *)
Definition ex_hist : list bvop :=
  [OZeros 60; OAppend 171 8; OZeros 440; OExtBools [true; true; false; true; true; true];
   OPush true; OSet 3 true; OSetBits 62 4 9; OExtPos [600; 2]].

Example ex_hist_ok : hist_ok [] ex_hist.
Proof. cbn [ex_hist hist_ok]. repeat split. cbn [op_small]. repeat constructor. Qed.

Example ex_run :
  match bvrun bv_empty ex_hist with
  | Val b =>
      bv_abs b = fold_left op_spec ex_hist [] /\
      bv_len b = 601 /\ bv_count_ones b = 14 /\ bv_count_zeros b = Val 587 /\ len (bv_words b) = 16 /\
      bv_get b 600 = Val (Some true) /\ bv_get b 601 = Val None /\ bv_get b 63 = Val (Some false) /\
      bv_get_bits false b 60 8 = Val (Some 167) /\ bv_get_bits true b 508 7 = Val (Some 123) /\
      bv_get_bits true b 593 8 = Val None /\ bv_get_bits false b 593 8 = Val (Some 128) /\
      bv_get_word b 1 = Val 10 /\ bv_get_word b 9 = Val 16777216 /\ bv_get_word b 16 = Fault Panic /\
      pi_collect true b pi_new 700 = [2; 3; 60; 61; 62; 65; 67; 508; 509; 511; 512; 513; 514; 600] /\
      pi_collect true b (pi_with_pos true b 64) 700 = [65; 67; 508; 509; 511; 512; 513; 514; 600] /\
      firstn 6 (pi_collect false b (pi_with_pos false b 58) 700) = [58; 59; 63; 64; 66; 68] /\
      positions_from true (bv_abs b) 0 = [2; 3; 60; 61; 62; 65; 67; 508; 509; 511; 512; 513; 514; 600]
  | Fault _ => False
  end.
Proof. vm_compute. repeat split. Qed.

Print Assumptions bv_inv_empty.
Print Assumptions bv_step_correct.
Print Assumptions bv_step_panics.
Print Assumptions bv_history_correct.
Print Assumptions bv_len_correct.
Print Assumptions bv_is_empty_correct.
Print Assumptions bv_count_correct.
Print Assumptions bv_get_correct.
Print Assumptions bv_get_bits_correct.
Print Assumptions bv_get_word_correct.
Print Assumptions pi_collect_correct.
Print Assumptions pi_next_none_forever.
Print Assumptions positions_from_In.
Print Assumptions positions_from_sorted.
Print Assumptions bv_get_unchecked_correct.
Print Assumptions bv_get_bits_unchecked_correct.
Print Assumptions bvit_correct.
Print Assumptions bvinto_correct.
Print Assumptions bv_ext.
Print Assumptions bv_from_bools_correct.
Print Assumptions bv_from_positions_correct.
Print Assumptions bvm_with_zeros_correct.
Print Assumptions ex_hist_ok.
Print Assumptions ex_run.
