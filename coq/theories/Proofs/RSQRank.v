(* rank, occs and get of the RSQVector model against the list specification, from the
   closed form of the directory ([dir_ok], Proofs/RSQBuild.v) and the quad vector invariant. *)
From Coq Require Import ZArith Lia ZifyBool ZifyN ZifyNat.
From QwtModel Require Import ListX Seq Consts QVec RSQ ListXP ConstsOk QVecP RSQBits RSQWord RSQList RSQBuild.
Ltac Zify.zify_post_hook ::= Z.div_mod_to_equations.
Arguments N.add : simpl never.
Arguments N.sub : simpl never.
Arguments N.mul : simpl never.
Arguments N.eqb : simpl never.
Arguments N.ltb : simpl never.
Arguments N.leb : simpl never.
Arguments N.pred : simpl never.
Arguments N.of_nat : simpl never.
Arguments N.land : simpl never.
Arguments N.lor : simpl never.
Arguments N.shiftr : simpl never.
Arguments N.shiftl : simpl never.
Arguments N.div : simpl never.
Arguments N.modulo : simpl never.
Arguments N.pow : simpl never.
Arguments N.sqrt : simpl never.


(* ------------------------------------------------------------------ the block directory *)
Lemma dir_sb bsize s rs j : dir_ok bsize s rs -> j <= len s / (8 * bsize) ->
  nthN (rs_superblocks rs) j = Some (W bsize s (len s + bsize) j).
Proof. intros (_ & H & _) Hj. now apply H. Qed.

Lemma rss_rank_block_ok bsize s rs c i : bsz bsize -> len s < RSQ_MAXN -> dir_ok bsize s rs -> c <= 3 ->
  i <= len s -> rss_rank_block bsize rs c i = Val (rk s c (i / bsize * bsize)).
Proof.
  intros Hb Hn Hd Hc Hi. rewrite RSQ_MAXN_val in Hn.
  assert (H43 : len s < 2 ^ 43) by (norm_pow; lia). unfold rss_rank_block, rss_superblock_index, rss_block_index.
  replace (c <=? 3) with true by lia. cbn [odebug_assert bind].
  rewrite RS_BLOCKS_IN_SB_val, RANK_BLOCK_MASK_val, land7, (N.mul_comm bsize 8).
  assert (Hj : i / (8 * bsize) <= len s / (8 * bsize)) by (destruct Hb as [-> | ->]; lia).
  unfold uidx. rewrite (dir_sb bsize s rs _ Hd Hj). cbn [bind]. unfold W.
  rewrite sb_get_rank_rec; [|exact Hc|now apply fld_bound|destruct Hb as [-> | ->]; lia|now apply rk_lt44].
  f_equal. set (J := i / (8 * bsize)). set (b := (i / bsize) mod 8).
  assert (E : J * (8 * bsize) + b * bsize = i / bsize * bsize) by (subst J b; destruct Hb as [-> | ->]; lia).
  destruct (N.eqb_spec b 0) as [Hz|Hnz].
  - rewrite <- E, Hz, N.add_0_r. f_equal. lia.
  - unfold fld. rewrite E.
    replace (_ <=? len s + bsize) with true by (destruct Hb as [-> | ->]; lia).
    pose proof (rk_mono s c (J * (8 * bsize)) (i / bsize * bsize)) as M.
    assert (J * (8 * bsize) <= i / bsize * bsize) by lia. lia.
Qed.

(* ------------------------------------------------------------------ rank inside a block *)
Lemma line_rank_ok d c x : c <= 3 -> x <= 256 -> line_rank_unchecked d c x = Val (rk d c x).
Proof.
  intros Hc Hx. unfold line_rank_unchecked. rewrite LINE_SYMS_val.
  replace (c <=? 3) with true by lia. replace (x <=? 256) with true by lia. reflexivity.
Qed.

Lemma line_rank_opt (data : list (list N)) j c x : c <= 3 -> x <= 256 ->
  match nthN data j with Some d => line_rank_unchecked d c x | None => Val 0 end =
  Val (match nthN data j with Some d => rk d c x | None => 0 end).
Proof. intros Hc Hx. destruct (nthN data j); [now apply line_rank_ok|reflexivity]. Qed.

Lemma rsq_rank_intra_ok bsize q s rs os c i : bsz bsize -> qvb_inv q s -> c <= 3 -> i <= len s ->
  rsq_rank_intra_block bsize (mk_rsq q rs os) c i = Val (rk s c i - rk s c (i / bsize * bsize)).
Proof.
  intros Hb (Hpos & Hall & Hlen & pad & Hcat) Hc Hi. unfold rsq_rank_intra_block. cbn [rsq_qv].
  replace (c <=? 3) with true by lia. cbn [odebug_assert bind].
  assert (HS : forall x, x <= len s -> rk (concat (qv_data q)) c x = rk s c x).
  { intros x Hx. rewrite Hcat. now apply rk_app_le. }
  destruct Hb as [-> | ->].
  - change (256 =? 256) with true. cbv iota. rewrite shiftr8, land255.
    rewrite line_rank_opt by lia. f_equal.
    pose proof (rk_line c (qv_data q) Hall (i / 256) (i mod 256) ltac:(lia)) as L.
    replace (256 * (i / 256) + i mod 256) with i in L by lia.
    rewrite !HS in L by lia. replace (i / 256 * 256) with (256 * (i / 256)) by lia. lia.
  - change (512 =? 256) with false. cbv iota. rewrite shiftr9, land511.
    set (off := i mod 512). set (of1 := if off <=? 256 then off else 256).
    assert (Hof1 : of1 <= 256) by (subst of1; destruct (N.leb_spec off 256); lia).
    rewrite line_rank_opt by lia. cbn [bind].
    pose proof (rk_line c (qv_data q) Hall (i / 512 * 2) of1 Hof1) as L1.
    replace (256 * (i / 512 * 2)) with (i / 512 * 512) in L1 by lia.
    rewrite (HS (i / 512 * 512)) in L1 by lia.
    destruct (N.ltb_spec 256 off) as [Hgt|Hle].
    + rewrite line_rank_opt by lia. cbn [bind]. f_equal.
      pose proof (rk_line c (qv_data q) Hall (i / 512 * 2 + 1) (off - 256) ltac:(lia)) as L2.
      replace (256 * (i / 512 * 2 + 1) + (off - 256)) with i in L2 by (subst off; lia).
      replace (256 * (i / 512 * 2 + 1)) with (i / 512 * 512 + 256) in L2 by lia.
      assert (of1 = 256) by (subst of1; destruct (N.leb_spec off 256); lia).
      rewrite H in L1. rewrite (HS (i / 512 * 512 + 256)) in L1, L2 by (subst off; lia).
      rewrite (HS i) in L2 by lia. rewrite H. lia.
    + f_equal. assert (of1 = off) by (subst of1; destruct (N.leb_spec off 256); lia).
      rewrite H in *. replace (i / 512 * 512 + off) with i in L1 by (subst off; lia).
      rewrite HS in L1 by lia. lia.
Qed.

Lemma rsq_rank_unchecked_ok bsize q s rs os c i : bsz bsize -> len s < RSQ_MAXN -> qvb_inv q s ->
  dir_ok bsize s rs ->
  c <= 3 -> i <= len s -> rsq_rank_unchecked bsize (mk_rsq q rs os) c i = Val (rk s c i).
Proof.
  intros Hb Hn Hq Hd Hc Hi. unfold rsq_rank_unchecked. replace (c <=? 3) with true by lia.
  cbn [odebug_assert bind rsq_rs]. rewrite (rss_rank_block_ok bsize s rs c i Hb Hn Hd Hc Hi). cbn [bind].
  rewrite (rsq_rank_intra_ok bsize q s rs os c i Hb Hq Hc Hi). cbn [bind]. f_equal.
  pose proof (rk_mono s c (i / bsize * bsize) i) as M.
  assert (i / bsize * bsize <= i) by (destruct Hb as [-> | ->]; lia). lia.
Qed.

Lemma rsq_rank_ok bsize q s rs os c i : bsz bsize -> len s < RSQ_MAXN -> qvb_inv q s -> dir_ok bsize s rs ->
  rsq_rank bsize (mk_rsq q rs os) c i =
  Val (if (c <=? 3) && (i <=? len s) then Some (rank_spec s c i) else None).
Proof.
  intros Hb Hn Hq Hd. unfold rsq_rank, rsq_len. cbn [rsq_qv]. rewrite (qv_len_inv q s Hq).
  destruct (N.leb_spec c 3) as [Hc|Hc]; [|now replace (3 <? c) with true by lia].
  replace (3 <? c) with false by lia. cbn [orb andb].
  destruct (N.leb_spec i (len s)) as [Hi|Hi]; [|now replace (len s <? i) with true by lia].
  replace (len s <? i) with false by lia.
  rewrite (rsq_rank_unchecked_ok bsize q s rs os c i Hb Hn Hq Hd Hc Hi). cbn [bind].
  now rewrite rank_spec_rk.
Qed.

(* ------------------------------------------------------------------ occs *)
Lemma idx5 (a0 a1 a2 a3 a4 : N) :
  idx [a0;a1;a2;a3;a4] 0 = Val a0 /\ idx [a0;a1;a2;a3;a4] 1 = Val a1 /\
  idx [a0;a1;a2;a3;a4] 2 = Val a2 /\ idx [a0;a1;a2;a3;a4] 3 = Val a3 /\ idx [a0;a1;a2;a3;a4] 4 = Val a4.
Proof. repeat split; reflexivity. Qed.

Lemma count_lt_1 l : count_lt 1 l = countN 0 l.
Proof. pose proof (count_lt_succ 0 l) as H. change (0 + 1) with 1 in H. rewrite count_lt_0 in H. lia. Qed.
Lemma count_lt_2 l : count_lt 2 l = countN 0 l + countN 1 l.
Proof. pose proof (count_lt_succ 1 l) as H. change (1 + 1) with 2 in H. rewrite count_lt_1 in H. lia. Qed.
Lemma count_lt_3 l : count_lt 3 l = countN 0 l + countN 1 l + countN 2 l.
Proof. pose proof (count_lt_succ 2 l) as H. change (2 + 1) with 3 in H. rewrite count_lt_2 in H. lia. Qed.

Lemma rsq_occs_unchecked_ok q rs s c : c <= 3 ->
  rsq_occs_unchecked (mk_rsq q rs (occs_smaller_of s)) c = Val (countN c s).
Proof.
  intros Hc. unfold rsq_occs_unchecked, occs_smaller_of. cbn [rsq_occs_smaller].
  replace (c <=? 3) with true by lia. cbn [odebug_assert bind].
  destruct (idx5 0 (countN 0 s) (countN 0 s + countN 1 s) (countN 0 s + countN 1 s + countN 2 s)
                 (countN 0 s + countN 1 s + countN 2 s + countN 3 s)) as (E0 & E1 & E2 & E3 & E4).
  case4 c Hc.
  - change ((0 + 1) mod 256) with 1. rewrite E0, E1. cbn [bind]. unfold osub.
    replace (0 <=? countN 0 s) with true by lia. f_equal. lia.
  - change ((1 + 1) mod 256) with 2. rewrite E1, E2. cbn [bind]. unfold osub.
    replace (countN 0 s <=? countN 0 s + countN 1 s) with true by lia. f_equal. lia.
  - change ((2 + 1) mod 256) with 3. rewrite E2, E3. cbn [bind]. unfold osub.
    replace (_ <=? _) with true by lia. f_equal. lia.
  - change ((3 + 1) mod 256) with 4. rewrite E3, E4. cbn [bind]. unfold osub.
    replace (_ <=? _) with true by lia. f_equal. lia.
Qed.

Lemma rsq_occs_ok q rs s c :
  rsq_occs (mk_rsq q rs (occs_smaller_of s)) c = Val (if c <=? 3 then Some (countN c s) else None).
Proof.
  unfold rsq_occs. destruct (N.leb_spec c 3) as [Hc|Hc]; [|now replace (3 <? c) with true by lia].
  replace (3 <? c) with false by lia. now rewrite rsq_occs_unchecked_ok.
Qed.

Lemma rsq_occs_smaller_unchecked_ok q rs s c : c <= 3 ->
  rsq_occs_smaller_unchecked (mk_rsq q rs (occs_smaller_of s)) c = Val (count_lt c s).
Proof.
  intros Hc. unfold rsq_occs_smaller_unchecked, occs_smaller_of. cbn [rsq_occs_smaller].
  replace (c <=? 3) with true by lia. cbn [odebug_assert bind].
  destruct (idx5 0 (countN 0 s) (countN 0 s + countN 1 s) (countN 0 s + countN 1 s + countN 2 s)
                 (countN 0 s + countN 1 s + countN 2 s + countN 3 s)) as (E0 & E1 & E2 & E3 & E4).
  case4 c Hc.
  - now rewrite E0, count_lt_0.
  - now rewrite E1, count_lt_1.
  - now rewrite E2, count_lt_2.
  - now rewrite E3, count_lt_3.
Qed.

Lemma rsq_occs_smaller_ok q rs s c :
  rsq_occs_smaller_q (mk_rsq q rs (occs_smaller_of s)) c = Val (if c <=? 3 then Some (count_lt c s) else None).
Proof.
  unfold rsq_occs_smaller_q. destruct (N.leb_spec c 3) as [Hc|Hc]; [|now replace (3 <? c) with true by lia].
  replace (3 <? c) with false by lia. now rewrite rsq_occs_smaller_unchecked_ok.
Qed.
