(* C03 helper: the binary wavelet tree, part 4: the queries of the PLAIN tree on a tree whose
   levels satisfy [btree_ok] over the bit lists of the generic wavelet matrix (arity 2, digit
   [bdig L]): get / rank / select and their unchecked twins answer like the list specification. *)
From Coq Require Import ZArith Lia ZifyBool ZifyN ZifyNat.
From QwtModel Require Import ListX Seq QWT BitVec RSBin Huff ListXP QVecP RSQList RSQWord RSQBuild RSBinL.
From QwtModel Require Import WaveletMatrix HuffWM QWTArith HQWTWalks BinWTBase BinWTWalks BinWTBuild.
Ltac Zify.zify_post_hook ::= Z.div_mod_to_equations.
Arguments N.add : simpl never.
Arguments N.sub : simpl never.
Arguments N.mul : simpl never.
Arguments N.eqb : simpl never.
Arguments N.ltb : simpl never.
Arguments N.leb : simpl never.
Arguments N.pred : simpl never.
Arguments N.of_nat : simpl never.
Arguments N.land : simpl never.
Arguments N.lor : simpl never.
Arguments N.shiftr : simpl never.
Arguments N.shiftl : simpl never.
Arguments N.div : simpl never.
Arguments N.modulo : simpl never.
Arguments N.pow : simpl never.
Arguments N.sqrt : simpl never.
Arguments N.log2 : simpl never.
Arguments N.max : simpl never.

Lemma nthN_In' {A} (l : list A) i x : nthN l i = Some x -> In x l.
Proof. rewrite nthN_nth_error. apply nth_error_In. Qed.

Section Plain.
Variables (w : N) (L : nat) (s : list N) (bvs : list rswide) (lens : list N).
Hypothesis HT : btree_ok (fun j => bD L j s) L bvs lens.
Hypothesis HL : (0 < L)%nat.
Hypothesis Hw : N.of_nat L <= w.
Hypothesis Hne : 0 < len s.
Hypothesis Hxw : forall x, In x s -> x < 2 ^ w.
Hypothesis Hm : maxN s < 2 ^ N.of_nat L.
Set Default Proof Using "All".

Notation dg := (bdig L).
Notation Ds := (fun j => bD L j s).
Notation t := (mk_bwt (len s) (N.of_nat L) (Some (maxN s)) None None bvs lens).

Lemma LOK : forall l, (l < L)%nat -> exists r, nthN bvs (N.of_nat l) = Some r /\ lvl_spec r (Ds l).
Proof. intros l Hl. exact (proj1 (HT l Hl)). Qed.

Lemma LVs_wm l0 n : map Ds (seq l0 n) = wm_levels N 2 dg l0 n s.
Proof. symmetry. apply (wm_levels_map 2 dg s n l0). Qed.

Lemma Hx2 x : In x s -> x < 2 ^ N.of_nat L.
Proof. intros Hx. pose proof (maxN_ge s x Hx). lia. Qed.

Lemma BIT c repr : forall l, (l < L)%nat ->
  wt_bit_at w false c repr (N.of_nat L) (N.of_nat l) = Val (dg l c =? 1) /\ dg l c < 2.
Proof.
  intros l Hl. split; [|apply bdig_lt2]. unfold wt_bit_at, osub.
  destruct (N.leb_spec (N.of_nat l + 1) (N.of_nat L)); [|lia]. cbn [bind].
  replace (N.of_nat L - (N.of_nat l + 1)) with (N.of_nat (L - 1 - l)) by lia.
  rewrite one_bit_bdig by lia. reflexivity.
Qed.

(* ------------------------------------------------------------ rank *)
Lemma rank_final c i : i <= len s ->
  wt_rank_unchecked w false t c i = Val (len (filter (pre N dg L c) (firstnN i s))).
Proof.
  intros Hi. unfold wt_rank_unchecked. cbn [w_n_levels w_bvs bind]. rewrite Nnat.Nat2N.id.
  pose proof (wt_rank_walk_ok w bvs Ds L LOK false c 0 (N.of_nat L) (fun l => dg l c) L (le_n _)
                (BIT c 0) L 0%nat 0 i (le_n _)) as W.
  change (N.of_nat 0) with 0 in W. rewrite W; clear W.
  - rewrite LVs_wm. change (map (fun l => dg l c) (seq 0 L)) with (digits_of N dg 0 L c).
    pose proof (wm_rank_correct N 2 dg (bdig_lt L) L s c i Hi) as HC. cbv zeta in HC.
    destruct (rank_walk _ _ 0 i) as [p' i']. cbn [fst snd] in HC. destruct HC as (H1 & H2 & H3).
    cbn [bind]. unfold osub. destruct (N.leb_spec p' i'); [|lia]. now rewrite H3.
  - intros m Hmm. rewrite LVs_wm. change (map (fun l => dg l c) (seq 0 m)) with (digits_of N dg 0 m c).
    pose proof (wm_rank_correct N 2 dg (bdig_lt L) m s c i Hi) as HC. cbv zeta in HC.
    rewrite bD_len. lia.
Qed.

Lemma wt_rank_unchecked_ok c i : c <= maxN s -> i <= len s ->
  wt_rank_unchecked w false t c i = Val (rank_spec s c i).
Proof.
  intros Hc Hi. rewrite (rank_final c i Hi). f_equal.
  rewrite (filter_ext_in' _ (fun x => x =? c)).
  - rewrite len_filter_eqb, rank_spec_rk. reflexivity.
  - intros x Hx. apply bpre_eq; [|lia]. apply Hx2. eapply In_firstnN. exact Hx.
Qed.

(* ------------------------------------------------------------ get *)
Lemma wt_get_unchecked_ok i x : nthN s i = Some x -> wt_get_unchecked w false t i = Val x.
Proof.
  intros Hi. assert (Hx : In x s) by exact (nthN_In' _ _ _ Hi).
  pose proof (nthN_some_lt _ _ _ Hi) as Hlt.
  unfold wt_get_unchecked. cbn [w_n_levels]. rewrite Nnat.Nat2N.id.
  pose proof (wt_get_walk_false w bvs Ds L LOK t eq_refl L 0%nat i 0 0 0 (le_n _)) as G.
  change (N.of_nat 0) with 0 in G. rewrite G; clear G.
  - cbn [bind]. rewrite LVs_wm, (wm_get_correct N 2 dg (bdig_lt L) L s i x Hi).
    rewrite (accw_fold w L x (Hxw x Hx) (Hx2 x Hx) L (le_n _)), Nat.sub_diag.
    change (2 ^ N.of_nat 0) with 1. now rewrite N.div_1_r.
  - rewrite LVs_wm, <- get_walk_pos_length.
    exact (proj1 (get_walk_positions N 2 dg (bdig_lt L) L s i Hlt)).
Qed.

(* ------------------------------------------------------------ select *)
Lemma wt_select_ok c k : c <= maxN s ->
  wt_select w false t c k = Val (select_spec s c k).
Proof.
  intros Hc. unfold wt_select, wt_valid. cbn [w_n w_sigma w_n_levels w_bvs ounwrap bind].
  destruct (N.eqb_spec (len s) 0); [lia|]. destruct (N.ltb_spec (maxN s) c); [lia|]. cbn [bind].
  rewrite Nnat.Nat2N.id.
  assert (HB : Forall2 (fun '(b, rb) l => b <= len (Ds l) /\ rb <= b)
            (select_down (map Ds (seq 0 L)) (map (fun l => dg l c) (seq 0 L)) 0) (seq 0 L)).
  { rewrite LVs_wm. change (map (fun l => dg l c) (seq 0 L)) with (digits_of N dg 0 L c).
    pose proof (select_down_bounds N 2 dg (bdig_lt L) L s c) as HB.
    assert (HLen : length (select_down (wm_levels N 2 dg 0 L s) (digits_of N dg 0 L c) 0) = L).
    { rewrite select_down_length; rewrite <- LVs_wm, map_length, seq_length; [reflexivity|].
      unfold digits_of. now rewrite map_length, seq_length. }
    set (SD := select_down (wm_levels N 2 dg 0 L s) (digits_of N dg 0 L c) 0) in *.
    replace (seq 0 L) with (seq 0 (length SD)) by now rewrite HLen.
    apply (Forall_Forall2_seq (fun '(b, rb) => b <= len s /\ rb <= b)); [exact HB|].
    intros [b rb] j Hbr. now rewrite bD_len. }
  pose proof (wt_select_walks_ok w bvs Ds L LOK false c 0 (N.of_nat L) (fun l => dg l c) L (le_n _) (BIT c 0) k HB) as W.
  cbv zeta in W. cbv zeta. rewrite W. clear W HB.
  rewrite LVs_wm. change (map (fun l => dg l c) (seq 0 L)) with (digits_of N dg 0 L c).
  rewrite (wm_select_correct N 2 dg (bdig_lt L) L s c k HL). f_equal.
  unfold select_spec. apply select_pred_eqb. intros x Hx. apply bpre_eq; [now apply Hx2|lia].
Qed.

Lemma wt_select_big c k : maxN s < c -> wt_select w false t c k = Val None.
Proof.
  intros Hc. unfold wt_select, wt_valid. cbn [w_n w_sigma ounwrap bind].
  destruct (N.eqb_spec (len s) 0); [lia|]. destruct (N.ltb_spec (maxN s) c); [|lia]. reflexivity.
Qed.

Lemma wt_rank_ok c i :
  wt_rank w false t c i =
  Val (if (i <=? len s) && (c <=? maxN s) then Some (rank_spec s c i) else None).
Proof.
  unfold wt_rank, wt_valid. cbn [w_n w_sigma w_n_levels ounwrap bind].
  destruct (N.eqb_spec (len s) 0); [lia|]. cbn [orb].
  destruct (N.ltb_spec (len s) i), (N.leb_spec i (len s)); try lia; cbn [andb]; [reflexivity|].
  destruct (N.ltb_spec (maxN s) c), (N.leb_spec c (maxN s)); try lia; cbn [bind]; [reflexivity|].
  rewrite wt_rank_unchecked_ok by assumption. reflexivity.
Qed.

Lemma wt_get_ok i : wt_get w false t i = Val (nthN s i).
Proof.
  unfold wt_get. cbn [w_n]. destruct (N.leb_spec (len s) i) as [Hi|Hi].
  - now rewrite nthN_none.
  - destruct (nthN_lt_some s i Hi) as (x & Ex). rewrite Ex, (wt_get_unchecked_ok i x Ex). reflexivity.
Qed.

End Plain.
