(* Side conditions on the constants extracted from the Rust sources (Gen/Consts.v).
   Each lemma is closed by computation on the *current* values: an edit of /repo that makes
   two sites inconsistent (a mask that no longer matches its shift, a field too narrow for
   the block size, ...) breaks one of them. *)
From Coq Require Import NArith Lia.
From QwtModel Require Import Consts.
Open Scope N_scope.

(* quad vector lines *)
Lemma LINE_SHIFT_val : LINE_SHIFT = 8. Proof. reflexivity. Qed.
Lemma LINE_MASK_ok : LINE_MASK = 2 ^ LINE_SHIFT - 1. Proof. reflexivity. Qed.
Lemma PUSH_LINE_MASK_ok : PUSH_LINE_MASK = LINE_MASK. Proof. reflexivity. Qed.
Lemma PUSH_POS_STEP_ok : PUSH_POS_STEP = 2. Proof. reflexivity. Qed.
Lemma QV_LEN_SHIFT_ok : QV_LEN_SHIFT = 1. Proof. reflexivity. Qed.
Lemma LINE_SYMS_val : LINE_SYMS = 256. Proof. reflexivity. Qed.
Lemma LINE_SYMS_nat_val : LINE_SYMS_nat = 256%nat. Proof. reflexivity. Qed.
Lemma QV_SYM_MASK_ok : QV_SYM_MASK = 3. Proof. reflexivity. Qed.
(* the three places that split a line position into (word, bit) agree, two words per plane *)
Lemma QV_WORD_sites :
  QV_WORD_SHIFT = 7 /\ QVG_WORD_SHIFT = 7 /\ QVR_WORD_SHIFT = 7 /\
  QV_WORD_MASK = 127 /\ QVG_WORD_MASK = 127 /\ QVR_WORD_MASK = 127 /\
  QV_LOW_PLANE = 2 /\ QVG_LOW_PLANE = 2.
Proof. repeat split; reflexivity. Qed.

(* superblock record: 44-bit absolute counter above seven 12-bit block counters *)
Lemma SB_sites : SB_SHIFT_GR = SB_SHIFT /\ SB_SHIFT_GC = SB_SHIFT.
Proof. split; reflexivity. Qed.
Lemma BLK_sites : BLK_BITS_GR = BLK_BITS /\ BLK_BITS_BP = BLK_BITS /\
  BLK_MASK_GR = 2 ^ BLK_BITS - 1 /\ BLK_MASK_BP = 2 ^ BLK_BITS - 1 /\ BLK_LIMIT = 2 ^ BLK_BITS.
Proof. repeat split; reflexivity. Qed.
Lemma SB_layout : SB_SHIFT = (BLOCKS_IN_SB - 1) * BLK_BITS /\ SB_SHIFT < 128.
Proof. split; reflexivity. Qed.
Lemma BLOCKS_sites : RS_BLOCKS_IN_SB = BLOCKS_IN_SB /\ SET_BLOCK_ID_LIMIT = BLOCKS_IN_SB /\
  RANK_BLOCK_MASK = BLOCKS_IN_SB - 1 /\ BLOCKS_IN_SB = 8.
Proof. repeat split; reflexivity. Qed.
(* a block counter never exceeds the symbols of the 7 preceding blocks (both block sizes),
   and the sentinel block counter never exceeds a whole superblock minus one block *)
Lemma BLK_fits : (BLOCKS_IN_SB - 1) * 512 < BLK_LIMIT.
Proof. reflexivity. Qed.
(* the absolute counter fits its field for every admitted length *)
Lemma SB_counter_fits : MAX_LEN * 2 ^ SB_SHIFT <= 2 ^ 128.
Proof. vm_compute. congruence. Qed.
(* a superblock id of an admitted sequence fits the u32 select samples *)
Lemma SAMPLE_fits : (MAX_LEN - 1) / (BLOCKS_IN_SB * 256) < 2 ^ 32.
Proof. reflexivity. Qed.
Lemma SELECT_NUM_SAMPLES_pos : 0 < SELECT_NUM_SAMPLES.
Proof. reflexivity. Qed.
