(* T5 (DArray construction): the definitions REGENERATED from src/darray/mod.rs (Gen/FnsDanew.v: Inventories::flush_block,
   Inventories::<BIT>::new for BIT = true / false, DArray::<SELECT0_SUPPORT>::new for both values) agree with the hand
   model (Model/DArrayM.v: flush_block, inv_loop, inv_new, da_new), and the end-to-end theorem of the hand constructor
   (Proofs/FnsDaOk.v da_gen_of_bitvector) is transferred to the regenerated constructor.

   Statements
     g_da_flush_block_ok   (E) EQUALITY of outcomes, the reversal of the three vectors made explicit:
                             g_da_flush_block curr blk sub ovf =
                             let! (b', s', o') := flush_block curr (rev blk, rev sub, rev ovf) in Val (rev b', rev s', rev o')
                           for: no position of the block below its first one (ge_hd; what a non-decreasing block satisfies),
                           first position < 2^63, len curr + 32 < 2^64, len ovf < 2^63.
     g_inv1_new_eq / g_inv0_new_eq   the two monomorphic instances are one text (gi_new) with BIT as a parameter (conversion)
     gi_loop_sim           the `for curr_pos in bv.ones()/zeros()` loop (iterator protocol through the regenerated next)
                           against inv_loop on the positions the hand iterator collects, from any reachable iterator state
     g_inv1_new_sim / g_inv0_new_sim  (S) inv_new bit b = Val inv -> generated = Val (fields of inv), for bv_inv b and
                           N.to_nat (bv_nbits b) + length (bv_words b) + 2 <= fuel
     g_da1_new_sim / g_da0_new_sim    (S) da_new false / true b = Val d -> generated = Val (fields of d)
     g_da1_new_correct / g_da0_new_correct / g_da_new_of_bitvector   END TO END: for every bv_inv b (no other hypothesis
                           than the fuel bound) the regenerated constructor returns the fields of a d with da_types_ok d and
                           C07_gen s0 d (bv_abs b) (the regenerated queries on those fields = the list specification)
     g_da0_new_example, g_da1_new_sparse_example   evaluation (3000 bits dense; a sparse block; the empty vector)
     flush_block_out_of_range   the hypotheses of g_da_flush_block_ok are needed (OUT-OF-RANGE inputs only)

   No disagreement between the generated code and the hand model on in-range inputs.  Differences outside the range
   (flush_block_out_of_range): a block with a position below its first one makes the checked `curr_positions[i] - v`
   overflow where the hand model truncates to 0; a first position >= 2^63 is wrapped by `v as i64` where the hand model
   keeps the non-negative value.  Neither arises: iterator positions increase and are below n_bits < 2^63.
   The unused parameter bv_n_ones of g_invB_new is arbitrary (the theorems instantiate it with bv_nones b). *)
From Coq Require Import ZArith Lia ZifyBool ZifyN ZifyNat.
From QwtModel Require Import ListX Loops Consts SelTable Words BitVec RSBin DArrayM Seq ListXP BitsLib BitVecW
  BitVecIter BitVecP.
From QwtModel Require Import LeavesUtils FnsBv FnsIters FnsDa FnsDanew LeavesLib FnsBvOk FnsItersOk FnsIterCtorsOk
  FnsDaOk.
From QwtModel Require DArrayL DArrayB DArrayP WordsP BinFinalP.
Ltac Zify.zify_post_hook ::= Z.div_mod_to_equations.
Open Scope N_scope.
Arguments N.add : simpl never.
Arguments N.sub : simpl never.
Arguments N.mul : simpl never.
Arguments N.eqb : simpl never.
Arguments N.ltb : simpl never.
Arguments N.leb : simpl never.
Arguments N.pred : simpl never.
Arguments N.of_nat : simpl never.
Arguments N.to_nat : simpl never.
Arguments N.land : simpl never.
Arguments N.lor : simpl never.
Arguments N.lxor : simpl never.
Arguments N.shiftr : simpl never.
Arguments N.shiftl : simpl never.
Arguments N.div : simpl never.
Arguments N.modulo : simpl never.
Arguments N.pow : simpl never.
Arguments N.max : simpl never.
Arguments Z.of_N : simpl never.
Arguments Z.to_N : simpl never.
Arguments Z.sub : simpl never.
Arguments Z.opp : simpl never.
Arguments Z.ltb : simpl never.
Arguments Z.pow : simpl never.
Arguments Z.modulo : simpl never.

(* ================================================================== (1) Inventories::flush_block *)
(* every position of the block is at least the first one (what a non-decreasing block satisfies) *)
Definition ge_hd (l : list N) : Prop := Forall (fun p => hd 0 l <= p) l.

Lemma last_opt_last : forall (l : list N) x, last_opt (x :: l) = Some (last (x :: l) 0).
Proof.
  induction l as [|a l IH]; intros x; [reflexivity|].
  change (last_opt (x :: a :: l)) with (last_opt (a :: l)).
  change (last (x :: a :: l) 0) with (last (a :: l) 0). apply IH.
Qed.

Lemma rev_repeat_id {A} (a : A) n : rev (repeat a n) = repeat a n.
Proof.
  induction n as [|n IH]; [reflexivity|]. cbn [repeat rev]. rewrite IH. clear IH.
  induction n as [|n IH]; [reflexivity|]. cbn [repeat app]. now rewrite IH.
Qed.

Lemma pow64Z : (2 ^ Z.of_N 64 = 18446744073709551616)%Z.
Proof. reflexivity. Qed.

Lemma zwrap64_small z : (0 <= z < 9223372036854775808)%Z -> zwrap 64 z = z.
Proof.
  intros H. unfold zwrap. rewrite pow64Z, pow63Z. cbv zeta. rewrite Z.mod_small by lia.
  destruct (Z.ltb_spec z 9223372036854775808); [reflexivity|lia].
Qed.

(* the body of `for i in (0..curr_positions.len()).step_by(SUBBLOCK_SIZE)` *)
Definition fl_body (curr : list N) (v : N)
  : N -> list N -> outcome (step (list N) (list Z * list N * list N)) :=
  fun k_ subblock_inventory =>
    let i := 0 + k_ * 32 in
    let! t4 := idx curr i in
    let! t5 := osub t4 v in
    let dist := t5 mod 2 ^ 16 in
    let subblock_inventory := subblock_inventory ++ [dist] in
    Val (Next subblock_inventory).

Lemma fl_loop curr v : forall L i acc,
  (forall j, j < len L -> exists p, nthN curr (32 * (i + j)) = Some p /\ nthN L j = Some p /\ v <= p) ->
  for_loop (fl_body curr v) i (length L) acc = Val (Done (acc ++ map (fun p => (p - v) mod 2 ^ 16) L)).
Proof.
  induction L as [|x L IH]; intros i acc H.
  - cbn [length for_loop map]. now rewrite app_nil_r.
  - cbn [length for_loop map]. unfold fl_body at 1. cbv zeta.
    destruct (H 0) as (p & Hp & Hx & Hv); [rewrite len_cons; lia|].
    rewrite nthN_0 in Hx. injection Hx as <-.
    replace (0 + i * 32) with (32 * (i + 0)) by lia. unfold idx. rewrite Hp. cbn [bind].
    rewrite osub_ok by exact Hv. cbn [bind].
    rewrite IH.
    + now rewrite <- app_assoc.
    + intros j Hj. destruct (H (j + 1)) as (p & Hp' & Hx' & Hv'); [rewrite len_cons; lia|].
      rewrite nthN_succ in Hx'. exists p. replace (32 * (i + 1 + j)) with (32 * (i + (j + 1))) by lia. auto.
Qed.

(* EQUALITY of outcomes (value or fault) with the reversal made explicit.  Hypotheses: the block is typed (its first
   position fits i64: `v as i64` then keeps the value), no position of the block is below the first one (the
   checked `curr_positions[i] - v`), usize arithmetic on the lengths. *)
Theorem g_da_flush_block_ok : forall curr blk sub ovf,
  ge_hd curr -> hd 0 curr < 2 ^ 63 -> len curr + 32 < 2 ^ 64 -> len ovf < 2 ^ 63 ->
  g_da_flush_block curr blk sub ovf =
  let! (b', s', o') := flush_block curr (rev blk, rev sub, rev ovf) in Val (rev b', rev s', rev o').
Proof.
  assert (P63 : 2 ^ 63 = 9223372036854775808) by reflexivity.
  assert (P64 : 2 ^ 64 = 18446744073709551616) by reflexivity.
  intros curr blk sub ovf Hge Hfirst Hlen Hovf. destruct curr as [|first c].
  - cbn [flush_block bind]. rewrite !rev_involutive. reflexivity.
  - cbn [hd] in Hfirst. unfold g_da_flush_block.
    destruct (N.eqb_spec (len (first :: c)) 0) as [E|_]; [rewrite len_cons in E; lia|].
    rewrite last_opt_last. cbn [ounwrap head bind].
    rewrite (DArrayB.flush_block_eq (first :: c) first) by apply nthN_0.
    destruct (osub (last (first :: c) 0) first) as [d|] eqn:Ed; cbn [bind]; [|reflexivity].
    rewrite DArrayB.DA_MAX_DIST_val, DArrayB.DA_SUBBLOCK_val.
    destruct (N.ltb_spec d 65536) as [Hd|Hd]; cbn [bind].
    + (* dense *)
      rewrite zwrap64_small by lia.
      set (L := step_by (N.to_nat 32) (first :: c) (length (first :: c))).
      pose proof (DArrayB.len_step_by32 (first :: c)) as HL. fold L in HL.
      replace (N.to_nat ((len (first :: c) - 0 + 31) / 32)) with (length L) by (unfold len in *; lia).
      change (for_loop _ 0 (length L) sub) with (for_loop (fl_body (first :: c) first) 0 (length L) sub).
      rewrite fl_loop.
      * cbn [bind rev]. rewrite rev_app_distr, !rev_involutive. reflexivity.
      * intros j Hj. unfold L. rewrite DArrayB.nthN_step_by by (try lia; apply Nat.le_refl).
        destruct (nthN_lt_some (first :: c) (32 * j)) as (p & Hp); [lia|].
        exists p. replace (32 * (0 + j)) with (32 * j) by lia. split; [exact Hp|]. split; [exact Hp|].
        exact (Forall_nthN _ _ _ _ Hge Hp).
    + (* sparse *)
      rewrite zwrap64_small by lia. rewrite zineg64_ok by lia. cbn [bind].
      rewrite zisub64_ok by lia. cbn [bind]. rewrite oadd_ok by lia. cbn [bind].
      rewrite osub_ok by lia. cbn [bind].
      rewrite DArrayL.len_rev. cbn [rev]. rewrite !rev_app_distr, !rev_involutive, rev_repeat_id. reflexivity.
Qed.

(* the overflow table grows by at most the block *)
Lemma flush_ovf_len curr b s o b' s' o' :
  flush_block curr (b, s, o) = Val (b', s', o') -> len o' <= len o + len curr.
Proof.
  destruct curr as [|first c].
  - cbn [flush_block]. intros H. apply Val_inj in H. injection H as <- <- <-. lia.
  - rewrite (DArrayB.flush_block_eq (first :: c) first) by apply nthN_0.
    destruct (osub _ _) as [d|]; cbn [bind]; [|discriminate].
    destruct (d <? DA_MAX_DIST); intros H; apply Val_inj in H; injection H as <- <- <-; [lia|].
    unfold len. rewrite ?app_length, ?rev_length. cbn [length]. lia.
Qed.

(* ================================================================== (2) Inventories::<BIT>::new *)
(* the two monomorphic instances are one text with BIT as a parameter (checked by conversion below) *)
Definition inv_state : Type := list N * N * N * N * N * list N * list Z * list N * list N * N.
Definition inv_result : Type := N * list Z * list N * list N.

Definition gi_cond : inv_state -> outcome bool :=
  fun '(it_data, it_n_bits, it_cur_position, it_cur_word_pos, it_cur_word, curr_block_positions, block_inventory, subblock_inventory, overflow_positions, n_sets) => Val true.

Definition gi_body (bit : bool) (fuel : nat) : inv_state -> outcome (step inv_state inv_result) :=
  fun '(it_data, it_n_bits, it_cur_position, it_cur_word_pos, it_cur_word, curr_block_positions, block_inventory, subblock_inventory, overflow_positions, n_sets) =>
      let! (it_data, it_n_bits, it_cur_position, it_cur_word_pos, it_cur_word, o_) := g_pi_next bit fuel it_data it_n_bits it_cur_position it_cur_word_pos it_cur_word in
      match o_ with
      | None => Val (Brk (it_data, it_n_bits, it_cur_position, it_cur_word_pos, it_cur_word, curr_block_positions, block_inventory, subblock_inventory, overflow_positions, n_sets))
      | Some curr_pos =>
          let curr_block_positions := curr_block_positions ++ [curr_pos] in
          let! (block_inventory, subblock_inventory, overflow_positions, curr_block_positions) := (if N.eqb (len curr_block_positions) 1024 then
            let! (block_inventory, subblock_inventory, overflow_positions) := g_da_flush_block curr_block_positions block_inventory subblock_inventory overflow_positions in
            let curr_block_positions := [] in
            Val (block_inventory, subblock_inventory, overflow_positions, curr_block_positions)
          else
            Val (block_inventory, subblock_inventory, overflow_positions, curr_block_positions)
          ) in
          let! n_sets := oadd 64 n_sets 1 in
          Val (Next (it_data, it_n_bits, it_cur_position, it_cur_word_pos, it_cur_word, curr_block_positions, block_inventory, subblock_inventory, overflow_positions, n_sets))
      end.

Definition gi_new (bit : bool) (fuel : nat) (bv_data : list (list N)) (bv_n_bits : N) (bv_n_ones : N)
  : outcome inv_result :=
  let! (it_data, it_n_bits, it_cur_position, it_cur_word_pos, it_cur_word) := g_pi_new bit (concat bv_data) bv_n_bits in
  let! r := while_loop gi_cond (gi_body bit fuel) fuel
              (it_data, it_n_bits, it_cur_position, it_cur_word_pos, it_cur_word, [], [], [], [], 0) in
  match r with
  | Retd v => Val v
  | Done (it_data, it_n_bits, it_cur_position, it_cur_word_pos, it_cur_word, curr_block_positions, block_inventory, subblock_inventory, overflow_positions, n_sets) =>
      let! (block_inventory, subblock_inventory, overflow_positions) := g_da_flush_block curr_block_positions block_inventory subblock_inventory overflow_positions in
      Val (n_sets, block_inventory, subblock_inventory, overflow_positions)
  end.

Lemma g_inv1_new_eq : g_inv1_new = gi_new true.
Proof. reflexivity. Qed.
Lemma g_inv0_new_eq : g_inv0_new = gi_new false.
Proof. reflexivity. Qed.

Lemma gi_cond_eq d nb cp cwp cw curr blk sub ovf ns : gi_cond (d, nb, cp, cwp, cw, curr, blk, sub, ovf, ns) = Val true.
Proof. reflexivity. Qed.

Lemma gi_body_eq bit fuel d nb cp cwp cw curr blk sub ovf ns :
  gi_body bit fuel (d, nb, cp, cwp, cw, curr, blk, sub, ovf, ns) =
  let! (d', nb', cp', cwp', cw', o_) := g_pi_next bit fuel d nb cp cwp cw in
  match o_ with
  | None => Val (Brk (d', nb', cp', cwp', cw', curr, blk, sub, ovf, ns))
  | Some p =>
      let! (blk', sub', ovf', curr') :=
        (if len (curr ++ [p]) =? 1024 then
           let! (b1, s1, o1) := g_da_flush_block (curr ++ [p]) blk sub ovf in Val (b1, s1, o1, [])
         else Val (blk, sub, ovf, curr ++ [p])) in
      let! ns' := oadd 64 ns 1 in
      Val (Next (d', nb', cp', cwp', cw', curr', blk', sub', ovf', ns'))
  end.
Proof. reflexivity. Qed.

(* ------------------------------------------------------------------ the run of the hand iterator *)
(* the iterator returns None within n calls *)
Fixpoint pi_stops (bit : bool) (b : bitvec) (st : positer) (n : nat) : Prop :=
  match n with
  | O => False
  | S m => match pi_next bit b st with (None, _) => True | (Some _, st') => pi_stops bit b st' m end
  end.

Lemma pi_collect_S bit b st n : pi_collect bit b st (S n) =
  match pi_next bit b st with (Some p, st') => p :: pi_collect bit b st' n | (None, _) => [] end.
Proof. reflexivity. Qed.

Lemma pi_stops_of_collect bit b : forall n st,
  pi_collect bit b st (S n) = pi_collect bit b st n -> pi_stops bit b st (S n).
Proof.
  induction n as [|n IH]; intros st H.
  - cbn [pi_collect pi_stops] in *. destruct (pi_next bit b st) as [[p|] st']; [discriminate|exact I].
  - rewrite (pi_collect_S bit b st (S n)), (pi_collect_S bit b st n) in H.
    change (pi_stops bit b st (S (S n))) with
      (match pi_next bit b st with (None, _) => True | (Some _, st') => pi_stops bit b st' (S n) end).
    destruct (pi_next bit b st) as [[p|] st']; [|exact I].
    apply IH. now injection H.
Qed.

(* ------------------------------------------------------------------ the typing invariant of the construction *)
Fixpoint sorted (l : list N) : Prop :=
  match l with [] => True | x :: r => Forall (fun y => x <= y) r /\ sorted r end.

(* cr = the current block (reversed), ovr = the overflow table, ps = the positions still to come *)
Definition cst_ok (B : N) (cr ovr ps : list N) : Prop :=
  len cr < 1024 /\ ge_hd (rev cr) /\ Forall (fun x => Forall (fun y => x <= y) ps) cr /\ sorted ps /\
  Forall (fun p => p < 2 ^ 63) cr /\ Forall (fun p => p < 2 ^ 63) ps /\ len ovr + len cr + len ps <= B.

Lemma cst_push B cr ovr p ps : cst_ok B cr ovr (p :: ps) ->
  ge_hd (rev (p :: cr)) /\ Forall (fun q => q < 2 ^ 63) (p :: cr) /\
  Forall (fun x => Forall (fun y => x <= y) ps) (p :: cr).
Proof.
  intros (Hl & Hge & Hx & Hs & Hc & Hp & HB). cbn [sorted] in Hs. destruct Hs as (Hs1 & Hs2).
  split; [|split].
  - cbn [rev]. unfold ge_hd in *. destruct (rev cr) as [|h t] eqn:Er.
    + cbn [app hd]. constructor; [lia|constructor].
    + cbn [app hd] in *. assert (Hh : In h cr) by (apply in_rev; rewrite Er; now left).
      change (h :: t ++ [p]) with ((h :: t) ++ [p]).
      apply Forall_app. split; [exact Hge|]. constructor; [|constructor].
      rewrite Forall_forall in Hx. specialize (Hx h Hh). now inversion Hx.
  - constructor; [now inversion Hp|exact Hc].
  - constructor; [exact Hs1|]. eapply Forall_impl; [|exact Hx]. cbv beta. intros a Ha. now inversion Ha.
Qed.

Lemma cst_keep B cr ovr p ps : cst_ok B cr ovr (p :: ps) -> len cr + 1 <> 1024 -> cst_ok B (p :: cr) ovr ps.
Proof.
  intros H Hn. destruct (cst_push _ _ _ _ _ H) as (H1 & H2 & H3).
  destruct H as (Hl & Hge & Hx & Hs & Hc & Hp & HB). cbn [sorted] in Hs.
  rewrite len_cons in *. unfold cst_ok. rewrite len_cons.
  repeat split; try assumption; try lia; [apply Hs|now inversion Hp].
Qed.

Lemma cst_flush B cr ovr ovr' p ps : cst_ok B cr ovr (p :: ps) -> len ovr' <= len ovr + len (p :: cr) ->
  cst_ok B [] ovr' ps.
Proof.
  intros (Hl & Hge & Hx & Hs & Hc & Hp & HB) Ho. cbn [sorted] in Hs. rewrite len_cons in *.
  unfold cst_ok. change (len (@nil N)) with 0.
  repeat split; try constructor; try lia; [apply Hs|now inversion Hp].
Qed.

(* ------------------------------------------------------------------ the loop *)
Lemma gi_loop_sim bit b fuel B :
  words_ok (bv_words b) -> len (bv_words b) < 2 ^ 58 -> (S (length (bv_words b)) <= fuel)%nat -> B < 2 ^ 63 ->
  forall n st f cr br sr ovr ns cr' br' sr' ovr' ns',
  pi_reach b st -> pi_stops bit b st n ->
  cst_ok B cr ovr (pi_collect bit b st n) ->
  ns + len (pi_collect bit b st n) < 2 ^ 64 ->
  (length (pi_collect bit b st n) < f)%nat ->
  inv_loop (pi_collect bit b st n) cr (len cr) (br, sr, ovr) ns = Val (cr', (br', sr', ovr'), ns') ->
  cst_ok B cr' ovr' [] /\
  exists cp' cwp' cw',
    while_loop gi_cond (gi_body bit fuel) f
      (bv_words b, bv_nbits b, pi_cur_position st, pi_cur_word_pos st, pi_cur_word st,
       rev cr, rev br, rev sr, rev ovr, ns) =
    Val (Done (bv_words b, bv_nbits b, cp', cwp', cw', rev cr', rev br', rev sr', rev ovr', ns')).
Proof.
  assert (P63 : 2 ^ 63 = 9223372036854775808) by reflexivity.
  assert (P64 : 2 ^ 64 = 18446744073709551616) by reflexivity.
  intros Hok Hlen Hfuel HB. induction n as [|m IH];
    intros st f cr br sr ovr ns cr' br' sr' ovr' ns' Hreach Hstop Hcst Hns Hf H; [destruct Hstop|].
  cbn [pi_collect pi_stops] in *.
  pose proof (pi_reach_next bit b st Hok Hlen Hreach) as Hnext.
  destruct (pi_next bit b st) as [[p|] st'] eqn:E; cbn [snd] in Hnext.
  - (* a position *)
    set (ps := pi_collect bit b st' m) in *.
    destruct f as [|f]; [lia|]. cbn [length] in Hf. rewrite len_cons in Hns.
    cbn [while_loop]. rewrite gi_cond_eq. cbn [bind]. rewrite gi_body_eq.
    rewrite (g_pi_next_some bit b st fuel p st') by assumption. cbn [bind]. cbv beta iota.
    destruct (cst_push _ _ _ _ _ Hcst) as (Hge1 & Hc1 & _).
    assert (El : len (rev cr ++ [p]) = len cr + 1) by (rewrite len_app, DArrayL.len_rev, len_cons, len_nil; lia).
    rewrite El. cbn [inv_loop] in H. rewrite DArrayB.DA_BLOCK_val in H.
    rewrite oadd_ok by lia.
    destruct (N.eqb_spec (len cr + 1) 1024) as [E1024|E1024].
    + destruct (flush_block (rev (p :: cr)) (br, sr, ovr)) as [[[b1 s1] o1]|] eqn:Ef; cbn [bind] in H; [|discriminate].
      change (rev cr ++ [p]) with (rev (p :: cr)).
      pose proof Hcst as (Hl & _ & _ & _ & _ & _ & HBB). rewrite len_cons in HBB.
      rewrite g_da_flush_block_ok.
      * rewrite !rev_involutive, Ef. cbn [bind].
        pose proof (flush_ovf_len _ _ _ _ _ _ _ Ef) as Ho. rewrite DArrayL.len_rev in Ho.
        change (@nil N) with (rev (@nil N)).
        apply (IH st' f [] b1 s1 o1 (ns + 1)); try assumption; try (fold ps; lia).
        eapply cst_flush; [exact Hcst|exact Ho].
      * exact Hge1.
      * unfold ge_hd in Hge1. destruct (rev (p :: cr)) as [|h t] eqn:Er; [cbn [hd]; lia|].
        cbn [hd]. assert (Hh : In h (p :: cr)) by (apply in_rev; rewrite Er; now left).
        rewrite Forall_forall in Hc1. exact (Hc1 h Hh).
      * rewrite DArrayL.len_rev, len_cons. lia.
      * rewrite DArrayL.len_rev. lia.
    + cbn [bind]. change (rev cr ++ [p]) with (rev (p :: cr)).
      replace (len cr + 1) with (len (p :: cr)) in H by (rewrite len_cons; lia).
      apply (IH st' f (p :: cr) br sr ovr (ns + 1)); try assumption; try (fold ps; lia).
      now apply cst_keep.
  - (* the end *)
    cbn [inv_loop] in H. apply Val_inj in H. injection H as <- <- <- <- <-.
    split; [exact Hcst|].
    destruct f as [|f]; [cbn [length] in Hf; lia|].
    cbn [while_loop]. rewrite gi_cond_eq. cbn [bind]. rewrite gi_body_eq.
    rewrite g_pi_next_ok by assumption. rewrite E. cbn [fst bind]. cbv beta iota.
    eexists _, _, _. reflexivity.
Qed.

(* ------------------------------------------------------------------ the positions are sorted and typed *)
Lemma positions_ge bit : forall l pos, Forall (fun p => pos <= p) (DArrayP.positions_of bit l pos).
Proof.
  induction l as [|x l IH]; intros pos; cbn [DArrayP.positions_of]; [constructor|].
  apply Forall_app. split.
  - destruct (Bool.eqb x bit); constructor; [lia|constructor].
  - eapply Forall_impl; [|apply IH]. cbv beta. intros a Ha. lia.
Qed.

Lemma positions_sorted bit : forall l pos, sorted (DArrayP.positions_of bit l pos).
Proof.
  induction l as [|x l IH]; intros pos; cbn [DArrayP.positions_of]; [exact I|].
  destruct (Bool.eqb x bit); cbn [app]; [|apply IH].
  cbn [sorted]. split; [|apply IH].
  eapply Forall_impl; [|apply (positions_ge bit l (pos + 1))]. cbv beta. intros a Ha. lia.
Qed.

Lemma hd_rev_bound (cr : list N) K : 0 < K -> Forall (fun p => p < K) cr -> hd 0 (rev cr) < K.
Proof.
  intros HK H. destruct (rev cr) as [|h t] eqn:Er; cbn [hd]; [exact HK|].
  assert (Hh : In h cr) by (apply in_rev; rewrite Er; now left).
  rewrite Forall_forall in H. exact (H h Hh).
Qed.

Definition inv_fields (inv : inventories) : inv_result :=
  (inv_n_sets inv, inv_block inv, inv_sub inv, inv_overflow inv).

(* Inventories::<BIT>::new as regenerated (the public bv.ones() / bv.zeros() on the data lines, the iterator protocol,
   flush_block every 1024 positions and at the end) returns the fields of the inventories of the hand model.
   fuel: the SAME number bounds the refill loop of every `next` (more than the number of words) and the outer loop
   (more than the number of positions plus the final call returning None). *)
Theorem gi_new_sim : forall bit b fuel inv, bv_inv b ->
  (N.to_nat (bv_nbits b) + length (bv_words b) + 2 <= fuel)%nat ->
  inv_new bit b = Val inv ->
  gi_new bit fuel (chunks 8 (bv_words b)) (bv_nbits b) (bv_nones b) = Val (inv_fields inv).
Proof.
  assert (P63 : 2 ^ 63 = 9223372036854775808) by reflexivity.
  assert (P64 : 2 ^ 64 = 18446744073709551616) by reflexivity.
  intros bit b fuel inv Hinv Hfuel.
  pose proof (BinFinalP.bv_inv_wf_da b Hinv) as Hwf.
  pose proof (inv_words_ok b Hinv) as Hok. pose proof (inv_len_words b Hinv) as Hlen.
  pose proof (inv_small b Hinv) as Hsmall.
  pose proof (DArrayP.abs_len b Hwf) as Hal.
  set (n0 := N.to_nat (bv_nbits b)).
  set (P := DArrayP.positions_of bit (bv_abs b) 0).
  assert (E1 : pi_collect bit b pi_new (S n0) = P).
  { apply (BinFinalP.pi_collect_new_wf WordsP.select_in_word_correct WordsP.popcount_correct); [exact Hwf|]. unfold n0. lia. }
  assert (E2 : pi_collect bit b pi_new (S (S n0)) = P).
  { apply (BinFinalP.pi_collect_new_wf WordsP.select_in_word_correct WordsP.popcount_correct); [exact Hwf|]. unfold n0. lia. }
  assert (Hstop : pi_stops bit b pi_new (S (S n0))) by (apply pi_stops_of_collect; now rewrite E1, E2).
  assert (HP63 : Forall (fun p => p < 2 ^ 63) P).
  { eapply Forall_impl; [|apply positions_lt]. cbv beta. intros a Ha. lia. }
  pose proof (positions_len_le bit (bv_abs b) 0) as HPl. fold P in HPl.
  pose proof (positions_sorted bit (bv_abs b) 0) as HPs. fold P in HPs.
  unfold inv_new. cbv zeta. fold n0. rewrite E1.
  destruct (inv_loop P [] 0 ([], [], []) 0) as [[[cr [[br sr] ovr]] ns]|] eqn:El; cbn [bind]; [|discriminate].
  destruct (gi_loop_sim bit b fuel (bv_nbits b) Hok Hlen ltac:(lia) Hsmall (S (S n0)) pi_new fuel
              [] [] [] [] 0 cr br sr ovr ns (pi_reach_new b) Hstop) as (Hc & cp' & cwp' & cw' & Hloop).
  { rewrite E2. unfold cst_ok. change (len (@nil N)) with 0.
    repeat split; try constructor; try assumption; try lia. }
  { rewrite E2. lia. }
  { rewrite E2. unfold len in HPl, Hal. unfold n0 in *. lia. }
  { rewrite E2. exact El. }
  destruct Hc as (Hl & Hge & _ & _ & Hc63 & _ & HB). rewrite len_nil in HB.
  destruct (flush_block (rev cr) (br, sr, ovr)) as [[[b1 s1] o1]|] eqn:Ef; cbn [bind]; [|discriminate].
  intros H. apply Val_inj in H. subst inv.
  unfold gi_new. rewrite (concat_chunks 7 (bv_words b)), g_pi_new_ok. cbn [bind]. cbv beta iota.
  cbn [rev] in Hloop. rewrite Hloop. cbn [bind]. cbv beta iota.
  rewrite g_da_flush_block_ok.
  - rewrite !rev_involutive, Ef. reflexivity.
  - exact Hge.
  - apply hd_rev_bound; [lia|exact Hc63].
  - rewrite DArrayL.len_rev. lia.
  - rewrite DArrayL.len_rev. lia.
Qed.

Theorem g_inv1_new_sim : forall b fuel inv, bv_inv b ->
  (N.to_nat (bv_nbits b) + length (bv_words b) + 2 <= fuel)%nat ->
  inv_new true b = Val inv ->
  g_inv1_new fuel (chunks 8 (bv_words b)) (bv_nbits b) (bv_nones b) =
  Val (inv_n_sets inv, inv_block inv, inv_sub inv, inv_overflow inv).
Proof. intros b fuel inv. rewrite g_inv1_new_eq. exact (gi_new_sim true b fuel inv). Qed.

Theorem g_inv0_new_sim : forall b fuel inv, bv_inv b ->
  (N.to_nat (bv_nbits b) + length (bv_words b) + 2 <= fuel)%nat ->
  inv_new false b = Val inv ->
  g_inv0_new fuel (chunks 8 (bv_words b)) (bv_nbits b) (bv_nones b) =
  Val (inv_n_sets inv, inv_block inv, inv_sub inv, inv_overflow inv).
Proof. intros b fuel inv. rewrite g_inv0_new_eq. exact (gi_new_sim false b fuel inv). Qed.

(* ================================================================== (3) DArray::<SELECT0_SUPPORT>::new *)
Theorem g_da1_new_sim : forall b fuel d, bv_inv b ->
  (N.to_nat (bv_nbits b) + length (bv_words b) + 2 <= fuel)%nat ->
  da_new false b = Val d ->
  g_da1_new fuel (chunks 8 (bv_words b)) (bv_nbits b) (bv_nones b) =
  Val (da_data d, da_nbits d, bv_nones (da_bv d),
       inv_n_sets (da_ones d), inv_block (da_ones d), inv_sub (da_ones d), inv_overflow (da_ones d),
       None, None, None, None).
Proof.
  intros b fuel d Hinv Hfuel. unfold da_new.
  destruct (inv_new true b) as [ones|] eqn:E1; cbn [bind]; [|discriminate].
  intros H. apply Val_inj in H. subst d.
  unfold g_da1_new. rewrite (g_inv1_new_sim b fuel ones Hinv Hfuel E1). reflexivity.
Qed.

Theorem g_da0_new_sim : forall b fuel d, bv_inv b ->
  (N.to_nat (bv_nbits b) + length (bv_words b) + 2 <= fuel)%nat ->
  da_new true b = Val d ->
  g_da0_new fuel (chunks 8 (bv_words b)) (bv_nbits b) (bv_nones b) =
  Val (da_data d, da_nbits d, bv_nones (da_bv d),
       inv_n_sets (da_ones d), inv_block (da_ones d), inv_sub (da_ones d), inv_overflow (da_ones d),
       da_z_n_sets d, da_z_block d, da_z_sub d, da_z_overflow d).
Proof.
  intros b fuel d Hinv Hfuel. unfold da_new.
  destruct (inv_new true b) as [ones|] eqn:E1; cbn [bind]; [|discriminate].
  destruct (inv_new false b) as [zeros|] eqn:E0; cbn [bind]; [|discriminate].
  intros H. apply Val_inj in H. subst d.
  unfold g_da0_new. rewrite (g_inv1_new_sim b fuel ones Hinv Hfuel E1). cbn [bind]. cbv beta iota.
  rewrite (g_inv0_new_sim b fuel zeros Hinv Hfuel E0). reflexivity.
Qed.

(* ================================================================== (4) end to end *)
(* The regenerated constructor applied to the fields of ANY well-formed bit vector (bv_inv: every state reachable
   through the public BitVector / BitVectorMut API, fewer than 2^63 bits) returns the fields of a darray d on which the
   REGENERATED queries (C07_gen, Proofs/FnsDaOk.v: len, is_empty, count_ones, count_zeros, get, get_unchecked, select1,
   select1_unchecked, select0, select0_unchecked) answer the list specification of the bit sequence bv_abs b. *)
Theorem g_da1_new_correct : forall b fuel, bv_inv b ->
  (N.to_nat (bv_nbits b) + length (bv_words b) + 2 <= fuel)%nat ->
  exists d,
    g_da1_new fuel (chunks 8 (bv_words b)) (bv_nbits b) (bv_nones b) =
    Val (da_data d, da_nbits d, bv_nones (da_bv d),
         inv_n_sets (da_ones d), inv_block (da_ones d), inv_sub (da_ones d), inv_overflow (da_ones d),
         None, None, None, None) /\
    da_zeros d = None /\ da_bv d = b /\ da_types_ok d /\ C07_gen false d (bv_abs b).
Proof.
  intros b fuel Hinv Hfuel. destruct (da_gen_of_bitvector false b Hinv) as (d & Ed & Hb & Ht & Hg).
  exists d. split; [exact (g_da1_new_sim b fuel d Hinv Hfuel Ed)|]. split; [|auto].
  unfold da_new in Ed. destruct (inv_new true b); cbn [bind] in Ed; [|discriminate].
  apply Val_inj in Ed. now subst d.
Qed.

Theorem g_da0_new_correct : forall b fuel, bv_inv b ->
  (N.to_nat (bv_nbits b) + length (bv_words b) + 2 <= fuel)%nat ->
  exists d,
    g_da0_new fuel (chunks 8 (bv_words b)) (bv_nbits b) (bv_nones b) =
    Val (da_data d, da_nbits d, bv_nones (da_bv d),
         inv_n_sets (da_ones d), inv_block (da_ones d), inv_sub (da_ones d), inv_overflow (da_ones d),
         da_z_n_sets d, da_z_block d, da_z_sub d, da_z_overflow d) /\
    da_bv d = b /\ da_types_ok d /\ C07_gen true d (bv_abs b).
Proof.
  intros b fuel Hinv Hfuel. destruct (da_gen_of_bitvector true b Hinv) as (d & Ed & Hb & Ht & Hg).
  exists d. split; [exact (g_da0_new_sim b fuel d Hinv Hfuel Ed)|auto].
Qed.

(* both at once, in the shape of da_gen_of_bitvector / C07_source_from_bitvector *)
Definition g_da_new (s0 : bool) := if s0 then g_da0_new else g_da1_new.
Definition da_fields (d : darray) :=
  (da_data d, da_nbits d, bv_nones (da_bv d),
   inv_n_sets (da_ones d), inv_block (da_ones d), inv_sub (da_ones d), inv_overflow (da_ones d),
   da_z_n_sets d, da_z_block d, da_z_sub d, da_z_overflow d).

Theorem g_da_new_of_bitvector : forall s0 b fuel, bv_inv b ->
  (N.to_nat (bv_nbits b) + length (bv_words b) + 2 <= fuel)%nat ->
  exists d,
    g_da_new s0 fuel (chunks 8 (bv_words b)) (bv_nbits b) (bv_nones b) = Val (da_fields d) /\
    da_new s0 b = Val d /\ da_bv d = b /\ da_types_ok d /\ C07_gen s0 d (bv_abs b).
Proof.
  intros s0 b fuel Hinv Hfuel. destruct (da_gen_of_bitvector s0 b Hinv) as (d & Ed & Hb & Ht & Hg).
  exists d. split; [|auto]. destruct s0; unfold g_da_new, da_fields.
  - exact (g_da0_new_sim b fuel d Hinv Hfuel Ed).
  - rewrite (g_da1_new_sim b fuel d Hinv Hfuel Ed).
    unfold da_new in Ed. destruct (inv_new true b); cbn [bind] in Ed; [|discriminate].
    apply Val_inj in Ed. now subst d.
Qed.

(* ================================================================== (5) non-vacuity, by evaluation *)
Definition ex_bits (n : nat) : list bool :=
  map (fun i => (Nat.eqb (i mod 7) 3 || Nat.eqb (i mod 100) 0)%bool) (seq 0 n).

(* 3000 bits, bit i set iff i mod 7 = 3 or i mod 100 = 0; DArray<true> (ones and zeros inventories, dense blocks) *)
Example g_da0_new_example :
  match bv_from_bools (ex_bits 3000) with
  | Val b =>
      match da_new true b with
      | Val d => g_da0_new 10000 (chunks 8 (bv_words b)) (bv_nbits b) (bv_nones b) = Val (da_fields d) /\
                 len (inv_block (da_ones d)) = 1 /\ len (inv_sub (da_ones d)) = 15 /\
                 da_z_n_sets d = Some 2545
      | Fault _ => False
      end
  | Fault _ => False
  end.
Proof. vm_compute. repeat split; reflexivity. Qed.

(* two set bits 70000 apart: one SPARSE block (entry -1, two overflow positions, one unused sub-block entry);
   and the empty vector *)
Example g_da1_new_sparse_example :
  match bv_from_positions [5; 70005] with
  | Val b =>
      match da_new false b with
      | Val d => g_da1_new 80000 (chunks 8 (bv_words b)) (bv_nbits b) (bv_nones b) = Val (da_fields d) /\
                 da_fields d = (chunks 8 (bv_words b), 70006, 2, 2, [(-1)%Z], [65535], [5; 70005], None, None, None, None)
      | Fault _ => False
      end
  | Fault _ => False
  end /\
  g_da1_new 2 [] 0 0 = Val ([], 0, 0, 0, [], [], [], None, None, None, None) /\
  g_da0_new 2 [] 0 0 = Val ([], 0, 0, 0, [], [], [], Some 0, Some [], Some [], Some []) /\
  da_new true bv_empty = Val (mk_da bv_empty (mk_inv 0 [] [] []) (Some (mk_inv 0 [] [] []))).
Proof. vm_compute. repeat split; reflexivity. Qed.

(* ================================================================== the hypotheses of (1) are needed *)
(* OUT OF RANGE inputs only (never built: the positions of an iterator increase and are below 2^63):
   - a block that is not non-decreasing (curr[32] = 3 below curr[0] = 5, last = 9): the code's checked
     `curr_positions[i] - v` overflows (Fault Overflow) where the hand model's truncated subtraction gives the entry 0;
   - a first position >= 2^63: `v as i64` wraps to a negative entry where the hand model keeps Z.of_N v. *)
Example flush_block_out_of_range :
  let curr := 5 :: repeat 9 31 ++ [3; 9] in
  g_da_flush_block curr [] [] [] = Fault Overflow /\
  flush_block curr ([], [], []) = Val ([5%Z], [0; 0], []) /\
  g_da_flush_block [2 ^ 63] [] [] [] = Val ([(- 9223372036854775808)%Z], [0], []) /\
  flush_block [2 ^ 63] ([], [], []) = Val ([9223372036854775808%Z], [0], []).
Proof. vm_compute. repeat split; reflexivity. Qed.

(* Nothing about the hand constructor is missing: the typing hypotheses of g_da_flush_block_ok are re-established along the
   loop (cst_ok) from facts about the positions (sorted, below n_bits < 2^63, at most n_bits of them), themselves obtained
   from BinFinalP.pi_collect_new_wf; the end-to-end theorems have exactly the premise of C07_source_from_bitvector (bv_inv b)
   plus the fuel bound. *)

Print Assumptions g_da_flush_block_ok.
Print Assumptions g_inv1_new_eq.
Print Assumptions g_inv0_new_eq.
Print Assumptions gi_loop_sim.
Print Assumptions gi_new_sim.
Print Assumptions g_inv1_new_sim.
Print Assumptions g_inv0_new_sim.
Print Assumptions g_da1_new_sim.
Print Assumptions g_da0_new_sim.
Print Assumptions g_da1_new_correct.
Print Assumptions g_da0_new_correct.
Print Assumptions g_da_new_of_bitvector.
Print Assumptions g_da0_new_example.
Print Assumptions g_da1_new_sparse_example.
Print Assumptions flush_block_out_of_range.
