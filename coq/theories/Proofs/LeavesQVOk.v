(* T3 (QVector: len, is_empty): see Proofs/LeavesLib.v for the explanation.  Written once; compiles as long as the
   definitions regenerated from src/qvector/mod.rs keep their meaning.  The functions read the scalar field
   `position` only; the hand model (Model/QVec.v) is total, the source cannot fault either.
   QVector::get_unchecked is not translated: it indexes `Box<[DataLine]>` (a slice of structs). *)
From Coq Require Import ZArith Lia ZifyBool ZifyN.
From QwtModel Require Import ListX Consts SelTable Words QVec LeavesQV LeavesLib.
Open Scope N_scope.

Theorem g_qv_len_ok : forall q, qv_position q < 2 ^ 64 -> g_qv_len (qv_position q) = Val (qv_len q).
Proof. intros q _. unfold g_qv_len, qv_len, QV_LEN_SHIFT. reflexivity. Qed.

Theorem g_qv_is_empty_ok : forall q, qv_position q < 2 ^ 64 -> g_qv_is_empty (qv_position q) = Val (qv_is_empty q).
Proof. intros q _. unfold g_qv_is_empty, qv_is_empty. reflexivity. Qed.

Print Assumptions g_qv_len_ok.
Print Assumptions g_qv_is_empty_ok.
