(* The superblock record operations of Model/RSQ.v on packed words (four words = vec4) *)
From Coq Require Import ZArith Lia ZifyBool ZifyN ZifyNat.
From QwtModel Require Import ListX Consts QVec RSQ ListXP ConstsOk QVecP RSQBits.
Ltac Zify.zify_post_hook ::= Z.div_mod_to_equations.
Arguments N.add : simpl never.
Arguments N.sub : simpl never.
Arguments N.mul : simpl never.
Arguments N.eqb : simpl never.
Arguments N.ltb : simpl never.
Arguments N.leb : simpl never.
Arguments N.pred : simpl never.
Arguments N.of_nat : simpl never.
Arguments N.land : simpl never.
Arguments N.lor : simpl never.
Arguments N.shiftr : simpl never.
Arguments N.shiftl : simpl never.
Arguments N.div : simpl never.
Arguments N.modulo : simpl never.
Arguments N.pow : simpl never.
Arguments N.sqrt : simpl never.

Lemma lt_pow2_bits_high a n m : a < 2 ^ n -> n <= m -> N.testbit a m = false.
Proof.
  intros H Hm. destruct (N.eq_dec a 0) as [->|Hz]; [apply N.bits_0|].
  apply N.bits_above_log2. apply N.log2_lt_pow2; [lia|].
  eapply N.lt_le_trans; [exact H|]. apply N.pow_le_mono_r; lia.
Qed.
Lemma lor_add b n a : a < 2 ^ n -> N.lor (b * 2 ^ n) a = b * 2 ^ n + a.
Proof.
  intros H. assert (L : N.land (b * 2 ^ n) a = 0).
  { apply N.bits_inj. intros m. rewrite N.land_spec, N.bits_0.
    destruct (N.lt_ge_cases m n) as [Hm|Hm].
    - rewrite N.mul_pow2_bits_low by assumption. reflexivity.
    - rewrite (lt_pow2_bits_high a n m) by assumption. apply Bool.andb_false_r. }
  rewrite N.add_nocarry_lxor by assumption. rewrite N.lxor_lor by assumption. reflexivity.
Qed.

Lemma lor_field hi lo c sh : lo < 2 ^ sh -> c < 2 ^ 12 ->
  N.lor (hi * 2 ^ (sh + 12) + lo) (c * 2 ^ sh) = hi * 2 ^ (sh + 12) + lo + c * 2 ^ sh.
Proof.
  intros Hlo Hc.
  assert (E : hi * 2 ^ (sh + 12) = (hi * 2 ^ 12) * 2 ^ sh).
  { rewrite N.pow_add_r, (N.mul_comm (2 ^ sh)), N.mul_assoc. reflexivity. }
  rewrite E.
  assert (L : N.lor (hi * 2 ^ 12 * 2 ^ sh + lo) (c * 2 ^ sh) = (hi * 2 ^ 12 + c) * 2 ^ sh + lo).
  { rewrite <- (lor_add _ _ _ Hlo). rewrite <- N.lor_assoc, (N.lor_comm lo), N.lor_assoc.
    rewrite <- !N.shiftl_mul_pow2, <- N.shiftl_lor, !N.shiftl_mul_pow2.
    rewrite (lor_add hi 12 c Hc). apply lor_add. exact Hlo. }
  rewrite L. rewrite N.mul_add_distr_r. generalize (hi * 2 ^ 12 * 2 ^ sh) (c * 2 ^ sh). intros; lia.
Qed.

Lemma packw_set sbc f g k c : 1 <= k <= 7 -> fbound f -> (forall m, k <= m <= 7 -> f m = 0) ->
  c < 4096 -> sbc < 2 ^ 44 -> g k = c -> (forall m, 1 <= m <= 7 -> m <> k -> g m = f m) ->
  N.lor (packw sbc f) (N.shiftl c ((k - 1) * 12) mod 2 ^ 128) = packw sbc g.
Proof.
  intros Hk Hf Hz Hc Hs Hgk Hg.
  rewrite N.shiftl_mul_pow2.
  assert (C : k = 1 \/ k = 2 \/ k = 3 \/ k = 4 \/ k = 5 \/ k = 6 \/ k = 7) by lia.
  fb Hf. norm_pow in Hs.
  pose proof (Hz 1); pose proof (Hz 2); pose proof (Hz 3); pose proof (Hz 4); pose proof (Hz 5);
  pose proof (Hz 6); pose proof (Hz 7).
  pose proof (Hg 1); pose proof (Hg 2); pose proof (Hg 3); pose proof (Hg 4); pose proof (Hg 5);
  pose proof (Hg 6); pose proof (Hg 7).
  destruct C as [->|[->|[->|[->|[->|[->| ->]]]]]];
    match goal with |- context [(?a - 1) * 12] =>
      let v := eval vm_compute in ((a - 1) * 12) in change ((a - 1) * 12) with v end;
    match goal with |- context [c * 2 ^ ?sh] =>
      rewrite (N.mod_small (c * 2 ^ sh)) by (norm_pow; lia);
      let e := eval vm_compute in (72 - sh) in
      replace (packw sbc f) with ((sbc * 2 ^ e) * 2 ^ (sh + 12) +
         (f 1 + f 2 * 2 ^ 12 + f 3 * 2 ^ 24 + f 4 * 2 ^ 36 + f 5 * 2 ^ 48 + f 6 * 2 ^ 60 + f 7 * 2 ^ 72))
        by (unfold packw; match goal with |- context [2 ^ (?x + 12)] => let v := eval vm_compute in (x + 12) in change (x + 12) with v end; norm_pow; lia);
      rewrite lor_field by (norm_pow; lia)
    end;
    unfold packw; match goal with |- context [2 ^ (?x + 12)] => let v := eval vm_compute in (x + 12) in change (x + 12) with v end; norm_pow; lia.
Qed.

(* ------------------------------------------------------------------ four-element vectors *)
Definition vec4 {A} (g : N -> A) : list A := [g 0; g 1; g 2; g 3].

Ltac case4 c H :=
  let C := fresh "C" in
  assert (C : c = 0 \/ c = 1 \/ c = 2 \/ c = 3) by lia;
  destruct C as [->|[->|[->| ->]]].

Lemma nthN_vec4 {A} (g : N -> A) c : c <= 3 -> nthN (vec4 g) c = Some (g c).
Proof. intros H. case4 c H; reflexivity. Qed.
Lemma nthN_vec4_none {A} (g : N -> A) c : 3 < c -> nthN (vec4 g) c = None.
Proof. intros H. apply nthN_none. unfold vec4, len. cbn [length]. lia. Qed.
Lemma vec4_ext {A} (g h : N -> A) : (forall c, c <= 3 -> g c = h c) -> vec4 g = vec4 h.
Proof. intros H. unfold vec4. rewrite (H 0), (H 1), (H 2), (H 3) by lia. reflexivity. Qed.
Lemma setN_vec4 {A} (g : N -> A) c v : c <= 3 ->
  setN (vec4 g) c v = vec4 (fun x => if x =? c then v else g x).
Proof. intros H. case4 c H; reflexivity. Qed.
Lemma idx_vec4 {A} (g : N -> A) c : c <= 3 -> idx (vec4 g) c = Val (g c).
Proof. intros H. unfold idx. now rewrite nthN_vec4. Qed.
Lemma uidx_vec4 {A} (g : N -> A) c : c <= 3 -> uidx (vec4 g) c = Val (g c).
Proof. intros H. unfold uidx. now rewrite nthN_vec4. Qed.
Lemma map_vec4 {A B} (h : A -> B) (g : N -> A) : map h (vec4 g) = vec4 (fun c => h (g c)).
Proof. reflexivity. Qed.
Lemma incr_vec4 (g : N -> N) c : c <= 3 ->
  incr (vec4 g) c = Val (vec4 (fun x => if x =? c then g c + 1 else g x)).
Proof. intros H. unfold incr. rewrite idx_vec4 by assumption. cbn [bind]. now rewrite setN_vec4. Qed.

(* a superblock record: four packed words *)
Definition sbrec (sbc : N -> N) (f : N -> N -> N) : list N := vec4 (fun c => packw (sbc c) (f c)).

Lemma sb_new_vec4 g : (forall c, c <= 3 -> g c < 2 ^ 44) ->
  sb_new (vec4 g) = sbrec g (fun _ _ => 0).
Proof.
  intros H. unfold sb_new, sbrec. rewrite map_vec4. apply vec4_ext. intros c Hc.
  rewrite packw_zero, SB_SHIFT_val, N.shiftl_mul_pow2. apply N.mod_small.
  specialize (H c Hc). norm_pow. norm_pow in H. lia.
Qed.

Lemma sb_get_superblock_counter_rec sbc f c : c <= 3 -> fbound (f c) -> sbc c < 2 ^ 44 ->
  sb_get_superblock_counter (sbrec sbc f) c = Val (sbc c).
Proof.
  intros Hc Hf Hs. unfold sb_get_superblock_counter, sbrec. rewrite uidx_vec4 by assumption.
  cbn [bind]. rewrite SB_SHIFT_GC_val, packw_sbc by assumption.
  rewrite N.mod_small by (norm_pow; norm_pow in Hs; lia). reflexivity.
Qed.

(* block ids <= 7 and superblock counters < 2^44: none of the overflow checks of get_rank fires *)
Lemma sb_get_rank_rec sbc f c b : c <= 3 -> fbound (f c) -> b <= 7 -> sbc c < 2 ^ 44 ->
  sb_get_rank (sbrec sbc f) c b = Val (sbc c + (if b =? 0 then 0 else f c b)).
Proof.
  intros Hc Hf Hb Hs. unfold sb_get_rank, sbrec. rewrite uidx_vec4 by assumption. cbn [bind].
  rewrite SB_SHIFT_GR_val, BLK_BITS_GR_val, BLK_MASK_GR_val, packw_sbc by assumption.
  rewrite (N.mod_small (sbc c)) by (norm_pow; norm_pow in Hs; lia).
  assert (M : forall x, (x mod 2 ^ 64) mod 4096 = x mod 4096) by (intros x; norm_pow; lia).
  destruct (N.eqb_spec b 0) as [->|Hn].
  - replace (0 <? 0) with false by lia. unfold osub. replace (0 <=? 0) with true by lia. cbn [bind].
    unfold omul at 1. replace ((0 - 0) * 12 <? 2 ^ 64) with true by (norm_pow; lia). cbn [bind].
    unfold oshr. replace ((0 - 0) * 12 <? 128) with true by lia. cbn [bind].
    unfold omul, oadd. rewrite N.mul_0_r. replace (0 <? 2 ^ 64) with true by (norm_pow; lia). cbn [bind].
    replace (sbc c + 0 <? 2 ^ 64) with true by (norm_pow; norm_pow in Hs; lia). reflexivity.
  - replace (0 <? b) with true by lia. unfold osub. replace (1 <=? b) with true by lia. cbn [bind].
    unfold omul at 1. replace ((b - 1) * 12 <? 2 ^ 64) with true by (norm_pow; lia). cbn [bind].
    unfold oshr. replace ((b - 1) * 12 <? 128) with true by lia. cbn [bind].
    rewrite land4095, M, (N.mul_comm _ 12), packw_shift by (try assumption; lia).
    pose proof (Hf b ltac:(lia)) as Hfb.
    unfold omul, oadd. rewrite N.mul_1_r. replace (f c b <? 2 ^ 64) with true by (norm_pow; lia). cbn [bind].
    replace (sbc c + f c b <? 2 ^ 64) with true by (norm_pow; norm_pow in Hs; lia). reflexivity.
Qed.

Lemma sb_set_block_counters_0 s cs : (forall c, c <= 3 -> cs c < 4096) ->
  sb_set_block_counters s 0 (vec4 cs) = Val s.
Proof.
  intros H. unfold sb_set_block_counters. rewrite SET_BLOCK_ID_LIMIT_val, BLK_LIMIT_val.
  replace (0 <? 8) with true by lia. cbn [oassert bind].
  unfold vec4. cbn [forallb].
  pose proof (H 0); pose proof (H 1); pose proof (H 2); pose proof (H 3).
  replace (cs 0 <? 4096) with true by lia. replace (cs 1 <? 4096) with true by lia.
  replace (cs 2 <? 4096) with true by lia. replace (cs 3 <? 4096) with true by lia.
  reflexivity.
Qed.

Lemma sb_set_block_counters_rec sbc f g k cs : 1 <= k <= 7 ->
  (forall c, c <= 3 -> fbound (f c)) ->
  (forall c m, c <= 3 -> k <= m <= 7 -> f c m = 0) ->
  (forall c, c <= 3 -> cs c < 4096) ->
  (forall c, c <= 3 -> sbc c < 2 ^ 44) ->
  (forall c, c <= 3 -> g c k = cs c) ->
  (forall c m, c <= 3 -> 1 <= m <= 7 -> m <> k -> g c m = f c m) ->
  sb_set_block_counters (sbrec sbc f) k (vec4 cs) = Val (sbrec sbc g).
Proof.
  intros Hk Hf Hz H Hs Hgk Hg. unfold sb_set_block_counters.
  rewrite SET_BLOCK_ID_LIMIT_val, BLK_LIMIT_val, BLK_BITS_val.
  replace (k <? 8) with true by lia. cbn [oassert bind].
  replace (forallb (fun c => c <? 4096) (vec4 cs)) with true.
  2:{ unfold vec4. cbn [forallb].
      pose proof (H 0); pose proof (H 1); pose proof (H 2); pose proof (H 3).
      replace (cs 0 <? 4096) with true by lia. replace (cs 1 <? 4096) with true by lia.
      replace (cs 2 <? 4096) with true by lia. replace (cs 3 <? 4096) with true by lia.
      reflexivity. }
  cbn [bind]. replace (k =? 0) with false by lia. f_equal.
  unfold sbrec, vec4. cbn [combine map].
  assert (P : forall c, c <= 3 ->
    N.lor (packw (sbc c) (f c)) (N.shiftl (cs c) ((k - 1) * 12) mod 2 ^ 128) = packw (sbc c) (g c)).
  { intros c Hc. apply packw_set; auto;
      try (intros m Hm; apply Hz; assumption); try (intros m Hm Hne; apply Hg; assumption). }
  rewrite (P 0), (P 1), (P 2), (P 3) by lia. reflexivity.
Qed.

(* ------------------------------------------------------------------ block_predecessor *)
Lemma block_pred_loop_spec sbc f target : fbound f ->
  forall fuel k prev, k + N.of_nat fuel = 8 -> 1 <= k ->
  exists b, sb_block_pred_loop (N.shiftr (packw sbc f) (12 * (k - 1))) prev target k fuel
            = (b, if b =? k - 1 then prev else f b) /\
    k - 1 <= b <= 7 /\ (forall m, k <= m <= b -> f m < target) /\ (b < 7 -> target <= f (b + 1)).
Proof.
  intros Hf. induction fuel as [|fuel IH]; intros k prev Hk H1; cbn [sb_block_pred_loop].
  - rewrite BLOCKS_IN_SB_val. exists 7. assert (k = 8) by lia. subst k.
    change (8 - 1) with 7. rewrite N.eqb_refl. repeat split; try lia.
  - rewrite BLK_MASK_BP_val, BLK_BITS_BP_val, land4095, packw_shift by (try assumption; lia).
    destruct (N.leb_spec target (f k)) as [Hle|Hgt].
    + exists (k - 1). rewrite N.eqb_refl. repeat split; try lia.
      intros _. replace (k - 1 + 1) with k by lia. exact Hle.
    + rewrite N.shiftr_shiftr. replace (12 * (k - 1) + 12) with (12 * (k + 1 - 1)) by lia.
      destruct (IH (k + 1) (f k) ltac:(lia) ltac:(lia)) as (b & E & Hb & Hlt & Hnext).
      exists b. rewrite E. split; [|split; [lia|split; [|exact Hnext]]].
      * f_equal. replace (k + 1 - 1) with k by lia.
        destruct (N.eqb_spec b k) as [->|Hn]; [now replace (k =? k - 1) with false by lia|].
        now replace (b =? k - 1) with false by lia.
      * intros m Hm. destruct (N.eq_dec m k) as [->|Hne]; [exact Hgt|]. apply Hlt. lia.
Qed.

Lemma sb_block_predecessor_rec sbc f c target : c <= 3 -> fbound (f c) ->
  exists b, sb_block_predecessor (sbrec sbc f) c target = Val (b, if b =? 0 then 0 else f c b) /\
    b <= 7 /\ (forall m, 1 <= m <= b -> f c m < target) /\ (b < 7 -> target <= f c (b + 1)).
Proof.
  intros Hc Hf. unfold sb_block_predecessor, sbrec. rewrite idx_vec4 by assumption. cbn [bind].
  rewrite BLOCKS_IN_SB_val. change (N.to_nat (8 - 1)) with 7%nat.
  destruct (block_pred_loop_spec (sbc c) (f c) target Hf 7 1 0 ltac:(lia) ltac:(lia))
    as (b & E & Hb & Hlt & Hnext).
  change (12 * (1 - 1)) with 0 in E. rewrite N.shiftr_0_r in E. change (1 - 1) with 0 in E.
  exists b. rewrite E. repeat split; try lia; assumption.
Qed.
