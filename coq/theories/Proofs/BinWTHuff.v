(* C03 helper: the binary wavelet tree, part 5: the COMPRESSED (Huffman-shaped) tree.
   Binary analogue of HQWTBridge / HQWTCode / HQWTP: the code table induces the 1-bit digit and
   code length functions of Theory/Codes.v; the levels wt_levels builds are RSWide vectors over
   the bit lists [hwm_levels] of Theory/HuffWM.v (never empty); the queries answer like the list
   specification. *)
From Coq Require Import ZArith Lia ZifyBool ZifyN ZifyNat.
From QwtModel Require Import ListX Seq QWT BitVec RSBin Huff ListXP QVecP RSQList RSQWord RSQBuild RSBinL.
From QwtModel Require Import WaveletMatrix HuffWM Codes QWTArith HQWTBridge HQWTWalks HQWTCode.
From QwtModel Require Import BinWTBase BinWTWalks BinWTBuild.
Ltac Zify.zify_post_hook ::= Z.div_mod_to_equations.
Arguments N.add : simpl never.
Arguments N.sub : simpl never.
Arguments N.mul : simpl never.
Arguments N.eqb : simpl never.
Arguments N.ltb : simpl never.
Arguments N.leb : simpl never.
Arguments N.pred : simpl never.
Arguments N.of_nat : simpl never.
Arguments N.land : simpl never.
Arguments N.lor : simpl never.
Arguments N.shiftr : simpl never.
Arguments N.shiftl : simpl never.
Arguments N.div : simpl never.
Arguments N.modulo : simpl never.
Arguments N.pow : simpl never.
Arguments N.sqrt : simpl never.
Arguments N.log2 : simpl never.
Arguments N.max : simpl never.

(* ---------------------------------------------------------------- generic *)
Lemma hwm_levels_map {A} a (dg : nat -> A -> N) cl s : forall n l0,
  hwm_levels A a dg cl l0 n s = map (fun l => map (dg l) (Q A a dg cl l s)) (seq l0 n).
Proof.
  induction n as [|n IH]; intros l0; cbn [hwm_levels seq map]; [reflexivity|]. now rewrite IH.
Qed.

Lemma Q_mem {A} a (dg : nat -> A -> N) (cl : A -> nat) (s : list A) x :
  (forall l y, dg l y < N.of_nat a) -> In x s ->
  forall l, (l < cl x)%nat -> In x (Q A a dg cl l s).
Proof.
  intros Hdg Hx. induction l as [|l IH]; intros Hl; cbn [Q]; [exact Hx|].
  apply In_parts_conv; [|apply Hdg]. apply filter_In. split; [apply IH; lia|].
  apply Nat.ltb_lt. exact Hl.
Qed.

Lemma In_len_pos {A} (l : list A) x : In x l -> 0 < len l.
Proof. destruct l; [intros []|intros _; rewrite len_cons; lia]. Qed.

Lemma Forall2_imp {A B} (P Q : A -> B -> Prop) l1 l2 :
  (forall x y, P x y -> Q x y) -> Forall2 P l1 l2 -> Forall2 Q l1 l2.
Proof. intros H. induction 1; constructor; auto. Qed.

Lemma acc1_shift v k : v < 2 ^ 32 ->
  acc1 (N.shiftr v (k + 1)) (N.land (N.shiftr v k) 1) = N.shiftr v k.
Proof.
  intros Hv. rewrite <- N.shiftr_shiftr. pose proof (shiftr_le v k) as Hy.
  set (y := N.shiftr v k) in *. unfold acc1.
  rewrite land1, N.shiftl_mul_pow2, N.shiftr_div_pow2.
  assert (E2 : 2 ^ 1 = 2) by reflexivity. assert (E32 : 2 ^ 32 = 4294967296) by reflexivity.
  rewrite N.mod_small by (rewrite E2, E32 in *; lia).
  rewrite lor_add by (rewrite E2; lia). rewrite E2. lia.
Qed.

(* ---------------------------------------------------------------- the code table *)
Section Bridge.
Variable tab : list pcode.
Notation dig := (code_dig 1 tab).
Notation clen := (code_clen 1 tab).

Lemma dig_lt : forall l x, dig l x < N.of_nat 2.
Proof.
  intros l x. unfold code_dig. change (N.of_nat 2) with 2. change (2 ^ 1 - 1) with 1.
  destruct (nthN tab (sym_index x)); [rewrite land1; lia|lia].
Qed.
Lemma dig_lt2 l x : dig l x < 2.
Proof. exact (dig_lt l x). Qed.
Lemma clen_eq x c : nthN tab (sym_index x) = Some c -> clen x = N.to_nat (pc_len c).
Proof. intros H. unfold code_clen. rewrite H. now rewrite N.div_1_r. Qed.
Lemma dig_eq x c l : nthN tab (sym_index x) = Some c ->
  dig l x = N.land (N.shiftr (pc_content c) (pc_len c - (N.of_nat l + 1))) 1.
Proof. intros H. unfold code_dig. rewrite H, N.mul_1_l. reflexivity. Qed.

Variable seq : list N.
Hypothesis Htab : len tab < 2 ^ 64.
Hypothesis Hwf : forall x, In x seq -> exists c, nthN tab x = Some c /\ code_wf 1 c = true.
Notation QQ l := (Q N 2 dig clen l seq).

Lemma sym_index_in x : In x seq -> sym_index x = x.
Proof.
  intros H. destruct (Hwf x H) as (c & Hc & _). apply nthN_some_lt in Hc.
  unfold sym_index. apply N.mod_small. lia.
Qed.

Record code_facts (x : N) (c : pcode) : Prop := {
  cf_nth : nthN tab (sym_index x) = Some c;
  cf_pos : 0 < pc_len c;
  cf_le : pc_len c <= 32;
  cf_content : pc_content c < 2 ^ pc_len c }.

Lemma in_seq_code x : In x seq -> exists c, code_facts x c.
Proof.
  intros H. destruct (Hwf x H) as (c & Hc & W). exists c. unfold code_wf in W.
  apply andb_prop in W as [W W4]. apply andb_prop in W as [W W3]. apply andb_prop in W as [W1 W2].
  constructor; [rewrite (sym_index_in x H); exact Hc|lia|lia|lia].
Qed.

Lemma clen_len x c : code_facts x c -> pc_len c = N.of_nat (clen x) /\ (0 < clen x)%nat.
Proof. intros [H1 H2 H3 H5]. rewrite (clen_eq x c H1). lia. Qed.

Lemma clen_pos x : In x seq -> (0 < clen x)%nat.
Proof. intros H. destruct (in_seq_code x H) as (c & HF). exact (proj2 (clen_len x c HF)). Qed.

Lemma QQ_in l x : In x (QQ l) -> In x seq /\ (l < clen x)%nat.
Proof.
  intros H. apply (Q_In N 2 dig dig_lt clen) in H. destruct H as [H1 H2]. split; [exact H1|].
  pose proof (clen_pos x H1). lia.
Qed.

(* ---------- one level: the bits pushed and the reordering ---------- *)
Lemma level_bit_val l a : In a seq ->
  (let! code := idx tab (sym_index a) in
   if N.of_nat l + 1 <=? pc_len code
   then Val (Some (N.land (N.shiftr (pc_content code) (pc_len code - (N.of_nat l + 1))) 1 =? 1))
   else Val None) = Val (if (l <? clen a)%nat then Some (dig l a =? 1) else None).
Proof.
  intros H. destruct (in_seq_code a H) as (c & [H1 H2 H3 H5]).
  unfold idx. rewrite H1. cbn [bind]. rewrite (clen_eq a c H1), (dig_eq a c l H1).
  destruct (N.leb_spec (N.of_nat l + 1) (pc_len c)), (Nat.ltb_spec l (N.to_nat (pc_len c)));
    try reflexivity; lia.
Qed.

Definition tagf (l : nat) (a : N) : N := if (S l <? clen a)%nat then dig l a else 2.

Lemma level_tag_val l a : In a seq ->
  (let! code := idx tab (sym_index a) in
   if pc_len code <=? N.of_nat l + 1 then Val (2, a)
   else let! d := osub (pc_len code) (N.of_nat l + 1) in
        Val (N.land (N.shiftr (pc_content code) d) (2 - 1), a)) = Val (tagf l a, a).
Proof.
  intros H. destruct (in_seq_code a H) as (c & [H1 H2 H3 H5]).
  unfold idx, tagf. rewrite H1. cbn [bind]. rewrite (clen_eq a c H1), (dig_eq a c l H1).
  change (2 - 1) with 1.
  destruct (N.leb_spec (pc_len c) (N.of_nat l + 1)), (Nat.ltb_spec (S l) (N.to_nat (pc_len c)));
    try reflexivity; try lia.
  unfold osub. destruct (N.leb_spec (N.of_nat l + 1) (pc_len c)); [reflexivity|lia].
Qed.

Lemma part_with_codes_ok2 l lst : (forall x, In x lst -> In x seq) ->
  part_with_codes 2 lst (N.of_nat l + 1) tab =
  Val (parts N dig l 2 (filter (fun x => (S l <? clen x)%nat) lst) ++
       filter (fun x => negb (S l <? clen x)%nat) lst).
Proof.
  intros Hin. unfold part_with_codes.
  rewrite (mapo_val _ (fun a => (tagf l a, a))) by (intros a Ha; apply level_tag_val, Hin, Ha).
  cbn [bind]. change (2 =? 4) with false. cbv iota. rewrite !pick_tagged. f_equal.
  cbn [parts app]. change (N.of_nat 0) with 0. change (N.of_nat 1) with 1.
  rewrite !filter_filter, <- !app_assoc.
  assert (E : forall k, k < 2 ->
            filter (fun a => tagf l a =? k) lst =
            filter (fun x => (S l <? clen x)%nat && (dig l x =? k)) lst).
  { intros k Hk. apply filter_ext. intros a. unfold tagf.
    destruct (S l <? clen a)%nat; cbn [andb]; [reflexivity|]. destruct (N.eqb_spec 2 k); [lia|reflexivity]. }
  rewrite !E by lia. do 2 f_equal.
  apply filter_ext. intros a. unfold tagf. destruct (S l <? clen a)%nat; cbn [negb]; [|reflexivity].
  pose proof (dig_lt2 l a). destruct (N.eqb_spec (dig l a) 2); [lia|reflexivity].
Qed.

(* the model's sequence at level l is Q l seq followed by symbols whose code has ended *)
Definition fin_tail (l : nat) (F : list N) : Prop := forall x, In x F -> In x seq /\ (clen x <= l)%nat.

Lemma level_seq_in l F : fin_tail l F -> forall x, In x (QQ l ++ F) -> In x seq.
Proof.
  intros HF x Hx. apply in_app_or in Hx as [Hx|Hx]; [exact (proj1 (QQ_in l x Hx))|exact (proj1 (HF x Hx))].
Qed.

Lemma level_digits l F : fin_tail l F ->
  filter (fun x => (l <? clen x)%nat) (QQ l ++ F) = QQ l.
Proof.
  intros HF. rewrite filter_app, filter_all, filter_none; [apply app_nil_r| |].
  - intros x Hx. destruct (HF x Hx) as [_ H]. apply Nat.ltb_ge. exact H.
  - intros x Hx. destruct (QQ_in l x Hx) as [_ H]. apply Nat.ltb_lt. exact H.
Qed.

Lemma level_next l F : fin_tail l F ->
  exists F', fin_tail (S l) F' /\
    parts N dig l 2 (filter (fun x => (S l <? clen x)%nat) (QQ l ++ F)) ++
    filter (fun x => negb (S l <? clen x)%nat) (QQ l ++ F) = QQ (S l) ++ F'.
Proof.
  intros HF. exists (filter (fun x => negb (S l <? clen x)%nat) (QQ l ++ F)). split.
  - intros x Hx. apply filter_In in Hx as [Hx Hc]. split; [exact (level_seq_in l F HF x Hx)|].
    destruct (Nat.ltb_spec (S l) (clen x)); [discriminate|lia].
  - f_equal. rewrite filter_app.
    rewrite (filter_none _ F), app_nil_r; [reflexivity|].
    intros x Hx. destruct (HF x Hx) as [_ H]. apply Nat.ltb_ge. lia.
Qed.

Definition hDs (l : nat) : list N := map (dig l) (QQ l).

Lemma hDs_bin l : bin (hDs l).
Proof.
  unfold hDs, bin. apply Forall_forall. intros d Hd. apply in_map_iff in Hd as (x & <- & _). apply dig_lt2.
Qed.
Lemma hDs_len l : len (hDs l) = len (QQ l).
Proof. apply len_map. Qed.

(* ---------- construction ---------- *)
Section Build.
Hypothesis select_in_word_correct : forall w k, w < 2 ^ 64 -> k < 128 ->
  select_in_word w k = Val (match select_spec (bits_of 64 w) 1 k with Some p => p | None => 64 end).
Hypothesis popcount_correct : forall n x, x < 2 ^ N.of_nat n -> popcount x = countN 1 (bits_of n x).
Hypothesis Hn : len seq < RSQ_MAXN.
Variable xmax : N.                       (* a symbol with a longest code: the levels are not empty *)
Hypothesis Hxmax : In xmax seq.

Lemma wt_levels_huff_ok w nl : forall k l F, (l + k <= clen xmax)%nat -> fin_tail l F ->
  exists rs lens, wt_levels w true (QQ l ++ F) tab nl (N.of_nat l + 1) k = Val (rs, lens) /\
    btree_ok (fun j => hDs (l + j)) k rs lens.
Proof.
  induction k as [|k IH]; intros l F Hk HF.
  - exists [], []. split; [reflexivity|]. intros j Hj. lia.
  - cbn [wt_levels].
    rewrite (mapo_val _ (fun a => if (l <? clen a)%nat then Some (dig l a =? 1) else None))
      by (intros a Ha; apply level_bit_val, (level_seq_in l F HF a Ha)).
    cbn [bind]. rewrite flat_opt_filter, (level_digits l F HF).
    assert (EB : map (fun a => dig l a =? 1) (QQ l) = bools (hDs l)).
    { unfold bools, hDs. now rewrite map_map. }
    rewrite EB.
    destruct (rsw_level_ok select_in_word_correct popcount_correct (hDs l) (hDs_bin l))
      as (bv & r & Ebv & Er & Hr & Hlen).
    { rewrite hDs_len. apply (In_len_pos _ xmax). apply Q_mem; [exact dig_lt|exact Hxmax|lia]. }
    { rewrite hDs_len. pose proof (Q_len_le N 2 dig dig_lt clen l seq). lia. }
    rewrite Ebv. cbn [bind]. rewrite Er. cbn [bind].
    rewrite (part_with_codes_ok2 l _ (level_seq_in l F HF)). cbn [bind].
    destruct (level_next l F HF) as (F' & HF' & E'). rewrite E'.
    destruct (IH (S l) F' ltac:(lia) HF') as (rs & lens & E & HT).
    replace (N.of_nat l + 1 + 1) with (N.of_nat (S l) + 1) by lia.
    rewrite E. cbn [bind].
    exists (r :: rs), (bv_len bv :: lens). split; [reflexivity|].
    apply (btree_ok_cons hDs); [exact Hr|exact Hlen|exact HT].
Qed.
End Build.

(* ---------- the code read back by get, decode ---------- *)
Hypothesis Hocc : forall x c, nthN tab x = Some c -> pc_len c <> 0 -> In x seq.
Hypothesis Hdist : forall x y c, In x seq -> In y seq -> nthN tab x = Some c -> nthN tab y = Some c -> x = y.

Lemma acc_fold_content x c : code_facts x c -> forall n, (n <= clen x)%nat ->
  fold_left acc1 (digits_of N dig 0 n x) 0 = N.shiftr (pc_content c) (pc_len c - N.of_nat n).
Proof.
  intros HF. destruct (clen_len x c HF) as [HL _]. destruct HF as [H1 H2 H3 H5].
  induction n as [|n IH]; intros Hn.
  - change (digits_of N dig 0 0 x) with (@nil N). cbn [fold_left]. change (N.of_nat 0) with 0.
    rewrite N.sub_0_r, N.shiftr_div_pow2, N.div_small by exact H5. reflexivity.
  - rewrite digits_of_snoc, fold_left_app. cbn [fold_left Nat.add]. rewrite IH by lia.
    rewrite (dig_eq x c n H1).
    replace (pc_len c - N.of_nat n) with (pc_len c - (N.of_nat n + 1) + 1) by lia.
    replace (pc_len c - N.of_nat (S n)) with (pc_len c - (N.of_nat n + 1)) by lia.
    apply acc1_shift.
    assert (2 ^ pc_len c <= 2 ^ 32) by (apply N.pow_le_mono_r; lia). lia.
Qed.

Lemma acc_fold_full x c : code_facts x c ->
  fold_left acc1 (digits_of N dig 0 (clen x) x) 0 = pc_content c.
Proof.
  intros HF. rewrite (acc_fold_content x c HF) by lia. destruct (clen_len x c HF) as [HL _].
  replace (pc_len c - N.of_nat (clen x)) with 0 by lia. apply N.shiftr_0_r.
Qed.

Lemma code_unique x y c : In x seq -> In y seq -> code_facts x c -> code_facts y c -> x = y.
Proof.
  intros Hx Hy [H1 _ _ _] [H1' _ _ _].
  rewrite (sym_index_in x Hx) in H1. rewrite (sym_index_in y Hy) in H1'.
  exact (Hdist x y c Hx Hy H1 H1').
Qed.

Lemma same_code_eq c x : In c seq -> In x seq -> same_code N dig clen c x = (x =? c).
Proof.
  intros Hc Hx. destruct (N.eqb_spec x c) as [->|Hne].
  - unfold same_code. now rewrite pre_refl, Nat.eqb_refl.
  - destruct (same_code N dig clen c x) eqn:E; [exfalso|reflexivity]. apply Hne.
    unfold same_code in E. apply andb_prop in E as [E1 E2]. apply Nat.eqb_eq in E2.
    destruct (in_seq_code c Hc) as (cc & Fc). destruct (in_seq_code x Hx) as (cx & Fx).
    pose proof (acc_fold_full c cc Fc) as Ac. pose proof (acc_fold_full x cx Fx) as Ax.
    rewrite E2, (pre_digits dig _ c x E1), Ac in Ax.
    destruct (clen_len c cc Fc) as [Lc _]. destruct (clen_len x cx Fx) as [Lx _]. rewrite E2 in Lx.
    assert (Ecode : cx = cc).
    { destruct cx as [a1 b1], cc as [a2 b2]. cbn [pc_content pc_len] in *. subst. f_equal; lia. }
    subst cx. exact (code_unique x c cc Hx Hc Fx Fc).
Qed.

Lemma filter_same_code c l : In c seq -> (forall x, In x l -> In x seq) ->
  len (filter (same_code N dig clen c) l) = countN c l.
Proof.
  intros Hc Hl. rewrite countN_filter. f_equal. apply filter_ext_in.
  intros x Hx. apply same_code_eq; [exact Hc|exact (Hl x Hx)].
Qed.

Lemma decode_entry2 ln p :
  In p (sort_by_key
          (map (fun '(i, c) => (pc_content c, i))
               (filter (fun '(i, c) => negb (pc_len c =? 0) && (pc_len c =? ln)) (number_levels tab 0)))) <->
  exists i c, p = (pc_content c, i) /\ nthN tab i = Some c /\ pc_len c <> 0 /\ pc_len c = ln.
Proof.
  rewrite sort_by_key_In, in_map_iff. split.
  - intros ([i c] & <- & H). apply filter_In in H as [H1 H2]. apply number_levels_In in H1 as [_ H1].
    rewrite N.sub_0_r in H1. apply andb_prop in H2 as [H2 H3].
    exists i, c. repeat split; [exact H1|lia|lia].
  - intros (i & c & -> & H1 & H2 & H3). exists (i, c). split; [reflexivity|].
    apply filter_In. split.
    + apply number_levels_In. rewrite N.sub_0_r. split; [lia|exact H1].
    + destruct (N.eqb_spec (pc_len c) 0); [contradiction|]. destruct (N.eqb_spec (pc_len c) ln); [reflexivity|contradiction].
Qed.

Lemma decode_ok2 x c mx : In x seq -> code_facts x c -> pc_len c <= mx ->
  exists T, nthN (decode_tables tab mx) (pc_len c) = Some T /\ table_lookup T (pc_content c) = Val x.
Proof.
  intros Hx HF Hle. unfold decode_tables. rewrite nthN_map, nthN_seqN by lia. cbn [option_map].
  eexists. split; [reflexivity|]. unfold table_lookup.
  replace (0 + pc_len c) with (pc_len c) by lia.
  pose proof HF as [H1 H2 H3 H5].
  destruct (find _ _) as [p|] eqn:Ef.
  - apply find_some in Ef as [Hin Hk]. apply decode_entry2 in Hin as (i & c' & -> & G1 & G2 & G3).
    cbn [fst snd] in *. apply N.eqb_eq in Hk.
    assert (Ecode : c' = c).
    { destruct c' as [a1 b1], c as [a2 b2]. cbn [pc_content pc_len] in *. now subst. }
    subst c'. f_equal.
    pose proof (Hocc i c G1 G2) as Hi.
    rewrite (sym_index_in x Hx) in H1. exact (Hdist i x c Hi Hx G1 H1).
  - exfalso. pose proof (find_none _ _ Ef (pc_content c, x)) as Hf. cbn [fst] in Hf.
    rewrite N.eqb_refl in Hf. discriminate Hf.
    apply decode_entry2. exists x, c. repeat split; [|lia].
    rewrite <- (sym_index_in x Hx). exact H1.
Qed.

End Bridge.

(* ---------------------------------------------------------------- the queries *)
Section HMain.
Variables (w : N) (tab : list pcode) (s : list N).
Hypothesis HF : Forall (fun x => x < 2 ^ w) s.
Hypothesis Hn : len s < RSQ_MAXN.
Hypothesis Hpos : 0 < len s.
Hypothesis Htab : len tab < 2 ^ 64.
Hypothesis Hwf : forall x, In x s -> exists c, nthN tab x = Some c /\ code_wf 1 c = true.
Hypothesis Hocc : forall x c, nthN tab x = Some c -> pc_len c <> 0 -> In x s.
Hypothesis Hok : wm_ok N 2 (code_dig 1 tab) (code_clen 1 tab) s = true.
Hypothesis Hdist : forall x y c, In x s -> In y s -> nthN tab x = Some c -> nthN tab y = Some c -> x = y.
Variables (bvs : list rswide) (lens : list N).

Notation dig := (code_dig 1 tab).
Notation clen := (code_clen 1 tab).
Notation QQ l := (Q N 2 dig clen l s).
Notation Ds := (hDs tab s).
Notation mx := (maxN (map pc_len tab)).
Notation M := (N.to_nat mx).

Hypothesis HT : btree_ok Ds M bvs lens.
Set Default Proof Using "All".

Notation t := (mk_bwt (len s) mx None (Some tab) (Some (decode_tables tab mx)) bvs lens).
Notation BR f := (f tab s Htab Hwf).
Notation CD f := (f tab s Htab Hwf Hocc Hdist).

Lemma hLOK : forall l, (l < M)%nat -> exists r, nthN bvs (N.of_nat l) = Some r /\ lvl_spec r (Ds l).
Proof. intros l Hl. exact (proj1 (HT l Hl)). Qed.
Lemma hLENS : forall l, (l < M)%nat -> nthN lens (N.of_nat l) = Some (len (Ds l)).
Proof. intros l Hl. exact (proj2 (HT l Hl)). Qed.

Lemma LVs_hwm l0 n : map Ds (seq l0 n) = hwm_levels N 2 dig clen l0 n s.
Proof. symmetry. apply (hwm_levels_map 2 dig clen s n l0). Qed.

Lemma len_le_mx x c : In x s -> code_facts tab x c -> pc_len c <= mx.
Proof.
  intros Hx [H1 _ _ _]. apply In_maxN. apply in_map.
  rewrite (BR sym_index_in x Hx) in H1. exact (nthN_In _ _ _ H1).
Qed.

Lemma clen_le_M x : In x s -> (clen x <= M)%nat.
Proof.
  intros Hx. destruct (BR in_seq_code x Hx) as (c & HFc).
  pose proof (len_le_mx x c Hx HFc) as H. destruct HFc as [H1 _ _ _].
  rewrite (clen_eq tab x c H1). lia.
Qed.

Lemma in_dec_s c : {In c s} + {~ In c s}.
Proof. apply in_dec, N.eq_dec. Qed.

(* the validity test *)
Lemma valid_in c code : In c s -> code_facts tab c code ->
  wt_valid true t c = Val (Some (pc_content code, pc_len code)).
Proof.
  intros Hc [H1 H2 H3 H5]. unfold wt_valid. cbn [w_codes ounwrap bind].
  pose proof (BR sym_index_in c Hc) as E. rewrite E in H1. rewrite E.
  pose proof (nthN_some_lt _ _ _ H1) as Hlt.
  rewrite N.eqb_refl. cbn [negb orb]. destruct (N.leb_spec (len tab) c); [lia|].
  unfold idx. rewrite H1. cbn [bind]. destruct (N.eqb_spec (pc_len code) 0); [lia|reflexivity].
Qed.

Lemma valid_notin c : ~ In c s -> wt_valid true t c = Val None.
Proof.
  intros Hc. unfold wt_valid. cbn [w_codes ounwrap bind].
  destruct (N.eqb_spec (sym_index c) c) as [E|E]; cbn [negb orb]; [|reflexivity]. rewrite E.
  destruct (N.leb_spec (len tab) c) as [Hle|Hlt]; [reflexivity|].
  destruct (nthN_lt_some tab c Hlt) as (cd & Ecd). unfold idx. rewrite Ecd. cbn [bind].
  destruct (N.eqb_spec (pc_len cd) 0) as [|Hne]; [reflexivity|].
  exfalso. exact (Hc (Hocc c cd Ecd Hne)).
Qed.

(* the bit of the queried symbol *)
Lemma hBIT c code : code_facts tab c code -> forall l, (l < clen c)%nat ->
  wt_bit_at w true c (pc_content code) (pc_len code) (N.of_nat l) = Val (dig l c =? 1) /\ dig l c < 2.
Proof.
  intros HFc l Hl. split; [|apply dig_lt2].
  destruct (BR clen_len c code HFc) as [HL _]. destruct HFc as [H1 H2 H3 H5].
  unfold wt_bit_at, osub. destruct (N.leb_spec (N.of_nat l + 1) (pc_len code)); [|lia]. cbn [bind].
  unfold oshr. destruct (N.ltb_spec (pc_len code - (N.of_nat l + 1)) 32); [|lia]. cbn [bind].
  now rewrite (dig_eq tab c code l H1).
Qed.

(* ---------- rank ---------- *)
Lemma rank_bounds c i m : In c s -> i <= len s -> (m < clen c)%nat ->
  fst (rank_walk (map Ds (seq 0 m)) (map (fun l => dig l c) (seq 0 m)) 0 i) <= len (Ds (0 + m)%nat) /\
  snd (rank_walk (map Ds (seq 0 m)) (map (fun l => dig l c) (seq 0 m)) 0 i) <= len (Ds (0 + m)%nat).
Proof.
  intros Hc Hi Hm. cbn [Nat.add]. rewrite LVs_hwm, hDs_len.
  change (map (fun l => dig l c) (seq 0 m)) with (digits_of N dig 0 m c).
  pose proof (hwm_rank_prefix N 2 dig (dig_lt tab) clen s c (wm_ok_cont N 2 dig clen s c Hok Hc)
                (BR clen_pos c Hc) m i Hm Hi) as H. cbv zeta in H. lia.
Qed.

Lemma hwt_rank_unchecked_ok c i : In c s -> i <= len s ->
  wt_rank_unchecked w true t c i = Val (rank_spec s c i).
Proof.
  intros Hc Hi. destruct (BR in_seq_code c Hc) as (code & HFc). pose proof HFc as [H1 H2 H3 H5].
  unfold wt_rank_unchecked. cbn [w_codes w_bvs ounwrap bind]. unfold idx. rewrite H1. cbn [bind].
  rewrite <- (clen_eq tab c code H1).
  pose proof (wt_rank_walk_ok w bvs Ds M hLOK true c (pc_content code) (pc_len code) (fun l => dig l c)
                (clen c) (clen_le_M c Hc) (hBIT c code HFc) (clen c) 0%nat 0 i (le_n _)
                (fun m Hm => rank_bounds c i m Hc Hi Hm)) as W.
  change (N.of_nat 0) with 0 in W. rewrite W. clear W. cbn [bind].
  rewrite LVs_hwm. change (map (fun l => dig l c) (seq 0 (clen c))) with (digits_of N dig 0 (clen c) c).
  pose proof (hwm_rank_correct N 2 dig (dig_lt tab) clen s c i Hok Hc (BR clen_pos c Hc) Hi) as R.
  cbv zeta in R. destruct (rank_walk _ _ 0 i) as [p' i']. cbn [fst snd] in R.
  destruct R as (R1 & R2 & R3). unfold osub. destruct (N.leb_spec p' i'); [|lia].
  rewrite R3, (CD filter_same_code c (firstnN i s) Hc), rank_spec_rk; [reflexivity|].
  intros x Hx. rewrite <- (firstnN_skipnN s i). apply in_or_app. now left.
Qed.

(* ---------- get ---------- *)
Lemma hwt_get_unchecked_ok i x : nthN s i = Some x -> wt_get_unchecked w true t i = Val x.
Proof.
  intros Hi. assert (Hx : In x s) by exact (nthN_In _ _ _ Hi).
  destruct (BR in_seq_code x Hx) as (c & HFc). pose proof HFc as [H1 H2 H3 H5].
  destruct (BR clen_len x c HFc) as [HL Hcpos].
  unfold wt_get_unchecked. cbn [w_n_levels w_decode].
  pose proof (wt_get_walk_true w bvs Ds M hLOK lens hLENS t eq_refl eq_refl M 0%nat i 0 0 0 (le_n _)) as G.
  change (N.of_nat 0) with 0 in G. rewrite G. clear G. cbn [bind ounwrap].
  rewrite LVs_hwm.
  destruct (hwm_get_correct N 2 dig (dig_lt tab) clen M s i x Hok Hi Hcpos (clen_le_M x Hx)) as [Gw _].
  rewrite Gw, (CD acc_fold_full x c HFc).
  assert (EL : 0 + len (digits_of N dig 0 (clen x) x) = pc_len c).
  { unfold len. rewrite digits_of_length. lia. }
  rewrite EL.
  destruct (CD decode_ok2 x c mx Hx HFc (len_le_mx x c Hx HFc)) as (T & ET & EK).
  unfold idx. rewrite ET. cbn [bind]. rewrite EK. cbn [bind].
  rewrite Forall_forall in HF. specialize (HF x Hx).
  destruct (N.ltb_spec x (2 ^ w)); [reflexivity|lia].
Qed.

(* ---------- select ---------- *)
Lemma hwt_select_in c k : In c s -> wt_select w true t c k = Val (select_spec s c k).
Proof.
  intros Hc. destruct (BR in_seq_code c Hc) as (code & HFc). pose proof HFc as [H1 H2 H3 H5].
  destruct (BR clen_len c code HFc) as [HL Hcpos].
  unfold wt_select. cbn [w_n]. destruct (N.eqb_spec (len s) 0); [lia|].
  rewrite (valid_in c code Hc HFc). cbn [bind w_bvs].
  rewrite <- (clen_eq tab c code H1).
  assert (HB : Forall2 (fun '(b, rb) l => b <= len (Ds l) /\ rb <= b)
            (select_down (map Ds (seq 0 (clen c))) (map (fun l => dig l c) (seq 0 (clen c))) 0)
            (seq 0 (clen c))).
  { rewrite LVs_hwm. change (map (fun l => dig l c) (seq 0 (clen c))) with (digits_of N dig 0 (clen c) c).
    pose proof (hselect_down_bounds N 2 dig (dig_lt tab) clen s c (wm_ok_cont N 2 dig clen s c Hok Hc) Hcpos) as HB.
    revert HB. apply Forall2_imp. intros [b rb] l Hbr. now rewrite hDs_len. }
  pose proof (wt_select_walks_ok w bvs Ds M hLOK true c (pc_content code) (pc_len code) (fun l => dig l c)
                (clen c) (clen_le_M c Hc) (hBIT c code HFc) k HB) as W.
  cbv zeta in W. cbv zeta. rewrite W. clear W HB. f_equal.
  rewrite LVs_hwm. change (map (fun l => dig l c) (seq 0 (clen c))) with (digits_of N dig 0 (clen c) c).
  rewrite (hwm_select_correct N 2 dig (dig_lt tab) clen s c k Hok Hc Hcpos).
  rewrite (select_pred_ext_in (same_code N dig clen c) (fun x => x =? c) s
             (fun x Hx => CD same_code_eq c x Hc Hx)).
  unfold select_spec. now rewrite select_from_pred_eq.
Qed.

Lemma hwt_select_notin c k : ~ In c s -> wt_select w true t c k = Val (select_spec s c k).
Proof.
  intros Hc. unfold wt_select. cbn [w_n]. destruct (N.eqb_spec (len s) 0); [lia|].
  rewrite (valid_notin c Hc). cbn [bind].
  rewrite select_spec_none; [reflexivity|].
  destruct (N.eq_dec (countN c s) 0) as [E|E]; [lia|]. exfalso. apply Hc, countN_pos_In. lia.
Qed.

Lemma hwt_select_ok c k : wt_select w true t c k = Val (select_spec s c k).
Proof. destruct (in_dec_s c) as [Hc|Hc]; [now apply hwt_select_in|now apply hwt_select_notin]. Qed.

Lemma hwt_rank_ok c i :
  wt_rank w true t c i =
  Val (if (i <=? len s) && (0 <? countN c s) then Some (rank_spec s c i) else None).
Proof.
  unfold wt_rank. cbn [w_n]. destruct (N.eqb_spec (len s) 0); [lia|]. cbn [orb].
  destruct (N.ltb_spec (len s) i) as [Hgt|Hle]; destruct (N.leb_spec i (len s)) as [Hle'|Hgt']; try lia;
    [reflexivity|]. cbn [andb].
  destruct (in_dec_s c) as [Hc|Hc].
  - destruct (BR in_seq_code c Hc) as (code & HFc).
    rewrite (valid_in c code Hc HFc). cbn [bind]. rewrite (hwt_rank_unchecked_ok c i Hc Hle). cbn [bind].
    apply countN_pos_In in Hc. destruct (N.ltb_spec 0 (countN c s)); [reflexivity|lia].
  - rewrite (valid_notin c Hc). cbn [bind].
    destruct (N.ltb_spec 0 (countN c s)) as [Hp|]; [|reflexivity].
    apply countN_pos_In in Hp. contradiction.
Qed.

Lemma hwt_get_ok i : wt_get w true t i = Val (nthN s i).
Proof.
  unfold wt_get. cbn [w_n]. destruct (N.leb_spec (len s) i) as [Hle|Hlt].
  - now rewrite nthN_none.
  - destruct (nthN_lt_some s i Hlt) as (x & Hx). rewrite (hwt_get_unchecked_ok i x Hx), Hx. reflexivity.
Qed.

End HMain.

(* a symbol with a longest code exists: the levels 0 .. max_len-1 are not empty *)
Lemma xmax_exists tab s : s <> [] -> len tab < 2 ^ 64 ->
  (forall x, In x s -> exists c, nthN tab x = Some c /\ code_wf 1 c = true) ->
  (forall x c, nthN tab x = Some c -> pc_len c <> 0 -> In x s) ->
  exists xm, In xm s /\ code_clen 1 tab xm = N.to_nat (maxN (map pc_len tab)).
Proof.
  intros Hne Htab Hwf Hocc. destruct s as [|x0 s']; [congruence|].
  assert (Hx0 : In x0 (x0 :: s')) by now left.
  destruct (in_seq_code tab _ Htab Hwf x0 Hx0) as (c0 & [H1 H2 H3 H5]).
  rewrite (sym_index_in tab _ Htab Hwf x0 Hx0) in H1.
  assert (Hne' : map pc_len tab <> []).
  { destruct tab; [discriminate H1|discriminate]. }
  pose proof (maxN_in _ Hne') as Hin. apply in_map_iff in Hin as (cm & Ecm & Hcm).
  apply In_nth_error in Hcm as (j & Ej).
  assert (Ej' : nthN tab (N.of_nat j) = Some cm) by (rewrite nthN_nth_error, Nnat.Nat2N.id; exact Ej).
  pose proof (In_maxN (pc_len c0) (map pc_len tab) (in_map pc_len _ _ (nthN_In _ _ _ H1))) as Hge.
  assert (Hnz : pc_len cm <> 0) by lia.
  exists (N.of_nat j). split; [exact (Hocc _ _ Ej' Hnz)|].
  pose proof (nthN_some_lt _ _ _ Ej') as Hlt.
  assert (Es : sym_index (N.of_nat j) = N.of_nat j) by (unfold sym_index; apply N.mod_small; lia).
  rewrite <- Es in Ej'. rewrite (clen_eq tab _ cm Ej'), Ecm. reflexivity.
Qed.
