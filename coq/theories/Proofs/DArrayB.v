(* darray: the construction invariant of inv_loop / flush_block (Model/DArrayM.v) over an
   arbitrary non-decreasing list of positions P.  No hypotheses are needed here. *)
From Coq Require Import ZArith Lia ZifyBool ZifyN ZifyNat.
From QwtModel Require Import ListX Consts Words BitVec RSBin DArrayM Seq ListXP DArrayL.
Ltac Zify.zify_post_hook ::= Z.div_mod_to_equations.
Arguments N.add : simpl never.
Arguments N.sub : simpl never.
Arguments N.mul : simpl never.
Arguments N.eqb : simpl never.
Arguments N.ltb : simpl never.
Arguments N.leb : simpl never.
Arguments N.pred : simpl never.
Arguments N.of_nat : simpl never.
Arguments N.to_nat : simpl never.
Arguments N.land : simpl never.
Arguments N.lor : simpl never.
Arguments N.lxor : simpl never.
Arguments N.shiftr : simpl never.
Arguments N.shiftl : simpl never.
Arguments N.div : simpl never.
Arguments N.modulo : simpl never.
Arguments N.pow : simpl never.
Arguments N.testbit : simpl never.
Arguments Z.of_N : simpl never.
Arguments Z.to_N : simpl never.
Arguments Z.sub : simpl never.
Arguments Z.opp : simpl never.
Arguments Z.ltb : simpl never.

Lemma DA_BLOCK_val : DA_BLOCK = 1024. Proof. reflexivity. Qed.
Lemma DA_SUBBLOCK_val : DA_SUBBLOCK = 32. Proof. reflexivity. Qed.
Lemma DA_MAX_DIST_val : DA_MAX_DIST = 65536. Proof. reflexivity. Qed.

Lemma nthZ_nthN l : forall i, nthZ l i = nthN l i.
Proof.
  induction l as [|x l IH]; intros i; cbn [nthZ nthN]; [reflexivity|].
  destruct (i =? 0); [reflexivity|apply IH].
Qed.

(* non-decreasing *)
Definition mono (P : list N) : Prop :=
  forall a b x y, a <= b -> nthN P a = Some x -> nthN P b = Some y -> x <= y.

(* what select needs to know about occurrence number i: either its block is sparse and the
   overflow table holds its position, or its block is dense and the sub-block entry gives the
   position of occurrence number 32 * (i / 32) *)
Definition sel_ok (P : list N) (blk : list Z) (sub ovf : list N) (i : N) : Prop :=
  (exists o p, nthZ blk (i / 1024) = Some (- Z.of_N o - 1)%Z /\ nthN P i = Some p /\
               nthN ovf (o + i mod 1024) = Some p)
  \/ (exists first sb p, nthZ blk (i / 1024) = Some (Z.of_N first) /\ nthN sub (i / 32) = Some sb /\
               nthN P (32 * (i / 32)) = Some p /\ first + sb = p).

(* state of the construction (vectors reversed) after m positions have been flushed *)
Definition st_inv (P : list N) (m : N) (st : list Z * list N * list N) : Prop :=
  let '(blkr, subr, ovfr) := st in
  len blkr = (m + 1023) / 1024 /\ len subr = (m + 31) / 32 /\
  forall i, i < m -> sel_ok P (rev blkr) (rev subr) (rev ovfr) i.

Lemma sel_ok_app P blk sub ovf b' s' o' i :
  sel_ok P blk sub ovf i -> sel_ok P (blk ++ b') (sub ++ s') (ovf ++ o') i.
Proof.
  intros [(o & p & H1 & H2 & H3)|(first & sb & p & H1 & H2 & H3 & H4)]; [left|right].
  - exists o, p. rewrite nthZ_nthN in *. repeat split; auto using nthN_app_some.
  - exists first, sb, p. rewrite nthZ_nthN in *. repeat split; auto using nthN_app_some.
Qed.

(* ------------------------------------------------------------------ step_by, last *)
Lemma nthN_skipn {A} (l : list A) k x : nthN (skipn k l) x = nthN l (N.of_nat k + x).
Proof.
  pose proof (skipnN_skipn l (N.of_nat k)) as E. rewrite Nnat.Nat2N.id in E.
  rewrite <- E. apply nthN_skipnN.
Qed.

Lemma nthN_step_by kN : 0 < kN -> forall fuel l j, (length l <= fuel)%nat ->
  nthN (step_by (N.to_nat kN) l fuel) j = nthN l (kN * j).
Proof.
  intros Hk. induction fuel as [|f IH]; intros l j Hl; cbn [step_by].
  - destruct l; [reflexivity|cbn [length] in Hl; lia].
  - destruct l as [|x l']; [reflexivity|].
    destruct (N.eqb_spec j 0) as [->|Hj].
    + rewrite N.mul_0_r. reflexivity.
    + set (j' := j - 1). replace j with (j' + 1) by lia. rewrite nthN_succ, IH.
      * rewrite nthN_skipn. rewrite Nnat.N2Nat.id. f_equal. lia.
      * rewrite skipn_length. cbn [length] in *. lia.
Qed.

Lemma len_step_by32 (l : list N) : len (step_by (N.to_nat 32) l (length l)) = (len l + 31) / 32.
Proof.
  apply len_by_nthN; intros j Hj; rewrite nthN_step_by by lia.
  - destruct (nthN_lt_some l (32 * j)) as (a & ->); [lia|discriminate].
  - apply nthN_none. lia.
Qed.

Lemma nthN_last (l : list N) d : l <> [] -> nthN l (len l - 1) = Some (last l d).
Proof.
  intros H. destruct (exists_last H) as (l' & x & ->). rewrite last_last. lens.
  replace (len l' + (0 + 1) - 1) with (len l') by lia. apply nthN_snoc.
Qed.

(* ------------------------------------------------------------------ flush_block *)
Lemma flush_block_eq curr first blkr subr ovfr : nthN curr 0 = Some first ->
  flush_block curr (blkr, subr, ovfr) =
  let! d := osub (last curr 0) first in
  if d <? DA_MAX_DIST then
    Val (Z.of_N first :: blkr,
         rev (map (fun p => (p - first) mod 2 ^ 16) (step_by (N.to_nat DA_SUBBLOCK) curr (length curr))) ++ subr,
         ovfr)
  else
    Val ((- Z.of_N (len ovfr) - 1)%Z :: blkr,
         repeat (2 ^ 16 - 1) (N.to_nat ((len curr + DA_SUBBLOCK - 1) / DA_SUBBLOCK)) ++ subr,
         rev curr ++ ovfr).
Proof.
  destruct curr as [|x c]; [discriminate|]. rewrite nthN_0. intros E. injection E as ->. reflexivity.
Qed.

Lemma flush_inv P done curr rest st :
  P = done ++ curr ++ rest -> len done mod 1024 = 0 -> len curr <= 1024 -> mono P ->
  st_inv P (len done) st ->
  exists st', flush_block curr st = Val st' /\ st_inv P (len done + len curr) st'.
Proof.
  intros HP Hm Hlc Hmono Hinv.
  destruct (N.eqb_spec (len curr) 0) as [Hz|Hnz].
  { apply len_0_nil in Hz. subst curr. exists st. split.
    - destruct st as ((b, s), o). reflexivity.
    - rewrite len_nil, N.add_0_r. exact Hinv. }
  destruct st as ((blkr, subr), ovfr). destruct Hinv as (Hlb & Hls & Hsel).
  set (m := len done) in *. set (lc := len curr) in *.
  assert (Hcurr : forall r, r < lc -> nthN P (m + r) = nthN curr r).
  { intros r Hr. rewrite HP. rewrite nthN_app2 by (fold m; lia). fold m.
    replace (m + r - m) with r by lia. apply nthN_app1. exact Hr. }
  destruct (nthN_lt_some curr 0) as (first & Hfirst); [fold lc; lia|].
  assert (Hne : curr <> []) by (intros ->; discriminate).
  pose proof (nthN_last curr 0 Hne) as Hlast. fold lc in Hlast.
  set (lst := last curr 0) in *.
  assert (HPfirst : nthN P m = Some first).
  { rewrite <- Hfirst, <- (Hcurr 0) by lia. f_equal. lia. }
  assert (HPlast : nthN P (m + (lc - 1)) = Some lst).
  { rewrite <- Hlast. apply Hcurr. lia. }
  assert (Hfl : first <= lst).
  { apply (Hmono m (m + (lc - 1)) first lst); [lia|assumption|assumption]. }
  rewrite (flush_block_eq curr first) by exact Hfirst.
  fold lst. unfold osub. replace (first <=? lst) with true by lia. cbn [bind].
  rewrite DA_MAX_DIST_val, DA_SUBBLOCK_val.
  assert (Hm32 : m mod 32 = 0) by lia.
  destruct (N.ltb_spec (lst - first) 65536) as [Hd|Hd].
  - (* dense *)
    eexists. split; [reflexivity|].
    set (f := fun p => (p - first) mod 2 ^ 16).
    set (subs := map f (step_by (N.to_nat 32) curr (length curr))).
    assert (Hlsubs : len subs = (lc + 31) / 32).
    { unfold subs. rewrite len_map. apply len_step_by32. }
    unfold st_inv. split; [|split].
    + lens. rewrite Hlb. lia.
    + lens. rewrite len_rev, Hlsubs, Hls. lia.
    + intros i Hi. cbn [rev]. rewrite rev_app_distr, rev_involutive.
      destruct (N.ltb_spec i m) as [Him|Him].
      * rewrite <- (app_nil_r (rev ovfr)). apply sel_ok_app. apply Hsel. exact Him.
      * right. set (j := (i - m) / 32).
        assert (Hj : 32 * j < lc) by lia.
        destruct (nthN_lt_some curr (32 * j) Hj) as (p & Hp).
        exists first, (f p), p. split; [|split; [|split]].
        -- rewrite nthZ_nthN. replace (i / 1024) with (len (rev blkr)) by (rewrite len_rev; lia).
           apply nthN_snoc.
        -- rewrite nthN_app2 by (rewrite len_rev; lia). rewrite len_rev.
           replace (i / 32 - len subr) with j by lia.
           unfold subs. rewrite nthN_map, nthN_step_by by lia. rewrite Hp. reflexivity.
        -- replace (32 * (i / 32)) with (m + 32 * j) by lia. rewrite Hcurr by exact Hj. exact Hp.
        -- assert (HPp : nthN P (m + 32 * j) = Some p) by (rewrite Hcurr by exact Hj; exact Hp).
           assert (first <= p) by (apply (Hmono m (m + 32 * j) first p); [lia|assumption|assumption]).
           assert (p <= lst) by (apply (Hmono (m + 32 * j) (m + (lc - 1)) p lst); [lia|assumption|assumption]).
           unfold f. change (2 ^ 16) with 65536. rewrite N.mod_small by lia. lia.
  - (* sparse *)
    eexists. split; [reflexivity|].
    unfold st_inv. split; [|split].
    + lens. rewrite Hlb. lia.
    + lens. rewrite len_repeat, Nnat.N2Nat.id, Hls. fold lc. lia.
    + intros i Hi. cbn [rev]. rewrite !rev_app_distr, rev_involutive.
      destruct (N.ltb_spec i m) as [Him|Him].
      * apply sel_ok_app. apply Hsel. exact Him.
      * left. assert (Hr : i - m < lc) by lia.
        destruct (nthN_lt_some curr (i - m) Hr) as (p & Hp).
        exists (len ovfr), p. split; [|split].
        -- rewrite nthZ_nthN. replace (i / 1024) with (len (rev blkr)) by (rewrite len_rev; lia).
           apply nthN_snoc.
        -- replace i with (m + (i - m)) by lia. rewrite Hcurr by exact Hr. exact Hp.
        -- rewrite nthN_app2 by (rewrite len_rev; lia). rewrite len_rev.
           replace (len ovfr + i mod 1024 - len ovfr) with (i - m) by lia. exact Hp.
Qed.

(* ------------------------------------------------------------------ inv_loop *)
Lemma inv_loop_partial : forall c cr nc st n r, nc = len cr -> len cr + len c < 1024 ->
  inv_loop (c ++ r) cr nc st n = inv_loop r (rev c ++ cr) (nc + len c) st (n + len c).
Proof.
  induction c as [|x c IH]; intros cr nc st n r Hnc Hl.
  - cbn [app rev]. rewrite len_nil, !N.add_0_r. reflexivity.
  - rewrite len_cons in Hl. cbn [app inv_loop]. rewrite DA_BLOCK_val.
    replace (nc + 1 =? 1024) with false by lia.
    rewrite IH by (rewrite ?len_cons; lia).
    cbn [rev]. rewrite <- app_assoc. cbn [app]. rewrite len_cons. f_equal; lia.
Qed.

Lemma inv_loop_full c x r st n : len c = 1023 ->
  inv_loop (c ++ x :: r) [] 0 st n =
  let! st' := flush_block (c ++ [x]) st in inv_loop r [] 0 st' (n + 1024).
Proof.
  intros Hc. rewrite inv_loop_partial by (lens; lia).
  cbn [inv_loop]. rewrite DA_BLOCK_val, Hc. replace (0 + 1023 + 1 =? 1024) with true by lia.
  rewrite app_nil_r. cbn [rev]. rewrite rev_involutive.
  replace (n + 1023 + 1) with (n + 1024) by lia. reflexivity.
Qed.

Lemma inv_loop_inv P : mono P -> forall k todo, (length todo <= k)%nat ->
  forall done st n, P = done ++ todo -> len done mod 1024 = 0 -> st_inv P (len done) st ->
  exists cr st' done', inv_loop todo [] 0 st n = Val (cr, st', n + len todo) /\
    P = done' ++ rev cr /\ len done' mod 1024 = 0 /\ len cr <= 1024 /\ st_inv P (len done') st'.
Proof.
  intros Hmono. induction k as [|k IH]; intros todo Hk done st n HP Hm Hinv.
  - destruct todo; [|cbn [length] in Hk; lia].
    exists [], st, done. cbn [inv_loop rev]. rewrite len_nil, N.add_0_r. repeat split; auto. lia.
  - destruct (N.ltb_spec (len todo) 1024) as [Hlt|Hge].
    + exists (rev todo), st, done.
      rewrite <- (app_nil_r todo) at 1. rewrite inv_loop_partial by (lens; lia).
      cbn [inv_loop]. rewrite app_nil_r, rev_involutive, len_rev. repeat split; auto. lia.
    + set (c := firstnN 1023 todo).
      assert (Hc : len c = 1023) by (apply len_firstnN_le; lia).
      destruct (skipnN 1023 todo) as [|x r] eqn:Es.
      { pose proof (len_skipnN todo 1023) as E. rewrite Es, len_nil in E. lia. }
      assert (Et : todo = c ++ x :: r) by (rewrite <- Es; symmetry; apply firstnN_skipnN_id).
      assert (Hlt : len todo = 1023 + (len r + 1)) by (rewrite Et, len_app, len_cons; lia).
      rewrite Et. rewrite inv_loop_full by exact Hc.
      destruct (flush_inv P done (c ++ [x]) r st) as (st1 & E1 & Hinv1); auto.
      { rewrite HP, Et, <- app_assoc. reflexivity. }
      { rewrite len_app, len_cons, len_nil. lia. }
      rewrite E1. cbn [bind].
      assert (Hl1 : len (c ++ [x]) = 1024) by (rewrite len_app, len_cons, len_nil; lia).
      destruct (IH r) with (done := done ++ c ++ [x]) (st := st1) (n := n + 1024)
        as (cr & st' & done' & E2 & HP' & Hm' & Hcr & Hinv').
      * unfold len in Hlt. lia.
      * rewrite HP, Et, <- !app_assoc. reflexivity.
      * rewrite len_app, Hl1. lia.
      * rewrite len_app. exact Hinv1.
      * exists cr, st', done'. rewrite E2. rewrite <- Et, Hlt. repeat split; auto.
        do 2 f_equal. lia.
Qed.

(* the whole construction, as performed by inv_new on the list of positions *)
Lemma inv_build P : mono P ->
  exists blk sub ovf,
    (let! (curr_rev, st, n_sets) := inv_loop P [] 0 ([], [], []) 0 in
     let! (blk, sub, ovf) := flush_block (rev curr_rev) st in
     Val {| inv_n_sets := n_sets; inv_block := rev blk; inv_sub := rev sub; inv_overflow := rev ovf |})
    = Val (mk_inv (len P) blk sub ovf) /\
    forall i, i < len P -> sel_ok P blk sub ovf i.
Proof.
  intros Hmono.
  destruct (inv_loop_inv P Hmono (length P) P (le_n _) [] ([], [], []) 0)
    as (cr & st' & done' & E & HP & Hm & Hcr & Hinv).
  - reflexivity.
  - reflexivity.
  - unfold st_inv. split; [reflexivity|split; [reflexivity|]]. intros i Hi. change (len (@nil N)) with 0 in Hi. lia.
  - rewrite E. cbn [bind].
    destruct (flush_inv P done' (rev cr) [] st') as (st2 & E2 & Hinv2); auto.
    + rewrite app_nil_r. exact HP.
    + rewrite len_rev. exact Hcr.
    + rewrite E2. cbn [bind]. destruct st2 as ((blkr, subr), ovfr).
      exists (rev blkr), (rev subr), (rev ovfr). split.
      * rewrite N.add_0_l. reflexivity.
      * destruct Hinv2 as (_ & _ & Hsel). intros i Hi. apply Hsel.
        rewrite HP, len_app in Hi. exact Hi.
Qed.
