(* T5: the constructor of the plain binary wavelet tree, REGENERATED from the Rust source
   (tools/gen_fns.py -> Gen/FnsWtnew.v: `WaveletTree::<T, RSWide, false>::new(sequence: &mut [T])`, function g_wt_new)
   agrees with the hand-written builder `wt_build w false seq []` of Model/Huff.v, and, composed with the regenerated
   queries of Gen/FnsWt.v, answers like the list specification.

   Contents
     (0) g_stable_partition_of_2_ok     the regenerated utils::stable_partition_of_2 EQUALS the hand model (faults
                                        included) on every slice shorter than 2^64; C17_partition2 / _contract for it
     (1) g_wt_new_sim                   simulation of the constructor: every field of the regenerated result is the
                                        corresponding projection of the hand-built tree
     (2) g_wt_new_correct               end to end: regenerated constructor + regenerated queries = list specification
   `g_msb` (utils::msb, generic in T) is proved by somebody else in parallel: it is taken as a Section hypothesis
   (H_msb) and becomes an explicit premise of (1) and (2) when the Section is closed. *)
From Coq Require Import ZArith Lia ZifyBool ZifyN ZifyNat Permutation Sorted.
From QwtModel Require Import ListX Loops Seq Consts SelTable Words BitVec RSBin QWT Huff ListXP.
From QwtModel Require Import LeavesLib FnsUtils FnsBv FnsBvm FnsRsw2 FnsWt FnsWtnew.
From QwtModel Require Import FnsBvmOk FnsNewOk FnsWtOk.
From QwtModel Require RSBinB BitVecP BinFinalP RSQBuild QWTArith BinWTP WrapP UtilsP C03 FnsRsw2Ok WordsP LeavesUtilsOk.
Open Scope N_scope.
Ltac Zify.zify_post_hook ::= Z.div_mod_to_equations.
Arguments N.add : simpl never.
Arguments N.sub : simpl never.
Arguments N.mul : simpl never.
Arguments N.eqb : simpl never.
Arguments N.ltb : simpl never.
Arguments N.leb : simpl never.
Arguments N.pred : simpl never.
Arguments N.of_nat : simpl never.
Arguments N.land : simpl never.
Arguments N.lor : simpl never.
Arguments N.lxor : simpl never.
Arguments N.shiftr : simpl never.
Arguments N.shiftl : simpl never.
Arguments N.testbit : simpl never.
Arguments N.div : simpl never.
Arguments N.modulo : simpl never.
Arguments N.pow : simpl never.
Arguments N.ones : simpl never.

(* ================================================================== helpers *)
Lemma bindV {A B} (x : outcome A) (f : A -> outcome B) v :
  bind x f = Val v -> exists a, x = Val a /\ f a = Val v.
Proof. destruct x as [a|]; cbn [bind]; intros H; [now exists a|discriminate]. Qed.
Ltac bnv H a E := apply bindV in H; destruct H as (a & E & H).

Lemma oadd_ok' w a b : a + b < 2 ^ w -> oadd w a b = Val (a + b).
Proof. intros H. unfold oadd. destruct (N.ltb_spec (a + b) (2 ^ w)); [reflexivity|lia]. Qed.

Lemma skipnN_all {A} (l : list A) n : len l <= n -> skipnN n l = [].
Proof. intros H. rewrite skipnN_skipn. apply skipn_all2. unfold len in H. lia. Qed.

Lemma skipnN_len {A} (l : list A) n : len (skipnN n l) = len l - n.
Proof. rewrite skipnN_skipn. unfold len. rewrite skipn_length. lia. Qed.

Lemma firstnN_0 {A} (l : list A) : firstnN 0 l = [].
Proof. rewrite firstnN_firstn. reflexivity. Qed.

Lemma copy_into_ok {A} (dst : list A) a b src : a <= b -> b <= len dst -> len src = b - a ->
  copy_into dst a b src = Val (firstnN a dst ++ src ++ skipnN b dst).
Proof.
  intros H1 H2 H3. unfold copy_into.
  replace ((a <=? b) && (b <=? len dst) && (len src =? b - a)) with true by lia. reflexivity.
Qed.

(* ================================================================== (0) stable_partition_of_2 *)
(* the two groups of the hand model *)
Definition pick2 (d : N) (ds seq : list N) : list N :=
  map snd (filter (fun p => fst p =? d) (combine ds seq)).

Definition part_body (wT shift : N) : N -> list (list N) -> outcome (step (list (list N)) (list N)) :=
  fun a vecs =>
      let! t1 := oshr wT a shift in
      let bit := N.land (t1 mod 2 ^ 64) 1 in
      let! vecs := push_at vecs bit a in
      Val (Next vecs).

Lemma part_loop wT shift : forall seq a b,
  iter_loop (part_body wT shift) seq [a; b] =
  (let! ds := mapo (fun x => one_bit wT x shift) seq in
   Val (Done [a ++ pick2 0 ds seq; b ++ pick2 1 ds seq])).
Proof.
  induction seq as [|x seq IH]; intros a b; cbn [iter_loop mapo bind].
  - unfold pick2. cbn [combine filter map]. rewrite !app_nil_r. reflexivity.
  - unfold part_body at 1, one_bit at 1.
    destruct (oshr wT x shift) as [y|f]; cbn [bind]; [|reflexivity]. cbv zeta.
    destruct (land1_cases (y mod 2 ^ 64)) as [Hb | Hb]; rewrite Hb.
    + rewrite push_at_0. cbn [bind]. rewrite IH.
      destruct (mapo (fun x0 => one_bit wT x0 shift) seq) as [ds|f]; cbn [bind]; [|reflexivity].
      unfold pick2. cbn [combine filter fst snd map].
      change (0 =? 0) with true. change (0 =? 1) with false. cbv iota. cbn [map snd].
      rewrite <- app_assoc. reflexivity.
    + rewrite push_at_1. cbn [bind]. rewrite IH.
      destruct (mapo (fun x0 => one_bit wT x0 shift) seq) as [ds|f]; cbn [bind]; [|reflexivity].
      unfold pick2. cbn [combine filter fst snd map].
      change (1 =? 1) with true. change (1 =? 0) with false. cbv iota. cbn [map snd].
      rewrite <- app_assoc. reflexivity.
Qed.

Lemma pick2_len wT shift : forall seq ds, mapo (fun x => one_bit wT x shift) seq = Val ds ->
  len (pick2 0 ds seq) + len (pick2 1 ds seq) = len seq.
Proof.
  induction seq as [|x seq IH]; intros ds E; cbn [mapo] in E.
  - apply Val_inj in E. subst ds. reflexivity.
  - bnv E d Ed. bnv E ds' Eds. apply Val_inj in E. subst ds.
    specialize (IH _ Eds). unfold one_bit in Ed. bnv Ed y Ey. apply Val_inj in Ed.
    unfold pick2 in *. cbn [combine filter fst snd map].
    destruct (land1_cases (y mod 2 ^ 64)) as [Hb | Hb]; rewrite Hb in Ed; subst d.
    + change (0 =? 0) with true. change (0 =? 1) with false. cbv iota. cbn [map]. rewrite !len_cons. lia.
    + change (1 =? 1) with true. change (1 =? 0) with false. cbv iota. cbn [map]. rewrite !len_cons. lia.
Qed.

(* EQUALITY, faults included (a shift amount >= the width of T is Fault Overflow on the first element on both
   sides); `len seq < 2^64` (any slice) keeps the usize additions `pos + vecs[i].len()` in range *)
Theorem g_stable_partition_of_2_ok : forall wT seq shift, len seq < 2 ^ 64 ->
  g_stable_partition_of_2 wT seq shift = stable_partition_of_2 wT seq shift.
Proof.
  intros wT seq shift Hl. unfold g_stable_partition_of_2, stable_partition_of_2.
  change (iter_loop _ seq [[]; []]) with (iter_loop (part_body wT shift) seq [[]; []]).
  rewrite part_loop.
  destruct (mapo (fun x => one_bit wT x shift) seq) as [ds|f] eqn:E; cbn [bind]; [|reflexivity].
  pose proof (pick2_len wT shift seq ds E) as Hp.
  cbn [app]. cbv zeta.
  change (map snd (filter (fun p => fst p =? 0) (combine ds seq))) with (pick2 0 ds seq).
  change (map snd (filter (fun p => fst p =? 1) (combine ds seq))) with (pick2 1 ds seq).
  set (v0 := pick2 0 ds seq) in *. set (v1 := pick2 1 ds seq) in *.
  change (N.to_nat (2 - 0)) with 2%nat. cbn [for_loop].
  change (idx [v0; v1] 0) with (Val v0). cbn [bind].
  rewrite (oadd_ok' 64 0 (len v0)) by lia. cbn [bind]. rewrite N.add_0_l.
  rewrite copy_into_ok by lia. cbn [bind].
  change (idx [v0; v1] (0 + 1)) with (Val v1). cbn [bind].
  rewrite (oadd_ok' 64 (len v0) (len v1)) by lia. cbn [bind].
  rewrite firstnN_0. cbn [app].
  rewrite copy_into_ok; [|lia| |].
  - cbn [bind]. rewrite firstnN_app_exact.
    rewrite skipnN_all; [rewrite app_nil_r; reflexivity|].
    rewrite len_app, skipnN_len. lia.
  - rewrite len_app, skipnN_len. lia.
  - lia.
Qed.

(* the statements of C17_partition2 / C17_partition2_contract for the regenerated function *)
Corollary g_stable_partition_of_2_correct : forall w seq shift,
  BinWTP.width_ok w -> shift < w -> Forall (fun x => x < 2 ^ w) seq -> len seq < 2 ^ 64 ->
  g_stable_partition_of_2 w seq shift =
  Val (filter (fun x => (x / 2 ^ shift) mod 2 =? 0) seq ++ filter (fun x => (x / 2 ^ shift) mod 2 =? 1) seq).
Proof.
  intros w seq shift Hw Hs HF Hl. rewrite g_stable_partition_of_2_ok by exact Hl.
  now apply BinWTP.stable_partition_of_2_correct.
Qed.

Corollary g_stable_partition_of_2_contract : forall w seq shift,
  BinWTP.width_ok w -> shift < w -> Forall (fun x => x < 2 ^ w) seq -> len seq < 2 ^ 64 ->
  exists out, g_stable_partition_of_2 w seq shift = Val out /\ Permutation seq out /\
    StronglySorted (fun x y => (x / 2 ^ shift) mod 2 <= (y / 2 ^ shift) mod 2) out /\
    forall d, filter (fun x => (x / 2 ^ shift) mod 2 =? d) out = filter (fun x => (x / 2 ^ shift) mod 2 =? d) seq.
Proof.
  intros w seq shift Hw Hs HF Hl. rewrite g_stable_partition_of_2_ok by exact Hl.
  now apply UtilsP.partition2_contract.
Qed.

(* the two conversions are the identity / the constructor *)
Theorem g_bv_from_bvm_ok : forall d n o, g_bv_from_bvm d n o = Val (d, n, o).
Proof. reflexivity. Qed.
Theorem g_rsw_from_ok : forall d n o, g_rsw_from d n o = g_rsw_new d n o.
Proof. reflexivity. Qed.

(* ================================================================== (1) the constructor *)
(* the loop states of the generated code:
     inner loop  (cur_bv.data, cur_bv.n_bits, cur_bv.n_ones)
     outer loop  (lens, bvs[..].bv.data, bvs[..].bv.n_bits, bvs[..].bv.n_ones, bvs[..].superblock_metadata,
                  bvs[..].select_samples, bvs[..].n_zeros, sequence, shift) *)
Definition IS : Type := (list (list N) * N * N)%type.
Definition LS : Type :=
  (list N * list (list (list N)) * list N * list N * list (list N) * list (list (list N)) * list N * list N * N)%type.

Definition inner_body {R} (wT n_levels shift : N) : N -> IS -> outcome (step IS R) :=
  fun s_ '(cur_bv_data, cur_bv_n_bits, cur_bv_n_ones) =>
            let! t2 := osub n_levels shift in
            let! t3 := oshr wT s_ t2 in
            let symbol := N.eqb (N.land (t3 mod 2 ^ 64) 1) 1 in
            let! (cur_bv_data, cur_bv_n_bits, cur_bv_n_ones) := g_bvm_push cur_bv_data cur_bv_n_bits cur_bv_n_ones symbol in
            Val (Next (cur_bv_data, cur_bv_n_bits, cur_bv_n_ones)).

Definition level_body {R} (wT n_levels : N) : N -> LS -> outcome (step LS R) :=
  fun _level '(lens, bvs_bv_data, bvs_bv_n_bits, bvs_bv_n_ones, bvs_superblock_metadata, bvs_select_samples, bvs_n_zeros, sequence, shift) =>
        let! r := iter_loop (inner_body wT n_levels shift) sequence ([], 0, 0) in
        match r with
        | Retd v => Val v
        | Done (cur_bv_data, cur_bv_n_bits, cur_bv_n_ones) =>
            let! (bv_data, bv_n_bits, bv_n_ones) := g_bv_from_bvm cur_bv_data cur_bv_n_bits cur_bv_n_ones in
            let! t4 := g_bv_len bv_n_bits in
            let lens := lens ++ [t4] in
            let! (t5, t6, t7, t8, t9, t10) := g_rsw_from bv_data bv_n_bits bv_n_ones in
            let bvs_bv_data := bvs_bv_data ++ [t5] in
            let bvs_bv_n_bits := bvs_bv_n_bits ++ [t6] in
            let bvs_bv_n_ones := bvs_bv_n_ones ++ [t7] in
            let bvs_superblock_metadata := bvs_superblock_metadata ++ [t8] in
            let bvs_select_samples := bvs_select_samples ++ [t9] in
            let bvs_n_zeros := bvs_n_zeros ++ [t10] in
            let! t11 := osub n_levels shift in
            let! sequence := g_stable_partition_of_2 wT sequence t11 in
            let! shift := oadd 32 shift 1 in
            Val (Next (lens, bvs_bv_data, bvs_bv_n_bits, bvs_bv_n_ones, bvs_superblock_metadata, bvs_select_samples, bvs_n_zeros, sequence, shift))
        end.

Definition WT_RES : Type :=
  (list N * (N * N * option N * option (list N) * option (list N) * option (list (list (N * N))) *
             list (list (list N)) * list N * list N * list (list N) * list (list (list N)) * list N * list N))%type.

Lemma g_wt_new_unfold wT sequence :
  g_wt_new wT sequence =
  if len sequence =? 0 then
    Val (sequence, (0, 0, None, None, None, None, [], [], [], [], [], [], []))
  else
    let! sigma := ounwrap (max_opt sequence) in
    let! t1 := g_msb wT sigma in
    let! log_sigma := oadd 32 t1 1 in
    let! r := for_loop (R := WT_RES) (level_body wT log_sigma) 0 (N.to_nat (log_sigma - 0))
                ([], [], [], [], [], [], [], sequence, 1) in
    match r with
    | Retd v => Val v
    | Done (lens, bvs_bv_data, bvs_bv_n_bits, bvs_bv_n_ones, bvs_superblock_metadata, bvs_select_samples, bvs_n_zeros, sequence, shift) =>
        Val (sequence, (len sequence, log_sigma, Some sigma, None, None, None, bvs_bv_data, bvs_bv_n_bits, bvs_bv_n_ones, bvs_superblock_metadata, bvs_select_samples, bvs_n_zeros, lens))
    end.
Proof. reflexivity. Qed.

(* the bits of one level, as the hand model computes them *)
Definition level_bits (wT n_levels shift : N) (seq : list N) : outcome (list (option bool)) :=
  mapo (fun s => let! sh := osub n_levels shift in
                 let! b := one_bit wT s sh in Val (Some (b =? 1))) seq.
Definition some_bits (bs : list (option bool)) : list bool :=
  flat_map (fun o : option bool => match o with Some d => [d] | None => [] end) bs.

(* the inner loop is the fold of the regenerated push over the bits of the level *)
Lemma inner_loop {R} wT n_levels shift : forall seq bs d nb no,
  level_bits wT n_levels shift seq = Val bs ->
  iter_loop (inner_body (R := R) wT n_levels shift) seq (d, nb, no) =
  (let! s := g_extend_bools d nb no (some_bits bs) in Val (Done s)).
Proof.
  unfold level_bits.
  induction seq as [|x seq IH]; intros bs d nb no E; cbn [mapo] in E.
  - apply Val_inj in E. subst bs. reflexivity.
  - bnv E o Eo. bnv E bs' Ebs. apply Val_inj in E. subst bs.
    bnv Eo sh Esh. unfold one_bit in Eo. bnv Eo b Eb. bnv Eb y Ey. apply Val_inj in Eb. apply Val_inj in Eo. subst o b.
    cbn [iter_loop]. unfold inner_body at 1. rewrite Esh. cbn [bind]. rewrite Ey. cbn [bind]. cbv zeta.
    unfold some_bits. cbn [flat_map app g_extend_bools].
    destruct (g_bvm_push d nb no (N.land (y mod 2 ^ 64) 1 =? 1)) as [[[d' nb'] no']|f]; cbn [bind]; [|reflexivity].
    apply IH. exact Ebs.
Qed.

Lemma p32 : 2 ^ 32 = 4294967296. Proof. reflexivity. Qed.

(* the partition returns a permutation of its input (any shift, any symbols) *)
Lemma pick2_perm wT shift : forall seq ds, mapo (fun x => one_bit wT x shift) seq = Val ds ->
  Permutation seq (pick2 0 ds seq ++ pick2 1 ds seq).
Proof.
  induction seq as [|x seq IH]; intros ds E; cbn [mapo] in E.
  - apply Val_inj in E. subst ds. constructor.
  - bnv E d Ed. bnv E ds' Eds. apply Val_inj in E. subst ds.
    specialize (IH _ Eds). unfold one_bit in Ed. bnv Ed y Ey. apply Val_inj in Ed.
    unfold pick2 in *. cbn [combine filter fst snd map].
    destruct (land1_cases (y mod 2 ^ 64)) as [Hb | Hb]; rewrite Hb in Ed; subst d.
    + change (0 =? 0) with true. change (0 =? 1) with false. cbv iota. cbn [map snd app].
      now apply perm_skip.
    + change (1 =? 1) with true. change (1 =? 0) with false. cbv iota. cbn [map snd].
      now apply Permutation_cons_app.
Qed.

Lemma stable_partition_of_2_perm wT seq sh seq' :
  stable_partition_of_2 wT seq sh = Val seq' -> Permutation seq seq'.
Proof.
  unfold stable_partition_of_2. intros E. bnv E ds Eds. cbv zeta in E. apply Val_inj in E. subst seq'.
  exact (pick2_perm wT sh seq ds Eds).
Qed.

Lemma perm_len {A} (l l' : list A) : Permutation l l' -> len l' = len l.
Proof. intros H. unfold len. now rewrite (Permutation_length H). Qed.

(* a bit vector built from fewer than 2^43 booleans is well formed *)
Lemma from_bools_wf bits bv : len bits < 2 ^ 43 -> bv_from_bools bits = Val bv -> RSBinB.bv_wf bv.
Proof.
  intros Hl Ebv. rewrite p43 in Hl.
  assert (H63 : len bits < 2 ^ 63) by (rewrite p63; lia).
  destruct (BitVecP.bv_from_bools_correct bits H63) as (bv' & E & Hinv & Habs).
  rewrite Ebv in E. apply Val_inj in E. subst bv'.
  assert (Enb : bv_nbits bv = len bits) by (rewrite <- (BitVecP.inv_len bv Hinv), Habs; reflexivity).
  assert (H43 : bv_nbits bv < 2 ^ 43) by (rewrite p43; lia).
  exact (BinFinalP.bv_inv_wf_rs bv Hinv H43).
Qed.

(* one level: bits, BitVector, RSWide, partition, shift + 1 *)
Lemma level_step {R} wT n_levels i L D NB NO M S Z seq shift bs bv r sh seq' :
  level_bits wT n_levels shift seq = Val bs ->
  bv_from_bools (some_bits bs) = Val bv ->
  rsw_new bv = Val r ->
  osub n_levels shift = Val sh ->
  stable_partition_of_2 wT seq sh = Val seq' ->
  len seq < 2 ^ 43 -> shift + 1 < 2 ^ 32 ->
  level_body (R := R) wT n_levels i (L, D, NB, NO, M, S, Z, seq, shift) =
  Val (Next (L ++ [bv_len bv], D ++ [lvl_data r], NB ++ [lvl_nbits r], NO ++ [bv_nones (rsw_bv r)],
             M ++ [rsw_meta r], S ++ [lvl_samples r], Z ++ [rsw_n_zeros r], seq', shift + 1)).
Proof.
  intros Ebs Ebv Er Esh Eseq' Hl Hsh.
  assert (Hbits : len (some_bits bs) < 2 ^ 43).
  { pose proof (WrapP.mapo_len _ _ _ Ebs) as H1. pose proof (WrapP.flat_opt_len bs) as H2.
    unfold some_bits. lia. }
  pose proof (from_bools_wf _ _ Hbits Ebv) as Hwf.
  destruct (FnsRsw2Ok.rsw_new_sizes bv r Hwf Er) as (Hbv & _).
  unfold level_body. rewrite (inner_loop wT n_levels shift seq bs [] 0 0 Ebs).
  assert (G : g_extend_bools [] 0 0 (some_bits bs) = Val (fields bv)).
  { apply (g_extend_bools_sim (some_bits bs) bv_empty bv); [reflexivity|cbn [bv_empty bv_nones bv_nbits]; lia|exact Ebv]. }
  rewrite G. cbn [bind]. unfold fields. cbv beta iota.
  unfold g_bv_from_bvm, g_bv_len, g_rsw_from. cbn [bind].
  rewrite (g_rsw_new_wf bv r Hwf Er). cbn [bind]. rewrite Esh. cbn [bind].
  rewrite g_stable_partition_of_2_ok by (rewrite p43 in Hl; rewrite p64; lia).
  rewrite Eseq'. cbn [bind]. rewrite oadd_ok' by exact Hsh. cbn [bind].
  unfold lvl_data, lvl_nbits, lvl_samples, bv_len. rewrite Hbv. reflexivity.
Qed.

(* the loop over the levels, in lockstep with wt_levels *)
Lemma levels_loop {R} wT n_levels : forall nl i seq shift rs lens L D NB NO M S Z,
  wt_levels wT false seq [] n_levels shift nl = Val (rs, lens) ->
  len seq < 2 ^ 43 -> shift + N.of_nat nl < 2 ^ 32 ->
  exists seq', Permutation seq seq' /\
    for_loop (R := R) (level_body wT n_levels) i nl (L, D, NB, NO, M, S, Z, seq, shift) =
    Val (Done (L ++ lens, D ++ map lvl_data rs, NB ++ map lvl_nbits rs,
               NO ++ map (fun r => bv_nones (rsw_bv r)) rs, M ++ map rsw_meta rs, S ++ map lvl_samples rs,
               Z ++ map rsw_n_zeros rs, seq', shift + N.of_nat nl)).
Proof.
  induction nl as [|k IH]; intros i seq shift rs lens L D NB NO M S Z E Hl Hsh; cbn [wt_levels] in E.
  - apply Val_inj in E. injection E as <- <-. exists seq. split; [apply Permutation_refl|].
    cbn [for_loop map]. rewrite !app_nil_r. replace (shift + N.of_nat 0) with shift by lia. reflexivity.
  - bnv E bs Ebs. cbv zeta in E. bnv E bv Ebv. bnv E r Er. bnv E seq1 Eseq1. bnv Eseq1 sh Esh.
    bnv E p Erest. destruct p as [rest lens']. apply Val_inj in E. injection E as <- <-.
    pose proof (stable_partition_of_2_perm _ _ _ _ Eseq1) as Hp1.
    cbn [for_loop].
    rewrite (level_step wT n_levels i L D NB NO M S Z seq shift bs bv r sh seq1 Ebs Ebv Er Esh Eseq1 Hl ltac:(lia)).
    cbn [bind].
    destruct (IH (i + 1) seq1 (shift + 1) rest lens' (L ++ [bv_len bv]) (D ++ [lvl_data r]) (NB ++ [lvl_nbits r])
                 (NO ++ [bv_nones (rsw_bv r)]) (M ++ [rsw_meta r]) (S ++ [lvl_samples r]) (Z ++ [rsw_n_zeros r])
                 Erest) as (seq2 & Hp2 & Eloop).
    + rewrite (perm_len _ _ Hp1). exact Hl.
    + lia.
    + exists seq2. split; [exact (Permutation_trans Hp1 Hp2)|].
      rewrite Eloop. replace (shift + 1 + N.of_nat k) with (shift + N.of_nat (Datatypes.S k)) by lia.
      cbn [map]. rewrite <- !app_assoc. reflexivity.
Qed.

Lemma fold_max_maxN : forall l x, fold_left N.max l x = N.max x (maxN l).
Proof.
  induction l as [|y l IH]; intros x; cbn [fold_left maxN]; [lia|]. rewrite IH. lia.
Qed.

Section WithMsb.
(* utils::msb, regenerated at a symbolic width: proved in parallel in another file *)
Hypothesis H_msb : forall wT v, (wT = 8 \/ wT = 16 \/ wT = 32 \/ wT = 64 \/ wT = 128) -> v < 2 ^ wT ->
  g_msb wT v = Val (msb v).

(* SIMULATION: whenever the hand builder returns a tree t, the regenerated constructor returns (the permuted
   slice and) exactly the fields of t *)
Theorem g_wt_new_sim : forall wT seq t,
  (wT = 8 \/ wT = 16 \/ wT = 32 \/ wT = 64 \/ wT = 128) -> Forall (fun x => x < 2 ^ wT) seq ->
  len seq < 2 ^ 43 -> wt_build wT false seq [] = Val t ->
  exists seq', Permutation seq seq' /\
    g_wt_new wT seq =
    Val (seq', (w_n t, w_n_levels t, w_sigma t, None, None, None,
                wt_data t, wt_nbits t, map (fun r => bv_nones (rsw_bv r)) (w_bvs t),
                wt_meta t, wt_samples t, wt_nzeros t, w_lens t)).
Proof.
  intros wT seq t Hw HF Hl E. destruct seq as [|x l].
  - cbn [wt_build] in E. apply Val_inj in E. subst t. exists []. split; [constructor|reflexivity].
  - rewrite g_wt_new_unfold. unfold wt_build in E. cbv beta iota zeta in E.
    bnv E p Elv. destruct p as [bvs lens]. apply Val_inj in E. subst t.
    cbn [w_n w_n_levels w_sigma w_bvs w_lens]. unfold wt_data, wt_nbits, wt_meta, wt_samples, wt_nzeros. cbn [w_bvs].
    set (s := x :: l) in *.
    replace (len s =? 0) with false by (unfold s; rewrite len_cons; lia).
    assert (Emax : max_opt s = Some (maxN s)) by (unfold s; cbn [max_opt maxN]; now rewrite fold_max_maxN).
    rewrite Emax. cbn [ounwrap bind].
    destruct (width_gt1 wT Hw) as (H1 & H0 & H128).
    assert (Hpow : 0 < 2 ^ wT) by (apply N.neq_0_lt_0, N.pow_nonzero; lia).
    pose proof (QWTArith.maxN_lt s (2 ^ wT) Hpow HF) as Hmax.
    pose proof (QWTArith.msb_lt _ _ H0 Hmax) as Hmsb.
    rewrite (H_msb wT (maxN s) Hw Hmax). cbn [bind].
    rewrite oadd_ok' by (rewrite p32; lia). cbn [bind]. rewrite N.sub_0_r.
    destruct (levels_loop (R := WT_RES) wT (msb (maxN s) + 1) (N.to_nat (msb (maxN s) + 1)) 0 s 1 bvs lens
                [] [] [] [] [] [] [] Elv Hl ltac:(rewrite p32; lia)) as (seq' & Hp & Eloop).
    rewrite Eloop. cbn [bind app]. exists seq'. split; [exact Hp|].
    rewrite (perm_len _ _ Hp). reflexivity.
Qed.

(* END TO END: the regenerated constructor followed by the regenerated queries is the list specification
   (no hand-model function in the statement) *)
Theorem g_wt_new_correct : forall w seq,
  (w = 8 \/ w = 16 \/ w = 32 \/ w = 64 \/ w = 128) -> Forall (fun x => x < 2 ^ w) seq ->
  len seq < RSQBuild.RSQ_MAXN ->
  exists seq' n nl sg data nbits nones meta samples nzeros lens,
    Permutation seq seq' /\
    g_wt_new w seq = Val (seq', (n, nl, sg, None, None, None, data, nbits, nones, meta, samples, nzeros, lens)) /\
    g_wt_len n = Val (len seq) /\ g_wt_is_empty n = Val (len seq =? 0) /\
    g_wt_n_levels nl = Val (if len seq =? 0 then 0 else msb (maxN seq) + 1) /\
    (forall i, g_wt_get w n nl data meta nzeros i = Val (nthN seq i)) /\
    (forall i x, nthN seq i = Some x -> g_wt_get_unchecked w nl data meta nzeros i = Val x) /\
    (forall c i, c < 2 ^ w ->
       g_wt_rank w n nl sg data meta nzeros c i
       = Val (if negb (len seq =? 0) && (i <=? len seq) && (c <=? maxN seq) then Some (rank_spec seq c i) else None)) /\
    (forall c i, 0 < len seq -> c <= maxN seq -> i <= len seq ->
       g_wt_rank_unchecked w nl data meta nzeros c i = Val (rank_spec seq c i)) /\
    (forall c k fuel, c < 2 ^ w -> k < 2 ^ 64 -> (N.to_nat (len seq / 4096) + 3 <= fuel)%nat ->
       g_wt_select fuel w n nl sg data nbits meta samples nzeros c k
       = Val (if negb (len seq =? 0) && (c <=? maxN seq) then select_spec seq c k else None)) /\
    (forall c k p fuel, c < 2 ^ w -> select_spec seq c k = Some p -> (N.to_nat (len seq / 4096) + 3 <= fuel)%nat ->
       g_wt_select_unchecked fuel w n nl sg data nbits meta samples nzeros c k = Val p).
Proof.
  intros w seq Hw HF Hn.
  destruct (C03.C03_wt_correct w seq Hw HF Hn) as (t & E & _).
  destruct (g_wt_new_sim w seq t Hw HF (maxn_43 _ Hn) E) as (seq' & Hp & G).
  exists seq', (w_n t), (w_n_levels t), (w_sigma t), (wt_data t), (wt_nbits t),
    (map (fun r => bv_nones (rsw_bv r)) (w_bvs t)), (wt_meta t), (wt_samples t), (wt_nzeros t), (w_lens t).
  destruct (g_wt_len_built w seq t Hw HF Hn E) as (L1 & L2 & L3).
  split; [exact Hp|]. split; [exact G|]. split; [exact L1|]. split; [exact L2|]. split; [exact L3|].
  split; [exact (g_wt_get_built w seq t Hw HF Hn E)|].
  split; [exact (g_wt_get_unchecked_built w seq t Hw HF Hn E)|].
  split; [exact (g_wt_rank_built w seq t Hw HF Hn E)|].
  split; [exact (g_wt_rank_unchecked_built w seq t Hw HF Hn E)|].
  split; [exact (g_wt_select_built w seq t Hw HF Hn E)|].
  exact (g_wt_select_unchecked_built w seq t Hw HF Hn E).
Qed.
End WithMsb.

(* ================================================================== after the Section: H_msb is a premise *)
Check g_stable_partition_of_2_ok.
Check g_stable_partition_of_2_correct.
Check g_stable_partition_of_2_contract.
Check g_wt_new_sim.
Check g_wt_new_correct.

(* BONUS (not needed by the theorems above, which keep H_msb as a premise): at each of the five widths the symbolic
   g_msb is convertible to the per-width leaf of Gen/LeavesUtils.v, already proved equal to msb_w (LeavesUtilsOk.v),
   so the premise can be discharged and the two theorems hold unconditionally *)
Lemma g_msb_widths : forall wT v, (wT = 8 \/ wT = 16 \/ wT = 32 \/ wT = 64 \/ wT = 128) -> v < 2 ^ wT ->
  g_msb wT v = Val (msb v).
Proof.
  intros wT v Hw Hv.
  assert (Hm : msb_w wT v = Val (msb v)).
  { destruct (WordsP.msb_w_correct wT v ltac:(lia) Hv) as (Hm & _). exact Hm. }
  rewrite <- Hm. destruct Hw as [-> | [-> | [-> | [-> | ->]]]].
  - exact (LeavesUtilsOk.g_msb_u8_ok v Hv).
  - exact (LeavesUtilsOk.g_msb_u16_ok v Hv).
  - exact (LeavesUtilsOk.g_msb_u32_ok v Hv).
  - exact (LeavesUtilsOk.g_msb_u64_ok v Hv).
  - exact (LeavesUtilsOk.g_msb_u128_ok v Hv).
Qed.
Definition g_wt_new_sim_closed := g_wt_new_sim g_msb_widths.
Definition g_wt_new_correct_closed := g_wt_new_correct g_msb_widths.
Check g_wt_new_sim_closed.
Check g_wt_new_correct_closed.

(* an instance by computation: 40 symbols below 23 at width 8 *)
Definition ex_seq : list N :=
  [3; 17; 22; 0; 5; 9; 14; 21; 1; 1; 8; 19; 12; 7; 22; 2; 16; 4; 11; 20;
   6; 13; 0; 18; 10; 15; 3; 22; 9; 5; 17; 2; 21; 7; 14; 1; 19; 8; 12; 4].
Example g_wt_new_example :
  match g_wt_new 8 ex_seq, wt_build 8 false ex_seq [] with
  | Val (_, (n, nl, sg, ec, el, dc, data, nbits, nones, meta, samples, nzeros, lens)), Val t =>
      n = w_n t /\ nl = w_n_levels t /\ sg = w_sigma t /\ ec = None /\ el = None /\ dc = None /\
      data = wt_data t /\ nbits = wt_nbits t /\ nones = map (fun r => bv_nones (rsw_bv r)) (w_bvs t) /\
      meta = wt_meta t /\ samples = wt_samples t /\ nzeros = wt_nzeros t /\ lens = w_lens t /\
      n = 40 /\ nl = 5 /\ len data = 5
  | _, _ => False
  end.
Proof. vm_compute. repeat split. Qed.

(* No mismatch between the generated constructor and the hand model was found.
     - stable_partition_of_2: plain equality (faults included) for every slice shorter than 2^64 elements (the only
       extra machine checks of the source, `pos + vecs[i].len()`, are bounded by the slice length; the two
       `copy_from_slice` calls get slices of the right length because the two groups partition the input).
     - WaveletTree::new (COMPRESSED = false): `sequence.iter().max().unwrap()` is maxN on a non-empty slice;
       `msb(sigma) + 1` at u32 cannot overflow (msb < width <= 128); the inner loop is BitVectorMut::push per symbol
       (= bv_from_bools of the level's bits, g_bvm_push_sim / g_extend_bools_sim); RSWide::from = RSWide::new
       (g_rsw_new_wf); `shift += 1` (i32/u32 in the source, checked at 32 bits here) stays <= n_levels + 1 <= 129;
       `n_levels - shift` is the same checked subtraction on both sides.
     - the stored field `n` is `sequence.len()` of the PERMUTED slice: equal to len seq because every partition is a
       permutation (stable_partition_of_2_perm).
   Hypothesis used: H_msb exactly as given (g_msb wT v = Val (msb v) for the five widths and v < 2^wT). *)
Print Assumptions g_stable_partition_of_2_ok.
Print Assumptions g_stable_partition_of_2_correct.
Print Assumptions g_stable_partition_of_2_contract.
Print Assumptions g_wt_new_sim.
Print Assumptions g_wt_new_correct.
Print Assumptions g_wt_new_example.
Print Assumptions g_msb_widths.
Print Assumptions g_wt_new_sim_closed.
Print Assumptions g_wt_new_correct_closed.
