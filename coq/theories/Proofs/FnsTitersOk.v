(* WTIterator (src/lib.rs: Iterator::next, DoubleEndedIterator::next_back, ExactSizeIterator::len) and
   QVectorIterator::next (src/qvector/mod.rs) as REGENERATED from the source text (Gen/FnsTiters.v, end of Gen/FnsQvb.v)
   against the hand model Model/Iter.v, whose correctness (Proofs/IterP.v) thereby transfers to the regenerated code.

   (1) each of the six monomorphisations of next / next_back / len EQUALS (value or fault alike) the hand
       wtit_next / wtit_next_back / wtit_len on the pair (i, end_), instantiated with the regenerated get_unchecked of
       the container applied to the container's fields; every container field is returned unchanged;
   (2) a run of the regenerated functions over a call history (re-feeding the returned fields) = wtit_run;
   (3) end to end: regenerated constructor, then the regenerated iterator from (0, len) = deque_run of the input;
   (4) QVectorIterator::next characterised, and iterated over the regenerated collecting constructor;
   (5) an instance by computation. *)
From Coq Require Import ZArith Lia ZifyBool ZifyN ZifyNat List.
From QwtModel Require Import ListX Loops Iter ListXP BitVec RSBin QVec RSQ QWT Huff RSQBuild QWTP HQWTP HQWTNewP IterP.
From QwtModel Require Import FnsQv2 FnsQvb FnsRsq FnsQwt FnsHqwt FnsBv FnsRsw2 FnsWt FnsTiters.
From QwtModel Require Import FnsRsqOk FnsQwtOk FnsHqwtOk FnsWtOk FnsWtNewOk FnsQvbOk FnsWrapQwtOk FnsWrapWtOk.
From QwtModel Require WrapP C03.
Open Scope N_scope.

(* ================================================================== (1) one step *)
(* the shape shared by the six generated texts of `next` / `next_back`, without the container fields *)
Section Shape.
Variable get_u : N -> outcome N.

Definition shape_next (i e : N) : outcome (N * N * option N) :=
  if N.ltb i e then
    let! i := oadd 64 i 1 in
    let! t1 := osub i 1 in
    let! t2 := get_u t1 in
    Val (i, e, Some t2)
  else Val (i, e, None).

Definition shape_next_back (i e : N) : outcome (N * N * option N) :=
  if N.ltb i e then
    let! e := osub e 1 in
    let! t1 := get_u e in
    Val (i, e, Some t1)
  else Val (i, e, None).

(* `self.i - 1` after the checked `self.i += 1` cannot fault *)
Lemma shape_next_hand i e :
  shape_next i e = let! (v, st') := wtit_next get_u (mk_wtit i e) in Val (it_i st', it_end st', v).
Proof.
  unfold shape_next, wtit_next. cbn [it_i it_end]. destruct (i <? e); [|reflexivity].
  unfold oadd. destruct (i + 1 <? 2 ^ 64); cbn [bind]; [|reflexivity].
  unfold osub. destruct (N.leb_spec 1 (i + 1)); [|lia]. cbn [bind].
  destruct (get_u (i + 1 - 1)); reflexivity.
Qed.

Lemma shape_next_back_hand i e :
  shape_next_back i e = let! (v, st') := wtit_next_back get_u (mk_wtit i e) in Val (it_i st', it_end st', v).
Proof.
  unfold shape_next_back, wtit_next_back. cbn [it_i it_end]. destruct (i <? e); [|reflexivity].
  destruct (osub e 1) as [e'|]; cbn [bind]; [|reflexivity].
  destruct (get_u e'); reflexivity.
Qed.
End Shape.

(* a generated text is its shape with the fields carried along *)
Ltac shape_tac sh :=
  intros; unfold sh, shape_next, shape_next_back;
  match goal with |- context [N.ltb ?i ?e] => destruct (N.ltb i e); [|reflexivity] end;
  repeat lazymatch goal with
         | |- bind ?x _ = _ => destruct x; cbn [bind]; [|reflexivity]
         end;
  reflexivity.

Ltac step_tac :=
  lazymatch goal with
  | |- context [wtit_next ?g ?st] => destruct (wtit_next g st) as [[? [? ?]]|]
  | |- context [wtit_next_back ?g ?st] => destruct (wtit_next_back g st) as [[? [? ?]]|]
  end; reflexivity.
Ltac hand_tac := (rewrite shape_next_hand || rewrite shape_next_back_hand); step_tac.

(* ================================================================== (2) a run over a call history *)
(* generic: [F] is the tuple of the container's fields; a step returns the new (i, end_), the fields and the item *)
Section Run.
Context {F : Type}.
Variables next next_back : N -> N -> F -> outcome (N * N * F * option N).
Variable len_ : N -> N -> outcome N.

Definition out_of (v : option N) : itout := match v with Some x => OSome x | None => ONone end.

Fixpoint g_run (i e : N) (f : F) (h : list itop) : outcome (list itout) :=
  match h with
  | [] => Val []
  | INext :: r => let! (i', e', f', v) := next i e f in
                  let! rest := g_run i' e' f' r in Val (out_of v :: rest)
  | IBack :: r => let! (i', e', f', v) := next_back i e f in
                  let! rest := g_run i' e' f' r in Val (out_of v :: rest)
  | ILen :: r => let! n := len_ i e in
                 let! rest := g_run i e f r in Val (OLen n :: rest)
  end.

Variable get_u : F -> N -> outcome N.
Hypothesis Hnext : forall i e f,
  next i e f = let! (v, st') := wtit_next (get_u f) (mk_wtit i e) in Val (it_i st', it_end st', f, v).
Hypothesis Hback : forall i e f,
  next_back i e f = let! (v, st') := wtit_next_back (get_u f) (mk_wtit i e) in Val (it_i st', it_end st', f, v).
Hypothesis Hlen : forall i e, len_ i e = wtit_len (mk_wtit i e).

Theorem g_run_hand : forall h i e f, g_run i e f h = wtit_run (get_u f) (mk_wtit i e) h.
Proof.
  induction h as [|[| |] r IH]; intros i e f; cbn [g_run wtit_run].
  - reflexivity.
  - rewrite Hnext. destruct (wtit_next (get_u f) (mk_wtit i e)) as [[v [i' e']]|]; cbn [bind it_i it_end]; [|reflexivity].
    rewrite IH. reflexivity.
  - rewrite Hback. destruct (wtit_next_back (get_u f) (mk_wtit i e)) as [[v [i' e']]|]; cbn [bind it_i it_end]; [|reflexivity].
    rewrite IH. reflexivity.
  - rewrite Hlen. destruct (wtit_len (mk_wtit i e)); cbn [bind]; [|reflexivity]. rewrite IH. reflexivity.
Qed.
End Run.

(* the fields of the three container types, in the order of the generated signatures *)
Definition qwt_fields : Type :=
  N * N * N * list (list (list N)) * list N * list (list (list N)) * list (list (list N)) * list (list N).
Definition hqwt_fields : Type :=
  N * N * list N * list N * list (list (N * N)) * list (list (list N)) * list N * list (list (list N)) *
  list (list (list N)) * list (list N) * list N.
Definition wt_fields : Type :=
  N * N * option N * option (list N) * option (list N) * option (list (list (N * N))) * list (list (list N)) *
  list N * list N * list (list N) * list (list (list N)) * list N * list N.

(* ---- QWaveletTree, block size 256 *)
Lemma g_qwtit256_next_shape wT i e n nl sg d p sb sm oc :
  g_qwtit256_next wT i e n nl sg d p sb sm oc
  = let! (i', e', v) := shape_next (g_qwt256_get_unchecked wT nl d p sb oc) i e in
    Val (i', e', n, nl, sg, d, p, sb, sm, oc, v).
Proof. shape_tac g_qwtit256_next. Qed.
Lemma g_qwtit256_next_back_shape wT i e n nl sg d p sb sm oc :
  g_qwtit256_next_back wT i e n nl sg d p sb sm oc
  = let! (i', e', v) := shape_next_back (g_qwt256_get_unchecked wT nl d p sb oc) i e in
    Val (i', e', n, nl, sg, d, p, sb, sm, oc, v).
Proof. shape_tac g_qwtit256_next_back. Qed.

Theorem g_qwtit256_next_ok : forall wT i e n nl sg d p sb sm oc,
  g_qwtit256_next wT i e n nl sg d p sb sm oc
  = let! (v, st') := wtit_next (g_qwt256_get_unchecked wT nl d p sb oc) (mk_wtit i e) in
    Val (it_i st', it_end st', n, nl, sg, d, p, sb, sm, oc, v).
Proof. intros. rewrite g_qwtit256_next_shape. hand_tac. Qed.
Theorem g_qwtit256_next_back_ok : forall wT i e n nl sg d p sb sm oc,
  g_qwtit256_next_back wT i e n nl sg d p sb sm oc
  = let! (v, st') := wtit_next_back (g_qwt256_get_unchecked wT nl d p sb oc) (mk_wtit i e) in
    Val (it_i st', it_end st', n, nl, sg, d, p, sb, sm, oc, v).
Proof. intros. rewrite g_qwtit256_next_back_shape. hand_tac. Qed.
Theorem g_qwtit256_len_ok : forall i e, g_qwtit256_len i e = wtit_len (mk_wtit i e).
Proof. reflexivity. Qed.

(* the step functions on the tuple of the container's fields, and the run over a history *)
Definition qwt256_get_u (wT : N) (f : qwt_fields) : N -> outcome N :=
  let '(n, nl, sg, d, p, sb, sm, oc) := f in g_qwt256_get_unchecked wT nl d p sb oc.
Definition qwt256_step_next (wT i e : N) (f : qwt_fields) : outcome (N * N * qwt_fields * option N) :=
  let '(n, nl, sg, d, p, sb, sm, oc) := f in
  let! (i', e', n', nl', sg', d', p', sb', sm', oc', v) := g_qwtit256_next wT i e n nl sg d p sb sm oc in
  Val (i', e', (n', nl', sg', d', p', sb', sm', oc'), v).
Definition qwt256_step_back (wT i e : N) (f : qwt_fields) : outcome (N * N * qwt_fields * option N) :=
  let '(n, nl, sg, d, p, sb, sm, oc) := f in
  let! (i', e', n', nl', sg', d', p', sb', sm', oc', v) := g_qwtit256_next_back wT i e n nl sg d p sb sm oc in
  Val (i', e', (n', nl', sg', d', p', sb', sm', oc'), v).
Definition g_qwtit256_run (wT : N) (f : qwt_fields) (i e : N) (h : list itop) : outcome (list itout) :=
  g_run (qwt256_step_next wT) (qwt256_step_back wT) g_qwtit256_len i e f h.

Theorem g_qwtit256_run_ok : forall wT f i e h,
  g_qwtit256_run wT f i e h = wtit_run (qwt256_get_u wT f) (mk_wtit i e) h.
Proof.
  intros wT f i e h. unfold g_qwtit256_run. apply (g_run_hand _ _ _ (qwt256_get_u wT)).
  - intros i0 e0 [[[[[[[n nl] sg] d] p] sb] sm] oc]. unfold qwt256_step_next, qwt256_get_u; cbv beta iota. rewrite g_qwtit256_next_ok. step_tac.
  - intros i0 e0 [[[[[[[n nl] sg] d] p] sb] sm] oc]. unfold qwt256_step_back, qwt256_get_u; cbv beta iota. rewrite g_qwtit256_next_back_ok. step_tac.
  - reflexivity.
Qed.

(* ---- QWaveletTree, block size 512 *)
Lemma g_qwtit512_next_shape wT i e n nl sg d p sb sm oc :
  g_qwtit512_next wT i e n nl sg d p sb sm oc
  = let! (i', e', v) := shape_next (g_qwt512_get_unchecked wT nl d p sb oc) i e in
    Val (i', e', n, nl, sg, d, p, sb, sm, oc, v).
Proof. shape_tac g_qwtit512_next. Qed.
Lemma g_qwtit512_next_back_shape wT i e n nl sg d p sb sm oc :
  g_qwtit512_next_back wT i e n nl sg d p sb sm oc
  = let! (i', e', v) := shape_next_back (g_qwt512_get_unchecked wT nl d p sb oc) i e in
    Val (i', e', n, nl, sg, d, p, sb, sm, oc, v).
Proof. shape_tac g_qwtit512_next_back. Qed.

Theorem g_qwtit512_next_ok : forall wT i e n nl sg d p sb sm oc,
  g_qwtit512_next wT i e n nl sg d p sb sm oc
  = let! (v, st') := wtit_next (g_qwt512_get_unchecked wT nl d p sb oc) (mk_wtit i e) in
    Val (it_i st', it_end st', n, nl, sg, d, p, sb, sm, oc, v).
Proof. intros. rewrite g_qwtit512_next_shape. hand_tac. Qed.
Theorem g_qwtit512_next_back_ok : forall wT i e n nl sg d p sb sm oc,
  g_qwtit512_next_back wT i e n nl sg d p sb sm oc
  = let! (v, st') := wtit_next_back (g_qwt512_get_unchecked wT nl d p sb oc) (mk_wtit i e) in
    Val (it_i st', it_end st', n, nl, sg, d, p, sb, sm, oc, v).
Proof. intros. rewrite g_qwtit512_next_back_shape. hand_tac. Qed.
Theorem g_qwtit512_len_ok : forall i e, g_qwtit512_len i e = wtit_len (mk_wtit i e).
Proof. reflexivity. Qed.

(* the step functions on the tuple of the container's fields, and the run over a history *)
Definition qwt512_get_u (wT : N) (f : qwt_fields) : N -> outcome N :=
  let '(n, nl, sg, d, p, sb, sm, oc) := f in g_qwt512_get_unchecked wT nl d p sb oc.
Definition qwt512_step_next (wT i e : N) (f : qwt_fields) : outcome (N * N * qwt_fields * option N) :=
  let '(n, nl, sg, d, p, sb, sm, oc) := f in
  let! (i', e', n', nl', sg', d', p', sb', sm', oc', v) := g_qwtit512_next wT i e n nl sg d p sb sm oc in
  Val (i', e', (n', nl', sg', d', p', sb', sm', oc'), v).
Definition qwt512_step_back (wT i e : N) (f : qwt_fields) : outcome (N * N * qwt_fields * option N) :=
  let '(n, nl, sg, d, p, sb, sm, oc) := f in
  let! (i', e', n', nl', sg', d', p', sb', sm', oc', v) := g_qwtit512_next_back wT i e n nl sg d p sb sm oc in
  Val (i', e', (n', nl', sg', d', p', sb', sm', oc'), v).
Definition g_qwtit512_run (wT : N) (f : qwt_fields) (i e : N) (h : list itop) : outcome (list itout) :=
  g_run (qwt512_step_next wT) (qwt512_step_back wT) g_qwtit512_len i e f h.

Theorem g_qwtit512_run_ok : forall wT f i e h,
  g_qwtit512_run wT f i e h = wtit_run (qwt512_get_u wT f) (mk_wtit i e) h.
Proof.
  intros wT f i e h. unfold g_qwtit512_run. apply (g_run_hand _ _ _ (qwt512_get_u wT)).
  - intros i0 e0 [[[[[[[n nl] sg] d] p] sb] sm] oc]. unfold qwt512_step_next, qwt512_get_u; cbv beta iota. rewrite g_qwtit512_next_ok. step_tac.
  - intros i0 e0 [[[[[[[n nl] sg] d] p] sb] sm] oc]. unfold qwt512_step_back, qwt512_get_u; cbv beta iota. rewrite g_qwtit512_next_back_ok. step_tac.
  - reflexivity.
Qed.

(* ---- HuffQWaveletTree, block size 256 *)
Lemma g_hqwtit256_next_shape wT i e n nl ec el dc d p sb sm oc ls :
  g_hqwtit256_next wT i e n nl ec el dc d p sb sm oc ls
  = let! (i', e', v) := shape_next (g_hqwt256_get_unchecked wT nl dc d p sb oc ls) i e in
    Val (i', e', n, nl, ec, el, dc, d, p, sb, sm, oc, ls, v).
Proof. shape_tac g_hqwtit256_next. Qed.
Lemma g_hqwtit256_next_back_shape wT i e n nl ec el dc d p sb sm oc ls :
  g_hqwtit256_next_back wT i e n nl ec el dc d p sb sm oc ls
  = let! (i', e', v) := shape_next_back (g_hqwt256_get_unchecked wT nl dc d p sb oc ls) i e in
    Val (i', e', n, nl, ec, el, dc, d, p, sb, sm, oc, ls, v).
Proof. shape_tac g_hqwtit256_next_back. Qed.

Theorem g_hqwtit256_next_ok : forall wT i e n nl ec el dc d p sb sm oc ls,
  g_hqwtit256_next wT i e n nl ec el dc d p sb sm oc ls
  = let! (v, st') := wtit_next (g_hqwt256_get_unchecked wT nl dc d p sb oc ls) (mk_wtit i e) in
    Val (it_i st', it_end st', n, nl, ec, el, dc, d, p, sb, sm, oc, ls, v).
Proof. intros. rewrite g_hqwtit256_next_shape. hand_tac. Qed.
Theorem g_hqwtit256_next_back_ok : forall wT i e n nl ec el dc d p sb sm oc ls,
  g_hqwtit256_next_back wT i e n nl ec el dc d p sb sm oc ls
  = let! (v, st') := wtit_next_back (g_hqwt256_get_unchecked wT nl dc d p sb oc ls) (mk_wtit i e) in
    Val (it_i st', it_end st', n, nl, ec, el, dc, d, p, sb, sm, oc, ls, v).
Proof. intros. rewrite g_hqwtit256_next_back_shape. hand_tac. Qed.
Theorem g_hqwtit256_len_ok : forall i e, g_hqwtit256_len i e = wtit_len (mk_wtit i e).
Proof. reflexivity. Qed.

(* the step functions on the tuple of the container's fields, and the run over a history *)
Definition hqwt256_get_u (wT : N) (f : hqwt_fields) : N -> outcome N :=
  let '(n, nl, ec, el, dc, d, p, sb, sm, oc, ls) := f in g_hqwt256_get_unchecked wT nl dc d p sb oc ls.
Definition hqwt256_step_next (wT i e : N) (f : hqwt_fields) : outcome (N * N * hqwt_fields * option N) :=
  let '(n, nl, ec, el, dc, d, p, sb, sm, oc, ls) := f in
  let! (i', e', n', nl', ec', el', dc', d', p', sb', sm', oc', ls', v) := g_hqwtit256_next wT i e n nl ec el dc d p sb sm oc ls in
  Val (i', e', (n', nl', ec', el', dc', d', p', sb', sm', oc', ls'), v).
Definition hqwt256_step_back (wT i e : N) (f : hqwt_fields) : outcome (N * N * hqwt_fields * option N) :=
  let '(n, nl, ec, el, dc, d, p, sb, sm, oc, ls) := f in
  let! (i', e', n', nl', ec', el', dc', d', p', sb', sm', oc', ls', v) := g_hqwtit256_next_back wT i e n nl ec el dc d p sb sm oc ls in
  Val (i', e', (n', nl', ec', el', dc', d', p', sb', sm', oc', ls'), v).
Definition g_hqwtit256_run (wT : N) (f : hqwt_fields) (i e : N) (h : list itop) : outcome (list itout) :=
  g_run (hqwt256_step_next wT) (hqwt256_step_back wT) g_hqwtit256_len i e f h.

Theorem g_hqwtit256_run_ok : forall wT f i e h,
  g_hqwtit256_run wT f i e h = wtit_run (hqwt256_get_u wT f) (mk_wtit i e) h.
Proof.
  intros wT f i e h. unfold g_hqwtit256_run. apply (g_run_hand _ _ _ (hqwt256_get_u wT)).
  - intros i0 e0 [[[[[[[[[[n nl] ec] el] dc] d] p] sb] sm] oc] ls]. unfold hqwt256_step_next, hqwt256_get_u; cbv beta iota. rewrite g_hqwtit256_next_ok. step_tac.
  - intros i0 e0 [[[[[[[[[[n nl] ec] el] dc] d] p] sb] sm] oc] ls]. unfold hqwt256_step_back, hqwt256_get_u; cbv beta iota. rewrite g_hqwtit256_next_back_ok. step_tac.
  - reflexivity.
Qed.

(* ---- HuffQWaveletTree, block size 512 *)
Lemma g_hqwtit512_next_shape wT i e n nl ec el dc d p sb sm oc ls :
  g_hqwtit512_next wT i e n nl ec el dc d p sb sm oc ls
  = let! (i', e', v) := shape_next (g_hqwt512_get_unchecked wT nl dc d p sb oc ls) i e in
    Val (i', e', n, nl, ec, el, dc, d, p, sb, sm, oc, ls, v).
Proof. shape_tac g_hqwtit512_next. Qed.
Lemma g_hqwtit512_next_back_shape wT i e n nl ec el dc d p sb sm oc ls :
  g_hqwtit512_next_back wT i e n nl ec el dc d p sb sm oc ls
  = let! (i', e', v) := shape_next_back (g_hqwt512_get_unchecked wT nl dc d p sb oc ls) i e in
    Val (i', e', n, nl, ec, el, dc, d, p, sb, sm, oc, ls, v).
Proof. shape_tac g_hqwtit512_next_back. Qed.

Theorem g_hqwtit512_next_ok : forall wT i e n nl ec el dc d p sb sm oc ls,
  g_hqwtit512_next wT i e n nl ec el dc d p sb sm oc ls
  = let! (v, st') := wtit_next (g_hqwt512_get_unchecked wT nl dc d p sb oc ls) (mk_wtit i e) in
    Val (it_i st', it_end st', n, nl, ec, el, dc, d, p, sb, sm, oc, ls, v).
Proof. intros. rewrite g_hqwtit512_next_shape. hand_tac. Qed.
Theorem g_hqwtit512_next_back_ok : forall wT i e n nl ec el dc d p sb sm oc ls,
  g_hqwtit512_next_back wT i e n nl ec el dc d p sb sm oc ls
  = let! (v, st') := wtit_next_back (g_hqwt512_get_unchecked wT nl dc d p sb oc ls) (mk_wtit i e) in
    Val (it_i st', it_end st', n, nl, ec, el, dc, d, p, sb, sm, oc, ls, v).
Proof. intros. rewrite g_hqwtit512_next_back_shape. hand_tac. Qed.
Theorem g_hqwtit512_len_ok : forall i e, g_hqwtit512_len i e = wtit_len (mk_wtit i e).
Proof. reflexivity. Qed.

(* the step functions on the tuple of the container's fields, and the run over a history *)
Definition hqwt512_get_u (wT : N) (f : hqwt_fields) : N -> outcome N :=
  let '(n, nl, ec, el, dc, d, p, sb, sm, oc, ls) := f in g_hqwt512_get_unchecked wT nl dc d p sb oc ls.
Definition hqwt512_step_next (wT i e : N) (f : hqwt_fields) : outcome (N * N * hqwt_fields * option N) :=
  let '(n, nl, ec, el, dc, d, p, sb, sm, oc, ls) := f in
  let! (i', e', n', nl', ec', el', dc', d', p', sb', sm', oc', ls', v) := g_hqwtit512_next wT i e n nl ec el dc d p sb sm oc ls in
  Val (i', e', (n', nl', ec', el', dc', d', p', sb', sm', oc', ls'), v).
Definition hqwt512_step_back (wT i e : N) (f : hqwt_fields) : outcome (N * N * hqwt_fields * option N) :=
  let '(n, nl, ec, el, dc, d, p, sb, sm, oc, ls) := f in
  let! (i', e', n', nl', ec', el', dc', d', p', sb', sm', oc', ls', v) := g_hqwtit512_next_back wT i e n nl ec el dc d p sb sm oc ls in
  Val (i', e', (n', nl', ec', el', dc', d', p', sb', sm', oc', ls'), v).
Definition g_hqwtit512_run (wT : N) (f : hqwt_fields) (i e : N) (h : list itop) : outcome (list itout) :=
  g_run (hqwt512_step_next wT) (hqwt512_step_back wT) g_hqwtit512_len i e f h.

Theorem g_hqwtit512_run_ok : forall wT f i e h,
  g_hqwtit512_run wT f i e h = wtit_run (hqwt512_get_u wT f) (mk_wtit i e) h.
Proof.
  intros wT f i e h. unfold g_hqwtit512_run. apply (g_run_hand _ _ _ (hqwt512_get_u wT)).
  - intros i0 e0 [[[[[[[[[[n nl] ec] el] dc] d] p] sb] sm] oc] ls]. unfold hqwt512_step_next, hqwt512_get_u; cbv beta iota. rewrite g_hqwtit512_next_ok. step_tac.
  - intros i0 e0 [[[[[[[[[[n nl] ec] el] dc] d] p] sb] sm] oc] ls]. unfold hqwt512_step_back, hqwt512_get_u; cbv beta iota. rewrite g_hqwtit512_next_back_ok. step_tac.
  - reflexivity.
Qed.

(* ---- WaveletTree (COMPRESSED = false) *)
Lemma g_wtit_next_shape wT i e n nl sg ec el dc bd nb no md ss nz ls :
  g_wtit_next wT i e n nl sg ec el dc bd nb no md ss nz ls
  = let! (i', e', v) := shape_next (g_wt_get_unchecked wT nl bd md nz) i e in
    Val (i', e', n, nl, sg, ec, el, dc, bd, nb, no, md, ss, nz, ls, v).
Proof. shape_tac g_wtit_next. Qed.
Lemma g_wtit_next_back_shape wT i e n nl sg ec el dc bd nb no md ss nz ls :
  g_wtit_next_back wT i e n nl sg ec el dc bd nb no md ss nz ls
  = let! (i', e', v) := shape_next_back (g_wt_get_unchecked wT nl bd md nz) i e in
    Val (i', e', n, nl, sg, ec, el, dc, bd, nb, no, md, ss, nz, ls, v).
Proof. shape_tac g_wtit_next_back. Qed.

Theorem g_wtit_next_ok : forall wT i e n nl sg ec el dc bd nb no md ss nz ls,
  g_wtit_next wT i e n nl sg ec el dc bd nb no md ss nz ls
  = let! (v, st') := wtit_next (g_wt_get_unchecked wT nl bd md nz) (mk_wtit i e) in
    Val (it_i st', it_end st', n, nl, sg, ec, el, dc, bd, nb, no, md, ss, nz, ls, v).
Proof. intros. rewrite g_wtit_next_shape. hand_tac. Qed.
Theorem g_wtit_next_back_ok : forall wT i e n nl sg ec el dc bd nb no md ss nz ls,
  g_wtit_next_back wT i e n nl sg ec el dc bd nb no md ss nz ls
  = let! (v, st') := wtit_next_back (g_wt_get_unchecked wT nl bd md nz) (mk_wtit i e) in
    Val (it_i st', it_end st', n, nl, sg, ec, el, dc, bd, nb, no, md, ss, nz, ls, v).
Proof. intros. rewrite g_wtit_next_back_shape. hand_tac. Qed.
Theorem g_wtit_len_ok : forall i e, g_wtit_len i e = wtit_len (mk_wtit i e).
Proof. reflexivity. Qed.

(* the step functions on the tuple of the container's fields, and the run over a history *)
Definition wt_get_u (wT : N) (f : wt_fields) : N -> outcome N :=
  let '(n, nl, sg, ec, el, dc, bd, nb, no, md, ss, nz, ls) := f in g_wt_get_unchecked wT nl bd md nz.
Definition wt_step_next (wT i e : N) (f : wt_fields) : outcome (N * N * wt_fields * option N) :=
  let '(n, nl, sg, ec, el, dc, bd, nb, no, md, ss, nz, ls) := f in
  let! (i', e', n', nl', sg', ec', el', dc', bd', nb', no', md', ss', nz', ls', v) := g_wtit_next wT i e n nl sg ec el dc bd nb no md ss nz ls in
  Val (i', e', (n', nl', sg', ec', el', dc', bd', nb', no', md', ss', nz', ls'), v).
Definition wt_step_back (wT i e : N) (f : wt_fields) : outcome (N * N * wt_fields * option N) :=
  let '(n, nl, sg, ec, el, dc, bd, nb, no, md, ss, nz, ls) := f in
  let! (i', e', n', nl', sg', ec', el', dc', bd', nb', no', md', ss', nz', ls', v) := g_wtit_next_back wT i e n nl sg ec el dc bd nb no md ss nz ls in
  Val (i', e', (n', nl', sg', ec', el', dc', bd', nb', no', md', ss', nz', ls'), v).
Definition g_wtit_run (wT : N) (f : wt_fields) (i e : N) (h : list itop) : outcome (list itout) :=
  g_run (wt_step_next wT) (wt_step_back wT) g_wtit_len i e f h.

Theorem g_wtit_run_ok : forall wT f i e h,
  g_wtit_run wT f i e h = wtit_run (wt_get_u wT f) (mk_wtit i e) h.
Proof.
  intros wT f i e h. unfold g_wtit_run. apply (g_run_hand _ _ _ (wt_get_u wT)).
  - intros i0 e0 [[[[[[[[[[[[n nl] sg] ec] el] dc] bd] nb] no] md] ss] nz] ls]. unfold wt_step_next, wt_get_u; cbv beta iota. rewrite g_wtit_next_ok. step_tac.
  - intros i0 e0 [[[[[[[[[[[[n nl] sg] ec] el] dc] bd] nb] no] md] ss] nz] ls]. unfold wt_step_back, wt_get_u; cbv beta iota. rewrite g_wtit_next_back_ok. step_tac.
  - reflexivity.
Qed.

(* ---- WaveletTree (COMPRESSED = true, Huffman-shaped) *)
Lemma g_hwtit_next_shape wT i e n nl sg ec el dc bd nb no md ss nz ls :
  g_hwtit_next wT i e n nl sg ec el dc bd nb no md ss nz ls
  = let! (i', e', v) := shape_next (g_hwt_get_unchecked wT nl dc bd md nz ls) i e in
    Val (i', e', n, nl, sg, ec, el, dc, bd, nb, no, md, ss, nz, ls, v).
Proof. shape_tac g_hwtit_next. Qed.
Lemma g_hwtit_next_back_shape wT i e n nl sg ec el dc bd nb no md ss nz ls :
  g_hwtit_next_back wT i e n nl sg ec el dc bd nb no md ss nz ls
  = let! (i', e', v) := shape_next_back (g_hwt_get_unchecked wT nl dc bd md nz ls) i e in
    Val (i', e', n, nl, sg, ec, el, dc, bd, nb, no, md, ss, nz, ls, v).
Proof. shape_tac g_hwtit_next_back. Qed.

Theorem g_hwtit_next_ok : forall wT i e n nl sg ec el dc bd nb no md ss nz ls,
  g_hwtit_next wT i e n nl sg ec el dc bd nb no md ss nz ls
  = let! (v, st') := wtit_next (g_hwt_get_unchecked wT nl dc bd md nz ls) (mk_wtit i e) in
    Val (it_i st', it_end st', n, nl, sg, ec, el, dc, bd, nb, no, md, ss, nz, ls, v).
Proof. intros. rewrite g_hwtit_next_shape. hand_tac. Qed.
Theorem g_hwtit_next_back_ok : forall wT i e n nl sg ec el dc bd nb no md ss nz ls,
  g_hwtit_next_back wT i e n nl sg ec el dc bd nb no md ss nz ls
  = let! (v, st') := wtit_next_back (g_hwt_get_unchecked wT nl dc bd md nz ls) (mk_wtit i e) in
    Val (it_i st', it_end st', n, nl, sg, ec, el, dc, bd, nb, no, md, ss, nz, ls, v).
Proof. intros. rewrite g_hwtit_next_back_shape. hand_tac. Qed.
Theorem g_hwtit_len_ok : forall i e, g_hwtit_len i e = wtit_len (mk_wtit i e).
Proof. reflexivity. Qed.

(* the step functions on the tuple of the container's fields, and the run over a history *)
Definition hwt_get_u (wT : N) (f : wt_fields) : N -> outcome N :=
  let '(n, nl, sg, ec, el, dc, bd, nb, no, md, ss, nz, ls) := f in g_hwt_get_unchecked wT nl dc bd md nz ls.
Definition hwt_step_next (wT i e : N) (f : wt_fields) : outcome (N * N * wt_fields * option N) :=
  let '(n, nl, sg, ec, el, dc, bd, nb, no, md, ss, nz, ls) := f in
  let! (i', e', n', nl', sg', ec', el', dc', bd', nb', no', md', ss', nz', ls', v) := g_hwtit_next wT i e n nl sg ec el dc bd nb no md ss nz ls in
  Val (i', e', (n', nl', sg', ec', el', dc', bd', nb', no', md', ss', nz', ls'), v).
Definition hwt_step_back (wT i e : N) (f : wt_fields) : outcome (N * N * wt_fields * option N) :=
  let '(n, nl, sg, ec, el, dc, bd, nb, no, md, ss, nz, ls) := f in
  let! (i', e', n', nl', sg', ec', el', dc', bd', nb', no', md', ss', nz', ls', v) := g_hwtit_next_back wT i e n nl sg ec el dc bd nb no md ss nz ls in
  Val (i', e', (n', nl', sg', ec', el', dc', bd', nb', no', md', ss', nz', ls'), v).
Definition g_hwtit_run (wT : N) (f : wt_fields) (i e : N) (h : list itop) : outcome (list itout) :=
  g_run (hwt_step_next wT) (hwt_step_back wT) g_hwtit_len i e f h.

Theorem g_hwtit_run_ok : forall wT f i e h,
  g_hwtit_run wT f i e h = wtit_run (hwt_get_u wT f) (mk_wtit i e) h.
Proof.
  intros wT f i e h. unfold g_hwtit_run. apply (g_run_hand _ _ _ (hwt_get_u wT)).
  - intros i0 e0 [[[[[[[[[[[[n nl] sg] ec] el] dc] bd] nb] no] md] ss] nz] ls]. unfold hwt_step_next, hwt_get_u; cbv beta iota. rewrite g_hwtit_next_ok. step_tac.
  - intros i0 e0 [[[[[[[[[[[[n nl] sg] ec] el] dc] bd] nb] no] md] ss] nz] ls]. unfold hwt_step_back, hwt_get_u; cbv beta iota. rewrite g_hwtit_next_back_ok. step_tac.
  - reflexivity.
Qed.

(* ================================================================== (3) END TO END *)
(* a run from (0, len s) over any fields whose get_unchecked reads s is the deque over s *)
Lemma run_deque (get_u : N -> outcome N) (s : list N) :
  len s < 2 ^ 64 -> (forall i x, nthN s i = Some x -> get_u i = Val x) ->
  forall h, wtit_run get_u (mk_wtit 0 (len s)) h = Val (deque_run s h).
Proof. intros Hn Hg h. exact (wtit_run_correct get_u s Hn Hg h). Qed.

(* ---- QWaveletTree: every public constructor as regenerated, then `iter()` = WTIterator { i: 0, end: self.len() }
   (g_qwtNNN_len n = Val (len s): the start state is the one `iter()` builds), then any history of calls *)
Theorem g_qwt256_iter_public : forall k w s, QWTP.width_ok w -> Forall (fun x => x < 2 ^ w) s -> len s < RSQ_MAXN ->
  exists n nl sg d p sb sm oc,
    qwt256_ctor k w s = Val (n, nl, sg, d, p, sb, sm, oc) /\
    g_qwt256_len n = Val (len s) /\
    forall h, g_qwtit256_run w (n, nl, sg, d, p, sb, sm, oc) 0 (len s) h = Val (deque_run s h).
Proof.
  intros k w s Hw HF Hn.
  destruct (g_qwt256_ctors_correct k w s Hw HF Hn)
    as (n & nl & sg & d & p & sb & sm & oc & E & L & _ & _ & _ & _ & _ & Hgu & _).
  exists n, nl, sg, d, p, sb, sm, oc. split; [exact E|]. split; [exact L|].
  intros h. rewrite g_qwtit256_run_ok. apply run_deque; [exact (RSQ_MAXN_lt64 _ Hn)|exact Hgu].
Qed.

Theorem g_qwt512_iter_public : forall k w s, QWTP.width_ok w -> Forall (fun x => x < 2 ^ w) s -> len s < RSQ_MAXN ->
  exists n nl sg d p sb sm oc,
    qwt512_ctor k w s = Val (n, nl, sg, d, p, sb, sm, oc) /\
    g_qwt512_len n = Val (len s) /\
    forall h, g_qwtit512_run w (n, nl, sg, d, p, sb, sm, oc) 0 (len s) h = Val (deque_run s h).
Proof.
  intros k w s Hw HF Hn.
  destruct (g_qwt512_ctors_correct k w s Hw HF Hn)
    as (n & nl & sg & d & p & sb & sm & oc & E & L & _ & _ & _ & _ & _ & Hgu & _).
  exists n, nl, sg, d, p, sb, sm, oc. split; [exact E|]. split; [exact L|].
  intros h. rewrite g_qwtit512_run_ok. apply run_deque; [exact (RSQ_MAXN_lt64 _ Hn)|exact Hgu].
Qed.

(* ---- plain binary WaveletTree: every public constructor as regenerated (wt_ctor of Proofs/FnsWrapWtOk.v; the
   get_unchecked fact is the one of g_wt_new_correct_closed, Proofs/FnsWtNewOk.v) *)
Theorem g_wt_iter_public : forall k w s,
  (w = 8 \/ w = 16 \/ w = 32 \/ w = 64 \/ w = 128) -> Forall (fun x => x < 2 ^ w) s -> len s < RSQ_MAXN ->
  exists n nl sg data nbits nones meta samples nzeros lens,
    wt_ctor k w s = Val (n, nl, sg, None, None, None, data, nbits, nones, meta, samples, nzeros, lens) /\
    g_wt_len n = Val (len s) /\
    forall h, g_wtit_run w (n, nl, sg, None, None, None, data, nbits, nones, meta, samples, nzeros, lens) 0 (len s) h
              = Val (deque_run s h).
Proof.
  intros k w s Hw HF Hn.
  destruct (g_wt_new_correct_closed w s Hw HF Hn)
    as (s' & n & nl & sg & data & nbits & nones & meta & samples & nzeros & lens & _ & G & L & _ & _ & _ & Hgu & _).
  exists n, nl, sg, data, nbits, nones, meta, samples, nzeros, lens.
  split; [|split; [exact L|]].
  - unfold wt_ctor. rewrite g_wt_from_vec_new, g_wt_from_iter_new, G.
    destruct (k =? 0); [reflexivity|]. destruct (k =? 1); reflexivity.
  - intros h. rewrite g_wtit_run_ok. apply run_deque; [exact (RSQ_MAXN_lt64 _ Hn)|exact Hgu].
Qed.

(* ---- HuffQWaveletTree: no regenerated constructor; on the tree the hand-modelled builder returns for a compatible
   table (Proofs/FnsHqwtOk.v: g_hqwtNNN_end_to_end), and for HuffQWaveletTree::new (craft4 on the coder's lengths) *)
Definition hq_fields (t : hqwt) : hqwt_fields :=
  (h_n t, h_n_levels t, hq_enc_content t, hq_enc_len t, h_decode t, hq_data t, hq_pos t, hq_sbs t, hq_samples t,
   hq_occs t, h_lens t).

Theorem g_hqwt256_iter_built : forall w seq tab t, HQWTP.width_ok w ->
  Forall (fun x => x < 2 ^ w) seq -> len seq < RSQ_MAXN -> table_ok seq tab -> hq_build 256 seq tab = Val t ->
  g_hqwt256_len (h_n t) = Val (len seq) /\
  forall h, g_hqwtit256_run w (hq_fields t) 0 (len seq) h = Val (deque_run seq h).
Proof.
  intros w seq tab t Hw HF Hn Htab Hb.
  set (fuel := (17 + S (S (N.to_nat (len seq / (8 * 256)))))%nat).
  destruct (g_hqwt256_end_to_end w seq tab t fuel Hw HF Hn Htab Hb ltac:(lia) ltac:(lia)) as (L & _ & _ & Hgu & _).
  split; [exact L|]. intros h. rewrite g_hqwtit256_run_ok.
  apply run_deque; [exact (RSQ_MAXN_lt64 _ Hn)|exact Hgu].
Qed.

Theorem g_hqwt512_iter_built : forall w seq tab t, HQWTP.width_ok w ->
  Forall (fun x => x < 2 ^ w) seq -> len seq < RSQ_MAXN -> table_ok seq tab -> hq_build 512 seq tab = Val t ->
  g_hqwt512_len (h_n t) = Val (len seq) /\
  forall h, g_hqwtit512_run w (hq_fields t) 0 (len seq) h = Val (deque_run seq h).
Proof.
  intros w seq tab t Hw HF Hn Htab Hb.
  set (fuel := (17 + S (S (N.to_nat (len seq / (8 * 512)))))%nat).
  destruct (g_hqwt512_end_to_end w seq tab t fuel Hw HF Hn Htab Hb ltac:(lia) ltac:(lia)) as (L & _ & _ & Hgu & _).
  split; [exact L|]. intros h. rewrite g_hqwtit512_run_ok.
  apply run_deque; [exact (RSQ_MAXN_lt64 _ Hn)|exact Hgu].
Qed.

Theorem g_hqwt256_iter_new : forall w seq f tab t, HQWTP.width_ok w ->
  Forall (fun x => x < 2 ^ w) seq -> len seq < RSQ_MAXN -> seq <> [] -> maxN seq < 2 ^ 64 - 1 ->
  lengths_for seq f -> craft4 f (sym_index (maxN seq)) = Val tab -> hq_new 256 seq f = Val t ->
  g_hqwt256_len (h_n t) = Val (len seq) /\
  forall h, g_hqwtit256_run w (hq_fields t) 0 (len seq) h = Val (deque_run seq h).
Proof.
  intros w seq f tab t Hw HF Hn Hne Hmax Hlf Hc Hnew.
  exact (g_hqwt256_iter_built w seq tab t Hw HF Hn (craft_table_ok_seq seq f tab Hne Hmax Hlf Hc)
           (hq_new_build 256 seq f tab t Hne Hc Hnew)).
Qed.

Theorem g_hqwt512_iter_new : forall w seq f tab t, HQWTP.width_ok w ->
  Forall (fun x => x < 2 ^ w) seq -> len seq < RSQ_MAXN -> seq <> [] -> maxN seq < 2 ^ 64 - 1 ->
  lengths_for seq f -> craft4 f (sym_index (maxN seq)) = Val tab -> hq_new 512 seq f = Val t ->
  g_hqwt512_len (h_n t) = Val (len seq) /\
  forall h, g_hqwtit512_run w (hq_fields t) 0 (len seq) h = Val (deque_run seq h).
Proof.
  intros w seq f tab t Hw HF Hn Hne Hmax Hlf Hc Hnew.
  exact (g_hqwt512_iter_built w seq tab t Hw HF Hn (craft_table_ok_seq seq f tab Hne Hmax Hlf Hc)
           (hq_new_build 512 seq f tab t Hne Hc Hnew)).
Qed.

(* ---- Huffman-shaped binary WaveletTree: on the tree wt_build returns for a compatible table, and for
   WaveletTree::<_, true>::new (hwt_new: craft2 on the coder's lengths) *)
Definition bwt_fields (t : bwt) : wt_fields :=
  (w_n t, w_n_levels t, w_sigma t, wt_enc_content t, wt_enc_len t, w_decode t, wt_data t, wt_nbits t,
   map (fun r => bv_nones (rsw_bv r)) (w_bvs t), wt_meta t, wt_samples t, wt_nzeros t, w_lens t).

Theorem g_hwt_iter_built : forall w seq tab t,
  (w = 8 \/ w = 16 \/ w = 32 \/ w = 64 \/ w = 128) -> Forall (fun x => x < 2 ^ w) seq ->
  len seq < RSQ_MAXN -> seq <> [] -> C03.C03_table_ok seq tab -> wt_build w true seq tab = Val t ->
  g_hwt_len (w_n t) = Val (len seq) /\
  forall h, g_hwtit_run w (bwt_fields t) 0 (len seq) h = Val (deque_run seq h).
Proof.
  intros w seq tab t Hw HF Hn Hne Htab E.
  destruct (g_hwt_len_built w seq tab t Hw HF Hn Hne Htab E) as (L & _).
  split; [exact L|]. intros h. rewrite g_hwtit_run_ok.
  apply run_deque; [exact (RSQ_MAXN_lt64 _ Hn)|].
  exact (g_hwt_get_unchecked_built w seq tab t Hw HF Hn Hne Htab E).
Qed.

Theorem g_hwt_iter_new : forall w seq f t,
  (w = 8 \/ w = 16 \/ w = 32 \/ w = 64 \/ w = 128) -> Forall (fun x => x < 2 ^ w) seq ->
  len seq < RSQ_MAXN -> seq <> [] -> maxN seq < 2 ^ 64 - 1 -> WrapP.lengths_for2 seq f ->
  hwt_new w seq f = Val t ->
  g_hwt_len (w_n t) = Val (len seq) /\
  forall h, g_hwtit_run w (bwt_fields t) 0 (len seq) h = Val (deque_run seq h).
Proof.
  intros w seq f t Hw HF Hn Hne Hmax Hlf E.
  destruct (hwt_new_built w seq f t Hne Hmax Hlf E) as (tab & Htab & Eb).
  exact (g_hwt_iter_built w seq tab t Hw HF Hn Hne Htab Eb).
Qed.

(* the plain binary tree as the hand-modelled builder returns it (same fields, other fact: g_wt_get_unchecked_built) *)
Theorem g_wt_iter_built : forall w seq t,
  (w = 8 \/ w = 16 \/ w = 32 \/ w = 64 \/ w = 128) -> Forall (fun x => x < 2 ^ w) seq ->
  len seq < RSQ_MAXN -> wt_build w false seq [] = Val t ->
  forall h, g_wtit_run w (bwt_fields t) 0 (len seq) h = Val (deque_run seq h).
Proof.
  intros w seq t Hw HF Hn E h. rewrite g_wtit_run_ok.
  apply run_deque; [exact (RSQ_MAXN_lt64 _ Hn)|].
  exact (g_wt_get_unchecked_built w seq t Hw HF Hn E).
Qed.

(* the derived facts of Proofs/IterP.v on the regenerated run (stated once, for the quad tree at 256): forward
   iteration yields the sequence then None forever; backward iteration the reverse *)
Corollary g_qwt256_iter_forward_backward : forall k w s, QWTP.width_ok w -> Forall (fun x => x < 2 ^ w) s ->
  len s < RSQ_MAXN ->
  exists f, qwt256_ctor k w s = Val f /\
    (forall j, g_qwtit256_run w f 0 (len s) (repeat INext (length s + j)) = Val (map OSome s ++ repeat ONone j)) /\
    (forall j, g_qwtit256_run w f 0 (len s) (repeat IBack (length s + j)) = Val (map OSome (rev s) ++ repeat ONone j)).
Proof.
  intros k w s Hw HF Hn.
  destruct (g_qwt256_ctors_correct k w s Hw HF Hn)
    as (n & nl & sg & d & p & sb & sm & oc & E & L & _ & _ & _ & _ & _ & Hgu & _).
  exists (n, nl, sg, d, p, sb, sm, oc). split; [exact E|].
  pose proof (RSQ_MAXN_lt64 _ Hn) as H64.
  split; intros j; rewrite g_qwtit256_run_ok.
  - exact (wtit_forward _ s H64 Hgu j).
  - exact (wtit_backward _ s H64 Hgu j).
Qed.

(* ================================================================== (4) QVectorIterator::next *)
(* `self.i += 1; qv.get(self.i - 1)`: the subtraction cannot fault after the checked increment; the increment is NOT
   guarded by a bound check (unlike WTIterator): it is performed on every call, also past the end *)
Theorem g_qvit_next_ok : forall i d p,
  g_qvit_next i d p = let! i' := oadd 64 i 1 in let! v := g_qv_get d p i in Val (i', d, p, v).
Proof.
  intros i d p. unfold g_qvit_next, oadd. destruct (i + 1 <? 2 ^ 64); cbn [bind]; [|reflexivity].
  unfold osub. destruct (N.leb_spec 1 (i + 1)); [|lia]. cbn [bind]. rewrite N.add_sub. reflexivity.
Qed.

(* at i = 2^64 - 1 (after 2^64 - 1 calls) the next call overflows `self.i += 1`: a panic in a build with overflow
   checks (in a build without them i wraps to 0, `self.i - 1` wraps to usize::MAX, get returns None, and the call
   after that yields the first element again: the iterator is not fused at that point); whatever the vector *)
Theorem g_qvit_next_overflow : forall d p, g_qvit_next (2 ^ 64 - 1) d p = Fault Overflow.
Proof. intros d p. rewrite g_qvit_next_ok. reflexivity. Qed.

(* k calls of next, re-feeding the returned fields *)
Fixpoint g_qvit_run (k : nat) (i : N) (d : list (list N)) (p : N) : outcome (list (option N)) :=
  match k with
  | O => Val []
  | S k' => let! (i', d', p', v) := g_qvit_next i d p in
            let! rest := g_qvit_run k' i' d' p' in Val (v :: rest)
  end.

Lemma g_qvit_run_spec (s : list N) d p : (forall i, g_qv_get d p i = Val (nthN s i)) ->
  forall k i, i + N.of_nat k < 2 ^ 64 -> g_qvit_run k i d p = Val (map (nthN s) (seqN i k)).
Proof.
  intros Hg. induction k as [|k IH]; intros i Hi; cbn [g_qvit_run seqN map]; [reflexivity|].
  rewrite g_qvit_next_ok. unfold oadd. destruct (N.ltb_spec (i + 1) (2 ^ 64)); [|lia]. cbn [bind].
  rewrite Hg. cbn [bind]. rewrite IH by lia. reflexivity.
Qed.

Lemma map_nthN_seqN_shift {A} (x : A) s : forall k i, map (nthN (x :: s)) (seqN (i + 1) k) = map (nthN s) (seqN i k).
Proof.
  induction k as [|k IH]; intros i; cbn [seqN map]; [reflexivity|]. rewrite nthN_succ, IH. reflexivity.
Qed.
Lemma map_nthN_nil {A} : forall k i, map (nthN (@nil A)) (seqN i k) = repeat None k.
Proof. induction k as [|k IH]; intros i; cbn [seqN map repeat]; [reflexivity|]. rewrite IH. reflexivity. Qed.
Lemma map_nthN_seqN {A} (s : list A) j : map (nthN s) (seqN 0 (length s + j)) = map Some s ++ repeat None j.
Proof.
  induction s as [|x s IH]; cbn [length plus seqN map app]; [apply map_nthN_nil|].
  rewrite nthN_0, map_nthN_seqN_shift, IH. reflexivity.
Qed.

(* the regenerated collecting constructor, then `iter()` (i = 0), then k calls of the regenerated next: the stored
   symbols (v mod 4) in order while below the length, None afterwards; for every k <= 2^64 - 1 (the k-th call
   increments i to k) *)
Theorem g_qv_iter_public : forall wT vs, len vs < 2 ^ 63 ->
  exists data pos, g_qv_from_iter wT vs = Val (data, pos) /\
    (forall k, N.of_nat k < 2 ^ 64 ->
       g_qvit_run k 0 data pos = Val (map (nthN (map (fun v => v mod 4) vs)) (seqN 0 k))) /\
    (forall j, N.of_nat (length vs + j) < 2 ^ 64 ->
       g_qvit_run (length vs + j) 0 data pos = Val (map (fun v => Some (v mod 4)) vs ++ repeat None j)).
Proof.
  intros wT vs Hn. destruct (g_qv_from_iter_e2e wT vs Hn) as (data & pos & E & _ & _ & Hg & _).
  exists data, pos. split; [exact E|]. split.
  - intros k Hk. apply g_qvit_run_spec; [exact Hg|lia].
  - intros j Hj. rewrite (g_qvit_run_spec _ data pos Hg) by lia.
    replace (length vs) with (length (map (fun v => v mod 4) vs)) by apply map_length.
    rewrite map_nthN_seqN, map_map. reflexivity.
Qed.

(* ================================================================== (5) instances by computation *)
Definition it_example_seq : list N := [3; 0; 2; 1; 7; 5; 2; 2; 6; 4].
Definition it_example_history : list itop :=
  [INext; ILen; IBack; IBack; INext; ILen; INext; INext; IBack; INext; INext; INext; ILen; INext; IBack; ILen].
Definition it_example_out : list itout :=
  [OSome 3; OLen 9; OSome 4; OSome 6; OSome 0; OLen 6; OSome 2; OSome 1; OSome 2; OSome 7; OSome 5; OSome 2;
   OLen 0; ONone; ONone; OLen 0].

Example g_iter_example :
  deque_run it_example_seq it_example_history = it_example_out /\
  match qwt256_ctor 0 8 it_example_seq with
  | Val f => g_qwtit256_run 8 f 0 (len it_example_seq) it_example_history = Val it_example_out
  | _ => False
  end /\
  match qwt512_ctor 2 8 it_example_seq with
  | Val f => g_qwtit512_run 8 f 0 (len it_example_seq) it_example_history = Val it_example_out
  | _ => False
  end /\
  match wt_ctor 1 8 it_example_seq with
  | Val f => g_wtit_run 8 f 0 (len it_example_seq) it_example_history = Val it_example_out
  | _ => False
  end /\
  match g_qv_from_iter 8 it_example_seq with
  | Val (d, p) => g_qvit_run 12 0 d p
                  = Val [Some 3; Some 0; Some 2; Some 1; Some 3; Some 1; Some 2; Some 2; Some 2; Some 0; None; None]
  | _ => False
  end.
Proof. vm_compute. repeat split; reflexivity. Qed.

(* No mismatch between the generated iterators and the hand model: the twelve next / next_back are EQUAL to
   wtit_next / wtit_next_back (value or fault alike) for all arguments, the six len are wtit_len by conversion; the only
   textual difference (`osub i' 1` where the hand model writes `i' - 1`) cannot fault after `oadd 64 i 1`.
   Remark (QVectorIterator, not a mismatch): its `self.i += 1` is executed on every call, also after the end, so the
   2^64-th call overflows (g_qvit_next_overflow). *)
Print Assumptions g_qwtit256_next_ok.
Print Assumptions g_qwtit256_next_back_ok.
Print Assumptions g_qwtit512_next_ok.
Print Assumptions g_qwtit512_next_back_ok.
Print Assumptions g_hqwtit256_next_ok.
Print Assumptions g_hqwtit256_next_back_ok.
Print Assumptions g_hqwtit512_next_ok.
Print Assumptions g_hqwtit512_next_back_ok.
Print Assumptions g_wtit_next_ok.
Print Assumptions g_wtit_next_back_ok.
Print Assumptions g_hwtit_next_ok.
Print Assumptions g_hwtit_next_back_ok.
Print Assumptions g_run_hand.
Print Assumptions g_qwtit256_run_ok.
Print Assumptions g_qwtit512_run_ok.
Print Assumptions g_hqwtit256_run_ok.
Print Assumptions g_hqwtit512_run_ok.
Print Assumptions g_wtit_run_ok.
Print Assumptions g_hwtit_run_ok.
Print Assumptions g_qwt256_iter_public.
Print Assumptions g_qwt512_iter_public.
Print Assumptions g_wt_iter_public.
Print Assumptions g_wt_iter_built.
Print Assumptions g_hqwt256_iter_built.
Print Assumptions g_hqwt512_iter_built.
Print Assumptions g_hqwt256_iter_new.
Print Assumptions g_hqwt512_iter_new.
Print Assumptions g_hwt_iter_built.
Print Assumptions g_hwt_iter_new.
Print Assumptions g_qwt256_iter_forward_backward.
Print Assumptions g_qvit_next_ok.
Print Assumptions g_qvit_next_overflow.
Print Assumptions g_qv_iter_public.
Print Assumptions g_iter_example.
