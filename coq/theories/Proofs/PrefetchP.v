(* C09: prefetch support (Model/Prefetch.v: PrefetchSupport::new, approx_rank_unchecked and the
   estimation phase of rank_prefetch on QWT*Pfs / HQWT*Pfs trees).

   PROPERTY: prefetching never changes an answer and never causes a fault; the estimates may be
   arbitrarily imprecise.

   Structure:
     PrefetchL.v  the construction loop: four independent components; each sampled vector has
                  [npush D] bits and its first K+1 bits hold  rk D c (min |D| (2048 K + 1)) / 2048  ones
     PrefetchV.v  [pfs_new_spec]: PrefetchSupport::new never faults; approx_rank_unchecked(c, i) is
                  [pfs_val D c i] for i < [pfs_bound D] = 2048 * npush D and a PANIC (None.unwrap())
                  for every other i -- in particular for EVERY i when the level is empty
     PrefetchQ.v  plain quad tree: supports = pfs_spec of the level digit lists; the walk keeps
                  rs <= re <= len seq
     PrefetchH.v  Huffman-shaped tree: the walk keeps rs <= re <= exact position + levels done
     this file    the theorems, the boundary facts, examples, Print Assumptions.

   FINDINGS (none is a reachable fault):
   * npush D = |D|/2048 + 1 (+1 when |D| mod 2048 >= 2) for |D| >= 1, and 0 for |D| = 0
     ([npush_formula], [npush_boundary]); position i = |D| -- and every position up to |D| + 2046 --
     is below the panic bound ([npush_slack]); tight for |D| = 1 mod 2048 ([slack_tight]).
   * approx_rank_unchecked may EXCEED the exact rank by one ([pfs_val_above_rank]: a symbol that
     completes a multiple of 2048 exactly at an index that is a multiple of 2048), so in the
     Huffman-shaped tree the approximate position may leave the next (shorter) level by up to one
     position per level walked; it stays inside the 2047 positions of slack because a code has at
     most 16 fragments (the argument needs: number of fragments - 1 <= 2046).
   * approx_rank_unchecked on the support of an EMPTY level panics for every argument
     ([pfs_empty_level_panics]); no walk reaches an empty level: all levels of the plain tree have
     len seq >= 1 symbols (rank_prefetch answers None for the empty tree before the estimation),
     and level l of the Huffman-shaped tree contains the queried symbol itself for l < code length
     ([exact_inside] in PrefetchH.v). *)
From Coq Require Import ZArith Lia ZifyBool ZifyN ZifyNat.
From QwtModel Require Import ListX Seq Consts QVec RSQ QWT Huff RSBin Prefetch ListXP ConstsOk QVecP RSQList RSQWord RSQBuild RSQP.
From QwtModel Require Import WaveletMatrix QWTArith QWTBuild QWTWalk QWTP HuffWM Codes HQWTBridge HQWTWalks HQWTCode HQWTP.
From QwtModel Require Import PrefetchL PrefetchV PrefetchQ PrefetchH.
Ltac Zify.zify_post_hook ::= Z.div_mod_to_equations.
Arguments N.add : simpl never.
Arguments N.sub : simpl never.
Arguments N.mul : simpl never.
Arguments N.eqb : simpl never.
Arguments N.ltb : simpl never.
Arguments N.leb : simpl never.
Arguments N.pred : simpl never.
Arguments N.of_nat : simpl never.
Arguments N.land : simpl never.
Arguments N.lor : simpl never.
Arguments N.shiftr : simpl never.
Arguments N.shiftl : simpl never.
Arguments N.div : simpl never.
Arguments N.modulo : simpl never.
Arguments N.pow : simpl never.
Arguments N.sqrt : simpl never.
Arguments N.log2 : simpl never.
Arguments N.max : simpl never.
Arguments N.min : simpl never.

(* ---------------------------------------------------------------- bounds of approx_rank *)
(* an upper bound of approx_rank_unchecked(c, i): never above the occurrences of c, never more
   than one above the exact rank (the exact value is [pfs_val], PrefetchV.v) *)
Definition pfs_upper (D : list N) (c i : N) : N := N.min (countN c D) (rk D c i + 1).

Lemma pfs_val_le_upper D c i : pfs_val D c i <= pfs_upper D c i.
Proof.
  unfold pfs_upper. pose proof (pfs_val_le_count D c i). pose proof (pfs_val_le_rank1 D c i). lia.
Qed.

(* the excess over the exact rank is real *)
Definition above_D : list N := 1 :: repeat 0 2048.
Lemma pfs_val_above_rank : pfs_val above_D 0 2048 = 2048 /\ rk above_D 0 2048 = 2047 /\
  2048 < pfs_bound above_D.
Proof. vm_compute. repeat split; reflexivity. Qed.

(* number of pushed bits for the critical lengths, and len D < pfs_bound D in each case *)
Lemma npush_boundary :
  map (fun n => npush (repeat 0 (N.to_nat n))) [0; 1; 2; 2047; 2048; 2049; 2050; 4095; 4096; 4097; 4098] =
  [0; 1; 2; 2; 2; 2; 3; 3; 3; 3; 4].
Proof. vm_compute. reflexivity. Qed.
(* the slack of npush_slack cannot be improved: |D| = 2049 has 2 pushes, bound 4096 = |D| + 2047 *)
Lemma slack_tight : pfs_bound (repeat 0 2049) = len (repeat 0 2049) + 2047.
Proof. vm_compute. reflexivity. Qed.

Section Prefetch.
Hypothesis select_in_word_correct : forall w k, w < 2 ^ 64 -> k < 128 ->
  select_in_word w k = Val (match select_spec (bits_of 64 w) 1 k with Some p => p | None => 64 end).
Hypothesis popcount_correct : forall n x, x < 2 ^ N.of_nat n -> popcount x = countN 1 (bits_of n x).

Notation PNEW := (pfs_new_spec select_in_word_correct popcount_correct).

(* ---------------------------------------------------------------- 1. the sampled vectors *)
(* pfs_bound D = 2048 * npush D is the FIRST position at which approx_rank_unchecked panics, hence
   the strict inequality (for an empty level pfs_bound D = 0: no position is admitted) *)
Theorem pfs_new_ok : forall D, Forall (fun x => x < 4) D -> len D < 2 ^ 43 ->
  exists p, pfs_new D 11 = Val p /\ pf_shift p = 11 /\ len (pf_samples p) = 4 /\
  forall c i, c < 4 -> i < pfs_bound D ->
    exists v, pfs_approx_rank p c i = Val v /\ v = pfs_val D c i /\ v <= pfs_upper D c i.
Proof.
  intros D HF Hlen. destruct (PNEW D HF Hlen) as (p & Ep & Hs & Hl & Hp).
  exists p. split; [exact Ep|]. split; [exact Hs|]. split; [exact Hl|].
  intros c i Hc Hi. exists (pfs_val D c i). rewrite (Hp c i Hc).
  destruct (N.ltb_spec i (pfs_bound D)); [|lia].
  split; [reflexivity|]. split; [reflexivity|apply pfs_val_le_upper].
Qed.

(* ... and it is monotone in the position *)
Theorem pfs_approx_rank_mono : forall D p, Forall (fun x => x < 4) D -> len D < 2 ^ 43 -> pfs_new D 11 = Val p ->
  forall c i j, c < 4 -> i <= j -> j < pfs_bound D ->
  exists a b, pfs_approx_rank p c i = Val a /\ pfs_approx_rank p c j = Val b /\ a <= b.
Proof.
  intros D p HF Hlen Ep c i j Hc Hij Hj. destruct (PNEW D HF Hlen) as (p' & Ep' & _ & _ & Hp).
  rewrite Ep in Ep'. injection Ep' as <-.
  exists (pfs_val D c i), (pfs_val D c j). rewrite !Hp by exact Hc.
  destruct (N.ltb_spec i (pfs_bound D)); [|lia]. destruct (N.ltb_spec j (pfs_bound D)); [|lia].
  split; [reflexivity|]. split; [reflexivity|now apply pfs_val_mono].
Qed.

(* beyond the bound: None.unwrap() *)
Theorem pfs_approx_rank_out_of_range : forall D p, Forall (fun x => x < 4) D -> len D < 2 ^ 43 ->
  pfs_new D 11 = Val p -> forall c i, c < 4 -> pfs_bound D <= i -> pfs_approx_rank p c i = Fault Panic.
Proof.
  intros D p HF Hlen Ep c i Hc Hi. destruct (PNEW D HF Hlen) as (p' & Ep' & _ & _ & Hp).
  rewrite Ep in Ep'. injection Ep' as <-. rewrite Hp by exact Hc.
  destruct (N.ltb_spec i (pfs_bound D)); [lia|reflexivity].
Qed.
Corollary pfs_empty_level_panics : forall p, pfs_new [] 11 = Val p ->
  forall c i, c < 4 -> pfs_approx_rank p c i = Fault Panic.
Proof.
  intros p Ep c i Hc. apply (pfs_approx_rank_out_of_range [] p); try assumption; [constructor|reflexivity|].
  change (pfs_bound []) with 0. lia.
Qed.
(* a position up to the length of a non empty level (and 2046 more) is admitted *)
Corollary pfs_len_in_range : forall D, D <> [] -> len D + 2046 < pfs_bound D.
Proof. intros D HD. pose proof (npush_slack D HD). unfold pfs_bound. lia. Qed.

(* ---------------------------------------------------------------- 2. the plain quad tree *)
Theorem qwt_pfs_new_total : forall w seq, QWTP.width_ok w -> Forall (fun x => x < 2 ^ w) seq ->
  len seq < RSQ_MAXN -> exists pfs, qwt_pfs_new w seq = Val pfs.
Proof.
  intros w seq Hwok HF Hn. destruct seq as [|x0 seq'] eqn:Eseq; [exists []; reflexivity|].
  rewrite <- Eseq in *. assert (Hne : seq <> []) by (rewrite Eseq; discriminate).
  destruct (qwt_pfs_new_ok select_in_word_correct popcount_correct w seq Hwok HF Hn Hne) as (pfs & E & _).
  exists pfs. exact E.
Qed.

Theorem qwt_rank_prefetch_pfs_correct : forall w bsize seq t pfs, QWTP.width_ok w ->
  (bsize = 256 \/ bsize = 512) ->
  Forall (fun x => x < 2 ^ w) seq -> len seq < RSQ_MAXN ->
  qwt_new w bsize seq = Val t -> qwt_pfs_new w seq = Val pfs ->
  forall c i, c < 2 ^ w -> qwt_rank_prefetch_pfs w bsize t pfs c i = qwt_rank w bsize t c i.
Proof.
  intros w bsize seq t pfs Hwok Hb HF Hn Et Ep c i _.
  assert (Hwpos : 0 < w) by (unfold QWTP.width_ok in Hwok; lia).
  destruct seq as [|x0 seq'] eqn:Eseq.
  - (* empty tree: None before any estimation *)
    unfold qwt_new in Et. destruct (rsq_default bsize) as [d|f]; cbn [bind] in Et; [|discriminate Et].
    injection Et as <-. unfold qwt_rank_prefetch_pfs, qwt_rank. cbn [q_n].
    change (0 =? 0) with true. rewrite !orb_true_r. reflexivity.
  - rewrite <- Eseq in *. assert (Hne : seq <> []) by (rewrite Eseq; discriminate).
    assert (Hlen0 : len seq <> 0) by (rewrite Eseq, len_cons; lia).
    destruct (qwt_pfs_new_ok select_in_word_correct popcount_correct w seq Hwok HF Hn Hne) as (pfs' & Ep' & HP).
    rewrite Ep in Ep'. injection Ep' as <-.
    assert (Enew : qwt_new w bsize seq =
              let! s0 := osub (levels_of seq) 1 in
              let! qvs := qwt_levels w bsize seq (2 * s0) (N.to_nat (levels_of seq)) in
              Val {| q_n := len seq; q_n_levels := levels_of seq; q_sigma := maxN seq; q_qvs := qvs |}).
    { rewrite Eseq. reflexivity. }
    rewrite Enew in Et. clear Enew Eseq x0 seq'.
    set (L := N.to_nat (levels_of seq)) in *.
    assert (HLN : levels_of seq = N.of_nat L) by (unfold L; lia).
    pose proof (qlevels_pos seq) as Hpos. rewrite <- levels_of_qlevels in Hpos.
    assert (HL : (0 < L)%nat) by lia.
    assert (Hpow : 0 < 2 ^ w) by (apply N.neq_0_lt_0, N.pow_nonzero; lia).
    pose proof (maxN_lt seq (2 ^ w) Hpow HF) as Hmax.
    pose proof (qlevels_shift seq w Hwpos Hmax) as Hsh. rewrite <- levels_of_qlevels, HLN in Hsh.
    assert (Hw : 2 * N.of_nat (L - 1) < w) by lia.
    unfold osub in Et. replace (1 <=? levels_of seq) with true in Et by lia. cbn [bind] in Et.
    replace (2 * (levels_of seq - 1)) with (2 * N.of_nat (L - 1)) in Et by lia.
    destruct (qwt_levels_tree w bsize L seq Hb Hn HL Hw) as (qvs & Eq & HT & _).
    rewrite Eq in Et. cbn [bind] in Et. injection Et as <-.
    assert (Hlen64 : len seq < 2 ^ 64).
    { rewrite RSQ_MAXN_val in Hn. change (2 ^ 64) with 18446744073709551616. lia. }
    unfold qwt_rank_prefetch_pfs, qwt_rank. cbn [q_n q_sigma].
    destruct (N.ltb_spec (len seq) i) as [Hgt|Hi]; [reflexivity|]. cbn [orb].
    destruct ((maxN seq <? c) || (len seq =? 0)); [reflexivity|].
    set (t := {| q_n := len seq; q_n_levels := levels_of seq; q_sigma := maxN seq; q_qvs := qvs |}).
    destruct (qwt_pfs_estimate_ok select_in_word_correct popcount_correct w bsize L seq qvs pfs HT HP HL Hw
                Hlen0 c i t HLN eq_refl Hi) as (v & Ev).
    rewrite Ev. cbn [bind].
    rewrite (prefetch_unchecked_eq w bsize L seq qvs HT HL Hw Hlen64 c i t HLN eq_refl Hi). reflexivity.
Qed.

(* ---------------------------------------------------------------- 3. the Huffman-shaped tree *)
Theorem hq_pfs_new_total : forall w seq tab, HQWTP.width_ok w -> Forall (fun x => x < 2 ^ w) seq ->
  len seq < RSQ_MAXN -> table_ok seq tab -> exists pfs, hq_pfs_new seq tab = Val pfs.
Proof.
  intros w seq tab _ _ Hn (Htab & Hwf & _). destruct seq as [|x0 seq'] eqn:Eseq; [exists []; reflexivity|].
  rewrite <- Eseq in *. assert (Hne : seq <> []) by (rewrite Eseq; discriminate).
  destruct (hq_pfs_new_ok select_in_word_correct popcount_correct tab seq Htab Hwf Hn Hne) as (pfs & E & _).
  exists pfs. exact E.
Qed.

Theorem hq_rank_prefetch_pfs_correct : forall w bsize seq tab t pfs, HQWTP.width_ok w ->
  (bsize = 256 \/ bsize = 512) ->
  Forall (fun x => x < 2 ^ w) seq -> len seq < RSQ_MAXN -> table_ok seq tab ->
  hq_build bsize seq tab = Val t -> hq_pfs_new seq tab = Val pfs ->
  forall c i, c < 2 ^ w -> hq_rank_prefetch_pfs bsize t pfs c i = hq_rank bsize t c i.
Proof.
  intros w bsize seq tab t pfs _ Hb HF Hn (Htab & Hwf & Hocc & Hok & Hdist) Et Ep c i _.
  destruct seq as [|x0 seq'].
  - (* empty tree: no symbol has a code *)
    unfold hq_build in Et. destruct (rsq_default bsize) as [d|f]; cbn [bind] in Et; [|discriminate Et].
    injection Et as <-.
    assert (EC : hq_code_of (mk_hq 0 0 [] [] [d] [0]) c = None).
    { unfold hq_code_of. cbn [h_codes]. change (len (@nil pcode)) with 0.
      destruct (N.leb_spec 0 (sym_index c)); [|lia]. now rewrite orb_true_r. }
    unfold hq_rank_prefetch_pfs, hq_rank. now rewrite EC.
  - rewrite hq_build_cons in Et. set (s := x0 :: seq') in *.
    assert (Hne : s <> []) by discriminate.
    specialize (Hok s (fun x H => H)).
    assert (HT : fin_tail tab s 0 []) by (intros x []).
    destruct (hq_levels_ok tab s Htab Hwf bsize Hb Hn (N.to_nat ((maxN (map pc_len tab)) / 2)) 0%nat [] HT)
      as (qvs & lens & E & H1 & H2).
    cbn [Q] in E. rewrite app_nil_r in E. change (2 * (N.of_nat 0 + 1)) with 2 in E.
    rewrite E in Et. cbn [bind] in Et. injection Et as <-.
    assert (LV0 : forall l, (l < N.to_nat ((maxN (map pc_len tab)) / 2))%nat ->
              nthN (hwm_levels N 4 (code_dig 2 tab) (code_clen 2 tab) 0 (N.to_nat ((maxN (map pc_len tab)) / 2)) s) (N.of_nat l) =
              Some (map (code_dig 2 tab l) (Q N 4 (code_dig 2 tab) (code_clen 2 tab) l s))).
    { intros l Hl. exact (LV_nth tab s Htab _ 0%nat l Hl). }
    assert (LOK : forall l, (l < N.to_nat ((maxN (map pc_len tab)) / 2))%nat ->
              exists r, nthN qvs (N.of_nat l) = Some r /\
                rsq_spec bsize r (map (code_dig 2 tab l) (Q N 4 (code_dig 2 tab) (code_clen 2 tab) l s))).
    { intros l Hl. destruct (Forall2_nthN _ _ _ H1 _ _ (LV0 l Hl)) as (r & Er & Hr). eauto. }
    assert (LENS : forall l, (l < N.to_nat ((maxN (map pc_len tab)) / 2))%nat ->
              nthN lens (N.of_nat l) = Some (len (Q N 4 (code_dig 2 tab) (code_clen 2 tab) l s))).
    { intros l Hl. rewrite H2, nthN_map, (LV0 l Hl). cbn [option_map]. now rewrite len_map. }
    destruct (hq_pfs_new_ok select_in_word_correct popcount_correct tab s Htab Hwf Hn Hne) as (pfs' & Ep' & POK).
    rewrite Ep in Ep'. injection Ep' as <-.
    unfold hq_rank_prefetch_pfs, hq_rank. cbn [h_n].
    destruct (N.ltb_spec (len s) i) as [Hgt|Hi]; [reflexivity|].
    destruct (in_dec N.eq_dec c s) as [Hc|Hc].
    + destruct (in_seq_code tab s Htab Hwf c Hc) as (code & HFc).
      rewrite (code_of_in w bsize tab s Hb HF Hn Htab Hwf Hocc Hok Hdist qvs lens LOK LENS c code Hc HFc).
      pose proof (clen_le_M w bsize tab s Hb HF Hn Htab Hwf Hocc Hok Hdist qvs lens LOK LENS c Hc) as HcM.
      destruct (hq_pfs_estimate_ok select_in_word_correct popcount_correct tab s Htab Hwf Hn bsize qvs pfs
                  (N.to_nat ((maxN (map pc_len tab)) / 2)) LOK POK Hok c code i ((maxN (map pc_len tab)) / 2) (decode_tables tab (maxN (map pc_len tab))) lens Hc HFc HcM Hi)
        as (v & Ev).
      rewrite Ev. cbn [bind].
      rewrite (rank_prefetch_unchecked_ok w bsize tab s Hb HF Hn Htab Hwf Hocc Hok Hdist qvs lens LOK LENS c i Hc Hi).
      rewrite (rank_unchecked_ok w bsize tab s Hb HF Hn Htab Hwf Hocc Hok Hdist qvs lens LOK LENS c i Hc Hi).
      reflexivity.
    + rewrite (code_of_notin w bsize tab s Hb HF Hn Htab Hwf Hocc Hok Hdist qvs lens LOK LENS c Hc).
      reflexivity.
Qed.

End Prefetch.

(* ---------------------------------------------------------------- examples *)
(* 5000 symbols below 60: 3 levels, 3 pushes per vector; u8 *)
Definition pf_ex_seq : list N := map (fun i => (i * i * 7 + 3 * i) mod 60) (seqN 0 5000).
Definition pf_ex_queries : list (N * N) :=
  [(10, 5000); (54, 3000); (0, 2048); (0, 2049); (3, 4097); (58, 1); (25, 4096); (25, 4999); (33, 0);
   (60, 10); (7, 5001)].
Definition pf_ex_checks (bsize : N) : Prop :=
  match qwt_new 8 bsize pf_ex_seq, qwt_pfs_new 8 pf_ex_seq with
  | Val t, Val pfs =>
      q_n_levels t = 3 /\ len pfs = 3 /\
      map (fun '(c, i) => qwt_rank_prefetch_pfs 8 bsize t pfs c i) pf_ex_queries =
      map (fun '(c, i) => qwt_rank 8 bsize t c i) pf_ex_queries /\
      map (fun '(c, i) => qwt_rank 8 bsize t c i) pf_ex_queries =
      map (fun '(c, i) => if (i <=? 5000) && (c <=? maxN pf_ex_seq) then Val (Some (rank_spec pf_ex_seq c i)) else Val None)
          pf_ex_queries /\
      (* the estimation itself returns a value *)
      map (fun '(c, i) => is_val (qwt_pfs_estimate 8 t pfs c i)) [(10, 5000); (25, 4096); (0, 2048)] = [true; true; true]
  | _, _ => False
  end.
Example pf_example_256 : pf_ex_checks 256.
Proof. vm_compute. repeat split; reflexivity. Qed.
Example pf_example_512 : pf_ex_checks 512.
Proof. vm_compute. repeat split; reflexivity. Qed.

(* Huffman-shaped: 7500 symbols, levels of 7500 and 2500 symbols *)
Definition pf_hex_seq : list N := concat (repeat hq_ex_seq 250).
Definition pf_hex_queries : list (N * N) :=
  [(0, 7500); (2, 4096); (2, 4097); (5, 2048); (9, 7500); (0, 6145); (1, 10); (0, 7501)].
Example pf_hex_example :
  match hq_build 256 pf_hex_seq hq_ex_tab, hq_pfs_new pf_hex_seq hq_ex_tab with
  | Val t, Val pfs =>
      h_lens t = [7500; 2500] /\ len pfs = 2 /\
      map (fun '(c, i) => hq_rank_prefetch_pfs 256 t pfs c i) pf_hex_queries =
      map (fun '(c, i) => hq_rank 256 t c i) pf_hex_queries /\
      hq_rank 256 t 0 7500 = Val (Some 1250) /\
      map (fun '(c, i) => is_val (hq_pfs_estimate t pfs c i)) [(0, 7500); (2, 4096)] = [true; true]
  | _, _ => False
  end.
Proof. vm_compute. repeat split; reflexivity. Qed.

Print Assumptions pfs_new_ok.
Print Assumptions pfs_approx_rank_mono.
Print Assumptions pfs_approx_rank_out_of_range.
Print Assumptions pfs_empty_level_panics.
Print Assumptions pfs_len_in_range.
Print Assumptions qwt_pfs_new_total.
Print Assumptions qwt_rank_prefetch_pfs_correct.
Print Assumptions hq_pfs_new_total.
Print Assumptions hq_rank_prefetch_pfs_correct.
Print Assumptions pfs_val_above_rank.
Print Assumptions npush_boundary.
Print Assumptions npush_count.
Print Assumptions pf_example_256.
Print Assumptions pf_example_512.
Print Assumptions pf_hex_example.
