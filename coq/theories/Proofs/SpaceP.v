(* C16 / C14: the size model of Model/Space.v.

   TASK A (C16, "reported space usage matches the memory actually retained"): for EVERY model
   state, [*_space] (what space_usage_byte() reports) and [*_heap] (the heap bytes kept alive)
   differ by explicit per-component constants only:
     rsq_space_heap, rsn_space_heap, rsw_space_heap, da_space_heap, pfs_space_heap,
     qwt_space_heap, wt_space_heap; property level: qwt_report_close, wt_report_close;
     qwt_new_space_heap (the side condition of qwt_space_heap holds for every built tree).

   TASK B (C14, "plain trees stay within their stated space overhead"): closed-form bounds on the
   retained heap bytes as a function of the input length, for every input:
     rsq_heap_exact / rsq_heap_bound (one level), qwt_heap_bound (the tree),
     rsw_heap_bound, rsn_heap_bound (binary rank/select), pfs_heap_bound(_sharp) (prefetch support),
     qwt_pfs_heap_bound (the tree with prefetch support).
   The length facts come from the construction invariants of RSQBuild.v ([binv]: sample counts,
   [dir_ok]: superblock count) and QVecP.v ([qvb_inv]: line count); for RSWide / RSNarrow /
   PrefetchSupport they are proved here by length-only inductions over rsw_loop / rsn_loop /
   pfs_loop (no premise on popcount or select_in_word is needed: popcount w <= 64 is proved from
   the definition). *)
From Coq Require Import ZArith Lia ZifyBool ZifyN ZifyNat.
From QwtModel Require Import ListX Seq Consts QVec RSQ QWT BitVec RSBin DArrayM Prefetch Space.
From QwtModel Require Import ListXP ConstsOk QVecP RSQBits RSQWord RSQList RSQBuild RSQP.
From QwtModel Require Import WaveletMatrix QWTArith QWTBuild QWTP BitsLib BitVecP RSBinL RSBinB RSBinN RSBinW.
Ltac Zify.zify_post_hook ::= Z.div_mod_to_equations.
Arguments N.add : simpl never.
Arguments N.sub : simpl never.
Arguments N.mul : simpl never.
Arguments N.eqb : simpl never.
Arguments N.ltb : simpl never.
Arguments N.leb : simpl never.
Arguments N.pred : simpl never.
Arguments N.of_nat : simpl never.
Arguments N.land : simpl never.
Arguments N.lor : simpl never.
Arguments N.lxor : simpl never.
Arguments N.shiftr : simpl never.
Arguments N.shiftl : simpl never.
Arguments N.div : simpl never.
Arguments N.modulo : simpl never.
Arguments N.pow : simpl never.
Arguments N.sqrt : simpl never.
Arguments N.log2 : simpl never.
Arguments N.max : simpl never.
Arguments N.testbit : simpl never.
(* ================================================================== generic sums *)
Lemma sumN_app l1 l2 : sumN (l1 ++ l2) = sumN l1 + sumN l2.
Proof. induction l1 as [|x l1 IH]; cbn [app sumN]; [lia|]. rewrite IH. lia. Qed.

Lemma sumN_map_add {A} (f g : A -> N) (k : N) (l : list A) :
  (forall x, f x = g x + k) -> sumN (map f l) = sumN (map g l) + k * len l.
Proof.
  intros H. induction l as [|x l IH]; cbn [map sumN]; [lens; lia|].
  rewrite IH, H, len_cons. lia.
Qed.

Lemma sumN_map_add_Forall {A} (P : A -> Prop) (f g : A -> N) (k : N) (l : list A) :
  (forall x, P x -> f x = g x + k) -> Forall P l -> sumN (map f l) = sumN (map g l) + k * len l.
Proof.
  intros H HF. induction HF as [|x l Hx HF IH]; cbn [map sumN]; [lens; lia|].
  rewrite IH, (H x Hx), len_cons. lia.
Qed.

Lemma sumN_map_le {A} (P : A -> Prop) (f : A -> N) (B : N) (l : list A) :
  (forall x, P x -> f x <= B) -> Forall P l -> sumN (map f l) <= B * len l.
Proof.
  intros H HF. induction HF as [|x l Hx HF IH]; cbn [map sumN]; [lens; lia|].
  specialize (H x Hx). rewrite len_cons. lia.
Qed.

Lemma sum_samples_4 (ss : list (list N)) : len ss = 4 ->
  sumN (map (fun s => 16 + 4 * len s) ss) = 64 + 4 * sum_lens ss.
Proof.
  intros H. unfold sum_lens.
  rewrite (sumN_map_add (fun s : list N => 16 + 4 * len s) (fun s => 4 * len s) 16) by (intros; lia).
  rewrite H. clear H. induction ss as [|s ss IH]; cbn [map sumN]; [reflexivity|]. lia.
Qed.

(* ================================================================== TASK A (C16) *)
Theorem rsq_space_heap : forall r, len (rs_samples (rsq_rs r)) = 4 -> rsq_space r = rsq_heap r + 144.
Proof.
  intros r H. unfold rsq_space, rsq_heap, qv_space, qv_heap, rss_space, rss_heap.
  rewrite (sum_samples_4 _ H). lia.
Qed.

Theorem rsn_space_heap : forall r, rsn_space r = rsn_heap r + 80.
Proof. intros r. unfold rsn_space, rsn_heap, bv_space, bv_heap. lia. Qed.

(* size_of::<RSWide>() = 88 (measured): n_zeros (8 bytes) is not reported; stated abi-independently *)
Theorem rsw_space_heap : forall r, rsw_space r + 16 = rsw_heap r + 96.
Proof. intros r. unfold rsw_space, rsw_heap, bv_space, bv_heap. lia. Qed.

Lemma inv_space_heap i : inv_space i = inv_heap i + 56.
Proof. unfold inv_space, inv_heap. lia. Qed.

Theorem da_space_heap : forall d,
  da_space d = da_heap d + 32 + 56 + (match da_zeros d with Some _ => 56 | None => 0 end).
Proof.
  intros d. unfold da_space, da_heap, bv_space, bv_heap. rewrite inv_space_heap.
  destruct (da_zeros d) as [z|]; [rewrite inv_space_heap|]; lia.
Qed.

Theorem pfs_space_heap : forall p, pfs_space p = pfs_heap abi64 p.
Proof.
  intros p. unfold pfs_space, pfs_heap. cbn [sz_rsn abi64].
  rewrite (sumN_map_add rsn_space rsn_heap 80) by apply rsn_space_heap. lia.
Qed.

Lemma sum_pfs_space ps : sumN (map pfs_space ps) = sumN (map (pfs_heap abi64) ps).
Proof. f_equal. apply map_ext. apply pfs_space_heap. Qed.

Theorem qwt_space_heap : forall t pfs,
  Forall (fun r => len (rs_samples (rsq_rs r)) = 4) (q_qvs t) ->
  qwt_space t pfs + (match pfs with Some ps => 32 * len ps | None => 0 end) = qwt_heap abi64 t pfs + 16.
Proof.
  intros t pfs HF. unfold qwt_space, qwt_heap. cbn [sz_rsq sz_pfs abi64].
  rewrite (sumN_map_add_Forall _ rsq_space rsq_heap 144 _ rsq_space_heap HF).
  destruct pfs as [ps|]; [rewrite sum_pfs_space|]; lia.
Qed.

Theorem wt_space_heap : forall t, wt_space false t + 8 * len (w_bvs t) = wt_heap_plain abi64 t + 16.
Proof.
  intros t. unfold wt_space, wt_heap_plain. cbn [sz_rsw abi64].
  assert (E : sumN (map rsw_space (w_bvs t)) + 8 * len (w_bvs t) = sumN (map rsw_heap (w_bvs t)) + 88 * len (w_bvs t)).
  { induction (w_bvs t) as [|r l IH]; cbn [map sumN]; [reflexivity|].
    pose proof (rsw_space_heap r). rewrite !len_cons. lia. }
  lia.
Qed.

(* the property-level statement: reported and retained differ by explicit constants only *)
Corollary qwt_report_close : forall t pfs inline,
  Forall (fun r => len (rs_samples (rsq_rs r)) = 4) (q_qvs t) -> inline <= 128 ->
  qwt_space t pfs <= qwt_heap abi64 t pfs + inline + 16 /\
  qwt_heap abi64 t pfs + inline <=
    qwt_space t pfs + (match pfs with Some ps => 32 * len ps | None => 0 end) + 128.
Proof.
  intros t pfs inline HF Hi. pose proof (qwt_space_heap t pfs HF) as E. lia.
Qed.

Corollary wt_report_close : forall t inline, inline <= 128 ->
  wt_space false t <= wt_heap_plain abi64 t + inline + 16 /\
  wt_heap_plain abi64 t + inline <= wt_space false t + 16 * len (w_bvs t) + 128.
Proof. intros t inline Hi. pose proof (wt_space_heap t) as E. lia. Qed.
(* ================================================================== TASK B (C14): RSQVector *)
Ltac dbind H :=
  match type of H with
  | bind ?x _ = Val _ => let E := fresh "E" in destruct x eqn:E; cbn [bind] in H; [|discriminate H]
  end.

(* number of u32 select samples the four lists hold: per symbol, one entry per 8192 occurrences
   (rounded up, at least one) plus the sentinel *)
Definition sample_entries (s : list N) : N :=
  (N.max 1 ((countN 0 s + 8191) / 8192) + 1) + (N.max 1 ((countN 1 s + 8191) / 8192) + 1) +
  (N.max 1 ((countN 2 s + 8191) / 8192) + 1) + (N.max 1 ((countN 3 s + 8191) / 8192) + 1).

Lemma count4_le_len s : countN 0 s + countN 1 s + countN 2 s + countN 3 s <= len s.
Proof.
  induction s as [|x s IH]; cbn [countN]; [lens; lia|]. rewrite len_cons.
  destruct (N.eqb_spec x 0), (N.eqb_spec x 1), (N.eqb_spec x 2), (N.eqb_spec x 3); lia.
Qed.

Lemma sample_entries_bound s : 8 <= sample_entries s /\ sample_entries s <= len s / 8192 + 8.
Proof. pose proof (count4_le_len s). unfold sample_entries. lia. Qed.

Lemma rss_new_samples bsize s r : rss_new bsize s = Val r ->
  exists st sent,
    rsb_loop bsize (mk_rsb 0 [0;0;0;0] [0;0;0;0] [0;0;0;0] [[];[];[];[]] []) s = Val st /\
    rs_samples r = map (fun sl => rev (sent :: (match sl with [] => [0] | _ => sl end))) (b_samples st).
Proof.
  unfold rss_new. intros H. dbind H. dbind H. dbind H. dbind H. dbind H.
  injection H as <-. cbn [rs_samples]. eexists _, _. split; reflexivity.
Qed.

Lemma len_final_sample sent (sl : list N) :
  len (rev (sent :: (match sl with [] => [0] | _ => sl end))) = N.max 1 (len sl) + 1.
Proof.
  rewrite len_rev, len_cons. destruct sl as [|x sl]; [reflexivity|]. rewrite !len_cons. lia.
Qed.

Lemma rss_new_lens bsize s r : bsz bsize -> len s < RSQ_MAXN -> Forall (fun x => x < 4) s ->
  rss_new bsize s = Val r ->
  len (rs_superblocks r) = len s / (8 * bsize) + 1 /\ len (rs_samples r) = 4 /\
  sum_lens (rs_samples r) = sample_entries s.
Proof.
  intros Hb Hn HF E. split.
  - destruct (rss_new_ok bsize s Hb Hn HF) as (r' & E' & Hd & _). rewrite E in E'. injection E' as <-. exact Hd.
  - destruct (rss_new_samples bsize s r E) as (st & sent & El & Es).
    assert (Hn43 : len s < 2 ^ 43) by (rewrite RSQ_MAXN_val in Hn; norm_pow; lia).
    destruct (rsb_loop_inv bsize s Hb Hn43 HF) as (st' & El' & Hinv). rewrite El in El'. injection El' as <-.
    destruct Hinv as (_ & _ & _ & _ & (sm & Hsm & Hsamp) & _).
    rewrite Es, Hsm, map_vec4. split; [reflexivity|].
    unfold sum_lens, vec4. cbn [map sumN]. rewrite !len_final_sample.
    destruct (Hsamp 0 ltac:(lia)) as (L0 & _). destruct (Hsamp 1 ltac:(lia)) as (L1 & _).
    destruct (Hsamp 2 ltac:(lia)) as (L2 & _). destruct (Hsamp 3 ltac:(lia)) as (L3 & _).
    rewrite L0, L1, L2, L3. rewrite !rk_all by lia. unfold sample_entries. lia.
Qed.

(* exact size of the directory + data of one level *)
Lemma rsq_from_qv_heap bsize q s r : bsz bsize -> qvb_inv q s -> Forall (fun x => x < 4) s ->
  len s < RSQ_MAXN -> rsq_from_qv bsize q = Val r ->
  rsq_heap r = 64 * ((len s + 255) / 256) + 64 * (len s / (8 * bsize) + 1) + 4 * sample_entries s /\
  len (rs_samples (rsq_rs r)) = 4.
Proof.
  intros Hb Hq HF Hn E. unfold rsq_from_qv in E. rewrite (qv_symbols_inv q s Hq) in E. cbn [bind] in E.
  dbind E. injection E as <-. cbn [rsq_rs].
  destruct (rss_new_lens bsize s _ Hb Hn HF E0) as (H1 & H2 & H3).
  split; [|exact H2]. unfold rsq_heap, qv_heap, rss_heap. cbn [rsq_qv rsq_rs].
  destruct Hq as (_ & _ & Hl & _). rewrite Hl, H1, H3. lia.
Qed.

Lemma rsq_new_inv bsize vs r : rsq_new bsize vs = Val r ->
  exists q, qvb_inv q (map sym4 vs) /\ rsq_from_qv bsize q = Val r.
Proof.
  unfold rsq_new. intros E.
  destruct (qvb_push_all_inv (map (fun v => v mod 256) vs) qvb_new [] qvb_inv_new) as (q & Eq & Hq).
  rewrite Eq in E. cbn [bind app] in *.
  assert (Es : map sym4 (map (fun v => v mod 256) vs) = map sym4 vs).
  { rewrite map_map. apply map_ext. intros v. unfold sym4. lia. }
  rewrite Es in Hq. exists q. split; assumption.
Qed.

Lemma Forall_sym4 vs : Forall (fun x => x < 4) (map sym4 vs).
Proof. apply Forall_forall. intros x Hx. apply in_map_iff in Hx. destruct Hx as (v & <- & _). apply sym4_lt. Qed.

Lemma len_map' {A B} (f : A -> B) l : len (map f l) = len l.
Proof. unfold len. now rewrite map_length. Qed.

Theorem rsq_heap_exact : forall bsize vs r, (bsize = 256 \/ bsize = 512) -> len vs < RSQ_MAXN ->
  rsq_new bsize vs = Val r ->
  rsq_heap r = 64 * ((len vs + 255) / 256) + 64 * (len vs / (8 * bsize) + 1) + 4 * sample_entries (map sym4 vs) /\
  len (rs_samples (rsq_rs r)) = 4.
Proof.
  intros bsize vs r Hb Hn E. destruct (rsq_new_inv bsize vs r E) as (q & Hq & Eq).
  pose proof (rsq_from_qv_heap bsize q (map sym4 vs) r Hb Hq (Forall_sym4 vs)) as H.
  rewrite len_map' in H. apply H; assumption.
Qed.

(* one level: 2 bits per symbol in 64-byte lines, one 64-byte superblock record per 8 blocks,
   4-byte select samples every 8192 occurrences (4 lists, each with a first entry and a sentinel) *)
Theorem rsq_heap_bound : forall bsize vs r, (bsize = 256 \/ bsize = 512) -> len vs < RSQ_MAXN ->
  rsq_new bsize vs = Val r ->
  rsq_heap r <= len vs / 4 + 64 + (len vs / (8 * bsize) + 1) * 64 + (len vs / 2048 + 32).
Proof.
  intros bsize vs r Hb Hn E. destruct (rsq_heap_exact bsize vs r Hb Hn E) as (-> & _).
  pose proof (sample_entries_bound (map sym4 vs)) as (_ & Hs). rewrite len_map' in Hs.
  destruct Hb as [-> | ->]; lia.
Qed.
(* ================================================================== TASK B (C14): QWaveletTree *)
Definition rsq_level_bytes (bsize n : N) : N :=
  64 * ((n + 255) / 256) + 64 * (n / (8 * bsize) + 1) + 4 * (n / 8192 + 8).

Definition level_ok (bsize n : N) (r : rsq) : Prop :=
  rsq_heap r <= rsq_level_bytes bsize n /\ len (rs_samples (rsq_rs r)) = 4.

Lemma rsq_from_qv_level bsize q s r : bsz bsize -> qvb_inv q s -> Forall (fun x => x < 4) s ->
  len s < RSQ_MAXN -> rsq_from_qv bsize q = Val r -> level_ok bsize (len s) r.
Proof.
  intros Hb Hq HF Hn E. destruct (rsq_from_qv_heap bsize q s r Hb Hq HF Hn E) as (H1 & H2).
  split; [|exact H2]. rewrite H1. unfold rsq_level_bytes.
  pose proof (sample_entries_bound s). lia.
Qed.

Lemma qwt_levels_heap w bsize L s : (bsize = 256 \/ bsize = 512) -> len s < RSQ_MAXN ->
  2 * N.of_nat (L - 1) < w ->
  forall n l0 shift rs, (l0 + n = L)%nat -> ((0 < n)%nat -> shift = 2 * N.of_nat (L - 1 - l0)) ->
  qwt_levels w bsize (qlev L l0 s) shift n = Val rs ->
  len rs = N.of_nat n /\ Forall (level_ok bsize (len s)) rs.
Proof.
  intros Hb Hn Hw. induction n as [|n IH]; intros l0 shift rs Hl Hs E.
  - cbn [qwt_levels] in E. injection E as <-. split; [reflexivity|constructor].
  - rewrite (Hs ltac:(lia)) in E. clear Hs shift. cbn [qwt_levels] in E.
    assert (Hsh : 2 * N.of_nat (L - 1 - l0) < w) by lia.
    rewrite (mapo_val _ (qdig L l0)) in E by (intros x _; now apply two_bits_qdig).
    cbn [bind] in E. fold (qD L l0 s) in E.
    destruct (qvb_push_all_inv (qD L l0 s) qvb_new [] qvb_inv_new) as (q & Eq & Hq).
    rewrite Eq in E. cbn [bind] in E. cbn [app] in Hq. rewrite (map_sym4_id _ (qD_lt4 L l0 s)) in Hq.
    dbind E. rename a into r. rename E0 into Er.
    rewrite (stable_partition_parts w L l0 _ Hsh) in E. cbn [bind] in E. rewrite <- qlev_S in E.
    dbind E. rename a into rest. rename E0 into Erest. injection E as <-.
    destruct (IH (S l0) (if 2 <=? 2 * N.of_nat (L - 1 - l0) then 2 * N.of_nat (L - 1 - l0) - 2
                         else 2 * N.of_nat (L - 1 - l0)) rest ltac:(lia)) as (IH1 & IH2); [| exact Erest |].
    { intros Hn0. replace (2 <=? 2 * N.of_nat (L - 1 - l0)) with true by lia. lia. }
    split; [rewrite len_cons, IH1; lia|]. constructor; [|exact IH2].
    pose proof (rsq_from_qv_level bsize q (qD L l0 s) r Hb Hq (qD_lt4 L l0 s)) as H.
    rewrite qD_len in H. apply H; assumption.
Qed.

Lemma qlev_0 L s : qlev L 0 s = s.
Proof. reflexivity. Qed.

Lemma levels_of_nil : levels_of [] = 1.
Proof. reflexivity. Qed.

(* every level of a built tree: [levels_of seq] levels, each within the one-level size *)
Lemma qwt_new_levels_heap : forall w bsize seq t, width_ok w -> (bsize = 256 \/ bsize = 512) ->
  Forall (fun x => x < 2 ^ w) seq -> len seq < RSQ_MAXN -> qwt_new w bsize seq = Val t ->
  len (q_qvs t) = levels_of seq /\ Forall (level_ok bsize (len seq)) (q_qvs t).
Proof.
  intros w bsize seq t Hwok Hb HF Hn E.
  assert (Hwpos : 0 < w) by (unfold width_ok in Hwok; lia).
  destruct seq as [|x0 seq'] eqn:Eseq.
  - unfold qwt_new in E. dbind E. injection E as <-. cbn [q_qvs]. split; [reflexivity|].
    constructor; [|constructor]. unfold rsq_default in E0.
    exact (rsq_from_qv_level bsize qvb_new [] a Hb qvb_inv_new (Forall_nil _) Hn E0).
  - rewrite <- Eseq in *.
    assert (Enew : qwt_new w bsize seq =
              let! s0 := osub (levels_of seq) 1 in
              let! qvs := qwt_levels w bsize seq (2 * s0) (N.to_nat (levels_of seq)) in
              Val {| q_n := len seq; q_n_levels := levels_of seq; q_sigma := maxN seq; q_qvs := qvs |}).
    { rewrite Eseq. reflexivity. }
    rewrite Enew in E. clear Enew Eseq x0 seq'.
    set (L := N.to_nat (levels_of seq)) in *.
    assert (HLN : levels_of seq = N.of_nat L) by (unfold L; lia).
    pose proof (qlevels_pos seq) as Hpos. rewrite <- levels_of_qlevels in Hpos.
    assert (HL : (0 < L)%nat) by lia.
    assert (Hpow : 0 < 2 ^ w) by (apply N.neq_0_lt_0, N.pow_nonzero; lia).
    pose proof (maxN_lt seq (2 ^ w) Hpow HF) as Hmax.
    pose proof (qlevels_shift seq w Hwpos Hmax) as Hsh. rewrite <- levels_of_qlevels, HLN in Hsh.
    assert (Hw : 2 * N.of_nat (L - 1) < w) by lia.
    unfold osub in E. replace (1 <=? levels_of seq) with true in E by lia. cbn [bind] in E.
    replace (2 * (levels_of seq - 1)) with (2 * N.of_nat (L - 1)) in E by lia.
    dbind E. injection E as <-. cbn [q_qvs].
    destruct (qwt_levels_heap w bsize L seq Hb Hn Hw L 0%nat (2 * N.of_nat (L - 1)) a) as (H1 & H2);
      [lia|intros _; f_equal; f_equal; lia|rewrite qlev_0; exact E0|].
    split; [rewrite H1, HLN; reflexivity|exact H2].
Qed.

Lemma level_bytes_le bsize n : (bsize = 256 \/ bsize = 512) ->
  rsq_level_bytes bsize n + 144 <= n / 4 + n / (bsize / 8) + n / 2048 + 304.
Proof.
  intros Hb. unfold rsq_level_bytes.
  destruct Hb as [-> | ->]; [change (256 / 8) with 32|change (512 / 8) with 64]; lia.
Qed.

(* the tree: L = ceil(bitlen(max)/2) levels; per level (1 + r) * n/4 bytes with r = 1/8 (block 256)
   or 1/16 (block 512), n/2048 bytes of select samples, and 304 bytes of constants
   (144 inline RSQVector + 64 partial line + 64 first superblock + 32 first/sentinel samples) *)
Theorem qwt_heap_bound : forall w bsize seq t, width_ok w -> (bsize = 256 \/ bsize = 512) ->
  Forall (fun x => x < 2 ^ w) seq -> len seq < RSQ_MAXN ->
  qwt_new w bsize seq = Val t ->
  qwt_heap abi64 t None <= levels_of seq * (len seq / 4 + len seq / (bsize / 8) + len seq / 2048 + 304).
Proof.
  intros w bsize seq t Hwok Hb HF Hn E.
  destruct (qwt_new_levels_heap w bsize seq t Hwok Hb HF Hn E) as (H1 & H2).
  unfold qwt_heap. cbn [sz_rsq abi64].
  pose proof (sumN_map_le (level_ok bsize (len seq)) rsq_heap (rsq_level_bytes bsize (len seq)) (q_qvs t)
                (fun r Hr => proj1 Hr) H2) as Hs.
  pose proof (level_bytes_le bsize (len seq) Hb) as Hle. rewrite H1 in *.
  nia.
Qed.

(* the precondition of the reported-vs-retained identity holds for every built tree *)
Corollary qwt_new_space_heap : forall w bsize seq t pfs, width_ok w -> (bsize = 256 \/ bsize = 512) ->
  Forall (fun x => x < 2 ^ w) seq -> len seq < RSQ_MAXN -> qwt_new w bsize seq = Val t ->
  qwt_space t pfs + (match pfs with Some ps => 32 * len ps | None => 0 end) = qwt_heap abi64 t pfs + 16.
Proof.
  intros w bsize seq t pfs Hwok Hb HF Hn E. apply qwt_space_heap.
  destruct (qwt_new_levels_heap w bsize seq t Hwok Hb HF Hn E) as (_ & H2).
  apply Forall_forall. intros r Hr. rewrite Forall_forall in H2. exact (proj2 (H2 r Hr)).
Qed.
(* ================================================================== TASK B (C14): RSWide / RSNarrow *)
(* popcount of a 64-bit word, directly from the definition (no premise on popcount needed) *)
Lemma popcount_le_bits : forall (n : nat) x, x < 2 ^ N.of_nat n -> popcount x <= N.of_nat n.
Proof.
  induction n as [|n IH]; intros x Hx.
  - change (2 ^ N.of_nat 0) with 1 in Hx. replace x with 0 by lia. cbn [popcount]. lia.
  - assert (Hh : x / 2 < 2 ^ N.of_nat n).
    { replace (N.of_nat (S n)) with (N.succ (N.of_nat n)) in Hx by lia. rewrite N.pow_succ_r' in Hx. lia. }
    specialize (IH _ Hh).
    assert (Ex : x = 2 * (x / 2) \/ x = 1 + 2 * (x / 2)) by lia.
    destruct Ex as [Ex | Ex]; rewrite Ex.
    + rewrite RSBinB.popcount_double. lia.
    + rewrite BitsLib.popcount_succ_double. lia.
Qed.

Lemma popcount_le_64 w : w < 2 ^ 64 -> popcount w <= 64.
Proof. intros H. exact (popcount_le_bits 64 w H). Qed.

Lemma Forall_firstn' {A} (P : A -> Prop) : forall n l, Forall P l -> Forall P (firstn n l).
Proof.
  induction n as [|n IH]; intros l H; cbn [firstn]; [constructor|].
  destruct H as [|x l Hx Hl]; constructor; [exact Hx|now apply IH].
Qed.
Lemma Forall_skipn' {A} (P : A -> Prop) : forall n l, Forall P l -> Forall P (skipn n l).
Proof.
  induction n as [|n IH]; intros l H; cbn [skipn]; [exact H|].
  destruct H as [|x l Hx Hl]; [constructor|now apply IH].
Qed.

Lemma line_ones_le ws b : words_ok ws -> line_n_ones (line_of ws b) <= 512.
Proof.
  intros Hok. unfold line_n_ones, line_of. rewrite skipnN_skipn.
  assert (HF : Forall (fun w => w < 2 ^ 64) (firstn 8 (skipn (N.to_nat (b * 8)) ws)))
    by (apply Forall_firstn', Forall_skipn'; exact Hok).
  pose proof (sumN_map_le _ popcount 64 _ popcount_le_64 HF) as H.
  assert (len (firstn 8 (skipn (N.to_nat (b * 8)) ws)) <= 8) by (unfold len; rewrite firstn_length; lia).
  lia.
Qed.

(* length-only invariant of a select-hint list: one entry per started group of HS, never more *)
Definition hq (HS : N) (s : list N) (h cnt : N) : Prop := len s = h + 1 /\ h <= cnt / HS.

Lemma hq_step HS s h cnt cnt' b : 0 < HS -> hq HS s h cnt -> cnt <= cnt' ->
  hq HS (fst (hint_upd HS s h cnt' b)) (snd (hint_upd HS s h cnt' b)) cnt'.
Proof.
  intros HH (H1 & H2) Hle. assert (cnt / HS <= cnt' / HS) by (apply N.div_le_mono; lia).
  unfold hint_upd, hq. destruct (N.ltb_spec h (cnt' / HS)); cbn [fst snd]; lens; lia.
Qed.

(* ---------------------------------------------------------------- RSWide *)
Definition wlens (st : rsw_state) (b : N) : Prop :=
  len (ws_meta st) = b / 8 /\
  hq 8192 (ws_s1 st) (ws_hint1 st) (ws_total st + ws_pop st) /\
  hq 8192 (ws_s0 st) (ws_hint0 st) (ws_zeros st) /\
  ws_total st + ws_pop st + ws_zeros st <= 512 * b.

Lemma wlens_step ws st b : words_ok ws -> wlens st b -> wlens (rsw_line st b (line_of ws b)) (b + 1).
Proof.
  intros Hok (Hm & H1 & H0 & Hs). rewrite rsw_line_eq. cbv zeta.
  pose proof (line_ones_le ws b Hok) as Ho. set (ones := line_n_ones (line_of ws b)) in *.
  unfold wlens. cbn [ws_meta ws_total ws_pop ws_zeros ws_s0 ws_s1 ws_hint0 ws_hint1].
  split; [|split; [|split]].
  - destruct (N.eqb_spec ((b + 1) mod 8) 0); lens; lia.
  - apply (hq_step 8192 _ _ (ws_total st + ws_pop st)); [lia|exact H1|]. destruct (b mod 8 =? 0); lia.
  - apply (hq_step 8192 _ _ (ws_zeros st)); [lia|exact H0|lia].
  - destruct (b mod 8 =? 0); lia.
Qed.

Lemma wlens_final ws nl : words_ok ws -> len ws = 8 * nl ->
  wlens (rsw_loop (mk_rsws [] 0 0 0 0 [0] [0] 0 0) 0 ws (N.to_nat nl)) nl.
Proof.
  intros Hok Hlen.
  pose proof (rsw_loop_inv wlens ws nl Hlen (fun st b _ H => wlens_step ws st b Hok H) (N.to_nat nl) 0
                (mk_rsws [] 0 0 0 0 [0] [0] 0 0)) as H.
  change (8 * 0) with 0 in H. rewrite RSBinW.skipnN_0 in H. apply H; [lia|].
  unfold wlens, hq. cbn [ws_meta ws_total ws_pop ws_zeros ws_s0 ws_s1 ws_hint0 ws_hint1].
  change (0 / 8) with 0. change (len (@nil N)) with 0. change (len [0]) with 1. lia.
Qed.

(* exact number of superblock words; hint entries within the counted ones / zeros *)
Lemma rsw_new_lens bv r : bv_wf bv -> rsw_new bv = Val r ->
  rsw_bv r = bv /\
  len (rsw_meta r) = (nlines bv + 7) / 8 + 1 /\
  len (rsw_samples0 r) + len (rsw_samples1 r) <= nlines bv / 16 + 4.
Proof.
  intros Hwf E. pose proof (wf_len bv Hwf) as Hlen. pose proof (wf_ok bv Hwf) as Hok.
  set (nl := nlines bv) in *.
  assert (E8 : len (bv_words bv) / 8 = nl) by lia.
  unfold rsw_new in E. rewrite E8 in E.
  destruct (wlens_final (bv_words bv) nl Hok Hlen) as (Hm & (L1 & B1) & (L0 & B0) & Hs).
  set (st := rsw_loop (mk_rsws [] 0 0 0 0 [0] [0] 0 0) 0 (bv_words bv) (N.to_nat nl)) in *.
  cbv zeta in E. dbind E. dbind E. injection E as <-.
  cbn [rsw_bv rsw_meta rsw_samples0 rsw_samples1]. split; [reflexivity|].
  lens. rewrite ?len_rev. split.
  - destruct (N.eqb_spec (nl mod 8) 0); lens; lia.
  - lia.
Qed.

Lemma bv_heap_wf bv : bv_wf bv -> bv_heap bv = 64 * nlines bv.
Proof. intros Hwf. unfold bv_heap. rewrite (wf_len bv Hwf). lia. Qed.

(* RSWide: the bits in 64-byte lines, one u128 per 4096 bits (+ the closing one), usize hints every
   8192 ones / zeros (padding of the last line counted as zeros) *)
Theorem rsw_heap_bound : forall bv r, RSBinB.bv_wf bv -> rsw_new bv = Val r ->
  rsw_heap r <= bv_nbits bv / 8 + 64 + (bv_nbits bv / 4096 + 2) * 16 + (bv_nbits bv / 8192 + 5) * 8.
Proof.
  intros bv r Hwf E. destruct (rsw_new_lens bv r Hwf E) as (Hbv & Hm & Hs).
  unfold rsw_heap. rewrite Hbv, (bv_heap_wf bv Hwf), Hm. unfold nlines in *. lia.
Qed.

(* ---------------------------------------------------------------- RSNarrow *)
Definition nlens (st : rsn_state) (g : N) : Prop :=
  len (ns_pairs st) = 2 * (g / 8) + 1 /\
  hq 1024 (ns_s1 st) (ns_hint1 st) (ns_next_rank st) /\
  hq 1024 (ns_s0 st) (ns_hint0 st) (ns_zeros st) /\
  ns_next_rank st + ns_zeros st <= 64 * g.

Lemma nthN_In {A} (l : list A) i x : nthN l i = Some x -> In x l.
Proof. rewrite nthN_nth_error. apply nth_error_In. Qed.

Lemma nlens_step ws st g w : words_ok ws -> nthN ws g = Some w -> nlens st g -> nlens (rsn_word st g w) (g + 1).
Proof.
  intros Hok Hw (Hp & H1 & H0 & Hs). rewrite rsn_word_eq. cbv zeta.
  assert (Hpc : popcount w <= 64).
  { apply popcount_le_64. unfold words_ok in Hok. rewrite Forall_forall in Hok. apply Hok. exact (nthN_In _ _ _ Hw). }
  pose proof (hq_step 1024 _ _ _ (ns_next_rank st + popcount w) (g / 8) ltac:(lia) H1 ltac:(lia)) as H1'.
  pose proof (hq_step 1024 _ _ _ (ns_zeros st + (64 - popcount w)) (g / 8) ltac:(lia) H0 ltac:(lia)) as H0'.
  destruct (N.eqb_spec (g mod 8) 7) as [E7|E7]; unfold nlens;
    cbn [ns_pairs ns_next_rank ns_zeros ns_s0 ns_s1 ns_hint0 ns_hint1];
    (split; [lens; lia|]); (split; [exact H1'|]); (split; [exact H0'|lia]).
Qed.

Lemma nlens_final ws : words_ok ws -> nlens (rsn_loop (mk_rsns [0] 0 0 0 [0] [0] 0 0 0) 0 ws) (len ws).
Proof.
  intros Hok. apply (rsn_loop_inv nlens ws) with (pre := []); [|reflexivity|].
  - intros st g w Hg Hi. now apply (nlens_step ws).
  - unfold nlens, hq. cbn [ns_pairs ns_next_rank ns_zeros ns_s0 ns_s1 ns_hint0 ns_hint1].
    change (len (@nil N)) with 0. change (0 / 8) with 0. change (len [0]) with 1. change (0 / 1024) with 0. lia.
Qed.

Lemma rsn_new_lens bv r : bv_wf bv -> rsn_new bv = Val r ->
  rsn_bv r = bv /\
  len (rsn_pairs r) = 2 * (nlines bv + 1) + (if 0 <? nlines bv mod 8 then 2 else 0) /\
  len (rsn_samples0 r) + len (rsn_samples1 r) <= nlines bv / 2 + 4.
Proof.
  intros Hwf E. pose proof (wf_len bv Hwf) as Hlen. pose proof (wf_ok bv Hwf) as Hok.
  set (nl := nlines bv) in *.
  assert (E8 : len (bv_words bv) / 8 = nl) by lia.
  unfold rsn_new in E. rewrite E8, RSN_BLOCK_SIZE_val in E.
  destruct (nlens_final (bv_words bv) Hok) as (Hp & (L1 & B1) & (L0 & B0) & Hs).
  set (st := rsn_loop (mk_rsns [0] 0 0 0 [0] [0] 0 0 0) 0 (bv_words bv)) in *.
  cbv zeta in E. dbind E. injection E as <-.
  cbn [rsn_bv rsn_pairs rsn_samples0 rsn_samples1]. split; [reflexivity|].
  lens. rewrite ?len_rev. split.
  - destruct (0 <? nl mod 8); lens; lia.
  - lia.
Qed.

(* RSNarrow: the bits, two u64 per 512-bit block (+ closing pairs), usize hints every 1024 *)
Theorem rsn_heap_bound : forall bv r, RSBinB.bv_wf bv -> rsn_new bv = Val r ->
  rsn_heap r <= bv_nbits bv / 8 + 64 + (bv_nbits bv / 512 + 3) * 16 + (bv_nbits bv / 1024 + 5) * 8.
Proof.
  intros bv r Hwf E. destruct (rsn_new_lens bv r Hwf E) as (Hbv & Hp & Hs).
  unfold rsn_heap. rewrite Hbv, (bv_heap_wf bv Hwf), Hp. unfold nlines in *.
  destruct (0 <? _); lia.
Qed.
(* ================================================================== TASK B (C14): PrefetchSupport *)
Lemma bv_inv_wf b : bv_inv b -> bv_nbits b < 2 ^ 43 -> RSBinB.bv_wf b.
Proof. intros (H1 & H2 & H3 & _ & _) H43. unfold RSBinB.bv_wf. repeat split; assumption. Qed.

Lemma mapo_Forall {A B} (f : A -> outcome B) (P : A -> Prop) (Q : B -> Prop) :
  (forall x y, P x -> f x = Val y -> Q y) ->
  forall l l', Forall P l -> mapo f l = Val l' -> Forall Q l' /\ len l' = len l.
Proof.
  intros H. induction l as [|x l IH]; intros l' HF E; cbn [mapo] in E.
  - injection E as <-. split; [constructor|reflexivity].
  - inversion HF as [|? ? Hx HF']; subst. dbind E. dbind E. injection E as <-.
    destruct (IH _ HF' eq_refl) as (I1 & I2). split; [constructor; [exact (H _ _ Hx E0)|exact I1]|].
    rewrite !len_cons, I2. reflexivity.
Qed.

Lemma push_bits_Forall (K : N) : forall (bvs : list (list bool)) (bits : list bool),
  Forall (fun bv => len bv <= K) bvs -> len bits = len bvs ->
  Forall (fun bv => len bv <= K + 1) (map (fun '(bv, b) => b :: bv) (combine bvs bits)) /\
  len (map (fun '(bv, b) => b :: bv) (combine bvs bits)) = len bvs.
Proof.
  induction bvs as [|bv bvs IH]; intros bits HF Hl.
  - cbn [combine map]. split; [constructor|reflexivity].
  - destruct bits as [|b bits]; [rewrite len_cons, len_nil in Hl; lia|].
    inversion HF as [|? ? Hx HF']; subst. rewrite !len_cons in Hl.
    destruct (IH bits HF' ltac:(lia)) as (I1 & I2). cbn [combine map]. split.
    + constructor; [rewrite len_cons; lia|exact I1].
    + rewrite !len_cons, I2. reflexivity.
Qed.

(* bits pushed to each of the four vectors before index i: one per multiple of the sample rate and
   one for the last index *)
Definition pf_cap (n i : N) : N := (i + 2047) / 2048 + (if n <=? i then 1 else 0).
Definition pf_lens (n : N) (st : pfs_state) (i : N) : Prop :=
  len (ps_bits st) = 4 /\ len (ps_bvs st) = 4 /\ Forall (fun bv => len bv <= pf_cap n i) (ps_bvs st).

Lemma pfs_step_lens n st i x st' : i < n -> pf_lens n st i -> pfs_step 2048 n st i x = Val st' ->
  pf_lens n st' (i + 1).
Proof.
  intros Hi (Hb & Hv & HF) E. unfold pfs_step in E. dbind E. rename a into c.
  assert (Hmono : pf_cap n i <= pf_cap n (i + 1)).
  { unfold pf_cap. destruct (N.leb_spec n i), (N.leb_spec n (i + 1)); lia. }
  assert (Hb' : len (if (c + 1) mod 2048 =? 0 then setN (ps_bits st) x true else ps_bits st) = 4)
    by (destruct ((c + 1) mod 2048 =? 0); [rewrite setN_len|]; exact Hb).
  destruct ((i mod 2048 =? 0) || (i =? n - 1)) eqn:Ep; injection E as <-;
    unfold pf_lens; cbn [ps_bits ps_bvs].
  - destruct (push_bits_Forall (pf_cap n i) (ps_bvs st) _ HF ltac:(rewrite Hb', Hv; reflexivity)) as (P1 & P2).
    split; [reflexivity|]. split; [rewrite P2; exact Hv|].
    eapply Forall_impl; [|exact P1]. cbv beta. intros bv Hl.
    assert (pf_cap n i + 1 <= pf_cap n (i + 1)); [|lia].
    unfold pf_cap. destruct (N.leb_spec n i), (N.leb_spec n (i + 1)); lia.
  - split; [exact Hb'|]. split; [exact Hv|].
    eapply Forall_impl; [|exact HF]. cbv beta. intros bv Hl. lia.
Qed.

Lemma pfs_loop_lens n : forall syms st i st', i + len syms = n -> pf_lens n st i ->
  pfs_loop 2048 n st i syms = Val st' -> pf_lens n st' n.
Proof.
  induction syms as [|x syms IH]; intros st i st' Hn Hinv E; cbn [pfs_loop] in E.
  - injection E as <-. rewrite len_nil in Hn. replace i with n in Hinv by lia. exact Hinv.
  - rewrite len_cons in Hn. dbind E.
    apply (IH a (i + 1) st'); [lia| |exact E].
    apply (pfs_step_lens n st i x); [lia|exact Hinv|exact E0].
Qed.

Definition rsn_bytes (m : N) : N := m / 8 + 64 + (m / 512 + 3) * 16 + (m / 1024 + 5) * 8.

Lemma pfs_new_lens D p : len D < 2 ^ 43 -> pfs_new D 11 = Val p ->
  len (pf_samples p) = 4 /\ Forall (fun r => rsn_heap r <= rsn_bytes (len D / 2048 + 2)) (pf_samples p).
Proof.
  intros Hn E. unfold pfs_new in E. change (oshl 64 1 11) with (Val (A := N) 2048) in E. cbn [bind] in E.
  dbind E. rename a into st. dbind E. rename a into samples. injection E as <-. cbn [pf_samples].
  assert (H0 : pf_lens (len D) (mk_pfss [0;0;0;0] [false;false;false;false] [[];[];[];[]]) 0).
  { unfold pf_lens. cbn [ps_bits ps_bvs]. split; [reflexivity|]. split; [reflexivity|].
    repeat constructor; change (len (@nil bool)) with 0; lia. }
  destruct (pfs_loop_lens (len D) D _ 0 st ltac:(lia) H0 E0) as (_ & Hv & HF).
  assert (HF' : Forall (fun bv : list bool => len bv <= len D / 2048 + 2) (ps_bvs st)).
  { eapply Forall_impl; [|exact HF]. cbv beta. intros bv Hl. unfold pf_cap in Hl.
    replace (len D <=? len D) with true in Hl by lia. lia. }
  destruct (mapo_Forall (fun bv => let! b := bv_from_bools (rev bv) in rsn_new b)
              (fun bv : list bool => len bv <= len D / 2048 + 2)
              (fun r => rsn_heap r <= rsn_bytes (len D / 2048 + 2))) with (l := ps_bvs st) (l' := samples)
    as (Q1 & Q2); [|exact HF'|exact E1|split; [rewrite Q2; exact Hv|exact Q1]].
  intros bv r Hl Er. dbind Er. rename a into b.
  assert (H43 : len D / 2048 + 2 < 2 ^ 43) by (norm_pow; norm_pow in Hn; lia).
  assert (H63 : len (rev bv) < 2 ^ 63) by (rewrite len_rev; norm_pow; norm_pow in H43; lia).
  destruct (bv_from_bools_correct (rev bv) H63) as (b' & Eb & Hinv & Habs).
  rewrite E in Eb. injection Eb as <-.
  assert (Enb : bv_nbits b = len bv) by (rewrite <- (inv_len b Hinv), Habs, len_rev; reflexivity).
  assert (Hwf : RSBinB.bv_wf b) by (apply bv_inv_wf; [exact Hinv|lia]).
  pose proof (rsn_heap_bound b r Hwf Er) as Hb. fold (rsn_bytes (bv_nbits b)) in Hb. rewrite Enb in Hb.
  unfold rsn_bytes in *. lia.
Qed.

(* prefetch support of one level (sample rate 2^11): four RSNarrow over at most n/2048 + 2 bits each;
   about 0.13% of the level's n/4 bytes, plus a constant (4 * 80 inline + 4 * 152 + rounding) *)
Theorem pfs_heap_bound_sharp : forall D p, len D < 2 ^ 43 -> pfs_new D 11 = Val p ->
  pfs_heap abi64 p <= len D / 3072 + 932.
Proof.
  intros D p Hn E. destruct (pfs_new_lens D p Hn E) as (H4 & HF).
  unfold pfs_heap. cbn [sz_rsn abi64].
  pose proof (sumN_map_le _ rsn_heap _ _ (fun r Hr => Hr) HF) as Hs. rewrite H4 in *.
  unfold rsn_bytes in Hs. lia.
Qed.

Theorem pfs_heap_bound : forall D p, Forall (fun x => x < 4) D -> len D < 2 ^ 43 -> pfs_new D 11 = Val p ->
  pfs_heap abi64 p <= len D / 2048 + 1024.
Proof. intros D p _ Hn E. pose proof (pfs_heap_bound_sharp D p Hn E). lia. Qed.
(* ---------------------------------------------------------------- the tree WITH prefetch support *)
Lemma qwt_pfs_levels_heap w L s : len s < 2 ^ 43 -> 2 * N.of_nat (L - 1) < w ->
  forall n l0 shift ps, (l0 + n = L)%nat -> ((0 < n)%nat -> shift = 2 * N.of_nat (L - 1 - l0)) ->
  qwt_pfs_levels w (qlev L l0 s) shift n = Val ps ->
  len ps = N.of_nat n /\ Forall (fun p => pfs_heap abi64 p <= len s / 2048 + 1024) ps.
Proof.
  intros Hn Hw. induction n as [|n IH]; intros l0 shift ps Hl Hs E.
  - cbn [qwt_pfs_levels] in E. injection E as <-. split; [reflexivity|constructor].
  - rewrite (Hs ltac:(lia)) in E. clear Hs shift. cbn [qwt_pfs_levels] in E.
    assert (Hsh : 2 * N.of_nat (L - 1 - l0) < w) by lia.
    rewrite (mapo_val _ (qdig L l0)) in E by (intros x _; now apply two_bits_qdig).
    cbn [bind] in E. change PFS_SHIFT with 11 in E.
    dbind E. rename a into p. rename E0 into Ep.
    rewrite (stable_partition_parts w L l0 _ Hsh) in E. cbn [bind] in E. rewrite <- qlev_S in E.
    dbind E. rename a into rest. rename E0 into Erest. injection E as <-.
    destruct (IH (S l0) (if 2 <=? 2 * N.of_nat (L - 1 - l0) then 2 * N.of_nat (L - 1 - l0) - 2
                         else 2 * N.of_nat (L - 1 - l0)) rest ltac:(lia)) as (IH1 & IH2); [| exact Erest |].
    { intros Hn0. replace (2 <=? 2 * N.of_nat (L - 1 - l0)) with true by lia. lia. }
    split; [rewrite len_cons, IH1; lia|]. constructor; [|exact IH2].
    pose proof (pfs_heap_bound (map (fun d : N => d mod 4) (map (qdig L l0) (qlev L l0 s))) p) as H. rewrite !len_map', qlev_len in H. apply H; [|exact Hn|exact Ep].
    apply Forall_forall. intros d Hd. apply in_map_iff in Hd. destruct Hd as (y & <- & _). lia.
Qed.

Lemma qwt_pfs_new_heap w seq ps : width_ok w -> Forall (fun x => x < 2 ^ w) seq -> len seq < 2 ^ 43 ->
  qwt_pfs_new w seq = Val ps ->
  len ps <= levels_of seq /\ Forall (fun p => pfs_heap abi64 p <= len seq / 2048 + 1024) ps.
Proof.
  intros Hwok HF Hn E.
  assert (Hwpos : 0 < w) by (unfold width_ok in Hwok; lia).
  destruct seq as [|x0 seq'] eqn:Eseq.
  - cbn [qwt_pfs_new] in E. injection E as <-. split; [rewrite len_nil; lia|constructor].
  - rewrite <- Eseq in *.
    assert (Enew : qwt_pfs_new w seq =
              let! s0 := osub (levels_of seq) 1 in qwt_pfs_levels w seq (2 * s0) (N.to_nat (levels_of seq))).
    { rewrite Eseq. reflexivity. }
    rewrite Enew in E. clear Enew Eseq x0 seq'.
    set (L := N.to_nat (levels_of seq)) in *.
    assert (HLN : levels_of seq = N.of_nat L) by (unfold L; lia).
    pose proof (qlevels_pos seq) as Hpos. rewrite <- levels_of_qlevels in Hpos.
    assert (HL : (0 < L)%nat) by lia.
    assert (Hpow : 0 < 2 ^ w) by (apply N.neq_0_lt_0, N.pow_nonzero; lia).
    pose proof (maxN_lt seq (2 ^ w) Hpow HF) as Hmax.
    pose proof (qlevels_shift seq w Hwpos Hmax) as Hsh. rewrite <- levels_of_qlevels, HLN in Hsh.
    assert (Hw : 2 * N.of_nat (L - 1) < w) by lia.
    unfold osub in E. replace (1 <=? levels_of seq) with true in E by lia. cbn [bind] in E.
    replace (2 * (levels_of seq - 1)) with (2 * N.of_nat (L - 1)) in E by lia.
    destruct (qwt_pfs_levels_heap w L seq Hn Hw L 0%nat (2 * N.of_nat (L - 1)) ps) as (H1 & H2);
      [lia|intros _; f_equal; f_equal; lia|rewrite qlev_0; exact E|].
    split; [rewrite H1, HLN; lia|exact H2].
Qed.

(* QWT256Pfs / QWT512Pfs: per level additionally 32 bytes inline + the prefetch support *)
Theorem qwt_pfs_heap_bound : forall w bsize seq t ps, width_ok w -> (bsize = 256 \/ bsize = 512) ->
  Forall (fun x => x < 2 ^ w) seq -> len seq < RSQ_MAXN ->
  qwt_new w bsize seq = Val t -> qwt_pfs_new w seq = Val ps ->
  qwt_heap abi64 t (Some ps) <=
  levels_of seq * (len seq / 4 + len seq / (bsize / 8) + len seq / 2048 + 304 + (len seq / 2048 + 1056)).
Proof.
  intros w bsize seq t ps Hwok Hb HF Hn E Ep.
  pose proof (qwt_heap_bound w bsize seq t Hwok Hb HF Hn E) as H0.
  assert (Hn43 : len seq < 2 ^ 43) by (rewrite RSQ_MAXN_val in Hn; norm_pow; lia).
  destruct (qwt_pfs_new_heap w seq ps Hwok HF Hn43 Ep) as (H1 & H2).
  unfold qwt_heap in *. cbn [sz_rsq sz_pfs abi64] in *.
  pose proof (sumN_map_le _ (pfs_heap abi64) _ ps (fun p Hp => Hp) H2) as Hs.
  nia.
Qed.
(* ================================================================== examples (actual numbers) *)
Definition sp_input (n : nat) (m : N) : list N := map (fun i => (i * i / 7 + i / 3) mod m) (seqN 0 n).
Definition sp_bits (n : nat) : list bool := map (fun i => (i * i / 5 + i / 3) mod 3 =? 0) (seqN 0 n).

(* 5000 symbols, block 256: 20 lines + 3 superblocks + 8 samples = 1504 bytes retained, 1648 reported;
   the bound of [rsq_heap_bound] is 1540 *)
Example rsq_5000_256 :
  match rsq_new 256 (sp_input 5000 256) with
  | Val r => rsq_heap r = 1504 /\ rsq_space r = 1648 /\
             5000 / 4 + 64 + (5000 / (8 * 256) + 1) * 64 + (5000 / 2048 + 32) = 1540
  | Fault _ => False
  end.
Proof. vm_compute. repeat split; reflexivity. Qed.

(* block 512: 2 superblocks: 1440 retained, 1584 reported, bound 1476 *)
Example rsq_5000_512 :
  match rsq_new 512 (sp_input 5000 256) with
  | Val r => rsq_heap r = 1440 /\ rsq_space r = 1584 /\
             5000 / 4 + 64 + (5000 / (8 * 512) + 1) * 64 + (5000 / 2048 + 32) = 1476
  | Fault _ => False
  end.
Proof. vm_compute. repeat split; reflexivity. Qed.

(* a 3-level tree over 3000 symbols below 50 (u8): 3 * (144 + 928) = 3216 retained, 3232 reported,
   bound 3444; with block 512: 3024 / 3040 / 3303 *)
Definition sp_seq3000 : list N := sp_input 3000 50.
Definition qwt_3000_checks (bsize heap space bound : N) : Prop :=
  match qwt_new 8 bsize sp_seq3000 with
  | Val t =>
      len (q_qvs t) = 3 /\ qwt_heap abi64 t None = heap /\ qwt_space t None = space /\
      3 * (3000 / 4 + 3000 / (bsize / 8) + 3000 / 2048 + 304) = bound
  | Fault _ => False
  end.
Example qwt_3000_levels : levels_of sp_seq3000 = 3.
Proof. vm_compute. reflexivity. Qed.
Example qwt_3000_256 : qwt_3000_checks 256 3216 3232 3444.
Proof. vm_compute. repeat split; reflexivity. Qed.
Example qwt_3000_512 : qwt_3000_checks 512 3024 3040 3303.
Proof. vm_compute. repeat split; reflexivity. Qed.

(* the same tree with prefetch support: + 3 * (32 + 896) bytes; reported + 3 * 896 *)
Example qwt_3000_pfs :
  match qwt_new 8 256 sp_seq3000, qwt_pfs_new 8 sp_seq3000 with
  | Val t, Val ps =>
      len ps = 3 /\ map (pfs_heap abi64) ps = [896; 896; 896] /\
      qwt_heap abi64 t (Some ps) = 6000 /\ qwt_space t (Some ps) = 5920 /\
      3 * (3000 / 4 + 3000 / (256 / 8) + 3000 / 2048 + 304 + (3000 / 2048 + 1056)) = 6615
  | _, _ => False
  end.
Proof. vm_compute. repeat split; reflexivity. Qed.

(* 5000 bits: RSWide 720 retained / 800 reported / bound 777; RSNarrow 896 / 976 / 953 *)
Example rsbin_5000 :
  match bv_from_bools (sp_bits 5000) with
  | Val bv =>
      match rsw_new bv, rsn_new bv with
      | Val rw, Val rn =>
          rsw_heap rw = 720 /\ rsw_space rw = 800 /\
          5000 / 8 + 64 + (5000 / 4096 + 2) * 16 + (5000 / 8192 + 5) * 8 = 777 /\
          rsn_heap rn = 896 /\ rsn_space rn = 976 /\
          5000 / 8 + 64 + (5000 / 512 + 3) * 16 + (5000 / 1024 + 5) * 8 = 953
      | _, _ => False
      end
  | Fault _ => False
  end.
Proof. vm_compute. repeat split; reflexivity. Qed.

(* the RSWide bound is attained: 7681 zero bits (15 full lines + 1 bit; the padding of the 16th line
   completes 8192 counted zeros) *)
Example rsw_bound_attained :
  match bv_from_bools (repeat false (N.to_nat 7681)) with
  | Val bv => match rsw_new bv with
              | Val rw => rsw_heap rw = 1112 /\
                          7681 / 8 + 64 + (7681 / 4096 + 2) * 16 + (7681 / 8192 + 5) * 8 = 1112
              | Fault _ => False
              end
  | Fault _ => False
  end.
Proof. vm_compute. split; reflexivity. Qed.

(* the one-level bounds are attained at n = 1 (rsq: 64 + 64 + 32 = 160) *)
Example rsq_bound_attained :
  match rsq_new 256 [3] with
  | Val r => rsq_heap r = 160 /\ 1 / 4 + 64 + (1 / (8 * 256) + 1) * 64 + (1 / 2048 + 32) = 160
  | Fault _ => False
  end.
Proof. vm_compute. split; reflexivity. Qed.

Print Assumptions rsq_space_heap.
Print Assumptions rsn_space_heap.
Print Assumptions rsw_space_heap.
Print Assumptions da_space_heap.
Print Assumptions pfs_space_heap.
Print Assumptions qwt_space_heap.
Print Assumptions wt_space_heap.
Print Assumptions qwt_report_close.
Print Assumptions wt_report_close.
Print Assumptions qwt_new_space_heap.
Print Assumptions rsq_heap_exact.
Print Assumptions rsq_heap_bound.
Print Assumptions qwt_heap_bound.
Print Assumptions rsw_heap_bound.
Print Assumptions rsn_heap_bound.
Print Assumptions pfs_heap_bound_sharp.
Print Assumptions pfs_heap_bound.
Print Assumptions qwt_pfs_heap_bound.
Print Assumptions rsq_5000_256.
Print Assumptions rsq_5000_512.
Print Assumptions qwt_3000_levels.
Print Assumptions qwt_3000_256.
Print Assumptions qwt_3000_512.
Print Assumptions qwt_3000_pfs.
Print Assumptions rsbin_5000.
Print Assumptions rsw_bound_attained.
Print Assumptions rsq_bound_attained.
