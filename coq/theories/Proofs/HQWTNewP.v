(* C02 end to end: HuffQWaveletTree::new = craft_wm_codes followed by the level construction.
   Combines CraftP (the code builder) and HQWTP (the tree over any admissible table).  The piece that
   neither file states is that two distinct symbols of the request never receive the same table
   entry ([craft_codes_distinct]); it follows from the builder invariant [craft_assign_inv]: the
   scratch entries of the assigned symbols are pairwise ordered by [Rasn], hence distinct among
   symbols of equal length, and the table entry (digit reversal) is injective on them. *)
From Coq Require Import ZArith Lia ZifyBool ZifyN ZifyNat Sorted.
From QwtModel Require Import ListX ListXP Huff Codes WaveletMatrix HuffWM CraftArith CraftP.
From QwtModel Require Import RSQBuild HQWTP.
Ltac Zify.zify_post_hook ::= Z.div_mod_to_equations.
Arguments N.add : simpl never.
Arguments N.sub : simpl never.
Arguments N.mul : simpl never.
Arguments N.eqb : simpl never.
Arguments N.ltb : simpl never.
Arguments N.leb : simpl never.
Arguments N.pred : simpl never.
Arguments N.of_nat : simpl never.
Arguments N.land : simpl never.
Arguments N.lor : simpl never.
Arguments N.shiftr : simpl never.
Arguments N.shiftl : simpl never.
Arguments N.div : simpl never.
Arguments N.modulo : simpl never.
Arguments N.pow : simpl never.
Arguments N.max : simpl never.

(* ---------------------------------------------------------------- digit reversal is injective *)
Lemma digits_eq_mod a x y : 0 < a -> forall n,
  (forall s, (s < n)%nat -> (x / a ^ N.of_nat s) mod a = (y / a ^ N.of_nat s) mod a) ->
  x mod a ^ N.of_nat n = y mod a ^ N.of_nat n.
Proof.
  intros Ha. induction n as [|n IH]; intros H.
  - change (N.of_nat 0) with 0. now rewrite N.pow_0_r, !N.mod_1_r.
  - rewrite !(mod_pow_succ a _ n Ha). rewrite IH by (intros s Hs; apply H; lia).
    rewrite (H n) by lia. reflexivity.
Qed.

Lemma revd_inj a k x y : 1 < a -> x < a ^ N.of_nat k -> y < a ^ N.of_nat k ->
  revd a x k = revd a y k -> x = y.
Proof.
  intros Ha Hx Hy E.
  rewrite <- (N.mod_small x (a ^ N.of_nat k)) by exact Hx.
  rewrite <- (N.mod_small y (a ^ N.of_nat k)) by exact Hy.
  apply digits_eq_mod; [lia|]. intros s Hs.
  rewrite <- (revd_digit a Ha k x s Hs), <- (revd_digit a Ha k y s Hs). now rewrite E.
Qed.

(* two well-formed assignments with the same table entry have the same scratch entry *)
Lemma asn_code_inj frag x y : frag = 1 \/ frag = 2 -> asn_wf frag x -> asn_wf frag y ->
  asn_code frag x = asn_code frag y -> a_len x = a_len y /\ a_e x = a_e y.
Proof.
  intros Hf (X1 & X2 & X3 & X4) (Y1 & Y2 & Y3 & Y4) E.
  assert (Hfp : 0 < frag) by (destruct Hf as [-> | ->]; lia).
  pose proof (f_equal pc_content E) as Ec. pose proof (f_equal pc_len E) as El.
  unfold asn_code in Ec, El. cbn [pc_content pc_len] in Ec, El. clear E. split; [exact El|].
  rewrite !rev_frags_spec in Ec by assumption. rewrite <- El in Ec.
  set (k := N.to_nat (a_len x / frag)) in *.
  assert (Ek : a_len x = frag * N.of_nat k).
  { unfold k. rewrite Nnat.N2Nat.id. symmetry. apply mul_div_exact; assumption. }
  apply (revd_inj (2 ^ frag) k).
  - apply (N.pow_gt_1 2 frag); lia.
  - rewrite <- pow2_mul, <- Ek. exact X4.
  - rewrite <- pow2_mul, <- Ek, El. exact Y4.
  - exact Ec.
Qed.

(* ---------------------------------------------------------------- the builder invariant, exposed *)
Lemma craft_assignments : forall frag f sigma scratch tab,
  craft_input_ok frag f sigma -> craft_wm_codes frag f sigma scratch = Val tab ->
  exists asg, StronglySorted Rasn asg /\ Forall (asn_wf frag) asg /\ tab_ok frag sigma asg tab /\
              map asn_req (rev asg) = f.
Proof.
  intros frag f sigma scratch tab (Hf & HN & HF & HS & Hsig) H. unfold craft_wm_codes in H.
  destruct (craft_assign_inv frag sigma scratch Hf f [0] 0 0 _ [] tab H) as (asg & A1 & A2 & A3 & A4).
  - constructor.
  - constructor.
  - split; [|split].
    + unfold len. rewrite repeat_length. lia.
    + intros x [].
    + intros s _ Hs. apply nthN_repeat. lia.
  - destruct Hf as [-> | ->]; reflexivity.
  - lia.
  - unfold len. cbn [length]. lia.
  - cbn [skipnN]. change (0 =? 0) with true. cbv iota. split.
    + constructor; constructor.
    + constructor; [|constructor]. change (2 ^ 0) with 1. lia.
  - constructor.
  - exact HN.
  - rewrite Forall_forall in HF. apply Forall_forall. intros p Hp. destruct (HF p Hp) as (Q1 & Q2 & Q3).
    repeat split; try assumption. lia.
  - exact HS.
  - exists asg. cbn [rev map app] in A4. split; [exact A1|]. split; [exact A2|]. split; [exact A3|exact A4].
Qed.

(* distinct symbols of the request get distinct table entries (quad and binary) *)
Theorem craft_codes_distinct : forall frag f sigma scratch tab,
  craft_input_ok frag f sigma -> craft_wm_codes frag f sigma scratch = Val tab ->
  forall x y c, In x (map fst f) -> In y (map fst f) ->
  nthN tab x = Some c -> nthN tab y = Some c -> x = y.
Proof.
  intros frag f sigma scratch tab Hi H x y c Hx Hy Ex Ey.
  pose proof Hi as (Hf & _).
  destruct (craft_assignments frag f sigma scratch tab Hi H) as (asg & A1 & A2 & (T1 & T2 & T3) & A4).
  rewrite Forall_forall in A2.
  assert (Esyms : map fst f = map a_sym (rev asg)).
  { rewrite <- A4, map_map. apply map_ext. reflexivity. }
  assert (Hlook : forall s, In s (map fst f) -> exists a, In a asg /\ a_sym a = s).
  { intros s Hs. rewrite Esyms in Hs. apply in_map_iff in Hs as (a & Ha1 & Ha2).
    exists a. split; [apply in_rev; exact Ha2|exact Ha1]. }
  destruct (Hlook x Hx) as (ax & Hax & <-). destruct (Hlook y Hy) as (ay & Hay & <-).
  rewrite (T2 ax Hax) in Ex. rewrite (T2 ay Hay) in Ey.
  assert (Ecode : asn_code frag ax = asn_code frag ay) by congruence.
  destruct (asn_code_inj frag ax ay Hf (A2 ax Hax) (A2 ay Hay) Ecode) as (El & Ee).
  destruct (A2 ax Hax) as (_ & _ & _ & Bx). destruct (A2 ay Hay) as (_ & _ & _ & By).
  destruct (SS_pair Rasn asg ax ay A1 Hax Hay) as [E|[[_ R]|[_ R]]].
  - now subst.
  - rewrite <- El, N.mod_small in R by exact Bx. lia.
  - rewrite El, N.mod_small in R by exact By. lia.
Qed.

(* ---------------------------------------------------------------- table_ok for the built table *)
(* f lists exactly the distinct symbols of seq with their code lengths (in bits), in the order the
   builder sorted them *)
Definition lengths_for (seq : list N) (f : list (N * N)) : Prop :=
  (forall x, In x seq <-> In x (map fst f)) /\ craft_input_ok 2 f (maxN seq).

(* NOTE: [maxN seq < 2 ^ 64 - 1] (not merely < 2 ^ 64): the table has maxN seq + 1 entries and
   table_ok asks for len tab < 2 ^ 64 (the Rust code computes sigma + 1 in usize). *)
Theorem craft_table_ok_seq : forall seq f tab, seq <> [] -> maxN seq < 2 ^ 64 - 1 -> lengths_for seq f ->
  craft4 f (sym_index (maxN seq)) = Val tab -> table_ok seq tab.
Proof.
  intros seq f tab Hne Hmax (Hin & Hi) H. unfold craft4 in H.
  assert (Es : sym_index (maxN seq) = maxN seq).
  { unfold sym_index. apply N.mod_small. change (2 ^ 64) with 18446744073709551616 in *. lia. }
  rewrite Es in H.
  destruct (craft_table_ok 2 f (maxN seq) _ tab Hi H) as (T1 & T2 & T3 & T4).
  unfold table_ok. split; [|split; [|split; [|split]]].
  - rewrite T1. change (2 ^ 64) with 18446744073709551616 in *. lia.
  - intros x Hx. apply Hin in Hx. apply in_map_iff in Hx as ([s l] & <- & Hp). cbn [fst].
    destruct (T2 s l Hp) as (c & Hc & _ & Hw). exists c. split; assumption.
  - intros x c Hc Hl.
    destruct (in_dec N.eq_dec x (map fst f)) as [Hxin|Hxout]; [now apply Hin|].
    exfalso. apply nthN_some_lt in Hc as Hlt. rewrite T1 in Hlt.
    rewrite (T3 x Hxout ltac:(lia)) in Hc. injection Hc as <-. apply Hl. reflexivity.
  - intros syms Hsub. unfold code_wm_ok in *.
    apply (wm_ok_sub _ _ _ (map fst f) syms T4). intros x Hx. apply Hin, Hsub, Hx.
  - intros x y c Hx Hy Ex Ey.
    apply (craft_codes_distinct 2 f (maxN seq) _ tab Hi H x y c); try assumption; now apply Hin.
Qed.

(* ---------------------------------------------------------------- HuffQWaveletTree::new *)
Theorem hq_new_correct : forall w bsize seq f, width_ok w -> (bsize = 256 \/ bsize = 512) ->
  Forall (fun x => x < 2 ^ w) seq -> len seq < RSQ_MAXN -> seq <> [] -> maxN seq < 2 ^ 64 - 1 ->
  lengths_for seq f ->
  forall tab, craft4 f (sym_index (maxN seq)) = Val tab ->   (* the builder did not fault: see craft_total *)
  exists t, hq_new bsize seq f = Val t /\ hq_spec w bsize t seq.
Proof.
  intros w bsize seq f Hw Hb HF Hn Hne Hmax Hlf tab Hc.
  pose proof (craft_table_ok_seq seq f tab Hne Hmax Hlf Hc) as HT.
  destruct (hq_build_correct w bsize seq tab Hw Hb HF Hn HT) as (t & E & HS).
  exists t. split; [|exact HS].
  unfold hq_new. destruct seq as [|x0 seq']; [congruence|]. rewrite Hc. cbn [bind]. exact E.
Qed.

(* with the explicit sufficient condition for the code builder to return (CraftP.craft_total) *)
Corollary hq_new_total : forall w bsize seq f, width_ok w -> (bsize = 256 \/ bsize = 512) ->
  Forall (fun x => x < 2 ^ w) seq -> len seq < RSQ_MAXN -> seq <> [] -> maxN seq < 2 ^ 64 - 1 ->
  lengths_for seq f -> Forall (fun p => snd p <= 32) f -> craft_fits 2 f (len f * 4) = true ->
  exists t, hq_new bsize seq f = Val t /\ hq_spec w bsize t seq.
Proof.
  intros w bsize seq f Hw Hb HF Hn Hne Hmax Hlf H32 Hfit.
  assert (Es : sym_index (maxN seq) = maxN seq).
  { unfold sym_index. apply N.mod_small. change (2 ^ 64) with 18446744073709551616 in *. lia. }
  destruct (craft_total 2 f (maxN seq) (len f * 4) (proj2 Hlf) H32 Hfit) as (tab & Ht).
  apply (hq_new_correct w bsize seq f Hw Hb HF Hn Hne Hmax Hlf tab).
  unfold craft4. rewrite Es. exact Ht.
Qed.

(* for the narrow element types the bound on the maximum is implied *)
Corollary hq_new_correct_narrow : forall w bsize seq f, w = 8 \/ w = 16 \/ w = 32 ->
  (bsize = 256 \/ bsize = 512) ->
  Forall (fun x => x < 2 ^ w) seq -> len seq < RSQ_MAXN -> seq <> [] -> lengths_for seq f ->
  forall tab, craft4 f (sym_index (maxN seq)) = Val tab ->
  exists t, hq_new bsize seq f = Val t /\ hq_spec w bsize t seq.
Proof.
  intros w bsize seq f Hw Hb HF Hn Hne Hlf tab Hc.
  apply (hq_new_correct w bsize seq f) with (tab := tab); try assumption.
  - unfold width_ok. lia.
  - assert (Hm : forall s : list N, s <> [] -> Forall (fun x => x < 2 ^ w) s -> maxN s < 2 ^ w).
    { induction s as [|x s IH]; intros Hs HFs; [congruence|]. inversion HFs as [|? ? Hx HFs']; subst.
      cbn [maxN]. destruct s as [|y s]; [cbn [maxN]; lia|].
      specialize (IH ltac:(discriminate) HFs'). lia. }
    specialize (Hm seq Hne HF).
    assert (2 ^ w <= 2 ^ 32) by (apply N.pow_le_mono_r; lia).
    change (2 ^ 32) with 4294967296 in *. change (2 ^ 64) with 18446744073709551616. lia.
Qed.

(* ---------------------------------------------------------------- non-vacuity *)
Definition hqn_seq : list N := [5; 9; 7; 5; 3; 9; 1; 5; 9; 9; 7; 5].
Definition hqn_f : list (N * N) := [(5,2);(9,2);(7,4);(3,4);(1,4)].

Example hqn_lengths_for : lengths_for hqn_seq hqn_f.
Proof.
  split.
  - intros x. unfold hqn_seq, hqn_f. cbn [map fst In]. split; intros H;
      repeat (destruct H as [<-|H]; [tauto|]); contradiction.
  - split; [now right|]. split; [|split; [|split]].
    + unfold hqn_f. cbn [map fst]. repeat (constructor; [cbn [In]; lia|]). constructor.
    + unfold hqn_f, hqn_seq. repeat (constructor; [cbn [fst snd]; vm_compute; repeat split; discriminate|]). constructor.
    + unfold hqn_f. repeat (constructor; [|repeat (constructor; [cbn [snd]; lia|]); constructor]). constructor.
    + vm_compute. reflexivity.
Qed.

Example hqn_thm : forall bsize, (bsize = 256 \/ bsize = 512) ->
  exists t, hq_new bsize hqn_seq hqn_f = Val t /\ hq_spec 8 bsize t hqn_seq.
Proof.
  intros bsize Hb.
  apply (hq_new_correct_narrow 8 bsize hqn_seq hqn_f ltac:(lia) Hb) with
    (tab := [pc_zero; mk_pc 6 4; pc_zero; mk_pc 3 4; pc_zero; mk_pc 3 2; pc_zero; mk_pc 7 4; pc_zero; mk_pc 2 2]).
  - unfold hqn_seq. repeat (constructor; [change (2 ^ 8) with 256; lia|]). constructor.
  - reflexivity.
  - discriminate.
  - exact hqn_lengths_for.
  - vm_compute. reflexivity.
Qed.

Print Assumptions revd_inj.
Print Assumptions craft_assignments.
Print Assumptions craft_codes_distinct.
Print Assumptions craft_table_ok_seq.
Print Assumptions hq_new_correct.
Print Assumptions hq_new_total.
Print Assumptions hq_new_correct_narrow.
Print Assumptions hqn_lengths_for.
Print Assumptions hqn_thm.
