(* C03 helper: the binary wavelet tree (Model/Huff.v, second half), part 1:
   - what the walks use of one level ([lvl_spec]: an RSWide vector over a NON-EMPTY 0/1 digit list),
   - the bridge between the pair (rank1, n_zeros) the binary code works with and the generic
     (occs_smaller, rank) vocabulary of Theory/WaveletMatrix.v on 0/1 digit lists,
   - one_bit, binary digits, the stable 2-way partition, msb / number of levels. *)
From Coq Require Import ZArith Lia ZifyBool ZifyN ZifyNat.
From QwtModel Require Import ListX Seq QWT RSBin Huff ListXP QVecP RSQList RSQWord RSBinL.
From QwtModel Require Import WaveletMatrix QWTArith.
Ltac Zify.zify_post_hook ::= Z.div_mod_to_equations.
Arguments N.add : simpl never.
Arguments N.sub : simpl never.
Arguments N.mul : simpl never.
Arguments N.eqb : simpl never.
Arguments N.ltb : simpl never.
Arguments N.leb : simpl never.
Arguments N.pred : simpl never.
Arguments N.of_nat : simpl never.
Arguments N.land : simpl never.
Arguments N.lor : simpl never.
Arguments N.shiftr : simpl never.
Arguments N.shiftl : simpl never.
Arguments N.div : simpl never.
Arguments N.modulo : simpl never.
Arguments N.pow : simpl never.
Arguments N.sqrt : simpl never.
Arguments N.log2 : simpl never.
Arguments N.max : simpl never.

(* ---------------------------------------------------------------- 0/1 digit lists *)
Lemma rank_spec_lrank D c i : rank_spec D c i = lrank D c i.
Proof. rewrite rank_spec_rk. reflexivity. Qed.

Lemma loccs_smaller_0 D : loccs_smaller D 0 = 0.
Proof. apply count_lt_0. Qed.

Lemma count_lt_1 D : count_lt 1 D = countN 0 D.
Proof.
  induction D as [|x D IH]; cbn [count_lt countN]; [reflexivity|]. rewrite IH.
  destruct (N.ltb_spec x 1), (N.eqb_spec x 0); lia.
Qed.

Lemma loccs_smaller_1 D : bin D -> loccs_smaller D 1 = len D - countN 1 D.
Proof. intros H. unfold loccs_smaller. rewrite count_lt_1. pose proof (count01 D H). lia. Qed.

(* rank0 = i - rank1 *)
Lemma lrank_01 D i : bin D -> i <= len D -> lrank D 0 i + lrank D 1 i = i.
Proof.
  intros H Hi. pose proof (rank01 D i H) as E. rewrite !rank_spec_lrank in E. lia.
Qed.

(* the wavelet-matrix mapping of the binary code, in the generic vocabulary:
   bit 1: rank1 + n_zeros, bit 0: i - rank1 *)
Lemma bin_map_1 D i : loccs_smaller D 1 + lrank D 1 i = lrank D 1 i + loccs_smaller D 1.
Proof. lia. Qed.
Lemma bin_map_0 D i : bin D -> i <= len D ->
  lrank D 1 i <= i /\ i - lrank D 1 i = loccs_smaller D 0 + lrank D 0 i.
Proof.
  intros H Hi. pose proof (lrank_01 D i H Hi). rewrite loccs_smaller_0. lia.
Qed.

Lemma bin_nth D i d : bin D -> nthN D i = Some d -> d < 2.
Proof.
  intros H E. unfold bin in H. rewrite Forall_forall in H. apply H.
  rewrite nthN_nth_error in E. exact (nth_error_In _ _ E).
Qed.

(* ---------------------------------------------------------------- one level *)
(* an RSWide vector storing the NON-EMPTY 0/1 list D (bit = (digit =? 1)) *)
Definition lvl_spec (r : rswide) (D : list N) : Prop :=
  bin D /\ 0 < len D /\ len D < 2 ^ 64 /\
  (forall i d, nthN D i = Some d -> rsw_get_unchecked r i = Val (d =? 1)) /\
  (forall i, i <= len D -> rsw_rank1_unchecked r i = Val (lrank D 1 i)) /\
  (forall i, rsw_rank1 r i = Val (if i <=? len D then Some (lrank D 1 i) else None)) /\
  (forall i, rsw_rank0 r i = Val (if i <=? len D then Some (lrank D 0 i) else None)) /\
  (forall k, k < 2 ^ 64 -> rsw_select1 r k = Val (select_spec D 1 k)) /\
  (forall k, k < 2 ^ 64 -> rsw_select0 r k = Val (select_spec D 0 k)) /\
  rsw_n_zeros_q r = loccs_smaller D 1.

Section Lvl.
Variables (r : rswide) (D : list N).
Hypothesis H : lvl_spec r D.
Lemma lv_bin : bin D. Proof. apply H. Qed.
Lemma lv_pos : 0 < len D. Proof. apply H. Qed.
Lemma lv_small : len D < 2 ^ 64. Proof. apply H. Qed.
Lemma lv_get i d : nthN D i = Some d -> rsw_get_unchecked r i = Val (d =? 1).
Proof. apply H. Qed.
Lemma lv_rank1_u i : i <= len D -> rsw_rank1_unchecked r i = Val (lrank D 1 i).
Proof. apply H. Qed.
Lemma lv_nz : rsw_n_zeros_q r = loccs_smaller D 1.
Proof. apply H. Qed.

(* the (checked) rank of select_down *)
Lemma lv_rank d i : d < 2 ->
  (if d =? 1 then rsw_rank1 r i else rsw_rank0 r i) =
  Val (if i <=? len D then Some (lrank D d i) else None).
Proof.
  intros Hd. destruct H as (_ & _ & _ & _ & _ & H1 & H0 & _).
  destruct (N.eqb_spec d 1) as [->|Hn]; [apply H1|]. replace d with 0 by lia. apply H0.
Qed.
Lemma lv_select d k : d < 2 -> k < 2 ^ 64 ->
  (if d =? 1 then rsw_select1 r k else rsw_select0 r k) = Val (select_spec D d k).
Proof.
  intros Hd Hk. destruct H as (_ & _ & _ & _ & _ & _ & _ & H1 & H0 & _).
  destruct (N.eqb_spec d 1) as [->|Hn]; [now apply H1|]. replace d with 0 by lia. now apply H0.
Qed.

(* one step of the position mapping, as the binary code computes it *)
Lemma lv_step d i : d < 2 -> i <= len D ->
  (let! tmp := rsw_rank1_unchecked r i in
   if d =? 1 then Val (tmp + rsw_n_zeros_q r) else osub i tmp) =
  Val (loccs_smaller D d + lrank D d i).
Proof.
  intros Hd Hi. rewrite (lv_rank1_u i Hi). cbn [bind].
  destruct (N.eqb_spec d 1) as [->|Hn].
  - rewrite lv_nz. f_equal. lia.
  - replace d with 0 by lia. destruct (bin_map_0 D i lv_bin Hi) as [H1 H2].
    unfold osub. destruct (N.leb_spec (lrank D 1 i) i); [|lia]. now rewrite H2.
Qed.
(* the offset added by select_down *)
Lemma lv_offset d : d < 2 -> (if d =? 1 then rsw_n_zeros_q r else 0) = loccs_smaller D d.
Proof.
  intros Hd. destruct (N.eqb_spec d 1) as [->|Hn]; [apply lv_nz|].
  replace d with 0 by lia. now rewrite loccs_smaller_0.
Qed.
End Lvl.

(* ---------------------------------------------------------------- one_bit *)
Lemma land1 x : N.land x 1 = x mod 2.
Proof. change 1 with (N.ones 1). rewrite N.land_ones. reflexivity. Qed.

Lemma mod64_mod2 y : (y mod 2 ^ 64) mod 2 = y mod 2.
Proof. change (2 ^ 64) with 18446744073709551616. lia. Qed.

Lemma one_bit_val w x sh : sh < w -> one_bit w x sh = Val ((x / 2 ^ sh) mod 2).
Proof.
  intros Hs. unfold one_bit, oshr. replace (sh <? w) with true by lia. cbn [bind].
  rewrite land1, N.shiftr_div_pow2, mod64_mod2. reflexivity.
Qed.

(* digit of x at level l in a tree of L levels: bit L-1-l *)
Definition bdig (L : nat) (l : nat) (x : N) : N := (x / 2 ^ N.of_nat (L - 1 - l)) mod 2.

Lemma bdig_lt L : forall l x, bdig L l x < N.of_nat 2.
Proof. intros l x. unfold bdig. change (N.of_nat 2) with 2. apply N.mod_lt. lia. Qed.
Lemma bdig_lt2 L l x : bdig L l x < 2.
Proof. exact (bdig_lt L l x). Qed.

Lemma one_bit_bdig w L l x : N.of_nat (L - 1 - l) < w ->
  one_bit w x (N.of_nat (L - 1 - l)) = Val (bdig L l x).
Proof. intros Hs. now rewrite one_bit_val. Qed.

(* ---------------------------------------------------------------- the stable partition *)
Lemma stable_partition_of_2_val w seq shift : shift < w ->
  stable_partition_of_2 w seq shift =
  Val (filter (fun x => (x / 2 ^ shift) mod 2 =? 0) seq ++ filter (fun x => (x / 2 ^ shift) mod 2 =? 1) seq).
Proof.
  intros Hs. unfold stable_partition_of_2.
  rewrite (mapo_val _ (fun x => (x / 2 ^ shift) mod 2)) by (intros x _; now apply one_bit_val).
  cbn [bind]. rewrite !pick_filter. reflexivity.
Qed.

Lemma parts2 {A} (dg : nat -> A -> N) l s :
  parts A dg l 2 s = filter (fun x => dg l x =? 0) s ++ filter (fun x => dg l x =? 1) s.
Proof. cbn [parts app]. reflexivity. Qed.

Lemma stable_partition_2_parts w L l s : N.of_nat (L - 1 - l) < w ->
  stable_partition_of_2 w s (N.of_nat (L - 1 - l)) = Val (parts N (bdig L) l 2 s).
Proof. intros Hs. rewrite stable_partition_of_2_val by exact Hs. now rewrite parts2. Qed.

(* ---------------------------------------------------------------- digits determine the number *)
Lemma div2_eq X C : (X / 2 =? C / 2) && (X mod 2 =? C mod 2) = (X =? C).
Proof.
  destruct (N.eqb_spec (X / 2) (C / 2)), (N.eqb_spec (X mod 2) (C mod 2)), (N.eqb_spec X C);
    cbn [andb]; try reflexivity; exfalso; lia.
Qed.

Lemma bpre_div L c x : forall k, (k <= L)%nat -> x < 2 ^ N.of_nat L -> c < 2 ^ N.of_nat L ->
  pre N (bdig L) k c x = (x / 2 ^ N.of_nat (L - k) =? c / 2 ^ N.of_nat (L - k)).
Proof.
  induction k as [|k IH]; intros Hk Hx Hc.
  - cbn [pre]. rewrite Nat.sub_0_r, !N.div_small by assumption. reflexivity.
  - cbn [pre]. rewrite IH by (try assumption; lia). unfold bdig.
    replace (L - 1 - k)%nat with (L - S k)%nat by lia.
    replace (L - k)%nat with (S (L - S k)) by lia.
    rewrite Nnat.Nat2N.inj_succ, N.pow_succ_r', (N.mul_comm 2).
    rewrite <- !N.div_div by (try lia; apply N.pow_nonzero; lia).
    apply div2_eq.
Qed.

Lemma bpre_eq L c x : x < 2 ^ N.of_nat L -> c < 2 ^ N.of_nat L ->
  pre N (bdig L) L c x = (x =? c).
Proof.
  intros Hx Hc. rewrite bpre_div by (try assumption; lia).
  rewrite Nat.sub_diag. change (2 ^ N.of_nat 0) with 1. now rewrite !N.div_1_r.
Qed.

Lemma bdig_step L l x : (l < L)%nat ->
  x / 2 ^ N.of_nat (L - S l) = (x / 2 ^ N.of_nat (L - l)) * 2 ^ 1 + bdig L l x.
Proof.
  intros Hl. unfold bdig. replace (L - 1 - l)%nat with (L - S l)%nat by lia.
  replace (L - l)%nat with (S (L - S l)) by lia.
  rewrite Nnat.Nat2N.inj_succ, N.pow_succ_r', (N.mul_comm 2).
  rewrite <- N.div_div by (try lia; apply N.pow_nonzero; lia).
  change (2 ^ 1) with 2. generalize (x / 2 ^ N.of_nat (L - S l)). intros y. lia.
Qed.

(* what the plain get accumulates: result_t = (result_t << 1) | bit  on w bits *)
Definition accw (w r d : N) : N := N.lor (N.shiftl r 1 mod 2 ^ w) d.

Lemma div_pow_le x p : x / 2 ^ p <= x.
Proof.
  assert (Hp : 2 ^ p <> 0) by (apply N.pow_nonzero; lia).
  apply N.div_le_upper_bound; [exact Hp|]. generalize dependent (2 ^ p). intros q Hq. nia.
Qed.

Lemma accw_fold w L x : x < 2 ^ w -> x < 2 ^ N.of_nat L -> forall n, (n <= L)%nat ->
  fold_left (accw w) (digits_of N (bdig L) 0 n x) 0 = x / 2 ^ N.of_nat (L - n).
Proof.
  intros Hx HxL. induction n as [|n IH]; intros Hn.
  - change (digits_of N (bdig L) 0 0 x) with (@nil N). cbn [fold_left].
    rewrite Nat.sub_0_r, N.div_small by exact HxL. reflexivity.
  - unfold digits_of in *. rewrite seq_S, map_app, fold_left_app, IH by lia.
    cbn [map fold_left Nat.add]. unfold accw.
    pose proof (bdig_step L n x ltac:(lia)) as Hst.
    pose proof (div_pow_le x (N.of_nat (L - S n))) as Hle.
    pose proof (bdig_lt2 L n x) as Hd.
    rewrite N.shiftl_mul_pow2, N.mod_small by lia.
    rewrite lor_add by (change (2 ^ 1) with 2; lia). now rewrite <- Hst.
Qed.

(* ---------------------------------------------------------------- msb / number of levels *)
Definition blevels (seq : list N) : N := msb (maxN seq) + 1.

Lemma blevels_pos seq : 1 <= blevels seq.
Proof. unfold blevels. lia. Qed.
Lemma blevels_bound seq : maxN seq < 2 ^ blevels seq.
Proof. apply lt_pow2_msb. Qed.
Lemma blevels_le seq w : 0 < w -> maxN seq < 2 ^ w -> blevels seq <= w.
Proof. intros Hw Hm. pose proof (msb_lt _ _ Hw Hm). unfold blevels. lia. Qed.

(* ---------------------------------------------------------------- generic list facts *)
Lemma wm_levels_map {A} a (dg : nat -> A -> N) s : forall n l0,
  wm_levels A a dg l0 n s = map (fun l => map (dg l) (lev A a dg l s)) (seq l0 n).
Proof.
  induction n as [|n IH]; intros l0; cbn [wm_levels seq map]; [reflexivity|]. now rewrite IH.
Qed.

Lemma In_parts_conv {A} (dg : nat -> A -> N) l k W x : In x W -> dg l x < N.of_nat k -> In x (parts A dg l k W).
Proof.
  intros Hx. induction k as [|k IH]; intros Hd; [lia|]. cbn [parts]. apply in_or_app.
  destruct (N.eq_dec (dg l x) (N.of_nat k)) as [E|E].
  - right. apply filter_In. split; [exact Hx|]. now apply N.eqb_eq.
  - left. apply IH. lia.
Qed.
