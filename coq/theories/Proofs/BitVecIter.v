(* The bit-position iterator (BitVectorBitPositionsIter<BIT>) at the word level. *)
From Coq Require Import ZArith Lia ZifyBool ZifyN ZifyNat.
From QwtModel Require Import ListX Consts Words BitVec ListXP BitsLib BitVecW.
Ltac Zify.zify_post_hook ::= Z.div_mod_to_equations.
Arguments N.add : simpl never.
Arguments N.sub : simpl never.
Arguments N.mul : simpl never.
Arguments N.eqb : simpl never.
Arguments N.ltb : simpl never.
Arguments N.leb : simpl never.
Arguments N.pred : simpl never.
Arguments N.of_nat : simpl never.
Arguments N.land : simpl never.
Arguments N.lor : simpl never.
Arguments N.lxor : simpl never.
Arguments N.shiftr : simpl never.
Arguments N.shiftl : simpl never.
Arguments N.testbit : simpl never.
Arguments N.div : simpl never.
Arguments N.modulo : simpl never.
Arguments N.pow : simpl never.

(* ------------------------------------------------------------ filter over an index range *)
Lemma in_seqN : forall n s a, In a (seqN s n) -> s <= a /\ a < s + N.of_nat n.
Proof.
  induction n as [|n IH]; intros s a H; cbn [seqN In] in H; [contradiction|].
  destruct H as [<-|H]; [lia|]. apply IH in H. lia.
Qed.
Lemma filter_seqN_none (g : N -> bool) : forall n s,
  (forall q, s <= q -> q < s + N.of_nat n -> g q = false) -> filter g (seqN s n) = [].
Proof.
  induction n as [|n IH]; intros s H; cbn [seqN filter]; [reflexivity|].
  rewrite H by lia. apply IH. intros q H1 H2. apply H; lia.
Qed.
Lemma filter_seqN_first (g g' : N -> bool) p : forall n s,
  s <= p -> p < s + N.of_nat n -> g p = true -> (forall q, s <= q -> q < p -> g q = false) ->
  (forall q, p < q -> g' q = g q) -> (forall q, q <= p -> g' q = false) ->
  filter g (seqN s n) = p :: filter g' (seqN s n).
Proof.
  induction n as [|n IH]; intros s H1 H2 Hp Hlo Hhi Hlo'; [lia|].
  cbn [seqN filter]. destruct (N.eq_dec s p) as [->|Hne].
  - rewrite Hp, Hlo' by lia. f_equal. apply filter_ext_in. intros a Ha. apply in_seqN in Ha.
    symmetry. apply Hhi. lia.
  - rewrite Hlo, Hlo' by lia. apply IH; try assumption; try lia. intros q Hq1 Hq2. apply Hlo; lia.
Qed.

(* ------------------------------------------------------------ the words the iterator scans *)
Definition cword (bit : bool) (ws : list N) (i : N) : N :=
  match nthN ws i with Some w => word_for bit w | None => 0 end.
Definition ebit (bit : bool) (ws : list N) (j : N) : bool := N.testbit (cword bit ws (j / 64)) (j mod 64).

Lemma word_for_bits bit w k : word_ok w ->
  N.testbit (word_for bit w) k = (k <? 64) && Bool.eqb (N.testbit w k) bit.
Proof.
  intros Hw. unfold word_for. destruct bit.
  - destruct (N.ltb_spec k 64) as [Hk|Hk]; cbn [andb].
    + now destruct (N.testbit w k).
    + now apply (lt_pow2_bits w 64).
  - rewrite M64m1_ones, N.lxor_spec. destruct (N.ltb_spec k 64) as [Hk|Hk]; cbn [andb].
    + rewrite N.ones_spec_low by assumption. now destruct (N.testbit w k).
    + rewrite N.ones_spec_high by assumption. now rewrite (lt_pow2_bits w 64).
Qed.
Lemma word_for_ok bit w : word_ok w -> word_ok (word_for bit w).
Proof.
  intros Hw. apply bits_lt_pow2. intros j Hj. rewrite word_for_bits by assumption.
  destruct (N.ltb_spec j 64); [lia|reflexivity].
Qed.
Lemma cword_ok bit ws i : words_ok ws -> word_ok (cword bit ws i).
Proof.
  intros Hok. unfold cword. destruct (nthN ws i) as [w|] eqn:E; [|apply word_ok_0].
  apply word_for_ok. apply (Forall_nthN _ _ _ _ Hok E).
Qed.
Lemma ebit_wbit bit ws j : words_ok ws ->
  ebit bit ws j = (j <? 64 * len ws) && Bool.eqb (wbit ws j) bit.
Proof.
  intros Hok. unfold ebit, cword, wbit. destruct (nthN ws (j / 64)) as [w|] eqn:E.
  - pose proof (nthN_some_lt _ _ _ E). rewrite word_for_bits by apply (Forall_nthN _ _ _ _ Hok E).
    destruct (N.ltb_spec (j mod 64) 64); [|lia]. destruct (N.ltb_spec j (64 * len ws)); [reflexivity|lia].
  - assert (len ws <= j / 64).
    { destruct (N.leb_spec (len ws) (j / 64)); [assumption|].
      destruct (nthN_lt_some ws (j / 64)) as (a & Ea); [assumption|congruence]. }
    rewrite N.bits_0. destruct (N.ltb_spec j (64 * len ws)); [lia|reflexivity].
Qed.
Lemma ebit_out bit ws j : 64 * len ws <= j -> ebit bit ws j = false.
Proof. intros H. unfold ebit, cword. rewrite nthN_none by lia. apply N.bits_0. Qed.

Lemma shiftr_ok w s : word_ok w -> word_ok (N.shiftr w s).
Proof.
  intros Hw. apply bits_lt_pow2. intros j Hj. rewrite N.shiftr_spec'. apply (lt_pow2_bits w 64 Hw). lia.
Qed.

(* ------------------------------------------------------------ iterator state invariant *)
(* cur_word holds the not yet reported bits of word (cur_word_pos - 1), shifted so that bit 0
   is position cur_position *)
Definition pi_ok (bit : bool) (ws : list N) (st : positer) : Prop :=
  word_ok (pi_cur_word st) /\
  pi_cur_position st <= 64 * pi_cur_word_pos st /\
  forall k, N.testbit (pi_cur_word st) k =
            (pi_cur_position st + k <? 64 * pi_cur_word_pos st) && ebit bit ws (pi_cur_position st + k).

Lemma pi_ok_new bit ws : pi_ok bit ws pi_new.
Proof.
  unfold pi_ok, pi_new. cbn [pi_cur_word pi_cur_position pi_cur_word_pos].
  split; [apply word_ok_0|]. split; [lia|]. intros k. rewrite N.bits_0.
  destruct (N.ltb_spec (0 + k) (64 * 0)); [lia|reflexivity].
Qed.

Lemma pi_ok_with_pos bit b pos : words_ok (bv_words b) -> pi_ok bit (bv_words b) (pi_with_pos bit b pos).
Proof.
  intros Hok. unfold pi_ok, pi_with_pos. cbn [pi_cur_word pi_cur_position pi_cur_word_pos].
  rewrite shr6. fold (cword bit (bv_words b) (pos / 64)).
  pose proof (cword_ok bit (bv_words b) (pos / 64) Hok) as Hc.
  split; [now apply shiftr_ok|]. split; [lia|]. intros k. rewrite N.shiftr_spec'.
  destruct (N.ltb_spec (pos + k) (64 * (pos / 64 + 1))) as [H|H]; cbn [andb].
  - unfold ebit. replace ((pos + k) / 64) with (pos / 64) by lia. f_equal. lia.
  - apply (lt_pow2_bits _ 64 Hc). lia.
Qed.

Lemma pi_refill_spec bit ws : words_ok ws -> forall fuel st, pi_ok bit ws st ->
  len ws < pi_cur_word_pos st + N.of_nat fuel ->
  match pi_refill bit ws st fuel with
  | Some st1 => pi_ok bit ws st1 /\ pi_cur_word st1 <> 0 /\ pi_cur_position st <= pi_cur_position st1 /\
                (forall q, pi_cur_position st <= q -> q < pi_cur_position st1 -> ebit bit ws q = false)
  | None => forall q, pi_cur_position st <= q -> ebit bit ws q = false
  end.
Proof.
  intros Hok. induction fuel as [|fuel IH]; intros st Hst Hfuel.
  - cbn [pi_refill]. destruct (N.eqb_spec (pi_cur_word st) 0) as [Hz|Hnz].
    + intros q Hq. destruct Hst as (_ & Hle & Hbits).
      destruct (N.ltb_spec q (64 * pi_cur_word_pos st)) as [Hlt|Hge].
      * specialize (Hbits (q - pi_cur_position st)). rewrite Hz, N.bits_0 in Hbits.
        replace (pi_cur_position st + (q - pi_cur_position st)) with q in Hbits by lia.
        destruct (N.ltb_spec q (64 * pi_cur_word_pos st)); [|lia]. now symmetry in Hbits.
      * apply ebit_out. lia.
    + split; [assumption|]. split; [assumption|]. split; [lia|]. intros q H1 H2. lia.
  - cbn [pi_refill]. destruct (N.eqb_spec (pi_cur_word st) 0) as [Hz|Hnz].
    + assert (Hlow : forall q, pi_cur_position st <= q -> q < 64 * pi_cur_word_pos st -> ebit bit ws q = false).
      { intros q Hq Hlt. destruct Hst as (_ & Hle & Hbits).
        specialize (Hbits (q - pi_cur_position st)). rewrite Hz, N.bits_0 in Hbits.
        replace (pi_cur_position st + (q - pi_cur_position st)) with q in Hbits by lia.
        destruct (N.ltb_spec q (64 * pi_cur_word_pos st)); [|lia]. now symmetry in Hbits. }
      destruct (nthN ws (pi_cur_word_pos st)) as [w|] eqn:Ew.
      * set (st' := mk_pi (N.shiftl (pi_cur_word_pos st) 6) (pi_cur_word_pos st + 1) (word_for bit w)).
        assert (Hw : word_ok w) by apply (Forall_nthN _ _ _ _ Hok Ew).
        assert (Hst' : pi_ok bit ws st').
        { unfold pi_ok, st'. cbn [pi_cur_word pi_cur_position pi_cur_word_pos].
          rewrite N.shiftl_mul_pow2. change (2 ^ 6) with 64.
          split; [now apply word_for_ok|]. split; [lia|]. intros k.
          destruct (N.ltb_spec (pi_cur_word_pos st * 64 + k) (64 * (pi_cur_word_pos st + 1))) as [H|H]; cbn [andb].
          - unfold ebit, cword. replace ((pi_cur_word_pos st * 64 + k) / 64) with (pi_cur_word_pos st) by lia.
            rewrite Ew. f_equal. lia.
          - apply (lt_pow2_bits _ 64 (word_for_ok bit w Hw)). lia. }
        specialize (IH st' Hst'). destruct Hst as (_ & Hle & _).
        assert (Ecp : pi_cur_position st' = 64 * pi_cur_word_pos st).
        { unfold st'. cbn [pi_cur_position]. rewrite N.shiftl_mul_pow2. change (2 ^ 6) with 64. lia. }
        assert (Ecw : pi_cur_word_pos st' = pi_cur_word_pos st + 1) by reflexivity.
        rewrite Ecp, Ecw in IH.
        destruct (pi_refill bit ws st' fuel) as [st1|].
        -- destruct IH as (H1 & H2 & H3 & H4); [lia|]. split; [assumption|]. split; [assumption|].
           split; [lia|]. intros q Hq1 Hq2.
           destruct (N.ltb_spec q (64 * pi_cur_word_pos st)); [now apply Hlow|now apply H4].
        -- intros q Hq. destruct (N.ltb_spec q (64 * pi_cur_word_pos st)); [now apply Hlow|].
           apply IH; lia.
      * intros q Hq. destruct (N.ltb_spec q (64 * pi_cur_word_pos st)); [now apply Hlow|].
        apply ebit_out.
        assert (len ws <= pi_cur_word_pos st); [|lia].
        destruct (N.leb_spec (len ws) (pi_cur_word_pos st)); [assumption|].
        destruct (nthN_lt_some ws (pi_cur_word_pos st)) as (a & Ea); [assumption|congruence].
    + split; [assumption|]. split; [assumption|]. split; [lia|]. intros q H1 H2. lia.
Qed.

Lemma pi_next_spec bit b st : words_ok (bv_words b) -> pi_ok bit (bv_words b) st ->
  match pi_next bit b st with
  | (Some p, st') => pi_cur_position st <= p /\ p < bv_nbits b /\ ebit bit (bv_words b) p = true /\
                     (forall q, pi_cur_position st <= q -> q < p -> ebit bit (bv_words b) q = false) /\
                     pi_ok bit (bv_words b) st' /\ pi_cur_position st' = p + 1
  | (None, _) => forall q, pi_cur_position st <= q -> q < bv_nbits b -> ebit bit (bv_words b) q = false
  end.
Proof.
  intros Hok Hst. unfold pi_next. destruct (N.leb_spec (bv_nbits b) (pi_cur_position st)) as [Hend|Hin].
  { intros q H1 H2. lia. }
  pose proof (pi_refill_spec bit (bv_words b) Hok (S (length (bv_words b))) st Hst) as Hre.
  destruct (pi_refill bit (bv_words b) st (S (length (bv_words b)))) as [st1|].
  2:{ intros q H1 H2. apply Hre; [unfold len; lia|assumption]. }
  destruct Hre as (Hst1 & Hnz & Hle & Hskip); [unfold len; lia|].
  destruct Hst1 as (Hw1 & Hle1 & Hbits1).
  destruct (ctz_spec _ Hnz) as [Hc1 Hc2]. pose proof (ctz_lt _ 64 Hnz Hw1) as Hc3.
  set (l := ctz (pi_cur_word st1)) in *. cbv zeta.
  pose proof (Hbits1 l) as Hl. rewrite Hc1 in Hl. symmetry in Hl. apply andb_true_iff in Hl.
  destruct Hl as [Hl1 Hl2]. apply N.ltb_lt in Hl1.
  assert (Hbelow : forall q, pi_cur_position st <= q -> q < pi_cur_position st1 + l -> ebit bit (bv_words b) q = false).
  { intros q Hq1 Hq2. destruct (N.ltb_spec q (pi_cur_position st1)) as [Hlt|Hge]; [now apply Hskip|].
    pose proof (Hbits1 (q - pi_cur_position st1)) as Hq. rewrite Hc2 in Hq by lia.
    replace (pi_cur_position st1 + (q - pi_cur_position st1)) with q in Hq by lia.
    destruct (N.ltb_spec q (64 * pi_cur_word_pos st1)); [|lia]. now symmetry in Hq. }
  destruct (N.leb_spec (bv_nbits b) (pi_cur_position st1 + l)) as [Hpast|Hpos].
  { intros q H1 H2. apply Hbelow; lia. }
  split; [lia|]. split; [assumption|]. split; [assumption|]. split; [assumption|].
  split; [|reflexivity].
  unfold pi_ok. cbn [pi_cur_word pi_cur_position pi_cur_word_pos].
  assert (Hcw : forall k, N.testbit (if 63 <=? l then 0 else N.shiftr (pi_cur_word st1) (l + 1)) k =
                          N.testbit (pi_cur_word st1) (k + (l + 1))).
  { intros k. destruct (N.leb_spec 63 l).
    - rewrite N.bits_0. symmetry. apply (lt_pow2_bits _ 64 Hw1). lia.
    - apply N.shiftr_spec'. }
  split; [|split].
  - destruct (N.leb_spec 63 l); [apply word_ok_0|now apply shiftr_ok].
  - lia.
  - intros k. rewrite Hcw, Hbits1.
    replace (pi_cur_position st1 + (k + (l + 1))) with (pi_cur_position st1 + l + 1 + k) by lia. reflexivity.
Qed.

(* once the iterator has returned None it returns None forever (for every state) *)
Lemma pi_next_none_stable bit b st st' :
  pi_next bit b st = (None, st') -> pi_next bit b st' = (None, st').
Proof.
  unfold pi_next. destruct (N.leb_spec (bv_nbits b) (pi_cur_position st)) as [Hend|Hin].
  { intros E. injection E as <-. destruct (N.leb_spec (bv_nbits b) (pi_cur_position st)); [reflexivity|lia]. }
  destruct (pi_refill bit (bv_words b) st (S (length (bv_words b)))) as [st1|].
  - cbv zeta. destruct (N.leb_spec (bv_nbits b) (pi_cur_position st1 + ctz (pi_cur_word st1))) as [Hp|Hp];
      [|discriminate]. intros E. injection E as <-. cbn [pi_cur_position].
    destruct (N.leb_spec (bv_nbits b) (pi_cur_position st1 + ctz (pi_cur_word st1) + 1)); [reflexivity|lia].
  - intros E. injection E as <-. cbn [pi_cur_position pi_cur_word pi_cur_word_pos].
    destruct (N.leb_spec (bv_nbits b) (pi_cur_position st)); [lia|].
    cbn [pi_refill pi_cur_word pi_cur_word_pos]. rewrite N.eqb_refl.
    rewrite nthN_none by lia. f_equal. f_equal. lia.
Qed.
