(* The word view of a quad DataLine (Model/Words.v: four u128 words, two bit planes, the
   shifts / xor-with-repeated-symbol / masked popcount of the code) implements the list view
   (Model/QVec.v: a line is a list of 256 symbols) for ALL lines and arguments. *)
From Coq Require Import ZArith Lia ZifyBool ZifyN ZifyNat.
From QwtModel Require Import ListX Consts Words QVec ListXP ConstsOk WordsP BitsLib.
Ltac Zify.zify_post_hook ::= Z.div_mod_to_equations.
Arguments N.add : simpl never.
Arguments N.sub : simpl never.
Arguments N.mul : simpl never.
Arguments N.eqb : simpl never.
Arguments N.ltb : simpl never.
Arguments N.leb : simpl never.
Arguments N.pred : simpl never.
Arguments N.of_nat : simpl never.
Arguments N.land : simpl never.
Arguments N.lor : simpl never.
Arguments N.lxor : simpl never.
Arguments N.shiftr : simpl never.
Arguments N.shiftl : simpl never.
Arguments N.testbit : simpl never.
Arguments N.div : simpl never.
Arguments N.modulo : simpl never.
Arguments N.pow : simpl never.
Arguments N.ones : simpl never.

Definition line_ok (l : list N) : Prop := len l = 256 /\ Forall (fun x => x < 4) l.

(* ------------------------------------------------------------------ small list facts *)
Lemma Forall_nthN' {A} (P : A -> Prop) l : forall i a, Forall P l -> nthN l i = Some a -> P a.
Proof.
  induction l as [|x l IH]; intros i a HF E; [discriminate E|].
  inversion HF as [|? ? Hx Hl]; subst. cbn [nthN] in E. destruct (i =? 0).
  - injection E as <-. exact Hx.
  - eapply IH; eassumption.
Qed.

Lemma skipnN_app_len {A} (l1 l2 : list A) : skipnN (len l1) (l1 ++ l2) = l2.
Proof.
  apply list_ext_nthN. intros j. rewrite nthN_skipnN, nthN_app2 by lia. f_equal. lia.
Qed.

Lemma firstnN_app_split {A} (l1 l2 : list A) i :
  firstnN i (l1 ++ l2) = firstnN i l1 ++ firstnN (i - len l1) l2.
Proof.
  apply list_ext_nthN. intros j.
  rewrite nthN_firstnN, !nthN_app, firstnN_len, !nthN_firstnN.
  destruct (N.ltb_spec j i), (N.ltb_spec j (len l1)), (N.ltb_spec j (N.min i (len l1)));
    try lia; try reflexivity;
    destruct (N.ltb_spec (j - N.min i (len l1)) (i - len l1)); try lia; try reflexivity;
    f_equal; lia.
Qed.

Lemma countb_map_eqb c l : countb (map (fun s => s =? c) l) = countN c l.
Proof. induction l as [|x l IH]; cbn [map countb countN]; [reflexivity|]. now rewrite IH. Qed.

Lemma firstn128 {A} (l : list A) : firstn 128 l = firstnN 128 l.
Proof. rewrite firstnN_firstn. reflexivity. Qed.
Lemma skipn128 {A} (l : list A) : skipn 128 l = skipnN 128 l.
Proof. rewrite skipnN_skipn. reflexivity. Qed.

Lemma nth4_0 {A} (a b c d : A) : nthN [a; b; c; d] 0 = Some a. Proof. reflexivity. Qed.
Lemma nth4_1 {A} (a b c d : A) : nthN [a; b; c; d] 1 = Some b. Proof. reflexivity. Qed.
Lemma nth4_2 {A} (a b c d : A) : nthN [a; b; c; d] 2 = Some c. Proof. reflexivity. Qed.
Lemma nth4_3 {A} (a b c d : A) : nthN [a; b; c; d] 3 = Some d. Proof. reflexivity. Qed.
Lemma set4_0 {A} (a b c d v : A) : setN [a; b; c; d] 0 v = [v; b; c; d]. Proof. reflexivity. Qed.
Lemma set4_1 {A} (a b c d v : A) : setN [a; b; c; d] 1 v = [a; v; c; d]. Proof. reflexivity. Qed.
Lemma set4_2 {A} (a b c d v : A) : setN [a; b; c; d] 2 v = [a; b; v; d]. Proof. reflexivity. Qed.
Lemma set4_3 {A} (a b c d v : A) : setN [a; b; c; d] 3 v = [a; b; c; v]. Proof. reflexivity. Qed.

(* ------------------------------------------------------------------ plane_bits *)
(* the symbol bit read by a plane: b = 1 for the high plane, b = 0 for the low plane *)
Definition tb (b : N) (s : N) : bool := N.testbit s b.

Lemma hi_bit s : N.shiftr s 1 mod 2 = N.b2n (tb 1 s).
Proof. unfold tb. rewrite <- N.bit0_mod, N.shiftr_spec'. reflexivity. Qed.
Lemma lo_bit s : s mod 2 = N.b2n (tb 0 s).
Proof. unfold tb. now rewrite N.bit0_mod. Qed.

Lemma plane_bits_value (bit : N -> N) (f : N -> bool) :
  (forall s, bit s = N.b2n (f s)) -> forall l, plane_bits bit l = bits_value (map f l).
Proof.
  intros Hb. induction l as [|s l IH]; cbn [plane_bits map bits_value]; [reflexivity|].
  now rewrite Hb, IH.
Qed.

(* general bit-level description of plane_bits, for any 0/1-valued [bit] *)
Lemma plane_bits_testbit bit l j : (forall s, bit s < 2) ->
  N.testbit (plane_bits bit l) j = match nthN l j with Some s => bit s =? 1 | None => false end.
Proof.
  intros Hb. rewrite (plane_bits_value bit (fun s => bit s =? 1)).
  - rewrite testbit_bits_value, nthN_map. now destruct (nthN l j).
  - intros s. specialize (Hb s). destruct (N.eqb_spec (bit s) 1) as [->|]; cbn [N.b2n]; lia.
Qed.
Lemma plane_bits_lt bit l : (forall s, bit s < 2) -> plane_bits bit l < 2 ^ len l.
Proof.
  intros Hb. rewrite (plane_bits_value bit (fun s => bit s =? 1)).
  - rewrite <- (len_map (fun s => bit s =? 1)). apply bits_value_lt.
  - intros s. specialize (Hb s). destruct (N.eqb_spec (bit s) 1) as [->|]; cbn [N.b2n]; lia.
Qed.

Definition plane (b : N) (l : list N) : N := bits_value (map (tb b) l).

Lemma plane_testbit b l j :
  N.testbit (plane b l) j = match nthN l j with Some s => N.testbit s b | None => false end.
Proof. unfold plane. rewrite testbit_bits_value, nthN_map. now destruct (nthN l j). Qed.
Lemma plane_lt b l : plane b l < 2 ^ len l.
Proof. unfold plane. rewrite <- (len_map (tb b)). apply bits_value_lt. Qed.

Lemma plane_lt128 b l : len l = 128 -> plane b l < 2 ^ 128.
Proof. intros H. rewrite <- H. apply plane_lt. Qed.

Lemma pack_qline_planes l :
  pack_qline l = [plane 1 (firstnN 128 l); plane 1 (skipnN 128 l);
                  plane 0 (firstnN 128 l); plane 0 (skipnN 128 l)].
Proof.
  unfold pack_qline, plane. rewrite firstn128, skipn128.
  rewrite !(plane_bits_value _ (tb 1) hi_bit), !(plane_bits_value _ (tb 0) lo_bit). reflexivity.
Qed.

(* the two halves of a line *)
Lemma halves l : line_ok l ->
  l = firstnN 128 l ++ skipnN 128 l /\ len (firstnN 128 l) = 128 /\ len (skipnN 128 l) = 128 /\
  (forall j s, nthN (firstnN 128 l) j = Some s -> s < 4) /\
  (forall j s, nthN (skipnN 128 l) j = Some s -> s < 4).
Proof.
  intros [Hl HF]. repeat split.
  - symmetry. apply firstnN_skipnN.
  - rewrite firstnN_len, Hl. reflexivity.
  - rewrite len_skipnN, Hl. reflexivity.
  - intros j s E. rewrite nthN_firstnN in E. destruct (j <? 128); [|discriminate E].
    exact (Forall_nthN' _ _ _ _ HF E).
  - intros j s E. rewrite nthN_skipnN in E. exact (Forall_nthN' _ _ _ _ HF E).
Qed.

(* ------------------------------------------------------------------ packing *)
Theorem pack_qline_words : forall l, line_ok l ->
  len (pack_qline l) = 4 /\ Forall (fun w => w < 2 ^ 128) (pack_qline l).
Proof.
  intros l H. destruct (halves l H) as (_ & HA & HB & _). rewrite pack_qline_planes. split; [reflexivity|].
  repeat constructor; apply plane_lt128; assumption.
Qed.

Lemma div_mod_128 i : i < 256 ->
  (i < 128 /\ i / 128 = 0 /\ i mod 128 = i) \/ (128 <= i /\ i / 128 = 1 /\ i mod 128 = i - 128).
Proof. intros H. lia. Qed.

Theorem pack_qline_bits : forall l i x, line_ok l -> nthN l i = Some x ->
  (exists wh wl, nthN (pack_qline l) (i / 128) = Some wh /\ nthN (pack_qline l) (i / 128 + 2) = Some wl /\
     N.testbit wh (i mod 128) = N.testbit x 1 /\ N.testbit wl (i mod 128) = N.testbit x 0).
Proof.
  intros l i x H E. pose proof (nthN_some_lt _ _ _ E) as Hi. destruct H as [Hl HF]. rewrite Hl in Hi.
  rewrite pack_qline_planes.
  destruct (div_mod_128 i Hi) as [(Hlt & -> & ->)|(Hge & -> & ->)].
  - exists (plane 1 (firstnN 128 l)), (plane 0 (firstnN 128 l)).
    change (0 + 2) with 2. rewrite nth4_0, nth4_2, !plane_testbit, nthN_firstnN.
    destruct (N.ltb_spec i 128); [|lia]. rewrite E. auto.
  - exists (plane 1 (skipnN 128 l)), (plane 0 (skipnN 128 l)).
    change (1 + 2) with 3. rewrite nth4_1, nth4_3, !plane_testbit, nthN_skipnN.
    replace (128 + (i - 128)) with i by lia. rewrite E. auto.
Qed.

(* ------------------------------------------------------------------ constants *)
Lemma shr7 x : N.shiftr x 7 = x / 128.
Proof. now rewrite N.shiftr_div_pow2. Qed.
Lemma land127 x : N.land x 127 = x mod 128.
Proof. change 127 with (N.ones 7). now rewrite N.land_ones. Qed.
Lemma land3' x : N.land x 3 = x mod 4.
Proof. change 3 with (N.ones 2). now rewrite N.land_ones. Qed.
Lemma shr1 x : N.shiftr x 1 = x / 2.
Proof. now rewrite N.shiftr_div_pow2. Qed.

Lemma QV_consts :
  QV_WORD_SHIFT = 7 /\ QVG_WORD_SHIFT = 7 /\ QVR_WORD_SHIFT = 7 /\
  QV_WORD_MASK = 127 /\ QVG_WORD_MASK = 127 /\ QVR_WORD_MASK = 127 /\
  QV_LOW_PLANE = 2 /\ QVG_LOW_PLANE = 2.
Proof. exact QV_WORD_sites. Qed.

(* ------------------------------------------------------------------ get *)
Lemma sym_of_bits x : x < 4 ->
  N.lor (N.shiftl (N.b2n (N.testbit x 1)) 1) (N.b2n (N.testbit x 0)) mod 256 = x.
Proof.
  intros H. assert (C : x = 0 \/ x = 1 \/ x = 2 \/ x = 3) by lia.
  destruct C as [-> | [-> | [-> | ->]]]; reflexivity.
Qed.

Theorem qline_get_correct : forall l i x, line_ok l -> nthN l i = Some x ->
  qline_get_unchecked (pack_qline l) i = Val x.
Proof.
  intros l i x H E.
  destruct (pack_qline_bits l i x H E) as (wh & wl & E1 & E2 & B1 & B2).
  pose proof (nthN_some_lt _ _ _ E) as Hi. destruct H as [Hl HF]. rewrite Hl in Hi.
  pose proof (Forall_nthN' _ _ _ _ HF E) as Hx.
  unfold qline_get_unchecked.
  destruct QV_consts as (_ & -> & _ & _ & -> & _ & _ & ->).
  rewrite shr7, land127. unfold uidx. rewrite E1, E2.
  rewrite bind_val; cbv beta. rewrite bind_val; cbv beta.
  rewrite !oshr_val by (apply N.mod_lt; discriminate).
  rewrite bind_val; cbv beta. rewrite bind_val; cbv beta.
  rewrite !land1_b2n, !N.shiftr_spec', !N.add_0_l, B1, B2.
  now rewrite sym_of_bits.
Qed.

(* ------------------------------------------------------------------ rank *)
(* REPEATEDSYMB[b] as the code indexes it: all ones for b = 0 *)
Definition repm (b : N) : N := if b =? 0 then M128 - 1 else 0.

Lemma M128m1_ones : M128 - 1 = N.ones 128.
Proof. reflexivity. Qed.
Lemma ones_testbit n j : N.testbit (N.ones n) j = (j <? n).
Proof.
  destruct (N.ltb_spec j n).
  - now apply N.ones_spec_low.
  - now apply N.ones_spec_high.
Qed.
Lemma repm_testbit b j : N.testbit (repm b) j = (b =? 0) && (j <? 128).
Proof.
  unfold repm. destruct (b =? 0); cbn [andb].
  - rewrite M128m1_ones. apply ones_testbit.
  - apply N.bits_0.
Qed.

Lemma qline_normalize_val a b c d s : s <= 3 ->
  qline_normalize [a; b; c; d] s =
  Val (N.land (N.lxor a (repm (N.shiftr s 1))) (N.lxor c (repm (N.land s 1))),
       N.land (N.lxor b (repm (N.shiftr s 1))) (N.lxor d (repm (N.land s 1)))).
Proof.
  intros Hs. unfold qline_normalize.
  destruct (N.ltb_spec 1 (N.shiftr s 1)) as [Hc|_]; [rewrite shr1 in Hc; lia|].
  reflexivity.
Qed.

(* selecting the symbol: xor of each plane with the repeated query bit, and of the planes *)
Lemma eq_sym_bits s c : s < 4 -> c <= 3 ->
  xorb (N.testbit s 1) (N.shiftr c 1 =? 0) && xorb (N.testbit s 0) (N.land c 1 =? 0) = (s =? c).
Proof.
  intros Hs Hc.
  assert (S : s = 0 \/ s = 1 \/ s = 2 \/ s = 3) by lia.
  assert (C : c = 0 \/ c = 1 \/ c = 2 \/ c = 3) by lia.
  destruct S as [-> | [-> | [-> | ->]]]; destruct C as [-> | [-> | [-> | ->]]]; reflexivity.
Qed.

Lemma norm_word A c : len A = 128 -> (forall j s, nthN A j = Some s -> s < 4) -> c <= 3 ->
  N.land (N.lxor (plane 1 A) (repm (N.shiftr c 1))) (N.lxor (plane 0 A) (repm (N.land c 1)))
  = bits_value (map (fun s => s =? c) A).
Proof.
  intros HA H4 Hc. apply N.bits_inj. intros j.
  rewrite N.land_spec, !N.lxor_spec, !plane_testbit, !repm_testbit, testbit_bits_value, nthN_map.
  destruct (nthN A j) as [s|] eqn:E; cbn [option_map].
  - pose proof (nthN_some_lt _ _ _ E). destruct (N.ltb_spec j 128); [|lia].
    rewrite !andb_true_r. apply eq_sym_bits; [eapply H4; eassumption|assumption].
  - assert (len A <= j).
    { destruct (N.ltb_spec j (len A)) as [Hj|]; [|assumption].
      apply nthN_lt_len in Hj. congruence. }
    destruct (N.ltb_spec j 128); [lia|]. now rewrite !andb_false_r.
Qed.

(* masking keeps the first i positions *)
Lemma mask_word (f : N -> bool) A m i : len A <= 128 ->
  (forall j, j < 128 -> N.testbit m j = (j <? i)) ->
  N.land (bits_value (map f A)) m = bits_value (map f (firstnN i A)).
Proof.
  intros HA Hm. apply N.bits_inj. intros j.
  rewrite N.land_spec, !testbit_bits_value, !nthN_map, nthN_firstnN.
  destruct (nthN A j) as [s|] eqn:E; cbn [option_map].
  - pose proof (nthN_some_lt _ _ _ E). rewrite Hm by lia.
    destruct (j <? i); cbn [option_map]; [apply andb_true_r|apply andb_false_r].
  - now destruct (j <? i).
Qed.

Lemma rank_word A c m i : len A = 128 -> (forall j s, nthN A j = Some s -> s < 4) -> c <= 3 ->
  (forall j, j < 128 -> N.testbit m j = (j <? i)) ->
  popcount (N.land (N.land (N.lxor (plane 1 A) (repm (N.shiftr c 1)))
                           (N.lxor (plane 0 A) (repm (N.land c 1)))) m)
  = countN c (firstnN i A).
Proof.
  intros HA H4 Hc Hm. rewrite norm_word by assumption.
  rewrite (mask_word _ A m i) by (try lia; exact Hm). rewrite popcount_bits_value. apply countb_map_eqb.
Qed.

Lemma mask_offset_val o : o < 128 ->
  (let! one_sh := oshl 128 1 o in osub one_sh 1) = Val (N.ones o).
Proof.
  intros Ho. rewrite oshl_val by assumption. rewrite bind_val; cbv beta.
  rewrite N.shiftl_1_l, N.mod_small by (apply N.pow_lt_mono_r; lia).
  pose proof (BitsLib.pow2_pos o). rewrite osub_val by lia.
  now rewrite N.ones_equiv, N.sub_1_r.
Qed.

Theorem qline_rank_correct : forall l c i, line_ok l -> c <= 3 -> i <= 256 ->
  qline_rank_unchecked (pack_qline l) c i = Val (countN c (firstnN i l)).
Proof.
  intros l c i H Hc Hi. destruct (halves l H) as (El & HA & HB & FA & FB).
  rewrite pack_qline_planes. revert El HA HB FA FB.
  generalize (firstnN 128 l) as A, (skipnN 128 l) as B. intros A B El HA HB FA FB.
  subst l. clear H.
  rewrite firstnN_app_split, countN_app, HA.
  unfold qline_rank_unchecked.
  destruct (N.leb_spec c 3); [|lia]. destruct (N.leb_spec i 256); [|lia].
  unfold odebug_assert. rewrite bind_val; cbv beta. rewrite bind_val; cbv beta.
  rewrite qline_normalize_val by assumption. rewrite bind_val; cbv beta iota.
  destruct QV_consts as (_ & _ & -> & _ & _ & -> & _ & _).
  rewrite shr7, land127.
  assert (Ho : i mod 128 < 128) by (apply N.mod_lt; discriminate).
  pose proof (mask_offset_val _ Ho) as Hm.
  destruct (oshl 128 1 (i mod 128)) as [one_sh|f]; [|discriminate Hm].
  rewrite bind_val in Hm |- *; cbv beta in Hm |- *.
  rewrite Hm. rewrite bind_val; cbv beta. rewrite M128m1_ones.
  do 2 f_equal.
  - apply rank_word; try assumption; try lia. intros j Hj.
    destruct (N.eqb_spec (i / 128) 0) as [E|E]; rewrite ones_testbit.
    + replace (i mod 128) with i by lia. reflexivity.
    + destruct (N.ltb_spec j 128), (N.ltb_spec j i); try lia; reflexivity.
  - apply rank_word; try assumption; try lia. intros j Hj.
    destruct (N.eqb_spec (i / 128) 1) as [E|E].
    + rewrite ones_testbit. replace (i mod 128) with (i - 128) by lia. reflexivity.
    + destruct (N.eqb_spec (i / 128) 2) as [E2|E2].
      * rewrite N.mul_1_r, ones_testbit.
        destruct (N.ltb_spec j 128), (N.ltb_spec j (i - 128)); try lia; reflexivity.
      * rewrite N.mul_0_r, N.bits_0. destruct (N.ltb_spec j (i - 128)); try lia; reflexivity.
Qed.

(* ------------------------------------------------------------------ set_symbol *)
Lemma shl_bit_testbit b j n : j < 128 ->
  N.testbit (N.shiftl (N.b2n b) j mod 2 ^ 128) n = b && (n =? j).
Proof.
  intros Hj. destruct (N.ltb_spec n 128) as [Hn|Hn].
  - rewrite N.mod_pow2_bits_low by assumption.
    destruct (N.ltb_spec n j) as [Hnj|Hnj].
    + rewrite N.shiftl_spec_low by assumption. destruct (N.eqb_spec n j); [lia|]. now rewrite andb_false_r.
    + rewrite N.shiftl_spec_high' by assumption. rewrite testbit_b2n.
      destruct (N.eqb_spec (n - j) 0), (N.eqb_spec n j); try lia; reflexivity.
  - rewrite N.mod_pow2_bits_high by assumption. destruct (N.eqb_spec n j); [lia|]. now rewrite andb_false_r.
Qed.

Lemma set_word b A j old x : j < 128 -> nthN A j = Some old ->
  N.lor (plane b A) (N.shiftl (N.b2n (N.testbit x b)) j mod 2 ^ 128) = plane b (setN A j (N.lor old x)).
Proof.
  intros Hj E. pose proof (nthN_some_lt _ _ _ E) as HjA. apply N.bits_inj. intros n.
  rewrite N.lor_spec, !plane_testbit, shl_bit_testbit by assumption. rewrite nthN_setN.
  destruct (N.ltb_spec j (len A)); [|lia]. rewrite andb_true_r.
  destruct (N.eqb_spec n j) as [->|Hn].
  - rewrite E, N.lor_spec, andb_true_r. reflexivity.
  - now rewrite andb_false_r, orb_false_r.
Qed.

Lemma sym_hi_b2n x : x < 4 -> N.shiftr x 1 = N.b2n (N.testbit x 1).
Proof.
  intros H. assert (C : x = 0 \/ x = 1 \/ x = 2 \/ x = 3) by lia.
  destruct C as [-> | [-> | [-> | ->]]]; reflexivity.
Qed.

(* general form (any u8-or-wider symbol argument, any slot): the words OR the two symbol bits in *)
Theorem qline_set_general : forall l i s old, line_ok l -> i < 256 -> nthN l i = Some old ->
  qline_set_symbol (pack_qline l) s i = Val (pack_qline (setN l i (N.lor old (s mod 4)))).
Proof.
  intros l i s old H Hi E. destruct (halves l H) as (El & HA & HB & _ & _).
  rewrite !pack_qline_planes.
  assert (Hx : s mod 4 < 4) by (apply N.mod_lt; discriminate).
  unfold qline_set_symbol.
  destruct QV_consts as (-> & _ & _ & -> & _ & _ & -> & _).
  rewrite QV_SYM_MASK_ok, shr7, land127, land3'. set (x := s mod 4) in *.
  rewrite (sym_hi_b2n x Hx), land1_b2n. set (y := N.lor old x).
  assert (Ho : i mod 128 < 128) by (apply N.mod_lt; discriminate).
  rewrite !oshl_val by assumption. unfold idx.
  destruct (div_mod_128 i Hi) as [(Hlt & -> & ->)|(Hge & -> & ->)].
  - (* first half *)
    assert (EA : nthN (firstnN 128 l) i = Some old).
    { rewrite nthN_firstnN. destruct (N.ltb_spec i 128); [exact E|lia]. }
    assert (F1 : firstnN 128 (setN l i y) = setN (firstnN 128 l) i y).
    { rewrite El at 1. rewrite setN_app1 by (rewrite HA; exact Hlt).
      rewrite <- (firstnN_app_exact (setN (firstnN 128 l) i y) (skipnN 128 l)) at 2.
      now rewrite setN_len, HA. }
    assert (F2 : skipnN 128 (setN l i y) = skipnN 128 l).
    { rewrite El at 1. rewrite setN_app1 by (rewrite HA; exact Hlt).
      rewrite <- (skipnN_app_len (setN (firstnN 128 l) i y) (skipnN 128 l)) at 2.
      now rewrite setN_len, HA. }
    rewrite F1, F2. change (0 + 2) with 2.
    rewrite nth4_0. rewrite bind_val; cbv beta. rewrite bind_val; cbv beta.
    rewrite set4_0, nth4_2. rewrite bind_val; cbv beta. rewrite bind_val; cbv beta.
    rewrite set4_2. rewrite !(set_word _ _ _ old) by assumption. reflexivity.
  - (* second half *)
    assert (EB : nthN (skipnN 128 l) (i - 128) = Some old).
    { rewrite nthN_skipnN. replace (128 + (i - 128)) with i by lia. exact E. }
    assert (Hlt : i - 128 < 128) by lia.
    assert (S : setN l i y = firstnN 128 l ++ setN (skipnN 128 l) (i - 128) y).
    { rewrite El at 1. rewrite setN_app2 by (rewrite HA; exact Hge). now rewrite HA. }
    assert (F1 : firstnN 128 (setN l i y) = firstnN 128 l).
    { rewrite S. rewrite <- HA at 1. apply firstnN_app_exact. }
    assert (F2 : skipnN 128 (setN l i y) = setN (skipnN 128 l) (i - 128) y).
    { rewrite S. rewrite <- HA at 1. apply skipnN_app_len. }
    rewrite F1, F2. change (1 + 2) with 3.
    rewrite nth4_1. rewrite bind_val; cbv beta. rewrite bind_val; cbv beta.
    rewrite set4_1, nth4_3. rewrite bind_val; cbv beta. rewrite bind_val; cbv beta.
    rewrite set4_3. rewrite !(set_word _ _ _ old) by assumption. reflexivity.
Qed.

Theorem qline_set_correct : forall l i s, line_ok l -> i < 256 -> s < 256 -> nthN l i = Some 0 ->
  qline_set_symbol (pack_qline l) s i = Val (pack_qline (setN l i (s mod 4))).
Proof.
  intros l i s H Hi _ E. rewrite (qline_set_general l i s 0 H Hi E). now rewrite N.lor_0_l.
Qed.

(* ------------------------------------------------------------------ the zero line *)
Theorem pack_zero_line : pack_qline (repeat 0 256) = [0; 0; 0; 0].
Proof. vm_compute. reflexivity. Qed.

(* ------------------------------------------------------------------ list view refined *)
Corollary line_view_refined : forall l, line_ok l ->
  (forall i, i < 256 -> exists x, line_get_unchecked l i = Val x /\ qline_get_unchecked (pack_qline l) i = Val x) /\
  (forall c i, c <= 3 -> i <= 256 -> line_rank_unchecked l c i = qline_rank_unchecked (pack_qline l) c i).
Proof.
  intros l H. split.
  - intros i Hi. destruct H as [Hl HF]. destruct (nthN_lt_some l i) as (x & E); [rewrite Hl; exact Hi|].
    exists x. split.
    + unfold line_get_unchecked, uidx. now rewrite E.
    + apply qline_get_correct; [split; assumption|exact E].
  - intros c i Hc Hi. rewrite qline_rank_correct by assumption.
    unfold line_rank_unchecked. rewrite LINE_SYMS_val.
    destruct (N.leb_spec c 3); [|lia]. destruct (N.leb_spec i 256); [|lia]. reflexivity.
Qed.

(* the write, list view vs word view, any slot (both views OR the masked symbol in) *)
Corollary line_set_refined : forall l i s, line_ok l -> i < 256 ->
  qline_set_symbol (pack_qline l) s i = Val (pack_qline (line_set_symbol l s i)).
Proof.
  intros l i s H Hi. destruct (nthN_lt_some l i) as (old & E); [destruct H as [-> _]; exact Hi|].
  rewrite (qline_set_general l i s old H Hi E).
  unfold line_set_symbol. rewrite E, land3'. reflexivity.
Qed.

(* ------------------------------------------------------------------ concrete line *)
Definition ex_line : list N := map (fun i => (i * 7 + i / 5) mod 4) (seqN 0 256).

Example ex_line_ok : len ex_line = 256 /\ forallb (fun x => x <? 4) ex_line = true.
Proof. vm_compute. split; reflexivity. Qed.

Example ex_get :
  map (fun i => qline_get_unchecked (pack_qline ex_line) i) [0; 1; 5; 127; 128; 129; 200; 255]
  = map (fun i => uidx ex_line i) [0; 1; 5; 127; 128; 129; 200; 255].
Proof. vm_compute. reflexivity. Qed.

Example ex_rank :
  forallb (fun c => forallb (fun i =>
     match qline_rank_unchecked (pack_qline ex_line) c i with
     | Val r => r =? countN c (firstnN i ex_line)
     | Fault _ => false
     end) [0; 1; 127; 128; 129; 255; 256]) [0; 1; 2; 3] = true.
Proof. vm_compute. reflexivity. Qed.

Example ex_rank_values :
  map (fun c => map (fun i => qline_rank_unchecked (pack_qline ex_line) c i) [0; 1; 127; 128; 129; 255; 256]) [0; 1; 2; 3]
  = map (fun c => map (fun i => Val (countN c (firstnN i ex_line))) [0; 1; 127; 128; 129; 255; 256]) [0; 1; 2; 3].
Proof. vm_compute. reflexivity. Qed.

(* one set on a fresh slot of a half-filled line, symbol given as a u8 with high bits *)
Definition ex_half : list N := firstnN 130 ex_line ++ repeat 0 126.
Example ex_set :
  qline_set_symbol (pack_qline ex_half) 251 130 = Val (pack_qline (setN ex_half 130 3)) /\
  qline_get_unchecked (pack_qline (setN ex_half 130 3)) 130 = Val 3.
Proof. vm_compute. split; reflexivity. Qed.

Print Assumptions pack_qline_words.
Print Assumptions pack_qline_bits.
Print Assumptions qline_get_correct.
Print Assumptions qline_rank_correct.
Print Assumptions qline_set_general.
Print Assumptions qline_set_correct.
Print Assumptions pack_zero_line.
Print Assumptions line_view_refined.
Print Assumptions line_set_refined.
Print Assumptions plane_bits_testbit.
Print Assumptions plane_bits_lt.
