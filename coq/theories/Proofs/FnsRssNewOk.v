(* T5 (RSSupportPlain::new, SuperblockPlain::new / set_block_counters; both block sizes): the CONSTRUCTOR of the
   rank/select directory REGENERATED from src/qvector/rs_qvector/rs_support_plain.rs (Gen/FnsRss.v: g_sb_new,
   g_sb_set_block_counters, g_rss256_new, g_rss512_new) against the hand model (Model/RSQ.v: sb_new,
   sb_set_block_counters, rss_new via rsb_loop / rsb_boundaries / rsb_symbol). *)
From Coq Require Import ZArith Lia ZifyBool ZifyN ZifyNat.
From QwtModel Require Import ListX Loops Seq Consts SelTable Words QVec RSQ LeavesSB LeavesQV FnsQv2 FnsRss LeavesLib
  ListXP ConstsOk QVecP RSQBits RSQWord RSQList RSQBuild FnsRssOk FnsQv2Ok.
Open Scope N_scope.
Ltac Zify.zify_post_hook ::= Z.div_mod_to_equations.

(* ================================================================== (1) SuperblockPlain::new / set_block_counters *)
Lemma len4_inv {A} (l : list A) : len l = 4 -> exists a b c d, l = [a; b; c; d].
Proof.
  unfold len. destruct l as [|a [|b [|c [|d [|e l]]]]]; cbn [length]; intros H; try lia.
  now exists a, b, c, d.
Qed.

(* SuperblockPlain::new(sbc: &[usize; 4]): equality for every array of four counters, no range needed
   (the shift is `(sbc[symbol] as u128) << 84`, truncated as in the hand model) *)
Theorem g_sb_new_ok : forall sbc, len sbc = 4 -> g_sb_new sbc = Val (sb_new sbc).
Proof.
  intros sbc H. destruct (len4_inv sbc H) as (a & b & c & d & ->). reflexivity.
Qed.

Lemma iter_assert_forallb {R} (lim : N) : forall (cs : list N),
  @iter_loop N unit R (fun counter _ => let! _ := oassert (N.ltb counter lim) in Val (Next tt)) cs tt
  = let! _ := oassert (forallb (fun c => c <? lim) cs) in Val (Done tt).
Proof.
  induction cs as [|c cs IH]; [reflexivity|]. cbn [iter_loop forallb].
  destruct (c <? lim); cbn [oassert bind andb]; [exact IH|reflexivity].
Qed.

(* SuperblockPlain::set_block_counters(block_id, counters: &[usize; 4]) on a superblock of four words:
   equality, the two assertion panics included (no range hypothesis on the words: the `|=` is not truncated) *)
Theorem g_sb_set_block_counters_ok : forall s block_id counters, len s = 4 -> len counters = 4 ->
  g_sb_set_block_counters s block_id counters = sb_set_block_counters s block_id counters.
Proof.
  intros s b cs Hs Hc. destruct (len4_inv s Hs) as (w0 & w1 & w2 & w3 & ->).
  destruct (len4_inv cs Hc) as (c0 & c1 & c2 & c3 & ->).
  unfold g_sb_set_block_counters, sb_set_block_counters.
  rewrite SET_BLOCK_ID_LIMIT_val, BLK_LIMIT_val, BLK_BITS_val.
  change (N.shiftl 1 12 mod 2 ^ 64) with 4096. rewrite iter_assert_forallb.
  destruct (N.ltb_spec b 8) as [Hb|Hb]; cbn [oassert bind]; [|reflexivity].
  destruct (forallb (fun c => c <? 4096) [c0; c1; c2; c3]); cbn [oassert bind]; [|reflexivity].
  assert (C : b = 0 \/ b = 1 \/ b = 2 \/ b = 3 \/ b = 4 \/ b = 5 \/ b = 6 \/ b = 7) by lia.
  destruct C as [->|[->|[->|[->|[->|[->|[->| ->]]]]]]]; reflexivity.
Qed.

(* ================================================================== (2) RSSupportPlain::<B>::new *)
(* the two generated constructors differ in the literal B_SIZE (256 / 512) and in the superblock_index they call
   only: [gnew B sbi] is their common text with the block size and superblock_index as arguments, cut into the
   pieces of the loop body (gp1: superblock boundary, gp2: block boundary with the debug assertions, gp3: the
   symbol at i) and the statements after the loop (gtail); g_rss{256,512}_new_unfold: both ARE instances of it,
   by computation *)
Definition GS : Type := (list (list N) * list N * list (list N) * list N * list N)%type.
Definition GR : Type := (list (list N) * list (list N))%type.

Definition gp1 (t6 : N) (superblocks : list (list N)) (block_counters superblock_counters : list N)
  : outcome (list (list N) * list N) :=
  if N.eqb t6 0 then
    let! t7 := g_sb_new superblock_counters in
    let superblocks := superblocks ++ [t7] in
    let block_counters := [0; 0; 0; 0] in
    Val (superblocks, block_counters)
  else
    Val (superblocks, block_counters).

Definition gp2 (B i : N) (superblocks : list (list N)) (block_counters : list N) : outcome (list (list N)) :=
  if N.eqb (i mod B) 0 then
    let block_id := (i / B) mod 8 in
    let! superblocks := (match last_opt superblocks with
      | Some last_ => let! e_ := g_sb_set_block_counters last_ block_id block_counters in Val (set_last superblocks e_)
      | None => Fault Panic
      end) in
    let! r := for_loop (fun symbol _ =>
        let! t8 := idx block_counters symbol in
        let! t9 := ounwrap (last_opt superblocks) in
        let! t10 := g_sb_get_block_counter t9 symbol block_id in
        let! _ := odebug_assert (N.eqb t8 t10) in
        Val (Next tt)
      ) 0 (N.to_nat (4 - 0)) tt in
    match r with
    | Retd v => Val v
    | Done _ =>
        Val superblocks
    end
  else
    Val superblocks.

Definition gp3 (sbi : N -> outcome N) (qv_data : list (list N)) (qv_position i t11 : N)
  (superblocks select_samples : list (list N)) (superblock_counters block_counters occs : list N)
  : outcome (list (list N) * list N * list N * list N) :=
  if N.ltb i t11 then
    let! t12 := g_qv_get_unchecked qv_data qv_position i in
    let symbol := t12 in
    let! t13 := idx occs symbol in
    let! select_samples := (if N.eqb (t13 mod 8192) 0 then
      let! t14 := sbi i in
      let! _ := odebug_assert (N.leb t14 (2 ^ 32 - 1)) in
      let! t15 := sbi i in
      let! _ := odebug_assert (N.ltb t15 (len superblocks)) in
      let! t16 := sbi i in
      let! select_samples := push_at select_samples symbol (t16 mod 2 ^ 32) in
      Val select_samples
    else
      Val select_samples
    ) in
    let! t17 := idx superblock_counters symbol in
    let! t18 := oadd 64 t17 1 in
    let superblock_counters := setN superblock_counters symbol t18 in
    let! t19 := idx block_counters symbol in
    let! t20 := oadd 64 t19 1 in
    let block_counters := setN block_counters symbol t20 in
    let! t21 := idx occs symbol in
    let! t22 := oadd 64 t21 1 in
    let occs := setN occs symbol t22 in
    Val (select_samples, superblock_counters, block_counters, occs)
  else
    Val (select_samples, superblock_counters, block_counters, occs).

Definition gbody (B SS : N) (sbi : N -> outcome N) (qv_data : list (list N)) (qv_position : N)
  : N -> GS -> outcome (step GS GR) :=
  fun i '(superblocks, block_counters, select_samples, superblock_counters, occs) =>
    let! t6 := if SS =? 0 then Fault Panic else Val (i mod SS) in
    let! (superblocks, block_counters) := gp1 t6 superblocks block_counters superblock_counters in
    let! superblocks := gp2 B i superblocks block_counters in
    let! t11 := g_qv_len qv_position in
    let! (select_samples, superblock_counters, block_counters, occs) :=
      gp3 sbi qv_data qv_position i t11 superblocks select_samples superblock_counters block_counters occs in
    Val (Next (superblocks, block_counters, select_samples, superblock_counters, occs)).

Definition gtail (B qv_position : N) (s : GS) : outcome GR :=
  let '(superblocks, block_counters, select_samples, superblock_counters, occs) := s in
  let! t23 := g_qv_len qv_position in
  let! next_block_id := oadd 64 ((t23 / B) mod 8) 1 in
  let! superblocks := (if N.ltb next_block_id 8 then
    let! superblocks := (match last_opt superblocks with
      | Some last_ => let! e_ := g_sb_set_block_counters last_ next_block_id block_counters in Val (set_last superblocks e_)
      | None => Fault Panic
      end) in
    Val superblocks
  else
    Val superblocks
  ) in
  let! select_samples := omap (fun sample =>
      let! sample := (if len sample =? 0 then
        let sample := sample ++ [0] in
        Val sample
      else
        Val sample
      ) in
      let! t24 := osub ((len superblocks) mod 2 ^ 32) 1 in
      let sample := sample ++ [t24] in
      Val sample
    ) select_samples in
  Val (superblocks, select_samples).

Definition gnew (B : N) (sbi : N -> outcome N) (qv_data : list (list N)) (qv_position : N) : outcome GR :=
  let! t1 := g_qv_len qv_position in
  let! _ := oassert (N.ltb t1 (N.shiftl 1 43 mod 2 ^ 64)) in
  let! _ := oassert (orb (N.eqb B 256) (N.eqb B 512)) in
  let! superblock_size := omul 64 8 B in
  let! t2 := g_qv_len qv_position in
  let! t3 := oadd 64 t2 superblock_size in
  let! n_superblocks := if superblock_size =? 0 then Fault Panic else Val (t3 / superblock_size) in
  let! t4 := g_qv_len qv_position in
  let! t5 := oadd 64 t4 1 in
  let! r := for_loop (gbody B superblock_size sbi qv_data qv_position) 0 (N.to_nat (t5 - 0))
              ([], [0; 0; 0; 0], [[]; []; []; []], [0; 0; 0; 0], [0; 0; 0; 0]) in
  match r with
  | Retd v => Val v
  | Done s => gtail B qv_position s
  end.

Lemma g_rss256_new_unfold qv_data qv_position :
  g_rss256_new qv_data qv_position = gnew 256 g_rss256_superblock_index qv_data qv_position.
Proof. reflexivity. Qed.
Lemma g_rss512_new_unfold qv_data qv_position :
  g_rss512_new qv_data qv_position = gnew 512 g_rss512_superblock_index qv_data qv_position.
Proof. reflexivity. Qed.

(* ------------------------------------------------------------------ helpers *)
Lemma bind_Val_inv {A B} (x : outcome A) (f : A -> outcome B) v :
  bind x f = Val v -> exists a, x = Val a /\ f a = Val v.
Proof. destruct x as [a|]; cbn [bind]; intros H; [now exists a|discriminate]. Qed.

(* the loop of debug assertions after set_block_counters: passes when every counter reads back *)
Lemma check_loop_ok {R} (bc sb : list N) (bid : N) (sbs : list (list N)) :
  (forall c, c <= 3 -> exists v, idx bc c = Val v /\ g_sb_get_block_counter sb c bid = Val v) ->
  last_opt sbs = Some sb ->
  @for_loop unit R (fun symbol _ =>
        let! t8 := idx bc symbol in
        let! t9 := ounwrap (last_opt sbs) in
        let! t10 := g_sb_get_block_counter t9 symbol bid in
        let! _ := odebug_assert (N.eqb t8 t10) in
        Val (Next tt)) 0 (N.to_nat (4 - 0)) tt = Val (Done tt).
Proof.
  intros H Hl. change (N.to_nat (4 - 0)) with 4%nat. cbn [for_loop].
  change (0 + 1) with 1. change (1 + 1) with 2. change (2 + 1) with 3.
  destruct (H 0 ltac:(lia)) as (v0 & A0 & B0). destruct (H 1 ltac:(lia)) as (v1 & A1 & B1).
  destruct (H 2 ltac:(lia)) as (v2 & A2 & B2). destruct (H 3 ltac:(lia)) as (v3 & A3 & B3).
  rewrite Hl. cbn [ounwrap].
  rewrite A0. cbn [bind]. rewrite B0. cbn [bind]. rewrite N.eqb_refl. cbn [odebug_assert bind].
  rewrite A1. cbn [bind]. rewrite B1. cbn [bind]. rewrite N.eqb_refl. cbn [odebug_assert bind].
  rewrite A2. cbn [bind]. rewrite B2. cbn [bind]. rewrite N.eqb_refl. cbn [odebug_assert bind].
  rewrite A3. cbn [bind]. rewrite B3. cbn [bind]. rewrite N.eqb_refl. cbn [odebug_assert bind].
  reflexivity.
Qed.

Lemma len_vec4 {A} (g : N -> A) : len (vec4 g) = 4.
Proof. reflexivity. Qed.
Lemma len_sb_new sbc : len (sb_new sbc) = len sbc.
Proof. unfold sb_new, len. now rewrite map_length. Qed.

Definition hd4 (sbs : list (list N)) : Prop := match sbs with [] => True | h :: _ => len h = 4 end.

Section Sim.
  Variable bsize : N.
  Variable s : list N.
  Variable sbi : N -> outcome N.
  Variable data : list (list N).
  Variable pos : N.
  Hypothesis Hb : bsz bsize.
  Hypothesis Hn : len s < 2 ^ 43.
  Hypothesis HF : Forall (fun x => x < 4) s.
  Hypothesis Hsbi : forall i, sbi i = Val (i / (8 * bsize)).
  Hypothesis Hlen : N.shiftr pos 1 = len s.
  Hypothesis Hget : forall i x, nthN s i = Some x -> g_qv_get_unchecked data pos i = Val x.

  (* the state of the generated loop that corresponds to a state of the hand model (forward lists) *)
  Definition gs_of (st : rsb_state) : GS :=
    (rev (b_sbs st), b_bc st, map (@rev N) (b_samples st), b_sbc st, b_occ st).

  (* superblock / block boundaries at i: gp1 then gp2 compute what rsb_boundaries computes; the debug assertions
     of gp2 (every block counter just stored reads back) hold by the construction invariant [binv] *)
  Lemma gbnd_ok i st st1 : b_i st = i -> len (b_sbc st) = 4 -> len (b_bc st) = 4 -> hd4 (b_sbs st) ->
    rsb_boundaries bsize st = Val st1 -> binv bsize s i st1 ->
    exists sbsA, gp1 (i mod (8 * bsize)) (rev (b_sbs st)) (b_bc st) (b_sbc st) = Val (sbsA, b_bc st1) /\
      gp2 bsize i sbsA (b_bc st1) = Val (rev (b_sbs st1)) /\
      b_sbc st1 = b_sbc st /\ b_occ st1 = b_occ st /\ b_samples st1 = b_samples st.
  Proof.
    intros Ei Hsbc4 Hbc4 Hhd Hbnd Hinv.
    destruct st as [bi sbc bc occ sam sbs]. cbn [b_i b_sbc b_bc b_occ b_samples b_sbs] in *. subst bi.
    unfold rsb_boundaries in Hbnd. cbn [b_i b_sbc b_bc b_occ b_samples b_sbs] in Hbnd.
    rewrite RS_BLOCKS_IN_SB_val in Hbnd. unfold gp1, gp2.
    destruct (N.eqb_spec (i mod (8 * bsize)) 0) as [HA|HA].
    - assert (E1 : i mod bsize = 0) by (destruct Hb as [-> | ->]; lia).
      assert (E2 : (i / bsize) mod 8 = 0) by (destruct Hb as [-> | ->]; lia).
      cbv zeta in Hbnd. cbn [b_i b_sbc b_bc b_occ b_samples b_sbs] in Hbnd.
      rewrite E1, E2 in *. change (0 =? 0) with true in *. cbv iota in Hbnd. cbv iota zeta.
      apply bind_Val_inv in Hbnd. destruct Hbnd as (l & Eset & Hbnd). apply Val_inj in Hbnd. subst st1.
      cbn [b_i b_sbc b_bc b_occ b_samples b_sbs].
      rewrite g_sb_new_ok by exact Hsbc4. cbn [bind].
      eexists. split; [reflexivity|]. split; [|repeat split].
      rewrite last_opt_app, g_sb_set_block_counters_ok, Eset by (rewrite ?len_sb_new; assumption || reflexivity).
      cbn [bind]. rewrite set_last_app.
      rewrite (check_loop_ok _ l); [reflexivity| |apply last_opt_app].
      intros c Hc. exists 0. split; [|apply g_sb_get_block_counter_0].
      change [0;0;0;0] with (vec4 (fun _ : N => 0)). now rewrite idx_vec4.
    - cbv zeta in Hbnd. cbn [b_i b_sbc b_bc b_occ b_samples b_sbs] in Hbnd.
      destruct (N.eqb_spec (i mod bsize) 0) as [HB|HB].
      + destruct sbs as [|last rest]; [discriminate|].
        apply bind_Val_inv in Hbnd. destruct Hbnd as (l & Eset & Hbnd). apply Val_inj in Hbnd. subst st1.
        cbn [b_i b_sbc b_bc b_occ b_samples b_sbs] in *.
        eexists. split; [reflexivity|]. split; [|repeat split].
        cbv zeta. cbn [rev]. cbn [hd4] in Hhd.
        rewrite last_opt_app, g_sb_set_block_counters_ok, Eset by assumption.
        cbn [bind]. rewrite set_last_app.
        rewrite (check_loop_ok _ l); [reflexivity| |apply last_opt_app].
        destruct Hinv as (_ & _ & Hbc & _ & _ & (rest' & Hsbs & _ & _)).
        cbn [b_i b_sbc b_bc b_occ b_samples b_sbs] in *. injection Hsbs as -> _. subst bc.
        set (J := i / (8 * bsize)). set (m := (i / bsize) mod 8).
        assert (Hm : 1 <= m <= 7) by (subst m; destruct Hb as [-> | ->]; lia).
        assert (EI : J * (8 * bsize) + m * bsize = i) by (subst m J; destruct Hb as [-> | ->]; lia).
        intros c Hc. eexists. split; [apply idx_vec4; exact Hc|].
        unfold W, sbrec.
        rewrite (g_sb_get_block_counter_ok _ c m _ (idx_vec4 _ c Hc) Hm).
        rewrite land4095, (N.mul_comm (m - 1) 12), packw_shift by (try apply fld_bound; assumption).
        unfold fld. fold J. rewrite EI. replace (i <=? i) with true by lia. reflexivity.
      + apply Val_inj in Hbnd. subst st1. cbn [b_i b_sbc b_bc b_occ b_samples b_sbs].
        eexists. split; [reflexivity|]. repeat split.
  Qed.

  Lemma rsb_symbol_sbs st x st2 : rsb_symbol bsize st x = Val st2 -> b_sbs st2 = b_sbs st.
  Proof.
    unfold rsb_symbol. intros H.
    repeat (apply bind_Val_inv in H; destruct H as (? & _ & H)).
    apply Val_inj in H. subst st2. reflexivity.
  Qed.

  (* the symbol at i < n: gp3 computes what rsb_symbol computes; its two debug assertions (superblock index is a
     u32, and below the number of superblocks pushed so far) and the three checked increments hold by [binv] *)
  Lemma gsym_ok i st1 x : binv bsize s i st1 -> nthN s i = Some x ->
    gp3 sbi data pos i (len s) (rev (b_sbs st1)) (map (@rev N) (b_samples st1)) (b_sbc st1) (b_bc st1) (b_occ st1)
    = let! st2 := rsb_symbol bsize st1 x in Val (map (@rev N) (b_samples st2), b_sbc st2, b_bc st2, b_occ st2).
  Proof.
    intros (Ei & Hsbc & Hbc & Hocc & (sm & Hsm & Hsamp) & (rest & Hsbs & Hlenr & Hpt)) Hx.
    destruct st1 as [bi sbc bc occ sam sbs]. cbn [b_i b_sbc b_bc b_occ b_samples b_sbs] in *. subst.
    pose proof (nthN_some_lt _ _ _ Hx) as Hi.
    assert (Hx3 : x <= 3).
    { assert (x < 4); [|lia]. apply (nthN_Forall _ _ _ _ HF Hx). }
    pose proof (rk_le_len s x i) as Hrk. norm_pow in Hn.
    unfold gp3, rsb_symbol. cbn [b_i b_sbc b_bc b_occ b_samples b_sbs].
    replace (i <? len s) with true by lia. rewrite (Hget i x Hx). cbn [bind]. cbv zeta.
    rewrite SELECT_NUM_SAMPLES_val, RS_BLOCKS_IN_SB_val, !incr_vec4 by exact Hx3.
    rewrite !idx_vec4 by exact Hx3. cbn [bind].
    rewrite !oadd_Val by (norm_pow; lia). cbn [bind]. rewrite !setN_vec4 by exact Hx3.
    destruct (rk s x i mod 8192 =? 0).
    - rewrite Hsbi. cbn [bind].
      replace (i / (8 * bsize) <=? 2 ^ 32 - 1) with true by (norm_pow; destruct Hb as [-> | ->]; lia).
      rewrite len_rev, len_cons, Hlenr. replace (i / (8 * bsize) <? i / (8 * bsize) + 1) with true by lia.
      cbn [odebug_assert bind]. unfold push_at. rewrite map_vec4, !idx_vec4 by exact Hx3. cbn [bind].
      rewrite !setN_vec4 by exact Hx3. cbn [bind b_i b_sbc b_bc b_occ b_samples b_sbs]. rewrite map_vec4. do 4 f_equal.
      apply vec4_ext. intros c Hc. destruct (c =? x); reflexivity.
    - cbn [bind b_i b_sbc b_bc b_occ b_samples b_sbs]. reflexivity.
  Qed.

  (* ---------------------------------------------------------------- the loop *)
  Definition st_init : rsb_state := mk_rsb 0 [0;0;0;0] [0;0;0;0] [0;0;0;0] [[];[];[];[]] [].
  (* the state at the start of iteration i (before the boundaries at i) *)
  Definition qinv (i : N) (st : rsb_state) : Prop :=
    (i = 0 /\ st = st_init) \/ (exists i', i = i' + 1 /\ pinv bsize s i' st).

  Lemma qinv_shape i st : qinv i st ->
    b_i st = i /\ len (b_sbc st) = 4 /\ len (b_bc st) = 4 /\ hd4 (b_sbs st).
  Proof.
    intros [(-> & ->) | (i' & -> & (Ei & Hsbc & Hbc & _ & _ & (rest & Hsbs & _)))].
    - repeat split.
    - rewrite Ei, Hsbc, Hbc, Hsbs. repeat split.
  Qed.

  Lemma qinv_bnd i st : qinv i st -> i <= len s ->
    exists st1, rsb_boundaries bsize st = Val st1 /\ binv bsize s i st1.
  Proof.
    intros [(-> & ->) | (i' & -> & Hp)] Hi.
    - apply binv_init. exact Hb.
    - apply rsb_boundaries_inv; assumption.
  Qed.

  Lemma gbody_pre i st st1 : qinv i st -> rsb_boundaries bsize st = Val st1 -> binv bsize s i st1 ->
    gbody bsize (8 * bsize) sbi data pos i (gs_of st) =
    let! (sam, sbc, bc, occ) :=
      gp3 sbi data pos i (len s) (rev (b_sbs st1)) (map (@rev N) (b_samples st1)) (b_sbc st1) (b_bc st1) (b_occ st1) in
    Val (Next (rev (b_sbs st1), bc, sam, sbc, occ)).
  Proof.
    intros Hq E1 H1. destruct (qinv_shape i st Hq) as (Ei & L1 & L2 & L3).
    destruct (gbnd_ok i st st1 Ei L1 L2 L3 E1 H1) as (sbsA & G1 & G2 & G3 & G4 & G5).
    unfold gbody, gs_of. cbv beta iota.
    replace (8 * bsize =? 0) with false by (destruct Hb as [-> | ->]; reflexivity).
    cbn [bind]. rewrite G1. cbn [bind]. cbv beta iota. rewrite G2. cbn [bind].
    unfold g_qv_len. cbn [bind]. rewrite Hlen, <- G3, <- G4, <- G5. reflexivity.
  Qed.

  Lemma gbody_last st st1 : qinv (len s) st -> rsb_boundaries bsize st = Val st1 -> binv bsize s (len s) st1 ->
    gbody bsize (8 * bsize) sbi data pos (len s) (gs_of st) = Val (Next (gs_of st1)).
  Proof.
    intros Hq E1 H1. rewrite (gbody_pre _ st st1 Hq E1 H1). unfold gp3.
    replace (len s <? len s) with false by lia. reflexivity.
  Qed.

  Lemma gbody_sym i st st1 x st2 : qinv i st -> rsb_boundaries bsize st = Val st1 -> binv bsize s i st1 ->
    nthN s i = Some x -> rsb_symbol bsize st1 x = Val st2 ->
    gbody bsize (8 * bsize) sbi data pos i (gs_of st) = Val (Next (gs_of st2)).
  Proof.
    intros Hq E1 H1 Hx E2. rewrite (gbody_pre _ st st1 Hq E1 H1), (gsym_ok i st1 x H1 Hx), E2.
    cbn [bind]. unfold gs_of. now rewrite (rsb_symbol_sbs st1 x st2 E2).
  Qed.

  Lemma for_loop_S {S R} (body : N -> S -> outcome (step S R)) i k st :
    for_loop body i (Datatypes.S k) st =
    let! r := body i st in
    match r with Next s' => for_loop body (i + 1) k s' | Brk s' => Val (Done s') | Ret v => Val (Retd v) end.
  Proof. reflexivity. Qed.

  (* the generated loop from iteration (len p) on runs in lockstep with rsb_loop on the remaining symbols *)
  Lemma gloop_ok : forall rest p st, s = p ++ rest -> qinv (len p) st ->
    exists st', rsb_loop bsize st rest = Val st' /\ binv bsize s (len s) st' /\
      for_loop (gbody bsize (8 * bsize) sbi data pos) (len p) (S (length rest)) (gs_of st) = Val (Done (gs_of st')).
  Proof.
    induction rest as [|x rest IH]; intros p st Es Hq.
    - rewrite app_nil_r in Es. subst p. destruct (qinv_bnd _ _ Hq (N.le_refl _)) as (st1 & E1 & H1).
      exists st1. cbn [rsb_loop length]. rewrite for_loop_S, (gbody_last st st1 Hq E1 H1). cbn [bind for_loop].
      split; [exact E1|split; [exact H1|reflexivity]].
    - assert (Hx : nthN s (len p) = Some x).
      { rewrite Es, nthN_app2 by lia. now rewrite N.sub_diag. }
      pose proof (nthN_some_lt _ _ _ Hx) as Hlt.
      destruct (qinv_bnd _ _ Hq ltac:(lia)) as (st1 & E1 & H1).
      assert (Hx3 : x <= 3).
      { assert (x < 4); [|lia]. apply (nthN_Forall _ _ _ _ HF Hx). }
      destruct (rsb_symbol_inv bsize s (len p) st1 x Hb Hn H1 Hx Hx3) as (st2 & E2 & H2).
      assert (Elen : len (p ++ [x]) = len p + 1) by (rewrite len_app, len_cons, len_nil; lia).
      destruct (IH (p ++ [x]) st2) as (st' & E' & H' & L').
      + now rewrite <- app_assoc.
      + right. exists (len p). split; [exact Elen|exact H2].
      + exists st'. cbn [rsb_loop]. rewrite E1. cbn [bind]. rewrite E2. cbn [bind].
        split; [exact E'|split; [exact H'|]].
        cbn [length]. rewrite for_loop_S, (gbody_sym _ st st1 x st2 Hq E1 H1 Hx E2). cbn [bind].
        rewrite Elen in L'. exact L'.
  Qed.

  (* ---------------------------------------------------------------- after the loop *)
  Lemma gsamples_ok (L : list (list N)) : len L mod 2 ^ 32 <> 0 -> forall sam : list (list N),
    omap (fun sample =>
            let! sample := (if len sample =? 0 then Val (sample ++ [0]) else Val sample) in
            let! t24 := osub (len (rev L) mod 2 ^ 32) 1 in
            Val (sample ++ [t24])) (map (@rev N) sam)
    = Val (map (fun sl => rev ((len L mod 2 ^ 32 + 2 ^ 32 - 1) mod 2 ^ 32 :: match sl with [] => [0] | _ => sl end)) sam).
  Proof.
    intros HL. rewrite len_rev.
    assert (Es : (len L mod 2 ^ 32 + 2 ^ 32 - 1) mod 2 ^ 32 = len L mod 2 ^ 32 - 1).
    { assert (len L mod 2 ^ 32 < 2 ^ 32) by (apply N.mod_upper_bound; norm_pow; lia).
      replace (len L mod 2 ^ 32 + 2 ^ 32 - 1) with (len L mod 2 ^ 32 - 1 + 1 * 2 ^ 32) by lia.
      rewrite N.mod_add by (norm_pow; lia). apply N.mod_small. lia. }
    rewrite Es.
    induction sam as [|sl sam IH]; [reflexivity|]. cbn [map omap]. rewrite IH.
    rewrite osub_Val' by lia.
    destruct sl as [|y l].
    - reflexivity.
    - replace (len (rev (y :: l)) =? 0) with false; [reflexivity|].
      rewrite len_rev, len_cons. lia.
  Qed.

  (* the statements after the loop, from the sentinel samples on: same value, or the same overflow of
     `superblocks.len() as u32 - 1` when the number of superblocks is a multiple of 2^32 *)
  Lemma gtail_end (L : list (list N)) (sam : list (list N)) : sam <> [] ->
    (let! select_samples := omap (fun sample =>
            let! sample := (if len sample =? 0 then Val (sample ++ [0]) else Val sample) in
            let! t24 := osub (len (rev L) mod 2 ^ 32) 1 in
            Val (sample ++ [t24])) (map (@rev N) sam) in
     Val (rev L, select_samples)) =
    (let! rs := (let! _ := if len L mod 2 ^ 32 =? 0 then Fault Overflow else Val tt in
                 Val {| rs_superblocks := rev L;
                        rs_samples := map (fun sl => rev ((len L mod 2 ^ 32 + 2 ^ 32 - 1) mod 2 ^ 32
                                                          :: match sl with [] => [0] | _ => sl end)) sam |}) in
     Val (rs_superblocks rs, rs_samples rs)).
  Proof.
    intros Hne. destruct (N.eqb_spec (len L mod 2 ^ 32) 0) as [Hz|Hnz].
    - destruct sam as [|sl sam]; [contradiction|]. cbn [map omap bind]. rewrite (len_rev L), Hz.
      destruct (len (rev sl) =? 0); reflexivity.
    - rewrite (gsamples_ok L Hnz). reflexivity.
  Qed.

  (* EQUALITY below 2^43 symbols: the regenerated constructor returns the directory of the hand model, or fails
     with the same fault *)
  Theorem gnew_eq_lt :
    gnew bsize sbi data pos = let! rs := rss_new bsize s in Val (rs_superblocks rs, rs_samples rs).
  Proof.
    unfold rss_new. rewrite MAX_LEN_val, RS_BLOCKS_IN_SB_val.
    pose proof Hn as Hn'. norm_pow in Hn'.
    replace (len s <? 8796093022208) with true by lia. cbn [oassert bind].
    replace ((bsize =? 256) || (bsize =? 512)) with true by (destruct Hb as [-> | ->]; reflexivity).
    cbn [oassert bind].
    destruct (gloop_ok s [] st_init eq_refl (or_introl (conj eq_refl eq_refl))) as (st & El & Hinv & Lg).
    unfold st_init in El. rewrite El. cbn [bind]. cbv zeta.
    unfold gnew, g_qv_len. cbn [bind]. rewrite Hlen.
    change (N.shiftl 1 43 mod 2 ^ 64) with 8796093022208.
    replace (len s <? 8796093022208) with true by lia. cbn [oassert bind].
    replace ((bsize =? 256) || (bsize =? 512)) with true by (destruct Hb as [-> | ->]; reflexivity).
    cbn [oassert bind]. rewrite omul_Val by (norm_pow; destruct Hb as [-> | ->]; lia). cbn [bind].
    rewrite oadd_Val by (norm_pow; destruct Hb as [-> | ->]; lia). cbn [bind].
    replace (8 * bsize =? 0) with false by (destruct Hb as [-> | ->]; reflexivity). cbn [bind].
    rewrite oadd_Val by (norm_pow; lia). cbn [bind].
    replace (N.to_nat (len s + 1 - 0)) with (S (length s)) by (unfold len; lia).
    change (len (@nil N)) with 0 in Lg.
    change (@nil (list N), [0; 0; 0; 0], [@nil N; []; []; []], [0; 0; 0; 0], [0; 0; 0; 0]) with (gs_of st_init).
    rewrite Lg. cbn [bind]. clear Lg El.
    destruct Hinv as (Ei & Hsbc & Hbc & Hocc & (sm & Hsm & Hsamp) & (rest & Hsbs & Hlenr & Hpt)).
    unfold gtail, gs_of, g_qv_len. cbv beta iota. cbn [bind]. rewrite Hlen.
    rewrite Hsbs, Hbc, Hsm.
    rewrite oadd_Val by (norm_pow; lia). cbn [bind].
    assert (Hne : vec4 sm <> []) by discriminate.
    destruct ((len s / bsize) mod 8 + 1 <? 8).
    - cbn [rev]. rewrite last_opt_app, g_sb_set_block_counters_ok by reflexivity.
      destruct (sb_set_block_counters (W bsize s (len s) (len s / (8 * bsize))) ((len s / bsize) mod 8 + 1)
                  (vec4 (fun c => rk s c (len s) - rk s c (len s / (8 * bsize) * (8 * bsize))))) as [l'|f];
        cbn [bind]; [|reflexivity].
      rewrite set_last_app. change (rev rest ++ [l']) with (rev (l' :: rest)).
      exact (gtail_end (l' :: rest) (vec4 sm) Hne).
    - cbn [bind]. exact (gtail_end _ (vec4 sm) Hne).
  Qed.
End Sim.

(* EQUALITY for every length: at 2^43 symbols and beyond both sides fail the first assertion *)
Theorem gnew_eq bsize s sbi data pos : bsz bsize -> Forall (fun x => x < 4) s ->
  (forall i, sbi i = Val (i / (8 * bsize))) -> N.shiftr pos 1 = len s ->
  (forall i x, nthN s i = Some x -> g_qv_get_unchecked data pos i = Val x) ->
  gnew bsize sbi data pos = let! rs := rss_new bsize s in Val (rs_superblocks rs, rs_samples rs).
Proof.
  intros Hb HF Hsbi Hlen Hget. destruct (N.ltb_spec (len s) (2 ^ 43)) as [Hn|Hn].
  - now apply gnew_eq_lt.
  - norm_pow in Hn. unfold gnew, rss_new, g_qv_len. cbn [bind]. rewrite Hlen, MAX_LEN_val.
    change (N.shiftl 1 43 mod 2 ^ 64) with 8796093022208.
    replace (len s <? 8796093022208) with false by lia. reflexivity.
Qed.

(* SIMULATION (the shape asked for): whenever the hand model returns a directory, so does the generated code *)
Corollary gnew_sim bsize s sbi data pos rs : bsz bsize -> Forall (fun x => x < 4) s ->
  (forall i, sbi i = Val (i / (8 * bsize))) -> N.shiftr pos 1 = len s ->
  (forall i x, nthN s i = Some x -> g_qv_get_unchecked data pos i = Val x) ->
  rss_new bsize s = Val rs -> gnew bsize sbi data pos = Val (rs_superblocks rs, rs_samples rs).
Proof. intros Hb HF Hsbi Hlen Hget E. rewrite (gnew_eq bsize s sbi data pos) by assumption. now rewrite E. Qed.

(* ================================================================== the symbols of a quad vector *)
From QwtModel Require Import LeafP.

(* the position of a quad vector lies within its data lines (what every QVector satisfies: position counts the
   two-bit symbols stored, 256 per line); without it qv.iter() would read past the allocation *)
Definition qv_cap_ok (q : qvec) : Prop := N.shiftr (qv_position q) 1 <= 256 * len (qv_data q).

Lemma qv_get_some q i x : qv_get q i = Val (Some x) ->
  qv_get_unchecked q i = Val x /\ i < N.shiftr (qv_position q) 1.
Proof.
  unfold qv_get. destruct (N.leb_spec (N.shiftr (qv_position q) 1) i) as [H|H]; [discriminate|].
  destruct (qv_get_unchecked q i) as [v|]; cbn [bind]; [|discriminate].
  intros E. apply Val_inj in E. injection E as ->. split; [reflexivity|exact H].
Qed.
Lemma qv_get_none q i : qv_get q i = Val None -> N.shiftr (qv_position q) 1 <= i.
Proof.
  unfold qv_get. destruct (N.leb_spec (N.shiftr (qv_position q) 1) i) as [H|H]; [intros _; exact H|].
  destruct (qv_get_unchecked q i) as [v|]; cbn [bind]; discriminate.
Qed.

Lemma qv_iter_all_spec q : forall fuel i l, qv_iter_all q i fuel = Val l ->
  (forall j x, nthN l j = Some x -> qv_get_unchecked q (i + j) = Val x) /\
  (i <= N.shiftr (qv_position q) 1 -> N.shiftr (qv_position q) 1 <= i + N.of_nat fuel ->
   i + len l = N.shiftr (qv_position q) 1).
Proof.
  induction fuel as [|fuel IH]; intros i l H; cbn [qv_iter_all] in H.
  - apply Val_inj in H. subst l. split; [intros j x Hj; destruct j; discriminate|].
    change (len (@nil N)) with 0. lia.
  - destruct (qv_get q i) as [[x0|]|] eqn:Eg; cbn [bind] in H; try discriminate.
    + destruct (qv_iter_all q (i + 1) fuel) as [r|] eqn:Er; cbn [bind] in H; [|discriminate].
      apply Val_inj in H. subst l. destruct (IH (i + 1) r Er) as (A & B).
      apply qv_get_some in Eg. destruct Eg as (Eg & Hi). split.
      * intros j x Hj. destruct (N.eqb_spec j 0) as [->|Hj0].
        -- rewrite nthN_0 in Hj. injection Hj as <-. now rewrite N.add_0_r.
        -- replace j with (j - 1 + 1) in Hj by lia. rewrite nthN_succ in Hj.
           replace (i + j) with (i + 1 + (j - 1)) by lia. now apply A.
      * intros H1 H2. rewrite len_cons. specialize (B ltac:(lia) ltac:(lia)). lia.
    + apply Val_inj in H. subst l. apply qv_get_none in Eg. split; [intros j x Hj; destruct j; discriminate|].
      change (len (@nil N)) with 0. lia.
Qed.

Lemma qv_get_unchecked_lt4 q i x : qv_lines_ok q -> qv_get_unchecked q i = Val x -> x < 4.
Proof.
  intros Hq. unfold qv_get_unchecked.
  destruct (odebug_assert (i <? qv_position q / 2)); cbn [bind]; [|discriminate].
  destruct (uidx (qv_data q) (N.shiftr i LINE_SHIFT)) as [l|] eqn:El; cbn [bind]; [|discriminate].
  unfold line_get_unchecked. intros E.
  pose proof (uidx_Forall _ _ _ _ Hq El) as (_ & Hl). exact (uidx_Forall _ _ _ _ Hl E).
Qed.

(* what the constructor needs to know about the symbols qv.iter() yields *)
Lemma qv_symbols_facts q syms : qv_lines_ok q -> qv_cap_ok q -> qv_symbols q = Val syms ->
  N.shiftr (qv_position q) 1 = len syms /\
  (forall i x, nthN syms i = Some x -> g_qv_get_unchecked (pack_qdata (qv_data q)) (qv_position q) i = Val x) /\
  Forall (fun x => x < 4) syms.
Proof.
  intros Hq Hc E. unfold qv_symbols in E. destruct (qv_iter_all_spec q _ 0 syms E) as (A & B).
  assert (G : forall i x, nthN syms i = Some x -> qv_get_unchecked q i = Val x).
  { intros i x Hx. exact (A i x Hx). }
  split; [|split].
  - rewrite <- B; [reflexivity|lia|]. unfold qv_cap_ok in Hc. rewrite LINE_SYMS_nat_val. unfold len in Hc. lia.
  - intros i x Hx. rewrite g_qv_get_unchecked_ok by exact Hq. now apply G.
  - apply Forall_nthN. intros i x Hx. exact (qv_get_unchecked_lt4 q i x Hq (G i x Hx)).
Qed.

(* ================================================================== (2) the constructor theorems *)
(* (E) RSSupportPlain::<256>::new(qv) / RSSupportPlain::<512>::new(qv) regenerated from the source, applied to the
   WORD view of a well-formed quad vector q (lines of 256 symbols < 4, position within the lines), ARE the hand
   model applied to the symbols of q: the same superblocks and select samples, or the same fault (the length
   assertion at 2^43 symbols; the overflow of `superblocks.len() as u32 - 1` just below it).  All the debug
   assertions and checked operations that only the source has are discharged from the construction invariant. *)
Theorem g_rss256_new_ok : forall q syms, qv_lines_ok q -> qv_cap_ok q -> qv_symbols q = Val syms ->
  g_rss256_new (pack_qdata (qv_data q)) (qv_position q)
  = let! rs := rss_new 256 syms in Val (rs_superblocks rs, rs_samples rs).
Proof.
  intros q syms Hq Hc Es. destruct (qv_symbols_facts q syms Hq Hc Es) as (Hlen & Hget & HF).
  rewrite g_rss256_new_unfold. apply gnew_eq; try assumption; [now left|reflexivity].
Qed.
Theorem g_rss512_new_ok : forall q syms, qv_lines_ok q -> qv_cap_ok q -> qv_symbols q = Val syms ->
  g_rss512_new (pack_qdata (qv_data q)) (qv_position q)
  = let! rs := rss_new 512 syms in Val (rs_superblocks rs, rs_samples rs).
Proof.
  intros q syms Hq Hc Es. destruct (qv_symbols_facts q syms Hq Hc Es) as (Hlen & Hget & HF).
  rewrite g_rss512_new_unfold. apply gnew_eq; try assumption; [now right|reflexivity].
Qed.

(* (S) the simulation shape: whenever the hand model returns a directory, the generated code returns its fields
   (rss_new = Val rs already implies len syms < 2^43; below RSQ_MAXN = 2^43 - 4096 it always does, rss_new_ok) *)
Theorem g_rss256_new_sim : forall q syms rs, qv_lines_ok q -> qv_cap_ok q -> qv_symbols q = Val syms ->
  rss_new 256 syms = Val rs ->
  g_rss256_new (pack_qdata (qv_data q)) (qv_position q) = Val (rs_superblocks rs, rs_samples rs).
Proof. intros q syms rs Hq Hc Es E. rewrite (g_rss256_new_ok q syms Hq Hc Es), E. reflexivity. Qed.
Theorem g_rss512_new_sim : forall q syms rs, qv_lines_ok q -> qv_cap_ok q -> qv_symbols q = Val syms ->
  rss_new 512 syms = Val rs ->
  g_rss512_new (pack_qdata (qv_data q)) (qv_position q) = Val (rs_superblocks rs, rs_samples rs).
Proof. intros q syms rs Hq Hc Es E. rewrite (g_rss512_new_ok q syms Hq Hc Es), E. reflexivity. Qed.

(* in particular the generated constructor succeeds on every well-formed quad vector of fewer than RSQ_MAXN symbols,
   and what it returns is the closed form [dir_ok] of Proofs/RSQBuild.v *)
Theorem g_rss_new_dir_ok : forall q syms, qv_lines_ok q -> qv_cap_ok q -> qv_symbols q = Val syms ->
  len syms < RSQ_MAXN ->
  (exists sbs samples, g_rss256_new (pack_qdata (qv_data q)) (qv_position q) = Val (sbs, samples) /\
                       dir_ok 256 syms (mk_rss sbs samples)) /\
  (exists sbs samples, g_rss512_new (pack_qdata (qv_data q)) (qv_position q) = Val (sbs, samples) /\
                       dir_ok 512 syms (mk_rss sbs samples)).
Proof.
  intros q syms Hq Hc Es Hn. destruct (qv_symbols_facts q syms Hq Hc Es) as (_ & _ & HF).
  split.
  - destruct (rss_new_ok 256 syms (or_introl eq_refl) Hn HF) as ([sbs sam] & E & Hd).
    exists sbs, sam. split; [exact (g_rss256_new_sim q syms _ Hq Hc Es E)|exact Hd].
  - destruct (rss_new_ok 512 syms (or_intror eq_refl) Hn HF) as ([sbs sam] & E & Hd).
    exists sbs, sam. split; [exact (g_rss512_new_sim q syms _ Hq Hc Es E)|exact Hd].
Qed.

(* ================================================================== (3) END TO END *)
From QwtModel Require Import FnsRsq FnsRsqOk RSQP.

Lemma qvb_inv_cap_ok q sy : qvb_inv q sy -> qv_cap_ok q.
Proof.
  intros (Hpos & _ & Hlen & _). unfold qv_cap_ok. rewrite Hpos, Hlen, N.shiftr_div_pow2.
  change (2 ^ 1) with 2. lia.
Qed.

(* what rsq_new builds: the quad vector holding the stored symbols and the directory rss_new builds for them *)
Lemma rsq_new_parts bsize vs r : rsq_new bsize vs = Val r ->
  qvb_inv (rsq_qv r) (map sym4 vs) /\ rss_new bsize (map sym4 vs) = Val (rsq_rs r).
Proof.
  intros E. unfold rsq_new in E.
  destruct (qvb_push_all_inv (map (fun v => v mod 256) vs) qvb_new [] qvb_inv_new) as (q & Eq & Hq).
  rewrite Eq in E. cbn [bind app] in *.
  assert (Es : map sym4 (map (fun v => v mod 256) vs) = map sym4 vs).
  { rewrite map_map. apply map_ext. intros v. unfold sym4. lia. }
  rewrite Es in Hq.
  unfold rsq_from_qv in E. rewrite (qv_symbols_inv q _ Hq) in E. cbn [bind] in E.
  destruct (rss_new bsize (map sym4 vs)) as [rs|] eqn:Ers; cbn [bind] in E; [|discriminate].
  apply Val_inj in E. subst r. cbn [rsq_rs rsq_qv]. split; [exact Hq|reflexivity].
Qed.

Lemma Forall_sym4 vs : Forall (fun x => x < 4) (map sym4 vs).
Proof. apply Forall_forall. intros x Hx. apply in_map_iff in Hx. destruct Hx as (v & <- & _). unfold sym4. lia. Qed.

(* the REGENERATED directory constructor, run on the word view of the quad vector RSQVector::new stores, returns
   exactly the directory of the hand-modelled RSQVector (for every input: no length hypothesis is needed, rsq_new
   itself fails beyond 2^43 symbols) *)
Theorem g_rss256_new_e2e : forall vs r, rsq_new 256 vs = Val r ->
  g_rss256_new (rsq_wdata r) (rsq_pos r) = Val (rs_superblocks (rsq_rs r), rs_samples (rsq_rs r)).
Proof.
  intros vs r Hr. destruct (rsq_new_parts 256 vs r Hr) as (Hq & Hrs).
  unfold rsq_wdata, rsq_pos. apply (g_rss256_new_sim (rsq_qv r) (map sym4 vs)).
  - exact (qvb_inv_lines_ok _ _ Hq (Forall_sym4 vs)).
  - exact (qvb_inv_cap_ok _ _ Hq).
  - exact (qv_symbols_inv _ _ Hq).
  - exact Hrs.
Qed.
Theorem g_rss512_new_e2e : forall vs r, rsq_new 512 vs = Val r ->
  g_rss512_new (rsq_wdata r) (rsq_pos r) = Val (rs_superblocks (rsq_rs r), rs_samples (rsq_rs r)).
Proof.
  intros vs r Hr. destruct (rsq_new_parts 512 vs r Hr) as (Hq & Hrs).
  unfold rsq_wdata, rsq_pos. apply (g_rss512_new_sim (rsq_qv r) (map sym4 vs)).
  - exact (qvb_inv_lines_ok _ _ Hq (Forall_sym4 vs)).
  - exact (qvb_inv_cap_ok _ _ Hq).
  - exact (qv_symbols_inv _ _ Hq).
  - exact Hrs.
Qed.

(* hence: rank / select / rank_unchecked / select_unchecked / rank_block_unchecked of the generated RSQVector, run
   on the directory (sbs, samples) that the REGENERATED constructor returns, are the list specification on the
   stored symbols map sym4 vs (sym4 v = v mod 4) *)
Theorem g_rsq256_regenerated_dir : forall vs r, len vs < RSQ_MAXN -> rsq_new 256 vs = Val r ->
  exists sbs samples, g_rss256_new (rsq_wdata r) (rsq_pos r) = Val (sbs, samples) /\
    (forall c i, g_rsq256_rank (rsq_wdata r) (rsq_pos r) sbs c i
       = Val (if (c <=? 3) && (i <=? len vs) then Some (rank_spec (map sym4 vs) c i) else None)) /\
    (forall c k fuel, k < 2 ^ 64 -> (S (S (N.to_nat (len vs / (8 * 256)))) <= fuel)%nat ->
       g_rsq256_select fuel (rsq_wdata r) sbs samples (rsq_occs_smaller r) c k
       = Val (if c <=? 3 then select_spec (map sym4 vs) c k else None)) /\
    (forall c i, c <= 3 -> i <= len vs ->
       g_rsq256_rank_unchecked (rsq_wdata r) sbs c i = Val (rank_spec (map sym4 vs) c i)) /\
    (forall c k p fuel, c <= 3 -> select_spec (map sym4 vs) c k = Some p ->
       (S (S (N.to_nat (len vs / (8 * 256)))) <= fuel)%nat ->
       g_rsq256_select_unchecked fuel (rsq_wdata r) sbs samples (rsq_occs_smaller r) c k = Val p) /\
    (forall c i, c <= 3 -> i <= len vs ->
       exists v, g_rsq256_rank_block_unchecked sbs c i = Val v /\ v <= rank_spec (map sym4 vs) c i).
Proof.
  intros vs r Hn Hr. exists (rs_superblocks (rsq_rs r)), (rs_samples (rsq_rs r)).
  split; [exact (g_rss256_new_e2e vs r Hr)|]. split; [|split; [|split; [|split]]].
  - exact (g_rsq256_rank_new vs r Hn Hr).
  - exact (g_rsq256_select_new vs r Hn Hr).
  - exact (g_rsq256_rank_unchecked_new vs r Hn Hr).
  - exact (g_rsq256_select_unchecked_new vs r Hn Hr).
  - exact (g_rsq256_rank_block_unchecked_new vs r Hn Hr).
Qed.
Theorem g_rsq512_regenerated_dir : forall vs r, len vs < RSQ_MAXN -> rsq_new 512 vs = Val r ->
  exists sbs samples, g_rss512_new (rsq_wdata r) (rsq_pos r) = Val (sbs, samples) /\
    (forall c i, g_rsq512_rank (rsq_wdata r) (rsq_pos r) sbs c i
       = Val (if (c <=? 3) && (i <=? len vs) then Some (rank_spec (map sym4 vs) c i) else None)) /\
    (forall c k fuel, k < 2 ^ 64 -> (S (S (N.to_nat (len vs / (8 * 512)))) <= fuel)%nat ->
       g_rsq512_select fuel (rsq_wdata r) sbs samples (rsq_occs_smaller r) c k
       = Val (if c <=? 3 then select_spec (map sym4 vs) c k else None)) /\
    (forall c i, c <= 3 -> i <= len vs ->
       g_rsq512_rank_unchecked (rsq_wdata r) sbs c i = Val (rank_spec (map sym4 vs) c i)) /\
    (forall c k p fuel, c <= 3 -> select_spec (map sym4 vs) c k = Some p ->
       (S (S (N.to_nat (len vs / (8 * 512)))) <= fuel)%nat ->
       g_rsq512_select_unchecked fuel (rsq_wdata r) sbs samples (rsq_occs_smaller r) c k = Val p) /\
    (forall c i, c <= 3 -> i <= len vs ->
       exists v, g_rsq512_rank_block_unchecked sbs c i = Val v /\ v <= rank_spec (map sym4 vs) c i).
Proof.
  intros vs r Hn Hr. exists (rs_superblocks (rsq_rs r)), (rs_samples (rsq_rs r)).
  split; [exact (g_rss512_new_e2e vs r Hr)|]. split; [|split; [|split; [|split]]].
  - exact (g_rsq512_rank_new vs r Hn Hr).
  - exact (g_rsq512_select_new vs r Hn Hr).
  - exact (g_rsq512_rank_unchecked_new vs r Hn Hr).
  - exact (g_rsq512_select_unchecked_new vs r Hn Hr).
  - exact (g_rsq512_rank_block_unchecked_new vs r Hn Hr).
Qed.

(* the constructor always succeeds below RSQ_MAXN symbols *)
Corollary g_rss_new_total : forall vs, len vs < RSQ_MAXN ->
  exists r, rsq_new 256 vs = Val r /\
    g_rss256_new (rsq_wdata r) (rsq_pos r) = Val (rs_superblocks (rsq_rs r), rs_samples (rsq_rs r)).
Proof.
  intros vs Hn. destruct (rsq_new_correct 256 vs (or_introl eq_refl) Hn) as (r & Er & _).
  exists r. split; [exact Er|exact (g_rss256_new_e2e vs r Er)].
Qed.

(* non-vacuity: the regenerated constructor evaluated (vm_compute) on the word view of the 600-symbol example of
   Proofs/RSQP.v returns the directory of the hand model, both block sizes *)
Example g_rss_new_example :
  match rsq_new 256 rsq_example_input, rsq_new 512 rsq_example_input with
  | Val r, Val r' =>
      g_rss256_new (rsq_wdata r) (rsq_pos r) = Val (rs_superblocks (rsq_rs r), rs_samples (rsq_rs r)) /\
      g_rss512_new (rsq_wdata r') (rsq_pos r') = Val (rs_superblocks (rsq_rs r'), rs_samples (rsq_rs r')) /\
      len (rs_superblocks (rsq_rs r)) = 1 /\ g_rss256_new [] 0 = Val ([[0; 0; 0; 0]], [[0; 0]; [0; 0]; [0; 0]; [0; 0]])
  | _, _ => False
  end.
Proof. vm_compute. repeat split; reflexivity. Qed.

(* a longer run that crosses superblock boundaries and takes a second select sample (20000 symbols, 16000 of them
   equal to 1): the regenerated constructor again returns the hand model's directory *)
Definition g_rss_example_long : list N := map (fun i => if i mod 5 =? 0 then 2 else 1) (seqN 0 (N.to_nat 20000)).
Example g_rss_new_example_long :
  match rsq_new 256 g_rss_example_long, rsq_new 512 g_rss_example_long with
  | Val r, Val r' =>
      g_rss256_new (rsq_wdata r) (rsq_pos r) = Val (rs_superblocks (rsq_rs r), rs_samples (rsq_rs r)) /\
      g_rss512_new (rsq_wdata r') (rsq_pos r') = Val (rs_superblocks (rsq_rs r'), rs_samples (rsq_rs r')) /\
      len (rs_superblocks (rsq_rs r)) = 10 /\ len (rs_superblocks (rsq_rs r')) = 5 /\
      rs_samples (rsq_rs r) = [[0; 9]; [0; 5; 9]; [0; 9]; [0; 9]]
  | _, _ => False
  end.
Proof. vm_compute. repeat split; reflexivity. Qed.

(* the hypothesis qv_cap_ok of the simulation theorems cannot be dropped: on a (never constructed) quad vector
   whose position exceeds its data lines the hand model's symbol list stops at the data (fuel of qv_symbols),
   the source reads past the allocation *)
Example qv_cap_ok_needed :
  let q := mk_qvec [] 2 in
  qv_lines_ok q /\ qv_symbols q = Val [] /\ is_val (rss_new 256 []) = true /\
  g_rss256_new (pack_qdata (qv_data q)) (qv_position q) = Fault UB.
Proof. split; [constructor|]. vm_compute. repeat split; reflexivity. Qed.

Print Assumptions g_sb_new_ok.
Print Assumptions g_sb_set_block_counters_ok.
Print Assumptions g_rss256_new_unfold.
Print Assumptions g_rss512_new_unfold.
Print Assumptions gnew_eq.
Print Assumptions gnew_sim.
Print Assumptions g_rss256_new_ok.
Print Assumptions g_rss512_new_ok.
Print Assumptions g_rss256_new_sim.
Print Assumptions g_rss512_new_sim.
Print Assumptions g_rss_new_dir_ok.
Print Assumptions g_rss256_new_e2e.
Print Assumptions g_rss512_new_e2e.
Print Assumptions g_rsq256_regenerated_dir.
Print Assumptions g_rsq512_regenerated_dir.
Print Assumptions g_rss_new_total.
Print Assumptions g_rss_new_example.
Print Assumptions g_rss_new_example_long.
Print Assumptions qv_cap_ok_needed.

(* ------------------------------------------------------------------ summary / findings
   (1) g_sb_new sbc = Val (sb_new sbc) for every sbc of length 4 (no range: the source shifts a u128; for another
       length the two differ: the source indexes sbc[0..4], the hand model maps over the list);
       g_sb_set_block_counters s b cs = sb_set_block_counters s b cs for len s = len cs = 4, both assertion panics
       included, no range on the words.
   (2) g_rss{256,512}_new_ok: EQUALITY with the hand model (value or fault) on the word view of every well-formed
       quad vector (qv_lines_ok, qv_cap_ok) whose iterator yields syms; g_rss{256,512}_new_sim: the simulation
       shape; g_rss_new_dir_ok: below RSQ_MAXN symbols the result exists and is the closed form dir_ok.
       Discharged from the invariant binv / pinv of Proofs/RSQBuild.v: the four `debug_assert_eq!(block_counters
       [symbol], get_block_counter(symbol, block_id))` after every set_block_counters (the field stored reads
       back: fields of later blocks are still zero, counters < 4096), `superblock_index(i) <= u32::MAX`,
       `superblock_index(i) < superblocks.len()`, the three checked `+= 1`, `last_mut().unwrap()`, the
       usize arithmetic of superblock_size / n_superblocks / next_block_id, `superblocks.len() as u32 - 1`.
   (3) g_rss{256,512}_new_e2e / g_rsq{256,512}_regenerated_dir: on what RSQVector::new stores, the regenerated
       constructor returns the directory of the hand-modelled RSQVector, and the generated rank / select /
       rank_unchecked / select_unchecked / rank_block_unchecked on THAT output are the list specification.
   No mismatch between the generated constructor and the hand model was found.  The only extra hypothesis is
   qv_cap_ok (position within the data lines), which every constructed QVector satisfies (qvb_inv_cap_ok) and which
   cannot be dropped (qv_cap_ok_needed: the hand model takes the symbol LIST, whose computation qv_symbols is
   bounded by the number of lines, while the source reads qv.len() symbols). *)
