(* Round trip theorems for the bincode wire format model (Model/Serde.v), for all schemas
   and all well-typed values. *)
From Coq Require Import ZArith Lia ZifyBool ZifyN ZifyNat.
From QwtModel Require Import ListX Serde.
Ltac Zify.zify_post_hook ::= Z.div_mod_to_equations.
Arguments N.add : simpl never.
Arguments N.sub : simpl never.
Arguments N.mul : simpl never.
Arguments N.div : simpl never.
Arguments N.modulo : simpl never.
Arguments N.eqb : simpl never.
Arguments N.ltb : simpl never.
Arguments N.leb : simpl never.
Arguments N.pow : simpl never.
Arguments N.of_nat : simpl never.

Notation byte_ok := (fun b : N => b < 256).

(* ------------------------------------------------------------------------------------ *)
(* induction principles through the nested lists                                        *)

Fixpoint ty_ind'
  (P : ty -> Prop)
  (HU : forall n, P (TU n))
  (HBool : P TBool)
  (HSeq : forall t, P t -> P (TSeq t))
  (HArr : forall n t, P t -> P (TArr n t))
  (HOpt : forall t, P t -> P (TOpt t))
  (HTuple : forall ts, Forall P ts -> P (TTuple ts))
  (HUnit : P TUnit)
  (t : ty) {struct t} : P t :=
  match t return P t with
  | TU n => HU n
  | TBool => HBool
  | TSeq t' => HSeq t' (ty_ind' P HU HBool HSeq HArr HOpt HTuple HUnit t')
  | TArr n t' => HArr n t' (ty_ind' P HU HBool HSeq HArr HOpt HTuple HUnit t')
  | TOpt t' => HOpt t' (ty_ind' P HU HBool HSeq HArr HOpt HTuple HUnit t')
  | TTuple ts =>
      HTuple ts
        ((fix go (l : list ty) : Forall P l :=
            match l return Forall P l with
            | [] => Forall_nil P
            | t1 :: l' =>
                Forall_cons t1 (ty_ind' P HU HBool HSeq HArr HOpt HTuple HUnit t1) (go l')
            end) ts)
  | TUnit => HUnit
  end.

Fixpoint value_ind'
  (P : value -> Prop)
  (HU : forall x, P (VU x))
  (HBool : forall b, P (VBool b))
  (HSeq : forall vs, Forall P vs -> P (VSeq vs))
  (HNone : P (VOpt None))
  (HSome : forall v, P v -> P (VOpt (Some v)))
  (HTuple : forall vs, Forall P vs -> P (VTuple vs))
  (HUnit : P VUnit)
  (v : value) {struct v} : P v :=
  let all :=
    fix go (l : list value) : Forall P l :=
      match l return Forall P l with
      | [] => Forall_nil P
      | v1 :: l' =>
          Forall_cons v1 (value_ind' P HU HBool HSeq HNone HSome HTuple HUnit v1) (go l')
      end in
  match v return P v with
  | VU x => HU x
  | VBool b => HBool b
  | VSeq vs => HSeq vs (all vs)
  | VOpt None => HNone
  | VOpt (Some v') => HSome v' (value_ind' P HU HBool HSeq HNone HSome HTuple HUnit v')
  | VTuple vs => HTuple vs (all vs)
  | VUnit => HUnit
  end.

(* ------------------------------------------------------------------------------------ *)
(* little endian                                                                        *)

Lemma pow8S n : 2 ^ (8 * N.of_nat (S n)) = 256 * 2 ^ (8 * N.of_nat n).
Proof.
  replace (8 * N.of_nat (S n)) with (8 + 8 * N.of_nat n) by lia.
  rewrite N.pow_add_r. reflexivity.
Qed.

Lemma le_bytes_length n : forall x, length (le_bytes n x) = n.
Proof. induction n; intros x; cbn [le_bytes length]; [reflexivity | now rewrite IHn]. Qed.

Lemma le_bytes_ok n : forall x, Forall byte_ok (le_bytes n x).
Proof.
  induction n; intros x; cbn [le_bytes]; constructor.
  - apply N.mod_lt. discriminate.
  - apply IHn.
Qed.

Lemma le_value_le_bytes n : forall x, x < 2 ^ (8 * N.of_nat n) -> le_value (le_bytes n x) = x.
Proof.
  induction n; intros x Hx.
  - change (2 ^ (8 * N.of_nat 0)) with 1 in Hx. cbn [le_bytes le_value]. lia.
  - rewrite pow8S in Hx. cbn [le_bytes le_value].
    rewrite IHn by (apply N.div_lt_upper_bound; [discriminate | exact Hx]).
    pose proof (N.div_mod x 256). lia.
Qed.

Lemma le_value_bound a : Forall byte_ok a -> le_value a < 2 ^ (8 * N.of_nat (length a)).
Proof.
  induction 1 as [|b a Hb Ha IH].
  - cbn [le_value length]. change (2 ^ (8 * N.of_nat 0)) with 1. lia.
  - cbn [le_value length]. rewrite pow8S. lia.
Qed.

Lemma le_bytes_le_value a : Forall byte_ok a -> le_bytes (length a) (le_value a) = a.
Proof.
  induction 1 as [|b a Hb Ha IH].
  - reflexivity.
  - cbn [le_value length le_bytes].
    replace ((b + 256 * le_value a) mod 256) with b by lia.
    replace ((b + 256 * le_value a) / 256) with (le_value a) by lia.
    rewrite IH. reflexivity.
Qed.

Lemma take_bytes_app a : forall r, Forall byte_ok a -> take_bytes (length a) (a ++ r) = Some (a, r).
Proof.
  intros r H. induction H as [|b a Hb Ha IH].
  - reflexivity.
  - cbn [length app take_bytes]. apply N.ltb_lt in Hb. rewrite Hb, IH. reflexivity.
Qed.

Lemma take_bytes_le n x r : take_bytes n (le_bytes n x ++ r) = Some (le_bytes n x, r).
Proof.
  rewrite <- (le_bytes_length n x) at 1. apply take_bytes_app, le_bytes_ok.
Qed.

Lemma take_bytes_inv n : forall bs a r, take_bytes n bs = Some (a, r) ->
  bs = a ++ r /\ length a = n /\ Forall byte_ok a.
Proof.
  induction n; intros bs a r H; cbn [take_bytes] in H.
  - injection H as <- <-. repeat split. constructor.
  - destruct bs as [|b bs]; [discriminate|].
    destruct (b <? 256) eqn:Hb; [|discriminate].
    destruct (take_bytes n bs) as [[a' r']|] eqn:E; [|discriminate].
    injection H as <- <-. apply IHn in E. destruct E as (-> & <- & Hf).
    repeat split. constructor; [apply N.ltb_lt, Hb | exact Hf].
Qed.

(* ------------------------------------------------------------------------------------ *)
(* repeated decoding: binary count = unary count                                        *)

Lemma dec_nat_add {A} (f : list N -> option (A * list N)) a b : forall bs,
  dec_nat f (a + b) bs =
  match dec_nat f a bs with
  | Some (vs1, r1) =>
      match dec_nat f b r1 with
      | Some (vs2, r2) => Some (vs1 ++ vs2, r2)
      | None => None
      end
  | None => None
  end.
Proof.
  induction a; intros bs; cbn [Nat.add dec_nat].
  - destruct (dec_nat f b bs) as [[vs r]|]; reflexivity.
  - destruct (f bs) as [[v r]|]; [|reflexivity]. rewrite IHa.
    destruct (dec_nat f a r) as [[vs1 r1]|]; [|reflexivity].
    destruct (dec_nat f b r1) as [[vs2 r2]|]; reflexivity.
Qed.

Lemma dec_nat_1 {A} (f : list N -> option (A * list N)) bs :
  dec_nat f 1 bs = match f bs with Some (v, r) => Some ([v], r) | None => None end.
Proof. cbn [dec_nat]. destruct (f bs) as [[v r]|]; reflexivity. Qed.

Lemma dec_pos_nat {A} (f : list N -> option (A * list N)) p : forall bs,
  dec_pos f p bs = dec_nat f (Pos.to_nat p) bs.
Proof.
  induction p; intros bs; cbn [dec_pos].
  - rewrite Pos2Nat.inj_xI.
    change (S (2 * Pos.to_nat p)) with (1 + (2 * Pos.to_nat p))%nat.
    replace (2 * Pos.to_nat p)%nat with (Pos.to_nat p + Pos.to_nat p)%nat by lia.
    rewrite dec_nat_add, dec_nat_1.
    destruct (f bs) as [[v r]|]; [|reflexivity].
    rewrite dec_nat_add, <- !IHp.
    destruct (dec_pos f p r) as [[vs1 r1]|]; [|reflexivity].
    rewrite <- IHp.
    destruct (dec_pos f p r1) as [[vs2 r2]|]; reflexivity.
  - rewrite Pos2Nat.inj_xO.
    replace (2 * Pos.to_nat p)%nat with (Pos.to_nat p + Pos.to_nat p)%nat by lia.
    rewrite dec_nat_add, <- !IHp.
    destruct (dec_pos f p bs) as [[vs1 r1]|]; [|reflexivity].
    rewrite <- IHp. reflexivity.
  - rewrite Pos2Nat.inj_1. apply eq_sym, dec_nat_1.
Qed.

Lemma dec_N_nat {A} (f : list N -> option (A * list N)) c bs :
  dec_N f c bs = dec_nat f (N.to_nat c) bs.
Proof. destruct c; [reflexivity | apply dec_pos_nat]. Qed.

(* encode then decode, item by item *)
Lemma dec_nat_enc {A} (f : list N -> option (A * list N)) (enc : A -> list N) vs :
  Forall (fun v => forall rest, f (enc v ++ rest) = Some (v, rest)) vs ->
  forall rest, dec_nat f (length vs) (flat_map enc vs ++ rest) = Some (vs, rest).
Proof.
  induction 1 as [|v vs Hv Hvs IH]; intros rest.
  - reflexivity.
  - cbn [length flat_map dec_nat]. rewrite <- app_assoc, Hv, IH. reflexivity.
Qed.

(* decode then encode, item by item *)
Lemma dec_nat_inv {A} (f : list N -> option (A * list N)) (enc : A -> list N) (ok : A -> bool) :
  (forall bs v rest, f bs = Some (v, rest) -> ok v = true /\ bs = enc v ++ rest) ->
  forall n bs vs rest, dec_nat f n bs = Some (vs, rest) ->
  forallb ok vs = true /\ length vs = n /\ bs = flat_map enc vs ++ rest.
Proof.
  intros Hf. induction n; intros bs vs rest H; cbn [dec_nat] in H.
  - injection H as <- <-. repeat split.
  - destruct (f bs) as [[v r]|] eqn:E; [|discriminate].
    destruct (dec_nat f n r) as [[vs' r']|] eqn:E'; [|discriminate].
    injection H as <- <-. apply Hf in E. destruct E as (Hv & ->).
    apply IHn in E'. destruct E' as (Hvs & <- & ->).
    cbn [forallb length flat_map]. rewrite Hv, Hvs, <- app_assoc. repeat split.
Qed.

(* the items that were decoded re-encode to bytes *)
Lemma dec_nat_bytes {A} (f : list N -> option (A * list N)) (enc : A -> list N) :
  (forall bs v rest, f bs = Some (v, rest) -> Forall byte_ok (enc v)) ->
  forall n bs vs rest, dec_nat f n bs = Some (vs, rest) -> Forall byte_ok (flat_map enc vs).
Proof.
  intros Hf. induction n; intros bs vs rest H; cbn [dec_nat] in H.
  - injection H as <- <-. constructor.
  - destruct (f bs) as [[v r]|] eqn:E; [|discriminate].
    destruct (dec_nat f n r) as [[vs' r']|] eqn:E'; [|discriminate].
    injection H as <- <-. cbn [flat_map]. apply Forall_app. split; eauto.
Qed.

(* ------------------------------------------------------------------------------------ *)
(* unfolding equations                                                                  *)

Lemma wt_TTuple ts : forall vs, wt (TTuple ts) (VTuple vs) = wt_tuple ts vs.
Proof.
  induction ts as [|t ts IH]; intros [|v vs]; reflexivity.
Qed.

Lemma encode_TTuple ts : forall vs, encode (TTuple ts) (VTuple vs) = enc_tuple ts vs.
Proof.
  induction ts as [|t ts IH]; intros [|v vs]; reflexivity.
Qed.

Lemma dec_tuple_eq ts : forall bs,
  (fix go (ts : list ty) (bs : list N) {struct ts} : option (list value * list N) :=
     match ts with
     | [] => Some ([], bs)
     | t1 :: ts' =>
         match decode t1 bs with
         | Some (v, r) =>
             match go ts' r with
             | Some (vs, r') => Some (v :: vs, r')
             | None => None
             end
         | None => None
         end
     end) ts bs = dec_tuple ts bs.
Proof.
  induction ts as [|t ts IH]; intros bs; [reflexivity|].
  cbn [dec_tuple]. destruct (decode t bs) as [[v r]|]; [|reflexivity].
  rewrite IH. reflexivity.
Qed.

Lemma decode_TTuple ts bs :
  decode (TTuple ts) bs =
  match dec_tuple ts bs with Some (vs, r) => Some (VTuple vs, r) | None => None end.
Proof. rewrite <- dec_tuple_eq. reflexivity. Qed.

Lemma wt_TSeq t vs : wt (TSeq t) (VSeq vs) = (len vs <? 2 ^ 64) && forallb (wt t) vs.
Proof. reflexivity. Qed.
Lemma wt_TArr n t vs : wt (TArr n t) (VSeq vs) = Nat.eqb (length vs) n && forallb (wt t) vs.
Proof. reflexivity. Qed.
Lemma encode_TSeq t vs :
  encode (TSeq t) (VSeq vs) = le_bytes 8 (len vs) ++ flat_map (encode t) vs.
Proof. reflexivity. Qed.
Lemma encode_TArr n t vs : encode (TArr n t) (VSeq vs) = flat_map (encode t) vs.
Proof. reflexivity. Qed.
Lemma decode_TU n bs :
  decode (TU n) bs =
  match take_bytes n bs with Some (a, r) => Some (VU (le_value a), r) | None => None end.
Proof. reflexivity. Qed.
Lemma decode_TSeq t bs :
  decode (TSeq t) bs =
  match take_bytes 8 bs with
  | Some (a, r) =>
      match dec_N (decode t) (le_value a) r with
      | Some (vs, r') => Some (VSeq vs, r')
      | None => None
      end
  | None => None
  end.
Proof. reflexivity. Qed.
Lemma decode_TArr n t bs :
  decode (TArr n t) bs =
  match dec_nat (decode t) n bs with Some (vs, r) => Some (VSeq vs, r) | None => None end.
Proof. reflexivity. Qed.
Lemma decode_TOpt t bs :
  decode (TOpt t) bs =
  match bs with
  | [] => None
  | b :: r =>
      if b =? 0 then Some (VOpt None, r)
      else if b =? 1 then
        match decode t r with Some (v, r') => Some (VOpt (Some v), r') | None => None end
      else None
  end.
Proof. reflexivity. Qed.
Lemma decode_TBool bs :
  decode TBool bs =
  match bs with
  | [] => None
  | b :: r =>
      if b =? 0 then Some (VBool false, r)
      else if b =? 1 then Some (VBool true, r)
      else None
  end.
Proof. reflexivity. Qed.

Lemma pow64 : 2 ^ 64 = 2 ^ (8 * N.of_nat 8).
Proof. reflexivity. Qed.

Lemma forallb_Forall_imp {A} (p : A -> bool) (Q : A -> Prop) l :
  Forall (fun a => p a = true -> Q a) l -> forallb p l = true -> Forall Q l.
Proof.
  induction 1 as [|a l Ha Hl IH]; intros H; constructor;
    cbn [forallb] in H; apply andb_true_iff in H; destruct H as (H1 & H2); auto.
Qed.

(* ------------------------------------------------------------------------------------ *)
(* serialize, then deserialize                                                          *)

Theorem decode_encode : forall t v rest, wt t v = true ->
  decode t (encode t v ++ rest) = Some (v, rest).
Proof.
  induction t as [n| |t IH|n t IH|t IH|ts IH|] using ty_ind'; intros v rest Hwt.
  - (* TU *)
    destruct v; try discriminate Hwt.
    cbn [wt] in Hwt. apply N.ltb_lt in Hwt.
    cbn [encode]. rewrite decode_TU, take_bytes_le, le_value_le_bytes by exact Hwt. reflexivity.
  - (* TBool *)
    destruct v as [|[]| | | |]; try discriminate Hwt; reflexivity.
  - (* TSeq *)
    destruct v; try discriminate Hwt.
    rewrite wt_TSeq in Hwt. apply andb_true_iff in Hwt. destruct Hwt as (Hlen & Hvs).
    apply N.ltb_lt in Hlen. rewrite pow64 in Hlen.
    rewrite encode_TSeq, decode_TSeq, <- app_assoc, take_bytes_le.
    rewrite le_value_le_bytes by exact Hlen.
    rewrite dec_N_nat. unfold len. rewrite Nat2N.id.
    rewrite (dec_nat_enc (decode t) (encode t)); [reflexivity|].
    eapply forallb_Forall_imp; [|exact Hvs].
    apply Forall_forall. intros v _ Hv rest'. apply IH, Hv.
  - (* TArr *)
    destruct v; try discriminate Hwt.
    rewrite wt_TArr in Hwt. apply andb_true_iff in Hwt. destruct Hwt as (Hlen & Hvs).
    apply Nat.eqb_eq in Hlen. subst n.
    rewrite encode_TArr, decode_TArr.
    rewrite (dec_nat_enc (decode t) (encode t)); [reflexivity|].
    eapply forallb_Forall_imp; [|exact Hvs].
    apply Forall_forall. intros v _ Hv rest'. apply IH, Hv.
  - (* TOpt *)
    destruct v as [| | |[v|]| |]; try discriminate Hwt.
    + cbn [wt] in Hwt. cbn [encode app]. rewrite decode_TOpt.
      change (1 =? 0) with false. change (1 =? 1) with true. cbv iota.
      rewrite IH by exact Hwt. reflexivity.
    + reflexivity.
  - (* TTuple *)
    destruct v; try discriminate Hwt.
    rewrite wt_TTuple in Hwt. rewrite encode_TTuple, decode_TTuple.
    enough (E : dec_tuple ts (enc_tuple ts vs ++ rest) = Some (vs, rest)) by (rewrite E; reflexivity).
    revert vs rest Hwt. induction IH as [|t ts Ht Hts IHts]; intros [|v vs] rest Hwt;
      try discriminate Hwt; [reflexivity|].
    cbn [wt_tuple] in Hwt. apply andb_true_iff in Hwt. destruct Hwt as (Hv & Hvs).
    cbn [enc_tuple dec_tuple]. rewrite <- app_assoc, Ht by exact Hv.
    rewrite IHts by exact Hvs. reflexivity.
  - (* TUnit *)
    destruct v; try discriminate Hwt. reflexivity.
Qed.

(* ------------------------------------------------------------------------------------ *)
(* deserialize, then serialize: the format is canonical                                 *)

Theorem encode_decode : forall t bs v rest, decode t bs = Some (v, rest) ->
  wt t v = true /\ bs = encode t v ++ rest.
Proof.
  induction t as [n| |t IH|n t IH|t IH|ts IH|] using ty_ind'; intros bs v rest H.
  - (* TU *)
    rewrite decode_TU in H.
    destruct (take_bytes n bs) as [[a r]|] eqn:E; [|discriminate].
    injection H as <- <-. apply take_bytes_inv in E. destruct E as (-> & <- & Ha).
    cbn [wt encode]. split.
    + apply N.ltb_lt, le_value_bound, Ha.
    + rewrite le_bytes_le_value by exact Ha. reflexivity.
  - (* TBool *)
    rewrite decode_TBool in H. destruct bs as [|b r]; [discriminate|].
    destruct (b =? 0) eqn:E0; [|destruct (b =? 1) eqn:E1; [|discriminate]];
      injection H as <- <-; [apply N.eqb_eq in E0 | apply N.eqb_eq in E1]; subst b;
      split; reflexivity.
  - (* TSeq *)
    rewrite decode_TSeq in H.
    destruct (take_bytes 8 bs) as [[a r]|] eqn:E; [|discriminate].
    destruct (dec_N (decode t) (le_value a) r) as [[vs r']|] eqn:E'; [|discriminate].
    injection H as <- <-. apply take_bytes_inv in E. destruct E as (-> & Hl & Ha).
    rewrite dec_N_nat in E'.
    apply (dec_nat_inv (decode t) (encode t) (wt t) IH) in E'. destruct E' as (Hvs & Hn & ->).
    assert (Hlen : len vs = le_value a) by (unfold len; rewrite Hn; apply N2Nat.id).
    rewrite wt_TSeq, encode_TSeq, Hlen, Hvs, <- app_assoc. split.
    + apply andb_true_iff. split; [|reflexivity].
      apply N.ltb_lt. rewrite pow64, <- Hl. apply le_value_bound, Ha.
    + rewrite <- Hl, le_bytes_le_value by exact Ha. reflexivity.
  - (* TArr *)
    rewrite decode_TArr in H.
    destruct (dec_nat (decode t) n bs) as [[vs r]|] eqn:E; [|discriminate].
    injection H as <- <-.
    apply (dec_nat_inv (decode t) (encode t) (wt t) IH) in E. destruct E as (Hvs & Hn & ->).
    rewrite wt_TArr, encode_TArr, Hvs, Hn, Nat.eqb_refl. split; reflexivity.
  - (* TOpt *)
    rewrite decode_TOpt in H. destruct bs as [|b r]; [discriminate|].
    destruct (b =? 0) eqn:E0.
    + injection H as <- <-. apply N.eqb_eq in E0. subst b. split; reflexivity.
    + destruct (b =? 1) eqn:E1; [|discriminate]. apply N.eqb_eq in E1. subst b.
      destruct (decode t r) as [[v' r']|] eqn:E; [|discriminate].
      injection H as <- <-. apply IH in E. destruct E as (Hv & ->).
      cbn [wt encode]. split; [exact Hv | reflexivity].
  - (* TTuple *)
    rewrite decode_TTuple in H.
    destruct (dec_tuple ts bs) as [[vs r]|] eqn:E; [|discriminate].
    injection H as <- <-. rewrite wt_TTuple, encode_TTuple.
    revert bs vs r E. induction IH as [|t ts Ht Hts IHts]; intros bs vs rest E;
      cbn [dec_tuple] in E.
    + injection E as <- <-. split; reflexivity.
    + destruct (decode t bs) as [[v r]|] eqn:E1; [|discriminate].
      destruct (dec_tuple ts r) as [[vs' r']|] eqn:E2; [|discriminate].
      injection E as <- <-. apply Ht in E1. destruct E1 as (Hv & ->).
      apply IHts in E2. destruct E2 as (Hvs & ->).
      cbn [wt_tuple enc_tuple]. rewrite Hv, Hvs, <- app_assoc. split; reflexivity.
  - (* TUnit *)
    cbn [decode] in H. injection H as <- <-. split; reflexivity.
Qed.

(* ------------------------------------------------------------------------------------ *)
(* consequences                                                                         *)

Theorem encode_inj : forall t v1 v2, wt t v1 = true -> wt t v2 = true ->
  encode t v1 = encode t v2 -> v1 = v2.
Proof.
  intros t v1 v2 H1 H2 E.
  pose proof (decode_encode t v1 [] H1) as D1.
  pose proof (decode_encode t v2 [] H2) as D2.
  rewrite E, D2 in D1. injection D1 as ->. reflexivity.
Qed.

(* every byte that decode consumes is a byte *)
Lemma decode_bytes : forall t bs v rest, decode t bs = Some (v, rest) ->
  Forall byte_ok (encode t v).
Proof.
  induction t as [n| |t IH|n t IH|t IH|ts IH|] using ty_ind'; intros bs v rest H.
  - rewrite decode_TU in H.
    destruct (take_bytes n bs) as [[a r]|] eqn:E; [|discriminate].
    injection H as <- <-. apply le_bytes_ok.
  - rewrite decode_TBool in H. destruct bs as [|b r]; [discriminate|].
    destruct (b =? 0); [|destruct (b =? 1); [|discriminate]];
      injection H as <- <-; repeat constructor.
  - rewrite decode_TSeq in H.
    destruct (take_bytes 8 bs) as [[a r]|]; [|discriminate].
    destruct (dec_N (decode t) (le_value a) r) as [[vs r']|] eqn:E'; [|discriminate].
    injection H as <- <-. rewrite dec_N_nat in E'. rewrite encode_TSeq.
    apply Forall_app. split; [apply le_bytes_ok|].
    exact (dec_nat_bytes (decode t) (encode t) IH _ _ _ _ E').
  - rewrite decode_TArr in H.
    destruct (dec_nat (decode t) n bs) as [[vs r]|] eqn:E'; [|discriminate].
    injection H as <- <-. rewrite encode_TArr.
    exact (dec_nat_bytes (decode t) (encode t) IH _ _ _ _ E').
  - rewrite decode_TOpt in H. destruct bs as [|b r]; [discriminate|].
    destruct (b =? 0).
    + injection H as <- <-. repeat constructor.
    + destruct (b =? 1); [|discriminate].
      destruct (decode t r) as [[v' r']|] eqn:E; [|discriminate].
      injection H as <- <-. cbn [encode]. constructor; [reflexivity | eauto].
  - rewrite decode_TTuple in H.
    destruct (dec_tuple ts bs) as [[vs r]|] eqn:E; [|discriminate].
    injection H as <- <-. rewrite encode_TTuple.
    revert bs vs E. induction IH as [|t ts Ht Hts IHts]; intros bs vs E; cbn [dec_tuple] in E.
    + injection E as <- <-. constructor.
    + destruct (decode t bs) as [[v r1]|] eqn:E1; [|discriminate].
      destruct (dec_tuple ts r1) as [[vs' r2]|] eqn:E2; [|discriminate].
      injection E as <- <-. cbn [enc_tuple]. apply Forall_app. split; eauto.
  - cbn [decode] in H. injection H as <- <-. constructor.
Qed.

Theorem encode_bytes : forall t v, wt t v = true -> Forall byte_ok (encode t v).
Proof.
  intros t v H. eapply decode_bytes. apply (decode_encode t v [] H).
Qed.

(* ------------------------------------------------------------------------------------ *)
(* QVector: Box<[DataLine]> with DataLine = [u128; 4], then position : usize            *)

Definition qvector_ty : ty := TTuple [TSeq (TArr 4 (TU 16)); TU 8].
Definition qvector_val : value :=
  VTuple [VSeq [VSeq [VU 1; VU 0x0102030405060708090a0b0c0d0e0f10; VU 0; VU (2 ^ 128 - 1)];
                VSeq [VU 5; VU 6; VU (2 ^ 127); VU 255]];
          VU 300].

Example qvector_roundtrip :
  wt qvector_ty qvector_val = true /\
  len (encode qvector_ty qvector_val) = 8 + 2 * 64 + 8 /\
  len (encode qvector_ty qvector_val) = 144 /\
  firstn 8 (encode qvector_ty qvector_val) = [2; 0; 0; 0; 0; 0; 0; 0] /\
  skipn 136 (encode qvector_ty qvector_val) = [44; 1; 0; 0; 0; 0; 0; 0] /\
  decode qvector_ty (encode qvector_ty qvector_val) = Some (qvector_val, []) /\
  decode qvector_ty (encode qvector_ty qvector_val ++ [7; 1000]) = Some (qvector_val, [7; 1000]) /\
  decode qvector_ty (removelast (encode qvector_ty qvector_val)) = None.
Proof. vm_compute. repeat split. Qed.

Print Assumptions ty_ind'.
Print Assumptions value_ind'.
Print Assumptions decode_encode.
Print Assumptions encode_bytes.
Print Assumptions encode_inj.
Print Assumptions encode_decode.
