(* tree.iter() regenerated (Gen/FnsQwtnew.v, FnsWtnew.v, FnsHqwt.v): the iterator starts at (0, len) over the container's own
   fields.  With Proofs/FnsTitersOk.v: the whole public path  constructor -> iter() -> next / next_back / len ...  through
   regenerated functions only behaves as the deque over the input sequence. *)
From Coq Require Import ZArith Lia.
From QwtModel Require Import ListX Loops Seq Consts Words QVec RSQ QWT Huff Iter RSQBuild QWTP.
From QwtModel Require Import FnsQwt FnsQwtnew FnsWt FnsWtnew FnsHqwt FnsWrapQwtOk FnsWrapWtOk FnsTitersOk.
Open Scope N_scope.

Lemma g_qwt256_iter_ok wT n nl sg d p sb sm oc :
  g_qwt256_iter wT n nl sg d p sb sm oc = let! l := g_qwt256_len n in Val (0, l, n, nl, sg, d, p, sb, sm, oc).
Proof. reflexivity. Qed.
Lemma g_qwt512_iter_ok wT n nl sg d p sb sm oc :
  g_qwt512_iter wT n nl sg d p sb sm oc = let! l := g_qwt512_len n in Val (0, l, n, nl, sg, d, p, sb, sm, oc).
Proof. reflexivity. Qed.

(* constructor (any public path k), then iter(), then any history of next / next_back / len *)
Theorem g_qwt256_iter_path : forall k w s, width_ok w -> Forall (fun x => x < 2 ^ w) s -> len s < RSQ_MAXN ->
  exists n nl sg d p sb sm oc,
    qwt256_ctor k w s = Val (n, nl, sg, d, p, sb, sm, oc) /\
    g_qwt256_iter w n nl sg d p sb sm oc = Val (0, len s, n, nl, sg, d, p, sb, sm, oc) /\
    forall h, g_qwtit256_run w (n, nl, sg, d, p, sb, sm, oc) 0 (len s) h = Val (deque_run s h).
Proof.
  intros k w s Hw HF Hn.
  destruct (g_qwt256_iter_public k w s Hw HF Hn) as (n & nl & sg & d & p & sb & sm & oc & E & L & R).
  exists n, nl, sg, d, p, sb, sm, oc. split; [exact E|]. split; [|exact R].
  rewrite g_qwt256_iter_ok, L. reflexivity.
Qed.
Theorem g_qwt512_iter_path : forall k w s, width_ok w -> Forall (fun x => x < 2 ^ w) s -> len s < RSQ_MAXN ->
  exists n nl sg d p sb sm oc,
    qwt512_ctor k w s = Val (n, nl, sg, d, p, sb, sm, oc) /\
    g_qwt512_iter w n nl sg d p sb sm oc = Val (0, len s, n, nl, sg, d, p, sb, sm, oc) /\
    forall h, g_qwtit512_run w (n, nl, sg, d, p, sb, sm, oc) 0 (len s) h = Val (deque_run s h).
Proof.
  intros k w s Hw HF Hn.
  destruct (g_qwt512_iter_public k w s Hw HF Hn) as (n & nl & sg & d & p & sb & sm & oc & E & L & R).
  exists n, nl, sg, d, p, sb, sm, oc. split; [exact E|]. split; [|exact R].
  rewrite g_qwt512_iter_ok, L. reflexivity.
Qed.

Theorem g_wt_iter_path : forall k w s, (w = 8 \/ w = 16 \/ w = 32 \/ w = 64 \/ w = 128) ->
  Forall (fun x => x < 2 ^ w) s -> len s < RSQ_MAXN ->
  exists n nl sg data nbits nones meta samples nzeros lens,
    wt_ctor k w s = Val (n, nl, sg, None, None, None, data, nbits, nones, meta, samples, nzeros, lens) /\
    g_wt_iter w n nl sg None None None data nbits nones meta samples nzeros lens
      = Val (0, len s, n, nl, sg, None, None, None, data, nbits, nones, meta, samples, nzeros, lens) /\
    forall h, g_wtit_run w (n, nl, sg, None, None, None, data, nbits, nones, meta, samples, nzeros, lens) 0 (len s) h
              = Val (deque_run s h).
Proof.
  intros k w s Hw HF Hn.
  destruct (g_wt_iter_public k w s Hw HF Hn)
    as (n & nl & sg & data & nbits & nones & meta & samples & nzeros & lens & E & L & R).
  exists n, nl, sg, data, nbits, nones, meta, samples, nzeros, lens. split; [exact E|]. split; [|exact R].
  unfold g_wt_iter. rewrite L. reflexivity.
Qed.
Print Assumptions g_qwt256_iter_path.
Print Assumptions g_qwt512_iter_path.
Print Assumptions g_wt_iter_path.
