(* T5 (impl From<QVector> for RSQVector<S>, Default; src/qvector/rs_qvector.rs, both block sizes): the WHOLE
   constructor REGENERATED from the source (Gen/FnsRsq.v: g_rsq256_from, g_rsq512_from, g_rsq256_default,
   g_rsq512_default) against the hand model (Model/RSQ.v: rsq_from_qv, rsq_default, rsq_new).
   The generated function calls the regenerated directory constructor g_rss256_new / g_rss512_new
   (Proofs/FnsRssNewOk.v), counts the symbols with a for_loop over 0 .. qv.len() reading get_unchecked, and turns
   the counts into prefix sums; the hand model takes the symbol list and the closed form occs_smaller_of. *)
From Coq Require Import ZArith Lia ZifyBool ZifyN ZifyNat.
From QwtModel Require Import ListX Loops Seq Consts SelTable Words QVec RSQ LeavesSB LeavesQV FnsQv2 FnsRss FnsRsq
  LeavesLib ListXP ConstsOk QVecP LeafP RSQBits RSQWord RSQList RSQBuild RSQP FnsRssOk FnsQv2Ok FnsRssNewOk FnsRsqOk.
Open Scope N_scope.
Ltac Zify.zify_post_hook ::= Z.div_mod_to_equations.

(* ================================================================== the text of the generated function, in parts *)
Definition GF : Type := (list (list N) * N * list (list N) * list (list N) * list N)%type.

(* the counting loop *)
Definition fcount (qv_data : list (list N)) (qv_position : N) (i0 : N) (n : nat) (occs : list N)
  : outcome (fin (list N) GF) :=
  for_loop (fun i_ n_occs_smaller =>
      let! c := g_qv_get_unchecked qv_data qv_position i_ in
      let! t2 := idx n_occs_smaller c in
      let! t3 := oadd 64 t2 1 in
      let n_occs_smaller := setN n_occs_smaller c t3 in
      Val (Next n_occs_smaller)
    ) i0 n occs.

(* the prefix sums *)
Definition ftail (qv_data : list (list N)) (qv_position : N) (sbs sam : list (list N)) (n_occs_smaller : list N)
  : outcome GF :=
  let! prev := idx n_occs_smaller 0 in
  let! t4 := idx n_occs_smaller 0 in
  let n_occs_smaller := setN n_occs_smaller 0 0 in
  let! r := for_loop (fun i '(n_occs_smaller, prev) =>
      let! tmp := idx n_occs_smaller i in
      let! t5 := osub i 1 in
      let! t6 := idx n_occs_smaller t5 in
      let! t7 := oadd 64 t6 prev in
      let! t8 := idx n_occs_smaller i in
      let n_occs_smaller := setN n_occs_smaller i t7 in
      let prev := tmp in
      Val (Next (n_occs_smaller, prev))
    ) 1 (N.to_nat (5 - 1)) (n_occs_smaller, prev) in
  match r with
  | Retd v => Val v
  | Done (n_occs_smaller, prev) => Val (qv_data, qv_position, sbs, sam, n_occs_smaller)
  end.

Definition gfrom (new : list (list N) -> N -> outcome GR) (qv_data : list (list N)) (qv_position : N) : outcome GF :=
  let! (sbs, sam) := new qv_data qv_position in
  let! t1 := g_qv_len qv_position in
  let! r := fcount qv_data qv_position 0 (N.to_nat (t1 - 0)) [0; 0; 0; 0; 0] in
  match r with
  | Retd v => Val v
  | Done occs => ftail qv_data qv_position sbs sam occs
  end.

Lemma g_rsq256_from_unfold d p : g_rsq256_from d p = gfrom g_rss256_new d p.
Proof. reflexivity. Qed.
Lemma g_rsq512_from_unfold d p : g_rsq512_from d p = gfrom g_rss512_new d p.
Proof. reflexivity. Qed.

(* ================================================================== the counting loop *)
Lemma p64' : 2 ^ 64 = 18446744073709551616. Proof. reflexivity. Qed.

Definition fbody (d : list (list N)) (p : N) : N -> list N -> outcome (step (list N) GF) :=
  fun i_ n_occs_smaller =>
      let! c := g_qv_get_unchecked d p i_ in
      let! t2 := idx n_occs_smaller c in
      let! t3 := oadd 64 t2 1 in
      let n_occs_smaller := setN n_occs_smaller c t3 in
      Val (Next n_occs_smaller).
Lemma fcount_fbody d p i0 n o : fcount d p i0 n o = for_loop (fbody d p) i0 n o.
Proof. reflexivity. Qed.

Lemma oadd1_Val a : a + 1 < 2 ^ 64 -> oadd 64 a 1 = Val (a + 1).
Proof. intros H. unfold oadd. destruct (N.ltb_spec (a + 1) (2 ^ 64)); [reflexivity|lia]. Qed.

Lemma fbody_step d p i0 x a0 a1 a2 a3 a4 : g_qv_get_unchecked d p i0 = Val x -> x < 4 ->
  a0 + a1 + a2 + a3 + 1 < 2 ^ 64 ->
  fbody d p i0 [a0; a1; a2; a3; a4]
  = Val (Next [a0 + (if x =? 0 then 1 else 0); a1 + (if x =? 1 then 1 else 0);
               a2 + (if x =? 2 then 1 else 0); a3 + (if x =? 3 then 1 else 0); a4]).
Proof.
  intros Hg Hx Hb. unfold fbody. rewrite Hg. cbn [bind].
  assert (Hx4 : x = 0 \/ x = 1 \/ x = 2 \/ x = 3) by lia.
  destruct Hx4 as [ -> | [ -> | [ -> | -> ] ] ].
  - change (idx [a0; a1; a2; a3; a4] 0) with (Val a0). cbn [bind]. rewrite oadd1_Val by lia. cbn [bind].
    change (setN [a0; a1; a2; a3; a4] 0 (a0 + 1)) with [a0 + 1; a1; a2; a3; a4].
    change (0 =? 0) with true. change (0 =? 1) with false. change (0 =? 2) with false. change (0 =? 3) with false.
    now rewrite !N.add_0_r.
  - change (idx [a0; a1; a2; a3; a4] 1) with (Val a1). cbn [bind]. rewrite oadd1_Val by lia. cbn [bind].
    change (setN [a0; a1; a2; a3; a4] 1 (a1 + 1)) with [a0; a1 + 1; a2; a3; a4].
    change (1 =? 0) with false. change (1 =? 1) with true. change (1 =? 2) with false. change (1 =? 3) with false.
    now rewrite !N.add_0_r.
  - change (idx [a0; a1; a2; a3; a4] 2) with (Val a2). cbn [bind]. rewrite oadd1_Val by lia. cbn [bind].
    change (setN [a0; a1; a2; a3; a4] 2 (a2 + 1)) with [a0; a1; a2 + 1; a3; a4].
    change (2 =? 0) with false. change (2 =? 1) with false. change (2 =? 2) with true. change (2 =? 3) with false.
    now rewrite !N.add_0_r.
  - change (idx [a0; a1; a2; a3; a4] 3) with (Val a3). cbn [bind]. rewrite oadd1_Val by lia. cbn [bind].
    change (setN [a0; a1; a2; a3; a4] 3 (a3 + 1)) with [a0; a1; a2; a3 + 1; a4].
    change (3 =? 0) with false. change (3 =? 1) with false. change (3 =? 2) with false. change (3 =? 3) with true.
    now rewrite !N.add_0_r.
Qed.

Lemma fcount_ok d p : forall (l : list N) i0 a0 a1 a2 a3 a4,
  (forall j x, nthN l j = Some x -> g_qv_get_unchecked d p (i0 + j) = Val x) ->
  Forall (fun x => x < 4) l ->
  a0 + a1 + a2 + a3 + len l < 2 ^ 64 ->
  fcount d p i0 (length l) [a0; a1; a2; a3; a4]
  = Val (Done [a0 + countN 0 l; a1 + countN 1 l; a2 + countN 2 l; a3 + countN 3 l; a4]).
Proof.
  induction l as [|x l IH]; intros i0 a0 a1 a2 a3 a4 Hget HF Hb.
  - cbn [length fcount for_loop countN]. now rewrite !N.add_0_r.
  - inversion HF as [|? ? Hx HF']; subst. rewrite len_cons in Hb.
    assert (Hg0 : g_qv_get_unchecked d p i0 = Val x).
    { rewrite <- (N.add_0_r i0). apply Hget. apply nthN_0. }
    assert (Hget' : forall j y, nthN l j = Some y -> g_qv_get_unchecked d p (i0 + 1 + j) = Val y).
    { intros j y Hj. replace (i0 + 1 + j) with (i0 + (j + 1)) by lia. apply Hget. now rewrite nthN_succ. }
    rewrite fcount_fbody. cbn [length for_loop].
    rewrite (fbody_step d p i0 x a0 a1 a2 a3 a4 Hg0 Hx) by lia. cbn [bind].
    rewrite <- fcount_fbody. rewrite (IH _ _ _ _ _ _ Hget' HF').
    + cbn [countN]. now rewrite !N.add_assoc.
    + destruct (N.eqb_spec x 0), (N.eqb_spec x 1), (N.eqb_spec x 2), (N.eqb_spec x 3); lia.
Qed.

Lemma count4_le l : countN 0 l + countN 1 l + countN 2 l + countN 3 l <= len l.
Proof.
  induction l as [|x l IH]; [cbn [countN]; unfold len; cbn [length]; lia|].
  cbn [countN]. rewrite len_cons.
  destruct (N.eqb_spec x 0), (N.eqb_spec x 1), (N.eqb_spec x 2), (N.eqb_spec x 3); lia.
Qed.

(* ================================================================== the prefix sums *)
Definition tbody : N -> list N * N -> outcome (step (list N * N) GF) :=
  fun i '(n_occs_smaller, prev) =>
      let! tmp := idx n_occs_smaller i in
      let! t5 := osub i 1 in
      let! t6 := idx n_occs_smaller t5 in
      let! t7 := oadd 64 t6 prev in
      let! t8 := idx n_occs_smaller i in
      let n_occs_smaller := setN n_occs_smaller i t7 in
      let prev := tmp in
      Val (Next (n_occs_smaller, prev)).

Lemma oadd64_Val a b : a + b < 2 ^ 64 -> oadd 64 a b = Val (a + b).
Proof. intros H. unfold oadd. destruct (N.ltb_spec (a + b) (2 ^ 64)); [reflexivity|lia]. Qed.

Lemma tbody_step i n prev tmp t6 : 1 <= i -> idx n i = Val tmp -> idx n (i - 1) = Val t6 -> t6 + prev < 2 ^ 64 ->
  tbody i (n, prev) = Val (Next (setN n i (t6 + prev), tmp)).
Proof.
  intros Hi E1 E2 Hb. unfold tbody. rewrite E1. cbn [bind]. unfold osub.
  destruct (N.leb_spec 1 i); [|lia]. cbn [bind]. rewrite E2. cbn [bind]. rewrite oadd64_Val by exact Hb.
  cbn [bind]. reflexivity.
Qed.

Lemma ftail_ok d p sbs sam c0 c1 c2 c3 a4 : c0 + c1 + c2 + c3 < 2 ^ 64 ->
  ftail d p sbs sam [c0; c1; c2; c3; a4]
  = Val (d, p, sbs, sam, [0; c0; c0 + c1; c0 + c1 + c2; c0 + c1 + c2 + c3]).
Proof.
  intros Hb. unfold ftail.
  change (idx [c0; c1; c2; c3; a4] 0) with (Val c0). cbn [bind].
  change (setN [c0; c1; c2; c3; a4] 0 0) with [0; c1; c2; c3; a4].
  change (N.to_nat (5 - 1)) with 4%nat.
  change (for_loop ?b 1 4 ?s) with (for_loop tbody 1 4 s).
  cbn [for_loop].
  rewrite (tbody_step 1 _ _ c1 0) by first [reflexivity | lia]. cbn [bind].
  change (setN [0; c1; c2; c3; a4] 1 (0 + c0)) with [0; 0 + c0; c2; c3; a4]. change (1 + 1) with 2.
  rewrite (tbody_step 2 _ _ c2 (0 + c0)) by first [reflexivity | lia]. cbn [bind].
  change (setN [0; 0 + c0; c2; c3; a4] 2 (0 + c0 + c1)) with [0; 0 + c0; 0 + c0 + c1; c3; a4]. change (2 + 1) with 3.
  rewrite (tbody_step 3 _ _ c3 (0 + c0 + c1)) by first [reflexivity | lia]. cbn [bind].
  change (setN [0; 0 + c0; 0 + c0 + c1; c3; a4] 3 (0 + c0 + c1 + c2))
    with [0; 0 + c0; 0 + c0 + c1; 0 + c0 + c1 + c2; a4]. change (3 + 1) with 4.
  rewrite (tbody_step 4 _ _ a4 (0 + c0 + c1 + c2)) by first [reflexivity | lia]. cbn [bind].
  change (setN [0; 0 + c0; 0 + c0 + c1; 0 + c0 + c1 + c2; a4] 4 (0 + c0 + c1 + c2 + c3))
    with [0; 0 + c0; 0 + c0 + c1; 0 + c0 + c1 + c2; 0 + c0 + c1 + c2 + c3].
  now rewrite !N.add_0_l.
Qed.

(* ================================================================== the symbols of a well-formed quad vector *)
(* qv.iter() never faults on well-formed lines: the hand model's symbol list always exists *)
Lemma qv_iter_all_total q : qv_lines_ok q -> forall fuel i, i + N.of_nat fuel <= 256 * len (qv_data q) ->
  exists l, qv_iter_all q i fuel = Val l.
Proof.
  intros Hq. induction fuel as [|fuel IH]; intros i Hi; cbn [qv_iter_all]; [now exists []|].
  unfold qv_get. destruct (N.leb_spec (N.shiftr (qv_position q) 1) i) as [H|H]; cbn [bind]; [now exists []|].
  unfold qv_get_unchecked. rewrite N.shiftr_div_pow2 in H. change (2 ^ 1) with 2 in H.
  destruct (N.ltb_spec i (qv_position q / 2)) as [H'|H']; [|lia]. cbn [odebug_assert bind].
  rewrite LINE_SHIFT_val. unfold LINE_MASK.
  assert (Hl : N.shiftr i 8 < len (qv_data q)).
  { rewrite N.shiftr_div_pow2. change (2 ^ 8) with 256. lia. }
  destruct (nthN_lt_some _ _ Hl) as (ln & Eln). unfold uidx at 1. rewrite Eln. cbn [bind].
  pose proof (lines_ok_nth _ _ _ Hq Eln) as (Hlen & _).
  destruct (nthN_lt_some ln (N.land i 255)) as (x & Ex); [rewrite Hlen; apply land255_lt|].
  unfold line_get_unchecked, uidx. rewrite Ex. cbn [bind].
  destruct (IH (i + 1)) as (l & El); [lia|]. rewrite El. cbn [bind]. now exists (x :: l).
Qed.

Lemma qv_symbols_total q : qv_lines_ok q -> exists syms, qv_symbols q = Val syms.
Proof.
  intros Hq. unfold qv_symbols. apply qv_iter_all_total; [exact Hq|].
  rewrite LINE_SYMS_nat_val. unfold len. lia.
Qed.

Lemma rss_new_Val_len bsize syms rs : rss_new bsize syms = Val rs -> len syms < MAX_LEN.
Proof.
  unfold rss_new. destruct (N.ltb_spec (len syms) MAX_LEN) as [H|H]; [intros _; exact H|].
  cbn [oassert bind]. discriminate.
Qed.

Lemma MAX_LEN_lt64 : MAX_LEN < 2 ^ 64. Proof. reflexivity. Qed.

(* ================================================================== (1) From<QVector> *)
Lemma gfrom_ok bsize new q : qv_lines_ok q -> qv_cap_ok q ->
  (forall syms, qv_symbols q = Val syms ->
     new (pack_qdata (qv_data q)) (qv_position q)
     = let! rs := rss_new bsize syms in Val (rs_superblocks rs, rs_samples rs)) ->
  gfrom new (pack_qdata (qv_data q)) (qv_position q)
  = let! r := rsq_from_qv bsize q in
    Val (rsq_wdata r, rsq_pos r, rs_superblocks (rsq_rs r), rs_samples (rsq_rs r), rsq_occs_smaller r).
Proof.
  intros Hq Hc Hnew. destruct (qv_symbols_total q Hq) as (syms & Es).
  destruct (qv_symbols_facts q syms Hq Hc Es) as (Hlen & Hget & HF).
  unfold rsq_from_qv. rewrite Es. cbn [bind]. unfold gfrom. rewrite (Hnew syms Es).
  destruct (rss_new bsize syms) as [rs|f] eqn:Ers; cbn [bind]; [|reflexivity].
  pose proof (rss_new_Val_len _ _ _ Ers) as Hn. pose proof MAX_LEN_lt64 as HM.
  unfold g_qv_len. cbn [bind]. rewrite Hlen, N.sub_0_r. unfold len at 1. rewrite Nat2N.id.
  rewrite fcount_ok; [|intros j x Hx; rewrite N.add_0_l; now apply Hget|exact HF|lia].
  cbn [bind]. rewrite !N.add_0_l.
  pose proof (count4_le syms) as H4.
  rewrite ftail_ok by lia. reflexivity.
Qed.

(* (E) EQUALITY (value or fault alike): the regenerated From<QVector>, applied to the WORD view of a well-formed quad
   vector (lines of 256 symbols < 4; position within the lines), IS the hand model.  No hypothesis on the parity or
   size of qv_position is needed: the length assertion of RSSupportPlain::new (2^43 symbols) comes first and bounds
   the counters of the counting loop. *)
Theorem g_rsq256_from_ok : forall q, qv_lines_ok q -> qv_cap_ok q ->
  g_rsq256_from (pack_qdata (qv_data q)) (qv_position q)
  = let! r := rsq_from_qv 256 q in
    Val (rsq_wdata r, rsq_pos r, rs_superblocks (rsq_rs r), rs_samples (rsq_rs r), rsq_occs_smaller r).
Proof.
  intros q Hq Hc. rewrite g_rsq256_from_unfold. apply gfrom_ok; try assumption.
  intros syms Es. exact (g_rss256_new_ok q syms Hq Hc Es).
Qed.
Theorem g_rsq512_from_ok : forall q, qv_lines_ok q -> qv_cap_ok q ->
  g_rsq512_from (pack_qdata (qv_data q)) (qv_position q)
  = let! r := rsq_from_qv 512 q in
    Val (rsq_wdata r, rsq_pos r, rs_superblocks (rsq_rs r), rs_samples (rsq_rs r), rsq_occs_smaller r).
Proof.
  intros q Hq Hc. rewrite g_rsq512_from_unfold. apply gfrom_ok; try assumption.
  intros syms Es. exact (g_rss512_new_ok q syms Hq Hc Es).
Qed.

(* (S) the simulation shape, exported for the proof of QWaveletTree::new *)
Theorem g_rsq256_from_sim : forall q r, qv_lines_ok q -> qv_cap_ok q ->
  rsq_from_qv 256 q = Val r ->
  g_rsq256_from (pack_qdata (qv_data q)) (qv_position q)
  = Val (rsq_wdata r, rsq_pos r, rs_superblocks (rsq_rs r), rs_samples (rsq_rs r), rsq_occs_smaller r).
Proof. intros q r Hq Hc E. rewrite (g_rsq256_from_ok q Hq Hc), E. reflexivity. Qed.
Theorem g_rsq512_from_sim : forall q r, qv_lines_ok q -> qv_cap_ok q ->
  rsq_from_qv 512 q = Val r ->
  g_rsq512_from (pack_qdata (qv_data q)) (qv_position q)
  = Val (rsq_wdata r, rsq_pos r, rs_superblocks (rsq_rs r), rs_samples (rsq_rs r), rsq_occs_smaller r).
Proof. intros q r Hq Hc E. rewrite (g_rsq512_from_ok q Hq Hc), E. reflexivity. Qed.

(* ================================================================== (2) Default::default() *)
Lemma qvb_new_lines_ok : qv_lines_ok qvb_new. Proof. constructor. Qed.
Lemma qvb_new_cap_ok : qv_cap_ok qvb_new. Proof. vm_compute. intros H. discriminate H. Qed.

Theorem g_rsq256_default_ok :
  g_rsq256_default
  = let! r := rsq_default 256 in
    Val (rsq_wdata r, rsq_pos r, rs_superblocks (rsq_rs r), rs_samples (rsq_rs r), rsq_occs_smaller r).
Proof. exact (g_rsq256_from_ok qvb_new qvb_new_lines_ok qvb_new_cap_ok). Qed.
Theorem g_rsq512_default_ok :
  g_rsq512_default
  = let! r := rsq_default 512 in
    Val (rsq_wdata r, rsq_pos r, rs_superblocks (rsq_rs r), rs_samples (rsq_rs r), rsq_occs_smaller r).
Proof. exact (g_rsq512_from_ok qvb_new qvb_new_lines_ok qvb_new_cap_ok). Qed.

(* the evaluated fact: Default::default() is a value, the empty structure with one (all zero) superblock, the two
   sentinel select samples per symbol and zero counts *)
Theorem g_rsq_default_value :
  g_rsq256_default = Val ([], 0, [[0; 0; 0; 0]], [[0; 0]; [0; 0]; [0; 0]; [0; 0]], [0; 0; 0; 0; 0]) /\
  g_rsq512_default = Val ([], 0, [[0; 0; 0; 0]], [[0; 0]; [0; 0]; [0; 0]; [0; 0]], [0; 0; 0; 0; 0]) /\
  is_val (rsq_default 256) = true /\ is_val (rsq_default 512) = true.
Proof. vm_compute. repeat split; reflexivity. Qed.

(* ================================================================== (3) END TO END *)
(* the quad vector RSQVector::new / from_iter stores, and the structure built from it *)
Lemma rsq_new_stored bsize vs r : rsq_new bsize vs = Val r ->
  exists q, qvb_push_all qvb_new (map (fun v => v mod 256) vs) = Val q /\ qvb_inv q (map sym4 vs) /\
            rsq_from_qv bsize q = Val r /\ rsq_qv r = q.
Proof.
  intros E. unfold rsq_new in E.
  destruct (qvb_push_all_inv (map (fun v => v mod 256) vs) qvb_new [] qvb_inv_new) as (q & Eq & Hq).
  rewrite Eq in E. cbn [bind app] in *.
  assert (Es : map sym4 (map (fun v => v mod 256) vs) = map sym4 vs).
  { rewrite map_map. apply map_ext. intros v. unfold sym4. lia. }
  rewrite Es in Hq. exists q. split; [exact Eq|]. split; [exact Hq|]. split; [exact E|].
  unfold rsq_from_qv in E. destruct (qv_symbols q) as [sy|]; cbn [bind] in E; [|discriminate].
  destruct (rss_new bsize sy) as [rs|]; cbn [bind] in E; [|discriminate].
  apply Val_inj in E. subst r. reflexivity.
Qed.

(* the REGENERATED whole constructor, run on the word view of the quad vector RSQVector::new stores, returns exactly
   the five fields of the hand-modelled RSQVector (for every input: rsq_new itself fails beyond 2^43 symbols) *)
Theorem g_rsq256_from_e2e : forall vs r, rsq_new 256 vs = Val r ->
  exists q, qvb_push_all qvb_new (map (fun v => v mod 256) vs) = Val q /\
    g_rsq256_from (pack_qdata (qv_data q)) (qv_position q)
    = Val (rsq_wdata r, rsq_pos r, rs_superblocks (rsq_rs r), rs_samples (rsq_rs r), rsq_occs_smaller r).
Proof.
  intros vs r Hr. destruct (rsq_new_stored 256 vs r Hr) as (q & Eq & Hq & Ef & _).
  exists q. split; [exact Eq|]. apply g_rsq256_from_sim; [|exact (qvb_inv_cap_ok _ _ Hq)|exact Ef].
  exact (qvb_inv_lines_ok _ _ Hq (Forall_sym4 vs)).
Qed.
Theorem g_rsq512_from_e2e : forall vs r, rsq_new 512 vs = Val r ->
  exists q, qvb_push_all qvb_new (map (fun v => v mod 256) vs) = Val q /\
    g_rsq512_from (pack_qdata (qv_data q)) (qv_position q)
    = Val (rsq_wdata r, rsq_pos r, rs_superblocks (rsq_rs r), rs_samples (rsq_rs r), rsq_occs_smaller r).
Proof.
  intros vs r Hr. destruct (rsq_new_stored 512 vs r Hr) as (q & Eq & Hq & Ef & _).
  exists q. split; [exact Eq|]. apply g_rsq512_from_sim; [|exact (qvb_inv_cap_ok _ _ Hq)|exact Ef].
  exact (qvb_inv_lines_ok _ _ Hq (Forall_sym4 vs)).
Qed.

(* the constructor is total below RSQ_MAXN symbols *)
Corollary g_rsq_from_total : forall vs, len vs < RSQ_MAXN ->
  exists q, qvb_push_all qvb_new (map (fun v => v mod 256) vs) = Val q /\
    is_val (g_rsq256_from (pack_qdata (qv_data q)) (qv_position q)) = true /\
    is_val (g_rsq512_from (pack_qdata (qv_data q)) (qv_position q)) = true.
Proof.
  intros vs Hn.
  destruct (rsq_new_correct 256 vs (or_introl eq_refl) Hn) as (r & Er & _).
  destruct (rsq_new_correct 512 vs (or_intror eq_refl) Hn) as (r' & Er' & _).
  destruct (g_rsq256_from_e2e vs r Er) as (q & Eq & E1).
  destruct (g_rsq512_from_e2e vs r' Er') as (q' & Eq' & E2).
  rewrite Eq in Eq'. apply Val_inj in Eq'. subst q'.
  exists q. split; [exact Eq|]. rewrite E1, E2. split; reflexivity.
Qed.

(* THE WHOLE STRUCTURE REGENERATED: for every input of fewer than RSQ_MAXN = 2^43 - 4096 values, the tuple
   (d, p, sbs, samples, occs) that the regenerated From<QVector> returns on the stored quad vector makes every
   regenerated query answer by the list specification on the stored symbols map sym4 vs (sym4 v = v mod 4) *)
Theorem g_rsq256_regenerated : forall vs, len vs < RSQ_MAXN ->
  exists q d p sbs samples occs,
    qvb_push_all qvb_new (map (fun v => v mod 256) vs) = Val q /\
    g_rsq256_from (pack_qdata (qv_data q)) (qv_position q) = Val (d, p, sbs, samples, occs) /\
    g_rsq256_len p = Val (len vs) /\ g_rsq256_is_empty p = Val (len vs =? 0) /\
    (forall i, g_rsq256_get d p i = Val (nthN (map sym4 vs) i)) /\
    (forall i x, nthN (map sym4 vs) i = Some x -> g_rsq256_get_unchecked d p i = Val x) /\
    (forall c i, g_rsq256_rank d p sbs c i
       = Val (if (c <=? 3) && (i <=? len vs) then Some (rank_spec (map sym4 vs) c i) else None)) /\
    (forall c k fuel, k < 2 ^ 64 -> (S (S (N.to_nat (len vs / (8 * 256)))) <= fuel)%nat ->
       g_rsq256_select fuel d sbs samples occs c k
       = Val (if c <=? 3 then select_spec (map sym4 vs) c k else None)) /\
    (forall c i, c <= 3 -> i <= len vs ->
       g_rsq256_rank_unchecked d sbs c i = Val (rank_spec (map sym4 vs) c i)) /\
    (forall c k pos fuel, c <= 3 -> select_spec (map sym4 vs) c k = Some pos ->
       (S (S (N.to_nat (len vs / (8 * 256)))) <= fuel)%nat ->
       g_rsq256_select_unchecked fuel d sbs samples occs c k = Val pos) /\
    (forall c i, c <= 3 -> i <= len vs ->
       exists v, g_rsq256_rank_block_unchecked sbs c i = Val v /\ v <= rank_spec (map sym4 vs) c i) /\
    (forall c, g_rsq256_occs occs c = Val (if c <=? 3 then Some (countN c (map sym4 vs)) else None)) /\
    (forall c, g_rsq256_occs_smaller occs c = Val (if c <=? 3 then Some (count_lt c (map sym4 vs)) else None)) /\
    (forall c, c <= 3 -> g_rsq256_occs_unchecked occs c = Val (countN c (map sym4 vs))) /\
    (forall c, c <= 3 -> g_rsq256_occs_smaller_unchecked occs c = Val (count_lt c (map sym4 vs))).
Proof.
  intros vs Hn. pose proof (or_introl eq_refl : 256 = 256 \/ 256 = 512) as Hb.
  destruct (rsq_new_correct 256 vs Hb Hn) as (r & Hr & _).
  destruct (g_rsq256_from_e2e vs r Hr) as (q & Eq & Ef).
  exists q, (rsq_wdata r), (rsq_pos r), (rs_superblocks (rsq_rs r)), (rs_samples (rsq_rs r)), (rsq_occs_smaller r).
  split; [exact Eq|]. split; [exact Ef|].
  split; [exact (proj1 (g_rsq_len_new 256 vs r Hb Hn Hr))|].
  split; [exact (proj1 (g_rsq_is_empty_new 256 vs r Hb Hn Hr))|].
  split; [intros i; exact (proj1 (g_rsq_get_new 256 vs r Hb Hn Hr i))|].
  split; [intros i x Hx; exact (proj1 (g_rsq_get_unchecked_new 256 vs r Hb Hn Hr i x Hx))|].
  split; [exact (g_rsq256_rank_new vs r Hn Hr)|].
  split; [exact (g_rsq256_select_new vs r Hn Hr)|].
  split; [exact (g_rsq256_rank_unchecked_new vs r Hn Hr)|].
  split; [exact (g_rsq256_select_unchecked_new vs r Hn Hr)|].
  split; [exact (g_rsq256_rank_block_unchecked_new vs r Hn Hr)|].
  split; [intros c; exact (proj1 (g_rsq_occs_new 256 vs r Hb Hn Hr c))|].
  split; [intros c; exact (proj1 (g_rsq_occs_smaller_new 256 vs r Hb Hn Hr c))|].
  split; [intros c Hc; exact (proj1 (g_rsq_occs_unchecked_new 256 vs r Hb Hn Hr c Hc))|].
  intros c Hc; exact (proj1 (g_rsq_occs_smaller_unchecked_new 256 vs r Hb Hn Hr c Hc)).
Qed.

Theorem g_rsq512_regenerated : forall vs, len vs < RSQ_MAXN ->
  exists q d p sbs samples occs,
    qvb_push_all qvb_new (map (fun v => v mod 256) vs) = Val q /\
    g_rsq512_from (pack_qdata (qv_data q)) (qv_position q) = Val (d, p, sbs, samples, occs) /\
    g_rsq512_len p = Val (len vs) /\ g_rsq512_is_empty p = Val (len vs =? 0) /\
    (forall i, g_rsq512_get d p i = Val (nthN (map sym4 vs) i)) /\
    (forall i x, nthN (map sym4 vs) i = Some x -> g_rsq512_get_unchecked d p i = Val x) /\
    (forall c i, g_rsq512_rank d p sbs c i
       = Val (if (c <=? 3) && (i <=? len vs) then Some (rank_spec (map sym4 vs) c i) else None)) /\
    (forall c k fuel, k < 2 ^ 64 -> (S (S (N.to_nat (len vs / (8 * 512)))) <= fuel)%nat ->
       g_rsq512_select fuel d sbs samples occs c k
       = Val (if c <=? 3 then select_spec (map sym4 vs) c k else None)) /\
    (forall c i, c <= 3 -> i <= len vs ->
       g_rsq512_rank_unchecked d sbs c i = Val (rank_spec (map sym4 vs) c i)) /\
    (forall c k pos fuel, c <= 3 -> select_spec (map sym4 vs) c k = Some pos ->
       (S (S (N.to_nat (len vs / (8 * 512)))) <= fuel)%nat ->
       g_rsq512_select_unchecked fuel d sbs samples occs c k = Val pos) /\
    (forall c i, c <= 3 -> i <= len vs ->
       exists v, g_rsq512_rank_block_unchecked sbs c i = Val v /\ v <= rank_spec (map sym4 vs) c i) /\
    (forall c, g_rsq512_occs occs c = Val (if c <=? 3 then Some (countN c (map sym4 vs)) else None)) /\
    (forall c, g_rsq512_occs_smaller occs c = Val (if c <=? 3 then Some (count_lt c (map sym4 vs)) else None)) /\
    (forall c, c <= 3 -> g_rsq512_occs_unchecked occs c = Val (countN c (map sym4 vs))) /\
    (forall c, c <= 3 -> g_rsq512_occs_smaller_unchecked occs c = Val (count_lt c (map sym4 vs))).
Proof.
  intros vs Hn. pose proof (or_intror eq_refl : 512 = 256 \/ 512 = 512) as Hb.
  destruct (rsq_new_correct 512 vs Hb Hn) as (r & Hr & _).
  destruct (g_rsq512_from_e2e vs r Hr) as (q & Eq & Ef).
  exists q, (rsq_wdata r), (rsq_pos r), (rs_superblocks (rsq_rs r)), (rs_samples (rsq_rs r)), (rsq_occs_smaller r).
  split; [exact Eq|]. split; [exact Ef|].
  split; [exact (proj2 (g_rsq_len_new 512 vs r Hb Hn Hr))|].
  split; [exact (proj2 (g_rsq_is_empty_new 512 vs r Hb Hn Hr))|].
  split; [intros i; exact (proj2 (g_rsq_get_new 512 vs r Hb Hn Hr i))|].
  split; [intros i x Hx; exact (proj2 (g_rsq_get_unchecked_new 512 vs r Hb Hn Hr i x Hx))|].
  split; [exact (g_rsq512_rank_new vs r Hn Hr)|].
  split; [exact (g_rsq512_select_new vs r Hn Hr)|].
  split; [exact (g_rsq512_rank_unchecked_new vs r Hn Hr)|].
  split; [exact (g_rsq512_select_unchecked_new vs r Hn Hr)|].
  split; [exact (g_rsq512_rank_block_unchecked_new vs r Hn Hr)|].
  split; [intros c; exact (proj2 (g_rsq_occs_new 512 vs r Hb Hn Hr c))|].
  split; [intros c; exact (proj2 (g_rsq_occs_smaller_new 512 vs r Hb Hn Hr c))|].
  split; [intros c Hc; exact (proj2 (g_rsq_occs_unchecked_new 512 vs r Hb Hn Hr c Hc))|].
  intros c Hc; exact (proj2 (g_rsq_occs_smaller_unchecked_new 512 vs r Hb Hn Hr c Hc)).
Qed.

(* ================================================================== (4) non-vacuity *)
(* the regenerated constructor evaluated (vm_compute) on the word view of the 600-symbol example of Proofs/RSQP.v
   returns the five fields of the hand-modelled structure, both block sizes *)
Example g_rsq_from_example :
  match rsq_new 256 rsq_example_input, rsq_new 512 rsq_example_input with
  | Val r, Val r' =>
      g_rsq256_from (rsq_wdata r) (rsq_pos r)
      = Val (rsq_wdata r, rsq_pos r, rs_superblocks (rsq_rs r), rs_samples (rsq_rs r), rsq_occs_smaller r) /\
      g_rsq512_from (rsq_wdata r') (rsq_pos r')
      = Val (rsq_wdata r', rsq_pos r', rs_superblocks (rsq_rs r'), rs_samples (rsq_rs r'), rsq_occs_smaller r') /\
      rsq_pos r = 1200 /\ len (rsq_wdata r) = 3 /\ rsq_occs_smaller r = [0; 173; 301; 471; 600]
  | _, _ => False
  end.
Proof. vm_compute. repeat split; reflexivity. Qed.

(* the hypothesis qv_cap_ok cannot be dropped (as for the directory constructor, qv_cap_ok_needed of
   Proofs/FnsRssNewOk.v): on a never constructed quad vector whose position exceeds its data lines the hand model's
   symbol list stops at the data, the source reads past the allocation *)
Example g_rsq_from_cap_ok_needed :
  let q := mk_qvec [] 2 in
  qv_lines_ok q /\ is_val (rsq_from_qv 256 q) = true /\
  g_rsq256_from (pack_qdata (qv_data q)) (qv_position q) = Fault UB.
Proof. split; [constructor|]. vm_compute. split; reflexivity. Qed.

Print Assumptions fcount_ok.
Print Assumptions ftail_ok.
Print Assumptions qv_symbols_total.
Print Assumptions g_rsq256_from_ok.
Print Assumptions g_rsq512_from_ok.
Print Assumptions g_rsq256_from_sim.
Print Assumptions g_rsq512_from_sim.
Print Assumptions g_rsq256_default_ok.
Print Assumptions g_rsq512_default_ok.
Print Assumptions g_rsq_default_value.
Print Assumptions g_rsq256_from_e2e.
Print Assumptions g_rsq512_from_e2e.
Print Assumptions g_rsq_from_total.
Print Assumptions g_rsq256_regenerated.
Print Assumptions g_rsq512_regenerated.
Print Assumptions g_rsq_from_example.
Print Assumptions g_rsq_from_cap_ok_needed.

(* ------------------------------------------------------------------ summary / findings
   (1) g_rsq{256,512}_from_ok: EQUALITY (value or fault alike) with `let! r := rsq_from_qv NNN q in Val (fields)` on
       the word view of every quad vector with qv_lines_ok q and qv_cap_ok q.  Nothing about the parity or size of
       qv_position is needed: qv.len() = position >> 1 on both sides, and the length assertion of
       RSSupportPlain::new (first statement) bounds the counters, so the checked `+= 1` of the counting loop and
       the four checked additions of the prefix sums cannot overflow (count4_le: the four counts sum to at most
       the length); the indexing n_occs_smaller[c] is in range because c < 4 (qv_lines_ok).  qv_symbols q is
       total on well-formed lines (qv_symbols_total), which is what turns the simulation into an equality.
       g_rsq{256,512}_from_sim: the exported simulation shape.
   (2) g_rsq{256,512}_default_ok, g_rsq_default_value (evaluated).
   (3) g_rsq{256,512}_from_e2e, g_rsq_from_total, g_rsq{256,512}_regenerated (whole structure: len, is_empty, get,
       get_unchecked, rank, select, rank_unchecked, select_unchecked, rank_block_unchecked, occs, occs_smaller and
       their unchecked forms on the tuple the regenerated constructor returns = list specification).
   (4) g_rsq_from_example (600 symbols, both block sizes), g_rsq_from_cap_ok_needed.
   No mismatch between the generated From<QVector> / Default and the hand model was found.  The only hypothesis
   beyond well-formed lines is qv_cap_ok, satisfied by every constructed QVector (qvb_inv_cap_ok) and necessary
   (g_rsq_from_cap_ok_needed: q = {data = [], position = 2}: rsq_from_qv 256 q is a value, the source faults UB). *)
