(* C09 helper 4: the Huffman-shaped quad wavelet tree with prefetch support.  Level l holds
   only len (Q l seq) symbols, so "position <= length of the first level" is not enough: the
   invariant of the estimation walk is  rs <= re <= (exact position) + (number of levels done),
   because approx_rank can exceed the exact rank by one (pfs_val_le_rank1); the exact positions
   are inside their level (Theory/HuffWM.v) and every level has a slack of 2047 positions
   (npush_slack) while a code has at most 16 fragments. *)
From Coq Require Import ZArith Lia ZifyBool ZifyN ZifyNat.
From QwtModel Require Import ListX Seq Consts QVec RSQ QWT Huff RSBin Prefetch ListXP ConstsOk QVecP RSQList RSQWord RSQBuild RSQP.
From QwtModel Require Import WaveletMatrix HuffWM Codes HQWTBridge HQWTWalks HQWTCode PrefetchL PrefetchV PrefetchQ.
Ltac Zify.zify_post_hook ::= Z.div_mod_to_equations.
Arguments N.add : simpl never.
Arguments N.sub : simpl never.
Arguments N.mul : simpl never.
Arguments N.eqb : simpl never.
Arguments N.ltb : simpl never.
Arguments N.leb : simpl never.
Arguments N.pred : simpl never.
Arguments N.of_nat : simpl never.
Arguments N.land : simpl never.
Arguments N.lor : simpl never.
Arguments N.shiftr : simpl never.
Arguments N.shiftl : simpl never.
Arguments N.div : simpl never.
Arguments N.modulo : simpl never.
Arguments N.pow : simpl never.
Arguments N.min : simpl never.

Section PfsH.
Hypothesis select_in_word_correct : forall w k, w < 2 ^ 64 -> k < 128 ->
  select_in_word w k = Val (match select_spec (bits_of 64 w) 1 k with Some p => p | None => 64 end).
Hypothesis popcount_correct : forall n x, x < 2 ^ N.of_nat n -> popcount x = countN 1 (bits_of n x).

Section Inner.
Variable tab : list pcode.
Variable s : list N.
Hypothesis Htab : len tab < 2 ^ 64.
Hypothesis Hwf : forall x, In x s -> exists c, nthN tab x = Some c /\ code_wf 2 c = true.
Hypothesis Hn : len s < RSQ_MAXN.

Notation dig := (code_dig 2 tab).
Notation clen := (code_clen 2 tab).
Notation QQ l := (Q N 4 dig clen l s).
Notation LV l0 n := (hwm_levels N 4 dig clen l0 n s).
Notation digs l0 n c := (digits_of N dig l0 n c).

Definition hpfs_ok (M : nat) (pfs : list pfsupport) : Prop :=
  forall l, (l < M)%nat -> exists p, nthN pfs (N.of_nat l) = Some p /\ pfs_spec p (map (dig l) (QQ l)).

Lemma hq_pfs_levels_ok : forall k l F, fin_tail tab s l F ->
  exists ps, hq_pfs_levels (QQ l ++ F) tab (2 * (N.of_nat l + 1)) k = Val ps /\
    forall j, (j < k)%nat ->
      exists p, nthN ps (N.of_nat j) = Some p /\ pfs_spec p (map (dig (l + j)) (QQ (l + j)%nat)).
Proof.
  induction k as [|k IH]; intros l F HF.
  - exists []. split; [reflexivity|]. intros j Hj. lia.
  - cbn [hq_pfs_levels].
    rewrite (HQWTBridge.mapo_val _ (fun a => if (l <? clen a)%nat then Some (dig l a) else None))
      by (intros a Ha; apply (level_digit_val tab s Htab Hwf), (level_seq_in tab s Htab Hwf l F HF a Ha)).
    cbn [bind]. rewrite flat_opt_filter, (level_digits tab s Htab Hwf l F HF).
    assert (HD : Forall (fun x => x < 4) (map (dig l) (QQ l))).
    { apply Forall_forall. intros d Hd. apply in_map_iff in Hd as (x & <- & _).
      pose proof (dig_le3 tab l x). lia. }
    assert (HL : len (map (dig l) (QQ l)) < 2 ^ 43).
    { rewrite len_map. pose proof (Q_len_le N 4 dig (dig_lt tab) clen l s). apply maxn_lt_43. lia. }
    change PFS_SHIFT_HQ with 11.
    destruct (pfs_new_spec select_in_word_correct popcount_correct _ HD HL) as (p & Ep & Hp).
    rewrite Ep. cbn [bind].
    rewrite (part_with_codes_ok tab s Htab Hwf l _ (level_seq_in tab s Htab Hwf l F HF)). cbn [bind].
    destruct (level_next tab s Htab Hwf l F HF) as (F' & HF' & E'). rewrite E'.
    destruct (IH (S l) F' HF') as (ps & E & H).
    replace (2 * (N.of_nat l + 1) + 2) with (2 * (N.of_nat (S l) + 1)) by lia.
    rewrite E. cbn [bind]. exists (p :: ps). split; [reflexivity|].
    intros j Hj. destruct j as [|j].
    + exists p. rewrite Nat.add_0_r. split; [reflexivity|exact Hp].
    + destruct (H j ltac:(lia)) as (p' & En & Hp'). exists p'.
      replace (N.of_nat (S j)) with (N.of_nat j + 1) by lia. rewrite nthN_succ.
      replace (l + S j)%nat with (S l + j)%nat by lia. split; assumption.
Qed.

Lemma hq_pfs_new_ok : s <> [] -> let M := N.to_nat (maxN (map pc_len tab) / 2) in
  exists pfs, hq_pfs_new s tab = Val pfs /\ hpfs_ok M pfs.
Proof.
  intros Hne M.
  assert (E : hq_pfs_new s tab = hq_pfs_levels s tab 2 M) by (destruct s; [congruence|reflexivity]).
  rewrite E.
  assert (HT : fin_tail tab s 0 []) by (intros x []).
  destruct (hq_pfs_levels_ok M 0%nat [] HT) as (ps & Eps & H).
  cbn [Q] in Eps. rewrite app_nil_r in Eps. change (2 * (N.of_nat 0 + 1)) with 2 in Eps.
  exists ps. split; [exact Eps|]. intros l Hl. exact (H l Hl).
Qed.

(* ---------------------------------------------------------------- the estimation walk *)
Variables (bsize : N) (qvs : list rsq) (pfs : list pfsupport) (M : nat).
Hypothesis LOK : forall l, (l < M)%nat ->
  exists r, nthN qvs (N.of_nat l) = Some r /\ rsq_spec bsize r (map (dig l) (QQ l)).
Hypothesis POK : hpfs_ok M pfs.

Lemma hq_pfs_walk_ok c code : nthN tab (sym_index c) = Some code ->
  forall n l rs re p i e, (l + n < M)%nat -> rs <= re -> re <= i + e -> e + N.of_nat n <= 2046 ->
  (forall m, (m <= n)%nat -> snd (rank_walk (LV l m) (digs l m c) p i) <= len (QQ (l + m)%nat) /\
                             len (QQ (l + m)%nat) <> 0) ->
  exists rs' re', hq_pfs_walk qvs pfs (pc_content code) (pc_len code - 2 * (N.of_nat l + 1)) rs re (N.of_nat l) n
                  = Val (rs', re') /\ rs' <= re'.
Proof.
  intros Hc. induction n as [|n IH]; intros l rs re p i e HM Hrs Hre He HB.
  - exists rs, re. split; [reflexivity|exact Hrs].
  - cbn [hq_pfs_walk]. rewrite <- (dig_eq tab c code l Hc).
    destruct (LOK l ltac:(lia)) as (r & Er & Hr). unfold idx at 1. rewrite Er. cbn [bind].
    destruct (HB 0%nat ltac:(lia)) as [B0 N0]. cbn [hwm_levels rank_walk snd] in B0.
    rewrite Nat.add_0_r in B0, N0.
    pose proof (dig_le3 tab l c) as Hd3.
    rewrite (rs_occs_u _ _ _ Hr) by exact Hd3. cbn [bind].
    destruct (POK l ltac:(lia)) as (pp & Epp & _ & _ & Hp). unfold idx at 1. rewrite Epp. cbn [bind].
    set (D := map (dig l) (QQ l)) in *. set (d := dig l c) in *.
    assert (HDl : len D = len (QQ l)) by (unfold D; apply len_map).
    rewrite !Hp by lia.
    rewrite (in_bound D rs) by lia. rewrite (in_bound D re) by lia. cbn [bind].
    destruct (LOK (S l) ltac:(lia)) as (r' & Er' & _).
    replace (pc_len code - 2 * (N.of_nat l + 1) - 2) with (pc_len code - 2 * (N.of_nat (S l) + 1)) by lia.
    replace (N.of_nat l + 1) with (N.of_nat (S l)) by lia.
    unfold idx at 1. rewrite Er'. cbn [bind].
    apply (IH (S l) _ _ (loccs_smaller D d + lrank D d p) (loccs_smaller D d + lrank D d i) (e + 1)).
    + lia.
    + pose proof (pfs_val_mono D d rs re Hrs). lia.
    + pose proof (pfs_val_le_rank D d re) as H1.
      pose proof (rk_mono D d (N.min (len D) (re + 1)) (i + (e + 1)) ltac:(lia)) as H2.
      pose proof (rk_lip D d i (e + 1)) as H3.
      unfold loccs_smaller, lrank. unfold rk in H1, H2, H3. lia.
    + lia.
    + intros m Hm. specialize (HB (S m) ltac:(lia)).
      rewrite digits_of_S in HB. cbn [hwm_levels rank_walk] in HB.
      rewrite Nat.add_succ_r in HB. exact HB.
Qed.

(* every level a continuing symbol walks through is non empty, and the exact positions are inside *)
Hypothesis Hok : code_wm_ok 2 tab s = true.

Lemma filter_nonempty {A} (f : A -> bool) (l : list A) x : In x l -> f x = true -> len (filter f l) <> 0.
Proof.
  intros Hx Hf. assert (H : In x (filter f l)) by (apply filter_In; now split).
  destruct (filter f l); [contradiction|rewrite len_cons; lia].
Qed.

Lemma exact_inside c i m : In c s -> i <= len s -> (m < clen c)%nat ->
  snd (rank_walk (LV 0 m) (digs 0 m c) 0 i) <= len (QQ (0 + m)%nat) /\ len (QQ (0 + m)%nat) <> 0.
Proof.
  intros Hc Hi Hm. cbn [Nat.add].
  assert (Hcont : ok_cont N 4 dig clen s c = true) by (apply wm_ok_cont; [exact Hok|exact Hc]).
  pose proof (HQWTBridge.clen_pos tab s Htab Hwf c Hc) as Hpos.
  pose proof (hwm_rank_prefix N 4 dig (dig_lt tab) clen s c Hcont Hpos m i Hm Hi) as H.
  pose proof (hwm_rank_prefix N 4 dig (dig_lt tab) clen s c Hcont Hpos m (len s) Hm (N.le_refl _)) as H'.
  cbv zeta in H, H'. rewrite firstnN_all in H' by lia.
  pose proof (filter_nonempty (pre N dig m c) s c Hc (pre_refl N dig m c)) as Hne.
  split; lia.
Qed.

Lemma hq_pfs_estimate_ok c code i n_levels dec lens : In c s -> code_facts tab c code ->
  (clen c <= M)%nat -> i <= len s ->
  exists v, hq_pfs_estimate (mk_hq (len s) n_levels tab dec qvs lens) pfs c i = Val v.
Proof.
  intros Hc [H1 H2 H3 H4 H5] HcM Hi.
  pose proof (HQWTBridge.clen_pos tab s Htab Hwf c Hc) as Hpos.
  pose proof (clen_eq tab c code H1) as Hcl.
  unfold hq_pfs_estimate. cbn [h_codes h_qvs]. unfold idx at 1. rewrite H1. cbn [bind].
  destruct (LOK 0%nat ltac:(lia)) as (r0 & Er0 & _). change (N.of_nat 0) with 0 in Er0.
  unfold idx at 1. rewrite Er0. cbn [bind].
  replace (N.to_nat (pc_len code / 2 - 1)) with (clen c - 1)%nat by lia.
  destruct (hq_pfs_walk_ok c code H1 (clen c - 1)%nat 0%nat 0 i 0 i 0) as (rs' & re' & E & Hle);
    [lia|lia|lia|lia| |].
  - intros m Hm. apply exact_inside; [exact Hc|exact Hi|lia].
  - change (N.of_nat 0) with 0 in E. change (2 * (0 + 1)) with 2 in E. rewrite E. cbn [bind].
    unfold osub. replace (rs' <=? re') with true by lia. eauto.
Qed.

End Inner.
End PfsH.
