(* T5 (utils::msb / utils::stable_partition_of_4, QVectorBuilder and `impl FromIterator for QVector`):
   the functions REGENERATED from src/utils/mod.rs (Gen/FnsUtils.v) and src/qvector/mod.rs (Gen/FnsQvb.v)
   against the hand model (Model/QWT.v: msb, stable_partition_of_4; Model/QVec.v: qvb_push, qvb_push_all,
   qvb_extend, qv_from_iter).  The generated builder works on the WORD view of the data lines
   ([pack_qdata] of Proofs/FnsQv2Ok.v), the hand model on the LIST view. *)
From Coq Require Import ZArith Lia ZifyBool ZifyN ZifyNat Permutation Sorted.
From QwtModel Require Import ListX Loops Consts SelTable Words QVec QWT ListXP ConstsOk WordsP BitsLib LeafP.
From QwtModel Require Import LeavesUtils LeavesUtilsOk LeavesLine LeavesLineOk LeavesQV LeavesQVOk FnsQv2 FnsQv2Ok LeavesLib.
From QwtModel Require Import QVecP QWTArith QWTP UtilsP FnsUtils FnsQvb.
Open Scope N_scope.
Ltac Zify.zify_post_hook ::= Z.div_mod_to_equations.

(* ================================================================== (1) utils::msb::<T> *)
(* for every admitted element width and every value of the type: the generated msb is the hand model's
   (and never faults) *)
Theorem g_msb_ok : forall wT v, QWTP.width_ok wT -> v < 2 ^ wT -> g_msb wT v = Val (msb v).
Proof.
  intros wT v Hw Hv. unfold g_msb, msb.
  destruct (N.eqb_spec v 0) as [Hz|Hz]; [reflexivity|].
  assert (E : omul 64 (wT / 8) 8 = Val wT).
  { destruct Hw as [->|[->|[->|[->| ->]]]]; reflexivity. }
  rewrite E. cbn [bind].
  assert (E2 : osub wT 1 = Val (wT - 1)).
  { unfold osub. destruct (N.leb_spec 1 wT) as [_|H]; [reflexivity|]. unfold QWTP.width_ok in Hw. lia. }
  rewrite E2. cbn [bind].
  assert (E3 : (wT - 1) mod 2 ^ 32 = wT - 1).
  { apply N.mod_small. destruct Hw as [->|[->|[->|[->| ->]]]]; reflexivity. }
  rewrite E3.
  assert (Hw1 : 1 <= wT) by (unfold QWTP.width_ok in Hw; lia).
  rewrite (msb_core wT v Hz Hv Hw1).
  assert (N.log2 v < wT) by (apply N.log2_lt_pow2; lia).
  unfold osub. destruct (N.leb_spec (wT - 1 - N.log2 v) (wT - 1)); [|lia]. f_equal. lia.
Qed.

(* with the contract of C17_msb *)
Corollary g_msb_spec : forall wT v, QWTP.width_ok wT -> v < 2 ^ wT ->
  g_msb wT v = Val (if v =? 0 then 0 else N.log2 v) /\ (v <> 0 -> 2 ^ N.log2 v <= v < 2 ^ (N.log2 v + 1)).
Proof.
  intros wT v Hw Hv. split; [exact (g_msb_ok wT v Hw Hv)|].
  assert (Hw0 : 0 < wT) by (unfold QWTP.width_ok in Hw; lia).
  exact (proj2 (msb_w_correct wT v Hw0 Hv)).
Qed.

(* ================================================================== (2) utils::stable_partition_of_4 *)
Definition picks (ds seq : list N) (d : N) : list N :=
  map snd (filter (fun p => fst p =? d) (combine ds seq)).

Lemma push_at_0 {A} (v0 v1 v2 v3 : list A) a : push_at [v0; v1; v2; v3] 0 a = Val [v0 ++ [a]; v1; v2; v3].
Proof. reflexivity. Qed.
Lemma push_at_1 {A} (v0 v1 v2 v3 : list A) a : push_at [v0; v1; v2; v3] 1 a = Val [v0; v1 ++ [a]; v2; v3].
Proof. reflexivity. Qed.
Lemma push_at_2 {A} (v0 v1 v2 v3 : list A) a : push_at [v0; v1; v2; v3] 2 a = Val [v0; v1; v2 ++ [a]; v3].
Proof. reflexivity. Qed.
Lemma push_at_3 {A} (v0 v1 v2 v3 : list A) a : push_at [v0; v1; v2; v3] 3 a = Val [v0; v1; v2; v3 ++ [a]].
Proof. reflexivity. Qed.

Lemma land3_cases x : N.land x 3 = 0 \/ N.land x 3 = 1 \/ N.land x 3 = 2 \/ N.land x 3 = 3.
Proof. rewrite land3. lia. Qed.

Lemma picks_cons_eq d ds a l : picks (d :: ds) (a :: l) d = a :: picks ds l d.
Proof. unfold picks. cbn [combine filter fst]. rewrite N.eqb_refl. reflexivity. Qed.
Lemma picks_cons_ne d e ds a l : d <> e -> picks (d :: ds) (a :: l) e = picks ds l e.
Proof. intros H. unfold picks. cbn [combine filter fst]. destruct (N.eqb_spec d e); [contradiction|reflexivity]. Qed.

(* the first loop: every element is appended to the vector its two bits select; it faults exactly when the
   hand model's digit extraction does *)
Lemma part4_iter {R} wT shift : forall seq v0 v1 v2 v3,
  @iter_loop N (list (list N)) R (fun a vecs =>
      let! t1 := oshr wT a shift in
      let two_bits := N.land (t1 mod 2 ^ 64) 3 in
      let! vecs := push_at vecs two_bits a in
      Val (Next vecs)) seq [v0; v1; v2; v3]
  = let! ds := mapo (fun a => two_bits wT a shift) seq in
    Val (Done [v0 ++ picks ds seq 0; v1 ++ picks ds seq 1; v2 ++ picks ds seq 2; v3 ++ picks ds seq 3]).
Proof.
  induction seq as [|a l IH]; intros v0 v1 v2 v3.
  - cbn [iter_loop mapo bind]. unfold picks. cbn [combine filter map]. now rewrite !app_nil_r.
  - cbn [iter_loop mapo]. unfold two_bits at 1.
    destruct (oshr wT a shift) as [y|f]; cbn [bind]; [|reflexivity]. cbv zeta.
    destruct (land3_cases (y mod 2 ^ 64)) as [E|[E|[E|E]]]; rewrite E.
    + rewrite push_at_0. cbn [bind]. rewrite IH.
      destruct (mapo (fun a0 => two_bits wT a0 shift) l) as [ds|f]; cbn [bind]; [|reflexivity].
      rewrite picks_cons_eq, !picks_cons_ne by lia. now rewrite <- app_assoc.
    + rewrite push_at_1. cbn [bind]. rewrite IH.
      destruct (mapo (fun a0 => two_bits wT a0 shift) l) as [ds|f]; cbn [bind]; [|reflexivity].
      rewrite picks_cons_eq, !picks_cons_ne by lia. now rewrite <- app_assoc.
    + rewrite push_at_2. cbn [bind]. rewrite IH.
      destruct (mapo (fun a0 => two_bits wT a0 shift) l) as [ds|f]; cbn [bind]; [|reflexivity].
      rewrite picks_cons_eq, !picks_cons_ne by lia. now rewrite <- app_assoc.
    + rewrite push_at_3. cbn [bind]. rewrite IH.
      destruct (mapo (fun a0 => two_bits wT a0 shift) l) as [ds|f]; cbn [bind]; [|reflexivity].
      rewrite picks_cons_eq, !picks_cons_ne by lia. now rewrite <- app_assoc.
Qed.

Lemma mapo_two_bits_facts wT shift : forall seq ds, mapo (fun a => two_bits wT a shift) seq = Val ds ->
  length ds = length seq /\ Forall (fun d => d < 4) ds.
Proof.
  induction seq as [|a l IH]; intros ds E; cbn [mapo] in E.
  - apply Val_inj in E. subst ds. split; [reflexivity|constructor].
  - destruct (two_bits wT a shift) as [d|] eqn:Ed; cbn [bind] in E; [|discriminate].
    destruct (mapo (fun a0 => two_bits wT a0 shift) l) as [r|]; cbn [bind] in E; [|discriminate].
    apply Val_inj in E. subst ds. destruct (IH r eq_refl) as (Hl & HF). split; [cbn [length]; now rewrite Hl|].
    constructor; [|exact HF]. unfold two_bits in Ed. destruct (oshr wT a shift); cbn [bind] in Ed; [|discriminate].
    apply Val_inj in Ed. subst d. rewrite land3. lia.
Qed.

Lemma picks_total : forall ds seq, length ds = length seq -> Forall (fun d => d < 4) ds ->
  len (picks ds seq 0) + len (picks ds seq 1) + len (picks ds seq 2) + len (picks ds seq 3) = len seq.
Proof.
  induction ds as [|d ds IH]; intros [|a l] Hl HF; cbn [length] in Hl; try discriminate.
  - reflexivity.
  - inversion HF as [|? ? Hd HF']; subst. specialize (IH l ltac:(lia) HF').
    assert (C : d = 0 \/ d = 1 \/ d = 2 \/ d = 3) by lia.
    destruct C as [->|[->|[->| ->]]]; rewrite picks_cons_eq, !picks_cons_ne by lia; lens; lia.
Qed.

Lemma skipnN_app_len {A} (l1 l2 : list A) : skipnN (len l1) (l1 ++ l2) = l2.
Proof. rewrite skipnN_skipn. unfold len. rewrite Nat2N.id, skipn_app, skipn_all, Nat.sub_diag. reflexivity. Qed.

(* one iteration of the copy-back loop *)
Lemma part4_step {R} (vecs : list (list N)) i v (P seq : list N) :
  idx vecs i = Val v -> len P + len v <= len seq -> len seq < 2 ^ 64 ->
  (let! t2 := idx vecs i in
   let! t3 := oadd 64 (len P) (len t2) in
   let! t4 := idx vecs i in
   let! sequence := copy_into (P ++ skipnN (len P) seq) (len P) t3 t4 in
   let! t5 := idx vecs i in
   let! pos := oadd 64 (len P) (len t5) in
   Val (@Next _ R (sequence, pos)))
  = Val (Next ((P ++ v) ++ skipnN (len (P ++ v)) seq, len (P ++ v))).
Proof.
  intros Ei Hle Hn. rewrite Ei. cbn [bind].
  unfold oadd. destruct (N.ltb_spec (len P + len v) (2 ^ 64)); [|lia]. cbn [bind].
  unfold copy_into.
  assert (HL : len (P ++ skipnN (len P) seq) = len seq) by (rewrite len_app, len_skipnN; lia).
  rewrite HL.
  replace (len P <=? len P + len v) with true by lia.
  replace (len P + len v <=? len seq) with true by lia.
  replace (len v =? len P + len v - len P) with true by lia.
  cbn [andb bind]. rewrite firstnN_app_exact.
  rewrite <- (skipnN_skipnN (P ++ skipnN (len P) seq) (len P) (len v)), skipnN_app_len, skipnN_skipnN.
  rewrite len_app, <- app_assoc. reflexivity.
Qed.

(* the generated partition EQUALS the hand model, faults included (a shift not below the width faults with
   Overflow at the first element on both sides); the only hypothesis is that the slice length is a usize *)
Theorem g_stable_partition_of_4_ok : forall wT seq shift, len seq < 2 ^ 64 ->
  g_stable_partition_of_4 wT seq shift = stable_partition_of_4 wT seq shift.
Proof.
  intros wT seq shift Hn. unfold g_stable_partition_of_4, stable_partition_of_4. cbv zeta.
  rewrite part4_iter.
  destruct (mapo (fun a => two_bits wT a shift) seq) as [ds|f] eqn:Eds; cbn [bind]; [|reflexivity].
  destruct (mapo_two_bits_facts wT shift seq ds Eds) as (Hl & HF).
  pose proof (picks_total ds seq Hl HF) as Ht.
  fold (picks ds seq 0) (picks ds seq 1) (picks ds seq 2) (picks ds seq 3).
  cbn [app].
  set (p0 := picks ds seq 0) in *. set (p1 := picks ds seq 1) in *.
  set (p2 := picks ds seq 2) in *. set (p3 := picks ds seq 3) in *.
  change (N.to_nat (4 - 0)) with 4%nat.
  replace (seq, 0) with ([] ++ skipnN (len (@nil N)) seq, len (@nil N))
    by (cbn [app]; f_equal; change (len (@nil N)) with 0; destruct seq; reflexivity).
  cbn [for_loop].
  rewrite (part4_step [p0; p1; p2; p3] 0 p0 [] seq eq_refl) by (lens; lia). cbn [bind app].
  rewrite (part4_step [p0; p1; p2; p3] (0 + 1) p1 p0 seq eq_refl) by (lens; lia). cbn [bind].
  rewrite (part4_step [p0; p1; p2; p3] (0 + 1 + 1) p2 (p0 ++ p1) seq eq_refl) by (lens; lia). cbn [bind].
  rewrite (part4_step [p0; p1; p2; p3] (0 + 1 + 1 + 1) p3 ((p0 ++ p1) ++ p2) seq eq_refl) by (lens; lia). cbn [bind].
  f_equal.
  assert (E : skipnN (len (((p0 ++ p1) ++ p2) ++ p3)) seq = []).
  { assert (H : len (skipnN (len (((p0 ++ p1) ++ p2) ++ p3)) seq) = 0) by (rewrite len_skipnN; lens; lia).
    destruct (skipnN _ seq); [reflexivity|]. rewrite len_cons in H. lia. }
  rewrite E, app_nil_r, <- !app_assoc. reflexivity.
Qed.

(* END TO END (C17_partition4 / C17_partition4_contract on the generated function) *)
Theorem g_stable_partition_of_4_spec : forall wT seq shift, QWTP.width_ok wT -> shift < wT ->
  Forall (fun x => x < 2 ^ wT) seq -> len seq < 2 ^ 64 ->
  g_stable_partition_of_4 wT seq shift =
  Val (concat (map (fun d => filter (fun x => (x / 2 ^ shift) mod 4 =? d) seq) [0;1;2;3])).
Proof.
  intros wT seq shift Hw Hs HF Hn. rewrite g_stable_partition_of_4_ok by exact Hn.
  now apply stable_partition_of_4_correct.
Qed.

Theorem g_stable_partition_of_4_contract : forall wT seq shift, QWTP.width_ok wT -> shift < wT ->
  Forall (fun x => x < 2 ^ wT) seq -> len seq < 2 ^ 64 ->
  exists out, g_stable_partition_of_4 wT seq shift = Val out /\ Permutation seq out /\
    StronglySorted (fun x y => (x / 2 ^ shift) mod 4 <= (y / 2 ^ shift) mod 4) out /\
    forall d, filter (fun x => (x / 2 ^ shift) mod 4 =? d) out = filter (fun x => (x / 2 ^ shift) mod 4 =? d) seq.
Proof.
  intros wT seq shift Hw Hs HF Hn. rewrite g_stable_partition_of_4_ok by exact Hn.
  now apply partition4_contract.
Qed.

(* ================================================================== (3) QVectorBuilder *)
(* with_capacity: the capacity computation `(2 * n + 512 - 1) / 512` is checked usize arithmetic: the
   function returns the empty builder exactly when 2 * n + 512 fits, and overflows otherwise *)
Theorem g_qvb_with_capacity_ok : forall n,
  g_qvb_with_capacity n = if 2 * n + 512 <? 2 ^ 64 then Val ([], 0) else Fault Overflow.
Proof.
  intros n. unfold g_qvb_with_capacity, omul, oadd, osub.
  destruct (N.ltb_spec (2 * n) (2 ^ 64)) as [H1|H1]; cbn [bind].
  - destruct (N.ltb_spec (2 * n + 512) (2 ^ 64)) as [H2|H2]; cbn [bind]; [|reflexivity].
    destruct (N.leb_spec 1 (2 * n + 512)); [reflexivity|lia].
  - destruct (N.ltb_spec (2 * n + 512) (2 ^ 64)) as [H2|H2]; [lia|reflexivity].
Qed.
Corollary g_qvb_with_capacity_val : forall n, 2 * n + 512 < 2 ^ 64 ->
  g_qvb_with_capacity n = Val (pack_qdata (qv_data qvb_new), qv_position qvb_new).
Proof. intros n H. rewrite g_qvb_with_capacity_ok. destruct (N.ltb_spec (2 * n + 512) (2 ^ 64)); [reflexivity|lia]. Qed.

(* build: into_boxed_slice keeps the content *)
Theorem g_qvb_build_ok : forall b,
  g_qvb_build (pack_qdata (qv_data b)) (qv_position b) =
  Val (pack_qdata (qv_data (qvb_build b)), qv_position (qvb_build b)).
Proof. reflexivity. Qed.

(* ---- well-formedness of the lines is preserved by push *)
Lemma zero_line_ok : line_ok zero_line.
Proof.
  unfold zero_line. rewrite LINE_SYMS_nat_val. split; [reflexivity|].
  apply Forall_forall. intros x Hx. apply repeat_spec in Hx. subst x. reflexivity.
Qed.

Lemma pack_zero_line' : pack_qline zero_line = [0; 0; 0; 0].
Proof. unfold zero_line. rewrite LINE_SYMS_nat_val. exact pack_zero_line. Qed.

Lemma lor_land3_lt4 old s : old < 4 -> N.lor old (N.land s 3) < 4.
Proof.
  intros H. destruct (land3_cases s) as [E|[E|[E|E]]]; rewrite E;
  assert (C : old = 0 \/ old = 1 \/ old = 2 \/ old = 3) by lia;
  destruct C as [->|[->|[->| ->]]]; reflexivity.
Qed.

Lemma Forall_setN {A} (P : A -> Prop) : forall (l : list A) i v, Forall P l -> P v -> Forall P (setN l i v).
Proof.
  induction l as [|x l IH]; intros i v HF Hv; cbn [setN]; [constructor|].
  inversion HF; subst. destruct (i =? 0); constructor; auto.
Qed.

Lemma line_set_symbol_ok l s i : line_ok l -> line_ok (line_set_symbol l s i).
Proof.
  intros (Hl & HF). unfold line_set_symbol. destruct (nthN l i) as [old|] eqn:E; [|split; assumption].
  split; [now rewrite setN_len|]. apply Forall_setN; [exact HF|].
  apply lor_land3_lt4. exact (Forall_nthN' _ _ _ _ HF E).
Qed.

Lemma snoc_cases {A} (l : list A) : l = [] \/ exists init x, l = init ++ [x].
Proof. destruct l as [|a l]; [now left|right]. destruct (@exists_last _ (a :: l)) as (i & x & E); [discriminate|eauto]. Qed.

(* push: the generated function on the word view is the hand model's push followed by the CHECKED
   `position + 2` (the hand model adds without a check, see the note at the end of the file); the Panic of
   `last_mut().unwrap()` on an inconsistent builder (no line, position not at a line start) is the same *)
Theorem g_qvb_push_gen : forall b sym, qv_lines_ok b -> sym < 256 ->
  g_qvb_push (pack_qdata (qv_data b)) (qv_position b) sym =
  let! b' := qvb_push b sym in
  let! p := oadd 64 (qv_position b) 2 in Val (pack_qdata (qv_data b'), p).
Proof.
  intros b sym Hb Hs. unfold g_qvb_push, qvb_push. cbv zeta.
  rewrite PUSH_LINE_MASK_ok, LINE_MASK_ok, LINE_SHIFT_val. change (2 ^ 8 - 1) with 255.
  set (pill := N.land (qv_position b / 2) 255).
  assert (Hp : pill < 256) by apply land255_lt.
  set (D := if pill =? 0 then qv_data b ++ [zero_line] else qv_data b).
  assert (HD : Forall line_ok D).
  { unfold D. destruct (pill =? 0); [|exact Hb]. apply Forall_app. split; [exact Hb|].
    constructor; [exact zero_line_ok|constructor]. }
  assert (E : (if pill =? 0 then Val (pack_qdata (qv_data b) ++ [[0; 0; 0; 0]]) else Val (pack_qdata (qv_data b)))
              = Val (pack_qdata D)).
  { unfold D. destruct (pill =? 0); [|reflexivity]. unfold pack_qdata. now rewrite map_app, <- pack_zero_line'. }
  rewrite E. cbn [bind]. clear E.
  destruct (snoc_cases D) as [->|(init & last & ->)]; [reflexivity|].
  unfold pack_qdata at 1 2. rewrite map_app. cbn [map]. rewrite !last_opt_app. cbn [ounwrap bind].
  apply Forall_app in HD. destruct HD as (_ & HL). inversion HL as [|? ? Hl _]; subst.
  rewrite (N.mod_small pill) by exact Hp.
  rewrite g_qline_set_symbol_ok by assumption.
  rewrite (line_set_refined last pill sym Hl Hp). cbn [bind]. rewrite !set_last_app.
  destruct (oadd 64 (qv_position b) 2); cbn [bind qv_data]; [|reflexivity].
  unfold pack_qdata. rewrite map_app. reflexivity.
Qed.

Lemma qvb_push_lines_ok b sym b' : qv_lines_ok b -> qvb_push b sym = Val b' ->
  qv_lines_ok b' /\ qv_position b' = qv_position b + 2.
Proof.
  intros Hb E. unfold qvb_push in E. cbv zeta in E.
  set (pill := N.land (qv_position b / 2) PUSH_LINE_MASK) in *.
  set (D := if pill =? 0 then qv_data b ++ [zero_line] else qv_data b) in *.
  assert (HD : Forall line_ok D).
  { unfold D. destruct (pill =? 0); [|exact Hb]. apply Forall_app. split; [exact Hb|].
    constructor; [exact zero_line_ok|constructor]. }
  destruct (snoc_cases D) as [E0|(init & last & E0)]; rewrite E0 in *; [discriminate|].
  rewrite last_opt_app in E. cbn [ounwrap bind] in E. rewrite set_last_app in E. apply Val_inj in E. subst b'.
  unfold qv_lines_ok. cbn [qv_data qv_position]. split; [|now rewrite PUSH_POS_STEP_ok].
  apply Forall_app in HD. destruct HD as (HI & HL). inversion HL as [|? ? Hl _]; subst.
  apply Forall_app. split; [exact HI|]. constructor; [|constructor]. now apply line_set_symbol_ok.
Qed.

(* (S) push, in range *)
Theorem g_qvb_push_ok : forall b sym, qv_lines_ok b -> sym < 256 -> qv_position b + 2 < 2 ^ 64 ->
  g_qvb_push (pack_qdata (qv_data b)) (qv_position b) sym =
  let! b' := qvb_push b sym in Val (pack_qdata (qv_data b'), qv_position b').
Proof.
  intros b sym Hb Hs Hp. rewrite g_qvb_push_gen by assumption.
  destruct (qvb_push b sym) as [b'|f] eqn:E; cbn [bind]; [|reflexivity].
  destruct (qvb_push_lines_ok b sym b' Hb E) as (_ & ->).
  unfold oadd. destruct (N.ltb_spec (qv_position b + 2) (2 ^ 64)); [reflexivity|lia].
Qed.
Corollary g_qvb_push_sim : forall b sym b', qv_lines_ok b -> sym < 256 -> qv_position b + 2 < 2 ^ 64 ->
  qvb_push b sym = Val b' ->
  g_qvb_push (pack_qdata (qv_data b)) (qv_position b) sym = Val (pack_qdata (qv_data b'), qv_position b').
Proof. intros b sym b' Hb Hs Hp E. rewrite g_qvb_push_ok by assumption. now rewrite E. Qed.

(* ---- the push loop (the body of extend; also the loop of QWaveletTree::new over the digits of a level) *)
Definition push_body {R} (symbol : N) (st : list (list N) * N) : outcome (step (list (list N) * N) R) :=
  let '(d, p) := st in let! (d, p) := g_qvb_push d p symbol in Val (Next (d, p)).

Lemma g_qvb_push_loop {R} : forall ds b, qv_lines_ok b -> Forall (fun d => d < 256) ds ->
  qv_position b + 2 * len ds < 2 ^ 64 ->
  iter_loop (@push_body R) ds (pack_qdata (qv_data b), qv_position b) =
  let! q := qvb_push_all b ds in Val (Done (pack_qdata (qv_data q), qv_position q)).
Proof.
  induction ds as [|x ds IH]; intros b Hb HF Hp; [reflexivity|].
  inversion HF as [|? ? Hx HF']; subst. rewrite len_cons in Hp.
  cbn [iter_loop qvb_push_all]. unfold push_body at 1.
  rewrite g_qvb_push_ok by (try assumption; lia).
  destruct (qvb_push b x) as [b1|f] eqn:E1; cbn [bind]; [|reflexivity].
  destruct (qvb_push_lines_ok b x b1 Hb E1) as (Hb1 & Hp1).
  apply IH; [exact Hb1|exact HF'|lia].
Qed.

Lemma qvb_push_all_lines_ok : forall ds b q, qv_lines_ok b -> qvb_push_all b ds = Val q ->
  qv_lines_ok q /\ qv_position q = qv_position b + 2 * len ds.
Proof.
  induction ds as [|x ds IH]; intros b q Hb E; cbn [qvb_push_all] in E.
  - apply Val_inj in E. subst q. split; [exact Hb|]. change (len (@nil N)) with 0. lia.
  - destruct (qvb_push b x) as [b1|] eqn:E1; cbn [bind] in E; [|discriminate].
    destruct (qvb_push_lines_ok b x b1 Hb E1) as (Hb1 & Hp1).
    destruct (IH b1 q Hb1 E) as (Hq & Hp). split; [exact Hq|]. rewrite Hp, Hp1, len_cons. lia.
Qed.

Lemma iter_loop_map {A B S R} (f : A -> B) (body : B -> S -> outcome (step S R)) : forall l s,
  iter_loop (fun x => body (f x)) l s = iter_loop body (map f l) s.
Proof.
  induction l as [|x l IH]; intros s; [reflexivity|]. cbn [iter_loop map].
  destruct (body (f x) s) as [[s'|s'|r]|]; cbn [bind]; try reflexivity. apply IH.
Qed.

(* extend (element type of any width wT; each value is cast with `as_` to u8, i.e. taken mod 2^8) *)
Theorem g_qvb_extend_ok : forall wT b vs, qv_lines_ok b -> qv_position b + 2 * len vs < 2 ^ 64 ->
  g_qvb_extend wT (pack_qdata (qv_data b)) (qv_position b) vs =
  let! q := qvb_push_all b (map (fun v => v mod 256) vs) in Val (pack_qdata (qv_data q), qv_position q).
Proof.
  intros wT b vs Hb Hp. unfold g_qvb_extend.
  change (iter_loop _ vs (pack_qdata (qv_data b), qv_position b))
    with (iter_loop (fun v => @push_body (list (list N) * N) (v mod 2 ^ 8)) vs (pack_qdata (qv_data b), qv_position b)).
  rewrite (iter_loop_map (fun v => v mod 2 ^ 8) push_body).
  change (2 ^ 8) with 256.
  rewrite g_qvb_push_loop; [| exact Hb | | ].
  - destruct (qvb_push_all b (map (fun v => v mod 256) vs)); reflexivity.
  - apply Forall_forall. intros x Hx. apply in_map_iff in Hx. destruct Hx as (v & <- & _). lia.
  - unfold len in *. rewrite map_length. exact Hp.
Qed.

(* the hand model's extend on mathematical integers, at the values of an unsigned type *)
Lemma as_u8_of_N v : as_u8 (Z.of_N v) = v mod 256.
Proof. unfold as_u8. lia. Qed.
Lemma qvb_extend_of_N : forall vs b, qvb_extend b (map Z.of_N vs) = qvb_push_all b (map (fun v => v mod 256) vs).
Proof.
  induction vs as [|v vs IH]; intros b; [reflexivity|]. cbn [map qvb_extend qvb_push_all].
  rewrite as_u8_of_N. destruct (qvb_push b (v mod 256)); cbn [bind]; [apply IH|reflexivity].
Qed.
Corollary g_qvb_extend_Z : forall wT b vs, qv_lines_ok b -> qv_position b + 2 * len vs < 2 ^ 64 ->
  g_qvb_extend wT (pack_qdata (qv_data b)) (qv_position b) vs =
  let! q := qvb_extend b (map Z.of_N vs) in Val (pack_qdata (qv_data q), qv_position q).
Proof. intros. rewrite qvb_extend_of_N. now apply g_qvb_extend_ok. Qed.

Lemma qvb_new_lines_ok : qv_lines_ok qvb_new.
Proof. constructor. Qed.

(* QVectorBuilder::from_iter and QVector::from_iter (collect) *)
Theorem g_qvb_from_iter_ok : forall wT vs, len vs < 2 ^ 63 ->
  g_qvb_from_iter wT vs =
  let! q := qvb_push_all qvb_new (map (fun v => v mod 256) vs) in Val (pack_qdata (qv_data q), qv_position q).
Proof.
  intros wT vs Hn. unfold g_qvb_from_iter.
  change (@nil (list N)) with (pack_qdata (qv_data qvb_new)). change 0 with (qv_position qvb_new) at 1.
  rewrite g_qvb_extend_ok; [|exact qvb_new_lines_ok|cbn [qv_position qvb_new]; change (2 ^ 64) with (2 * 2 ^ 63); lia].
  destruct (qvb_push_all qvb_new (map (fun v => v mod 256) vs)); reflexivity.
Qed.
Theorem g_qv_from_iter_ok : forall wT vs, len vs < 2 ^ 63 ->
  g_qv_from_iter wT vs =
  let! q := qv_from_iter (map Z.of_N vs) in Val (pack_qdata (qv_data (qvb_build q)), qv_position (qvb_build q)).
Proof.
  intros wT vs Hn. unfold g_qv_from_iter, qv_from_iter, qvb_build. rewrite qvb_extend_of_N.
  change (@nil (list N)) with (pack_qdata (qv_data qvb_new)). change 0 with (qv_position qvb_new) at 1.
  rewrite g_qvb_extend_ok; [|exact qvb_new_lines_ok|cbn [qv_position qvb_new]; change (2 ^ 64) with (2 * 2 ^ 63); lia].
  destruct (qvb_push_all qvb_new (map (fun v => v mod 256) vs)); reflexivity.
Qed.

(* ================================================================== (4) END TO END: property C13 on generated code *)
From QwtModel Require Import FnsRssNewOk.

Lemma map_sym4_mod256 vs : map sym4 (map (fun v => v mod 256) vs) = map (fun v => v mod 4) vs.
Proof. rewrite map_map. apply map_ext. intros v. unfold sym4. lia. Qed.

(* every quad vector the builder produces from the empty builder: the invariant of Proofs/QVecP.v, hence
   well-formed lines ([qvb_inv_lines_ok], Proofs/FnsQv2Ok.v) and the capacity fact [qv_cap_ok]
   (N.shiftr (qv_position q) 1 <= 256 * len (qv_data q), [qvb_inv_cap_ok] of Proofs/FnsRssNewOk.v) *)
Lemma qvb_push_all_new_facts ds q : qvb_push_all qvb_new ds = Val q ->
  qvb_inv q (map sym4 ds) /\ qv_lines_ok q /\ qv_cap_ok q /\ qv_position q = 2 * len ds.
Proof.
  intros E. destruct (qvb_push_all_inv ds qvb_new [] qvb_inv_new) as (q' & E' & Hq).
  rewrite E in E'. apply Val_inj in E'. subst q'. cbn [app] in Hq.
  split; [exact Hq|]. split; [exact (qvb_inv_lines_ok q _ Hq (Forall_sym4 ds))|].
  split; [exact (qvb_inv_cap_ok q _ Hq)|].
  destruct Hq as (Hp & _). rewrite Hp. unfold len. now rewrite map_length.
Qed.

(* the regenerated collect followed by the regenerated accessors is the list specification: for values of any
   unsigned element type (no width hypothesis is needed: the cast keeps the low 8 bits, the push the low 2),
   fewer than 2^63 of them (exact: from 2^63 values on, the checked `position + 2` of push overflows) *)
Theorem g_qv_from_iter_e2e : forall wT vs, len vs < 2 ^ 63 ->
  exists data pos, g_qv_from_iter wT vs = Val (data, pos) /\
    g_qv_len pos = Val (len vs) /\
    g_qv_is_empty pos = Val (len vs =? 0) /\
    (forall i, g_qv_get data pos i = Val (nthN (map (fun v => v mod 4) vs) i)) /\
    (forall i x, nthN vs i = Some x -> g_qv_get_unchecked data pos i = Val (x mod 4)).
Proof.
  intros wT vs Hn. rewrite g_qv_from_iter_ok by exact Hn. unfold qv_from_iter, qvb_build. rewrite qvb_extend_of_N.
  destruct (qvb_push_all_inv (map (fun v => v mod 256) vs) qvb_new [] qvb_inv_new) as (q & E & Hq).
  cbn [app] in Hq. rewrite map_sym4_mod256 in Hq. rewrite E. cbn [bind].
  exists (pack_qdata (qv_data q)), (qv_position q). split; [reflexivity|].
  assert (Hl : qv_lines_ok q).
  { apply (qvb_inv_lines_ok q _ Hq). apply Forall_forall. intros x Hx. apply in_map_iff in Hx.
    destruct Hx as (v & <- & _). lia. }
  assert (Hlen : len (map (fun v => v mod 4) vs) = len vs) by (unfold len; now rewrite map_length).
  split; [|split; [|split]].
  - rewrite g_qv_len_ok by (destruct Hq as (-> & _); rewrite Hlen; change (2 ^ 64) with (2 * 2 ^ 63); lia).
    now rewrite (qv_len_inv q _ Hq), Hlen.
  - rewrite g_qv_is_empty_ok by (destruct Hq as (-> & _); rewrite Hlen; change (2 ^ 64) with (2 * 2 ^ 63); lia).
    now rewrite (qv_is_empty_inv q _ Hq), Hlen.
  - intros i. rewrite g_qv_get_ok by exact Hl. apply qv_get_inv. exact Hq.
  - intros i x Hi. rewrite g_qv_get_unchecked_ok by exact Hl.
    apply (qv_get_unchecked_inv q _ i (x mod 4) Hq). rewrite nthN_map, Hi. reflexivity.
Qed.

(* in the shape of the task statement (the width hypothesis is not needed) *)
Corollary g_qv_from_iter_C13 : forall wT vs, Forall (fun v => v < 2 ^ wT) vs -> len vs < 2 ^ 63 ->
  exists data pos, g_qv_from_iter wT vs = Val (data, pos) /\
    g_qv_len pos = Val (len vs) /\
    g_qv_is_empty pos = Val (len vs =? 0) /\
    (forall i, g_qv_get data pos i = Val (nthN (map (fun v => v mod 4) vs) i)).
Proof.
  intros wT vs _ Hn. destruct (g_qv_from_iter_e2e wT vs Hn) as (data & pos & A & B & C & D & _).
  exists data, pos. auto.
Qed.

(* the same value is the one of C13_collect: the hand-modelled collect of the same integers *)
Corollary g_qv_from_iter_C13_collect : forall wT vs, len vs < 2 ^ 63 ->
  exists q, qv_from_iter (map Z.of_N vs) = Val q /\
    g_qv_from_iter wT vs = Val (pack_qdata (qv_data q), qv_position q) /\
    stored (map Z.of_N vs) = map (fun v => v mod 4) vs.
Proof.
  intros wT vs Hn. destruct (qv_from_iter_correct (map Z.of_N vs)) as (q & E & _).
  exists q. split; [exact E|]. split.
  - rewrite g_qv_from_iter_ok by exact Hn. rewrite E. reflexivity.
  - unfold stored. rewrite map_map. apply map_ext. intros v. lia.
Qed.

(* ---- exported for QWaveletTree::new: the push loop over the digits of one level, from the empty builder *)
Lemma g_qvb_push_loop_new {R} : forall ds q, qvb_push_all qvb_new ds = Val q ->
  Forall (fun d => d < 256) ds -> len ds < 2 ^ 63 ->
  iter_loop (fun symbol '(d, p) => let! (d, p) := g_qvb_push d p symbol in Val (@Next _ R (d, p))) ds ([], 0)
  = Val (Done (pack_qdata (qv_data q), qv_position q)).
Proof.
  intros ds q E HF Hn.
  change (iter_loop (@push_body R) ds (pack_qdata (qv_data qvb_new), qv_position qvb_new) =
          Val (Done (pack_qdata (qv_data q), qv_position q))).
  rewrite g_qvb_push_loop; [now rewrite E|exact qvb_new_lines_ok|exact HF|].
  cbn [qv_position qvb_new]. change (2 ^ 64) with (2 * 2 ^ 63). lia.
Qed.

(* the same with the symbol computed inside the loop body by a (possibly faulting) function of the element:
   when the hand model's digit extraction [mapo f xs] succeeds, the interleaved loop is the push of the digits *)
Lemma g_qvb_push_loop_mapo {A R} (f : A -> outcome N) : forall xs ds b q,
  qv_lines_ok b -> mapo f xs = Val ds -> Forall (fun d => d < 256) ds ->
  qv_position b + 2 * len xs < 2 ^ 64 -> qvb_push_all b ds = Val q ->
  iter_loop (fun x '(d, p) => let! s := f x in let! (d, p) := g_qvb_push d p s in Val (@Next _ R (d, p)))
            xs (pack_qdata (qv_data b), qv_position b)
  = Val (Done (pack_qdata (qv_data q), qv_position q)).
Proof.
  induction xs as [|x xs IH]; intros ds b q Hb Em HF Hp Eq; cbn [mapo] in Em.
  - apply Val_inj in Em. subst ds. cbn [qvb_push_all] in Eq. apply Val_inj in Eq. subst q. reflexivity.
  - destruct (f x) as [s|] eqn:Es; cbn [bind] in Em; [|discriminate].
    destruct (mapo f xs) as [r|] eqn:Er; cbn [bind] in Em; [|discriminate].
    apply Val_inj in Em. subst ds. inversion HF as [|? ? Hs HF']; subst.
    cbn [qvb_push_all] in Eq. destruct (qvb_push b s) as [b1|] eqn:E1; cbn [bind] in Eq; [|discriminate].
    rewrite len_cons in Hp.
    cbn [iter_loop]. rewrite Es. cbn [bind].
    rewrite (g_qvb_push_sim b s b1 Hb Hs ltac:(lia) E1). cbn [bind].
    destruct (qvb_push_lines_ok b s b1 Hb E1) as (Hb1 & Hp1).
    apply (IH r b1 q Hb1 eq_refl HF'); [lia|exact Eq].
Qed.

(* ================================================================== NOTE: the only difference found *)
(* The hand model's push computes `position + 2` WITHOUT the usize overflow check (Model/QVec.v: qvb_push adds in
   N), the generated push (and the Rust code in a build with overflow checks) checks it.  The two therefore
   differ exactly on builders holding 2^63 - 1 symbols or more, which no execution can reach (2^61 bytes of
   lines); concretely: *)
Theorem g_qvb_push_overflow : forall b sym b', qv_lines_ok b -> sym < 256 -> 2 ^ 64 <= qv_position b + 2 ->
  qvb_push b sym = Val b' ->
  g_qvb_push (pack_qdata (qv_data b)) (qv_position b) sym = Fault Overflow.
Proof.
  intros b sym b' Hb Hs Hp E. rewrite g_qvb_push_gen by assumption. rewrite E. cbn [bind].
  unfold oadd. destruct (N.ltb_spec (qv_position b + 2) (2 ^ 64)); [lia|reflexivity].
Qed.
Example qvb_push_overflow_example :
  let b := {| qv_data := [zero_line]; qv_position := 2 ^ 64 - 2 |} in
  is_val (qvb_push b 1) = true /\
  g_qvb_push (pack_qdata (qv_data b)) (qv_position b) 1 = Fault Overflow.
Proof. vm_compute. split; reflexivity. Qed.

(* ================================================================== (5) non-vacuity, evaluated *)
Definition ex_vs : list N := map (fun i => (i * 37 + i / 7) mod 1000) (seqN 0 300).
Example g_qv_from_iter_example :
  match g_qv_from_iter 16 ex_vs with
  | Val (data, pos) =>
      len data = 2 /\ g_qv_len pos = Val 300 /\ g_qv_is_empty pos = Val false /\
      map (g_qv_get data pos) [0; 1; 2; 255; 256; 257; 299; 300; 511] =
      map (fun i => Val (nthN (map (fun v => v mod 4) ex_vs) i)) [0; 1; 2; 255; 256; 257; 299; 300; 511] /\
      map (g_qv_get data pos) [0; 1; 2; 255; 256; 257; 299; 300; 511] =
      [Val (Some 0); Val (Some 1); Val (Some 2); Val (Some 3); Val (Some 0); Val (Some 1); Val (Some 1); Val None; Val None]
  | Fault _ => False
  end.
Proof. vm_compute. repeat split; reflexivity. Qed.

Example g_stable_partition_of_4_example :
  g_stable_partition_of_4 8 [7; 0; 5; 2; 9; 4; 3; 14] 0 = Val [0; 4; 5; 9; 2; 14; 7; 3] /\
  g_stable_partition_of_4 8 [7; 0; 5; 2; 9; 4; 3; 14] 2 = Val [0; 2; 3; 7; 5; 4; 9; 14] /\
  g_stable_partition_of_4 8 [1] 8 = Fault Overflow /\ stable_partition_of_4 8 [1] 8 = Fault Overflow /\
  g_stable_partition_of_4 8 [] 8 = Val [] /\
  g_msb 16 300 = Val 8 /\ g_msb 8 0 = Val 0 /\ g_msb 128 (2 ^ 128 - 1) = Val 127 /\
  g_qvb_with_capacity 1000 = Val ([], 0) /\ g_qvb_with_capacity (2 ^ 63 - 256) = Fault Overflow /\
  g_qvb_with_capacity (2 ^ 63 - 257) = Val ([], 0).
Proof. vm_compute. repeat split; reflexivity. Qed.

Print Assumptions g_msb_ok.
Print Assumptions g_msb_spec.
Print Assumptions g_stable_partition_of_4_ok.
Print Assumptions g_stable_partition_of_4_spec.
Print Assumptions g_stable_partition_of_4_contract.
Print Assumptions g_qvb_with_capacity_ok.
Print Assumptions g_qvb_build_ok.
Print Assumptions g_qvb_push_gen.
Print Assumptions g_qvb_push_ok.
Print Assumptions g_qvb_push_sim.
Print Assumptions qvb_push_lines_ok.
Print Assumptions g_qvb_push_loop.
Print Assumptions g_qvb_extend_ok.
Print Assumptions g_qvb_extend_Z.
Print Assumptions g_qvb_from_iter_ok.
Print Assumptions g_qv_from_iter_ok.
Print Assumptions g_qv_from_iter_e2e.
Print Assumptions g_qv_from_iter_C13.
Print Assumptions g_qv_from_iter_C13_collect.
Print Assumptions qvb_push_all_new_facts.
Print Assumptions g_qvb_push_loop_new.
Print Assumptions g_qvb_push_loop_mapo.
Print Assumptions g_qvb_push_overflow.
Print Assumptions g_qv_from_iter_example.
Print Assumptions g_stable_partition_of_4_example.
