(* C17: the utility functions of src/utils: the stable partitions (property-level contract:
   permutation, grouped by increasing key, stable), text_remap (the order-preserving dense
   remapping, for EVERY iteration order of the hash set), and select_in_word in the words of
   its documentation.  Every statement is for ALL inputs. *)
From Coq Require Import ZArith Lia ZifyBool ZifyN ZifyNat Permutation Sorted.
From QwtModel Require Import ListX Seq Words Remap QWT Huff ListXP WordsP QWTP BinWTP.
Ltac Zify.zify_post_hook ::= Z.div_mod_to_equations.
Arguments N.add : simpl never.
Arguments N.sub : simpl never.
Arguments N.mul : simpl never.
Arguments N.eqb : simpl never.
Arguments N.ltb : simpl never.
Arguments N.leb : simpl never.
Arguments N.pred : simpl never.
Arguments N.of_nat : simpl never.
Arguments N.land : simpl never.
Arguments N.lor : simpl never.
Arguments N.shiftr : simpl never.
Arguments N.shiftl : simpl never.
Arguments N.div : simpl never.
Arguments N.modulo : simpl never.
Arguments N.pow : simpl never.
Arguments N.testbit : simpl never.

(* ================================================================== generic list facts *)
Lemma filter_none_u {A} (p : A -> bool) l : (forall x, In x l -> p x = false) -> filter p l = [].
Proof.
  induction l as [|a l IH]; intros H; cbn [filter]; [reflexivity|].
  rewrite (H a (or_introl eq_refl)). apply IH. intros x Hx. apply H. now right.
Qed.
Lemma filter_all_u {A} (p : A -> bool) l : (forall x, In x l -> p x = true) -> filter p l = l.
Proof.
  induction l as [|a l IH]; intros H; cbn [filter]; [reflexivity|].
  rewrite (H a (or_introl eq_refl)). f_equal. apply IH. intros x Hx. apply H. now right.
Qed.

Lemma filter_split_perm {A} (q r : A -> bool) l : (forall x, In x l -> q x && r x = false) ->
  Permutation (filter (fun x => q x || r x) l) (filter q l ++ filter r l).
Proof.
  induction l as [|x l IH]; intros H; cbn [filter app]; [constructor|].
  assert (Hx := H x (or_introl eq_refl)).
  assert (IH' := IH (fun y Hy => H y (or_intror Hy))).
  destruct (q x), (r x); cbn [orb andb app] in *; try discriminate.
  - now constructor.
  - now apply Permutation_cons_app.
  - exact IH'.
Qed.

Lemma SSorted_app_u {A} (R : A -> A -> Prop) l1 l2 : StronglySorted R l1 -> StronglySorted R l2 ->
  (forall x y, In x l1 -> In y l2 -> R x y) -> StronglySorted R (l1 ++ l2).
Proof.
  induction l1 as [|a l1 IH]; intros H1 H2 H; cbn [app]; [assumption|].
  apply StronglySorted_inv in H1 as [H1 Ha].
  constructor.
  - apply IH; auto. intros x y Hx Hy. apply H; [now right|assumption].
  - apply Forall_app. split; [assumption|]. apply Forall_forall. intros y Hy.
    apply H; [now left|assumption].
Qed.
Lemma SSorted_all_u {A} (R : A -> A -> Prop) l : (forall x y, In x l -> In y l -> R x y) -> StronglySorted R l.
Proof.
  induction l as [|a l IH]; intros H; constructor.
  - apply IH. intros x y Hx Hy. apply H; now right.
  - apply Forall_forall. intros y Hy. apply H; [now left|now right].
Qed.

Lemma firstnN_0_u {A} (l : list A) : firstnN 0 l = [].
Proof. destruct l; reflexivity. Qed.
Lemma firstnN_succ_u {A} (x : A) l i : firstnN (i + 1) (x :: l) = x :: firstnN i l.
Proof.
  cbn [firstnN]. destruct (N.eqb_spec (i + 1) 0); [lia|]. do 2 f_equal. lia.
Qed.
Lemma firstnN_app_exact_u {A} (l1 l2 : list A) p : p = len l1 -> firstnN p (l1 ++ l2) = l1.
Proof. intros ->. apply firstnN_app_exact. Qed.

Lemma nthN_In_u {A} (l : list A) i a : nthN l i = Some a -> In a l.
Proof. rewrite nthN_nth_error. apply nth_error_In. Qed.
Lemma In_nthN_u {A} (l : list A) a : In a l -> exists i, nthN l i = Some a.
Proof.
  induction l as [|b l IH]; intros H; [destruct H|].
  destruct H as [->|H].
  - exists 0. apply nthN_0.
  - destruct (IH H) as (i & Hi). exists (i + 1). now rewrite nthN_succ.
Qed.
Lemma nthN_seqN_u n : forall s i, i < N.of_nat n -> nthN (seqN s n) i = Some (s + i).
Proof.
  induction n as [|n IH]; intros s i Hi; [lia|].
  cbn [seqN nthN]. destruct (N.eqb_spec i 0) as [->|Hn].
  - f_equal. lia.
  - rewrite IH by lia. f_equal. lia.
Qed.

(* ================================================================== (1) stable partitions *)
Definition group_by {A} (key : A -> N) (k : nat) (l : list A) : list A :=
  concat (map (fun d => filter (fun x => key x =? d) l) (seqN 0 k)).

(* the same from an arbitrary first key *)
Definition gb {A} (key : A -> N) (s : N) (k : nat) (l : list A) : list A :=
  concat (map (fun d => filter (fun x => key x =? d) l) (seqN s k)).

Lemma gb_S {A} (key : A -> N) s k l :
  gb key s (S k) l = filter (fun x => key x =? s) l ++ gb key (s + 1) k l.
Proof. reflexivity. Qed.

Lemma in_gb {A} (key : A -> N) k l x : forall s,
  In x (gb key s k l) <-> In x l /\ s <= key x < s + N.of_nat k.
Proof.
  induction k as [|k IH]; intros s.
  - unfold gb; cbn [seqN map concat In]. split; [intros []|intros [_ H]; lia].
  - rewrite gb_S, in_app_iff, filter_In, IH, N.eqb_eq, Nat2N.inj_succ. clear IH.
    split.
    + intros [[H1 H2]|[H1 H2]]; (split; [assumption|lia]).
    + intros [H1 H2]. destruct (N.eq_dec (key x) s); [left|right]; (split; [assumption|lia]).
Qed.

Lemma gb_perm {A} (key : A -> N) k l : forall s,
  Permutation (filter (fun x => (s <=? key x) && (key x <? s + N.of_nat k)) l) (gb key s k l).
Proof.
  induction k as [|k IH]; intros s.
  - unfold gb; cbn [seqN map concat]. rewrite filter_none_u; [constructor|].
    intros x _. lia.
  - rewrite gb_S. eapply Permutation_trans; [|apply Permutation_app_head, IH].
    rewrite (filter_ext _ (fun x => (key x =? s) ||
                                    ((s + 1 <=? key x) && (key x <? s + 1 + N.of_nat k)))).
    + apply filter_split_perm. intros x _. lia.
    + intros x. lia.
Qed.

Theorem group_by_perm : forall A (key : A -> N) k l,
  (forall x, In x l -> key x < N.of_nat k) -> Permutation l (group_by key k l).
Proof.
  intros A key k l H. change (group_by key k l) with (gb key 0 k l).
  eapply Permutation_trans; [|apply gb_perm].
  rewrite filter_all_u; [apply Permutation_refl|].
  intros x Hx. specialize (H x Hx). lia.
Qed.

Lemma gb_sorted {A} (key : A -> N) k l : forall s,
  StronglySorted (fun x y => key x <= key y) (gb key s k l).
Proof.
  induction k as [|k IH]; intros s.
  - constructor.
  - rewrite gb_S. apply SSorted_app_u.
    + apply SSorted_all_u. intros x y Hx Hy.
      apply filter_In in Hx as [_ Hx]. apply filter_In in Hy as [_ Hy].
      apply N.eqb_eq in Hx, Hy. lia.
    + apply IH.
    + intros x y Hx Hy. apply filter_In in Hx as [_ Hx]. apply N.eqb_eq in Hx.
      apply in_gb in Hy. lia.
Qed.

(* increasing order of the key *)
Theorem group_by_grouped : forall A (key : A -> N) k l,
  StronglySorted (fun x y => key x <= key y) (group_by key k l).
Proof. intros A key k l. apply (gb_sorted key k l 0). Qed.

Lemma filter_filter_key {A} (key : A -> N) d s l :
  filter (fun x => key x =? d) (filter (fun x => key x =? s) l) =
  if d =? s then filter (fun x => key x =? d) l else [].
Proof.
  destruct (N.eqb_spec d s) as [->|Hn].
  - induction l as [|a l IH]; cbn [filter]; [reflexivity|].
    destruct (key a =? s) eqn:E; cbn [filter]; rewrite ?E; congruence.
  - apply filter_none_u. intros x Hx. apply filter_In in Hx as [_ Hx].
    apply N.eqb_eq in Hx. apply N.eqb_neq. congruence.
Qed.

Lemma gb_stable {A} (key : A -> N) k l d : forall s,
  filter (fun x => key x =? d) (gb key s k l) =
  if (s <=? d) && (d <? s + N.of_nat k) then filter (fun x => key x =? d) l else [].
Proof.
  induction k as [|k IH]; intros s.
  - unfold gb; cbn [seqN map concat filter].
    destruct ((s <=? d) && (d <? s + N.of_nat 0)) eqn:E; [exfalso; lia|reflexivity].
  - rewrite gb_S, filter_app, filter_filter_key, IH.
    destruct (d =? s) eqn:E1, ((s + 1 <=? d) && (d <? s + 1 + N.of_nat k)) eqn:E2,
             ((s <=? d) && (d <? s + N.of_nat (S k))) eqn:E3;
      try (exfalso; lia); rewrite ?app_nil_r; reflexivity.
Qed.

(* stability: the subsequence of the elements with key d is unchanged *)
Theorem group_by_stable : forall A (key : A -> N) k l d,
  filter (fun x => key x =? d) (group_by key k l) =
  (if d <? N.of_nat k then filter (fun x => key x =? d) l else []).
Proof.
  intros A key k l d. change (group_by key k l) with (gb key 0 k l).
  rewrite gb_stable.
  destruct (N.ltb_spec d (N.of_nat k)), (N.leb_spec 0 d), (N.ltb_spec d (0 + N.of_nat k));
    try lia; reflexivity.
Qed.

(* ------------------------------------------------------------------ instantiations *)
Lemma group_by_contract {A} (key : A -> N) k l : (forall x, key x < N.of_nat k) ->
  Permutation l (group_by key k l) /\
  StronglySorted (fun x y => key x <= key y) (group_by key k l) /\
  forall d, filter (fun x => key x =? d) (group_by key k l) = filter (fun x => key x =? d) l.
Proof.
  intros H. split; [apply group_by_perm; intros; apply H|].
  split; [apply group_by_grouped|].
  intros d. rewrite group_by_stable. destruct (N.ltb_spec d (N.of_nat k)); [reflexivity|].
  symmetry. apply filter_none_u. intros x _. apply N.eqb_neq. specialize (H x). lia.
Qed.

Theorem partition4_contract : forall w seq shift, QWTP.width_ok w -> shift < w ->
  Forall (fun x => x < 2 ^ w) seq ->
  exists out, stable_partition_of_4 w seq shift = Val out /\ Permutation seq out /\
    StronglySorted (fun x y => (x / 2 ^ shift) mod 4 <= (y / 2 ^ shift) mod 4) out /\
    forall d, filter (fun x => (x / 2 ^ shift) mod 4 =? d) out =
              filter (fun x => (x / 2 ^ shift) mod 4 =? d) seq.
Proof.
  intros w seq shift Hw Hs HF.
  exists (group_by (fun x => (x / 2 ^ shift) mod 4) 4 seq).
  split; [rewrite QWTP.stable_partition_of_4_correct by assumption; reflexivity|].
  apply (group_by_contract (fun x => (x / 2 ^ shift) mod 4) 4 seq).
  intros x. change (N.of_nat 4) with 4. apply N.mod_lt. discriminate.
Qed.

Theorem partition2_contract : forall w seq shift, BinWTP.width_ok w -> shift < w ->
  Forall (fun x => x < 2 ^ w) seq ->
  exists out, stable_partition_of_2 w seq shift = Val out /\ Permutation seq out /\
    StronglySorted (fun x y => (x / 2 ^ shift) mod 2 <= (y / 2 ^ shift) mod 2) out /\
    forall d, filter (fun x => (x / 2 ^ shift) mod 2 =? d) out =
              filter (fun x => (x / 2 ^ shift) mod 2 =? d) seq.
Proof.
  intros w seq shift Hw Hs HF.
  exists (group_by (fun x => (x / 2 ^ shift) mod 2) 2 seq).
  split.
  - rewrite BinWTP.stable_partition_of_2_correct by assumption. f_equal.
    unfold group_by. cbn [seqN map concat]. rewrite app_nil_r. reflexivity.
  - apply (group_by_contract (fun x => (x / 2 ^ shift) mod 2) 2 seq).
    intros x. change (N.of_nat 2) with 2. apply N.mod_lt. discriminate.
Qed.

(* ================================================================== (2) text_remap *)
(* the distinct values of the input in increasing order *)
Definition distinct_sorted (input : list N) : list N := sort_asc (nodup N.eq_dec input).

(* ------------------------------------------------------------------ insertion sort *)
Lemma insert_asc_in x l y : In y (insert_asc x l) <-> y = x \/ In y l.
Proof.
  induction l as [|a l IH]; cbn [insert_asc In]; [intuition congruence|].
  destruct (x <=? a); cbn [In]; [|rewrite IH]; intuition congruence.
Qed.

Lemma insert_asc_sorted x l :
  StronglySorted N.lt l -> ~ In x l -> StronglySorted N.lt (insert_asc x l).
Proof.
  induction l as [|a l IH]; intros Hs Hn; cbn [insert_asc].
  - repeat constructor.
  - apply StronglySorted_inv in Hs as [Hs Ha].
    destruct (N.leb_spec x a) as [Hle|Hlt].
    + assert (x < a).
      { assert (x <> a) by (intros ->; apply Hn; now left). lia. }
      constructor; [constructor; assumption|]. constructor; [assumption|].
      eapply Forall_impl; [|exact Ha]. cbv beta. intros; lia.
    + constructor.
      * apply IH; [assumption|]. intros Hi; apply Hn; now right.
      * apply Forall_forall. intros y Hy. apply insert_asc_in in Hy as [->|Hy]; [assumption|].
        rewrite Forall_forall in Ha. now apply Ha.
Qed.

Lemma sort_fold l : forall acc, StronglySorted N.lt acc -> NoDup l ->
  (forall x, In x l -> ~ In x acc) ->
  StronglySorted N.lt (fold_left (fun acc x => insert_asc x acc) l acc) /\
  (forall y, In y (fold_left (fun acc x => insert_asc x acc) l acc) <-> In y l \/ In y acc).
Proof.
  induction l as [|a l IH]; intros acc Hs Hnd Hd; cbn [fold_left].
  - split; [assumption|]. cbn [In]. tauto.
  - inversion Hnd as [|? ? Hna Hnd']; subst.
    destruct (IH (insert_asc a acc)) as [H1 H2].
    + apply insert_asc_sorted; [assumption|]. apply Hd. now left.
    + assumption.
    + intros x Hx Hi. apply insert_asc_in in Hi as [->|Hi]; [contradiction|].
      eapply Hd; [right; eassumption|assumption].
    + split; [assumption|]. intros y. rewrite H2, insert_asc_in. cbn [In]. intuition congruence.
Qed.

Lemma sort_asc_sorted l : NoDup l -> StronglySorted N.lt (sort_asc l).
Proof. intros H. apply (sort_fold l []); [constructor|assumption|intros x _ []]. Qed.
Lemma sort_asc_in l y : NoDup l -> In y (sort_asc l) <-> In y l.
Proof.
  intros H. unfold sort_asc.
  rewrite (proj2 (sort_fold l [] (SSorted_nil _) H (fun x _ F => F))). cbn [In]. tauto.
Qed.

(* a strictly increasing list is determined by its set of elements *)
Lemma sorted_lt_unique l1 : forall l2, StronglySorted N.lt l1 -> StronglySorted N.lt l2 ->
  (forall x, In x l1 <-> In x l2) -> l1 = l2.
Proof.
  induction l1 as [|a l1 IH]; intros [|b l2] H1 H2 H.
  - reflexivity.
  - exfalso. destruct (proj2 (H b) (or_introl eq_refl)).
  - exfalso. destruct (proj1 (H a) (or_introl eq_refl)).
  - apply StronglySorted_inv in H1 as [H1 Ha]. apply StronglySorted_inv in H2 as [H2 Hb].
    rewrite Forall_forall in Ha, Hb.
    assert (a = b).
    { destruct (proj1 (H a) (or_introl eq_refl)) as [E|Hi]; [congruence|].
      destruct (proj2 (H b) (or_introl eq_refl)) as [E|Hj]; [congruence|].
      apply Hb in Hi. apply Ha in Hj. lia. }
    subst b. f_equal. apply IH; try assumption.
    intros x. split; intros Hx.
    + destruct (proj1 (H x) (or_intror Hx)) as [E|Hi]; [|assumption].
      subst x. apply Ha in Hx. lia.
    + destruct (proj2 (H x) (or_intror Hx)) as [E|Hi]; [|assumption].
      subst x. apply Hb in Hx. lia.
Qed.

Lemma SSorted_lt_NoDup l : StronglySorted N.lt l -> NoDup l.
Proof.
  induction 1 as [|a l Hs IH Ha]; constructor; [|assumption].
  intros Hi. rewrite Forall_forall in Ha. apply Ha in Hi. lia.
Qed.

Lemma distinct_sorted_sorted input : StronglySorted N.lt (distinct_sorted input).
Proof. apply sort_asc_sorted, NoDup_nodup. Qed.
Lemma distinct_sorted_in input x : In x (distinct_sorted input) <-> In x input.
Proof. unfold distinct_sorted. rewrite sort_asc_in by apply NoDup_nodup. apply nodup_In. Qed.

(* whatever the order the set yields its elements, sorting gives the same list *)
Lemma sort_asc_canon uniq input : NoDup uniq -> (forall x, In x uniq <-> In x input) ->
  sort_asc uniq = distinct_sorted input.
Proof.
  intros Hnd Hin. apply sorted_lt_unique.
  - now apply sort_asc_sorted.
  - apply distinct_sorted_sorted.
  - intros x. rewrite sort_asc_in, distinct_sorted_in by assumption. apply Hin.
Qed.

Lemma len_le_256 l : NoDup l -> (forall x, In x l -> x < 256) -> len l <= 256.
Proof.
  intros Hnd H.
  assert (Hl : (length l <= length (seqN 0 256))%nat).
  { apply NoDup_incl_length; [assumption|]. intros x Hx. apply in_seqN.
    specialize (H x Hx). change (N.of_nat 256) with 256. lia. }
  rewrite seqN_length in Hl. unfold len. lia.
Qed.

(* ------------------------------------------------------------------ rank among the distinct values *)
Definition rank_in (D : list N) (x : N) : N := len (filter (fun y => y <? x) D).

Lemma rank_in_cons a D x : rank_in (a :: D) x = (if a <? x then 1 else 0) + rank_in D x.
Proof.
  unfold rank_in. cbn [filter]. destruct (a <? x); [rewrite len_cons|]; lia.
Qed.
Lemma rank_in_le_len D x : rank_in D x <= len D.
Proof.
  induction D as [|a D IH]; [unfold rank_in; cbn [filter]; lia|].
  rewrite rank_in_cons, len_cons. destruct (a <? x); lia.
Qed.
Lemma rank_in_lt_len D x : In x D -> rank_in D x < len D.
Proof.
  induction D as [|a D IH]; intros H; [destruct H|].
  rewrite rank_in_cons, len_cons. destruct H as [->|H].
  - pose proof (rank_in_le_len D x). destruct (N.ltb_spec x x); lia.
  - specialize (IH H). destruct (a <? x); lia.
Qed.
Lemma rank_in_le D x y : x <= y -> rank_in D x <= rank_in D y.
Proof.
  intros H. induction D as [|a D IH]; [unfold rank_in; cbn [filter]; lia|].
  rewrite !rank_in_cons. destruct (N.ltb_spec a x), (N.ltb_spec a y); lia.
Qed.
Lemma rank_in_lt D x y : x < y -> In x D -> rank_in D x < rank_in D y.
Proof.
  intros H. induction D as [|a D IH]; intros Hi; [destruct Hi|].
  rewrite !rank_in_cons. destruct Hi as [->|Hi].
  - pose proof (rank_in_le D x y). destruct (N.ltb_spec x x), (N.ltb_spec x y); lia.
  - specialize (IH Hi). destruct (N.ltb_spec a x), (N.ltb_spec a y); lia.
Qed.

(* the index in a strictly increasing list is the rank *)
Lemma index_of_sorted l : forall i x, StronglySorted N.lt l -> In x l ->
  index_of x l i = Some (i + rank_in l x).
Proof.
  induction l as [|a l IH]; intros i x Hs Hi; [destruct Hi|].
  apply StronglySorted_inv in Hs as [Hs Ha]. rewrite Forall_forall in Ha.
  cbn [index_of]. rewrite rank_in_cons. destruct (N.eqb_spec a x) as [->|Hne].
  - destruct (N.ltb_spec x x); [lia|].
    unfold rank_in. rewrite filter_none_u.
    + rewrite (@len_nil N). f_equal. lia.
    + intros y Hy. apply Ha in Hy. lia.
  - destruct Hi as [E|Hi]; [contradiction|].
    pose proof (Ha x Hi). destruct (N.ltb_spec a x); [|lia].
    rewrite IH by assumption. f_equal. lia.
Qed.

Lemma index_of_nth l : forall i a x, NoDup l -> nthN l a = Some x -> index_of x l i = Some (i + a).
Proof.
  induction l as [|y l IH]; intros i a x Hnd H; cbn [nthN index_of] in *; [discriminate|].
  inversion Hnd as [|? ? Hny Hnd']; subst.
  destruct (N.eqb_spec a 0) as [->|Hn].
  - injection H as ->. rewrite N.eqb_refl. f_equal. lia.
  - destruct (N.eqb_spec y x) as [->|Hne].
    + exfalso. apply Hny. eapply nthN_In_u; eassumption.
    + rewrite (IH (i + 1) (N.pred a) x Hnd' H). f_equal. lia.
Qed.

(* ------------------------------------------------------------------ the loop *)
Fixpoint remap_go (U : list N) (l : list N) : outcome (list N * N) :=
  match l with
  | [] => Val ([], len U)
  | c :: r => match index_of c U 0 with
              | None => Fault Panic
              | Some i => let! (rest, d) := remap_go U r in Val (i mod 256 :: rest, d)
              end
  end.
Lemma text_remap_go uniq input : text_remap uniq input = remap_go (sort_asc uniq) input.
Proof.
  unfold text_remap. cbv zeta. induction input as [|c r IH]; [reflexivity|].
  cbn [remap_go]. rewrite <- IH. reflexivity.
Qed.

(* the [as u8] cast is harmless: every index is below 256 *)
Lemma remap_go_val U (f : N -> N) input :
  (forall x, In x input -> index_of x U 0 = Some (f x) /\ f x < 256) ->
  remap_go U input = Val (map f input, len U).
Proof.
  induction input as [|c r IH]; intros H; cbn [remap_go map]; [reflexivity|].
  destruct (H c (or_introl eq_refl)) as (Ei & Hi).
  rewrite Ei, IH by (intros; apply H; now right).
  cbn [bind]. rewrite N.mod_small by assumption. reflexivity.
Qed.

Theorem text_remap_correct : forall uniq input, NoDup uniq ->
  (forall x, In x uniq <-> In x input) -> Forall (fun x => x < 256) input ->
  exists out d, text_remap uniq input = Val (out, d) /\
    d = len (distinct_sorted input) /\ d <= 256 /\ len out = len input /\
    (* every output symbol is the rank of the input symbol among the distinct values: *)
    (forall i x, nthN input i = Some x ->
       nthN out i = Some (len (filter (fun y => y <? x) (distinct_sorted input)))) /\
    (* hence: onto 0..d, order preserving, injective on symbols *)
    (forall i j x y a b, nthN input i = Some x -> nthN input j = Some y ->
       nthN out i = Some a -> nthN out j = Some b -> (x < y <-> a < b) /\ (x = y <-> a = b)) /\
    (forall a, a < d -> exists i, nthN out i = Some a).
Proof.
  intros uniq input Hnd Hin HF. rewrite Forall_forall in HF.
  pose (D := distinct_sorted input).
  assert (HU : sort_asc uniq = D) by (apply sort_asc_canon; assumption).
  assert (HDs : StronglySorted N.lt D) by apply distinct_sorted_sorted.
  assert (HDin : forall x, In x D <-> In x input) by (intros x; apply distinct_sorted_in).
  assert (HDnd : NoDup D) by (apply SSorted_lt_NoDup; assumption).
  assert (HDlen : len D <= 256).
  { apply len_le_256; [assumption|]. intros x Hx. apply HF. now apply HDin. }
  assert (Hidx : forall x, In x input -> index_of x D 0 = Some (rank_in D x)).
  { intros x Hx. rewrite index_of_sorted by (assumption || now apply HDin). f_equal; lia. }
  assert (Hrk : forall x, In x input -> rank_in D x < len D).
  { intros x Hx. apply rank_in_lt_len. now apply HDin. }
  exists (map (rank_in D) input), (len D).
  split.
  { rewrite text_remap_go, HU. apply remap_go_val. intros x Hx.
    split; [now apply Hidx|]. specialize (Hrk x Hx). lia. }
  split; [reflexivity|]. split; [assumption|].
  split; [unfold len; now rewrite map_length|].
  assert (Hout : forall i x, nthN input i = Some x ->
                 nthN (map (rank_in D) input) i = Some (rank_in D x)).
  { intros i x E. rewrite nthN_map, E. reflexivity. }
  split; [exact Hout|]. split.
  - intros i j x y a b Ex Ey Ea Eb.
    rewrite (Hout _ _ Ex) in Ea. rewrite (Hout _ _ Ey) in Eb.
    injection Ea as <-. injection Eb as <-.
    assert (Hx : In x D) by (apply HDin; eapply nthN_In_u; eassumption).
    assert (Hy : In y D) by (apply HDin; eapply nthN_In_u; eassumption).
    split; split; intros H.
    + now apply rank_in_lt.
    + destruct (N.lt_ge_cases x y) as [|Hge]; [assumption|].
      pose proof (rank_in_le D y x Hge). lia.
    + now subst.
    + destruct (N.lt_trichotomy x y) as [Hlt|[Heq|Hgt]]; [|assumption|].
      * pose proof (rank_in_lt D x y Hlt Hx). lia.
      * pose proof (rank_in_lt D y x Hgt Hy). lia.
  - intros a Ha. destruct (nthN_lt_some D a Ha) as (x & Ex).
    assert (Hx : In x input) by (apply HDin; eapply nthN_In_u; eassumption).
    destruct (In_nthN_u input x Hx) as (i & Ei). exists i.
    rewrite (Hout _ _ Ei). f_equal.
    pose proof (index_of_nth D 0 a x HDnd Ex) as E1. rewrite (Hidx x Hx) in E1.
    injection E1 as E1. lia.
Qed.

Theorem text_remap_order_irrelevant : forall u1 u2 input, NoDup u1 -> NoDup u2 ->
  (forall x, In x u1 <-> In x input) -> (forall x, In x u2 <-> In x input) ->
  text_remap u1 input = text_remap u2 input.
Proof.
  intros u1 u2 input H1 H2 I1 I2. rewrite !text_remap_go.
  rewrite (sort_asc_canon u1 input H1 I1), (sort_asc_canon u2 input H2 I2). reflexivity.
Qed.

(* ================================================================== (3) select_in_word *)
Lemma select_from_sound l c : forall k pos p, select_from l c k pos = Some p ->
  pos <= p /\ nthN l (p - pos) = Some c /\ countN c (firstnN (p - pos) l) = k /\ k < countN c l.
Proof.
  induction l as [|x l IH]; intros k pos p H; cbn [select_from] in H; [discriminate|].
  cbn [countN]. destruct (N.eqb_spec x c) as [->|Hx].
  - destruct (N.eqb_spec k 0) as [->|Hk].
    + injection H as <-. rewrite N.sub_diag, nthN_0, firstnN_0_u. cbn [countN]. repeat split; lia.
    + apply IH in H as (H1 & H2 & H3 & H4).
      replace (p - pos) with (p - (pos + 1) + 1) by lia.
      rewrite nthN_succ, firstnN_succ_u. cbn [countN]. rewrite N.eqb_refl.
      repeat split; try lia; assumption.
  - apply IH in H as (H1 & H2 & H3 & H4).
    replace (p - pos) with (p - (pos + 1) + 1) by lia.
    rewrite nthN_succ, firstnN_succ_u. cbn [countN].
    rewrite (proj2 (N.eqb_neq x c) Hx).
    repeat split; try lia; assumption.
Qed.

Lemma select_spec_sound l c k p : select_spec l c k = Some p ->
  nthN l p = Some c /\ countN c (firstnN p l) = k /\ k < countN c l.
Proof.
  unfold select_spec. intros H. apply select_from_sound in H. rewrite N.sub_0_r in H. tauto.
Qed.

Lemma bits_of_nth n w p : p < N.of_nat n -> nthN (bits_of n w) p = Some (N.b2n (N.testbit w p)).
Proof.
  intros H. unfold bits_of. rewrite nthN_map, nthN_seqN_u by assumption. reflexivity.
Qed.

Lemma bits_of_firstnN n w p : p <= N.of_nat n ->
  firstnN p (bits_of n w) = bits_of (N.to_nat p) (w mod 2 ^ p).
Proof.
  intros Hp. replace n with (N.to_nat p + (n - N.to_nat p))%nat by lia.
  rewrite bits_of_app, N2Nat.id. apply firstnN_app_exact_u.
  rewrite bits_of_len. lia.
Qed.

(* position of the (k+1)-th set bit: the bit is set and exactly k set bits lie below it;
   64 when there is none *)
Theorem select_in_word_property : forall w k, w < 2 ^ 64 -> k < 64 ->
  exists p, select_in_word w k = Val p /\
    (k < popcount w -> p < 64 /\ N.testbit w p = true /\ popcount (w mod 2 ^ p) = k) /\
    (popcount w <= k -> p = 64).
Proof.
  intros w k Hw Hk. rewrite select_in_word_correct by (assumption || lia).
  rewrite (popcount_correct 64 w Hw).
  destruct (select_spec (bits_of 64 w) 1 k) as [p|] eqn:E.
  - exists p. split; [reflexivity|].
    pose proof (select_spec_bounds _ _ _ _ E) as Hb. rewrite bits_of_len in Hb.
    change (N.of_nat 64) with 64 in Hb.
    apply select_spec_sound in E as (E1 & E2 & E3). split; [|intros; lia].
    intros _. split; [assumption|]. split.
    + rewrite bits_of_nth in E1 by (change (N.of_nat 64) with 64; lia).
      injection E1 as E1. destruct (N.testbit w p); [reflexivity|discriminate].
    + rewrite bits_of_firstnN in E2 by (change (N.of_nat 64) with 64; lia).
      rewrite (popcount_correct (N.to_nat p)); [exact E2|].
      rewrite N2Nat.id. apply N.mod_lt, pow2_nz.
  - exists 64. split; [reflexivity|]. split; [|reflexivity].
    intros Hlt. destruct (select_spec_some _ _ _ Hlt) as (p & Ep). congruence.
Qed.

Print Assumptions group_by_perm.
Print Assumptions group_by_grouped.
Print Assumptions group_by_stable.
Print Assumptions partition4_contract.
Print Assumptions partition2_contract.
Print Assumptions text_remap_correct.
Print Assumptions text_remap_order_irrelevant.
Print Assumptions select_in_word_property.
