(* Huffman-shaped quad wavelet tree, part 3: the code read back by get is the table content,
   decode_tables / table_lookup invert it, and "same code" means "same symbol" when distinct
   occurring symbols have distinct table entries. *)
From Coq Require Import ZArith Lia ZifyBool ZifyN ZifyNat.
From QwtModel Require Import ListX Seq Consts QVec RSQ QWT Huff ListXP ConstsOk QVecP RSQList RSQWord RSQBuild RSQP.
From QwtModel Require Import WaveletMatrix HuffWM Codes HQWTBridge HQWTWalks.
Ltac Zify.zify_post_hook ::= Z.div_mod_to_equations.
Arguments N.add : simpl never.
Arguments N.sub : simpl never.
Arguments N.mul : simpl never.
Arguments N.eqb : simpl never.
Arguments N.ltb : simpl never.
Arguments N.leb : simpl never.
Arguments N.pred : simpl never.
Arguments N.of_nat : simpl never.
Arguments N.land : simpl never.
Arguments N.lor : simpl never.
Arguments N.shiftr : simpl never.
Arguments N.shiftl : simpl never.
Arguments N.div : simpl never.
Arguments N.modulo : simpl never.
Arguments N.pow : simpl never.

(* ---------------------------------------------------------------- generic *)
Lemma shiftr_le v k : N.shiftr v k <= v.
Proof.
  rewrite N.shiftr_div_pow2. assert (H : 2 ^ k <> 0) by (apply N.pow_nonzero; lia).
  apply N.div_le_upper_bound; [exact H|]. nia.
Qed.

Lemma acc_step_shift v k : v < 2 ^ 32 ->
  acc_step (N.shiftr v (k + 2)) (N.land (N.shiftr v k) 3) = N.shiftr v k.
Proof.
  intros Hv. rewrite <- N.shiftr_shiftr. pose proof (shiftr_le v k) as Hy.
  set (y := N.shiftr v k) in *. unfold acc_step.
  rewrite land3, N.shiftl_mul_pow2, N.shiftr_div_pow2.
  assert (E4 : 2 ^ 2 = 4) by reflexivity. assert (E32 : 2 ^ 32 = 4294967296) by reflexivity.
  rewrite N.mod_small by (rewrite E4, E32 in *; lia).
  rewrite lor_add by (rewrite E4; lia). rewrite E4. lia.
Qed.

Lemma countN_filter c l : countN c l = len (filter (fun x => x =? c) l).
Proof.
  induction l as [|x l IH]; cbn [countN filter]; [reflexivity|].
  destruct (x =? c); rewrite ?len_cons, IH; lia.
Qed.

Lemma countN_pos_In c l : 0 < countN c l <-> In c l.
Proof.
  induction l as [|x l IH]; cbn [countN In]; [lia|].
  destruct (N.eqb_spec x c) as [->|Hx]; split; intros H.
  - now left.
  - lia.
  - right. apply IH. lia.
  - destruct H as [H|H]; [congruence|]. apply IH in H. lia.
Qed.

Lemma select_from_pred_eq c l : forall k pos,
  select_from l c k pos = select_pred N (fun x => x =? c) l k pos.
Proof.
  induction l as [|x l IH]; intros k pos; cbn [select_from select_pred]; [reflexivity|].
  now rewrite !IH.
Qed.

Lemma number_levels_In {A} (l : list A) : forall k i c,
  In (i, c) (number_levels l k) <-> k <= i /\ nthN l (i - k) = Some c.
Proof.
  induction l as [|x l IH]; intros k i c; cbn [number_levels In nthN].
  - split; [contradiction|intros [_ H]; discriminate].
  - split; intros H.
    + destruct H as [E|H].
      * injection E as <- <-. split; [lia|]. rewrite N.sub_diag. reflexivity.
      * apply IH in H as [H1 H2]. split; [lia|]. destruct (N.eqb_spec (i - k) 0); [lia|].
        replace (N.pred (i - k)) with (i - (k + 1)) by lia. exact H2.
    + destruct H as [H1 H2]. destruct (N.eqb_spec (i - k) 0) as [E|E].
      * left. injection H2 as <-. f_equal. lia.
      * right. apply IH. split; [lia|]. replace (i - (k + 1)) with (N.pred (i - k)) by lia. exact H2.
Qed.

Lemma insert_sorted_In x y l : In y (insert_sorted x l) <-> y = x \/ In y l.
Proof.
  induction l as [|z l IH]; cbn [insert_sorted In].
  - split; intros [H|H]; auto.
  - destruct (fst x <? fst z); cbn [In]; [split; intros [H|H]; auto|].
    rewrite IH. tauto.
Qed.

Lemma sort_by_key_In y l : In y (sort_by_key l) <-> In y l.
Proof.
  unfold sort_by_key.
  assert (G : forall acc, In y (fold_left (fun acc x => insert_sorted x acc) l acc) <-> In y l \/ In y acc).
  { induction l as [|x l IH]; intros acc; cbn [fold_left In]; [tauto|].
    rewrite IH, insert_sorted_In. split; intros H; intuition auto. }
  rewrite G. cbn [In]. tauto.
Qed.

Lemma nthN_seqN : forall n start i, i < N.of_nat n -> nthN (seqN start n) i = Some (start + i).
Proof.
  induction n as [|n IH]; intros start i H; [lia|]. cbn [seqN nthN].
  destruct (N.eqb_spec i 0) as [->|Hi]; [f_equal; lia|].
  rewrite IH by lia. f_equal. lia.
Qed.

Lemma pre_digits {A} (dg : nat -> A -> N) n c x : pre A dg n c x = true ->
  digits_of A dg 0 n x = digits_of A dg 0 n c.
Proof.
  induction n as [|n IH]; [reflexivity|]. cbn [pre]. intros H. apply andb_prop in H as [H1 H2].
  rewrite !digits_of_snoc, (IH H1). cbn [Nat.add]. apply N.eqb_eq in H2. now rewrite H2.
Qed.

(* ---------------------------------------------------------------- the table *)
Section CodeSec.
Variable tab : list pcode.
Variable s : list N.
Hypothesis Htab : len tab < 2 ^ 64.
Hypothesis Hwf : forall x, In x s -> exists c, nthN tab x = Some c /\ code_wf 2 c = true.
Hypothesis Hocc : forall x c, nthN tab x = Some c -> pc_len c <> 0 -> In x s.
Hypothesis Hdist : forall x y c, In x s -> In y s -> nthN tab x = Some c -> nthN tab y = Some c -> x = y.
Set Default Proof Using "All".

Notation dig := (code_dig 2 tab).
Notation clen := (code_clen 2 tab).

Lemma clen_len x c : code_facts tab x c -> pc_len c = 2 * N.of_nat (clen x) /\ (0 < clen x)%nat.
Proof. intros [H1 H2 H3 H4 H5]. rewrite (clen_eq tab x c H1). lia. Qed.

(* what get accumulates after reading n fragments *)
Lemma acc_fold_content x c : code_facts tab x c -> forall n, (n <= clen x)%nat ->
  fold_left acc_step (digits_of N dig 0 n x) 0 = N.shiftr (pc_content c) (pc_len c - 2 * N.of_nat n).
Proof.
  intros HF. destruct (clen_len x c HF) as [HL _]. destruct HF as [H1 H2 H3 H4 H5].
  induction n as [|n IH]; intros Hn.
  - change (digits_of N dig 0 0 x) with (@nil N). cbn [fold_left]. change (N.of_nat 0) with 0.
    replace (pc_len c - 2 * 0) with (pc_len c) by lia.
    rewrite N.shiftr_div_pow2, N.div_small by exact H5. reflexivity.
  - rewrite digits_of_snoc, fold_left_app. cbn [fold_left Nat.add]. rewrite IH by lia.
    rewrite (dig_eq tab x c n H1).
    replace (pc_len c - 2 * N.of_nat n) with (pc_len c - 2 * (N.of_nat n + 1) + 2) by lia.
    replace (pc_len c - 2 * N.of_nat (S n)) with (pc_len c - 2 * (N.of_nat n + 1)) by lia.
    apply acc_step_shift.
    assert (2 ^ pc_len c <= 2 ^ 32) by (apply N.pow_le_mono_r; lia). lia.
Qed.

Lemma acc_fold_full x c : code_facts tab x c ->
  fold_left acc_step (digits_of N dig 0 (clen x) x) 0 = pc_content c.
Proof.
  intros HF. rewrite (acc_fold_content x c HF) by lia. destruct (clen_len x c HF) as [HL _].
  replace (pc_len c - 2 * N.of_nat (clen x)) with 0 by lia. apply N.shiftr_0_r.
Qed.

Lemma code_unique x y c : In x s -> In y s -> code_facts tab x c -> code_facts tab y c -> x = y.
Proof.
  intros Hx Hy [H1 _ _ _ _] [H1' _ _ _ _].
  rewrite (sym_index_in tab s Htab Hwf x Hx) in H1. rewrite (sym_index_in tab s Htab Hwf y Hy) in H1'.
  exact (Hdist x y c Hx Hy H1 H1').
Qed.

Lemma same_code_eq c x : In c s -> In x s -> same_code N dig clen c x = (x =? c).
Proof.
  intros Hc Hx. destruct (N.eqb_spec x c) as [->|Hne].
  - unfold same_code. now rewrite pre_refl, Nat.eqb_refl.
  - destruct (same_code N dig clen c x) eqn:E; [exfalso|reflexivity]. apply Hne.
    unfold same_code in E. apply andb_prop in E as [E1 E2]. apply Nat.eqb_eq in E2.
    destruct (in_seq_code tab s Htab Hwf c Hc) as (cc & Fc).
    destruct (in_seq_code tab s Htab Hwf x Hx) as (cx & Fx).
    pose proof (acc_fold_full c cc Fc) as Ac. pose proof (acc_fold_full x cx Fx) as Ax.
    rewrite E2, (pre_digits dig _ c x E1), Ac in Ax.
    destruct (clen_len c cc Fc) as [Lc _]. destruct (clen_len x cx Fx) as [Lx _]. rewrite E2 in Lx.
    assert (Ecode : cx = cc).
    { destruct cx as [a1 b1], cc as [a2 b2]. cbn [pc_content pc_len] in *. subst. f_equal; lia. }
    subst cx. exact (code_unique x c cc Hx Hc Fx Fc).
Qed.

Lemma filter_same_code c l : In c s -> (forall x, In x l -> In x s) ->
  len (filter (same_code N dig clen c) l) = countN c l.
Proof.
  intros Hc Hl. rewrite countN_filter. f_equal. apply filter_ext_in.
  intros x Hx. apply same_code_eq; [exact Hc|exact (Hl x Hx)].
Qed.

(* ---------- decode ---------- *)
Lemma decode_entry ln p :
  In p (sort_by_key
          (map (fun '(i, c) => (pc_content c, i))
               (filter (fun '(i, c) => negb (pc_len c =? 0) && (pc_len c =? ln)) (number_levels tab 0)))) <->
  exists i c, p = (pc_content c, i) /\ nthN tab i = Some c /\ pc_len c <> 0 /\ pc_len c = ln.
Proof.
  rewrite sort_by_key_In, in_map_iff. split.
  - intros ([i c] & <- & H). apply filter_In in H as [H1 H2]. apply number_levels_In in H1 as [_ H1].
    rewrite N.sub_0_r in H1. apply andb_prop in H2 as [H2 H3].
    exists i, c. repeat split; [exact H1|lia|lia].
  - intros (i & c & -> & H1 & H2 & H3). exists (i, c). split; [reflexivity|].
    apply filter_In. split.
    + apply number_levels_In. rewrite N.sub_0_r. split; [lia|exact H1].
    + destruct (N.eqb_spec (pc_len c) 0); [contradiction|]. destruct (N.eqb_spec (pc_len c) ln); [reflexivity|contradiction].
Qed.

Lemma decode_ok x c mx : In x s -> code_facts tab x c -> pc_len c <= mx ->
  exists T, nthN (decode_tables tab mx) (pc_len c) = Some T /\ table_lookup T (pc_content c) = Val x.
Proof.
  intros Hx HF Hle. unfold decode_tables. rewrite nthN_map, nthN_seqN by lia. cbn [option_map].
  eexists. split; [reflexivity|]. unfold table_lookup.
  replace (0 + pc_len c) with (pc_len c) by lia.
  pose proof HF as [H1 H2 H3 H4 H5].
  destruct (find _ _) as [p|] eqn:Ef.
  - apply find_some in Ef as [Hin Hk]. apply decode_entry in Hin as (i & c' & -> & G1 & G2 & G3).
    cbn [fst snd] in *. apply N.eqb_eq in Hk.
    assert (Ecode : c' = c).
    { destruct c' as [a1 b1], c as [a2 b2]. cbn [pc_content pc_len] in *. now subst. }
    subst c'. f_equal.
    pose proof (Hocc i c G1 G2) as Hi.
    rewrite (sym_index_in tab s Htab Hwf x Hx) in H1. exact (Hdist i x c Hi Hx G1 H1).
  - exfalso. pose proof (find_none _ _ Ef (pc_content c, x)) as Hf. cbn [fst] in Hf.
    rewrite N.eqb_refl in Hf. discriminate Hf.
    apply decode_entry. exists x, c. repeat split; [|lia].
    rewrite <- (sym_index_in tab s Htab Hwf x Hx). exact H1.
Qed.

End CodeSec.
