(* C03 helper: the binary wavelet tree, part 2: every walk of the model (wt_rank_walk, wt_get_walk,
   wt_select_down / wt_select_up of Model/Huff.v) computes, inside the outcome monad, the generic
   wavelet-matrix walk of Theory/WaveletMatrix.v over the 0/1 digit lists [Ds l] stored at the
   levels; no Fault occurs under the bounds the theory provides.  Both flavours (plain and
   compressed) share these lemmas: the flavour only decides how the bit of the queried symbol at a
   level is obtained ([BIT]). *)
From Coq Require Import ZArith Lia ZifyBool ZifyN ZifyNat.
From QwtModel Require Import ListX Seq QWT RSBin Huff ListXP QVecP RSQList RSQWord RSBinL.
From QwtModel Require Import WaveletMatrix HuffWM QWTArith HQWTWalks BinWTBase.
Ltac Zify.zify_post_hook ::= Z.div_mod_to_equations.
Arguments N.add : simpl never.
Arguments N.sub : simpl never.
Arguments N.mul : simpl never.
Arguments N.eqb : simpl never.
Arguments N.ltb : simpl never.
Arguments N.leb : simpl never.
Arguments N.pred : simpl never.
Arguments N.of_nat : simpl never.
Arguments N.land : simpl never.
Arguments N.lor : simpl never.
Arguments N.shiftr : simpl never.
Arguments N.shiftl : simpl never.
Arguments N.div : simpl never.
Arguments N.modulo : simpl never.
Arguments N.pow : simpl never.
Arguments N.sqrt : simpl never.
Arguments N.log2 : simpl never.
Arguments N.max : simpl never.

(* the position mapping once rank1 is known *)
Lemma lv_map r D d i : lvl_spec r D -> d < 2 -> i <= len D ->
  (if d =? 1 then Val (lrank D 1 i + rsw_n_zeros_q r) else osub i (lrank D 1 i)) =
  Val (loccs_smaller D d + lrank D d i).
Proof.
  intros H Hd Hi. destruct (N.eqb_spec d 1) as [->|Hn].
  - rewrite (lv_nz r D H). f_equal. lia.
  - replace d with 0 by lia. destruct (bin_map_0 D i (lv_bin r D H) Hi) as [H1 H2].
    unfold osub. destruct (N.leb_spec (lrank D 1 i) i); [|lia]. now rewrite H2.
Qed.

Definition acc1 (r d : N) : N := N.lor (N.shiftl r 1 mod 2 ^ 32) d.

Lemma sb_digit d : d < 2 -> (if d =? 1 then 1 else 0) = d.
Proof. intros H. destruct (N.eqb_spec d 1); lia. Qed.

Lemma Forall_Forall2_seq {A} (P : A -> Prop) (Q : A -> nat -> Prop) l : forall l0,
  Forall P l -> (forall x j, P x -> Q x j) -> Forall2 Q l (seq l0 (length l)).
Proof.
  induction l as [|x l IH]; intros l0 HF HPQ; cbn [length seq]; [constructor|].
  inversion HF; subst. constructor; [now apply HPQ|now apply IH].
Qed.

Section Walks.
Variables (w : N) (bvs : list rswide) (Ds : nat -> list N) (M : nat).
Hypothesis LOK : forall l, (l < M)%nat -> exists r, nthN bvs (N.of_nat l) = Some r /\ lvl_spec r (Ds l).

Notation LVs l n := (map Ds (seq l n)).

(* ------------------------------------------------------------ get, compressed *)
Section GetC.
Variable lens : list N.
Hypothesis LENS : forall l, (l < M)%nat -> nthN lens (N.of_nat l) = Some (len (Ds l)).

Lemma wt_get_walk_true t : w_bvs t = bvs -> w_lens t = lens ->
  forall n l cur res rt sh, (l + n <= M)%nat ->
  wt_get_walk true t cur res rt sh (N.of_nat l) w n =
  Val (fold_left acc1 (get_walk (LVs l n) cur) res, rt, sh + len (get_walk (LVs l n) cur)).
Proof.
  intros Eq El. induction n as [|n IH]; intros l cur res rt sh HM.
  - cbn [wt_get_walk seq map get_walk fold_left]. lens. do 2 f_equal. lia.
  - cbn [wt_get_walk seq map get_walk]. rewrite El, Eq. unfold idx at 1.
    rewrite (LENS l) by lia. cbn [bind].
    destruct (LOK l ltac:(lia)) as (r & Er & Hr).
    destruct (N.leb_spec (len (Ds l)) cur) as [Hle|Hlt].
    + rewrite nthN_none by exact Hle. cbn [fold_left]. lens. do 2 f_equal. lia.
    + destruct (nthN_lt_some (Ds l) cur Hlt) as (d & Ed).
      rewrite Ed. unfold idx at 1. rewrite Er. cbn [bind].
      rewrite (lv_get r _ Hr _ _ Ed). cbn [bind].
      pose proof (bin_nth _ _ _ (lv_bin r _ Hr) Ed) as Hd.
      rewrite (lv_rank1_u r _ Hr cur) by lia. cbn [bind].
      rewrite (lv_map r _ d cur Hr Hd) by lia. cbn [bind].
      replace (N.of_nat l + 1) with (N.of_nat (S l)) by lia.
      rewrite IH by lia. cbn [fold_left]. rewrite len_cons, (sb_digit d Hd). fold (acc1 res d).
      do 2 f_equal. lia.
Qed.
End GetC.

(* ------------------------------------------------------------ get, plain *)
Lemma wt_get_walk_false t : w_bvs t = bvs ->
  forall n l cur res rt sh, (l + n <= M)%nat -> length (get_walk (LVs l n) cur) = n ->
  wt_get_walk false t cur res rt sh (N.of_nat l) w n =
  Val (res, fold_left (accw w) (get_walk (LVs l n) cur) rt, sh + N.of_nat n).
Proof.
  intros Eq. induction n as [|n IH]; intros l cur res rt sh HM HL.
  - cbn [wt_get_walk seq map get_walk fold_left]. do 2 f_equal. lia.
  - cbn [seq map get_walk] in HL |- *. cbn [wt_get_walk bind]. rewrite Eq.
    destruct (LOK l ltac:(lia)) as (r & Er & Hr).
    destruct (nthN (Ds l) cur) as [d|] eqn:Ed; [|discriminate HL].
    cbn [length] in HL. injection HL as HL.
    pose proof (nthN_some_lt _ _ _ Ed) as Hlt.
    unfold idx at 1. rewrite Er. cbn [bind].
    rewrite (lv_get r _ Hr _ _ Ed). cbn [bind].
    pose proof (bin_nth _ _ _ (lv_bin r _ Hr) Ed) as Hd.
    rewrite (lv_rank1_u r _ Hr cur) by lia. cbn [bind].
    rewrite (lv_map r _ d cur Hr Hd) by lia. cbn [bind].
    replace (N.of_nat l + 1) with (N.of_nat (S l)) by lia.
    rewrite IH by (try lia; exact HL). cbn [fold_left]. rewrite (sb_digit d Hd). fold (accw w rt d).
    do 2 f_equal. lia.
Qed.

(* ------------------------------------------------------------ rank and select *)
Section Sym.
Variables (compressed : bool) (symbol repr symbol_len : N) (dg : nat -> N) (K : nat).
Hypothesis HK : (K <= M)%nat.
Hypothesis BIT : forall l, (l < K)%nat ->
  wt_bit_at w compressed symbol repr symbol_len (N.of_nat l) = Val (dg l =? 1) /\ dg l < 2.

Notation DGs l n := (map dg (seq l n)).

Lemma wt_rank_walk_ok : forall n l p i, (l + n <= K)%nat ->
  (forall m, (m < n)%nat -> fst (rank_walk (LVs l m) (DGs l m) p i) <= len (Ds (l + m)%nat) /\
                            snd (rank_walk (LVs l m) (DGs l m) p i) <= len (Ds (l + m)%nat)) ->
  wt_rank_walk w compressed bvs symbol repr symbol_len p i (N.of_nat l) n =
  Val (rank_walk (LVs l n) (DGs l n) p i).
Proof.
  induction n as [|n IH]; intros l p i HM HB; [reflexivity|].
  cbn [wt_rank_walk]. destruct (BIT l ltac:(lia)) as [Hb Hd]. rewrite Hb. cbn [bind].
  destruct (LOK l ltac:(lia)) as (r & Er & Hr). unfold idx at 1. rewrite Er. cbn [bind].
  pose proof (HB 0%nat ltac:(lia)) as B0. cbn [seq map rank_walk fst snd] in B0.
  rewrite Nat.add_0_r in B0.
  rewrite !(lv_rank1_u r _ Hr) by lia. cbn [bind].
  rewrite !(lv_map r _ (dg l) _ Hr Hd) by lia. cbn [bind].
  replace (N.of_nat l + 1) with (N.of_nat (S l)) by lia.
  cbn [seq map rank_walk].
  apply IH; [lia|]. intros m Hm. specialize (HB (S m) ltac:(lia)).
  cbn [seq map rank_walk] in HB. rewrite Nat.add_succ_r in HB. exact HB.
Qed.

Lemma wt_select_down_ok : forall n l b, (l + n <= K)%nat ->
  Forall2 (fun '(b, rb) l => b <= len (Ds l) /\ rb <= b)
          (select_down (LVs l n) (DGs l n) b) (seq l n) ->
  wt_select_down w compressed bvs symbol repr symbol_len b (N.of_nat l) n =
  Val (Some (select_down (LVs l n) (DGs l n) b)).
Proof.
  induction n as [|n IH]; intros l b HM HB; [reflexivity|].
  cbn [seq map select_down] in HB |- *.
  inversion HB as [|? ? ? ? HB0 HB']; subst. cbv beta iota in HB0. destruct HB0 as [B1 B2].
  cbn [wt_select_down]. destruct (BIT l ltac:(lia)) as [Hb Hd]. rewrite Hb. cbn [bind].
  destruct (LOK l ltac:(lia)) as (r & Er & Hr). unfold idx at 1. rewrite Er. cbn [bind].
  rewrite (lv_rank r _ Hr (dg l) b Hd).
  destruct (N.leb_spec b (len (Ds l))); [|lia]. cbn [bind].
  rewrite (lv_offset r _ Hr (dg l) Hd).
  replace (N.of_nat l + 1) with (N.of_nat (S l)) by lia.
  rewrite (IH (S l)) by (try lia; exact HB'). cbn [bind]. reflexivity.
Qed.

Lemma wt_select_up_app : forall P1 P2 res,
  wt_select_up w compressed bvs symbol repr symbol_len res (P1 ++ P2) =
  bind (wt_select_up w compressed bvs symbol repr symbol_len res P1)
       (fun r => match r with
                 | None => Val None
                 | Some r' => wt_select_up w compressed bvs symbol repr symbol_len r' P2
                 end).
Proof.
  induction P1 as [|[[lv b] rb] P1 IH]; intros P2 res.
  - cbn [app wt_select_up bind]. reflexivity.
  - cbn [app wt_select_up].
    destruct (wt_bit_at w compressed symbol repr symbol_len lv) as [bit|f]; cbn [bind]; [|reflexivity].
    destruct (idx bvs lv) as [bv|f]; cbn [bind]; [|reflexivity].
    destruct (2 ^ 64 <=? rb + res); [reflexivity|].
    destruct (if bit then rsw_select1 bv (rb + res) else rsw_select0 bv (rb + res)) as [[p|]|f];
      cbn [bind]; try reflexivity.
    destruct (osub p b) as [r'|f]; cbn [bind]; [|reflexivity].
    apply IH.
Qed.

Lemma wt_select_up_ok : forall n l b k, (l + n <= K)%nat ->
  Forall2 (fun '(b, rb) l => b <= len (Ds l) /\ rb <= b)
          (select_down (LVs l n) (DGs l n) b) (seq l n) ->
  wt_select_up w compressed bvs symbol repr symbol_len k
    (rev (numb (N.of_nat l) (select_down (LVs l n) (DGs l n) b))) =
  Val (select_up (rev (combine (combine (LVs l n) (DGs l n)) (select_down (LVs l n) (DGs l n) b))) k).
Proof.
  induction n as [|n IH]; intros l b k Hl HB; [reflexivity|].
  cbn [seq map select_down combine] in HB |- *.
  inversion HB as [|? ? ? ? HB0 HB']; subst. cbv beta iota in HB0. destruct HB0 as [B1 B2].
  rewrite numb_cons. cbn [rev]. rewrite wt_select_up_app, select_up_app.
  replace (N.of_nat l + 1) with (N.of_nat (S l)) by lia.
  rewrite (IH (S l)) by (try lia; exact HB'). cbn [bind].
  destruct (select_up _ k) as [j|]; [|reflexivity].
  cbn [wt_select_up select_up].
  destruct (BIT l ltac:(lia)) as [Hb Hd]. rewrite Hb. cbn [bind].
  destruct (LOK l ltac:(lia)) as (r & Er & Hr). unfold idx at 1. rewrite Er. cbn [bind].
  pose proof (lv_small r _ Hr) as HQ.
  destruct (N.leb_spec (2 ^ 64) (lrank (Ds l) (dg l) b + j)) as [Hbig|Hsmall].
  - rewrite select_spec_none; [reflexivity|].
    pose proof (countN_le_len (dg l) (Ds l)) as H. lia.
  - rewrite (lv_select r _ Hr (dg l) _ Hd Hsmall). cbn [bind].
    destruct (select_spec _ _ _) as [p|] eqn:Ep; [|reflexivity].
    apply HQWTWalks.select_spec_ge in Ep; [|exact B1].
    unfold osub. destruct (N.leb_spec b p); [|lia]. destruct (N.ltb_spec p b); [lia|].
    cbn [bind wt_select_up]. reflexivity.
Qed.

(* select = down, then up over the numbered reversed path *)
Lemma wt_select_walks_ok k :
  Forall2 (fun '(b, rb) l => b <= len (Ds l) /\ rb <= b)
          (select_down (LVs 0 K) (DGs 0 K) 0) (seq 0 K) ->
  (let! down := wt_select_down w compressed bvs symbol repr symbol_len 0 0 K in
   match down with
   | None => Val None
   | Some path =>
       let numbered := map (fun '(lv, (b, rb)) => (lv, b, rb)) (number_levels path 0) in
       wt_select_up w compressed bvs symbol repr symbol_len k (rev numbered)
   end) = Val (wm_select (LVs 0 K) (DGs 0 K) k).
Proof.
  intros HB. pose proof (wt_select_down_ok K 0%nat 0 ltac:(lia) HB) as D.
  change (N.of_nat 0) with 0 in D. rewrite D. cbn [bind].
  pose proof (wt_select_up_ok K 0%nat 0 k ltac:(lia) HB) as U.
  change (N.of_nat 0) with 0 in U. unfold numb in U. rewrite U. reflexivity.
Qed.

End Sym.
End Walks.
