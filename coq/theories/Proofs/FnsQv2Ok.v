(* T5 (QVector::get_unchecked / get, src/qvector/mod.rs): the functions REGENERATED from the source
   (Gen/FnsQv2.v) work on the WORD view of the data lines (each DataLine = four u128 words, two bit
   planes); the hand model (Model/QVec.v) on the LIST view (a line = its 256 two-bit symbols).
   For every quad vector whose lines are well formed ([line_ok]: 256 symbols, each < 4) the generated
   functions applied to the packed lines ([map pack_qline]) are EQUAL to the hand model, for every
   argument (faults included: same debug assertion, same unchecked line access). *)
From Coq Require Import ZArith Lia ZifyBool ZifyN.
From QwtModel Require Import ListX Consts SelTable Words QVec ListXP ConstsOk WordsP BitsLib LeafP.
From QwtModel Require Import LeavesLine LeavesLineOk LeavesQV LeavesQVOk FnsQv2 LeavesLib.
Open Scope N_scope.

(* the word view of a whole quad vector: every line packed into its four u128 words *)
Definition pack_qdata (d : list (list N)) : list (list N) := map pack_qline d.
(* well-formedness of the list view: every line has 256 symbols, each below 4 *)
Definition qv_lines_ok (q : qvec) : Prop := Forall line_ok (qv_data q).

Lemma land255_lt i : N.land i 255 < 256.
Proof. change 255 with (N.ones 8). apply (land_ones_lt i 8). Qed.

Lemma nthN_pack_qdata d j : nthN (pack_qdata d) j = option_map pack_qline (nthN d j).
Proof. unfold pack_qdata. apply nthN_map. Qed.

Lemma lines_ok_nth d j l : Forall line_ok d -> nthN d j = Some l -> line_ok l.
Proof. intros H E. exact (Forall_nthN' _ _ _ _ H E). Qed.

(* QVector::get_unchecked *)
Theorem g_qv_get_unchecked_ok : forall q i, qv_lines_ok q ->
  g_qv_get_unchecked (pack_qdata (qv_data q)) (qv_position q) i = qv_get_unchecked q i.
Proof.
  intros q i Hq. unfold g_qv_get_unchecked, qv_get_unchecked. cbv zeta.
  rewrite LINE_SHIFT_val. unfold LINE_MASK.
  destruct (odebug_assert (i <? qv_position q / 2)); cbn [bind]; [|reflexivity].
  unfold uidx. rewrite nthN_pack_qdata.
  destruct (nthN (qv_data q) (N.shiftr i 8)) as [l|] eqn:El; cbn [option_map bind]; [|reflexivity].
  pose proof (lines_ok_nth _ _ _ Hq El) as Hl.
  pose proof (land255_lt i) as Hj.
  destruct (nthN_lt_some l (N.land i 255)) as (x & Ex); [destruct Hl as [-> _]; exact Hj|].
  rewrite g_qline_get_unchecked_ok by (change (2 ^ 64) with 18446744073709551616; lia).
  rewrite (qline_get_correct l _ x Hl Ex).
  unfold line_get_unchecked, uidx. now rewrite Ex.
Qed.

(* QVector::get *)
Theorem g_qv_get_ok : forall q i, qv_lines_ok q ->
  g_qv_get (pack_qdata (qv_data q)) (qv_position q) i = qv_get q i.
Proof.
  intros q i Hq. unfold g_qv_get, qv_get.
  destruct (N.shiftr (qv_position q) 1 <=? i); [reflexivity|].
  now rewrite g_qv_get_unchecked_ok.
Qed.

(* ------------------------------------------------------------------ constructed vectors *)
(* every quad vector the builder produces (invariant [qvb_inv] of Proofs/QVecP.v) for symbols < 4 is
   well formed *)
From QwtModel Require Import QVecP.

Lemma Forall_concat_inv {A} (P : A -> Prop) (ls : list (list A)) :
  Forall P (concat ls) -> Forall (Forall P) ls.
Proof.
  induction ls as [|l ls IH]; cbn [concat]; intros H; [constructor|].
  apply Forall_app in H. destruct H as [H1 H2]. constructor; [exact H1|now apply IH].
Qed.

Lemma qvb_inv_lines_ok q s : qvb_inv q s -> Forall (fun x => x < 4) s -> qv_lines_ok q.
Proof.
  intros (_ & Hall & _ & pad & Hcat) HF. unfold qv_lines_ok.
  assert (HC : Forall (Forall (fun x => x < 4)) (qv_data q)).
  { apply Forall_concat_inv. rewrite Hcat. apply Forall_app. split; [exact HF|].
    apply Forall_forall. intros x Hx. apply repeat_spec in Hx. subst x. reflexivity. }
  rewrite Forall_forall in *. intros l Hl. split; [now apply Hall|now apply HC].
Qed.

(* END TO END (QVector): for every list of integers, the quad vector the hand-modelled collect builds,
   read through the GENERATED get on its word view, yields the stored symbols (v mod 4) and None beyond *)
Theorem g_qv_get_from_iter : forall vs : list Z,
  exists q, qv_from_iter vs = Val q /\
    forall i, g_qv_get (pack_qdata (qv_data q)) (qv_position q) i = Val (nthN (stored vs) i).
Proof.
  intros vs. unfold qv_from_iter.
  destruct (qvb_extend_inv vs qvb_new [] qvb_inv_new) as (q & E & Hq). cbn [app] in Hq.
  destruct (qv_from_iter_correct vs) as (q' & E' & _ & _ & Hget & _).
  unfold qv_from_iter in E'. rewrite E in E'. injection E' as <-.
  exists q. split; [exact E|]. intros i. rewrite g_qv_get_ok; [apply Hget|].
  apply (qvb_inv_lines_ok q _ Hq).
  apply Forall_forall. intros x Hx. apply in_map_iff in Hx. destruct Hx as (v & <- & _).
  unfold sym4. lia.
Qed.

Print Assumptions g_qv_get_unchecked_ok.
Print Assumptions g_qv_get_ok.
Print Assumptions g_qv_get_from_iter.
