(* RSQVector::new regenerated (Gen/FnsRsq.v) = QVector::from_iter then From<QVector>, both regenerated and proved: the public
   constructor followed by the regenerated queries is the list specification. *)
From Coq Require Import ZArith Lia Permutation ZifyBool ZifyN ZifyNat.
From QwtModel Require Import ListX Loops Seq Consts Words SelTable QVec RSQ QWT QVecP RSQBuild QWTP.
From QwtModel Require Import FnsQv2 FnsQvb FnsRss FnsRsq FnsQv2Ok FnsQvbOk FnsRsqOk FnsRsqFromOk.
Open Scope N_scope.
(* ------------------------------------------------------------------ (B) RSQVector::new *)
Lemma RSQ_MAXN_lt63 : RSQ_MAXN < 2 ^ 63. Proof. reflexivity. Qed.

(* RSQVector::new(v) = Self::from(v.iter().copied().collect::<QVector>()): the collected quad vector is the one
   the builder pushes (each value truncated to u8, two bits kept) *)
Lemma g_rsq256_new_from wT vs q : len vs < RSQ_MAXN ->
  qvb_push_all qvb_new (map (fun v => v mod 256) vs) = Val q ->
  g_rsq256_new wT vs = g_rsq256_from (pack_qdata (qv_data q)) (qv_position q).
Proof.
  intros Hn Eq. unfold g_rsq256_new.
  rewrite g_qv_from_iter_ok by (pose proof RSQ_MAXN_lt63; lia).
  unfold qv_from_iter, qvb_build. rewrite qvb_extend_of_N, Eq. reflexivity.
Qed.
Lemma g_rsq512_new_from wT vs q : len vs < RSQ_MAXN ->
  qvb_push_all qvb_new (map (fun v => v mod 256) vs) = Val q ->
  g_rsq512_new wT vs = g_rsq512_from (pack_qdata (qv_data q)) (qv_position q).
Proof.
  intros Hn Eq. unfold g_rsq512_new.
  rewrite g_qv_from_iter_ok by (pose proof RSQ_MAXN_lt63; lia).
  unfold qv_from_iter, qvb_build. rewrite qvb_extend_of_N, Eq. reflexivity.
Qed.

(* the regenerated PUBLIC constructor followed by the regenerated queries is the list specification on the stored
   symbols map sym4 vs (sym4 v = v mod 4): no hand-model function in the statement *)
Theorem g_rsq256_new_correct : forall wT vs, len vs < RSQ_MAXN ->
  exists d p sbs samples occs,
    g_rsq256_new wT vs = Val (d, p, sbs, samples, occs) /\
    g_rsq256_len p = Val (len vs) /\ g_rsq256_is_empty p = Val (len vs =? 0) /\
    (forall i, g_rsq256_get d p i = Val (nthN (map sym4 vs) i)) /\
    (forall i x, nthN (map sym4 vs) i = Some x -> g_rsq256_get_unchecked d p i = Val x) /\
    (forall c i, g_rsq256_rank d p sbs c i
       = Val (if (c <=? 3) && (i <=? len vs) then Some (rank_spec (map sym4 vs) c i) else None)) /\
    (forall c k fuel, k < 2 ^ 64 -> (S (S (N.to_nat (len vs / (8 * 256)))) <= fuel)%nat ->
       g_rsq256_select fuel d sbs samples occs c k
       = Val (if c <=? 3 then select_spec (map sym4 vs) c k else None)) /\
    (forall c i, c <= 3 -> i <= len vs ->
       g_rsq256_rank_unchecked d sbs c i = Val (rank_spec (map sym4 vs) c i)) /\
    (forall c k pos fuel, c <= 3 -> select_spec (map sym4 vs) c k = Some pos ->
       (S (S (N.to_nat (len vs / (8 * 256)))) <= fuel)%nat ->
       g_rsq256_select_unchecked fuel d sbs samples occs c k = Val pos) /\
    (forall c i, c <= 3 -> i <= len vs ->
       exists v, g_rsq256_rank_block_unchecked sbs c i = Val v /\ v <= rank_spec (map sym4 vs) c i) /\
    (forall c, g_rsq256_occs occs c = Val (if c <=? 3 then Some (countN c (map sym4 vs)) else None)) /\
    (forall c, g_rsq256_occs_smaller occs c = Val (if c <=? 3 then Some (count_lt c (map sym4 vs)) else None)) /\
    (forall c, c <= 3 -> g_rsq256_occs_unchecked occs c = Val (countN c (map sym4 vs))) /\
    (forall c, c <= 3 -> g_rsq256_occs_smaller_unchecked occs c = Val (count_lt c (map sym4 vs))).
Proof.
  intros wT vs Hn.
  destruct (g_rsq256_regenerated vs Hn) as (q & d & p & sbs & samples & occs & Eq & Ef & Rest).
  exists d, p, sbs, samples, occs. split; [|exact Rest].
  rewrite (g_rsq256_new_from wT vs q Hn Eq). exact Ef.
Qed.

Theorem g_rsq512_new_correct : forall wT vs, len vs < RSQ_MAXN ->
  exists d p sbs samples occs,
    g_rsq512_new wT vs = Val (d, p, sbs, samples, occs) /\
    g_rsq512_len p = Val (len vs) /\ g_rsq512_is_empty p = Val (len vs =? 0) /\
    (forall i, g_rsq512_get d p i = Val (nthN (map sym4 vs) i)) /\
    (forall i x, nthN (map sym4 vs) i = Some x -> g_rsq512_get_unchecked d p i = Val x) /\
    (forall c i, g_rsq512_rank d p sbs c i
       = Val (if (c <=? 3) && (i <=? len vs) then Some (rank_spec (map sym4 vs) c i) else None)) /\
    (forall c k fuel, k < 2 ^ 64 -> (S (S (N.to_nat (len vs / (8 * 512)))) <= fuel)%nat ->
       g_rsq512_select fuel d sbs samples occs c k
       = Val (if c <=? 3 then select_spec (map sym4 vs) c k else None)) /\
    (forall c i, c <= 3 -> i <= len vs ->
       g_rsq512_rank_unchecked d sbs c i = Val (rank_spec (map sym4 vs) c i)) /\
    (forall c k pos fuel, c <= 3 -> select_spec (map sym4 vs) c k = Some pos ->
       (S (S (N.to_nat (len vs / (8 * 512)))) <= fuel)%nat ->
       g_rsq512_select_unchecked fuel d sbs samples occs c k = Val pos) /\
    (forall c i, c <= 3 -> i <= len vs ->
       exists v, g_rsq512_rank_block_unchecked sbs c i = Val v /\ v <= rank_spec (map sym4 vs) c i) /\
    (forall c, g_rsq512_occs occs c = Val (if c <=? 3 then Some (countN c (map sym4 vs)) else None)) /\
    (forall c, g_rsq512_occs_smaller occs c = Val (if c <=? 3 then Some (count_lt c (map sym4 vs)) else None)) /\
    (forall c, c <= 3 -> g_rsq512_occs_unchecked occs c = Val (countN c (map sym4 vs))) /\
    (forall c, c <= 3 -> g_rsq512_occs_smaller_unchecked occs c = Val (count_lt c (map sym4 vs))).
Proof.
  intros wT vs Hn.
  destruct (g_rsq512_regenerated vs Hn) as (q & d & p & sbs & samples & occs & Eq & Ef & Rest).
  exists d, p, sbs, samples, occs. split; [|exact Rest].
  rewrite (g_rsq512_new_from wT vs q Hn Eq). exact Ef.
Qed.

Print Assumptions g_rsq256_new_correct.
Print Assumptions g_rsq512_new_correct.
