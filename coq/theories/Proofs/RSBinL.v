(* Generic list lemmas for the rank/select directory proofs (RSBinP.v): rank_spec / select_spec
   theory, windows (firstnN / skipnN), concatenations of uniform chunks, 0/1 lists, the two
   scanning loops of the select code and the positional encoding of the packed counters. *)
From Coq Require Import ZArith Lia ZifyBool ZifyN ZifyNat.
From QwtModel Require Import ListX Seq RSBin ListXP.
Ltac Zify.zify_post_hook ::= Z.div_mod_to_equations.
Arguments N.add : simpl never.
Arguments N.sub : simpl never.
Arguments N.mul : simpl never.
Arguments N.eqb : simpl never.
Arguments N.ltb : simpl never.
Arguments N.leb : simpl never.
Arguments N.pred : simpl never.
Arguments N.of_nat : simpl never.
Arguments N.land : simpl never.
Arguments N.lor : simpl never.
Arguments N.lxor : simpl never.
Arguments N.shiftr : simpl never.
Arguments N.shiftl : simpl never.
Arguments N.div : simpl never.
Arguments N.modulo : simpl never.
Arguments N.pow : simpl never.
Arguments N.testbit : simpl never.

Ltac succ_of i j :=
  let H := fresh in
  assert (H : exists j', i = j' + 1) by (exists (i - 1); lia); destruct H as [j ->].

(* ------------------------------------------------------------------ rank_spec *)
Lemma rank_spec_0 s c : rank_spec s c 0 = 0.
Proof. destruct s; reflexivity. Qed.

Lemma rank_spec_nil c i : rank_spec [] c i = 0.
Proof. reflexivity. Qed.

Lemma rank_spec_cons x s c i :
  rank_spec (x :: s) c (i + 1) = (if x =? c then 1 else 0) + rank_spec s c i.
Proof.
  cbn [rank_spec]. destruct (N.eqb_spec (i + 1) 0); [lia|].
  replace (N.pred (i + 1)) with i by lia. reflexivity.
Qed.

Lemma rank_spec_all s c : forall i, len s <= i -> rank_spec s c i = countN c s.
Proof.
  induction s as [|x s IH]; intros i Hi; [reflexivity|].
  rewrite len_cons in Hi. succ_of i j. rewrite rank_spec_cons. cbn [countN]. rewrite IH by lia. reflexivity.
Qed.

Lemma rank_spec_app l1 l2 c : forall i, rank_spec (l1 ++ l2) c i =
  if i <=? len l1 then rank_spec l1 c i else countN c l1 + rank_spec l2 c (i - len l1).
Proof.
  induction l1 as [|x l1 IH]; intros i.
  - cbn [app]. rewrite len_nil. destruct (N.leb_spec i 0) as [H|H].
    + replace i with 0 by lia. now rewrite !rank_spec_0.
    + cbn [countN]. rewrite N.sub_0_r. lia.
  - cbn [app]. rewrite len_cons. destruct (N.eq_dec i 0) as [->|Hi].
    + rewrite !rank_spec_0. destruct (0 <=? len l1 + 1) eqn:E; [reflexivity|lia].
    + succ_of i j. rewrite !rank_spec_cons, IH. cbn [countN].
      destruct (N.leb_spec j (len l1)); destruct (N.leb_spec (j + 1) (len l1 + 1)); try lia.
      replace (j + 1 - (len l1 + 1)) with (j - len l1) by lia. lia.
Qed.

Lemma rank_spec_succ s c : forall i x, nthN s i = Some x ->
  rank_spec s c (i + 1) = rank_spec s c i + (if x =? c then 1 else 0).
Proof.
  induction s as [|y s IH]; intros i x H; [discriminate|].
  destruct (N.eq_dec i 0) as [->|Hi].
  - rewrite nthN_0 in H. injection H as ->. rewrite N.add_0_l.
    change 1 with (0 + 1) at 1. rewrite rank_spec_cons, !rank_spec_0. lia.
  - succ_of i j. rewrite nthN_succ in H. rewrite !rank_spec_cons, (IH j x H). lia.
Qed.

Lemma rank_spec_succ_none s c i : nthN s i = None -> rank_spec s c (i + 1) = rank_spec s c i.
Proof.
  intros H. assert (len s <= i).
  { destruct (N.le_gt_cases (len s) i) as [|Hlt]; [assumption|].
    destruct (nthN_lt_some s i Hlt) as (a & Ha). congruence. }
  rewrite !rank_spec_all by lia. reflexivity.
Qed.

Lemma rank_spec_step_le s c i : rank_spec s c (i + 1) <= rank_spec s c i + 1.
Proof.
  destruct (nthN s i) as [x|] eqn:E.
  - rewrite (rank_spec_succ s c i x E). destruct (x =? c); lia.
  - rewrite (rank_spec_succ_none s c i E). lia.
Qed.
Lemma rank_spec_step_ge s c i : rank_spec s c i <= rank_spec s c (i + 1).
Proof.
  destruct (nthN s i) as [x|] eqn:E.
  - rewrite (rank_spec_succ s c i x E). lia.
  - rewrite (rank_spec_succ_none s c i E). lia.
Qed.

Lemma rank_spec_add s c i d :
  rank_spec s c i <= rank_spec s c (i + d) /\ rank_spec s c (i + d) <= rank_spec s c i + d.
Proof.
  induction d as [|d IH] using N.peano_ind.
  - rewrite N.add_0_r. lia.
  - replace (i + N.succ d) with (i + d + 1) by lia.
    pose proof (rank_spec_step_le s c (i + d)). pose proof (rank_spec_step_ge s c (i + d)). lia.
Qed.

Lemma rank_spec_mono s c i j : i <= j -> rank_spec s c i <= rank_spec s c j.
Proof. intros H. replace j with (i + (j - i)) by lia. apply rank_spec_add. Qed.
Lemma rank_spec_lip s c i j : i <= j -> rank_spec s c j <= rank_spec s c i + (j - i).
Proof. intros H. replace j with (i + (j - i)) at 1 by lia. apply rank_spec_add. Qed.
Lemma rank_spec_le s c i : rank_spec s c i <= i.
Proof. pose proof (rank_spec_lip s c 0 i). rewrite rank_spec_0 in *. lia. Qed.
Lemma rank_spec_le_count s c i : rank_spec s c i <= countN c s.
Proof.
  rewrite <- (rank_spec_all s c (N.max i (len s))) by lia. apply rank_spec_mono. lia.
Qed.

(* ------------------------------------------------------------------ select_spec *)
Lemma select_from_sound s c : forall k pos q, select_from s c k pos = Some q ->
  pos <= q /\ nthN s (q - pos) = Some c /\ rank_spec s c (q - pos) = k.
Proof.
  induction s as [|x s IH]; intros k pos q H; [discriminate|].
  cbn [select_from] in H. destruct (N.eqb_spec x c) as [->|Hx].
  - destruct (N.eqb_spec k 0) as [->|Hk].
    + injection H as <-. rewrite N.sub_diag, nthN_0, rank_spec_0. repeat split. lia.
    + apply IH in H. destruct H as (H1 & H2 & H3).
      replace (q - pos) with (q - (pos + 1) + 1) by lia.
      rewrite nthN_succ, rank_spec_cons, H3, N.eqb_refl. split; [lia|split; [assumption|lia]].
  - apply IH in H. destruct H as (H1 & H2 & H3).
    replace (q - pos) with (q - (pos + 1) + 1) by lia.
    rewrite nthN_succ, rank_spec_cons, H3. destruct (N.eqb_spec x c); [congruence|].
    split; [lia|split; [assumption|lia]].
Qed.

Lemma select_from_complete s c : forall k pos p, nthN s p = Some c -> rank_spec s c p = k ->
  select_from s c k pos = Some (pos + p).
Proof.
  induction s as [|x s IH]; intros k pos p Hn Hr; [discriminate|].
  cbn [select_from]. destruct (N.eq_dec p 0) as [->|Hp].
  - rewrite nthN_0 in Hn. injection Hn as ->. rewrite rank_spec_0 in Hr. subst k.
    rewrite !N.eqb_refl. f_equal. lia.
  - succ_of p j. rewrite nthN_succ in Hn. rewrite rank_spec_cons in Hr.
    destruct (N.eqb_spec x c) as [->|Hx].
    + destruct (N.eqb_spec k 0) as [->|Hk]; [lia|].
      rewrite (IH (N.pred k) (pos + 1) j Hn) by lia. f_equal. lia.
    + rewrite (IH k (pos + 1) j Hn) by lia. f_equal. lia.
Qed.

Lemma select_spec_some_iff s c k p :
  select_spec s c k = Some p <-> nthN s p = Some c /\ rank_spec s c p = k.
Proof.
  unfold select_spec. split.
  - intros H. apply select_from_sound in H. rewrite N.sub_0_r in H. tauto.
  - intros [H1 H2]. rewrite (select_from_complete s c k 0 p H1 H2). f_equal.
Qed.

Lemma select_from_none_iff s c : forall k pos, select_from s c k pos = None <-> countN c s <= k.
Proof.
  induction s as [|x s IH]; intros k pos; cbn [select_from countN].
  - split; [lia|reflexivity].
  - destruct (N.eqb_spec x c) as [->|Hx].
    + destruct (N.eqb_spec k 0) as [->|Hk].
      * split; [discriminate|lia].
      * rewrite IH. lia.
    + rewrite IH. lia.
Qed.
Lemma select_spec_none_iff s c k : select_spec s c k = None <-> countN c s <= k.
Proof. apply select_from_none_iff. Qed.

Lemma select_spec_lt s c k : k < countN c s -> exists p, select_spec s c k = Some p.
Proof.
  intros H. destruct (select_spec s c k) as [p|] eqn:E; [eauto|].
  apply select_spec_none_iff in E. lia.
Qed.

Lemma select_spec_some_lt s c k p : select_spec s c k = Some p -> k < countN c s /\ p < len s.
Proof.
  intros H. split.
  - destruct (N.lt_ge_cases k (countN c s)) as [|Hge]; [assumption|].
    apply select_spec_none_iff in Hge. congruence.
  - apply select_spec_some_iff in H. destruct H as [H _]. eapply nthN_some_lt; eauto.
Qed.

Lemma select_from_shift s c : forall k pos,
  select_from s c k pos = option_map (N.add pos) (select_from s c k 0).
Proof.
  intros k pos. destruct (select_from s c k 0) as [p|] eqn:E.
  - apply select_from_sound in E. destruct E as (_ & H1 & H2). rewrite N.sub_0_r in *.
    cbn [option_map]. apply select_from_complete; assumption.
  - cbn [option_map]. apply select_from_none_iff. apply select_from_none_iff in E. exact E.
Qed.

Lemma select_from_app l1 l2 c : forall k pos, select_from (l1 ++ l2) c k pos =
  if k <? countN c l1 then select_from l1 c k pos
  else select_from l2 c (k - countN c l1) (pos + len l1).
Proof.
  induction l1 as [|x l1 IH]; intros k pos; cbn [app countN].
  - lens. rewrite N.add_0_r, N.sub_0_r. destruct (k <? 0) eqn:E; [lia|reflexivity].
  - cbn [select_from]. rewrite len_cons. destruct (N.eqb_spec x c) as [->|Hx].
    + destruct (N.eqb_spec k 0) as [->|Hk].
      * destruct (0 <? 1 + countN c l1) eqn:E; [reflexivity|lia].
      * rewrite IH. destruct (N.ltb_spec (N.pred k) (countN c l1)); destruct (N.ltb_spec k (1 + countN c l1)); try lia.
        -- reflexivity.
        -- f_equal; lia.
    + rewrite IH. destruct (N.ltb_spec k (countN c l1)); destruct (N.ltb_spec k (0 + countN c l1)); try lia.
      * reflexivity.
      * f_equal; lia.
Qed.

(* ------------------------------------------------------------------ windows *)
Lemma nthN_skipnN {A} (l : list A) : forall a q, nthN (skipnN a l) q = nthN l (a + q).
Proof.
  induction l as [|x l IH]; intros a q; cbn [skipnN]; [reflexivity|].
  destruct (N.eqb_spec a 0) as [->|Ha]; [now rewrite N.add_0_l|].
  rewrite IH. succ_of a b. replace (b + 1 + q) with (b + q + 1) by lia. rewrite nthN_succ.
  f_equal. lia.
Qed.

Lemma nthN_firstnN {A} (l : list A) : forall n q, nthN (firstnN n l) q = if q <? n then nthN l q else None.
Proof.
  induction l as [|x l IH]; intros n q; cbn [firstnN].
  - cbn [nthN]. now destruct (q <? n).
  - destruct (N.eqb_spec n 0) as [->|Hn].
    + cbn [nthN]. destruct (q <? 0) eqn:E; [lia|reflexivity].
    + destruct (N.eq_dec q 0) as [->|Hq].
      * rewrite !nthN_0. destruct (0 <? n) eqn:E; [reflexivity|lia].
      * succ_of q r. rewrite !nthN_succ, IH.
        destruct (N.ltb_spec r (N.pred n)); destruct (N.ltb_spec (r + 1) n); try lia; reflexivity.
Qed.

Lemma len_skipnN {A} (l : list A) a : len (skipnN a l) = len l - a.
Proof. rewrite skipnN_skipn. unfold len. rewrite skipn_length. lia. Qed.

Lemma firstnN_skipnN {A} (l : list A) a : firstnN a l ++ skipnN a l = l.
Proof. rewrite firstnN_firstn, skipnN_skipn. apply firstn_skipn. Qed.

Lemma skipnN_add {A} (l : list A) : forall a b, skipnN b (skipnN a l) = skipnN (a + b) l.
Proof.
  induction l as [|x l IH]; intros a b; [reflexivity|].
  cbn [skipnN]. destruct (N.eqb_spec a 0) as [->|Ha].
  - rewrite N.add_0_l. reflexivity.
  - destruct (N.eqb_spec (a + b) 0); [lia|]. rewrite IH. f_equal. lia.
Qed.

Lemma skipnN_nil {A} (l : list A) a : len l <= a -> skipnN a l = [].
Proof. intros H. rewrite skipnN_skipn. apply skipn_all2. unfold len in H. lia. Qed.

Lemma rank_spec_firstnN s c n i : rank_spec (firstnN n s) c i = rank_spec s c (N.min i n).
Proof.
  rewrite <- (firstnN_skipnN s n) at 2. rewrite rank_spec_app.
  rewrite firstnN_len.
  destruct (N.leb_spec (N.min i n) (N.min n (len s))) as [H|H].
  - destruct (N.le_gt_cases i n).
    + now replace (N.min i n) with i by lia.
    + rewrite !rank_spec_all; [reflexivity| |]; rewrite firstnN_len; lia.
  - rewrite (skipnN_nil s n) by lia. rewrite rank_spec_nil.
    rewrite rank_spec_all; [lia|]. rewrite firstnN_len. lia.
Qed.

Lemma rank_spec_skipnN s c a q : rank_spec (skipnN a s) c q = rank_spec s c (a + q) - rank_spec s c a.
Proof.
  destruct (N.le_gt_cases (len s) a) as [H|H].
  - rewrite (skipnN_nil s a H), rank_spec_nil. rewrite !rank_spec_all by lia. lia.
  - rewrite <- (firstnN_skipnN s a) at 2 3. rewrite !rank_spec_app, firstnN_len.
    replace (N.min a (len s)) with a by lia.
    destruct (N.leb_spec a a); [|lia].
    destruct (N.leb_spec (a + q) a) as [H1|H1].
    + replace q with 0 by lia. rewrite rank_spec_0, N.add_0_r. lia.
    + replace (a + q - a) with q by lia.
      rewrite (rank_spec_all (firstnN a s) c a) by (rewrite firstnN_len; lia). lia.
Qed.

(* the window [a, a + n) of a list *)
Definition window {A} (a n : N) (l : list A) : list A := firstnN n (skipnN a l).

Lemma nthN_window {A} (l : list A) a n q : q < n -> nthN (window a n l) q = nthN l (a + q).
Proof.
  intros H. unfold window. rewrite nthN_firstnN, nthN_skipnN.
  destruct (N.ltb_spec q n); [reflexivity|lia].
Qed.
Lemma rank_spec_window s c a n q : q <= n ->
  rank_spec (window a n s) c q = rank_spec s c (a + q) - rank_spec s c a.
Proof.
  intros H. unfold window. rewrite rank_spec_firstnN, rank_spec_skipnN.
  now replace (N.min q n) with q by lia.
Qed.
Lemma len_window {A} (l : list A) a n : a + n <= len l -> len (window a n l) = n.
Proof. intros H. unfold window. rewrite firstnN_len, len_skipnN. lia. Qed.

(* ------------------------------------------------------------------ uniform chunks *)
Lemma skipnN_concat_uniform {A} (k : N) (ls : list (list A)) :
  Forall (fun l => len l = k) ls -> forall a, skipnN (k * a) (concat ls) = concat (skipnN a ls).
Proof.
  induction 1 as [|l ls Hl HF IH]; intros a; [reflexivity|].
  cbn [concat skipnN]. destruct (N.eqb_spec a 0) as [->|Ha].
  - rewrite N.mul_0_r. cbn [concat]. destruct (l ++ concat ls); reflexivity.
  - succ_of a b. replace (N.pred (b + 1)) with b by lia. rewrite <- IH.
    rewrite !skipnN_skipn. replace (N.to_nat (k * (b + 1))) with (length l + N.to_nat (k * b))%nat
      by (unfold len in Hl; lia).
    rewrite skipn_app. rewrite (skipn_all2 l) by lia. cbn [app]. f_equal. lia.
Qed.

Lemma firstnN_concat_uniform {A} (k : N) (ls : list (list A)) :
  Forall (fun l => len l = k) ls -> forall n, firstnN (k * n) (concat ls) = concat (firstnN n ls).
Proof.
  induction 1 as [|l ls Hl HF IH]; intros n; [reflexivity|].
  cbn [concat firstnN]. destruct (N.eqb_spec n 0) as [->|Hn].
  - rewrite N.mul_0_r. cbn [concat]. destruct (l ++ concat ls); reflexivity.
  - succ_of n b. replace (N.pred (b + 1)) with b by lia. cbn [concat]. rewrite <- IH.
    rewrite !firstnN_firstn. replace (N.to_nat (k * (b + 1))) with (length l + N.to_nat (k * b))%nat
      by (unfold len in Hl; lia).
    rewrite firstn_app_2. reflexivity.
Qed.

Lemma Forall_firstnN {A} (P : A -> Prop) l : Forall P l -> forall n, Forall P (firstnN n l).
Proof.
  induction 1 as [|x l Hx Hl IH]; intros n; cbn [firstnN]; [constructor|].
  destruct (n =? 0); constructor; [assumption|apply IH].
Qed.
Lemma Forall_skipnN {A} (P : A -> Prop) l : Forall P l -> forall n, Forall P (skipnN n l).
Proof.
  induction 1 as [|x l Hx Hl IH]; intros n; cbn [skipnN]; [constructor|].
  destruct (n =? 0); [constructor; assumption|apply IH].
Qed.
Lemma Forall_nthN {A} (P : A -> Prop) l i x : Forall P l -> nthN l i = Some x -> P x.
Proof.
  intros H E. rewrite nthN_nth_error in E. apply nth_error_In in E. rewrite Forall_forall in H. auto.
Qed.

Lemma window_concat_uniform {A} (k : N) (ls : list (list A)) a n :
  Forall (fun l => len l = k) ls ->
  window (k * a) (k * n) (concat ls) = concat (window a n ls).
Proof.
  intros H. unfold window. rewrite (skipnN_concat_uniform k ls H).
  apply firstnN_concat_uniform. apply Forall_skipnN. exact H.
Qed.

Lemma window_one {A} (l : list A) g x : nthN l g = Some x -> window g 1 l = [x].
Proof.
  intros H. unfold window. rewrite <- (N.add_0_r g) in H. rewrite <- nthN_skipnN in H.
  destruct (skipnN g l) as [|y r]; [discriminate|]. rewrite nthN_0 in H. injection H as ->.
  cbn [firstnN]. destruct (1 =? 0) eqn:E; [lia|]. destruct r; reflexivity.
Qed.

(* ------------------------------------------------------------------ 0/1 lists *)
Definition bin (l : list N) : Prop := Forall (fun x => x < 2) l.

Lemma bin_app l1 l2 : bin l1 -> bin l2 -> bin (l1 ++ l2).
Proof. intros. apply Forall_app. split; assumption. Qed.
Lemma bin_concat ls : Forall bin ls -> bin (concat ls).
Proof. induction 1; cbn [concat]; [constructor|]. now apply bin_app. Qed.

Lemma count01 l : bin l -> countN 0 l + countN 1 l = len l.
Proof.
  induction 1 as [|x l Hx Hl IH]; [reflexivity|].
  cbn [countN]. rewrite len_cons. destruct (N.eqb_spec x 0); destruct (N.eqb_spec x 1); lia.
Qed.

Lemma rank_spec_count s c i : rank_spec s c i = countN c (firstnN i s).
Proof.
  rewrite <- (rank_spec_all (firstnN i s) c i) by (rewrite firstnN_len; lia).
  rewrite rank_spec_firstnN. f_equal. lia.
Qed.

Lemma rank01 l i : bin l -> rank_spec l 0 i + rank_spec l 1 i = N.min i (len l).
Proof.
  intros H. rewrite !rank_spec_count. rewrite count01 by (apply Forall_firstnN; exact H).
  apply firstnN_len.
Qed.

Lemma map_N_of_bool_bin l : bin l -> map N_of_bool (map (fun x => x =? 1) l) = l.
Proof.
  induction 1 as [|x l Hx Hl IH]; [reflexivity|].
  cbn [map]. rewrite IH. f_equal. unfold N_of_bool. destruct (N.eqb_spec x 1); lia.
Qed.

Lemma countb_countN (s : list bool) : countb s = countN 1 (map N_of_bool s).
Proof.
  induction s as [|x s IH]; [reflexivity|]. cbn [countb map countN]. rewrite IH. destruct x; reflexivity.
Qed.

Definition flip01 (x : N) : N := 1 - x.

Lemma select_from_flip l : bin l -> forall k pos,
  select_from (map flip01 l) 1 k pos = select_from l 0 k pos.
Proof.
  induction 1 as [|x l Hx Hl IH]; intros k pos; [reflexivity|].
  cbn [map select_from]. unfold flip01 at 1.
  destruct (N.eqb_spec (1 - x) 1); destruct (N.eqb_spec x 0); try lia; rewrite IH; reflexivity.
Qed.

Lemma countN_flip l : bin l -> countN 1 (map flip01 l) = countN 0 l.
Proof.
  induction 1 as [|x l Hx Hl IH]; [reflexivity|].
  cbn [map countN]. rewrite IH. unfold flip01.
  destruct (N.eqb_spec (1 - x) 1); destruct (N.eqb_spec x 0); lia.
Qed.

Lemma select_spec_flip l k : bin l -> select_spec (map flip01 l) 1 k = select_spec l 0 k.
Proof. intros H. apply select_from_flip. exact H. Qed.

Lemma select_spec_app l1 l2 c k : select_spec (l1 ++ l2) c k =
  if k <? countN c l1 then select_spec l1 c k
  else option_map (N.add (len l1)) (select_spec l2 c (k - countN c l1)).
Proof.
  unfold select_spec. rewrite select_from_app. destruct (k <? countN c l1); [reflexivity|].
  rewrite N.add_0_l. apply select_from_shift.
Qed.

(* ------------------------------------------------------------------ the two scans *)
Lemma scan_while_find (test : N -> outcome N) (f : N -> N) k T hend : forall fuel hs,
  hs <= T -> T <= hend ->
  (forall b, hs <= b -> b < T -> test b = Val (f b) /\ f b <= k) ->
  (T < hend -> test T = Val (f T) /\ k < f T) ->
  (N.to_nat (T - hs) < fuel)%nat ->
  scan_while test k hs hend fuel = Val T.
Proof.
  induction fuel as [|fuel IH]; intros hs H1 H2 Hlo Hhi Hf; [lia|].
  cbn [scan_while]. destruct (N.ltb_spec hs hend) as [Hlt|Hge].
  - destruct (N.eq_dec hs T) as [->|Hne].
    + destruct (Hhi Hlt) as [E Hk]. rewrite E. cbn [bind].
      destruct (N.ltb_spec k (f T)); [reflexivity|lia].
    + destruct (Hlo hs) as [E Hk]; [lia|lia|]. rewrite E. cbn [bind].
      destruct (N.ltb_spec k (f hs)); [lia|].
      apply IH; try lia; [|exact Hhi]. intros b Hb1 Hb2. apply Hlo; lia.
  - f_equal. lia.
Qed.

Lemma scan_for_find (test : N -> outcome N) (f : N -> N) k pos jt :
  jt <= 7 ->
  (forall j, j <= jt -> test (pos + j) = Val (f (pos + j)) /\ f (pos + j) <= k) ->
  (jt < 7 -> test (pos + (jt + 1)) = Val (f (pos + (jt + 1))) /\ k < f (pos + (jt + 1))) ->
  scan_for test k pos 0 8 = Val (pos + jt).
Proof.
  intros Hjt Hlo Hhi.
  assert (G : forall fuel j, j <= jt + 1 -> (j = jt + 1 -> jt < 7) -> (8 <= N.of_nat fuel + j) ->
            scan_for test k pos j fuel = Val (pos + jt)).
  { induction fuel as [|fuel IH]; intros j Hj1 Hj2 Hf; [lia|].
    cbn [scan_for]. destruct (N.eq_dec j (jt + 1)) as [->|Hne].
    - destruct (Hhi (Hj2 eq_refl)) as [E Hk]. rewrite E. cbn [bind].
      destruct (N.ltb_spec k (f (pos + (jt + 1)))); [|lia].
      unfold osub. destruct (N.leb_spec 1 (jt + 1)); [|lia]. cbn [bind]. f_equal. lia.
    - destruct (Hlo j) as [E Hk]; [lia|]. rewrite E. cbn [bind].
      destruct (N.ltb_spec k (f (pos + j))); [lia|].
      destruct (N.eqb_spec j 7) as [->|H7].
      + f_equal. lia.
      + apply IH; lia. }
  apply G; lia.
Qed.

(* ------------------------------------------------------------------ packed counters *)
(* enc B init c n = (..((init * B + c 1) * B + c 2) .. ) * B + c n *)
Fixpoint enc (B init : N) (c : N -> N) (n : nat) : N :=
  match n with O => init | S m => enc B init c m * B + c (N.of_nat n) end.

Lemma enc_ext B init c c' n : (forall i, 1 <= i -> i <= N.of_nat n -> c i = c' i) ->
  enc B init c n = enc B init c' n.
Proof.
  induction n as [|n IH]; intros H; [reflexivity|].
  cbn [enc]. rewrite IH by (intros; apply H; lia). rewrite H by lia. reflexivity.
Qed.

Lemma enc_bound B init c n : 0 < B -> (forall i, 1 <= i -> i <= N.of_nat n -> c i < B) ->
  enc B init c n < (init + 1) * B ^ N.of_nat n.
Proof.
  intros HB. induction n as [|n IH]; intros H.
  - cbn [enc]. change (N.of_nat 0) with 0. rewrite N.pow_0_r. lia.
  - cbn [enc]. replace (N.of_nat (S n)) with (N.succ (N.of_nat n)) by lia. rewrite N.pow_succ_r'.
    assert (H1 : enc B init c n < (init + 1) * B ^ N.of_nat n) by (apply IH; intros; apply H; lia).
    assert (H2 : c (N.succ (N.of_nat n)) < B) by (apply H; lia).
    set (e := enc B init c n) in *. set (P := (init + 1) * B ^ N.of_nat n) in *.
    replace ((init + 1) * (B * B ^ N.of_nat n)) with (P * B) by (unfold P; lia).
    assert (e + 1 <= P) by lia. assert ((e + 1) * B <= P * B) by (apply N.mul_le_mono_r; assumption). lia.
Qed.

Lemma enc_zero B init c n : (forall i, 1 <= i -> i <= N.of_nat n -> c i = 0) ->
  enc B init c n = init * B ^ N.of_nat n.
Proof.
  induction n as [|n IH]; intros H.
  - cbn [enc]. change (N.of_nat 0) with 0. rewrite N.pow_0_r. lia.
  - cbn [enc]. rewrite IH by (intros; apply H; lia). rewrite H by lia.
    replace (N.of_nat (S n)) with (N.succ (N.of_nat n)) by lia. rewrite N.pow_succ_r'. lia.
Qed.

(* the field of c j, 1 <= j <= n *)
Lemma enc_field B init c n : 0 < B -> (forall i, 1 <= i -> i <= N.of_nat n -> c i < B) ->
  forall j, 1 <= j -> j <= N.of_nat n -> (enc B init c n / B ^ (N.of_nat n - j)) mod B = c j.
Proof.
  intros HB. induction n as [|n IH]; intros H j Hj1 Hj2; [lia|].
  cbn [enc]. destruct (N.eq_dec j (N.of_nat (S n))) as [->|Hne].
  - rewrite N.sub_diag, N.pow_0_r, N.div_1_r.
    rewrite N.add_comm, N.mod_add by lia. apply N.mod_small. apply H; lia.
  - replace (N.of_nat (S n) - j) with (N.succ (N.of_nat n - j)) by lia.
    rewrite N.pow_succ_r', <- N.div_div by (try apply N.pow_nonzero; lia).
    rewrite N.div_add_l by lia. rewrite (N.div_small (c _) B) by (apply H; lia).
    rewrite N.add_0_r. apply IH; [intros; apply H; lia|lia|lia].
Qed.

(* the initial value sits above the n fields *)
Lemma enc_top B init c n : 0 < B -> (forall i, 1 <= i -> i <= N.of_nat n -> c i < B) ->
  enc B init c n / B ^ N.of_nat n = init.
Proof.
  intros HB. induction n as [|n IH]; intros H.
  - cbn [enc]. change (N.of_nat 0) with 0. rewrite N.pow_0_r. apply N.div_1_r.
  - cbn [enc]. replace (N.of_nat (S n)) with (N.succ (N.of_nat n)) by lia.
    rewrite N.pow_succ_r', <- N.div_div by (try apply N.pow_nonzero; lia).
    rewrite N.div_add_l by lia. rewrite (N.div_small (c _) B) by (apply H; lia).
    rewrite N.add_0_r. apply IH. intros; apply H; lia.
Qed.

(* a | b on disjoint bit ranges is a + b *)
Lemma lor_shiftl_add a k c : c < 2 ^ k -> N.lor (N.shiftl a k) c = a * 2 ^ k + c.
Proof.
  intros Hc. rewrite N.shiftl_mul_pow2.
  rewrite <- N.lxor_lor, <- N.add_nocarry_lxor; try reflexivity.
  - apply N.bits_inj_0. intros n. rewrite N.land_spec.
    destruct (N.lt_ge_cases n k) as [Hn|Hn].
    + rewrite N.mul_pow2_bits_low by assumption. reflexivity.
    + destruct (N.eq_dec c 0) as [->|Hc0]; [rewrite N.bits_0; apply andb_false_r|].
      rewrite (N.bits_above_log2 c n); [apply andb_false_r|].
      apply N.log2_lt_pow2 in Hc; lia.
  - apply N.bits_inj_0. intros n. rewrite N.land_spec.
    destruct (N.lt_ge_cases n k) as [Hn|Hn].
    + rewrite N.mul_pow2_bits_low by assumption. reflexivity.
    + destruct (N.eq_dec c 0) as [->|Hc0]; [rewrite N.bits_0; apply andb_false_r|].
      rewrite (N.bits_above_log2 c n); [apply andb_false_r|].
      apply N.log2_lt_pow2 in Hc; lia.
Qed.

Lemma iterN_fix {A} (f : A -> A) n x : f x = x -> iterN f n x = x.
Proof. intros H. induction n as [|n IH]; cbn [iterN]; [reflexivity|]. now rewrite H. Qed.

(* ------------------------------------------------------------------ select samples *)
Definition hint_upd (HS : N) (s : list N) (h : N) (cnt b : N) : list N * N :=
  if h <? cnt / HS then (b :: s, h + 1) else (s, h).

(* R: cumulative count as a function of the bit position, BS: bits per block, HS: ones per hint,
   nl: bound on the block ids; s: the (reversed) samples, h: the hint counter, cur: current count *)
Definition sinv (R : N -> N) (BS HS nl : N) (s : list N) (h cur : N) : Prop :=
  h = cur / HS /\
  exists L, s = rev L /\ len L = h + 1 /\
    forall t b, nthN L t = Some b ->
      b <= nl /\ R (BS * b) <= HS * t /\ (1 <= t -> HS * t <= R (BS * (b + 1))).

Lemma sinv_init R BS HS nl : 0 < HS -> R 0 = 0 -> sinv R BS HS nl [0] 0 0.
Proof.
  intros HH HR. split; [symmetry; apply N.div_0_l; lia|]. exists [0]. repeat split.
  - destruct (N.eq_dec t 0) as [->|Ht]; [rewrite nthN_0 in H; injection H as <-; lia|].
    succ_of t u. rewrite nthN_succ in H. discriminate.
  - destruct (N.eq_dec t 0) as [->|Ht]; [rewrite nthN_0 in H; injection H as <-|].
    + rewrite N.mul_0_r, HR. lia.
    + succ_of t u. rewrite nthN_succ in H. discriminate.
  - intros Ht. destruct (N.eq_dec t 0) as [->|Ht0]; [lia|].
    succ_of t u. rewrite nthN_succ in H. discriminate.
Qed.

Lemma sinv_step R BS HS nl s h cur cur' b :
  0 < HS -> sinv R BS HS nl s h cur -> cur <= cur' -> cur' < cur + HS ->
  b <= nl -> R (BS * b) <= cur -> cur' <= R (BS * (b + 1)) ->
  sinv R BS HS nl (fst (hint_upd HS s h cur' b)) (snd (hint_upd HS s h cur' b)) cur'.
Proof.
  intros HH (Hh & L & Hs & HL & Hent) Hle Hlt Hb HR1 HR2.
  assert (Hq : cur' / HS = cur / HS \/ cur' / HS = cur / HS + 1).
  { assert (cur / HS <= cur' / HS) by (apply N.div_le_mono; lia).
    assert (cur' / HS <= (cur + HS) / HS) by (apply N.div_le_mono; lia).
    replace (cur + HS) with (cur + 1 * HS) in H0 by lia. rewrite N.div_add in H0 by lia. lia. }
  unfold hint_upd. destruct (N.ltb_spec h (cur' / HS)) as [Hc|Hc]; cbn [fst snd].
  - split; [lia|]. exists (L ++ [b]). split; [rewrite rev_app_distr, Hs; reflexivity|].
    split; [lens; lia|]. intros t b' Hn.
    destruct (N.lt_ge_cases t (len L)) as [Ht|Ht].
    + rewrite nthN_app1 in Hn by assumption. apply Hent. exact Hn.
    + rewrite nthN_app2 in Hn by assumption.
      destruct (N.eq_dec (t - len L) 0) as [E|E].
      * rewrite E, nthN_0 in Hn. injection Hn as <-.
        assert (t = h + 1) by lia. subst t.
        pose proof (N.mul_div_le cur HS). pose proof (N.mul_succ_div_gt cur HS).
        pose proof (N.mul_div_le cur' HS).
        assert (HS * (h + 1) = HS * (cur' / HS)) by (f_equal; lia).
        repeat split; [lia| |intros _].
        -- rewrite Hh. replace (HS * (cur / HS + 1)) with (HS * N.succ (cur / HS)) by (f_equal; lia). lia.
        -- lia.
      * assert (Hu : exists u, t - len L = u + 1) by (exists (t - len L - 1); lia).
        destruct Hu as [u Hu]. rewrite Hu, nthN_succ in Hn. discriminate.
  - split; [lia|]. exists L. repeat split; try assumption; apply (Hent t b0 H).
Qed.

(* what the select code needs from the final sample array *)
Definition samples_ok (R : N -> N) (BS HS lenF lastb total : N) (S : list N) : Prop :=
  len S = total / HS + 2 /\
  (forall t b, t <= total / HS -> nthN S t = Some b ->
     b <= lastb /\ R (BS * b) <= HS * t /\ (1 <= t -> HS * t <= R (BS * (b + 1)))) /\
  nthN S (total / HS + 1) = Some lastb /\ lenF <= BS * (lastb + 1).

Lemma sinv_final R BS HS nl s h total lastb lenF :
  sinv R BS HS nl s h total -> nl <= lastb -> lenF <= BS * (lastb + 1) ->
  samples_ok R BS HS lenF lastb total (rev (lastb :: s)).
Proof.
  intros (Hh & L & Hs & HL & Hent) Hnl HlenF. cbn [rev]. rewrite Hs, rev_involutive.
  split; [lens; lia|]. split; [|split; [|assumption]].
  - intros t b Ht Hn. rewrite nthN_app1 in Hn by lia. destruct (Hent t b Hn) as (H1 & H2 & H3).
    split; [lia|split; assumption].
  - rewrite nthN_app2 by lia. replace (total / HS + 1 - len L) with 0 by lia. apply nthN_0.
Qed.

(* the hinted range brackets the block of the wanted position *)
Lemma samples_bracket R BS HS lenF lastb total S k p :
  0 < BS -> 0 < HS ->
  (forall i j, i <= j -> R i <= R j) ->
  samples_ok R BS HS lenF lastb total S ->
  p < lenF -> R p <= k -> k < R (p + 1) -> k < total ->
  exists hs he, nthN S (k / HS) = Some hs /\ nthN S (k / HS + 1) = Some he /\
    hs <= p / BS /\ p / BS <= he /\ he <= lastb.
Proof.
  intros HB HH Hmono (Hlen & Hent & Hlast & HlenF) Hp Hk1 Hk2 Hkt.
  assert (Hh : k / HS <= total / HS) by (apply N.div_le_mono; lia).
  destruct (nthN_lt_some S (k / HS)) as (hs & Ehs); [lia|].
  destruct (nthN_lt_some S (k / HS + 1)) as (he & Ehe); [lia|].
  exists hs, he. split; [assumption|]. split; [assumption|].
  destruct (Hent _ _ Hh Ehs) as (A1 & A2 & _).
  pose proof (N.mul_div_le k HS). pose proof (N.mul_succ_div_gt k HS).
  assert (Hhs : hs <= p / BS).
  { apply N.div_le_lower_bound; [lia|].
    destruct (N.le_gt_cases (BS * hs) p) as [|Hgt]; [assumption|].
    assert (R (p + 1) <= R (BS * hs)) by (apply Hmono; lia). lia. }
  assert (Hhe : p < BS * (he + 1) /\ he <= lastb).
  { destruct (N.eq_dec (k / HS) (total / HS)) as [E|E].
    - rewrite E, Hlast in Ehe. injection Ehe as <-. split; lia.
    - destruct (Hent (k / HS + 1) he) as (B1 & _ & B3); [lia|assumption|]. split; [|assumption].
      assert (B4 : HS * (k / HS + 1) <= R (BS * (he + 1))) by (apply B3; lia).
      destruct (N.lt_ge_cases p (BS * (he + 1))) as [|Hge]; [assumption|].
      assert (R (BS * (he + 1)) <= R p) by (apply Hmono; lia).
      replace (HS * (k / HS + 1)) with (HS * N.succ (k / HS)) in B4 by (f_equal; lia). lia. }
  destruct Hhe as [Hhe1 Hhe2].
  assert (p / BS < he + 1) by (apply N.div_lt_upper_bound; lia).
  repeat split; [assumption|lia|assumption].
Qed.
